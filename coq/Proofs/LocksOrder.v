(** Deadlock freedom for ANY strict order on locks, and why the comparison a transaction sorts
    its dataset names with must be a TOTAL order on names (property C05, round-2 strengthening). *)
From Coq Require Import List NArith Bool Arith Lia.
From DH Require Import Model.Locks Proofs.LocksProofs.
Import ListNotations.

Section AnyOrder.
  Variable lt : lock -> lock -> bool.
  Hypothesis lt_trans : forall a b c, lt a b = true -> lt b c = true -> lt a c = true.
  Hypothesis lt_irrefl : forall a, lt a a = false.

  Definition inv_by (c : config) : Prop :=
    NoDup (all_held (threads c)) /\ Forall (fun t => ordered_by lt (held t) (prog t)) (threads c).

  Lemma tstep_ordered_by busy fs t t' fs' w :
    tstep busy fs t = Some (t', fs', w) -> ordered_by lt (held t) (prog t) -> ordered_by lt (held t') (prog t').
  Proof.
    unfold tstep. destruct (prog t) as [|[l|l|d|ws] p] eqn:E; [discriminate| | | |].
    - destruct (memb l busy); [discriminate|]. intros [= <- <- <-]. cbn. tauto.
    - destruct (memb l (held t)); [|discriminate]. intros [= <- <- <-]. cbn. tauto.
    - intros [= <- <- <-]. cbn. tauto.
    - intros [= <- <- <-]. cbn. tauto.
  Qed.

  Lemma step_inv_by c c' : inv_by c -> step c c' -> inv_by c'.
  Proof.
    intros [N F] [i E]. destruct (exec_at_inv _ _ _ E) as (pre & t & post & t' & fs' & w & Hs & Hl & Ht & ->).
    split; cbn.
    - rewrite Hs in N. eapply tstep_nodup; [| eassumption | assumption]. now rewrite Hs.
    - rewrite Hs in F. apply Forall_app in F. destruct F as [F1 F2]. inversion F2 as [|? ? Ft F3]; subst.
      apply Forall_app. split; [assumption|]. constructor; [|assumption].
      eapply tstep_ordered_by; eassumption.
  Qed.

  Lemma steps_inv_by c c' : inv_by c -> steps c c' -> inv_by c'.
  Proof. intros I S. induction S; [assumption | eapply step_inv_by; eauto]. Qed.

  Lemma init_inv_by ps : Forall (ordered_by lt []) ps -> inv_by (init_config ps).
  Proof.
    intros F. split; cbn.
    - rewrite all_held_init. constructor.
    - apply Forall_map. eapply Forall_impl; [|exact F]. auto.
  Qed.

  Lemma max_held_by (ls : list lock) : ls <> [] -> exists m, In m ls /\ forall h, In h ls -> lt m h = false.
  Proof.
    induction ls as [|x r IH]; [congruence|]. intros _. destruct r as [|y r].
    - exists x. split; [now left|]. intros h [<-|[]]. apply lt_irrefl.
    - destruct IH as (m & Hm & Hmax); [congruence|].
      destruct (lt m x) eqn:E.
      + exists x. split; [now left|]. intros h [<-|Hh]; [apply lt_irrefl|].
        destruct (lt x h) eqn:L; [|reflexivity]. exfalso. pose proof (lt_trans _ _ _ E L) as C.
        rewrite (Hmax h Hh) in C. discriminate.
      + exists m. split; [now right|]. intros h [<-|Hh]; [assumption | now apply Hmax].
  Qed.

  Lemma progress_by c : inv_by c -> terminal c = false -> exists c', step c c'.
  Proof.
    intros [N F] T.
    assert (G : exists pre t post, threads c = pre ++ t :: post /\ prog t <> [] /\
                forall l, In l (all_held (threads c)) -> (forall h, In h (held t) -> lt h l = true) -> False).
    { destruct (all_held (threads c)) as [|a A] eqn:EA.
      - destruct (not_terminal _ T) as (pre & t & post & Hs & Hp). exists pre, t, post. repeat split; auto.
      - destruct (max_held_by (a :: A)) as (m & Hm & Hmax); [congruence|].
        rewrite <- EA in Hm. destruct (in_all_held _ _ Hm) as (pre & t & post & Hs & Hl).
        exists pre, t, post. split; [assumption|]. split.
        + rewrite Hs in F. apply Forall_app in F. destruct F as [_ F]. inversion F as [|? ? Ft _]; subst.
          intros E. rewrite E in Ft. cbn in Ft. rewrite Ft in Hl. contradiction.
        + intros l Il Hlt. specialize (Hmax l Il). rewrite (Hlt m Hl) in Hmax. discriminate. }
    destruct G as (pre & t & post & Hs & Hp & Hfree).
    assert (Ft : ordered_by lt (held t) (prog t)).
    { rewrite Hs in F. apply Forall_app in F. destruct F as [_ F]. now inversion F. }
    assert (E : exists r, tstep (all_held (threads c)) (feeds c) t = Some r).
    { unfold tstep. destruct (prog t) as [|[l|l|d|ws] p] eqn:EP; [congruence| | | |]; cbn in Ft.
      - destruct (memb l (all_held (threads c))) eqn:M; [|eauto].
        apply memb_In in M. exfalso. apply (Hfree l M). tauto.
      - destruct Ft as [I _]. apply memb_In in I. rewrite I. eauto.
      - eauto.
      - eauto. }
    destruct E as ([[t' fs'] w] & E).
    destruct (exec_at_intro _ _ _ _ _ _ _ Hs E) as (c' & Hc'). exists c'. now exists (length pre).
  Qed.

  (** no deadlock under ANY irreflexive transitive comparison that every thread's acquisitions respect *)
  Theorem deadlock_free_any_order ps c :
    Forall (ordered_by lt []) ps -> steps (init_config ps) c -> terminal c = true \/ exists c', step c c'.
  Proof.
    intros F S. destruct (terminal c) eqn:T; [now left | right].
    apply progress_by; [|assumption]. eapply steps_inv_by; [apply init_inv_by|]; eassumption.
  Qed.

  (** *** transactions that sort their datasets with [lt] *)
  Hypothesis lt_total : forall a b, a <> b -> lt a b = true \/ lt b a = true.

  (** with a TOTAL comparison the output of the sort (no element less than an earlier one) on
      distinct names is strictly increasing: there is exactly one admissible arrangement *)
  Lemma weak_sorted_strict ls : NoDup ls -> weak_sortedb lt ls = true -> strict_sortedb lt ls = true.
  Proof.
    induction 1 as [|x r Hx Hr IH]; cbn; [reflexivity|]. rewrite !andb_true_iff. intros [W S].
    split; [|now apply IH]. rewrite forallb_forall in *. intros y Hy.
    specialize (W y Hy). apply negb_true_iff in W.
    destruct (lt_total x y) as [L|L]; [intros ->; contradiction | assumption | congruence].
  Qed.

  Lemma ordered_by_reads H l r : ordered_by lt H r -> ordered_by lt H (map Read l ++ r).
  Proof. induction l; cbn; auto. Qed.

  Lemma ordered_by_acqs ao : forall H r,
    strict_sortedb lt ao = true -> (forall h x, In h H -> In x ao -> lt h x = true) ->
    ordered_by lt (rev ao ++ H) r -> ordered_by lt H (map Acq ao ++ r).
  Proof.
    induction ao as [|x ao IH]; cbn; intros H r S Hlt Hr; [assumption|].
    apply andb_true_iff in S. destruct S as [Sx S]. rewrite forallb_forall in Sx.
    split; [intros h Hh; apply Hlt; auto|].
    apply IH; [assumption | | now rewrite <- app_assoc in Hr].
    intros h y [<-|Hh] Hy; [now apply Sx | apply Hlt; auto].
  Qed.

  Lemma ordered_by_rels L : NoDup L -> ordered_by lt L (map Rel L).
  Proof.
    induction 1 as [|x L Hx HL IH]; cbn; [reflexivity|].
    split; [now left|]. rewrite lock_eqb_refl, removeb_notin; assumption.
  Qed.

  Lemma ordered_by_core_update H m r :
    (forall h, In h H -> lt h LCore = true) -> ordered_by lt H r -> ordered_by lt H (core_update m ++ r).
  Proof.
    intros Hlt Hr. cbn. split; [assumption|]. split; [now left|].
    rewrite removeb_notin; [assumption|]. intros I. specialize (Hlt _ I). rewrite lt_irrefl in Hlt. discriminate.
  Qed.

  (** a transaction whose lock loop runs over the output of a sort by a total comparison (with
      core.Dataset above every dataset it names) respects [lt]; together with
      [deadlock_free_any_order]: any number of such transactions cannot deadlock *)
  Theorem ordered_by_txn ks ao uo :
    permb ao (part_keys ks) = true -> weak_sortedb lt ao = true ->
    (forall d, In d (part_keys ks) -> lt d LCore = true) ->
    ordered_by lt [] (txn_prog ks ao uo).
  Proof.
    intros P W Hc. destruct (permb_spec _ _ P) as (Na & _ & Iff).
    pose proof (weak_sorted_strict _ Na W) as S.
    unfold txn_prog. apply ordered_by_acqs; [assumption | intros h x []|].
    rewrite app_nil_r. apply ordered_by_reads. cbn [app ordered_by].
    assert (Hlt : forall h, In h (rev ao) -> lt h LCore = true).
    { intros h Hh. apply Hc. apply Iff. now apply in_rev. }
    induction uo as [|d uo IH]; cbn [flat_map app].
    - apply ordered_by_rels. now apply NoDup_rev.
    - rewrite <- app_assoc. destruct (find_part d ks) as [p|]; [|exact IH].
      unfold part_update. destruct (p_new p && negb (is_core (p_ds p))); [|exact IH].
      now apply ordered_by_core_update.
  Qed.
End AnyOrder.

Lemma ordered_is_ordered_by H p : ordered H p <-> ordered_by lock_ltb H p.
Proof. revert H. induction p as [|[l|l|d|ws] p IH]; cbn; intros H; try rewrite IH; unfold lock_lt; tauto. Qed.

(** *** a comparison that is not antisymmetric on distinct names: ignoring case *)
Lemma fold_ltb_trans a b c : fold_ltb a b = true -> fold_ltb b c = true -> fold_ltb a c = true.
Proof. unfold fold_ltb. apply lock_lt_trans. Qed.
Lemma fold_ltb_irrefl a : fold_ltb a a = false.
Proof. unfold fold_ltb. destruct (lock_ltb (fold_case a) (fold_case a)) eqn:E; [|reflexivity]. now apply lock_lt_irrefl in E. Qed.

(** "dX01" (1001) and "dx01" (2001) are two datasets, but neither is below the other *)
Lemma fold_ltb_not_total : LDs 1001 <> LDs 2001 /\ fold_ltb (LDs 1001) (LDs 2001) = false /\ fold_ltb (LDs 2001) (LDs 1001) = false.
Proof. split; [discriminate | split; vm_compute; reflexivity]. Qed.

Definition wit_twin_12 : op :=
  OTxn [wit_part (LDs 1001) 1%N; wit_part (LDs 2001) 1%N] [LDs 1001; LDs 2001] [LDs 1001; LDs 2001].
Definition wit_twin_21 : op :=
  OTxn [wit_part (LDs 1001) 1001%N; wit_part (LDs 2001) 1001%N] [LDs 2001; LDs 1001] [LDs 1001; LDs 2001].

(** both arrangements are admissible outputs of a sort by the case-insensitive comparison, and two
    transactions that got opposite ones reach a deadlock *)
Lemma refuted_case_insensitive_order :
  weak_sortedb fold_ltb [LDs 1001; LDs 2001] = true /\ weak_sortedb fold_ltb [LDs 2001; LDs 1001] = true /\
  exists c, steps (init_config [prog_of_ops current [wit_twin_12]; prog_of_ops current [wit_twin_21]]) c
            /\ terminal c = false /\ forall c', ~ step c c'.
Proof.
  split; [vm_compute; reflexivity|]. split; [vm_compute; reflexivity|].
  apply sched_reaches_stuck with (s := [0; 1]). vm_compute. reflexivity.
Qed.

(** *** every lock site must respect the order, also the ones outside the batch / transaction paths.
    A core.Dataset writer that takes the lock of the dataset named in the meta entity it stores (an
    edge core.Dataset -> X) is not [ordered]; together with an ordinary batch into X (X -> core.Dataset
    for the items counter) a deadlock is reachable. *)
Definition setns_locking_target (d : N) : list instr :=
  [Acq LCore; Read LCore; Commit [(LCore, [d])]; Acq (LDs d); Rel (LDs d); Rel LCore].

Lemma setns_locking_not_ordered d : ~ ordered [] (setns_locking_target d).
Proof. cbn. intros (_ & H & _). specialize (H LCore (or_introl eq_refl)). discriminate. Qed.

Lemma refuted_core_then_dataset :
  ordered [] (batch_prog (wit_part (LDs 1) 1%N)) /\ ~ ordered [] (setns_locking_target 1) /\
  exists c, steps (init_config [batch_prog (wit_part (LDs 1) 1%N); setns_locking_target 1]) c
            /\ terminal c = false /\ forall c', ~ step c c'.
Proof.
  split; [apply ordered_batch; reflexivity|]. split; [apply setns_locking_not_ordered|].
  apply sched_reaches_stuck with (s := [0; 0; 0; 1; 1; 1]). vm_compute. reflexivity.
Qed.
