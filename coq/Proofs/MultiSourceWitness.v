(** * Witness histories for the deviations of the pinned tree (property C18), closed by vm_compute.

    [refutes v c n ops b dp since x m after]: after history [ops] the tokens no longer advance (one more
    fault-free incremental run with batch size [b] leaves the state as it is), main entity [m] is required by
    dependency [dp] for the change of entity [x] (whose write is event number [after - 1] of the trace; [since]
    = the position the job had persisted when the change arrived), and [m] was never handed to the sink after
    that change.  Each witness uses a variant in which only the flag of its finding is the tree's. *)
From Coq Require Import List ZArith NArith Bool Arith Lia.
From DH Require Import Model.MultiSource.
Import ListNotations.
Local Open Scope Z_scope.

Definition refutes (v : variant) (c : cfg) (n : nat) (ops : list op) (b : nat) (dp : dep) (since : Z) (x m : N)
           (after : nat) : Prop :=
  let st := exec v c (init_state n) ops in
  fst (fst (step v c (fst st) (ORun false b None 0))) = fst st
  /\ In dp (c_deps c) /\ required c (s_hub (fst st)) dp since x m
  /\ ~ In m (ents_of (skipn after (snd st))).

Definition w (i : N) (refs : list (N * N)) (d : bool) : wver := (i, refs, d).
Definition m3 : op := OAppend 0 [w 1 [] false; w 2 [] false; w 3 [] false].
Definition run (b : nat) : op := ORun false b None 0.

(* F18a *)
Definition c_a : cfg := mkCfg 0 [mkDep 1 [mkJoin 0 1 false]; mkDep 1 [mkJoin 0 2 false]] false.
Definition ops_a : list op :=
  [m3; OAppend 1 [w 11 [(1, 1); (2, 2)] false]; run 2; OAppend 1 [w 11 [(1, 1)] false]; run 2; run 2]%N.
Definition v_a := mkVar SharedEager PrevFeed WmOwn SkipPrev.
Definition ops_a2 : list op :=
  [m3; OAppend 1 [w 11 [(1, 1); (2, 2)] false]; run 2; OAppend 1 [w 11 [(1, 1); (2, 2)] false];
   ORun false 2 (Some 1%nat) 0; run 2; run 2]%N.
(* F18b *)
Definition c_b : cfg := mkCfg 0 [mkDep 1 [mkJoin 0 1 false]] false.
Definition ops_b : list op :=
  [m3; OAppend 1 [w 11 [(1, 1)] false; w 12 [(1, 2)] false]; run 1; OAppend 1 [w 11 [] false; w 12 [] false];
   run 1; run 1; run 1]%N.
Definition v_b := mkVar SharedSnapshot PrevTime WmOwn SkipPrev.
(* F18c *)
Definition c_c : cfg := mkCfg 0 [mkDep 1 [mkJoin 0 1 true]] false.
Definition ops_c : list op :=
  [OAppend 0 [w 1 [(1, 11)] false; w 2 [(1, 12)] false; w 3 [] false]; ORun false 2 None 5; OAppend 1 [w 11 [] false];
   run 2; run 2]%N.
Definition v_c := mkVar SharedSnapshot PrevFeed WmNeighbour SkipPrev.
(* F18d *)
Definition c_d : cfg := mkCfg 0 [mkDep 1 [mkJoin 0 1 false]] true.
Definition ops_d : list op :=
  [m3; OAppend 1 [w 11 [(1, 1)] false; w 12 [] false]; run 1; OAppend 1 [w 12 [] false]; OAppend 1 [w 11 [(1, 2)] false];
   OAppend 1 [w 12 [] false]; OAppend 1 [w 11 [(1, 3)] false]; run 1; run 1; run 1]%N.
Definition v_d := mkVar SharedSnapshot PrevFeed WmOwn SkipDrop.

Ltac triple := unfold triple_at; eexists; split; [vm_compute; reflexivity|split; [reflexivity|cbn; tauto]].
Ltac not_in := vm_compute; intuition discriminate.

Lemma refuted_shared_prev : refutes v_a c_a 2 ops_a 2 (mkDep 1 [mkJoin 0 2 false]) 1 11 2 6.
Proof.
  unfold refutes. split; [vm_compute; reflexivity|]. split; [cbn; tauto|]. split; [|not_in].
  split; [|vm_compute; reflexivity]. right. unfold connected_prev. cbn [d_joins c_a]. split; [reflexivity|]. split; [lia|].
  exists 2%N. split; [|reflexivity]. exists 1%nat. split; [now left|]. cbn [j_inv]. triple.
Qed.

Lemma refuted_shared_token : refutes v_a c_a 2 ops_a2 2 (mkDep 1 [mkJoin 0 2 false]) 1 11 2 6.
Proof.
  unfold refutes. split; [vm_compute; reflexivity|]. split; [cbn; tauto|]. split; [|not_in].
  split; [|vm_compute; reflexivity]. left. split; [discriminate|]. cbn [d_joins d_ds path].
  exists 2%N. split; [|reflexivity]. exists 1%nat. split; [now left|]. cbn [j_inv]. triple.
Qed.

Lemma refuted_prev_time : refutes v_b c_b 2 ops_b 1 (mkDep 1 [mkJoin 0 1 false]) 2 12 2 7.
Proof.
  unfold refutes. split; [vm_compute; reflexivity|]. split; [cbn; tauto|]. split; [|not_in].
  split; [|vm_compute; reflexivity]. right. unfold connected_prev. cbn [d_joins c_b]. split; [reflexivity|]. split; [lia|].
  exists 2%N. split; [|reflexivity]. exists 1%nat. split; [now left|]. cbn [j_inv]. triple.
Qed.

Lemma refuted_watermark : refutes v_c c_c 2 ops_c 2 (mkDep 1 [mkJoin 0 1 true]) 0 11 1 5.
Proof.
  unfold refutes. split; [vm_compute; reflexivity|]. split; [cbn; tauto|]. split; [|not_in].
  split; [|vm_compute; reflexivity]. left. split; [discriminate|]. cbn [d_joins d_ds path].
  exists 1%N. split; [|reflexivity]. exists 0%nat. split; [right; now left|]. cbn [j_inv]. triple.
Qed.

Lemma refuted_latest_only : refutes v_d c_d 2 ops_d 1 (mkDep 1 [mkJoin 0 1 false]) 2 11 1 7.
Proof.
  unfold refutes. split; [vm_compute; reflexivity|]. split; [cbn; tauto|]. split; [|not_in].
  split; [|vm_compute; reflexivity]. right. unfold connected_prev. cbn [d_joins c_d]. split; [reflexivity|]. split; [lia|].
  exists 1%N. split; [|reflexivity]. exists 1%nat. split; [now left|]. cbn [j_inv]. triple.
Qed.

