(** Exact characterisation of the items counter after a crash (pinned tree, CounterSeparate):
    which counter commits of the interrupted write are in, for every crash position. *)
From Coq Require Import List ZArith Bool Lia.
From DH Require Import Model.Store Model.Crash Proofs.StoreProofs Proofs.CrashStore Proofs.CrashProofs.
Import ListNotations.
Open Scope Z_scope.

Definition cval (l : list (Z * Z)) (ds : Z) : Z := match assoc ds l with Some n => n | None => 0 end.

Lemma items_of_add c ds n x :
  items_of (apply_step c (SCounter ds n)) x = if Z.eqb x ds then items_of c x + n else items_of c x.
Proof.
  unfold items_of. cbn [apply_step cs_items]. unfold add_items.
  destruct (Z.eqb_spec x ds) as [->|Hne].
  - now rewrite assoc_set_assoc_same.
  - now rewrite assoc_set_assoc_other.
Qed.

Lemma items_after_counters l : forall c x, NoDup (map fst l) ->
  items_of (apply_steps c (map (fun p : Z * Z => SCounter (fst p) (snd p)) l)) x = items_of c x + cval l x.
Proof.
  induction l as [|[d n] l IH]; intros c x Hnd; cbn [map apply_steps fold_left fst snd].
  - unfold cval. cbn. lia.
  - inversion Hnd as [|? ? Hd Hnd']; subst.
    fold (apply_steps (apply_step c (SCounter d n)) (map (fun p : Z * Z => SCounter (fst p) (snd p)) l)).
    rewrite IH by exact Hnd'. rewrite items_of_add. unfold cval. cbn [assoc].
    destruct (Z.eqb_spec x d) as [->|Hne]; [|reflexivity].
    assert (Hn : assoc d l = None).
    { destruct (assoc d l) eqn:E; [|reflexivity]. exfalso. apply Hd. eapply assoc_In; exact E. }
    rewrite Hn. lia.
Qed.

Lemma nodup_map_fst_firstn {A B} (l : list (A * B)) m : NoDup (map fst l) -> NoDup (map fst (firstn m l)).
Proof.
  revert m. induction l as [|x l IH]; intros [|m] H; cbn [firstn map]; try constructor.
  - inversion H as [|? ? Hx Hl]; subst. intros Hin. apply Hx.
    apply in_map_iff in Hin. destruct Hin as [y [Hy Hin]]. apply in_map_iff. exists y. split; [exact Hy|].
    rewrite <- (firstn_skipn m l). apply in_app_iff. now left.
  - inversion H; subst. now apply IH.
Qed.

Lemma counts_nodup st sets : NoDup (map fst sets) -> NoDup (map fst (counts st sets)).
Proof.
  unfold counts. induction sets as [|[d es] sets IH]; cbn [flat_map map fst snd]; intros H; [constructor|].
  inversion H as [|? ? Hd Hs]; subst. destruct (0 <? new_items (get_ds st d) es); cbn [app map fst]; [|now apply IH].
  constructor; [|now apply IH]. intros Hin. apply Hd.
  apply in_map_iff in Hin. destruct Hin as [[d' n] [Hd' Hin]]. cbn in Hd'. subst d'.
  apply in_flat_map in Hin. destruct Hin as [[d2 es2] [Hin2 Hin3]]. cbn [fst snd] in Hin3.
  destruct (0 <? new_items (get_ds st d2) es2); [|contradiction]. destruct Hin3 as [[= -> _]|[]].
  apply in_map_iff. exists (d, es2). split; [reflexivity | exact Hin2].
Qed.

Lemma counts_pos st sets d n : In (d, n) (counts st sets) -> 0 < n.
Proof.
  unfold counts. intros Hin. apply in_flat_map in Hin. destruct Hin as [[d2 es2] [_ Hin]]. cbn [fst snd] in Hin.
  destruct (Z.ltb_spec 0 (new_items (get_ds st d2) es2)) as [Hlt|]; [|contradiction].
  destruct Hin as [[= _ <-]|[]]. exact Hlt.
Qed.

Lemma assoc_Some_In {V} k (v : V) l : assoc k l = Some v -> In (k, v) l.
Proof.
  induction l as [|[k' v'] l IH]; cbn [assoc In]; [discriminate|].
  destruct (Z.eqb_spec k k') as [->|Hne]; [intros [= ->]; now left | intros H; right; now apply IH].
Qed.

Section Lag.
Variable fl : eqflags.
Variable dm : dup_mode.

(** the counter of every dataset at EVERY crash position of a write, pinned tree: the value before the write
    plus the new items of those counter commits that lie within the first k steps *)
Theorem counter_separate_exact c o k ds : wf_wop o -> cinv c ->
  let ci := commit_index CounterSeparate fl dm c o in
  items_of (crash_at CounterSeparate fl dm k c o) ds
  = items_of c ds + cval (firstn (k - S ci) (cnt_of c o)) ds.
Proof.
  intros Hwf Hc ci.
  assert (Hnd : NoDup (map fst (cnt_of c o))) by (apply counts_nodup; apply (wf_wop_nodup o Hwf)).
  destruct (le_lt_dec k (S ci)) as [Hle|Hgt].
  - replace (k - S ci)%nat with O by lia. cbn [firstn]. unfold cval. cbn [assoc].
    unfold items_of at 1. rewrite (counter_separate_lag fl dm c o k Hwf Hc Hle). fold (items_of c ds). lia.
  - unfold crash_at. rewrite steps_eq. cbn [fst]. subst ci. rewrite commit_index_eq in *.
    destruct (firstn_cases k (pre_of fl dm c o) (SCommitIds (v_asg (vfin fl dm c o))) (data_step CounterSeparate fl dm c o)
                           (post_of CounterSeparate c o)) as [[Hk' _]|[[Hk' _]|[Hk' ->]]]; try lia.
    change (items_of (reopen ?x) ds) with (items_of x ds).
    assert (Hre : forall (P Q : list dstep) a b, P ++ a :: b :: Q = (P ++ [a; b]) ++ Q)
      by (intros; rewrite <- app_assoc; reflexivity).
    rewrite Hre.
    rewrite apply_steps_app. unfold post_of. rewrite firstn_map.
    rewrite items_after_counters by (now apply nodup_map_fst_firstn).
    f_equal.
    (* the counter right after the data commit is the one before the write *)
    pose proof (counter_separate_lag fl dm c o (S (S (length (pre_of fl dm c o)))) Hwf Hc) as Hl.
    rewrite commit_index_eq in Hl. specialize (Hl ltac:(lia)).
    unfold crash_at in Hl. rewrite steps_eq in Hl. cbn [fst reopen cs_items] in Hl.
    destruct (firstn_cases (S (S (length (pre_of fl dm c o)))) (pre_of fl dm c o) (SCommitIds (v_asg (vfin fl dm c o)))
                (data_step CounterSeparate fl dm c o) (post_of CounterSeparate c o)) as [[Hk2 _]|[[Hk2 _]|[_ Hf]]]; try lia.
    rewrite Hf in Hl. replace (S (S (length (pre_of fl dm c o))) - S (S (length (pre_of fl dm c o))))%nat with O in Hl by lia.
    cbn [firstn] in Hl. unfold items_of. now rewrite Hl.
Qed.

(** the counter of [ds] LAGS at crash position k (the data of the write is in, its counter is not what the
    acknowledged write leaves) exactly when the write adds new entities to [ds] and the counter commit of
    [ds] is not among the first k steps *)
Theorem counter_lag_iff c o k ds : wf_wop o -> cinv c ->
  let ci := commit_index CounterSeparate fl dm c o in
  (k > ci)%nat ->
  (items_of (crash_at CounterSeparate fl dm k c o) ds <> items_of (exec_op CounterSeparate fl dm c o) ds
   <-> assoc ds (cnt_of c o) <> None /\ assoc ds (firstn (k - S ci) (cnt_of c o)) = None).
Proof.
  intros Hwf Hc ci Hk.
  rewrite (counter_separate_exact c o k ds Hwf Hc). fold ci.
  destruct (crash_after_all CounterSeparate fl dm c o (length (fst (steps CounterSeparate fl dm c o))) ltac:(lia)) as (_ & _ & Hit).
  assert (Hex : items_of (exec_op CounterSeparate fl dm c o) ds = items_of c ds + cval (cnt_of c o) ds).
  { unfold items_of at 1. rewrite <- Hit. fold (items_of (crash_at CounterSeparate fl dm (length (fst (steps CounterSeparate fl dm c o))) c o) ds).
    rewrite (counter_separate_exact c o _ ds Hwf Hc). fold ci. f_equal. f_equal.
    apply firstn_all2. rewrite steps_eq. cbn [fst]. subst ci. rewrite commit_index_eq.
    rewrite app_length. cbn [length]. unfold post_of. rewrite map_length. lia. }
  rewrite Hex. unfold cval.
  assert (Hsub : forall n, assoc ds (firstn (k - S ci) (cnt_of c o)) = Some n -> assoc ds (cnt_of c o) = Some n).
  { intros n Hn. rewrite <- (firstn_skipn (k - S ci) (cnt_of c o)).
    revert Hn. generalize (firstn (k - S ci) (cnt_of c o)) (skipn (k - S ci) (cnt_of c o)). clear.
    induction l as [|[k' v] l IH]; cbn [assoc app]; intros l0; [discriminate|].
    destruct (Z.eqb ds k'); [trivial | apply IH]. }
  destruct (assoc ds (firstn (k - S ci) (cnt_of c o))) as [n|] eqn:E1.
  - rewrite (Hsub n eq_refl). split; [intros H; exfalso; apply H; reflexivity | intros [_ H]; discriminate].
  - destruct (assoc ds (cnt_of c o)) as [n|] eqn:E2.
    + pose proof (counts_pos _ _ _ _ (assoc_Some_In _ _ _ E2)) as Hp.
      split; [intros _; split; [discriminate | reflexivity] | intros _; lia].
    + split; [intros H; exfalso; apply H; reflexivity | intros [H _]; exfalso; now apply H].
Qed.
End Lag.
