(** Scan lemmas for Model/Query.v: what the outgoing (reverse) scan and the repaired incoming
    (forward) scan return, in terms of the key SET: a relation is returned iff in some
    in-scope dataset the (time, deleted)-greatest key recorded at or before [At] is live. *)
From Coq Require Import List ZArith Bool Lia Sorting.Permutation Sorting.Sorted.
From DH Require Import Model.Store Model.Refs Model.Query Proofs.RefsProofs.
Import ListNotations.
Open Scope Z_scope.


Lemma pair_eqb_eq a b : pair_eqb a b = true <-> a = b.
Proof.
  destruct a, b. unfold pair_eqb. cbn. rewrite andb_true_iff, !Z.eqb_eq. split; [intros [-> ->] | intros [= -> ->]]; auto.
Qed.
Lemma pmem_In f l : pmem f l = true <-> In f l.
Proof.
  unfold pmem. rewrite existsb_exists. split.
  - intros (x & Hx & He). apply pair_eqb_eq in He. now subst.
  - intros H. exists f. split; [assumption | now apply pair_eqb_eq].
Qed.
Lemma trip_eqb_eq a b : trip_eqb a b = true <-> a = b.
Proof.
  destruct a as [a1 a2], b as [b1 b2]. unfold trip_eqb. cbn [fst snd]. rewrite andb_true_iff, pair_eqb_eq, Z.eqb_eq.
  split; [intros [-> ->] | intros [= -> ->]]; auto.
Qed.
Lemma tmem_In g l : tmem g l = true <-> In g l.
Proof.
  unfold tmem. rewrite existsb_exists. split.
  - intros (x & Hx & He). apply trip_eqb_eq in He. now subst.
  - intros H. exists g. split; [assumption | now apply trip_eqb_eq].
Qed.
Lemma zmem_In x l : zmem x l = true <-> In x l.
Proof.
  unfold zmem. rewrite existsb_exists. split.
  - intros (y & Hy & He). apply Z.eqb_eq in He. now subst.
  - intros H. exists x. split; [assumption | apply Z.eqb_refl].
Qed.

(** the greatest key of a fact in a dataset, among those recorded at or before [at_], is live *)
Definition live_at (K : list rk) (at_ : Z) (src p tgt ds : Z) : Prop :=
  exists k, In k K /\ same_fact src p tgt ds k /\ r_time k <= at_ /\ r_del k = false /\
            forall k', In k' K -> same_fact src p tgt ds k' -> r_time k' <= at_ -> ~ newer k' k.

Definition pred_pass (fr : rfrom) (p : Z) : bool := negb (negb (Z.eqb (f_pred fr) p) && (0 <? f_pred fr)).

Lemma pass_same_fact fr src p tgt ds k :
  same_fact src p tgt ds k -> pass fr k = scope_ok (f_scope fr) ds && (r_time k <=? f_at fr) && pred_pass fr p.
Proof. intros (_ & H2 & _ & H4). unfold pass, pred_pass. now rewrite H2, H4. Qed.

Section Scan.
Variable fact : rk -> Z * Z.
Definition group (k : rk) := (fact k, r_ds k).

(** ** keys failing the scope / At / predicate tests do not touch the loop state *)
Lemma out_loop_skip noadd fr limit ks : forall seen added reached res cont,
  out_loop fact noadd fr limit ks seen added reached res cont
  = out_loop fact noadd fr limit (filter (pass fr) ks) seen added reached res cont.
Proof.
  induction ks as [|k ks IH]; intros; cbn [filter out_loop]; [reflexivity|].
  destruct (pass fr k) eqn:E; cbn [negb out_loop]; [|apply IH].
  rewrite E. cbn [negb].
  cbv zeta. destruct (tmem (fact k, r_ds k) seen || pmem (fact k) added); [apply IH|].
  destruct (negb (r_del k) && reached).
  - destruct (at_limit limit res); [reflexivity | apply IH].
  - apply IH.
Qed.

(** ** the outgoing scan without limit: its emissions as a function of the (passing) keys *)
Fixpoint out_emits (ks : list rk) (seen : list (Z * Z * Z)) (added : list (Z * Z)) : list rk :=
  match ks with
  | [] => []
  | k :: ks' =>
    if tmem (group k) seen || pmem (fact k) added then out_emits ks' seen added
    else if r_del k then out_emits ks' (group k :: seen) added
    else k :: out_emits ks' (group k :: seen) (fact k :: added)
  end.

Lemma at_limit_0 {A} (res : list A) : at_limit 0 res = false.
Proof. reflexivity. Qed.

Lemma out_loop_unlimited noadd fr ks : forall seen added res cont,
  Forall (fun k => pass fr k = true) ks ->
  out_loop fact noadd fr 0 ks seen added true res cont = (res ++ out_emits ks seen added, None).
Proof.
  induction ks as [|k ks IH]; intros seen added res cont Hp; cbn [out_loop out_emits].
  - now rewrite app_nil_r.
  - inversion Hp as [|? ? Hk Hks]; subst. rewrite Hk. cbn [negb]. unfold group. cbv zeta.
    destruct (tmem (fact k, r_ds k) seen || pmem (fact k) added); [now apply IH|].
    destruct (r_del k); cbn [negb andb orb].
    + rewrite andb_false_r. now apply IH.
    + rewrite at_limit_0, IH by assumption. now rewrite <- app_assoc.
Qed.

(** which facts are emitted: those having a live key that is the first of its (fact, dataset) group *)
Lemma out_emits_char ks : forall seen added f,
  (In f added \/ In f (map fact (out_emits ks seen added))) <->
  (In f added \/ exists P1 k P2, ks = P1 ++ k :: P2 /\ fact k = f /\ r_del k = false /\ ~ In (group k) seen
                                 /\ forall k', In k' P1 -> group k' <> group k).
Proof.
  induction ks as [|k0 ks IH]; intros seen added f; cbn [out_emits].
  - cbn. split; [tauto|]. intros [H|(P1 & k & P2 & H & _)]; [tauto|]. destruct P1; discriminate.
  - destruct (tmem (group k0) seen || pmem (fact k0) added) eqn:Eskip.
    + rewrite IH. apply orb_true_iff in Eskip. rewrite tmem_In, pmem_In in Eskip.
      split; (intros [H|(P1 & k & P2 & Hs & Hf & Hl & Hseen & Hfirst)]; [now left|]).
      * destruct (trip_eqb (group k0) (group k)) eqn:E.
        -- apply trip_eqb_eq in E. rename E into Hg.
           destruct Eskip as [Hs0|Ha0]; [exfalso; apply Hseen; now rewrite <- Hg|].
           left. rewrite <- Hf. unfold group in Hg. injection Hg as Hg _. rewrite <- Hg. exact Ha0.
        -- right. exists (k0 :: P1), k, P2. cbn [app]. rewrite Hs. repeat split; try assumption.
           intros k' [<-|Hk']; [|now apply Hfirst]. intros Hg. rewrite Hg in E.
           assert (E' : trip_eqb (group k) (group k) = true) by now apply trip_eqb_eq. congruence.
      * destruct P1 as [|x P1]; cbn [app] in Hs; injection Hs as Hk0 Hs; [subst k | subst x].
        -- destruct Eskip as [Hs0|Ha0]; [contradiction|]. left. now rewrite <- Hf.
        -- right. exists P1, k, P2. repeat split; try assumption. intros k' Hk'. apply Hfirst. now right.
    + apply orb_false_iff in Eskip. destruct Eskip as [Es Ea].
      assert (Hns : ~ In (group k0) seen) by (rewrite <- tmem_In; congruence).
      assert (Hna : ~ In (fact k0) added) by (rewrite <- pmem_In; congruence).
      destruct (r_del k0) eqn:Ed.
      * rewrite IH.
        split; (intros [H|(P1 & k & P2 & Hs & Hf & Hl & Hseen & Hfirst)]; [now left|]); right.
        -- exists (k0 :: P1), k, P2. cbn [app]. rewrite Hs. repeat split; try assumption.
           ++ intros Hin. apply Hseen. now right.
           ++ intros k' [<-|Hk']; [|now apply Hfirst]. intros Hg. apply Hseen. left. exact Hg.
        -- destruct P1 as [|x P1]; cbn [app] in Hs; injection Hs as Hk0 Hs; [subst k; congruence | subst x].
           exists P1, k, P2. repeat split; try assumption.
           ++ intros [Hg|Hin]; [|contradiction]. apply (Hfirst k0); [now left | exact Hg].
           ++ intros k' Hk'. apply Hfirst. now right.
      * cbn [map In].
        assert (IH' := IH (group k0 :: seen) (fact k0 :: added) f). cbn [In] in IH'.
        split.
        -- intros [H|[H|H]].
           ++ now left.
           ++ right. exists [], k0, ks. cbn [app]. repeat split; try assumption. intros ? [].
           ++ assert (Hx : (fact k0 = f \/ In f added) \/ In f (map fact (out_emits ks (group k0 :: seen) (fact k0 :: added)))) by tauto.
              apply IH' in Hx. destruct Hx as [[Hx|Hx]|(P1 & k & P2 & Hs & Hf & Hl & Hseen & Hfirst)].
              ** right. exists [], k0, ks. cbn [app]. repeat split; try assumption. intros ? [].
              ** now left.
              ** right. exists (k0 :: P1), k, P2. cbn [app]. rewrite Hs. repeat split; try assumption.
                 --- intros Hin. apply Hseen. now right.
                 --- intros k' [<-|Hk']; [|now apply Hfirst]. intros Hg. apply Hseen. left. exact Hg.
        -- intros [H|(P1 & k & P2 & Hs & Hf & Hl & Hseen & Hfirst)]; [now left|].
           destruct P1 as [|x P1]; cbn [app] in Hs; injection Hs as Hk0 Hs; [subst k | subst x].
           ++ right. left. exact Hf.
           ++ assert (Hx : (fact k0 = f \/ In f added) \/ In f (map fact (out_emits ks (group k0 :: seen) (fact k0 :: added)))).
              { apply IH'. right. exists P1, k, P2. repeat split; try assumption.
                - intros [Hg|Hin]; [|contradiction]. apply (Hfirst k0); [now left | exact Hg].
                - intros k' Hk'. apply Hfirst. now right. }
              tauto.
Qed.

Lemma out_emits_nodup ks : forall seen added,
  NoDup (map fact (out_emits ks seen added)) /\ forall f, In f (map fact (out_emits ks seen added)) -> ~ In f added.
Proof.
  induction ks as [|k0 ks IH]; intros seen added; cbn [out_emits].
  - cbn. split; [constructor | tauto].
  - destruct (tmem (group k0) seen || pmem (fact k0) added) eqn:Eskip; [apply IH|].
    destruct (r_del k0); [apply IH|].
    destruct (IH (group k0 :: seen) (fact k0 :: added)) as [Hn Hd]. cbn [map].
    apply orb_false_iff in Eskip. destruct Eskip as [_ Ea].
    split.
    + constructor; [|assumption]. intros Hin. apply (Hd _ Hin). now left.
    + intros f [<-|Hin].
      * rewrite <- pmem_In. congruence.
      * intros Ha. apply (Hd _ Hin). now right.
Qed.

Lemma out_emits_sub ks : forall seen added k, In k (out_emits ks seen added) -> In k ks /\ r_del k = false.
Proof.
  induction ks as [|k0 ks IH]; intros seen added k; cbn [out_emits]; [intros []|].
  destruct (tmem (group k0) seen || pmem (fact k0) added).
  - intros H. destruct (IH _ _ _ H). split; [now right | assumption].
  - destruct (r_del k0) eqn:Ed.
    + intros H. destruct (IH _ _ _ H). split; [now right | assumption].
    + intros [<-|H]; [split; [now left | assumption]|]. destruct (IH _ _ _ H). split; [now right | assumption].
Qed.

End Scan.

(** ** first of its group in the descending view = greatest in (time, deleted) *)
Notation fact := ofact.
Lemma desc_first_is_greatest K src fr P1 k P2 :
  NoDup K ->
  filter (pass fr) (out_view K src) = P1 ++ k :: P2 ->
  r_del k = false ->
  (forall k', In k' P1 -> group ofact k' <> group ofact k) ->
  live_at K (f_at fr) src (r_pred k) (r_tgt k) (r_ds k)
  /\ scope_ok (f_scope fr) (r_ds k) = true /\ pred_pass fr (r_pred k) = true.
Proof.
  intros Hnd Hsplit Hlive Hfirst.
  assert (Hin : In k (filter (pass fr) (out_view K src))) by (rewrite Hsplit; apply in_or_app; right; now left).
  apply filter_In in Hin. destruct Hin as [Hv Hpass]. apply out_view_In in Hv. destruct Hv as [HK Hsrc].
  assert (Hsf : same_fact src (r_pred k) (r_tgt k) (r_ds k) k) by (repeat split; assumption).
  rewrite (pass_same_fact _ _ _ _ _ _ Hsf) in Hpass. apply andb_true_iff in Hpass. destruct Hpass as [Hpass Hpp].
  apply andb_true_iff in Hpass. destruct Hpass as [Hsc Ht]. apply Z.leb_le in Ht.
  split; [|split; assumption].
  exists k. repeat split; try assumption.
  intros k' HK' Hsf' Ht' Hnewer.
  assert (Hin' : In k' (filter (pass fr) (out_view K src))).
  { apply filter_In. split; [apply out_view_In; split; [assumption | apply Hsf']|].
    rewrite (pass_same_fact _ _ _ _ _ _ Hsf'), Hsc, Hpp. cbn. rewrite andb_true_r. now apply Z.leb_le. }
  assert (Hord : ordered desc_ltb (P1 ++ k :: P2)).
  { rewrite <- Hsplit. apply ordered_filter, out_view_ordered. }
  destruct (ordered_split _ _ _ _ Hord) as [Hbefore Hafter].
  assert (Hlt : okey_ltb k k' = true) by (apply (okey_ltb_same_fact _ _ _ _ _ _ Hsf Hsf'); exact Hnewer).
  rewrite Hsplit in Hin'. apply in_app_or in Hin'. destruct Hin' as [Hp1|[Heq|Hp2]].
  - apply (Hfirst _ Hp1). destruct Hsf' as (_ & B2 & B3 & B4). unfold group, fact. congruence.
  - subst k'. rewrite okey_ltb_irrefl in Hlt. discriminate.
  - specialize (Hafter _ Hp2). unfold desc_ltb in Hafter. congruence.
Qed.

Lemma desc_greatest_is_first K src fr p tgt ds :
  NoDup K ->
  live_at K (f_at fr) src p tgt ds -> scope_ok (f_scope fr) ds = true -> pred_pass fr p = true ->
  exists P1 k P2, filter (pass fr) (out_view K src) = P1 ++ k :: P2 /\ fact k = (p, tgt) /\ r_del k = false
                  /\ forall k', In k' P1 -> group ofact k' <> group ofact k.
Proof.
  intros Hnd (k & HK & Hsf & Ht & Hlive & Hmax) Hsc Hpp.
  assert (Hin : In k (filter (pass fr) (out_view K src))).
  { apply filter_In. split; [apply out_view_In; split; [assumption | apply Hsf]|].
    rewrite (pass_same_fact _ _ _ _ _ _ Hsf), Hsc, Hpp. cbn. rewrite andb_true_r. now apply Z.leb_le. }
  destruct (in_split _ _ Hin) as (P1 & P2 & Hsplit).
  exists P1, k, P2. split; [assumption|]. split; [unfold fact; destruct Hsf as (_ & A2 & A3 & _); now rewrite A2, A3|]. split; [assumption|].
  intros k' Hk' Hg.
  assert (Hin' : In k' (filter (pass fr) (out_view K src))) by (rewrite Hsplit; apply in_or_app; now left).
  apply filter_In in Hin'. destruct Hin' as [Hv' Hpass']. apply out_view_In in Hv'. destruct Hv' as [HK' Hsrc'].
  assert (Hsf' : same_fact src p tgt ds k').
  { destruct Hsf as (A1 & A2 & A3 & A4). unfold group, fact in Hg. injection Hg as G1 G2 G3. repeat split; congruence. }
  assert (Ht' : r_time k' <= f_at fr).
  { unfold pass in Hpass'. apply andb_true_iff in Hpass'. destruct Hpass' as [Hx _]. apply andb_true_iff in Hx.
    destruct Hx as [_ Hx]. now apply Z.leb_le. }
  assert (Hord : ordered desc_ltb (P1 ++ k :: P2)).
  { rewrite <- Hsplit. apply ordered_filter, out_view_ordered. }
  destruct (ordered_split _ _ _ _ Hord) as [Hbefore _].
  specialize (Hbefore _ Hk'). unfold desc_ltb in Hbefore.
  assert (Hne : k' <> k).
  { intros ->. assert (Hnd' : NoDup (P1 ++ k :: P2)).
    { rewrite <- Hsplit. apply NoDup_filter, out_view_NoDup, Hnd. }
    apply NoDup_remove_2 in Hnd'. apply Hnd'. apply in_or_app. now left. }
  assert (Hlt : okey_ltb k k' = true) by (apply okey_ltb_total; [congruence | assumption]).
  apply (okey_ltb_same_fact _ _ _ _ _ _ Hsf Hsf') in Hlt.
  exact (Hmax _ HK' Hsf' Ht' Hlt).
Qed.

(** ** C03 outgoing, at the level of keys: the unlimited first page *)
Theorem out_scan_char noadd K fr :
  NoDup K -> f_key fr = None ->
  let '(res, cont) := related_out noadd K fr 0 in
  cont = None
  /\ NoDup (map fact res)
  /\ (forall k, In k res -> In k K /\ r_src k = f_start fr /\ r_del k = false)
  /\ forall p tgt, In (p, tgt) (map fact res) <->
       exists ds, scope_ok (f_scope fr) ds = true /\ pred_pass fr p = true
                  /\ live_at K (f_at fr) (f_start fr) p tgt ds.
Proof.
  intros Hnd Hkey. unfold related_out. rewrite Hkey, out_loop_skip.
  rewrite out_loop_unlimited by (apply Forall_forall; intros k Hk; apply filter_In in Hk; apply Hk).
  cbn [app]. set (F := filter (pass fr) (out_view K (f_start fr))).
  split; [reflexivity|]. split; [apply out_emits_nodup|]. split.
  - intros k Hk. destruct (out_emits_sub _ _ _ _ _ Hk) as [Hin Hl]. subst F. apply filter_In in Hin.
    destruct Hin as [Hv _]. apply out_view_In in Hv. tauto.
  - intros p tgt. pose proof (out_emits_char ofact F [] [] (p, tgt)) as Hc. cbn [In] in Hc.
    split.
    + intros Hin. assert (Hx : False \/ In (p, tgt) (map fact (out_emits ofact F [] []))) by now right.
      apply Hc in Hx. destruct Hx as [[]|(P1 & k & P2 & Hs & Hf & Hl & _ & Hfirst)].
      destruct (desc_first_is_greatest K (f_start fr) fr P1 k P2 Hnd Hs Hl Hfirst) as (H1 & H2 & H3).
      unfold fact in Hf. injection Hf as <- <-. exists (r_ds k). tauto.
    + intros (ds & Hsc & Hpp & Hlive).
      destruct (desc_greatest_is_first K (f_start fr) fr p tgt ds Hnd Hlive Hsc Hpp) as (P1 & k & P2 & Hs & Hf & Hl & Hfirst).
      assert (Hx : False \/ In (p, tgt) (map fact (out_emits ofact F [] []))).
      { apply Hc. right. exists P1, k, P2. repeat split; try assumption. intros []. }
      destruct Hx as [[]|Hx]. exact Hx.
Qed.

(** ** the repaired incoming scan: the same, on the incoming prefix *)
Definition idesc_ltb (a b : rk) : bool := ikey_ltb b a.
Lemma in_view_desc_In K tgt k : In k (in_view_desc K tgt) <-> In k K /\ r_tgt k = tgt.
Proof. unfold in_view_desc. rewrite isort_In, filter_In, Z.eqb_eq. tauto. Qed.
Lemma in_view_desc_ordered K tgt : ordered idesc_ltb (in_view_desc K tgt).
Proof.
  apply isort_ordered.
  - intros a b c H1 H2. unfold idesc_ltb in *. eapply ikey_ltb_trans; eassumption.
  - intros a. apply ikey_ltb_irrefl.
Qed.
Lemma in_view_desc_NoDup K tgt : NoDup K -> NoDup (in_view_desc K tgt).
Proof. intros H. apply isort_NoDup, NoDup_filter, H. Qed.

Lemma idesc_first_is_greatest K tgt fr P1 k P2 :
  NoDup K ->
  filter (pass fr) (in_view_desc K tgt) = P1 ++ k :: P2 ->
  r_del k = false ->
  (forall k', In k' P1 -> group ifact k' <> group ifact k) ->
  live_at K (f_at fr) (r_src k) (r_pred k) tgt (r_ds k)
  /\ scope_ok (f_scope fr) (r_ds k) = true /\ pred_pass fr (r_pred k) = true.
Proof.
  intros Hnd Hsplit Hlive Hfirst.
  assert (Hin : In k (filter (pass fr) (in_view_desc K tgt))) by (rewrite Hsplit; apply in_or_app; right; now left).
  apply filter_In in Hin. destruct Hin as [Hv Hpass]. apply in_view_desc_In in Hv. destruct Hv as [HK Htgt].
  assert (Hsf : same_fact (r_src k) (r_pred k) tgt (r_ds k) k) by (repeat split; assumption).
  rewrite (pass_same_fact _ _ _ _ _ _ Hsf) in Hpass. apply andb_true_iff in Hpass. destruct Hpass as [Hpass Hpp].
  apply andb_true_iff in Hpass. destruct Hpass as [Hsc Ht]. apply Z.leb_le in Ht.
  split; [|split; assumption].
  exists k. repeat split; try assumption.
  intros k' HK' Hsf' Ht' Hnewer.
  assert (Hin' : In k' (filter (pass fr) (in_view_desc K tgt))).
  { apply filter_In. split; [apply in_view_desc_In; split; [assumption | apply Hsf']|].
    rewrite (pass_same_fact _ _ _ _ _ _ Hsf'), Hsc, Hpp. cbn. rewrite andb_true_r. now apply Z.leb_le. }
  assert (Hord : ordered idesc_ltb (P1 ++ k :: P2)).
  { rewrite <- Hsplit. apply ordered_filter, in_view_desc_ordered. }
  destruct (ordered_split _ _ _ _ Hord) as [Hbefore Hafter].
  assert (Hlt : ikey_ltb k k' = true) by (apply (ikey_ltb_same_fact _ _ _ _ _ _ Hsf Hsf'); exact Hnewer).
  rewrite Hsplit in Hin'. apply in_app_or in Hin'. destruct Hin' as [Hp1|[Heq|Hp2]].
  - apply (Hfirst _ Hp1). destruct Hsf' as (B1 & B2 & B3 & B4). unfold group, ifact. congruence.
  - subst k'. rewrite ikey_ltb_irrefl in Hlt. discriminate.
  - specialize (Hafter _ Hp2). unfold idesc_ltb in Hafter. congruence.
Qed.

Lemma idesc_greatest_is_first K tgt fr p src ds :
  NoDup K ->
  live_at K (f_at fr) src p tgt ds -> scope_ok (f_scope fr) ds = true -> pred_pass fr p = true ->
  exists P1 k P2, filter (pass fr) (in_view_desc K tgt) = P1 ++ k :: P2 /\ ifact k = (p, src) /\ r_del k = false
                  /\ forall k', In k' P1 -> group ifact k' <> group ifact k.
Proof.
  intros Hnd (k & HK & Hsf & Ht & Hlive & Hmax) Hsc Hpp.
  assert (Hin : In k (filter (pass fr) (in_view_desc K tgt))).
  { apply filter_In. split; [apply in_view_desc_In; split; [assumption | apply Hsf]|].
    rewrite (pass_same_fact _ _ _ _ _ _ Hsf), Hsc, Hpp. cbn. rewrite andb_true_r. now apply Z.leb_le. }
  destruct (in_split _ _ Hin) as (P1 & P2 & Hsplit).
  exists P1, k, P2. split; [assumption|]. split; [unfold ifact; destruct Hsf as (A1 & A2 & _); now rewrite A1, A2|]. split; [assumption|].
  intros k' Hk' Hg.
  assert (Hin' : In k' (filter (pass fr) (in_view_desc K tgt))) by (rewrite Hsplit; apply in_or_app; now left).
  apply filter_In in Hin'. destruct Hin' as [Hv' Hpass']. apply in_view_desc_In in Hv'. destruct Hv' as [HK' Htgt'].
  assert (Hsf' : same_fact src p tgt ds k').
  { destruct Hsf as (A1 & A2 & A3 & A4). unfold group, ifact in Hg. injection Hg as G1 G2 G3. repeat split; congruence. }
  assert (Ht' : r_time k' <= f_at fr).
  { unfold pass in Hpass'. apply andb_true_iff in Hpass'. destruct Hpass' as [Hx _]. apply andb_true_iff in Hx.
    destruct Hx as [_ Hx]. now apply Z.leb_le. }
  assert (Hord : ordered idesc_ltb (P1 ++ k :: P2)).
  { rewrite <- Hsplit. apply ordered_filter, in_view_desc_ordered. }
  destruct (ordered_split _ _ _ _ Hord) as [Hbefore _].
  specialize (Hbefore _ Hk'). unfold idesc_ltb in Hbefore.
  assert (Hne : k' <> k).
  { intros ->. assert (Hnd' : NoDup (P1 ++ k :: P2)).
    { rewrite <- Hsplit. apply NoDup_filter, in_view_desc_NoDup, Hnd. }
    apply NoDup_remove_2 in Hnd'. apply Hnd'. apply in_or_app. now left. }
  assert (Hlt : ikey_ltb k k' = true) by (apply ikey_ltb_total; [congruence | assumption]).
  apply (ikey_ltb_same_fact _ _ _ _ _ _ Hsf Hsf') in Hlt.
  exact (Hmax _ HK' Hsf' Ht' Hlt).
Qed.

Theorem in_scan_char K fr :
  NoDup K -> f_key fr = None ->
  let '(res, cont) := related_in_fixed K fr 0 in
  cont = None
  /\ NoDup (map ifact res)
  /\ (forall k, In k res -> In k K /\ r_tgt k = f_start fr /\ r_del k = false)
  /\ forall p src, In (p, src) (map ifact res) <->
       exists ds, scope_ok (f_scope fr) ds = true /\ pred_pass fr p = true
                  /\ live_at K (f_at fr) src p (f_start fr) ds.
Proof.
  intros Hnd Hkey. unfold related_in_fixed. rewrite Hkey, out_loop_skip.
  rewrite out_loop_unlimited by (apply Forall_forall; intros k Hk; apply filter_In in Hk; apply Hk).
  cbn [app]. set (F := filter (pass fr) (in_view_desc K (f_start fr))).
  split; [reflexivity|]. split; [apply out_emits_nodup|]. split.
  - intros k Hk. destruct (out_emits_sub _ _ _ _ _ Hk) as [Hin Hl]. subst F. apply filter_In in Hin.
    destruct Hin as [Hv _]. apply in_view_desc_In in Hv. tauto.
  - intros p src. pose proof (out_emits_char ifact F [] [] (p, src)) as Hc. cbn [In] in Hc.
    split.
    + intros Hin. assert (Hx : False \/ In (p, src) (map ifact (out_emits ifact F [] []))) by now right.
      apply Hc in Hx. destruct Hx as [[]|(P1 & k & P2 & Hs & Hf & Hl & _ & Hfirst)].
      destruct (idesc_first_is_greatest K (f_start fr) fr P1 k P2 Hnd Hs Hl Hfirst) as (H1 & H2 & H3).
      unfold ifact in Hf. injection Hf as <- <-. exists (r_ds k). tauto.
    + intros (ds & Hsc & Hpp & Hlive).
      destruct (idesc_greatest_is_first K (f_start fr) fr p src ds Hnd Hlive Hsc Hpp) as (P1 & k & P2 & Hs & Hf & Hl & Hfirst).
      assert (Hx : False \/ In (p, src) (map ifact (out_emits ifact F [] []))).
      { apply Hc. right. exists P1, k, P2. repeat split; try assumption. intros []. }
      destruct Hx as [[]|Hx]. exact Hx.
Qed.
