(** Link between the C04 evaluator and the theorems: if the implementation's observations agree with
    the model (ANY variant: the crash theorems do not depend on the variant), then the recovered data
    the implementation showed is that of one of its own crash-free reference runs - the executable
    spec's atomicity clause holds on the implementation's observation. *)
From Coq Require Import List ZArith NArith Bool Lia.
From DH Require Import Lib.CheckLib Model.Store Model.FeedSpec Model.Crash Proofs.StoreProofs Proofs.CrashStore
     Proofs.CrashProofs Check.StoreCheck Check.C04Check.
Import ListNotations.
Open Scope Z_scope.

(** ** [list_eqb] over an equivalence *)
Lemma list_eqb_refl {A} (eqb : A -> A -> bool) : (forall x, eqb x x = true) -> forall l, list_eqb eqb l l = true.
Proof. intros H; induction l as [|x l IH]; cbn; [reflexivity | now rewrite H, IH]. Qed.

Lemma list_eqb_sym {A} (eqb : A -> A -> bool) : (forall x y, eqb x y = true -> eqb y x = true) ->
  forall a b, list_eqb eqb a b = true -> list_eqb eqb b a = true.
Proof.
  intros H; induction a as [|x a IH]; destruct b as [|y b]; cbn; try discriminate; [reflexivity|].
  rewrite !andb_true_iff. intros [H1 H2]. split; [now apply H | now apply IH].
Qed.

Lemma list_eqb_trans {A} (eqb : A -> A -> bool) : (forall x y z, eqb x y = true -> eqb y z = true -> eqb x z = true) ->
  forall a b c, list_eqb eqb a b = true -> list_eqb eqb b c = true -> list_eqb eqb a c = true.
Proof.
  intros H; induction a as [|x a IH]; destruct b as [|y b]; destruct c as [|z c]; cbn; try discriminate; [reflexivity|].
  rewrite !andb_true_iff. intros [H1 H2] [H3 H4]. split; [eapply H; eassumption | eapply IH; eassumption].
Qed.

Lemma oent_eqb_refl x : oent_eqb x x = true.
Proof. unfold oent_eqb. now rewrite Z.eqb_refl, identical_refl. Qed.
Lemma oent_eqb_sym x y : oent_eqb x y = true -> oent_eqb y x = true.
Proof. unfold oent_eqb. rewrite !andb_true_iff, Z.eqb_sym, identical_sym. tauto. Qed.
Lemma oent_eqb_trans x y z : oent_eqb x y = true -> oent_eqb y z = true -> oent_eqb x z = true.
Proof.
  unfold oent_eqb. rewrite !andb_true_iff, !Z.eqb_eq. intros [H1 H2] [H3 H4].
  split; [congruence | eapply identical_trans; eassumption].
Qed.

Lemma oents_refl l : oents_eqb l l = true.
Proof. apply list_eqb_refl, oent_eqb_refl. Qed.
Lemma oents_sym a b : oents_eqb a b = true -> oents_eqb b a = true.
Proof. apply list_eqb_sym, oent_eqb_sym. Qed.
Lemma oents_trans a b c : oents_eqb a b = true -> oents_eqb b c = true -> oents_eqb a c = true.
Proof. apply list_eqb_trans, oent_eqb_trans. Qed.

Lemma data_eqv_sym a b : data_eqv a b = true -> data_eqv b a = true.
Proof.
  unfold data_eqv. rewrite !andb_true_iff, !Z.eqb_eq. intros [[[H1 H2] H3] H4].
  repeat split; [congruence | now apply oents_sym..].
Qed.
Lemma data_eqv_trans a b c : data_eqv a b = true -> data_eqv b c = true -> data_eqv a c = true.
Proof.
  unfold data_eqv. rewrite !andb_true_iff, !Z.eqb_eq. intros [[[H1 H2] H3] H4] [[[G1 G2] G3] G4].
  repeat split; [congruence | eapply oents_trans; eassumption..].
Qed.
Lemma datas_sym a b : datas_eqv a b = true -> datas_eqv b a = true.
Proof. apply list_eqb_sym, data_eqv_sym. Qed.
Lemma datas_trans a b c : datas_eqv a b = true -> datas_eqv b c = true -> datas_eqv a c = true.
Proof. apply list_eqb_trans, data_eqv_trans. Qed.

(** ** the rendered data of a model state depends on version records and latest pointers only *)
Lemma model_dsd_data c1 c2 ds :
  data_of (get_ds (cs_store c2) ds) = data_of (get_ds (cs_store c1) ds) ->
  data_eqv (model_dsd c2 ds) (model_dsd c1 ds) = true.
Proof.
  unfold model_dsd. destruct (get_ds (cs_store c2) ds) as [e2 l2 n2]. destruct (get_ds (cs_store c1) ds) as [e1 l1 n1].
  unfold data_of. cbn [d_entries d_latest d_next]. intros [= -> ->].
  unfold data_eqv. cbn [od_ds od_log od_latest od_listing]. rewrite Z.eqb_refl.
  rewrite !oents_refl. reflexivity.
Qed.

Lemma model_datas_data c1 c2 l :
  data_eq (cs_store c2) (cs_store c1) -> datas_eqv (model_datas c2 l) (model_datas c1 l) = true.
Proof.
  intros H. unfold model_datas, datas_eqv. induction l as [|x l IH]; cbn [map list_eqb]; [reflexivity|].
  rewrite IH, andb_true_r. apply model_dsd_data. apply H.
Qed.

Lemma model_datas_names c l l' : map od_ds l = map od_ds l' -> model_datas c l = model_datas c l'.
Proof.
  unfold model_datas. revert l'. induction l as [|x l IH]; destruct l' as [|y l']; cbn [map]; try discriminate; [reflexivity|].
  intros [= H1 H2]. rewrite H1. f_equal. now apply IH.
Qed.

Lemma full_data a b : full_eqv a b = true -> data_eqv a b = true.
Proof. unfold full_eqv. rewrite !andb_true_iff. tauto. Qed.

Lemma full_datas l : forall l0, list_eqb full_eqv l l0 = true -> list_eqb data_eqv l l0 = true.
Proof.
  induction l as [|x l IH]; intros [|y l0]; cbn [list_eqb]; intros H; try discriminate H; try reflexivity.
  apply andb_true_iff in H. destruct H as [H1 H2]. apply andb_true_iff. split; [now apply full_data | now apply IH].
Qed.

Lemma dump_matches_datas c o : dump_matches c o = true -> datas_eqv (model_datas c (o_ds o)) (o_ds o) = true.
Proof.
  unfold dump_matches. rewrite !andb_true_iff. intros [_ H]. now apply full_datas.
Qed.

(** ** well-formed cases *)
Definition wf_crash (cr : crashspec) : Prop := Forall wf_wop (crash_ops cr).
Record wf_tcase (t : tcase) : Prop := {
  wt_next : 0 <= t_next0 t <= t_idp0 t;
  wt_prefix : Forall wf_event (t_prefix t);
  wt_crash : wf_crash (t_crash t);
  wt_namesA : map od_ds (o_ds (t_after t)) = map od_ds (t_refA t);
  wt_namesB : forall rb, t_refB t = Some rb -> map od_ds (o_ds (t_after t)) = map od_ds rb
}.

Lemma crash_or_exec v c1 o k : cinv c1 -> wf_wop o ->
  data_eq (cs_store (crash_at (v_cm v) (v_fl v) (v_dm v) k c1 o)) (cs_store c1)
  \/ data_eq (cs_store (crash_at (v_cm v) (v_fl v) (v_dm v) k c1 o)) (cs_store (exec_op (v_cm v) (v_fl v) (v_dm v) c1 o)).
Proof.
  intros Hc Ho. destruct (crash_data (v_cm v) (v_fl v) (v_dm v) c1 o k) as [H1 H2]. cbv zeta in *.
  destruct (le_lt_dec k (commit_index (v_cm v) (v_fl v) (v_dm v) c1 o)) as [Hle|Hgt]; [left; now apply H1|].
  right. intros ds. rewrite (H2 Hgt ds).
  destruct (exec_op_state (v_cm v) (v_fl v) (v_dm v) c1 o Ho Hc) as (A & _). now rewrite A.
Qed.

Lemma after_commit_data v c1 o done : cinv c1 -> wf_wop o ->
  data_eq (cs_store (after_commit v c1 o done)) (cs_store (exec_op (v_cm v) (v_fl v) (v_dm v) c1 o)).
Proof.
  intros Hc Ho ds. unfold after_commit. cbn [reopen cs_store]. rewrite apply_steps_app, apply_steps_data.
  2:{ apply Forall_forall. intros s Hs. apply filter_In in Hs. destruct Hs as [_ Hs]. destruct s; cbn in Hs; try discriminate. cbn. tauto. }
  destruct (crash_data (v_cm v) (v_fl v) (v_dm v) c1 o (S (commit_index (v_cm v) (v_fl v) (v_dm v) c1 o))) as [_ H2]. cbv zeta in H2.
  specialize (H2 ltac:(lia) ds). unfold crash_at in H2. cbn [reopen cs_store] in H2. rewrite H2.
  destruct (exec_op_state (v_cm v) (v_fl v) (v_dm v) c1 o Ho Hc) as (A & _). now rewrite A.
Qed.

(** every candidate the evaluator tries has the data of the prefix state or of the prefix state plus the
    interrupted write (this is where the crash theorem is used) *)
Lemma candidates_data v c1 cr c2 : cinv c1 -> wf_crash cr -> In c2 (candidates v c1 cr) ->
  data_eq (cs_store c2) (cs_store c1)
  \/ exists o, In o (crash_ops cr) /\ data_eq (cs_store c2) (cs_store (exec_op (v_cm v) (v_fl v) (v_dm v) c1 o)).
Proof.
  intros Hc Hwf Hin.
  destruct cr as [|o phase done|alts]; cbn [candidates crash_ops] in *.
  - destruct Hin as [<-|[]]. left. intros ds. reflexivity.
  - inversion Hwf as [|? ? Ho _]; subst. destruct (phase <? 2).
    + destruct Hin as [<-|[]].
      destruct (crash_or_exec v c1 o (commit_index (v_cm v) (v_fl v) (v_dm v) c1 o - 1 + Z.to_nat phase) Hc Ho) as [H|H];
        [now left | right; exists o; split; [now left | exact H]].
    + destruct Hin as [<-|[]]. right. exists o. split; [now left | now apply after_commit_data].
  - destruct alts as [|o alts].
    + destruct Hin as [<-|[<-|[]]]; left; intros ds; reflexivity.
    + apply in_flat_map in Hin. destruct Hin as [o' [Ho' Hin]].
      unfold wf_crash in Hwf. cbn [crash_ops] in Hwf. rewrite Forall_forall in Hwf. specialize (Hwf o' Ho').
      apply in_app_iff in Hin. destruct Hin as [Hin|Hin]; apply in_map_iff in Hin.
      * destruct Hin as [k [<- _]].
        destruct (crash_or_exec v c1 o' k Hc Hwf) as [H|H]; [now left | right; exists o'; split; assumption].
      * destruct Hin as [dn [<- _]]. right. exists o'. split; [assumption | now apply after_commit_data].
Qed.

(** *** agreement with the model (any variant) implies the atomicity clause of the spec on the
    implementation's own observations *)
Theorem agree_implies_atomic v t : wf_tcase t -> agree v t = true -> atomic_ok t = true.
Proof.
  intros [Hn Hp Hcr HnA HnB] Hag. unfold agree in Hag. cbv zeta in Hag.
  set (c1 := run_events (v_cm v) (v_fl v) (v_dm v) (t_prefix t) (cstate0 (t_next0 t) (t_idp0 t))) in *.
  assert (Hc1 : cinv c1) by (apply run_events_cinv; [exact Hp | now apply cinv0]).
  rewrite !andb_true_iff in Hag. destruct Hag as [[HA HB] HC].
  apply existsb_exists in HC. destruct HC as [c2 [Hin Hm]]. apply andb_true_iff in Hm. destruct Hm as [Hm _].
  pose proof (dump_matches_datas _ _ Hm) as Hobs.
  unfold atomic_ok. apply orb_true_iff.
  destruct (candidates_data v c1 (t_crash t) c2 Hc1 Hcr Hin) as [Hd|[o [Ho Hd]]].
  - left. apply datas_sym in Hobs. eapply datas_trans; [exact Hobs|].
    eapply datas_trans; [apply (model_datas_data c1 c2); exact Hd|].
    rewrite (model_datas_names c1 _ _ HnA). exact HA.
  - destruct (t_refB t) as [rb|] eqn:ErB.
    + right. apply datas_sym in Hobs. eapply datas_trans; [exact Hobs|].
      eapply datas_trans; [apply (model_datas_data (exec_op (v_cm v) (v_fl v) (v_dm v) c1 o) c2); exact Hd|].
      rewrite (model_datas_names (exec_op (v_cm v) (v_fl v) (v_dm v) c1 o) _ _ (HnB rb eq_refl)).
      destruct (crash_ops (t_crash t)) as [|o0 os] eqn:Eo; [contradiction|].
      rewrite forallb_forall in HB. now apply HB.
    + exfalso. destruct (crash_ops (t_crash t)); [contradiction | discriminate].
Qed.
