(** C19: agreement with a repaired variant implies the spec - the model's own snapshots satisfy S in every
    reachable state (from the catalogue invariant), and agreement transfers S to the implementation. *)
From Coq Require Import List ZArith NArith Bool Lia Sorting.Sorted.
From DH Require Import Lib.CheckLib Model.Store Model.Catalogue Proofs.StoreProofs Proofs.CatalogueProofs
     Proofs.CatalogueInv Check.C19Check Proofs.C19CheckProofs.
Import ListNotations.
Open Scope Z_scope.

(** ** sorted duplicate-free key lists ([latest_keys]) *)
Definition ssorted (l : list Z) : Prop := StronglySorted Z.lt l.
Definition sd (l : list Z) : list Z := fold_right insert_sorted [] l.

Lemma insert_sorted_In k l y : In y (insert_sorted k l) <-> y = k \/ In y l.
Proof.
  induction l as [|x l IH]; cbn [insert_sorted In]; [intuition|].
  destruct (k <? x); cbn [In]; [intuition|].
  destruct (Z.eqb_spec k x) as [->|Hne]; cbn [In]; [intuition|]. rewrite IH. intuition.
Qed.

Lemma insert_sorted_ssorted k l : ssorted l -> ssorted (insert_sorted k l).
Proof.
  unfold ssorted. induction l as [|x l IH]; intros Hs; cbn [insert_sorted].
  - constructor; constructor.
  - inversion Hs as [|? ? Hs' Hall]; subst.
    destruct (Z.ltb_spec k x) as [Hlt|Hge].
    + constructor; [exact Hs|]. constructor; [exact Hlt|]. eapply Forall_impl; [|exact Hall]. cbv beta. intros; lia.
    + destruct (Z.eqb_spec k x) as [->|Hne]; [exact Hs|].
      constructor; [now apply IH|]. apply Forall_forall. intros y Hy. apply insert_sorted_In in Hy.
      destruct Hy as [->|Hy]; [lia|]. rewrite Forall_forall in Hall. now apply Hall.
Qed.

Lemma sd_ssorted l : ssorted (sd l).
Proof. induction l as [|x l IH]; cbn [sd fold_right]; [constructor | now apply insert_sorted_ssorted]. Qed.

Lemma sd_In l y : In y (sd l) <-> In y l.
Proof.
  induction l as [|x l IH]; cbn [sd fold_right In]; [tauto|]. fold (sd l). rewrite insert_sorted_In, IH. intuition.
Qed.

Lemma ssorted_NoDup l : ssorted l -> NoDup l.
Proof.
  unfold ssorted. induction l as [|x l IH]; intros Hs; [constructor|].
  inversion Hs as [|? ? Hs' Hall]; subst. constructor; [|now apply IH].
  intros Hin. rewrite Forall_forall in Hall. specialize (Hall x Hin). lia.
Qed.

Lemma insert_sorted_length x s :
  ssorted s -> length (insert_sorted x s) = if zmem x s then length s else S (length s).
Proof.
  unfold ssorted. induction s as [|y s IH]; intros Hs; cbn [insert_sorted]; [reflexivity|].
  inversion Hs as [|? ? Hs' Hall]; subst.
  cbn [zmem existsb]. fold (zmem x s).
  destruct (Z.ltb_spec x y) as [Hlt|Hge].
  - replace (Z.eqb x y) with false by (symmetry; apply Z.eqb_neq; lia). cbn [orb].
    assert (zmem x s = false).
    { apply zmem_false. intros Hin. rewrite Forall_forall in Hall. specialize (Hall x Hin). lia. }
    rewrite H. reflexivity.
  - destruct (Z.eqb_spec x y) as [->|Hne]; cbn [orb length]; [reflexivity|].
    rewrite (IH Hs'). destruct (zmem x s); reflexivity.
Qed.

Lemma sd_length l : Z.of_nat (length (sd l)) = ndistinct l.
Proof.
  induction l as [|x l IH]; cbn [sd fold_right ndistinct]; [reflexivity|]. fold (sd l).
  rewrite insert_sorted_length by apply sd_ssorted.
  assert (zmem x (sd l) = zmem x l).
  { destruct (zmem x l) eqn:E.
    - apply zmem_In. apply sd_In. now apply zmem_In.
    - apply zmem_false. intros H. apply (proj1 (sd_In l x)) in H. exact (proj1 (zmem_false x l) E H). }
  rewrite H. destruct (zmem x l); lia.
Qed.

Lemma ssorted_ext a : forall b, ssorted a -> ssorted b -> (forall x, In x a <-> In x b) -> a = b.
Proof.
  unfold ssorted. induction a as [|x a IH]; intros b Ha Hb He.
  - destruct b as [|y b]; [reflexivity|]. exfalso. apply (He y). now left.
  - destruct b as [|y b]; [exfalso; apply (He x); now left|].
    inversion Ha as [|? ? Ha' Halla]; subst. inversion Hb as [|? ? Hb' Hallb]; subst.
    rewrite Forall_forall in Halla, Hallb.
    assert (x = y).
    { destruct (proj1 (He x) (or_introl eq_refl)) as [->|Hxb]; [reflexivity|].
      destruct (proj2 (He y) (or_introl eq_refl)) as [->|Hya]; [reflexivity|].
      specialize (Hallb x Hxb). specialize (Halla y Hya). lia. }
    subst y. f_equal. apply IH; try assumption.
    intros z. split; intros Hz.
    + destruct (proj1 (He z) (or_intror Hz)) as [->|]; [|assumption]. specialize (Halla z Hz). lia.
    + destruct (proj2 (He z) (or_intror Hz)) as [->|]; [|assumption]. specialize (Hallb z Hz). lia.
Qed.

Lemma ndistinct_ext a b : (forall x, In x a <-> In x b) -> ndistinct a = ndistinct b.
Proof.
  intros He. rewrite <- !sd_length. f_equal. f_equal.
  apply ssorted_ext; try apply sd_ssorted. intros x. rewrite !sd_In. apply He.
Qed.

Lemma assoc_None_keys {V} id (l : list (Z * V)) : assoc id l = None <-> ~ In id (map fst l).
Proof.
  induction l as [|[k v] l IH]; cbn [assoc map fst In]; [tauto|].
  destruct (Z.eqb_spec id k) as [->|Hne]; [split; [discriminate | intros H; exfalso; apply H; now left]|].
  rewrite IH. intuition congruence.
Qed.

(** one latest version per distinct id *)
Lemma latest_count clk d : winv clk d -> Z.of_nat (length (latest_keys d)) = ndistinct (dids d).
Proof.
  intros Hw. unfold latest_keys. fold (sd (map fst (d_latest d))). rewrite sd_length.
  apply ndistinct_ext. intros x.
  pose proof (w_none _ _ Hw x) as H1. pose proof (assoc_None_keys x (d_latest d)) as H2.
  destruct (In_dec Z.eq_dec x (map fst (d_latest d))) as [Hi|Hi], (In_dec Z.eq_dec x (dids d)) as [Hj|Hj]; try tauto.
Qed.

(** ** the live entities of core.Dataset, filtered by id or by name *)
Lemma filter_all_fst (l : list (Z * Z)) a x :
  (forall p, In p l -> fst p = a) -> filter (fun p => Z.eqb (fst p) x) l = if Z.eqb a x then l else [].
Proof.
  intros H. induction l as [|p l IH]; cbn [filter]; [destruct (Z.eqb a x); reflexivity|].
  rewrite (H p (or_introl eq_refl)). rewrite IH by (intros q Hq; apply H; now right).
  destruct (Z.eqb a x); reflexivity.
Qed.

Lemma filter_flat_map_key (g : Z -> list (Z * Z)) x :
  (forall id p, In p (g id) -> fst p = id) ->
  forall ks, NoDup ks -> (~ In x ks -> g x = []) ->
  filter (fun p => Z.eqb (fst p) x) (flat_map g ks) = g x.
Proof.
  intros Hg. induction ks as [|a ks IH]; intros Hnd Hx; cbn [flat_map filter].
  - symmetry. apply Hx. intros [].
  - rewrite filter_app, (filter_all_fst (g a) a x (Hg a)).
    inversion Hnd as [|? ? Hna Hnd']; subst.
    destruct (Z.eqb_spec a x) as [->|Hne].
    + assert (Hnil : forall ks', ~ In x ks' -> filter (fun p => Z.eqb (fst p) x) (flat_map g ks') = []).
      { induction ks' as [|b ks' IH']; intros Hb; cbn [flat_map filter]; [reflexivity|].
        rewrite filter_app, (filter_all_fst (g b) b x (Hg b)).
        replace (Z.eqb b x) with false by (symmetry; apply Z.eqb_neq; intros ->; apply Hb; now left).
        apply IH'. intros H. apply Hb. now right. }
      rewrite (Hnil ks Hna). apply app_nil_r.
    + cbn [app]. apply IH; [exact Hnd'|]. intros H. apply Hx. intros [|]; [congruence | contradiction].
Qed.

Definition live_of (k : cat) (id : uri) : list (uri * Z) :=
  match stored_latest (core k) id with
  | Some c => if c_del c then [] else [(id, m_name (meta_parse c))]
  | None => []
  end.

Lemma live_metas_eq k : live_metas k = flat_map (live_of k) (latest_keys (core k)).
Proof. reflexivity. Qed.

Lemma live_by_id k n : binv k ->
  filter (fun p => Z.eqb (fst p) (meta_uri n)) (live_metas k)
  = match read_meta k n with Some m => if m_del m then [] else [(meta_uri n, m_name m)] | None => [] end.
Proof.
  intros Hb. rewrite live_metas_eq, filter_flat_map_key.
  - unfold live_of, read_meta, core. destruct (stored_latest (get_ds (k_st k) CORE_DS) (meta_uri n)); reflexivity.
  - intros id p. unfold live_of. destruct (stored_latest (core k) id) as [c|]; [|intros []].
    destruct (c_del c); [intros [] | intros [<-|[]]; reflexivity].
  - apply ssorted_NoDup. unfold latest_keys. apply sd_ssorted.
  - intros Hnot. unfold live_of, stored_latest.
    assert (assoc (meta_uri n) (d_latest (core k)) = None).
    { apply assoc_None_keys. intros H. apply Hnot. unfold latest_keys. now apply sd_In. }
    now rewrite H.
Qed.

Lemma live_by_name k n : binv k ->
  filter (fun p => Z.eqb (snd p) n) (live_metas k) = filter (fun p => Z.eqb (fst p) (meta_uri n)) (live_metas k).
Proof.
  intros Hb. apply filter_ext_in. intros p Hp. rewrite live_metas_eq in Hp. apply in_flat_map in Hp.
  destruct Hp as [id [_ Hp]]. unfold live_of in Hp. destruct (stored_latest (core k) id) as [c|] eqn:Es; [|destruct Hp].
  destruct (c_del c); [destruct Hp|]. destruct Hp as [<-|[]]. cbn [fst snd].
  destruct (b_core _ Hb _ _ Es) as [m [-> ->]]. rewrite meta_parse_content.
  destruct (Z.eqb_spec (m_name m) n) as [->|Hne]; [now rewrite Z.eqb_refl|].
  symmetry. apply Z.eqb_neq. intros H. apply Hne. now apply meta_uri_inj.
Qed.

(** ** the last version in the feed is what the latest pointer names *)
Lemma last_filter E id :
  match rev (filter (fun e => Z.eqb (en_id e) id) E) with e :: _ => Some e | [] => None end = last_entry E id.
Proof.
  induction E as [|e E IH]; cbn [filter rev last_entry]; [reflexivity|].
  rewrite <- IH. destruct (Z.eqb (en_id e) id); cbn [rev].
  - destruct (rev (filter (fun e0 => Z.eqb (en_id e0) id) E)); reflexivity.
  - destruct (rev (filter (fun e0 => Z.eqb (en_id e0) id) E)); reflexivity.
Qed.

Lemma last_version_read k n : binv k -> last_version (predict_ds k n) = read_meta k n.
Proof.
  intros Hb. unfold last_version, predict_ds. cbn [o_versions]. unfold meta_versions.
  rewrite <- map_rev. fold (core k).
  pose proof (last_filter (d_entries (core k)) (meta_uri n)) as H.
  unfold read_meta. fold (core k). rewrite (b_last _ Hb (meta_uri n)), <- H.
  destruct (rev (filter (fun e => Z.eqb (en_id e) (meta_uri n)) (d_entries (core k)))); reflexivity.
Qed.

Lemma name_ok_of_cinv fl k n : cinv fl zero k -> name_ok fl k n.
Proof.
  intros [Hb Hr Hm Hc]. specialize (Hm n). unfold name_ok, clause, distinct_of in *.
  destruct (assoc n (k_reg k)) as [r|] eqn:Ea; [|exact Hm].
  destruct Hm as (m & H1 & H2 & H3 & H4 & H5). exists m. repeat (split; [assumption|]).
  intros Hor. destruct (Z.eq_dec n CORE_NAME) as [Hn|Hn].
  - destruct Hor as [|Hcc]; [congruence|]. rewrite Hn in H1, Ea.
    destruct (r_core _ Hr) as [rc [Hrc Hrcc]]. assert (r = rc) by congruence. subst rc.
    rewrite Hrcc. exact (Hc Hcc m H1).
  - specialize (H5 Hn). unfold zero in H5. lia.
Qed.

Lemma list_eqb_pair_refl l : list_eqb pair_eqb l l = true.
Proof. apply (list_eqb_eq pair_eqb pair_eqb_eq). reflexivity. Qed.

(** ** the model's own snapshot satisfies the spec in every state satisfying the invariant *)
Lemma ds_spec_predict fl k n :
  cf_count_core fl = true -> cinv fl zero k -> ds_spec (live_metas k) (predict_ds k n) = true.
Proof.
  intros Hcc Hi. pose proof (name_ok_of_cinv fl k n Hi) as Hok. destruct Hi as [Hb Hr _ _].
  unfold ds_spec. rewrite (live_by_name k _ Hb). rewrite (last_version_read k n Hb).
  cbn [predict_ds o_name o_exists o_rset o_distinct o_latest o_det_found o_det_items].
  rewrite (live_by_id k n Hb).
  unfold name_ok in Hok. unfold exists_ds, distinct_of.
  destruct (assoc n (k_reg k)) as [r|] eqn:Ea.
  - destruct Hok as (m & H1 & H2 & H3 & H4 & H5). rewrite H1, H4, H2. cbn [negb andb].
    rewrite list_eqb_pair_refl. cbn [andb].
    rewrite Z.eqb_refl, H3. rewrite (proj2 (settings_eqb_eq (r_set r) (r_set r)) eq_refl). cbn [andb].
    specialize (H5 (or_intror Hcc)). unfold distinct_of in H5. rewrite Ea in H5. rewrite H5, Z.eqb_refl. cbn [andb].
    rewrite (latest_count _ _ (b_w _ Hb (r_code r))), Z.eqb_refl. reflexivity.
  - destruct (read_meta k n) as [m|].
    + rewrite Hok. reflexivity.
    + reflexivity.
Qed.

Lemma snap_spec_predict fl k names :
  cf_count_core fl = true -> cinv fl zero k -> snap_spec (predict k names) = true.
Proof.
  intros Hcc Hi. unfold snap_spec, predict. cbn [o_live o_ds]. rewrite forallb_forall. intros d Hd.
  apply in_map_iff in Hd. destruct Hd as [n [<- _]]. now apply (ds_spec_predict fl).
Qed.

Definition repaired (fl : cflags) : Prop :=
  cf_count_core fl = true /\ cf_txn_pub fl = true /\ cf_rm_pub fl = true /\ cf_rmw_atomic fl = true.

Lemma model_spec_run_true fl : repaired fl -> forall ops k, cinv fl zero k -> model_spec_run fl k ops = true.
Proof.
  intros (Hcc & Htp & Hrp & Hra). induction ops as [|o ops IH]; intros k Hi; [reflexivity|].
  destruct o as [o|n ents b r bl|n ents b r bl|l|names obs]; cbn [model_spec_run].
  - apply IH. now apply apply_cop_inv.
  - apply IH. unfold do_pair. rewrite Hra. cbn [orb]. apply apply_cop_inv; try assumption. now apply do_batch_inv.
  - apply IH. unfold do_pairc. apply apply_cop_inv; try assumption. now apply do_batch_inv.
  - apply IH. now apply do_setpubm_inv.
  - rewrite (snap_spec_predict fl k names Hcc Hi). cbn [andb]. now apply IH.
Qed.

(** agreement of the implementation with a fully repaired variant implies the spec on the implementation's own
    observations: for every history (incl. the forced schedules) and every snapshot *)
Theorem agree_implies_spec fl c : repaired fl -> agree fl c = true -> spec_ok c = true.
Proof.
  intros Hrep Ha. rewrite (agree_transfers_spec fl c Ha).
  apply model_spec_run_true; [exact Hrep|]. destruct Hrep as (_ & Htp & Hrp & _). now apply cinv_init.
Qed.
