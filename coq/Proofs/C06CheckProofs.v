(** C06: if BOTH observations of a probe - the one recorded when it was first asked and the one made
    later, pinned to that instant - agree with the repaired model, then the two observations agree with
    each other (the executable spec of C06).  Follows from C06_entity / C06_related / now = then. *)
From Coq Require Import List ZArith NArith Bool Lia Sorting.Permutation.
From DH Require Import Lib.CheckLib Model.Store Model.Refs Model.Query Model.GraphSpec Model.PointInTime
     Proofs.StoreProofs Proofs.RefsProofs Proofs.QueryProofs Proofs.RefsInv Proofs.C06Proofs Proofs.C03CheckProofs
     Check.C03Check Check.C06Check.
Import ListNotations.
Open Scope Z_scope.

(** ** asserted URIs only grow; every key's source and target and every version's id is asserted *)
Lemma fold_known_add_in xs : forall l x, In x xs -> zmem x (fold_left known_add xs l) = true.
Proof.
  induction xs as [|y xs IH]; intros l x Hin; [destruct Hin|]. cbn [fold_left]. destruct Hin as [->|Hin].
  - apply fold_known_add_mono, known_add_in.
  - now apply IH.
Qed.

Definition keys_known (known : list uri) (K : list rk) : Prop :=
  forall k, In k K -> zmem (r_src k) known = true /\ zmem (r_tgt k) known = true.
Definition ents_known (known : list uri) (E : list entry) : Prop :=
  forall e, In e E -> zmem (en_id e) known = true.

Lemma ref_uris_In c f : In f (flat_refs c) -> In (snd f) (ref_uris c).
Proof. intros H. unfold ref_uris. apply in_flat_map. exists f. split; [assumption | right; now left]. Qed.

Lemma rbatch_step_known fl dm ds d t acc ie :
  (forall x, zmem x (ra_known acc) = true -> zmem x (ra_known (rbatch_step fl dm ds d t acc ie)) = true)
  /\ (keys_known (ra_known acc) (ra_keys acc) -> ents_known (ra_known acc) (d_entries d) ->
      keys_known (ra_known (rbatch_step fl dm ds d t acc ie)) (ra_keys (rbatch_step fl dm ds d t acc ie)))
  /\ (ents_known (ra_known acc) (a_pend (ra_b acc)) ->
      ents_known (ra_known (rbatch_step fl dm ds d t acc ie)) (a_pend (ra_b (rbatch_step fl dm ds d t acc ie)))).
Proof.
  destruct ie as [i [id c]]. unfold rbatch_step. cbn [snd e_id e_c].
  set (known1 := known_add (ra_known acc) id).
  assert (H1 : forall x, zmem x (ra_known acc) = true -> zmem x known1 = true) by (intros; now apply known_add_mono).
  destruct (keep_decision fl dm (stored_latest d id) (assoc id (a_loc (ra_b acc))) c) eqn:Ek; cbn [ra_known ra_keys ra_b].
  2:{ split; [exact H1|]. split.
      - intros Hk _ k Hin. destruct (Hk k Hin). split; now apply H1.
      - unfold batch_step. cbn [e_id e_c]. rewrite Ek. intros He e Hin. now apply H1, He. }
  set (isnew := negb (zmem id (ra_known acc))).
  set (prev := match assoc id (a_loc (ra_b acc)) with Some l => Some l | None => stored_latest d id end).
  set (known2 := if isnew then known1 else fold_left known_add (match prev with Some p => ref_uris p | None => [] end) known1).
  set (known3 := if isnew || negb (c_del c) then fold_left known_add (ref_uris c) known2 else known2).
  assert (H2 : forall x, zmem x known1 = true -> zmem x known2 = true).
  { intros x Hx. unfold known2. destruct isnew; [assumption | now apply fold_known_add_mono]. }
  assert (H3 : forall x, zmem x known2 = true -> zmem x known3 = true).
  { intros x Hx. unfold known3. destruct (isnew || negb (c_del c)); [now apply fold_known_add_mono | assumption]. }
  assert (Hid : zmem id known3 = true) by (apply H3, H2, known_add_in).
  split; [intros x Hx; now apply H3, H2, H1|]. split.
  - intros Hk _ k Hin. apply fold_rop_In in Hin. destruct Hin as [Hin|(o & Ho & <-)].
    + destruct (Hk k Hin). split; now apply H3, H2, H1.
    + (* a key written by this element *)
      unfold ref_ops in Ho. fold isnew in Ho.
      assert (Hc : isnew || negb (c_del c) = true -> forall f, In f (flat_refs c) -> zmem (snd f) known3 = true).
      { intros Hb f Hf. unfold known3. rewrite Hb. apply fold_known_add_in, ref_uris_In, Hf. }
      assert (Hp : isnew = false -> forall f, In f (match prev with Some p => flat_refs p | None => [] end) -> zmem (snd f) known3 = true).
      { intros Hb f Hf. apply H3. unfold known2. rewrite Hb. destruct prev as [pc|]; [|destruct Hf]. apply fold_known_add_in, ref_uris_In, Hf. }
      destruct isnew eqn:En.
      * apply in_map_iff in Ho. destruct Ho as (f & <- & Hf). cbn [rop_key mkk r_src r_tgt]. split; [exact Hid | now apply Hc].
      * destruct (c_del c) eqn:Ed.
        -- apply in_map_iff in Ho. destruct Ho as (f & <- & Hf). cbn [rop_key mkk r_src r_tgt]. split; [exact Hid | now apply Hp].
        -- apply in_app_or in Ho. destruct Ho as [Ho|Ho].
           ++ apply in_flat_map in Ho. destruct Ho as (f & Hf & [<-|Ho]); [cbn [rop_key mkk r_src r_tgt]; split; [exact Hid | now apply Hc]|].
              destruct (match assoc id (a_loc (ra_b acc)) with Some l => negb (content_eqb fl l c) | None => false end);
                [destruct Ho as [<-|[]]; cbn [rop_key mkk r_src r_tgt]; split; [exact Hid | now apply Hc] | destruct Ho].
           ++ apply in_map_iff in Ho. destruct Ho as (f & <- & Hf). apply filter_In in Hf. destruct Hf as [Hf _].
              cbn [rop_key mkk r_src r_tgt]. split; [exact Hid | now apply Hp].
  - unfold batch_step. cbn [e_id e_c]. rewrite Ek. cbn [a_pend]. intros He e Hin. apply in_app_or in Hin.
    destruct Hin as [Hin|[<-|[]]]; [now apply H3, H2, H1, He | exact Hid].
Qed.

Definition all_known (rs : rstore) : Prop :=
  keys_known (rs_known rs) (rs_keys rs)
  /\ forall p, In p (s_ds (rs_st rs)) -> ents_known (rs_known rs) (d_entries (snd p)).

Lemma get_ds_known rs ds : all_known rs -> ents_known (rs_known rs) (d_entries (get_ds (rs_st rs) ds)).
Proof.
  intros [_ He]. unfold get_ds. induction (s_ds (rs_st rs)) as [|[k v] l IH]; cbn [assoc]; [intros e []|].
  destruct (Z.eqb ds k); [apply (He (k, v)); now left | apply IH; intros p Hp; apply He; now right].
Qed.

Lemma rstore_batch_ds_known fl dm t ds ents rs :
  (forall x, zmem x (rs_known rs) = true -> zmem x (rs_known (rstore_batch_ds fl dm t ds ents rs)) = true)
  /\ (all_known rs -> all_known (rstore_batch_ds fl dm t ds ents rs)).
Proof.
  unfold rstore_batch_ds.
  set (d := get_ds (rs_st rs) ds).
  set (acc0 := {| ra_b := {| a_loc := []; a_pend := []; a_latest := d_latest d; a_next := d_next d |};
                  ra_known := rs_known rs; ra_keys := rs_keys rs |}).
  assert (G : forall l acc,
             (forall x, zmem x (ra_known acc) = true -> zmem x (ra_known (fold_left (rbatch_step fl dm ds d t) l acc)) = true)
             /\ (keys_known (ra_known acc) (ra_keys acc) -> ents_known (ra_known acc) (d_entries d) ->
                 ents_known (ra_known acc) (a_pend (ra_b acc)) ->
                 let acc' := fold_left (rbatch_step fl dm ds d t) l acc in
                 keys_known (ra_known acc') (ra_keys acc') /\ ents_known (ra_known acc') (a_pend (ra_b acc')))).
  { induction l as [|ie l IH]; intros acc; cbn [fold_left]; [split; [tauto | intros; split; assumption]|].
    destruct (rbatch_step_known fl dm ds d t acc ie) as (M1 & M2 & M3).
    destruct (IH (rbatch_step fl dm ds d t acc ie)) as [N1 N2]. split; [intros x Hx; now apply N1, M1|].
    intros Hk Hd Hp. apply N2; [now apply M2 | intros e He; now apply M1, Hd | now apply M3]. }
  destruct (G (number_from 0 ents) acc0) as [G1 G2]. cbn [rs_known rs_keys rs_st].
  split; [exact G1|].
  intros Hall. pose proof (get_ds_known rs ds Hall) as Hd. fold d in Hd. destruct Hall as [Hk He].
  destruct (G2 Hk Hd (fun e H => match H with end)) as [G3 G4]. split; [exact G3|].
  intros p Hp. unfold set_ds in Hp. cbn [s_ds] in Hp. apply set_assoc_In in Hp. destruct Hp as [->|Hp]; cbn [snd d_entries].
  - intros e Hin. apply in_app_or in Hin. destruct Hin as [Hin|Hin]; [now apply G1, Hd | now apply G4].
  - intros e Hin. apply G1. now apply (He p Hp).
Qed.

Lemma txn_fold_known fl dm t sets : forall r,
  (forall x, zmem x (rs_known r) = true ->
             zmem x (rs_known (fold_left (fun s (p : Z * list ent) => rstore_batch_ds fl dm t (fst p) (snd p) s) sets r)) = true)
  /\ (all_known r -> all_known (fold_left (fun s (p : Z * list ent) => rstore_batch_ds fl dm t (fst p) (snd p) s) sets r)).
Proof.
  induction sets as [|[k ents] sets IH]; intros r; cbn [fold_left fst snd]; [split; tauto|].
  destruct (rstore_batch_ds_known fl dm t k ents r) as [A B].
  destruct (IH (rstore_batch_ds fl dm t k ents r)) as [C D].
  split; [intros x Hx; now apply C, A | intros H; now apply D, B].
Qed.

Lemma rapply_known fl dm rs o :
  (forall x, zmem x (rs_known rs) = true -> zmem x (rs_known (rapply fl dm rs o)) = true)
  /\ (all_known rs -> all_known (rapply fl dm rs o)).
Proof.
  unfold rapply. destruct o as [ds ents|sets].
  - destruct (rstore_batch_ds_known fl dm (s_clock (rs_st (rtick rs))) ds ents (rtick rs)) as [A B].
    split; [exact A | intros H; apply B; exact H].
  - destruct (txn_fold_known fl dm (s_clock (rs_st (rtick rs))) sets (rtick rs)) as [A B].
    split; [exact A | intros H; apply B; exact H].
Qed.

Lemma rrun_known fl dm ops : forall rs,
  (forall x, zmem x (rs_known rs) = true -> zmem x (rs_known (rrun fl dm ops rs)) = true)
  /\ (all_known rs -> all_known (rrun fl dm ops rs)).
Proof.
  induction ops as [|o ops IH]; intros rs; cbn [rrun fold_left]; [split; tauto|].
  destruct (rapply_known fl dm rs o) as [A B]. destruct (IH (rapply fl dm rs o)) as [C D]. unfold rrun in *.
  split; [intros x Hx; now apply C, A | intros H; now apply D, B].
Qed.

Lemma all_known0 : all_known rstore0.
Proof. split; [intros k [] | intros p []]. Qed.

(** an id that was never asserted has no version, a URI that was never asserted is on no key *)
Lemma best_version_none id at_ l : (forall e, In e l -> en_id e <> id) -> best_version id at_ l None = None.
Proof.
  induction l as [|e l IH]; intros H; cbn [best_version]; [reflexivity|].
  destruct (Z.eqb_spec (en_id e) id) as [E|E]; [exfalso; apply (H e); [now left | assumption]|].
  cbn [andb]. apply IH. intros x Hx. apply H. now right.
Qed.

Lemma lookup_unknown rs id at_ sc : all_known rs -> zmem id (rs_known rs) = false -> lookup_at (rs_st rs) id at_ sc = no_body.
Proof.
  intros [_ He] Hid. unfold lookup_at, no_body. generalize (([] : list (Z * content)), false) as acc.
  induction (s_ds (rs_st rs)) as [|p l IH]; intros acc; cbn [fold_left]; [reflexivity|].
  rewrite best_version_none.
  - destruct (scope_ok sc (fst p)); apply IH; intros q Hq; apply He; now right.
  - intros e Hin Heq. specialize (He p (or_introl eq_refl) e Hin). rewrite Heq in He. congruence.
Qed.

(** ** body equality is an equivalence *)
Lemma part_eqb_sym a b : part_eqb a b = part_eqb b a.
Proof. unfold part_eqb. now rewrite Z.eqb_sym, identical_sym. Qed.
Lemma part_eqb_trans a b c : part_eqb a b = true -> part_eqb b c = true -> part_eqb a c = true.
Proof.
  unfold part_eqb. rewrite !andb_true_iff, !Z.eqb_eq. intros [H1 H2] [H3 H4]. split; [congruence | eapply identical_trans; eassumption].
Qed.
Lemma list_eqb_sym {A} (eqb : A -> A -> bool) : (forall x y, eqb x y = eqb y x) -> forall l1 l2, list_eqb eqb l1 l2 = list_eqb eqb l2 l1.
Proof. intros H. induction l1 as [|x l1 IH]; destruct l2 as [|y l2]; cbn [list_eqb]; try reflexivity. now rewrite H, IH. Qed.
Lemma list_eqb_trans {A} (eqb : A -> A -> bool) : (forall x y z, eqb x y = true -> eqb y z = true -> eqb x z = true) ->
  forall l1 l2 l3, list_eqb eqb l1 l2 = true -> list_eqb eqb l2 l3 = true -> list_eqb eqb l1 l3 = true.
Proof.
  intros H. induction l1 as [|x l1 IH]; destruct l2 as [|y l2]; destruct l3 as [|z l3]; cbn [list_eqb]; try congruence.
  rewrite !andb_true_iff. intros [E1 E2] [E3 E4]. split; [eapply H; eassumption | eapply IH; eassumption].
Qed.
Lemma list_eqb_nil_l {A} (eqb : A -> A -> bool) l : list_eqb eqb [] l = true -> l = [].
Proof. destruct l; [reflexivity | discriminate]. Qed.

Lemma body_eqb_sym a b : body_eqb a b = true -> body_eqb b a = true.
Proof.
  destruct a as [la da], b as [lb db]. unfold body_eqb. cbn [fst snd]. rewrite !andb_true_iff. intros [H1 H2].
  rewrite (list_eqb_sym part_eqb part_eqb_sym). split; [assumption|].
  destruct la as [|x la].
  - apply list_eqb_nil_l in H1. subst lb. apply Bool.eqb_prop in H2. subst. apply eqb_reflx.
  - destruct lb; [discriminate | reflexivity].
Qed.
Lemma body_eqb_trans a b c : body_eqb a b = true -> body_eqb b c = true -> body_eqb a c = true.
Proof.
  destruct a as [la da], b as [lb db], c as [lc dc]. unfold body_eqb. cbn [fst snd]. rewrite !andb_true_iff. intros [H1 H2] [H3 H4].
  split; [eapply (list_eqb_trans part_eqb part_eqb_trans); eassumption|].
  destruct la as [|x la]; [|reflexivity].
  apply list_eqb_nil_l in H1. subst lb. apply Bool.eqb_prop in H2. apply Bool.eqb_prop in H4. subst. apply eqb_reflx.
Qed.

(** ** multisets of triples *)
Lemma count3_perm x l1 l2 : Permutation l1 l2 -> count3 x l1 = count3 x l2.
Proof.
  unfold count3. induction 1 as [|y l1 l2 _ IH|y z l|l1 l2 l3 _ IH1 _ IH2]; cbn [filter].
  - reflexivity.
  - destruct (trip3_eqb x y); cbn [length]; congruence.
  - destruct (trip3_eqb x y), (trip3_eqb x z); reflexivity.
  - congruence.
Qed.

(** ** now = then for a whole paged query *)
Lemma related_now_then_full q K fr limit c a :
  (forall k, In k K -> r_time k <= c) -> c <= a ->
  exists rs ck, related q K (with_at fr a) limit = (rs, option_map (fun k => with_at (with_key fr k) a) ck)
             /\ related q K (with_at fr c) limit = (rs, option_map (fun k => with_at (with_key fr k) c) ck).
Proof.
  intros Hk Ha.
  assert (Hp : forall k, In k K -> pass (with_at fr a) k = pass (with_at fr c) k).
  { intros k Hin. specialize (Hk k Hin). apply pass_with_at; lia. }
  unfold related. cbn [with_at f_inv]. destruct (f_inv fr).
  - unfold related_in. destruct (q_inv1 q).
    + unfold in_view_from. cbn [with_at f_key f_start].
      rewrite (inv_loop_ext (with_at fr a) (with_at fr c)).
      * destruct (inv_loop (with_at fr c) limit _ istate0) as [rs ck]. exists rs, ck. split; destruct ck; reflexivity.
      * intros k Hin. apply Hp. destruct (f_key fr); [apply filter_In in Hin; destruct Hin as [Hin _]|];
          apply in_view_In in Hin; tauto.
    + unfold related_in_fixed. cbn [with_at f_key f_start].
      rewrite (out_loop_ext ifact false (with_at fr a) (with_at fr c)).
      * destruct (out_loop ifact false (with_at fr c) limit _ [] [] _ [] None) as [rs ck]. exists (map RDef rs), ck.
        split; destruct ck; reflexivity.
      * intros k Hin. apply Hp. apply in_view_desc_In in Hin. tauto.
      * reflexivity.
  - unfold related_out. cbn [with_at f_key f_start].
    rewrite (out_loop_ext ofact (q_noadd q) (with_at fr a) (with_at fr c)).
    + destruct (out_loop ofact (q_noadd q) (with_at fr c) limit _ [] [] _ [] None) as [rs ck]. exists (map RDef rs), ck.
      split; destruct ck; reflexivity.
    + intros k Hin. apply Hp. apply out_view_In in Hin. tauto.
    + reflexivity.
Qed.

Lemma many_now_then q K c a : (forall k, In k K -> r_time k <= c) -> c <= a ->
  forall froms l u, exists rs cs,
    many_related q K (map (fun f => with_at f a) froms) l u = (rs, map (fun f => with_at f a) cs)
    /\ many_related q K (map (fun f => with_at f c) froms) l u = (rs, map (fun f => with_at f c) cs).
Proof.
  intros Hk Ha. induction froms as [|fr froms IH]; intros l u; cbn [map many_related].
  - exists [], []. split; reflexivity.
  - destruct ((0 <? l) || u).
    + destruct (related_now_then_full q K fr l c a Hk Ha) as (rs & ck & H1 & H2). rewrite H1, H2.
      destruct (IH (Z.max (l - len rs) 0) u) as (rs2 & cs2 & H3 & H4). rewrite H3, H4.
      destruct ck as [k|]; cbn [option_map].
      * exists (rs ++ rs2), (with_key fr k :: cs2). split; reflexivity.
      * exists (rs ++ rs2), cs2. split; reflexivity.
    + destruct (IH l u) as (rs2 & cs2 & H3 & H4). rewrite H3, H4. exists rs2, (fr :: cs2). split; reflexivity.
Qed.

Lemma follow_now_then q K c a limits : (forall k, In k K -> r_time k <= c) -> c <= a ->
  forall fuel froms p,
    follow q K (map (fun f => with_at f a) froms) limits p fuel = follow q K (map (fun f => with_at f c) froms) limits p fuel.
Proof.
  intros Hk Ha. induction fuel as [|fuel IH]; intros froms p; cbn [follow]; [reflexivity|].
  destruct (many_now_then q K c a Hk Ha froms (nth_limit limits p) (Z.eqb (nth_limit limits p) 0)) as (rs & cs & H1 & H2).
  rewrite H1, H2. destruct cs as [|f cs]; cbn [map]; [reflexivity|].
  destruct (nth_limit limits p <=? 0); [reflexivity|]. f_equal.
  change (with_at f a :: map (fun f0 => with_at f0 a) cs) with (map (fun f0 => with_at f0 a) (f :: cs)).
  change (with_at f c :: map (fun f0 => with_at f0 c) cs) with (map (fun f0 => with_at f0 c) (f :: cs)). apply IH.
Qed.

(** a start point that is on no key returns one empty page *)
Lemma isort_nil ltb l : l = [] -> isort ltb l = []. Proof. intros ->. reflexivity. Qed.
Lemma filter_none {A} (p : A -> bool) l : (forall x, In x l -> p x = false) -> filter p l = [].
Proof.
  induction l as [|x l IH]; intros H; cbn [filter]; [reflexivity|]. rewrite (H x (or_introl eq_refl)). apply IH. intros; apply H; now right.
Qed.

Lemma related_no_keys q K fr l : 0 <= l ->
  (forall k, In k K -> r_src k <> f_start fr /\ r_tgt k <> f_start fr) -> f_key fr = None ->
  related q K fr l = ([], None).
Proof.
  intros Hl Hno Hkey.
  assert (Ho : filter (fun k => Z.eqb (r_src k) (f_start fr)) K = []).
  { apply filter_none. intros k Hk. apply Z.eqb_neq. apply (Hno k Hk). }
  assert (Hi : filter (fun k => Z.eqb (r_tgt k) (f_start fr)) K = []).
  { apply filter_none. intros k Hk. apply Z.eqb_neq. apply (Hno k Hk). }
  unfold related, related_in, related_in_fixed, related_out, in_view_from, in_view, in_view_desc, out_view.
  rewrite Hkey, Ho, Hi. cbn [isort fold_right out_loop inv_loop map option_map].
  destruct (f_inv fr); [destruct (q_inv1 q)|]; try reflexivity.
  unfold inv_finish, istate0. cbn [i_res i_cur i_pdel i_spill i_cont i_pds]. unfold len. cbn [length Z.of_nat].
  destruct (Z.eqb l 0 || (0 <? l)); reflexivity.
Qed.

Lemma follow_no_keys q K fr limits p fuel : Forall (fun l => 0 <= l) limits ->
  (forall k, In k K -> r_src k <> f_start fr /\ r_tgt k <> f_start fr) -> f_key fr = None ->
  follow q K [fr] limits p (S fuel) = [[]].
Proof.
  intros Hlim Hno Hkey. cbn [follow many_related].
  pose proof (nth_limit_nonneg limits p Hlim) as Hl.
  replace ((0 <? nth_limit limits p) || Z.eqb (nth_limit limits p) 0) with true.
  2:{ symmetry. destruct (Z.eqb_spec (nth_limit limits p) 0); [apply orb_true_r|]. apply orb_true_iff. left. apply Z.ltb_lt. lia. }
  rewrite (related_no_keys q K fr _ Hl Hno Hkey). reflexivity.
Qed.

(** ** from two agreements with the repaired model to agreement of the two observations *)
Lemma pages_match_counts inv M : forall A B, (forall mp, In mp M -> all_def mp) ->
  pages_match inv M (map (map fst) A) = true -> pages_match inv M (map (map fst) B) = true ->
  Forall2 (fun (a b : list rrow) => Permutation (map fst a) (map fst b)) A B.
Proof.
  induction M as [|mp M IH]; intros [|a A] [|b B] Hd; cbn [pages_match map]; try discriminate; [constructor|].
  rewrite !andb_true_iff. intros [H1 H2] [H3 H4]. constructor.
  - eapply perm_trans; [apply (page_matches_perm inv mp _ (Hd mp (or_introl eq_refl)) H1)|].
    apply Permutation_sym, (page_matches_perm inv mp _ (Hd mp (or_introl eq_refl)) H3).
  - apply IH; [intros m Hm; apply Hd; now right | assumption | assumption].
Qed.

Lemma pages_eqv_intro (f : Z -> body) : forall A B,
  Forall2 (fun (a b : list rrow) => Permutation (map fst a) (map fst b)) A B ->
  (forall row, In row (concat A) -> unobserved (snd row) || body_eqb (f (snd (fst row))) (snd row) = true) ->
  (forall row, In row (concat B) -> unobserved (snd row) || body_eqb (f (snd (fst row))) (snd row) = true) ->
  pages_eqv A B = true.
Proof.
  induction 1 as [|a b A B Hp _ IH]; intros HA HB; cbn [pages_eqv]; [reflexivity|].
  apply andb_true_iff. split.
  - unfold rows_eqv. apply andb_true_iff. split.
    + apply forallb_forall. intros x _. apply Nat.eqb_eq. now apply count3_perm.
    + apply forallb_forall. intros ra Hra. apply forallb_forall. intros rb Hrb.
      destruct (trip3_eqb (fst ra) (fst rb)) eqn:E; cbn [negb orb]; [|reflexivity].
      apply trip3_eqb_eq in E.
      assert (H1 : unobserved (snd ra) || body_eqb (f (snd (fst ra))) (snd ra) = true) by (apply HA; cbn [concat]; apply in_or_app; now left).
      assert (H2 : unobserved (snd rb) || body_eqb (f (snd (fst rb))) (snd rb) = true) by (apply HB; cbn [concat]; apply in_or_app; now left).
      destruct (unobserved (snd ra)); [reflexivity|]. destruct (unobserved (snd rb)); [reflexivity|]. cbn [orb] in *.
      rewrite <- E in H2. eapply body_eqb_trans; [apply body_eqb_sym, H1 | exact H2].
  - apply IH; intros row Hrow; [apply HA | apply HB]; cbn [concat]; apply in_or_app; now right.
Qed.

(** well-formed probes: non-negative page limits; relationship probes have one start point (with several, a start
    point whose URI is asserted only later turns the recorded "nothing at all" into the other start points' results -
    the URI table is not versioned) *)
Definition wf_probe (pr : probe) : Prop :=
  match pr with
  | BGet _ _ => True
  | BRel starts _ _ _ limits => (exists s, starts = [s]) /\ Forall (fun l => 0 <= l) limits
  end.
Definition wf_pop (o : pop) : Prop := match o with PAsk _ pr _ => wf_probe pr | _ => True end.
(** fewer than 2^62 writes, so that "now" (1 << 62) is not before the clock *)
Definition wf_pcase (c : pcase) : Prop := Forall wf_pop (pc_ops c) /\ Z.of_nat (length (pc_ops c)) <= now_at.

Definition flx := v_eq (pv_c03 pv_fixed).
Definition dmx := v_dup (pv_c03 pv_fixed).

(** a recorded probe: first asked in [rs0] (reachable), of which the current state is a later extension *)
Definition recorded_ok (dss : list Z) (rs : rstore) (x : probe * Z * pobs) : Prop :=
  let '(pr, t, o0) := x in
  wf_probe pr /\
  exists ops0 later, let rs0 := rrun flx dmx ops0 rstore0 in
    rs = rrun flx dmx later rs0 /\ t = s_clock (rs_st rs0) /\ t <= now_at
    /\ agree_probe pv_fixed dss rs0 pr None o0 = true.

Local Opaque follow.
Lemma agree_two dss rs pr t o0 o :
  recorded_ok dss rs (pr, t, o0) -> agree_probe pv_fixed dss rs pr (Some t) o = true -> obs_eqv o0 o = true.
Proof.
  intros (Hwf & ops0 & later & Hrs & Ht & Hnow & H0). cbv zeta in *.
  set (rs0 := rrun flx dmx ops0 rstore0) in *.
  destruct (reach_facts flx dmx ops0) as (Hsorted & Hnd0 & Het & Hkt). fold rs0 in Hsorted, Hnd0, Het, Hkt.
  destruct (rrun_known flx dmx ops0 rstore0) as [_ Hall0]. specialize (Hall0 all_known0). fold rs0 in Hall0.
  destruct (rrun_known flx dmx later rs0) as [Hmono _]. rewrite <- Hrs in Hmono.
  assert (Hlook : forall id sc, lookup_at (rs_st rs) id t sc = lookup_at (rs_st rs0) id t sc).
  { intros id sc. rewrite Hrs. apply entity_pinned; [exact Hsorted | lia]. }
  destruct (keys_stable flx dmx later rs0 t ltac:(lia)) as (Hkeys & HndK & Hclk). rewrite <- Hrs in Hkeys, HndK, Hclk.
  destruct pr as [id req | starts pred inverse req limits].
  - (* entity lookup *)
    destruct o0 as [f0 b0|]; [|discriminate]. destruct o as [f b|]; [|destruct (zmem id (rs_known rs)); discriminate].
    cbn [agree_probe obs_eqv] in *. rewrite <- Ht in H0. rewrite Hlook.
    destruct (zmem id (rs_known rs0)) eqn:Ek0.
    + rewrite (Hmono id Ek0). apply andb_true_iff in H0. destruct H0 as [-> H0]. intros H. apply andb_true_iff in H. destruct H as [-> H].
      eapply body_eqb_trans; [apply body_eqb_sym, H0 | exact H].
    + apply negb_true_iff in H0. subst f0.
      rewrite (lookup_unknown rs0 id t _ Hall0 Ek0).
      destruct (zmem id (rs_known rs)); [intros H; apply andb_true_iff in H; destruct H as [-> H]; exact H|].
      intros H. apply negb_true_iff in H. subst f. reflexivity.
  - (* relationship query *)
    destruct Hwf as ((s & ->) & Hlim).
    destruct o0 as [f0 b0|p0]; [discriminate|]. destruct o as [f b|p]; [cbn [agree_probe]; discriminate|].
    cbn [agree_probe obs_eqv] in *. cbn [pv_fixed pv_c03 pv_body_now v_fixed mk_variant v_q] in *.
    unfold query_pages in *.
    destruct (negb (Z.eqb pred 0) && negb (zmem pred (rs_known rs0))) eqn:Eref0.
    { destruct p0; [discriminate | reflexivity]. }
    assert (Eref : negb (Z.eqb pred 0) && negb (zmem pred (rs_known rs)) = false).
    { apply andb_false_iff in Eref0. apply andb_false_iff. destruct Eref0 as [E|E]; [now left | right].
      apply negb_false_iff in E. apply negb_false_iff. now apply Hmono. }
    rewrite Eref. destruct p0 as [p0|]; [|destruct (to_related_from _ _ _ _ _ _ _ _) in H0; cbn in H0; discriminate].
    destruct p as [p|]; [|intros H; destruct (to_related_from _ _ _ _ _ _ _ _) in H; cbn in H; discriminate].
    set (q := {| q_inv1 := false; q_scope_all := false; q_noadd := false |}) in *.
    set (sc := resolve_scope q dss req) in *.
    set (mk := fun a => {| f_start := s; f_key := None; f_pred := pred; f_inv := inverse; f_scope := sc; f_at := a |}).
    (* the model's pages of the pinned query in the later state = its pages of the "now" query when first asked *)
    assert (Hpages : match to_related_from q (rs_known rs) dss [s] pred inverse req t with
                     | None => Some [[]] | Some froms => Some (follow q (rs_keys rs) froms limits 0 fuel0) end
                   = match to_related_from q (rs_known rs0) dss [s] pred inverse req now_at with
                     | None => Some [[]] | Some froms => Some (follow q (rs_keys rs0) froms limits 0 fuel0) end).
    { unfold to_related_from. cbn [forallb map]. rewrite !andb_true_r. fold sc. fold (mk t) (mk now_at).
      assert (Hpin : follow q (rs_keys rs) [mk t] limits 0 fuel0 = follow q (rs_keys rs0) [mk t] limits 0 fuel0).
      { symmetry. apply (follow_stable q (rs_keys rs0) (rs_keys rs) t limits Hnd0 (HndK Hnd0) (eq_sym Hkeys) Hlim fuel0 [mk t] 0%nat).
        constructor; [reflexivity | constructor]. }
      destruct (zmem s (rs_known rs0)) eqn:Es0.
      - rewrite (Hmono s Es0), Hpin. f_equal.
        change [mk now_at] with (map (fun f => with_at f now_at) [mk t]).
        change [mk t] with (map (fun f => with_at f t) [mk t]) at 1.
        symmetry. apply follow_now_then; [|exact Hnow]. intros k Hk. rewrite Ht. now apply Hkt.
      - destruct (zmem s (rs_known rs)); [|reflexivity]. rewrite Hpin. f_equal. unfold fuel0.
        apply follow_no_keys; [exact Hlim | | reflexivity].
        intros k Hk. destruct Hall0 as [Hkk _]. destruct (Hkk k Hk) as [H1 H2]. cbn [mk f_start].
        split; intros E; rewrite E in *; congruence. }
    rewrite Hpages. rewrite <- Ht in H0.
    destruct (match to_related_from q (rs_known rs0) dss [s] pred inverse req now_at with
              | None => Some [[]] | Some froms => Some (follow q (rs_keys rs0) froms limits 0 fuel0) end) as [M|] eqn:EM; [|discriminate].
    assert (Hdef : forall mp, In mp M -> all_def mp).
    { unfold to_related_from in EM. destruct (forallb (fun s0 => zmem s0 (rs_known rs0)) [s]).
      - injection EM as <-. apply (follow_all_def q (rs_keys rs0) limits eq_refl).
      - injection EM as <-. intros mp [<-|[]] r []. }
    intros H. apply andb_true_iff in H0, H. destruct H0 as [Hm0 Hb0]. destruct H as [Hm Hb].
    apply (pages_eqv_intro (fun rid => lookup_at (rs_st rs0) rid t sc)).
    + eapply pages_match_counts; eassumption.
    + intros row Hrow. rewrite forallb_forall in Hb0. exact (Hb0 row Hrow).
    + intros row Hrow. rewrite forallb_forall in Hb. specialize (Hb row Hrow).
      replace (Z.min t (s_clock (rs_st rs))) with t in Hb by lia. rewrite Hlook in Hb. exact Hb.
Qed.

Local Transparent follow.

(** ** histories *)
Definition tb_spec (tb : ptable) : list (nat * pobs) := map (fun e => (fst e, snd (snd e))) tb.

Lemma find_tb pid tb : find (fun e : nat * pobs => Nat.eqb (fst e) pid) (tb_spec tb)
                       = option_map (fun x : probe * Z * pobs => (pid, snd x)) (plookup pid tb)
                         \/ exists i x, plookup pid tb = Some x /\ find (fun e : nat * pobs => Nat.eqb (fst e) pid) (tb_spec tb) = Some (i, snd x).
Proof.
  induction tb as [|[i x] tb IH]; cbn [tb_spec map find plookup fst snd]; [now left|].
  destruct (Nat.eqb i pid) eqn:E; [right; exists i, x; split; reflexivity | exact IH].
Qed.

Lemma agree_prun_spec dss : forall ops opsw rs tb,
  rs = rrun flx dmx opsw rstore0 ->
  Z.of_nat (length opsw) + Z.of_nat (length ops) <= now_at ->
  s_clock (rs_st rs) = Z.of_nat (length opsw) ->
  Forall wf_pop ops ->
  (forall pid x, plookup pid tb = Some x -> recorded_ok dss rs x) ->
  agree_prun pv_fixed dss rs tb ops = true -> spec_prun (tb_spec tb) ops = true.
Proof.
  induction ops as [|o ops IH]; intros opsw rs tb Hrs Hlen Hclk Hwf Htb; [reflexivity|].
  pose proof (Forall_inv Hwf) as Ho. pose proof (Forall_inv_tail Hwf) as Hops. cbn [length] in Hlen. rewrite Nat2Z.inj_succ in Hlen.
  destruct o as [w|pid pr o|pid o]; cbn [agree_prun spec_prun].
  - (* a write: every recorded probe stays recorded, one step later *)
    apply (IH (opsw ++ [w])).
    + subst rs. unfold rrun. now rewrite fold_left_app.
    + rewrite app_length. cbn [length]. lia.
    + change (v_eq (pv_c03 pv_fixed)) with flx. change (v_dup (pv_c03 pv_fixed)) with dmx.
      rewrite rapply_clock, Hclk, app_length. cbn [length]. lia.
    + exact Hops.
    + intros pid [[pr t] o0] Hl. destruct (Htb pid _ Hl) as (Hw & ops0 & later & H1 & H2 & H3 & H4).
      split; [exact Hw|]. exists ops0, (later ++ [w]). cbv zeta in *. split; [|auto].
      change (v_eq (pv_c03 pv_fixed)) with flx. change (v_dup (pv_c03 pv_fixed)) with dmx.
      rewrite H1. unfold rrun. now rewrite fold_left_app.
  - (* a probe asked now *)
    rewrite andb_true_iff. intros [Ha Hr].
    change ((pid, o) :: tb_spec tb) with (tb_spec ((pid, (pr, s_clock (rs_st rs), o)) :: tb)).
    apply (IH opsw rs); try assumption; [lia|].
    intros pid' x. cbn [plookup]. destruct (Nat.eqb pid pid'); [|apply Htb].
    intros [= <-]. split; [exact Ho|]. exists opsw, []. cbv zeta. rewrite <- Hrs. cbn [rrun fold_left].
    repeat split; [lia | exact Ha].
  - (* a pinned probe *)
    rewrite andb_true_iff. intros [Ha Hr]. apply andb_true_iff. split; [|apply (IH opsw rs); try assumption; lia].
    destruct (plookup pid tb) as [[[pr t] o0]|] eqn:El; [|discriminate].
    destruct (find_tb pid tb) as [Hf|(i & x & Hx & Hf)].
    + rewrite Hf, El. cbn [option_map snd]. eapply agree_two; [apply (Htb pid _ El) | exact Ha].
    + rewrite Hf. rewrite El in Hx. injection Hx as <-. cbn [snd]. eapply agree_two; [apply (Htb pid _ El) | exact Ha].
Qed.

Theorem agree_implies_spec_c06 c : wf_pcase c -> agree pv_fixed c = true -> spec_ok c = true.
Proof.
  intros [Hwf Hlen]. unfold agree, spec_ok.
  apply (agree_prun_spec (pc_ds c) (pc_ops c) [] rstore0 []); try assumption; try reflexivity.
  intros pid x [=].
Qed.
