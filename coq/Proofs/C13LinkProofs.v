(** Full link between the correspondence evaluator and the theorems: on a case (ending with a dump)
    where the implementation agrees with the repaired model, the WHOLE executable spec [spec_ok] holds on
    the implementation's observations.  The permanence / stability lemmas of NamespaceProofs and IdsProofs
    are lifted to the batch-level run [wrun]: every event is shown to hold against any tables [T] that
    contain what the world has handed out so far ([text]), [text] is antitone along the run, and the
    tables of the final world satisfy it. *)
From Coq Require Import List NArith Bool Arith Lia FinFun.
From DH Require Import Lib.CheckLib Model.Namespace Model.Ids Proofs.NamespaceProofs Proofs.IdsProofs Check.C13Check Proofs.C13CheckProofs.
Import ListNotations.
Open Scope N_scope.

(** ** namespace side *)
Definition ns_extra (m : nsmaps) : Prop := NoDup (map fst (e2p m)) /\ length (e2p m) = length (p2e m).

Lemma nsinv_p2e_nodup m : nsinv m -> NoDup (map fst (p2e m)).
Proof.
  intros [Hk _]. rewrite Hk. apply Injective_map_NoDup; [intros x y; apply ns_name_inj | apply seq_NoDup].
Qed.

Lemma assert_prefix_extra e st : st_inv st -> ns_extra (mem st) -> ns_extra (mem (fst (assert_prefix e st))).
Proof.
  intros [Hinv Hd] [Hn Hl]. unfold assert_prefix.
  destruct (slookup e (e2p (mem st))) as [p|] eqn:El.
  - destruct (nonempty p) eqn:Ene; [split; assumption|].
    destruct p; [|discriminate]. exfalso. now apply (nsinv_no_empty_prefix _ e Hinv).
  - unfold ns_extra. cbn [fst mem e2p p2e].
    rewrite (sset_fresh _ _ _ El), (sset_fresh _ _ _ (nsinv_key_fresh _ Hinv)). split.
    + rewrite map_app. apply NoDup_snoc; [assumption|]. cbn. now apply slookup_None.
    + rewrite !app_length. cbn. lia.
Qed.

Lemma compact_st u st : fst (compact u st) = st \/ exists e, fst (compact u st) = fst (assert_prefix e st).
Proof.
  unfold compact. destruct (is_http u); [|now left]. destruct (url_parts u) as [[e l]|]; [|now left].
  right. exists e. now destruct (assert_prefix e st).
Qed.

Lemma ns_identifier_st v locals st :
  fst (ns_identifier v locals st) = st \/ exists e, fst (ns_identifier v locals st) = fst (assert_prefix e st).
Proof.
  unfold ns_identifier. destruct v as [|x v]; [now left|].
  destruct (is_http (x :: v)); [apply compact_st|].
  assert (Hvia : forall e l,
    fst (match e with [] => (st, None) | _ => let '(st', p) := assert_prefix e st in (st', Some (p ++ c_colon :: l)) end) = st
    \/ exists e', fst (match e with [] => (st, None) | _ => let '(st', p) := assert_prefix e st in (st', Some (p ++ c_colon :: l)) end)
                  = fst (assert_prefix e' st)).
  { intros e l. destruct e as [|y e]; [now left|]. right. exists (y :: e). now destruct (assert_prefix (y :: e) st). }
  destruct (split_first c_colon (x :: v)) as [[lp l]|]; apply Hvia.
Qed.

Lemma ns_step_st a op w :
  nst (fst (ns_step a op w)) = nst w \/ (exists e, nst (fst (ns_step a op w)) = fst (assert_prefix e (nst w)))
  \/ nst (fst (ns_step a op w)) = ns_restart (nst w).
Proof.
  destruct op; cbn [ns_step]; try (now left).
  - right. left. exists e. now destruct (assert_prefix e (nst w)).
  - destruct (compact_st u (nst w)) as [H|[e H]]; destruct (compact u (nst w)) as [st' r]; cbn in *; subst; eauto.
  - destruct (ns_identifier_st v locals (nst w)) as [H|[e H]]; destruct (ns_identifier v locals (nst w)) as [st' r]; cbn in *; subst; eauto.
  - right. right. reflexivity.
Qed.

Lemma ns_step_extra a op w :
  nsw_inv w -> ns_extra (mem (nst w)) -> ns_extra (mem (nst (fst (ns_step a op w)))).
Proof.
  intros Hinv Hx. destruct (ns_step_st a op w) as [H|[[e H]|H]]; rewrite H.
  - assumption.
  - now apply assert_prefix_extra.
  - now rewrite (ns_restart_id _ Hinv).
Qed.

(** [T] still contains every prefix mapping of [st] *)
Definition p2e_in (st : nsstate) (T : tables) : Prop := p2e_ext (p2e (mem st)) (t_p2e T).

Lemma ostr_eqb_some x : ostr_eqb (Some x) x = true.
Proof. cbn. apply str_eqb_refl. Qed.

Lemma compact_event u st T :
  st_inv st ->
  p2e_in (fst (compact u st)) T ->
  spec_event T (HNs (NCompact u), HONs (opt_out (snd (compact u st)))) = true.
Proof.
  intros Hinv HT. destruct (is_http u) eqn:Hh.
  - destruct (compact_spec u st Hinv Hh) as (st' & c & Hc & _ & Hex & _). rewrite Hc in *. cbn [fst snd opt_out spec_event] in *.
    rewrite Hh. cbn [andb]. rewrite (expand_in_ext _ _ _ _ HT Hex). apply ostr_eqb_some.
  - unfold compact. rewrite Hh. cbn. now rewrite Hh.
Qed.

Lemma via_event st T (e l full : str) :
  st_inv st ->
  let r := match e with [] => (st, None) | _ => let '(st', p) := assert_prefix e st in (st', Some (p ++ c_colon :: l)) end in
  p2e_in (fst r) T ->
  match snd r with
  | Some c => e <> [] /\ ostr_eqb (expand_in (t_p2e T) c) (e ++ l) = true
  | None => e = []
  end.
Proof.
  intros Hinv. destruct e as [|y e]; cbn zeta; [reflexivity|].
  pose proof (assert_prefix_spec (y :: e) st Hinv) as Ha. destruct (assert_prefix (y :: e) st) as [st' p].
  destruct Ha as (_ & Hpe & _ & _ & _ & (n & ->)). cbn [fst snd]. intros HT. split; [discriminate|].
  unfold expand_in. rewrite (split_first_app _ _ _ (ns_name_no_colon n)), (HT _ _ Hpe). apply ostr_eqb_some.
Qed.

Lemma ns_identifier_event v locals st T :
  st_inv st ->
  p2e_in (fst (ns_identifier v locals st)) T ->
  spec_event T (HNs (NNsId v locals), HONs (opt_out (snd (ns_identifier v locals st)))) = true.
Proof.
  intros Hinv. unfold ns_identifier. destruct v as [|x v]; [reflexivity|].
  destruct (is_http (x :: v)) eqn:Hh.
  - intros HT. destruct (compact_spec (x :: v) st Hinv Hh) as (st' & c & Hc & _ & Hex & _). rewrite Hc in *.
    cbn [fst snd opt_out spec_event] in *. unfold meant_uri. rewrite Hh.
    rewrite (expand_in_ext _ _ _ _ HT Hex). apply ostr_eqb_some.
  - cbn [spec_event]. unfold meant_uri. rewrite Hh.
    destruct (split_first c_colon (x :: v)) as [[lp l]|].
    + intros HT. pose proof (via_event st T (match slookup lp locals with Some e => e | None => [] end) l [] Hinv HT) as H.
      cbn zeta in H.
      destruct (match match slookup lp locals with Some e => e | None => [] end with
                | [] => (st, None)
                | _ => let '(st', p) := assert_prefix (match slookup lp locals with Some e => e | None => [] end) st in (st', Some (p ++ c_colon :: l))
                end) as [st' r] eqn:E. cbn [fst snd opt_out] in *.
      destruct r as [c|].
      * destruct H as [Hne H]. destruct (slookup lp locals) as [[|y e]|]; try contradiction. exact H.
      * destruct (slookup lp locals) as [[|y e]|]; try discriminate; reflexivity.
    + intros HT. pose proof (via_event st T (match slookup s_under locals with Some e => e | None => [] end) (x :: v) [] Hinv HT) as H.
      cbn zeta in H.
      destruct (match match slookup s_under locals with Some e => e | None => [] end with
                | [] => (st, None)
                | _ => let '(st', p) := assert_prefix (match slookup s_under locals with Some e => e | None => [] end) st in (st', Some (p ++ c_colon :: x :: v))
                end) as [st' r] eqn:E. cbn [fst snd opt_out] in *.
      destruct r as [c|].
      * destruct H as [Hne H]. destruct (slookup s_under locals) as [[|y e]|]; try contradiction. exact H.
      * destruct (slookup s_under locals) as [[|y e]|]; try discriminate; reflexivity.
Qed.

Lemma In_sset {V} k (v : V) m x : In x (sset k v m) -> x = (k, v) \/ In x m.
Proof.
  induction m as [|[k' v'] m IH]; cbn; [intros [<-|[]]; now left|].
  destruct (str_eqb k k'); cbn; intros [<-|H]; auto. destruct (IH H); auto.
Qed.

Lemma ctx_fold_in (key : str -> str) exps : forall m0 p e,
  In (p, e) (fold_left (fun m e => sset (key e) e m) exps m0) -> In (p, e) m0 \/ (In e exps /\ p = key e).
Proof.
  induction exps as [|x exps IH]; intros m0 p e; cbn [fold_left]; [now left|].
  intros H. destruct (IH _ _ _ H) as [H1|[H1 H2]].
  - destruct (In_sset _ _ _ _ H1) as [E|H3]; [injection E as -> ->; right; split; [now left | reflexivity] | now left].
  - right. split; [now right | assumption].
Qed.

Lemma ctx_fold_keep (key : str -> str) exps p : forall m0,
  (forall e', In e' exps -> key e' <> p) ->
  slookup p (fold_left (fun m e => sset (key e) e m) exps m0) = slookup p m0.
Proof.
  induction exps as [|x exps IH]; intros m0 H; cbn [fold_left]; [reflexivity|].
  rewrite IH; [|intros e' He'; apply H; now right].
  apply slookup_set_other. intros E. apply (H x); [now left | now symmetry].
Qed.

Lemma ctx_fold_last (key : str -> str) exps p e : forall m0,
  In e exps -> key e = p -> (forall e', In e' exps -> key e' = p -> e' = e) ->
  slookup p (fold_left (fun m e => sset (key e) e m) exps m0) = Some e.
Proof.
  induction exps as [|x exps IH]; intros m0 Hin Hk Hu; [destruct Hin|]. cbn [fold_left].
  destruct (existsb (fun e' => str_eqb (key e') p) exps) eqn:Ex.
  - apply existsb_exists in Ex. destruct Ex as (e2 & He2 & Hk2). apply str_eqb_eq in Hk2.
    assert (e2 = e) by (apply Hu; [now right | exact Hk2]). subst e2.
    apply IH; [exact He2 | exact Hk | intros e' He' Hk'; apply Hu; [now right | exact Hk']].
  - assert (Hno : forall e', In e' exps -> key e' <> p).
    { intros e' He' Hk'. assert (Ht : existsb (fun e' => str_eqb (key e') p) exps = true).
      { apply existsb_exists. exists e'. split; [exact He' | now apply str_eqb_eq]. }
      congruence. }
    rewrite (ctx_fold_keep key exps p _ Hno).
    destruct Hin as [->|Hin]; [|exfalso; exact (Hno e Hin Hk)].
    rewrite Hk. apply slookup_set_same.
Qed.

Lemma ns_step_event op w T :
  nsw_inv w -> p2e_in (nst (fst (ns_step AliasCopy op w))) T ->
  spec_event T (HNs op, HONs (snd (ns_step AliasCopy op w))) = true.
Proof.
  intros Hinv. destruct op; cbn [ns_step].
  - pose proof (assert_prefix_spec e (nst w) Hinv) as Ha. destruct (assert_prefix e (nst w)) as [st' p].
    destruct Ha as (_ & Hpe & _). cbn [fst snd nst with_st spec_event]. intros HT. unfold maps_to.
    rewrite (HT _ _ Hpe). apply ostr_eqb_some.
  - pose proof (compact_event u (nst w) T Hinv) as H. destruct (compact u (nst w)) as [st' r]. exact H.
  - pose proof (ns_identifier_event v locals (nst w) T Hinv) as H. destruct (ns_identifier v locals (nst w)) as [st' r]. exact H.
  - cbn [fst snd]. intros HT. unfold expand_curie. destruct (expand_in (p2e (mem (nst w))) c) as [x|] eqn:E; cbn [opt_out spec_event]; [|reflexivity].
    rewrite (expand_in_ext _ _ _ _ HT E). apply ostr_eqb_some.
  - cbn [fst snd]. intros HT. unfold get_prefix. destruct (slookup e (e2p (mem (nst w)))) as [p|] eqn:E; cbn [opt_out spec_event]; [|reflexivity].
    destruct Hinv as [[_ Hb] _]. apply Hb in E. unfold maps_to. rewrite (HT _ _ E). apply ostr_eqb_some.
  - cbn [fst snd nst spec_event]. intros HT. apply forallb_forall. intros [p e] Hin. cbn [fst snd]. unfold maps_to.
    assert (E : slookup p (p2e (mem (nst w))) = Some e).
    { apply sIn_lookup; [apply nsinv_p2e_nodup, Hinv | exact Hin]. }
    rewrite (HT _ _ E). apply ostr_eqb_some.
  - cbn [fst snd]. intros _. destruct (nth_error (handles w) h); reflexivity.
  - reflexivity.
  - cbn [fst snd nst spec_event]. intros HT. apply forallb_forall. intros [p e] Hin. cbn [fst snd]. unfold maps_to.
    assert (E : slookup p (p2e (mem (nst w))) = Some e).
    { apply sIn_lookup; [apply nsinv_p2e_nodup, Hinv | exact Hin]. }
    rewrite (HT _ _ E). apply ostr_eqb_some.
  - cbn [fst snd nst spec_event]. intros HT. apply forallb_forall. intros [p e] Hin. cbn [fst snd].
    unfold ctx_of in Hin. destruct (ctx_fold_in _ _ _ _ _ Hin) as [[]|[He Hp]].
    apply andb_true_iff. split.
    + apply existsb_exists. exists e. split; [exact He | apply str_eqb_refl].
    + destruct p as [|c p]; [reflexivity|]. unfold ctx_key, get_prefix in Hp.
      destruct (slookup e (e2p (mem (nst w)))) as [q|] eqn:E; [|discriminate]. subst q.
      destruct Hinv as [[_ Hb] _]. apply Hb in E. unfold maps_to. rewrite (HT _ _ E). apply ostr_eqb_some.
  - reflexivity.
Qed.

(** ** id side *)
Definition disk_in (st : idstate) (T : tables) : Prop := forall u i, In (u, i) (disk st) -> slookup u (t_u2i T) = Some i.
Definition hist_in (st : idstate) (T : tables) : Prop :=
  forall u i u', In (u, i) (hist st) -> nlookup i (t_i2u T) = Some u' -> u' = u.

Lemma disk_in_mono s s' T : id_ext s s' -> disk_in s' T -> disk_in s T.
Proof. intros [H _] HT u i Hin. apply HT, H, Hin. Qed.
Lemma hist_in_mono s s' T : id_ext s s' -> hist_in s' T -> hist_in s T.
Proof. intros [_ H] HT u i u' Hin. apply HT, H, Hin. Qed.

Definition batch_ok (T : tables) (ents : list entity) (oc : outcome) (ids : list N) : bool :=
  ok_outcome oc && Nat.eqb (length ids) (length ents) &&
  match oc with
  | OcOk => forallb (fun ei => id_is T (fst (fst ei)) (snd ei)) (combine ents ids)
  | _ => forallb (fun ei => match nlookup (snd ei) (t_i2u T) with
                            | Some u => N.eqb (snd ei) 0 || str_eqb u (fst (fst ei))
                            | None => true
                            end) (combine ents ids)
  end.

Lemma batch_ok_of T (ents : list entity) oc ids s :
  oc_ok oc -> length ids = length ents ->
  (forall ent id, In (ent, id) (combine ents ids) -> id = 0 \/ In (fst ent, id) (hist s)) ->
  (oc = OcOk -> forall ent id, In (ent, id) (combine ents ids) -> In (fst ent, id) (disk s)) ->
  disk_in s T -> hist_in s T -> batch_ok T ents oc ids = true.
Proof.
  intros Hoc Hlen HA HB HD HH. unfold batch_ok. rewrite Hlen, Nat.eqb_refl.
  assert (Hhist : forallb (fun ei : entity * N => match nlookup (snd ei) (t_i2u T) with
                            | Some u => N.eqb (snd ei) 0 || str_eqb u (fst (fst ei))
                            | None => true end) (combine ents ids) = true).
  { apply forallb_forall. intros [ent id] Hin. cbn [fst snd].
    destruct (nlookup id (t_i2u T)) as [u'|] eqn:E; [|reflexivity].
    destruct (HA _ _ Hin) as [-> | Hh]; [reflexivity|].
    rewrite (HH _ _ _ Hh E), str_eqb_refl. apply orb_true_r. }
  destruct Hoc as [-> | ->]; cbn [ok_outcome andb]; [|exact Hhist].
  apply forallb_forall. intros [ent id] Hin. cbn [fst snd]. unfold id_is.
  rewrite (HD _ _ (HB eq_refl _ _ Hin)). cbn. apply N.eqb_refl.
Qed.

Lemma batch_weak_of T (ents : list entity) ids s :
  length ids = length ents ->
  (forall ent id, In (ent, id) (combine ents ids) -> id = 0 \/ In (fst ent, id) (hist s)) ->
  hist_in s T -> batch_ok T ents OcErrEmpty ids = true.
Proof.
  intros Hlen HA HH. unfold batch_ok. rewrite Hlen, Nat.eqb_refl. cbn [ok_outcome andb].
  apply forallb_forall. intros [ent id] Hin. cbn [fst snd].
  destruct (nlookup id (t_i2u T)) as [u'|] eqn:E; [|reflexivity].
  destruct (HA _ _ Hin) as [-> | Hh]; [reflexivity|].
  rewrite (HH _ _ _ Hh E), str_eqb_refl. apply orb_true_r.
Qed.

Lemma combine_pad {A} (l : list A) : forall (a : list N) n x y,
  In (x, y) (combine l (a ++ repeat 0 n)) -> In (x, y) (combine l a) \/ y = 0.
Proof.
  induction l as [|h l IH]; intros a n x y; cbn; [tauto|].
  destruct a as [|b a]; cbn.
  - destruct n; cbn; [tauto|]. intros [H|H]; [injection H as _ <-; now right|].
    destruct (IH [] n x y H) as [H'|H']; [destruct l; contradiction | now right].
  - intros [H|H]; [left; now left|]. destruct (IH a n x y H); [left; now right | now right].
Qed.

(** stored pairs *)
Lemma In_ins x p l : In x (ins p l) -> x = p \/ In x l.
Proof.
  induction l as [|q l IH]; cbn; [intros [<-|[]]; now left|].
  destruct (snd p <? snd q); [cbn; intros [<-|H]; [now left | now right]|].
  destruct (N.eqb (snd p) (snd q) && str_eqb (fst p) (fst q)); [intros H; now right|].
  cbn. intros [<-|H]; [right; now left|]. destruct (IH H); [now left | right; now right].
Qed.

Lemma In_fold_ins ps : forall l x, In x (fold_left (fun l p => ins p l) ps l) -> In x ps \/ In x l.
Proof.
  induction ps as [|p ps IH]; intros l x; cbn; [now right|].
  intros H. destruct (IH _ _ H) as [H1|H1]; [left; now right|].
  destruct (In_ins _ _ _ H1) as [->|H2]; [left; now left | now right].
Qed.

Lemma pairs_in_view us vw x : In x (pairs_in us vw) -> In x vw.
Proof.
  induction us as [|u us IH]; cbn; [tauto|].
  destruct (slookup u vw) as [i|] eqn:E; [|exact IH].
  intros [<-|H]; [now apply slookup_In | auto].
Qed.

Lemma add_stored_incl ents s stored D : incl stored D -> incl (view s) D -> incl (add_stored ents s stored) D.
Proof.
  intros H1 H2 x Hx. unfold add_stored in Hx. destruct (In_fold_ins _ _ _ Hx) as [H|H]; [|auto].
  apply H2. eapply pairs_in_view, H.
Qed.

Section FixedStrong.
  Variable L : N.
  Hypothesis HL : 1 <= L.

  Lemma assert_id_strong u st :
    good st ->
    let '(st', o) := assert_id L u st in
    good st' /\ id_ext st st' /\ incl (view st) (view st')
    /\ match o with
       | RId i _ => In (u, i) (view st') /\ In (u, i) (hist st')
       | RErrEmpty => True
       | _ => False
       end.
  Proof.
    intros [Hinv Ha]. pose proof (assert_id_spec L HL u st Hinv) as H.
    destruct (assert_id L u st) as [st' o].
    destruct H as (Hi & He & _ & Hv & _ & Ho). unfold good, alive in *.
    destruct o; try contradiction.
    - destruct Ho as (H1 & H2 & Hm & _). split; [split; [exact Hi | congruence]|]. split; [exact He|]. split; [exact Hv|]. split; assumption.
    - destruct Ho as [_ ->]. split; [split; assumption|]. split; [exact He|]. split; [exact Hv | exact I].
    - destruct Ho as [Ho _]. contradiction.
  Qed.

  Lemma assert_all_strong us : forall st,
    good st ->
    let '(s, oc) := assert_all L us st in
    good s /\ id_ext st s /\ incl (view st) (view s) /\ oc_ok oc.
  Proof.
    induction us as [|u us IH]; intros st Hg; cbn [assert_all].
    - split; [assumption|]. split; [apply id_ext_refl|]. split; [apply incl_refl | now left].
    - pose proof (assert_id_strong u st Hg) as H. destruct (assert_id L u st) as [s1 o].
      destruct H as (Hg1 & He1 & Hv1 & Ho).
      destruct o; try contradiction.
      + specialize (IH s1 Hg1). destruct (assert_all L us s1) as [s oc]. destruct IH as (A & B & C & D).
        split; [assumption|]. split; [eapply id_ext_trans; eassumption|]. split; [eapply incl_tran; eassumption | assumption].
      + split; [assumption|]. split; [assumption|]. split; [assumption | now right].
  Qed.

  Lemma run_ents_strong ds data ents : forall st,
    good st ->
    let '(s, oc, ids, n, pd) := run_ents L ds data ents st in
    good s /\ id_ext st s /\ incl (view st) (view s) /\ oc_ok oc
    /\ (length ids <= length ents)%nat /\ (oc = OcOk -> length ids = length ents)
    /\ (forall ent id, In (ent, id) (combine ents ids) -> In (fst ent, id) (view s) /\ In (fst ent, id) (hist s)).
  Proof.
    induction ents as [|[id0 r] ents IH]; intros st Hg; cbn [run_ents].
    - split; [assumption|]. split; [apply id_ext_refl|]. split; [apply incl_refl|]. split; [now left|].
      split; [cbn; lia|]. split; [reflexivity|]. intros ent id [].
    - pose proof (assert_id_strong id0 st Hg) as H. destruct (assert_id L id0 st) as [s1 o].
      destruct H as (Hg1 & He1 & Hv1 & Ho).
      destruct o; try contradiction.
      2: { split; [assumption|]. split; [assumption|]. split; [assumption|]. split; [now right|].
           split; [cbn; lia|]. split; [discriminate|]. intros ent id []. }
      destruct Ho as [Hin1 Hh1].
      match goal with |- context [assert_all L ?us s1] =>
        pose proof (assert_all_strong us s1 Hg1) as H2; destruct (assert_all L us s1) as [s2 oc2] end.
      destruct H2 as (Hg2 & He2 & Hv2 & Ho2).
      assert (Hstop : oc2 <> OcOk ->
        good s2 /\ id_ext st s2 /\ incl (view st) (view s2) /\ oc_ok oc2
        /\ (length [i] <= length ((id0, r) :: ents))%nat /\ (oc2 = OcOk -> length [i] = length ((id0, r) :: ents))
        /\ (forall ent id, In (ent, id) (combine ((id0, r) :: ents) [i]) -> In (fst ent, id) (view s2) /\ In (fst ent, id) (hist s2))).
      { intros Hne. split; [assumption|]. split; [eapply id_ext_trans; eassumption|].
        split; [eapply incl_tran; eassumption|]. split; [assumption|]. split; [cbn; lia|]. split; [intros; contradiction|].
        intros ent id Hin. cbn in Hin. rewrite combine_nil in Hin. destruct Hin as [Hin|[]]. injection Hin as <- <-. cbn [fst].
        split; [apply Hv2, Hin1 | apply (proj2 He2), Hh1]. }
      destruct oc2; try (apply Hstop; discriminate).
      specialize (IH s2 Hg2). destruct (run_ents L ds data ents s2) as [[[[s3 oc3] ids3] n3] pd3].
      destruct IH as (Hg3 & He3 & Hv3 & Ho3 & Hl3 & Hle3 & Hin3).
      split; [assumption|]. split; [eapply id_ext_trans; [eassumption|]; eapply id_ext_trans; eassumption|].
      split; [eapply incl_tran; [eassumption|]; eapply incl_tran; eassumption|]. split; [assumption|].
      split; [cbn; lia|]. split; [intros E; cbn; f_equal; auto|].
      intros ent id Hin. cbn in Hin. destruct Hin as [Hin|Hin].
      + injection Hin as <- <-. cbn [fst]. split; [apply Hv3, Hv2, Hin1 | apply (proj2 He3), (proj2 He2), Hh1].
      + auto.
  Qed.

  Lemma commit_main_strong st :
    good st -> good (fst (commit_main st)) /\ id_ext st (fst (commit_main st)) /\ snd (commit_main st) = ROk
               /\ disk (fst (commit_main st)) = view st.
  Proof.
    intros [Hinv Ha]. pose proof (commit_main_spec st Hinv) as H. destruct (commit_main st) as [st' o]. cbn [fst snd].
    destruct H as (Hi & He & _ & _ & Ho). unfold good, alive in *. destruct o; try contradiction.
    - destruct Ho as (_ & Hm & _ & Hd). split; [split; [exact Hi | congruence]|]. split; [exact He|]. split; [reflexivity | exact Hd].
    - destruct Ho as [Ho _]. contradiction.
  Qed.

  Lemma nested_update_strong ds st :
    good st -> good (fst (nested_update L ds st)) /\ id_ext st (fst (nested_update L ds st)) /\ oc_ok (snd (nested_update L ds st)).
  Proof.
    intros Hg. unfold nested_update.
    match goal with |- context [assert_all L ?us st] =>
      pose proof (assert_all_strong us st Hg) as H; destruct (assert_all L us st) as [s1 oc1] end.
    destruct H as (Hg1 & He1 & _ & Ho1).
    destruct oc1; cbn [fst snd]; try (split; [assumption|]; split; assumption).
    destruct (commit_main_strong s1 Hg1) as (A & B & _ & _).
    split; [assumption|]. split; [eapply id_ext_trans; eassumption | now left].
  Qed.

  Lemma write_path_strong k ds ents w :
    good (wid w) ->
    let w1 := fst (write_path v_fixed L k ds ents w) in
    good (wid w1) /\ id_ext (wid w) (wid w1) /\ wns w1 = wns w
    /\ (incl (wstored w) (disk (wid w)) -> incl (wstored w1) (disk (wid w1)))
    /\ exists oc ids, snd (write_path v_fixed L k ds ents w) = HOBatch oc ids
         /\ forall T, disk_in (wid w1) T -> hist_in (wid w1) T -> batch_ok T ents oc ids = true.
  Proof.
    intros Hg. unfold write_path. destruct ents as [|e0 ents0].
    { cbn [fst snd]. split; [assumption|]. split; [apply id_ext_refl|]. split; [reflexivity|]. split; [auto|].
      exists OcOk, []. split; [reflexivity|]. intros T _ _. reflexivity. }
    set (ents := e0 :: ents0).
    pose proof (run_ents_strong ds (wdata w) ents (wid w) Hg) as H.
    destruct (run_ents L ds (wdata w) ents (wid w)) as [[[[s1 oc] ids] ni] pd].
    destruct H as (Hg1 & He1 & _ & Ho1 & Hle & Hlen & Hin).
    set (ids' := ids ++ repeat 0 (length ents - length ids)).
    assert (Hlen' : length ids' = length ents).
    { unfold ids'. rewrite app_length, repeat_length. lia. }
    assert (HA : forall s, id_ext s1 s -> forall ent id, In (ent, id) (combine ents ids') -> id = 0 \/ In (fst ent, id) (hist s)).
    { intros s Hs ent id Hi. destruct (combine_pad _ _ _ _ _ Hi) as [Hi'|Hz]; [|now left].
      right. apply (proj2 Hs). apply (Hin _ _ Hi'). }
    assert (Hfail : oc <> OcOk ->
      let w1 := {| wns := wns w; wid := s1; wdata := wdata w; wstored := wstored w |} in
      good (wid w1) /\ id_ext (wid w) (wid w1) /\ wns w1 = wns w
      /\ (incl (wstored w) (disk (wid w)) -> incl (wstored w1) (disk (wid w1)))
      /\ exists oc' ids0, HOBatch oc ids' = HOBatch oc' ids0
           /\ forall T, disk_in (wid w1) T -> hist_in (wid w1) T -> batch_ok T ents oc' ids0 = true).
    { intros Hne. cbn. split; [assumption|]. split; [assumption|]. split; [reflexivity|].
      split; [intros Hs; eapply incl_tran; [exact Hs | apply (proj1 He1)]|].
      exists oc, ids'. split; [reflexivity|]. intros T HD HH.
      exact (batch_ok_of T ents oc ids' s1 Ho1 Hlen' (HA s1 (id_ext_refl s1)) (fun E => False_ind _ (Hne E)) HD HH). }
    destruct oc; try (apply Hfail; discriminate). clear Hfail.
    assert (Hids : ids' = ids).
    { unfold ids'. rewrite (Hlen eq_refl), Nat.sub_diag. cbn. apply app_nil_r. }
    assert (Hc : match k with None => commit_main s1 | Some k0 => commit_ctx (v_ctx v_fixed) k0 s1 end = commit_main s1)
      by (destruct k; reflexivity).
    rewrite Hc. destruct (commit_main_strong s1 Hg1) as (Hg2 & He2 & Hr & Hd2).
    destruct (commit_main s1) as [s2 r]. cbn [fst snd] in *. subst r.
    assert (HB : forall s, id_ext s2 s -> forall ent id, In (ent, id) (combine ents ids') -> In (fst ent, id) (disk s)).
    { intros s Hs ent id Hi. rewrite Hids in Hi. apply (proj1 Hs). rewrite Hd2. apply (Hin _ _ Hi). }
    destruct ((0 <? ni)%nat && negb (str_eqb ds s_core)).
    - destruct (nested_update_strong ds s2 Hg2) as (Hg3 & He3 & Ho3).
      destruct (nested_update L ds s2) as [s3 oc3]. cbn [fst snd wid wns wstored] in *.
      split; [assumption|]. split; [eapply id_ext_trans; [eassumption|]; eapply id_ext_trans; eassumption|].
      split; [reflexivity|].
      split; [intros Hs; apply add_stored_incl;
              [eapply incl_tran; [exact Hs|]; eapply incl_tran; [apply (proj1 He1)|]; eapply incl_tran; [apply (proj1 He2) | apply (proj1 He3)]
              | rewrite <- Hd2; apply (proj1 He3)]|].
      exists oc3, ids'. split; [reflexivity|]. intros T HD HH.
      exact (batch_ok_of T ents oc3 ids' s3 Ho3 Hlen' (HA s3 (id_ext_trans _ _ _ He2 He3)) (fun _ => HB s3 He3) HD HH).
    - cbn [fst snd wid wns wstored]. split; [assumption|]. split; [eapply id_ext_trans; eassumption|].
      split; [reflexivity|].
      split; [intros Hs; apply add_stored_incl;
              [eapply incl_tran; [exact Hs|]; eapply incl_tran; [apply (proj1 He1) | apply (proj1 He2)]
              | rewrite <- Hd2; apply incl_refl]|].
      exists OcOk, ids'. split; [reflexivity|]. intros T HD HH.
      exact (batch_ok_of T ents OcOk ids' s2 (or_introl eq_refl) Hlen' (HA s2 He2) (fun _ => HB s2 (id_ext_refl s2)) HD HH).
  Qed.
End FixedStrong.

(** ** the whole store *)
Definition winv (w : world) : Prop :=
  nsw_inv (wns w) /\ ns_extra (mem (nst (wns w))) /\ good (wid w)
  /\ incl (wstored w) (disk (wid w)).   (* ids carried by durable entities have durable id records *)
Definition wext (w w' : world) : Prop :=
  p2e_ext (p2e (mem (nst (wns w)))) (p2e (mem (nst (wns w')))) /\ id_ext (wid w) (wid w').
(** [T] contains everything [w] has handed out *)
Definition text (w : world) (T : tables) : Prop :=
  p2e_in (nst (wns w)) T /\ disk_in (wid w) T /\ hist_in (wid w) T.

Lemma wext_refl w : wext w w.
Proof. split; [apply p2e_ext_refl | apply id_ext_refl]. Qed.
Lemma wext_trans a b c : wext a b -> wext b c -> wext a c.
Proof. intros [A1 A2] [B1 B2]. split; [eapply p2e_ext_trans; eassumption | eapply id_ext_trans; eassumption]. Qed.
Lemma text_mono w w' T : wext w w' -> text w' T -> text w T.
Proof.
  intros [E1 E2] (A & B & C). split; [|split].
  - intros p e H. apply A, E1, H.
  - eapply disk_in_mono; eassumption.
  - eapply hist_in_mono; eassumption.
Qed.

Definition tables_of (w : world) : tables :=
  {| t_p2e := p2e (mem (nst (wns w))); t_e2p := e2p (mem (nst (wns w)));
     t_u2i := disk (wid w); t_i2u := swap_pairs (disk (wid w)) |}.

Lemma nlookup_swap i l : nlookup i (swap_pairs l) = rlookup i l.
Proof. induction l as [|[u j] l IH]; cbn; [reflexivity|]. destruct (N.eqb i j); [reflexivity | exact IH]. Qed.

Lemma text_final w : winv w -> text w (tables_of w).
Proof.
  intros (_ & _ & [Hinv _] & _). split; [|split].
  - apply p2e_ext_refl.
  - intros u i Hin. cbn. apply sIn_lookup; [apply (idinv_disk_keys _ Hinv) | exact Hin].
  - intros u i u' Hin Hl. cbn in Hl. rewrite nlookup_swap in Hl. apply rlookup_In in Hl.
    apply (iv_inj _ Hinv u' u i); [|exact Hin]. apply (iv_incl _ Hinv). unfold view. apply in_or_app. now left.
Qed.

Lemma dump_event w T : winv w -> text w T ->
  spec_event T (HDump, HODump (p2e (mem (nst (wns w)))) (e2p (mem (nst (wns w)))) (disk (wid w)) (swap_pairs (disk (wid w)))
                              (wstored w)) = true.
Proof.
  intros (Hn & _ & _ & Hs) (A & B & _). cbn [spec_event]. rewrite !andb_true_iff. split; [split|]; apply forallb_forall.
  - intros [p e] Hin. cbn [fst snd]. unfold maps_to.
    assert (E : slookup p (p2e (mem (nst (wns w)))) = Some e) by (apply sIn_lookup; [apply nsinv_p2e_nodup, Hn | exact Hin]).
    rewrite (A _ _ E). apply ostr_eqb_some.
  - intros [u i] Hin. cbn [fst snd]. unfold id_is. rewrite (B _ _ Hin). cbn. apply N.eqb_refl.
  - intros [u i] Hin. cbn [fst snd]. unfold id_is. rewrite (B _ _ (Hs _ Hin)). cbn. apply N.eqb_refl.
Qed.

Lemma dump_ok_world w : winv w ->
  dump_ok (HODump (p2e (mem (nst (wns w)))) (e2p (mem (nst (wns w)))) (disk (wid w)) (swap_pairs (disk (wid w)))
                  (wstored w)) = true.
Proof.
  intros ([[Hk Hb] _] & [Hnd Hlen] & [Hinv _] & Hs). cbn [dump_ok].
  assert (Hkp : NoDup (map fst (p2e (mem (nst (wns w)))))) by (apply nsinv_p2e_nodup; split; assumption).
  destruct (idinv_disk_keys _ Hinv) as [Kd Id].
  rewrite Hlen, Nat.eqb_refl. unfold swap_pairs at 1. rewrite map_length, Nat.eqb_refl. rewrite !andb_true_r.
  repeat (apply andb_true_iff; split); apply forallb_forall.
  - intros [u i] Hin. cbn [fst snd]. rewrite (sIn_lookup _ _ _ Kd (Hs _ Hin)). cbn. apply N.eqb_refl.
  - intros [p e] Hin. cbn [fst snd]. rewrite (proj1 (Hb p e) (sIn_lookup _ _ _ Hkp Hin)). apply ostr_eqb_some.
  - intros [e p] Hin. cbn [fst snd]. rewrite (proj2 (Hb p e) (sIn_lookup _ _ _ Hnd Hin)). apply ostr_eqb_some.
  - intros [u i] Hin. cbn [fst snd]. rewrite nlookup_swap, (In_rlookup _ _ _ Id Hin). apply ostr_eqb_some.
  - intros [i u] Hin. cbn [fst snd]. unfold swap_pairs in Hin. apply in_map_iff in Hin.
    destruct Hin as ([u' i'] & E & Hin). cbn in E. injection E as -> ->.
    rewrite (sIn_lookup _ _ _ Kd Hin). cbn. apply N.eqb_refl.
Qed.

Section WorldFixed.
  Variable L : N.
  Hypothesis HL : 1 <= L.

  Lemma spec_batch T b ds ents oc ids : spec_event T (HBatch b ds ents, HOBatch oc ids) = batch_ok T ents oc ids.
  Proof. reflexivity. Qed.
  Lemma spec_ctxtxn T k ds ents oc ids : spec_event T (HCtxTxn k ds ents, HOBatch oc ids) = batch_ok T ents oc ids.
  Proof. reflexivity. Qed.

  Lemma spec_crash T tp k ds ents pt oc ids :
    spec_event T (HCrashWrite tp k ds ents pt, HOBatch oc ids) = ok_outcome oc && batch_ok T ents OcErrEmpty ids.
  Proof. cbn [spec_event]. unfold batch_ok. cbn [ok_outcome]. destruct (ok_outcome oc); reflexivity. Qed.

  Lemma oc_ok_true oc : oc_ok oc -> ok_outcome oc = true.
  Proof. intros [-> | ->]; reflexivity. Qed.

  (** a write during which the process dies, at any of the hook points *)
  Lemma crash_write_strong tp k ds ents pt w :
    winv w ->
    let w1 := fst (crash_write v_fixed L tp k ds ents pt w) in
    winv w1 /\ wext w w1
    /\ exists oc ids, snd (crash_write v_fixed L tp k ds ents pt w) = HOBatch oc ids /\ oc_ok oc
         /\ forall T, hist_in (wid w1) T -> batch_ok T ents OcErrEmpty ids = true.
  Proof.
    intros (Hn & Hx & Hg & Hs). unfold crash_write. destruct ents as [|e0 ents0].
    { cbn [fst snd]. split; [split; [assumption|]; split; [assumption|]; split; assumption|]. split; [apply wext_refl|].
      exists OcOk, []. split; [reflexivity|]. split; [now left|]. intros T _. reflexivity. }
    set (ents := e0 :: ents0).
    pose proof (run_ents_strong L HL ds (wdata w) ents (wid w) Hg) as H.
    destruct (run_ents L ds (wdata w) ents (wid w)) as [[[[s1 oc] ids] ni] pd].
    destruct H as (Hg1 & He1 & _ & Ho1 & Hle & Hlen & Hin).
    set (ids' := ids ++ repeat 0 (length ents - length ids)).
    assert (Hlen' : length ids' = length ents).
    { unfold ids'. rewrite app_length, repeat_length. lia. }
    assert (HA : forall s, id_ext s1 s -> forall ent id, In (ent, id) (combine ents ids') -> id = 0 \/ In (fst ent, id) (hist s)).
    { intros s Hs' ent id Hi. destruct (combine_pad _ _ _ _ _ Hi) as [Hi'|Hz]; [|now left].
      right. apply (proj2 Hs'). apply (Hin _ _ Hi'). }
    (* the two shapes a result can have *)
    assert (Hlive : forall s oc', good s -> id_ext s1 s -> oc_ok oc' ->
      let w1 := {| wns := wns w; wid := s; wdata := wdata w; wstored := wstored w |} in
      winv w1 /\ wext w w1
      /\ exists oc0 ids0, HOBatch oc' ids' = HOBatch oc0 ids0 /\ oc_ok oc0
           /\ forall T, hist_in (wid w1) T -> batch_ok T ents OcErrEmpty ids0 = true).
    { intros s oc' Hgs Hes Hoc. cbv zeta. unfold winv, wext. cbn [wns wid wstored].
      assert (Hws : id_ext (wid w) s) by (eapply id_ext_trans; eassumption).
      split; [split; [assumption|]; split; [assumption|]; split; [assumption|];
              eapply incl_tran; [exact Hs | apply (proj1 Hws)]|].
      split; [split; [apply p2e_ext_refl | exact Hws]|].
      exists oc', ids'. split; [reflexivity|]. split; [assumption|].
      intros T HH. exact (batch_weak_of T ents ids' s Hlen' (HA s Hes) HH). }
    assert (Hdead : forall s data stored, good s -> id_ext s1 s -> incl stored (disk s) ->
      let w1 := {| wns := fst (ns_step (v_alias v_fixed) NRestart (wns w)); wid := id_restart L true s;
                   wdata := data; wstored := stored |} in
      winv w1 /\ wext w w1
      /\ exists oc0 ids0, HOBatch OcOk ids' = HOBatch oc0 ids0 /\ oc_ok oc0
           /\ forall T, hist_in (wid w1) T -> batch_ok T ents OcErrEmpty ids0 = true).
    { intros s data stored Hgs Hes Hst. cbv zeta. unfold winv, wext. cbn [wns wid wstored].
      change (v_alias v_fixed) with AliasCopy.
      pose proof (ns_step_inv AliasCopy NRestart (wns w) Hn) as [Hn1 Hp1].
      pose proof (ns_step_extra AliasCopy NRestart (wns w) Hn Hx) as Hx1.
      destruct Hgs as [Hi Ha]. destruct (id_restart_spec L HL true s Hi) as (Hi1 & Hie & Hd1 & Hm1).
      assert (Hws : id_ext (wid w) (id_restart L true s)).
      { eapply id_ext_trans; [exact He1|]. eapply id_ext_trans; eassumption. }
      split; [split; [assumption|]; split; [assumption|]; split; [split; [assumption | unfold alive; cbn; discriminate]|];
              first [rewrite Hd1; exact Hst | cbn; exact Hst]|].
      split; [split; [exact Hp1 | exact Hws]|].
      exists OcOk, ids'. split; [reflexivity|]. split; [now left|].
      intros T HH. exact (batch_weak_of T ents ids' _ Hlen' (HA _ (id_ext_trans _ _ _ Hes Hie)) HH). }
    destruct oc; try (apply (Hlive s1 _ Hg1 (id_ext_refl s1) Ho1)).
    assert (Hc : match k with None => commit_main s1 | Some k0 => commit_ctx (v_ctx v_fixed) k0 s1 end = commit_main s1)
      by (destruct k; reflexivity).
    assert (Hs1 : incl (wstored w) (disk s1)) by (eapply incl_tran; [exact Hs | apply (proj1 He1)]).
    destruct pt as [|pt'].
    - apply (Hdead s1 _ _ Hg1 (id_ext_refl s1) Hs1).
    - cbn [v_order v_fixed]. rewrite Hc. destruct (commit_main_strong s1 Hg1) as (Hg2 & He2 & Hr & Hd2).
      destruct (commit_main s1) as [s2 r]. cbn [fst snd] in *. subst r.
      assert (Hs2 : incl (wstored w) (disk s2)) by (eapply incl_tran; [exact Hs1 | apply (proj1 He2)]).
      destruct pt'.
      + apply (Hdead s2 _ _ Hg2 He2 Hs2).
      + apply (Hdead s2 _ _ Hg2 He2). apply add_stored_incl; [exact Hs2 | rewrite Hd2; apply incl_refl].
  Qed.

  Lemma wstep_strong op w :
    winv w ->
    let w1 := fst (wstep v_fixed L op w) in
    winv w1 /\ wext w w1 /\ dump_ok (snd (wstep v_fixed L op w)) = true
    /\ forall T, text w1 T -> spec_event T (op, snd (wstep v_fixed L op w)) = true.
  Proof.
    intros Hw. pose proof Hw as (Hn & Hx & Hg & Hs). destruct op; cbn [wstep].
    - (* HNs *)
      pose proof (ns_step_inv AliasCopy o (wns w) Hn) as [Hn1 He1].
      pose proof (ns_step_extra AliasCopy o (wns w) Hn Hx) as Hx1.
      pose proof (ns_step_event o (wns w)) as Hev.
      change (v_alias v_fixed) with AliasCopy.
      destruct (ns_step AliasCopy o (wns w)) as [n r]. cbn [fst snd wns wid wstored] in *.
      split; [split; [assumption|]; split; [assumption|]; split; assumption|].
      split; [split; [assumption | apply id_ext_refl]|].
      split; [reflexivity|]. intros T (A & _ & _). apply Hev; assumption.
    - (* HBatch *)
      destruct (write_path_strong L HL None ds ents w Hg) as (Hg1 & He1 & Hns & Hst & oc & ids & Ho & Hev).
      cbv zeta. rewrite Ho. unfold winv, wext. rewrite Hns.
      split; [split; [assumption|]; split; [assumption|]; split; [assumption | apply Hst, Hs]|].
      split; [split; [apply p2e_ext_refl | assumption]|]. split; [reflexivity|].
      intros T (_ & B & C). rewrite spec_batch. apply Hev; assumption.
    - (* HCtxNew *)
      cbn [fst snd wns wid wstored id_step]. split; [split; [assumption|]; split; [assumption|]; split|].
      + destruct Hg as [Hi Ha]. split; [|exact Ha]. destruct Hi. constructor; auto.
      + exact Hs.
      + split; [split; [apply p2e_ext_refl | split; cbn; apply incl_refl]|]. split; reflexivity.
    - (* HCtxTxn *)
      destruct (write_path_strong L HL (Some k) ds ents w Hg) as (Hg1 & He1 & Hns & Hst & oc & ids & Ho & Hev).
      cbv zeta. rewrite Ho. unfold winv, wext. rewrite Hns.
      split; [split; [assumption|]; split; [assumption|]; split; [assumption | apply Hst, Hs]|].
      split; [split; [apply p2e_ext_refl | assumption]|]. split; [reflexivity|].
      intros T (_ & B & C). rewrite spec_ctxtxn. apply Hev; assumption.
    - (* HRestart *)
      pose proof (ns_step_inv AliasCopy NRestart (wns w) Hn) as [Hn1 He1].
      pose proof (ns_step_extra AliasCopy NRestart (wns w) Hn Hx) as Hx1.
      change (v_alias v_fixed) with AliasCopy. cbn [fst snd wns wid wstored].
      destruct Hg as [Hi Ha]. destruct (id_restart_spec L HL crash _ Hi) as (Hi1 & Hie & Hd1 & Hm).
      split; [split; [assumption|]; split; [assumption|]; split; [split; [assumption | unfold alive; cbn; discriminate]|];
              cbn; exact Hs|].
      split; [split; assumption|]. split; reflexivity.
    - (* HCrashWrite *)
      destruct (crash_write_strong txn_path k ds ents pt w Hw) as (Hw1 & He1 & oc & ids & Ho & Hoc & Hev).
      cbv zeta. rewrite Ho. split; [exact Hw1|]. split; [exact He1|]. split; [reflexivity|].
      intros T (_ & _ & C). rewrite spec_crash, (oc_ok_true _ Hoc). apply Hev, C.
    - (* HDump *)
      cbn [fst snd]. split; [exact Hw|]. split; [apply wext_refl|].
      split; [apply dump_ok_world, Hw|].
      intros T HT. apply dump_event; [exact Hw | exact HT].
  Qed.

  Lemma wrun_strong ops : forall w,
    winv w ->
    let w' := fst (wrun v_fixed L ops w) in
    winv w' /\ wext w w' /\ forallb dump_ok (snd (wrun v_fixed L ops w)) = true
    /\ forall T, text w' T -> forallb (spec_event T) (combine ops (snd (wrun v_fixed L ops w))) = true.
  Proof.
    induction ops as [|op ops IH]; intros w Hinv; cbn [wrun].
    - cbn. split; [assumption|]. split; [apply wext_refl|]. split; reflexivity.
    - destruct (wstep_strong op w Hinv) as (H1 & H2 & H3 & H4).
      destruct (wstep v_fixed L op w) as [w1 o]. cbn [fst snd] in *.
      destruct (IH w1 H1) as (A & B & C & D). destruct (wrun v_fixed L ops w1) as [w2 os]. cbn [fst snd combine forallb] in *.
      split; [assumption|]. split; [eapply wext_trans; eassumption|]. split; [now rewrite H3, C|].
      intros T HT. rewrite (H4 T (text_mono _ _ _ B HT)), (D T HT). reflexivity.
  Qed.


  (** no stale context *)
  Definition kinv (w : world) (known : list (str * str)) : Prop :=
    forall p e, In (p, e) known -> slookup p (p2e (mem (nst (wns w)))) = Some e.

  Lemma kinv_mono w w' known : wext w w' -> kinv w known -> kinv w' known.
  Proof. intros [E _] H p e Hin. apply E, H, Hin. Qed.

  Lemma dsctx_fresh st exps p e :
    st_inv st -> slookup p (p2e (mem st)) = Some e -> In e exps -> has_mapping (ctx_of exps st) p e = true.
  Proof.
    intros Hinv Hp Hin. unfold has_mapping, ctx_of.
    pose proof Hinv as [[Hk Hb] _].
    assert (Hkey : ctx_key e st = p) by (unfold ctx_key, get_prefix; now rewrite (proj1 (Hb p e) Hp)).
    assert (Hne : p <> []).
    { intros ->. apply slookup_In in Hp. apply (in_map fst) in Hp. cbn in Hp. rewrite Hk, in_map_iff in Hp.
      destruct Hp as (i & Hi & _). unfold ns_name, s_ns in Hi. discriminate. }
    rewrite (ctx_fold_last (fun e => ctx_key e st) exps p e [] Hin Hkey); [apply str_eqb_refl|].
    intros e' _ Hk'. unfold ctx_key, get_prefix in Hk'.
    destruct (slookup e' (e2p (mem st))) as [q|] eqn:E; [|congruence]. subst q.
    apply (nsinv_e2p_inj (mem st) e' e p); [apply Hinv | exact E | now apply Hb].
  Qed.

  Lemma dsctx_run ops : forall w known,
    winv w -> kinv w known ->
    dsctx_ok known (ns_events (combine ops (snd (wrun v_fixed L ops w)))) = true.
  Proof.
    induction ops as [|op ops IH]; intros w known Hinv Hk; cbn [wrun]; [reflexivity|].
    destruct (wstep_strong op w Hinv) as (H1 & H2 & _ & _).
    destruct (wstep v_fixed L op w) as [w1 o] eqn:Es. cbn [fst] in *.
    pose proof (kinv_mono _ _ _ H2 Hk) as Hk1.
    specialize (IH w1). destruct (wrun v_fixed L ops w1) as [w2 os] eqn:Er. cbn [snd combine] in *.
    assert (Hdef : dsctx_ok known (ns_events (combine ops os)) = true) by (apply (IH known H1 Hk1)).
    unfold ns_events. cbn [flat_map]. fold (ns_events (combine ops os)).
    destruct op; try (cbn [app]; exact Hdef).
    cbn [wstep] in Es. change (v_alias v_fixed) with AliasCopy in Es.
    destruct (ns_step AliasCopy o0 (wns w)) as [n r] eqn:En. injection Es as <- <-. cbn [app].
    destruct Hinv as (Hn & _ & _ & _).
    destruct o0; cbn [ns_step] in En.
    - (* NAssert *)
      pose proof (assert_prefix_spec e (nst (wns w)) Hn) as Ha. destruct (assert_prefix e (nst (wns w))) as [st' p].
      destruct Ha as (_ & Hpe & _).
      injection En as <- <-. cbn [dsctx_ok]. apply (IH ((p, e) :: known) H1).
      intros p' e' [E|Hin]; [injection E as <- <-; cbn; exact Hpe | apply Hk1, Hin].
    - destruct (compact u (nst (wns w))). injection En as <- <-. destruct o; cbn [opt_out dsctx_ok]; exact Hdef.
    - destruct (ns_identifier v locals (nst (wns w))). injection En as <- <-. destruct o; cbn [opt_out dsctx_ok]; exact Hdef.
    - injection En as <- <-. destruct (expand_curie c (nst (wns w))); cbn [opt_out dsctx_ok]; exact Hdef.
    - injection En as <- <-. destruct (get_prefix e (nst (wns w))); cbn [opt_out dsctx_ok]; exact Hdef.
    - injection En as <- <-. cbn [dsctx_ok]. exact Hdef.
    - injection En as <- <-. destruct (nth_error (handles (wns w)) h); cbn [dsctx_ok]; exact Hdef.
    - injection En as <- <-. cbn [dsctx_ok]. exact Hdef.
    - injection En as <- <-. cbn [dsctx_ok]. exact Hdef.
    - (* NDsCtx *)
      injection En as <- <-. cbn [dsctx_ok]. rewrite Hdef, andb_true_r.
      apply forallb_forall. intros [p e] Hin. cbn [fst snd].
      destruct (existsb (str_eqb e) exps) eqn:Ex; [|reflexivity]. cbn [negb orb].
      apply existsb_exists in Ex. destruct Ex as (e' & He' & Heq). apply str_eqb_eq in Heq. subst e'.
      apply dsctx_fresh; [exact Hn | apply Hk, Hin | exact He'].
    - injection En as <- <-. cbn [dsctx_ok]. exact Hdef.
  Qed.

  (** one identifier, one CURIE *)
  Lemma compact_shape u st st' c :
    st_inv st -> compact u st = (st', Some c) ->
    exists e l p, url_parts u = Some (e, l) /\ c = p ++ c_colon :: l /\ slookup p (p2e (mem st')) = Some e.
  Proof.
    intros Hinv. unfold compact. destruct (is_http u); [|discriminate].
    destruct (url_parts u) as [[e l]|]; [|discriminate].
    pose proof (assert_prefix_spec e st Hinv) as Ha. destruct (assert_prefix e st) as [s1 p].
    destruct Ha as (_ & Hpe & _). intros [= <- <-]. exists e, l, p. auto.
  Qed.

  Definition cinv (w : world) (known : list (str * str)) : Prop :=
    forall u c, In (u, c) known ->
    exists e l p, url_parts u = Some (e, l) /\ c = p ++ c_colon :: l /\ slookup p (p2e (mem (nst (wns w)))) = Some e.

  Lemma cinv_mono w w' known : wext w w' -> cinv w known -> cinv w' known.
  Proof.
    intros [E _] H u c Hin. destruct (H u c Hin) as (e & l & p & A & B & C). exists e, l, p. auto.
  Qed.

  Lemma compact_fun_run ops : forall w known,
    winv w -> cinv w known ->
    compact_fun_ok known (ns_events (combine ops (snd (wrun v_fixed L ops w)))) = true.
  Proof.
    induction ops as [|op ops IH]; intros w known Hinv Hk; cbn [wrun]; [reflexivity|].
    destruct (wstep_strong op w Hinv) as (H1 & H2 & _ & _).
    destruct (wstep v_fixed L op w) as [w1 o] eqn:Es. cbn [fst] in *.
    pose proof (cinv_mono _ _ _ H2 Hk) as Hk1.
    specialize (IH w1). destruct (wrun v_fixed L ops w1) as [w2 os] eqn:Er. cbn [snd combine] in *.
    assert (Hdef : compact_fun_ok known (ns_events (combine ops os)) = true) by (apply (IH known H1 Hk1)).
    unfold ns_events. cbn [flat_map]. fold (ns_events (combine ops os)).
    destruct op; try (cbn [app]; exact Hdef).
    cbn [wstep] in Es. change (v_alias v_fixed) with AliasCopy in Es.
    destruct (ns_step AliasCopy o0 (wns w)) as [n r] eqn:En. injection Es as <- <-. cbn [app].
    destruct Hinv as (Hn & _ & _ & _).
    destruct o0; cbn [ns_step] in En.
    - destruct (assert_prefix e (nst (wns w))). injection En as <- <-. cbn [compact_fun_ok]. exact Hdef.
    - (* NCompact *)
      destruct (compact u (nst (wns w))) as [st' rc] eqn:Ec. injection En as <- <-.
      destruct rc as [c|]; cbn [opt_out compact_fun_ok]; [|exact Hdef].
      destruct (compact_shape u _ _ _ Hn Ec) as (e & l & p & Hu & Hc & Hp).
      assert (Hnew : cinv {| wns := with_st (wns w) st'; wid := wid w; wdata := wdata w; wstored := wstored w |} ((u, c) :: known)).
      { intros u' c' [E|Hin]; [injection E as <- <-; exists e, l, p; auto | apply Hk1, Hin]. }
      rewrite (IH ((u, c) :: known) H1 Hnew), andb_true_r.
      destruct (slookup u known) as [c0|] eqn:El; [|reflexivity].
      apply slookup_In in El. destruct (Hk1 _ _ El) as (e0 & l0 & p0 & Hu0 & Hc0 & Hp0).
      rewrite Hu in Hu0. injection Hu0 as <- <-. cbn [wns nst with_st] in Hp0.
      destruct H1 as (Hn1 & _). cbn [wns] in Hn1.
      assert (p0 = p) by (apply (nsinv_p2e_inj (mem st') p0 p e); [apply Hn1 | exact Hp0 | exact Hp]).
      subst. apply str_eqb_refl.
    - destruct (ns_identifier v locals (nst (wns w))). injection En as <- <-. destruct o; cbn [opt_out compact_fun_ok]; exact Hdef.
    - injection En as <- <-. destruct (expand_curie c (nst (wns w))); cbn [opt_out compact_fun_ok]; exact Hdef.
    - injection En as <- <-. destruct (get_prefix e (nst (wns w))); cbn [opt_out compact_fun_ok]; exact Hdef.
    - injection En as <- <-. cbn [compact_fun_ok]. exact Hdef.
    - injection En as <- <-. destruct (nth_error (handles (wns w)) h); cbn [compact_fun_ok]; exact Hdef.
    - injection En as <- <-. cbn [compact_fun_ok]. exact Hdef.
    - injection En as <- <-. cbn [compact_fun_ok]. exact Hdef.
    - injection En as <- <-. cbn [compact_fun_ok]. exact Hdef.
    - injection En as <- <-. cbn [compact_fun_ok]. exact Hdef.
  Qed.

  (** a CURIE whose prefix was handed out must expand *)
  Definition kp (w : world) (known : list str) : Prop :=
    forall p, In p known -> exists e, slookup p (p2e (mem (nst (wns w)))) = Some e.

  Lemma kp_mono w w' known : wext w w' -> kp w known -> kp w' known.
  Proof. intros [E _] H p Hp. destruct (H p Hp) as [e He]. exists e. apply E, He. Qed.

  Lemma p2e_key_ns m p e : nsinv m -> slookup p (p2e m) = Some e -> exists n, p = ns_name n.
  Proof.
    intros [Hk _] H. apply slookup_In in H. apply (in_map fst) in H. cbn in H. rewrite Hk, in_map_iff in H.
    destruct H as (n & Hn & _). now exists n.
  Qed.

  Lemma known_run ops : forall w known,
    winv w -> kp w known ->
    expand_known_ok known (combine ops (snd (wrun v_fixed L ops w))) = true.
  Proof.
    induction ops as [|op ops IH]; intros w known Hinv Hk; cbn [wrun]; [reflexivity|].
    destruct (wstep_strong op w Hinv) as (H1 & H2 & _ & _).
    destruct (wstep v_fixed L op w) as [w1 o] eqn:Es. cbn [fst] in *.
    pose proof (kp_mono _ _ _ H2 Hk) as Hk1.
    specialize (IH w1). destruct (wrun v_fixed L ops w1) as [w2 os] eqn:Er. cbn [snd combine] in *.
    assert (Hdef : expand_known_ok known (combine ops os) = true) by (apply (IH known H1 Hk1)).
    destruct op; try (destruct o as [[ | | | ]| | | ]; cbn [expand_known_ok]; exact Hdef).
    cbn [wstep] in Es. change (v_alias v_fixed) with AliasCopy in Es.
    destruct Hinv as (Hn & _ & _ & _).
    destruct o0; try (destruct o as [[ | | | ]| | | ]; cbn [expand_known_ok]; exact Hdef).
    - (* NAssert *)
      cbn [ns_step] in Es.
      pose proof (assert_prefix_spec e (nst (wns w)) Hn) as Ha. destruct (assert_prefix e (nst (wns w))) as [st' p].
      destruct Ha as (_ & Hpe & _). injection Es as <- <-. cbn [expand_known_ok].
      apply (IH (p :: known) H1). intros p' [<-|Hp']; [exists e; exact Hpe | apply Hk1, Hp'].
    - (* NCompact *)
      cbn [ns_step] in Es. destruct (compact u (nst (wns w))) as [st' rc] eqn:Ec. injection Es as <- <-.
      destruct rc as [c|]; cbn [opt_out expand_known_ok]; [|exact Hdef].
      destruct (compact_shape u _ _ _ Hn Ec) as (e & l & p & Hu & Hc & Hp).
      destruct H1 as (Hn1 & Hrest). cbn [wns] in Hn1.
      destruct (p2e_key_ns _ _ _ (proj1 Hn1) Hp) as [n ->].
      assert (Hcp : curie_prefix c = Some (ns_name n)).
      { unfold curie_prefix. rewrite Hc, (split_first_app _ _ _ (ns_name_no_colon n)). reflexivity. }
      rewrite Hcp. apply (IH (ns_name n :: known) (conj Hn1 Hrest)).
      intros p' [<-|Hp']; [exists e; exact Hp | apply Hk1, Hp'].
    - (* NExpand *)
      destruct o as [[ |  | | ]| | | ]; cbn [expand_known_ok]; try exact Hdef.
      rewrite Hdef, andb_true_r. apply negb_true_iff.
      cbn [ns_step] in Es. injection Es as _ Eo. unfold expand_curie, expand_in in Eo. unfold curie_prefix.
      destruct (split_first c_colon c) as [[p post]|]; [|reflexivity].
      destruct (existsb (str_eqb p) known) eqn:Ex; [|reflexivity]. exfalso.
      apply existsb_exists in Ex. destruct Ex as (p' & Hp' & Heq). apply str_eqb_eq in Heq. subst p'.
      destruct (Hk p Hp') as [e He]. rewrite He in Eo. discriminate.
  Qed.

  Lemma winv_empty : winv (w_empty L).
  Proof.
    split; [apply nsw_inv_init|]. split; [split; [constructor | reflexivity]|].
    split; [split; [apply idinv_init | cbn; discriminate]|]. intros x [].
  Qed.

  Lemma winv_setup dss : winv (w_setup v_fixed L dss).
  Proof. unfold w_setup. apply wrun_strong, winv_empty. Qed.

  Lemma wrun_app a b : forall w,
    wrun v_fixed L (a ++ b) w =
    (fst (wrun v_fixed L b (fst (wrun v_fixed L a w))), snd (wrun v_fixed L a w) ++ snd (wrun v_fixed L b (fst (wrun v_fixed L a w)))).
  Proof.
    induction a as [|op a IH]; intros w; cbn [app wrun].
    - cbn. now destruct (wrun v_fixed L b w).
    - destruct (wstep v_fixed L op w) as [w1 o]. rewrite IH.
      destruct (wrun v_fixed L a w1) as [w2 os]. cbn [fst snd]. reflexivity.
  Qed.
End WorldFixed.

Lemma last_dump_app o1 o2 acc : last_dump (o1 ++ o2) acc = last_dump o2 (last_dump o1 acc).
Proof.
  revert acc. induction o1 as [|o o1 IH]; intros acc; cbn [app last_dump]; [reflexivity|].
  destruct o; apply IH.
Qed.

Lemma ends_dump_split ops : ends_dump ops = true -> exists ops0, ops = ops0 ++ [HDump].
Proof.
  unfold ends_dump. destruct (rev ops) as [|h r] eqn:E; [discriminate|].
  destruct h; try discriminate. intros _. exists (rev r).
  rewrite <- (rev_involutive ops), E. reflexivity.
Qed.

Theorem agree_fixed_spec c : ends_dump (c_ops c) = true -> agree v_fixed c = true -> spec_ok c = true.
Proof.
  intros Hend. unfold agree, spec_ok. destruct (c_conc c).
  - destruct (o_conc c) as [|[p|[p|p|]|]]; cbn; try discriminate; try reflexivity.
  - intros H. apply houts_eqb_eq in H. rewrite <- H. unfold predict.
    assert (HL : 1 <= L_go) by (unfold L_go; lia).
    set (w0 := w_setup v_fixed L_go (c_dss c)).
    pose proof (winv_setup L_go HL (c_dss c)) as Hw0. fold w0 in Hw0.
    destruct (wrun_good L_go HL (c_ops c) _ (wgood_setup L_go HL (c_dss c))) as (_ & _ & H3). fold w0 in H3.
    destruct (wrun_strong L_go HL (c_ops c) w0 Hw0) as (Hwf & _ & Hd & Hev).
    rewrite H3, Nat.eqb_refl, Hd. cbn [andb].
    rewrite (snapshot_wrun L_go (c_ops c) w0 []); [|unfold w0; rewrite setup_handles; reflexivity | constructor].
    rewrite (known_run L_go HL (c_ops c) w0 [] Hw0); [|intros p0 []].
    rewrite (dsctx_run L_go HL (c_ops c) w0 [] Hw0); [|intros p0 e0 []].
    rewrite (compact_fun_run L_go HL (c_ops c) w0 [] Hw0); [|intros u0 c0 []]. cbn [andb].
    destruct (ends_dump_split _ Hend) as [ops0 E].
    rewrite E in *. rewrite wrun_app in *. cbn [fst snd wrun wstep] in *.
    rewrite last_dump_app. cbn [last_dump].
    apply (Hev (tables_of (fst (wrun v_fixed L_go ops0 w0)))).
    apply text_final. exact Hwf.
Qed.
