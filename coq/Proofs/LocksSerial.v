(** Serializability of the lock-protocol model (property C05): the locks make the
    read-of-previous ... commit section atomic per dataset, so every dataset's feed is
    the commits in the order they happened - no lost update - and that order respects
    each client's program order. *)
From Coq Require Import List NArith Bool Arith Lia.
From DH Require Import Model.Locks Proofs.LocksProofs.
Import ListNotations.

Definition log_feed (d : lock) (lg : list (nat * writes)) : list marker :=
  flat_map (fun e => writes_to d (snd e)) lg.
Definition my_commits (i : nat) (lg : list (nat * writes)) : list writes :=
  map snd (filter (fun e => Nat.eqb (fst e) i) lg).

Definition thread_ok (fs : lock -> list marker) (t : thread) : Prop :=
  guarded (held t) (prog t) /\ forall d, In d (needs (prog t)) -> snap t d = fs d.

Definition inv_ser (c : config) : Prop :=
  NoDup (all_held (threads c)) /\ Forall (thread_ok (feeds c)) (threads c)
  /\ forall d, feeds c d = log_feed d (clog c).

Lemma guarded_needs p : forall H, guarded H p -> forall d, In d (needs p) -> In d H.
Proof.
  induction p as [|[l|l|d0|ws] p IH]; cbn; intros H G d I.
  - contradiction.
  - destruct G as [N G]. destruct (IH _ G d I) as [<-|?]; [contradiction | assumption].
  - destruct G as [_ G]. specialize (IH _ G d I). now apply In_removeb in IH.
  - destruct G as [_ G]. apply In_removeb in I. apply (IH _ G). tauto.
  - destruct G as [C G]. apply in_app_or in I. destruct I as [I|I]; [now apply C | now apply (IH _ G)].
Qed.

Lemma tstep_cases busy fs t t' fs' w :
  tstep busy fs t = Some (t', fs', w) ->
  (exists l p, prog t = Acq l :: p /\ ~ In l busy /\
               t' = {| held := l :: held t; snap := snap t; prog := p |} /\ fs' = fs /\ w = None) \/
  (exists l p, prog t = Rel l :: p /\ In l (held t) /\
               t' = {| held := removeb l (held t); snap := snap t; prog := p |} /\ fs' = fs /\ w = None) \/
  (exists d p, prog t = Read d :: p /\
               t' = {| held := held t; snap := upd (snap t) d (fs d); prog := p |} /\ fs' = fs /\ w = None) \/
  (exists ws p, prog t = Commit ws :: p /\
               t' = {| held := held t; snap := snap t; prog := p |} /\
               fs' = commit_feeds (snap t) fs ws /\ w = Some ws).
Proof.
  unfold tstep. destruct (prog t) as [|[l|l|d|ws] p] eqn:E; [discriminate| | | |].
  - destruct (memb l busy) eqn:M; [discriminate|]. intros [= <- <- <-]. left. exists l, p.
    repeat split; auto. now apply memb_false.
  - destruct (memb l (held t)) eqn:M; [|discriminate]. intros [= <- <- <-]. right; left. exists l, p.
    repeat split; auto. now apply memb_In.
  - intros [= <- <- <-]. right; right; left. exists d, p. auto.
  - intros [= <- <- <-]. right; right; right. exists ws, p. auto.
Qed.

Lemma writes_to_notin d ws : ~ In d (keys ws) -> writes_to d ws = [].
Proof.
  unfold writes_to, keys. induction ws as [|[d' ms] ws IH]; cbn; [reflexivity|]. intros N.
  destruct (lock_eqb d' d) eqn:E.
  - apply lock_eqb_eq in E. subst. tauto.
  - apply IH. tauto.
Qed.

Lemma log_feed_snoc d lg i ws : log_feed d (lg ++ [(i, ws)]) = log_feed d lg ++ writes_to d ws.
Proof. unfold log_feed. rewrite flat_map_app. cbn. now rewrite app_nil_r. Qed.

Lemma NoDup_mid_disj (P H Q : list lock) d :
  NoDup (P ++ H ++ Q) -> In d H -> ~ In d P /\ ~ In d Q.
Proof.
  rewrite !NoDup_app_iff. intros (_ & (_ & _ & D2) & D1) I. split.
  - intros IP. apply (D1 d IP). apply in_or_app. now left.
  - now apply D2.
Qed.

Lemma held_in_all t ts d : In t ts -> In d (held t) -> In d (all_held ts).
Proof. intros It Id. unfold all_held. apply in_flat_map. eauto. Qed.

Lemma step_inv_ser c c' : inv_ser c -> step c c' -> inv_ser c'.
Proof.
  intros (N & F & L) [i E].
  destruct (exec_at_inv _ _ _ E) as (pre & t & post & t' & fs' & w & Hs & Hl & Ht & ->).
  assert (N' : NoDup (all_held (pre ++ t' :: post))).
  { rewrite Hs in N. eapply tstep_nodup; [| eassumption | assumption]. now rewrite Hs. }
  rewrite Hs in F. apply Forall_app in F. destruct F as [F1 F2].
  inversion F2 as [|? ? [Gt St] F3]; subst.
  destruct (tstep_cases _ _ _ _ _ _ Ht) as
    [(l & p & Ep & Hfree & -> & -> & ->)|[(l & p & Ep & Hin & -> & -> & ->)|
     [(d0 & p & Ep & -> & -> & ->)|(ws & p & Ep & -> & -> & ->)]]];
    rewrite Ep in Gt, St; cbn in Gt, St; (split; [exact N'|]); cbn [threads feeds clog].
  - (* Acq *) split; [|assumption]. apply Forall_app. split; [assumption|]. constructor; [|assumption].
    split; cbn; tauto.
  - (* Rel *) split; [|assumption]. apply Forall_app. split; [assumption|]. constructor; [|assumption].
    split; cbn; tauto.
  - (* Read *) split; [|assumption]. apply Forall_app. split; [assumption|]. constructor; [|assumption].
    split; cbn; [tauto|]. intros d Id. unfold upd. destruct (lock_eqb d d0) eqn:Ed.
    + apply lock_eqb_eq in Ed. now subst.
    + apply St. apply In_removeb. apply lock_eqb_neq in Ed. tauto.
  - (* Commit *)
    destruct Gt as [Cw Gp].
    assert (Other : forall u, In u pre \/ In u post -> thread_ok (feeds c) u ->
                    thread_ok (commit_feeds (snap t) (feeds c) ws) u).
    { intros u Hu [Gu Su]. split; [assumption|]. intros d Id. rewrite (Su d Id).
      unfold commit_feeds. destruct (memb d (keys ws)) eqn:M; [|reflexivity]. exfalso.
      apply memb_In in M. destruct (Cw d M) as [Hd _].
      rewrite Hs, all_held_mid in N. destruct (NoDup_mid_disj _ _ _ d N Hd) as [NP NQ].
      pose proof (guarded_needs _ _ Gu d Id) as Hu'.
      destruct Hu as [Hu|Hu]; [apply NP | apply NQ]; eapply held_in_all; eassumption. }
    split.
    + apply Forall_app. split.
      * apply Forall_forall. intros u Hu. apply Other; [now left|]. rewrite Forall_forall in F1. now apply F1.
      * constructor.
        -- split; cbn; [assumption|]. intros d Id. unfold commit_feeds.
           destruct (memb d (keys ws)) eqn:M.
           ++ apply memb_In in M. destruct (Cw d M) as [_ Nn]. contradiction.
           ++ apply St. apply in_or_app. now right.
        -- apply Forall_forall. intros u Hu. apply Other; [now right|]. rewrite Forall_forall in F3. now apply F3.
    + intros d. rewrite log_feed_snoc. unfold commit_feeds. destruct (memb d (keys ws)) eqn:M.
      * apply memb_In in M. rewrite <- L. f_equal. apply St. apply in_or_app. now left.
      * apply memb_false in M. rewrite (writes_to_notin _ _ M), app_nil_r. apply L.
Qed.

Lemma init_inv_ser ps : Forall (guarded []) ps -> inv_ser (init_config ps).
Proof.
  intros F. split; [|split]; cbn.
  - rewrite all_held_init. constructor.
  - apply Forall_map. eapply Forall_impl; [|exact F]. intros p G. split; cbn; [assumption|].
    intros d Id. destruct (guarded_needs _ _ G d Id).
  - reflexivity.
Qed.

Lemma steps_inv_ser c c' : inv_ser c -> steps c c' -> inv_ser c'.
Proof. intros I S. induction S; [assumption | eapply step_inv_ser; eauto]. Qed.

(** *** program order *)
Definition inv_po (ps : list (list instr)) (c : config) : Prop :=
  forall i p0, nth_error ps i = Some p0 ->
    exists t, nth_error (threads c) i = Some t /\ my_commits i (clog c) ++ commits (prog t) = commits p0.

Lemma nth_error_mid_other {A} (pre : list A) x y post i :
  i <> length pre -> nth_error (pre ++ x :: post) i = nth_error (pre ++ y :: post) i.
Proof.
  intros N. destruct (Nat.lt_ge_cases i (length pre)) as [L|L].
  - now rewrite !nth_error_app1 by assumption.
  - rewrite !nth_error_app2 by assumption. destruct (i - length pre) eqn:E; [lia | reflexivity].
Qed.

Lemma my_commits_snoc i lg j ws :
  my_commits i (lg ++ [(j, ws)]) = my_commits i lg ++ (if Nat.eqb j i then [ws] else []).
Proof. unfold my_commits. rewrite filter_app, map_app. cbn. now destruct (Nat.eqb j i). Qed.

Lemma step_inv_po ps c c' : inv_po ps c -> step c c' -> inv_po ps c'.
Proof.
  intros P [j E].
  destruct (exec_at_inv _ _ _ E) as (pre & t & post & t' & fs' & w & Hs & Hl & Ht & ->).
  intros i p0 Hp. destruct (P i p0 Hp) as (u & Hu & Eq). cbn [threads clog]. rewrite Hs in Hu.
  destruct (Nat.eq_dec i j) as [->|Nij].
  - subst j. rewrite nth_error_mid in Hu. injection Hu as <-.
    exists t'. split; [apply nth_error_mid|].
    destruct (tstep_cases _ _ _ _ _ _ Ht) as
      [(l & p & Ep & _ & -> & _ & ->)|[(l & p & Ep & _ & -> & _ & ->)|
       [(d0 & p & Ep & -> & _ & ->)|(ws & p & Ep & -> & _ & ->)]]]; rewrite Ep in Eq; cbn in Eq |- *; try assumption.
    rewrite my_commits_snoc, Nat.eqb_refl, <- app_assoc. exact Eq.
  - exists u. split; [rewrite <- Hu; apply nth_error_mid_other; lia|].
    destruct w as [ws|]; [|assumption].
    rewrite my_commits_snoc. destruct (Nat.eqb j i) eqn:Eji; [apply Nat.eqb_eq in Eji; lia|].
    now rewrite app_nil_r.
Qed.

Lemma init_inv_po ps : inv_po ps (init_config ps).
Proof.
  intros i p0 Hp. exists (init_thread p0). split; [cbn; now apply map_nth_error | reflexivity].
Qed.

Lemma steps_inv_po ps c c' : inv_po ps c -> steps c c' -> inv_po ps c'.
Proof. intros I S. induction S; [assumption | eapply step_inv_po; eauto]. Qed.

Lemma terminal_nth c i t : terminal c = true -> nth_error (threads c) i = Some t -> prog t = [].
Proof.
  unfold terminal. rewrite forallb_forall. intros T Hn. apply nth_error_In in Hn.
  specialize (T _ Hn). unfold finished in T. destruct (prog t); [reflexivity | discriminate].
Qed.

(** Serializability, for any finite set of threads whose programs read and commit a dataset
    only under its lock, and ANY interleaving:
    - the feed of every dataset is exactly the commits on it in the order they happened
      (nothing lost, nothing torn: each commit's entries are contiguous);
    - the commits of every client occur in that order in its program order, and what it has
      committed so far plus what its remaining program will commit is what it was asked to do. *)
Theorem serializable ps c :
  Forall (guarded []) ps -> steps (init_config ps) c ->
  (forall d, feeds c d = log_feed d (clog c)) /\
  (forall i p0, nth_error ps i = Some p0 ->
     exists t, nth_error (threads c) i = Some t /\ my_commits i (clog c) ++ commits (prog t) = commits p0).
Proof.
  intros F S. split.
  - pose proof (steps_inv_ser _ _ (init_inv_ser _ F) S) as (_ & _ & L). exact L.
  - exact (steps_inv_po _ _ _ (init_inv_po ps) S).
Qed.

(** at the end every client's commits happened exactly once, in its order *)
Corollary serializable_terminal ps c :
  Forall (guarded []) ps -> steps (init_config ps) c -> terminal c = true ->
  (forall d, feeds c d = log_feed d (clog c)) /\
  (forall i p0, nth_error ps i = Some p0 -> my_commits i (clog c) = commits p0).
Proof.
  intros F S T. destruct (serializable _ _ F S) as [L P]. split; [assumption|].
  intros i p0 Hp. destruct (P i p0 Hp) as (t & Ht & Eq).
  rewrite (terminal_nth _ _ _ T Ht) in Eq. cbn in Eq. now rewrite app_nil_r in Eq.
Qed.

(** ** The programs generated from operations are guarded (either lock order) *)
Lemma needs_app_nil p q : needs q = [] -> needs (p ++ q) = needs p.
Proof.
  intros Hq. induction p as [|[l|l|d|ws] p IH]; cbn; [assumption| | | |]; now rewrite ?IH.
Qed.

Lemma guarded_nil_needs q : guarded [] q -> needs q = [].
Proof.
  intros G. destruct (needs q) as [|d r] eqn:E; [reflexivity|].
  exfalso. apply (guarded_needs _ _ G d). rewrite E. now left.
Qed.

Lemma guarded_app p q : forall H, guarded H p -> guarded [] q -> guarded H (p ++ q).
Proof.
  intros H Hp Hq. pose proof (guarded_nil_needs _ Hq) as Nq. revert H Hp.
  induction p as [|[l|l|d|ws] p IH]; cbn; intros H Hp.
  - now subst.
  - rewrite needs_app_nil by assumption. split; [tauto | apply IH; tauto].
  - split; [tauto | apply IH; tauto].
  - split; [tauto | apply IH; tauto].
  - rewrite needs_app_nil by assumption. split; [tauto | apply IH; tauto].
Qed.

Lemma needs_acqs l r : needs (map Acq l ++ r) = needs r.
Proof. induction l; cbn; auto. Qed.
Lemma needs_rels l : needs (map Rel l) = [].
Proof. induction l; cbn; auto. Qed.
Lemma needs_reads l r d : In d (needs (map Read l ++ r)) -> In d (needs r) /\ ~ In d l.
Proof.
  induction l as [|x l IH]; cbn; [tauto|]. intros I. apply In_removeb in I. destruct I as [I N].
  destruct (IH I). split; [assumption|]. intros [->|]; tauto.
Qed.
Lemma needs_core_update m r : needs (core_update m ++ r) = removeb LCore (needs r).
Proof. reflexivity. Qed.

Definition updates_of (ks : list part) (uo : list lock) : list instr :=
  flat_map (fun d => match find_part d ks with Some p => part_update p | None => [] end) uo.

Lemma needs_part_update p r : needs r = [] -> needs (part_update p ++ r) = [].
Proof.
  intros Hr. unfold part_update. destruct (p_new p && negb (is_core (p_ds p))); [|assumption].
  now rewrite needs_core_update, Hr.
Qed.
Lemma needs_updates ks uo r : needs r = [] -> needs (updates_of ks uo ++ r) = [].
Proof.
  intros Hr. unfold updates_of. induction uo as [|d uo IH]; cbn; [assumption|]. rewrite <- app_assoc.
  destruct (find_part d ks); [|assumption]. now apply needs_part_update.
Qed.

Lemma guarded_core_update H m r :
  ~ In LCore H -> needs r = [] -> guarded H r -> guarded H (core_update m ++ r).
Proof.
  intros NH Nr G. cbn. rewrite Nr. cbn. split; [tauto|]. split; [now left|]. split.
  - intros d [<-|[]]. split; [now left | tauto].
  - split; [now left|]. now rewrite removeb_notin.
Qed.

Lemma guarded_updates ks uo H r :
  ~ In LCore H -> needs r = [] -> guarded H r -> guarded H (updates_of ks uo ++ r).
Proof.
  intros NH Nr G. unfold updates_of. induction uo as [|d uo IH]; cbn; [assumption|]. rewrite <- app_assoc.
  destruct (find_part d ks) as [p|]; [|assumption].
  unfold part_update. destruct (p_new p && negb (is_core (p_ds p))); [|assumption].
  apply guarded_core_update; [assumption | | assumption].
  now apply (needs_updates ks uo r).
Qed.

Lemma guarded_acqs ao : forall H r,
  (forall x, In x ao -> ~ In x (needs r)) -> guarded (rev ao ++ H) r -> guarded H (map Acq ao ++ r).
Proof.
  induction ao as [|x ao IH]; cbn; intros H r Hn G; [assumption|].
  rewrite needs_acqs. split; [now apply Hn; left|].
  apply IH; [intros y Hy; apply Hn; now right | now rewrite <- app_assoc in G].
Qed.

Lemma guarded_reads l H r : (forall x, In x l -> In x H) -> guarded H r -> guarded H (map Read l ++ r).
Proof. induction l as [|x l IH]; cbn; intros S G; [assumption|]. split; [apply S; now left | apply IH; auto]. Qed.

Lemma guarded_rels L : NoDup L -> guarded L (map Rel L).
Proof.
  induction 1 as [|x L Hx HL IH]; cbn; [reflexivity|].
  split; [now left|]. rewrite lock_eqb_refl, removeb_notin; assumption.
Qed.

Lemma keys_part_writes ks : keys (part_writes ks) = part_keys ks.
Proof. unfold keys, part_writes, part_keys. rewrite map_map. reflexivity. Qed.

Lemma guarded_txn ks ao uo :
  permb ao (part_keys ks) = true -> negb (memb LCore (part_keys ks)) = true ->
  guarded [] (txn_prog ks ao uo).
Proof.
  intros P NC. destruct (permb_spec _ _ P) as (Na & _ & Iff).
  rewrite negb_true_iff, memb_false in NC.
  assert (Ntail : needs (updates_of ks uo ++ map Rel (rev ao)) = []) by (apply needs_updates, needs_rels).
  unfold txn_prog. fold (updates_of ks uo). apply guarded_acqs.
  - intros x Hx I. apply needs_reads in I. tauto.
  - rewrite app_nil_r. apply guarded_reads; [intros x Hx; now apply in_rev in Hx|].
    cbn [app guarded]. rewrite keys_part_writes, Ntail. split.
    + intros d Hd. split; [apply -> in_rev; now apply Iff | tauto].
    + apply guarded_updates; [| apply needs_rels | apply guarded_rels; now apply NoDup_rev].
      intros I. apply in_rev in I. apply NC. now apply Iff.
Qed.

Lemma guarded_batch p : guarded [] (batch_prog p).
Proof.
  unfold batch_prog. cbn [app guarded needs keys map fst].
  assert (Nt : needs (part_update p ++ [Rel (p_ds p)]) = []) by (now apply needs_part_update).
  rewrite Nt. cbn [app]. split; [intros I; apply In_removeb in I; tauto|].
  split; [now left|]. split; [intros d [<-|[]]; split; [now left | tauto]|].
  assert (Gr : guarded [p_ds p] [Rel (p_ds p)]) by (cbn; rewrite lock_eqb_refl; auto).
  unfold part_update. destruct (p_new p && negb (is_core (p_ds p))) eqn:E; [|exact Gr].
  apply andb_true_iff in E. destruct E as [_ E]. apply negb_true_iff in E.
  apply guarded_core_update; [|reflexivity|exact Gr].
  intros [Eq|[]]. rewrite Eq in E. discriminate.
Qed.

Lemma guarded_op v o : op_safe v o = true -> guarded [] (prog_of_op v o).
Proof.
  intros Hs. unfold op_safe in Hs. apply andb_true_iff in Hs. destruct Hs as [Hwf Hc].
  destruct o as [p|ks ao uo|ks|d isnew|d m|d present]; cbn [prog_of_op].
  - apply guarded_batch.
  - cbn in Hwf. rewrite !andb_true_iff in Hwf. destruct Hwf as [[[P _] _] _].
    destruct (v_core v).
    + cbn in Hc. now apply guarded_txn.
    + destruct (memb LCore (part_keys ks)) eqn:M; [reflexivity|]. apply guarded_txn; auto. now rewrite M.
  - cbn in Hwf. rewrite !andb_true_iff in Hwf. destruct Hwf as [[Nd _] _].
    assert (G : guarded [] (map Acq ks ++ map Rel (rev ks))).
    { apply guarded_acqs; [intros x _; now rewrite needs_rels|].
      rewrite app_nil_r. apply guarded_rels. apply NoDup_rev. now apply nodupb_NoDup. }
    destruct (v_core v); [exact G|]. destruct (memb LCore ks); [reflexivity | exact G].
  - destruct isnew; cbn; intuition (try discriminate; subst; auto).
  - destruct m as [| | |d']; cbn; rewrite ?N.eqb_refl; cbn; intuition (try discriminate; subst; auto).
  - destruct present; cbn; intuition (try discriminate; subst; auto).
Qed.

Lemma guarded_ops v os : forallb (op_safe v) os = true -> guarded [] (prog_of_ops v os).
Proof.
  induction os as [|o os IH]; cbn; [reflexivity|]. rewrite andb_true_iff. intros [Ho Hos].
  apply guarded_app; [now apply guarded_op | now apply IH].
Qed.

(** serializability for any finite set of clients running any sequences of operations,
    under either lock order (the pinned order can deadlock but never loses or tears a write) *)
Theorem serializable_ops v (clients : list (list op)) c :
  forallb (forallb (op_safe v)) clients = true ->
  steps (init_config (map (prog_of_ops v) clients)) c ->
  (forall d, feeds c d = log_feed d (clog c)) /\
  (forall i os, nth_error clients i = Some os ->
     exists t, nth_error (threads c) i = Some t /\
               my_commits i (clog c) ++ commits (prog t) = commits (prog_of_ops v os)).
Proof.
  intros Hs S.
  assert (F : Forall (guarded []) (map (prog_of_ops v) clients)).
  { apply Forall_map. apply Forall_forall. intros os Hos. rewrite forallb_forall in Hs. apply guarded_ops; auto. }
  destruct (serializable _ _ F S) as [L P]. split; [assumption|].
  intros i os Hn. apply P. now apply map_nth_error.
Qed.

(** *** mutual exclusion is per DATASET (internal id), not per Go object: [LDs n] is the one lock of the
    dataset currently named n.  A writer that commits to the dataset under some other mutex (e.g. the
    WriteLock of a stale or duplicate Dataset object) is not [guarded], and an update is lost. *)
Definition batch_under_other_lock (other d : lock) (k : marker) : list instr :=
  [Acq other; Read d; Commit [(d, [k])]; Rel other].

Lemma other_lock_not_guarded other d k : other <> d -> ~ guarded [] (batch_under_other_lock other d k).
Proof. cbn. intros N (_ & [E|[]] & _). congruence. Qed.

Lemma refuted_two_locks_one_dataset :
  exists c, steps (init_config [batch_under_other_lock (LDs 50) (LDs 51) 1%N; batch_prog {| p_ds := LDs 51; p_ms := [1001%N]; p_new := false |}]) c
            /\ terminal c = true /\ feeds c (LDs 51) <> log_feed (LDs 51) (clog c).
Proof.
  destruct (run_sched [0; 0; 1; 1; 1; 1; 0; 0]
              (init_config [batch_under_other_lock (LDs 50) (LDs 51) 1%N;
                            batch_prog {| p_ds := LDs 51; p_ms := [1001%N]; p_new := false |}])) as [c|] eqn:E.
  - exists c. split; [eapply run_sched_steps; eassumption|].
    vm_compute in E. injection E as <-. split; [reflexivity | vm_compute; discriminate].
  - vm_compute in E. discriminate.
Qed.
