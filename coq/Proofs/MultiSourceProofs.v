(** * Proofs for Model/MultiSource.v (property C18)

    Structure: graph queries = triple semantics ([related_spec]); the join walk is complete for declared paths
    ([walk_now], [walk_prev], [dep_targets_complete]); ProcessChanges ([changes_plain], [changes_gen] for LatestOnly);
    one ReadEntities call: at every persisted token everything below it was delivered ([page_safe]); a run
    ([inc_pages_safe]); histories: invariant [hinv] over [exec] ([step_inv]) giving [tokens_safe] and
    [complete]; a run that does not move a token had nothing to read ([fixpoint_caught_up]); [main_only];
    implicit dependencies ([implicit_tracked]). *)
From Coq Require Import List ZArith NArith Bool Arith Lia.
From DH Require Import Model.MultiSource.
Import ListNotations.
Local Open Scope Z_scope.

(** * basic list facts *)
Lemma memN_In : forall x l, memN x l = true <-> In x l.
Proof.
  induction l as [|y l IH]; cbn; [split; [discriminate|tauto]|].
  rewrite orb_true_iff, IH, N.eqb_eq. split; intros [H|H]; auto.
Qed.

Lemma dedup_In : forall x l, In x (dedup l) <-> In x l.
Proof.
  induction l as [|y l IH]; cbn; [tauto|].
  destruct (memN y l) eqn:E.
  - rewrite IH. split; auto. intros [->|H]; auto. now apply memN_In.
  - cbn. rewrite IH. tauto.
Qed.

(** * latest_at / related *)
Lemma latest_at_In : forall f t i v, latest_at f t i = Some v -> In v f /\ v_id v = i.
Proof.
  induction f as [|w f IH]; cbn; intros t i v H; [discriminate|].
  destruct (latest_at f t i) eqn:E.
  - injection H as <-. destruct (IH _ _ _ E); auto.
  - unfold vis in H. destruct (N.eqb (v_id w) i) eqn:Ei; cbn in H; [|discriminate].
    destruct (Z.leb (v_time w) t); [|discriminate]. injection H as <-. apply N.eqb_eq in Ei. auto.
Qed.

Lemma out_related_spec : forall h scope t p x y,
  In y (out_related h scope t p x) <-> exists k, In k scope /\ triple_at h k t x p y.
Proof.
  intros. unfold out_related, triple_at, live_refs. rewrite in_flat_map. split.
  - intros (k & Hk & H). exists k. split; auto. apply in_map_iff in H. destruct H as ([p' y'] & Hy & H).
    cbn in Hy. subst y'. apply filter_In in H. destruct H as [H Hp]. cbn in Hp. apply N.eqb_eq in Hp. subst p'.
    destruct (latest_at (feed_of h k) t x) as [v|]; [|destruct H].
    destruct (v_del v) eqn:D; [destruct H|]. exists v. auto.
  - intros (k & Hk & v & Hl & D & H). exists k. split; auto. rewrite Hl, D.
    apply in_map_iff. exists (p, y). split; auto. apply filter_In. split; auto. cbn. apply N.eqb_refl.
Qed.

Lemma in_related_spec : forall h scope t p x y,
  In y (in_related h scope t p x) <-> exists k, In k scope /\ triple_at h k t y p x.
Proof.
  intros. unfold in_related, triple_at, live_refs. rewrite in_flat_map. split.
  - intros (k & Hk & H). exists k. split; auto. apply filter_In in H. destruct H as [_ H].
    destruct (latest_at (feed_of h k) t y) as [v|]; [|discriminate].
    destruct (v_del v) eqn:D; [discriminate|]. exists v. split; auto. split; auto.
    apply existsb_exists in H. destruct H as ([p' x'] & Hin & E). unfold pair_eqb in E. cbn in E.
    apply andb_true_iff in E. destruct E as [E1 E2]. apply N.eqb_eq in E1, E2. subst. auto.
  - intros (k & Hk & v & Hl & D & H). exists k. split; auto. apply filter_In. split.
    + destruct (latest_at_In _ _ _ _ Hl) as [Hin Hid]. apply in_map_iff. exists v. auto.
    + rewrite Hl, D. apply existsb_exists. exists (p, x). split; auto. unfold pair_eqb. cbn.
      now rewrite !N.eqb_refl.
Qed.

Lemma related_spec : forall h scope t j x y, In y (related h scope t j x) <-> hop_rel h scope t j x y.
Proof.
  intros. unfold related, hop_rel. destruct (j_inv j).
  - apply in_related_spec.
  - apply out_related_spec.
Qed.

(** * walk is complete for join paths *)
Lemma walk_follow : forall h now pv js prev starts y m,
  In y starts -> path h now prev js y m -> In m (walk h now pv false prev js starts []).
Proof.
  induction js as [|j js IH]; cbn; intros prev starts y m Hy Hp.
  - now subst.
  - destruct Hp as (z & Hh & Hp). eapply IH; eauto. apply dedup_In. rewrite app_nil_r.
    apply in_flat_map. exists y. split; auto. rewrite app_nil_r. now apply related_spec.
Qed.

Lemma walk_now : forall h now pv first prev js cur old x m,
  In x cur -> path h now prev js x m -> In m (walk h now pv first prev js cur old).
Proof.
  intros h now pv first prev js cur old x m Hx Hp. destruct js as [|j js]; cbn in *.
  - now subst.
  - destruct Hp as (z & Hh & Hp). eapply walk_follow; eauto. apply dedup_In. apply in_or_app. left.
    apply in_flat_map. exists x. split; auto. apply in_or_app. left. now apply related_spec.
Qed.

Lemma walk_prev : forall h now h' prev j js cur old x y m,
  In x cur \/ In x old -> j_inv j = false ->
  hop_rel h' [prev; j_ds j] now j x y -> path h now (j_ds j) js y m ->
  In m (walk h now (PvHub h') true prev (j :: js) cur old).
Proof.
  intros h now h' prev j js cur old x y m Hx Hinv Hh Hp. cbn. rewrite Hinv. cbn.
  eapply walk_follow; eauto. apply dedup_In. apply in_or_app. destruct Hx as [Hx|Hx].
  - left. apply in_flat_map. exists x. split; auto. apply in_or_app. right. cbn. now apply related_spec.
  - right. apply in_flat_map. exists x. split; auto. cbn. now apply related_spec.
Qed.

Lemma dep_targets_complete : forall v c h dp since ids sk x m,
  f_prev v = PrevFeed -> In x ids -> required c h dp since x m ->
  In m (dep_targets v c h dp since ids sk).
Proof.
  intros v c h dp since ids sk x m Hv Hx [Hc Hl]. unfold dep_targets.
  destruct Hc as [[Hne Hp]|Hc].
  - destruct (d_joins dp) as [|j js] eqn:E; [congruence|]. apply filter_In. split; auto.
    eapply walk_now; eauto.
  - unfold connected_prev in Hc. destruct (d_joins dp) as [|j js] eqn:E; [destruct Hc|].
    destruct Hc as (Hinv & Hs & y & Hh & Hp). apply filter_In. split; auto.
    unfold prev_view. rewrite Hv. destruct (Z.leb since 0) eqn:Es; [apply Z.leb_le in Es; lia|].
    eapply walk_prev; eauto.
Qed.

Lemma dep_targets_complete_old : forall v c h dp since ids sk x m,
  f_prev v = PrevFeed -> f_skip v = SkipPrev -> In x sk ->
  connected_prev h dp since x m -> main_live h (c_main c) m = true ->
  In m (dep_targets v c h dp since ids sk).
Proof.
  intros v c h dp since ids sk x m Hv Hk Hx Hc Hl. unfold dep_targets. rewrite Hk.
  unfold connected_prev in Hc. destruct (d_joins dp) as [|j js] eqn:E; [destruct Hc|].
  destruct Hc as (Hinv & Hs & y & Hh & Hp). apply filter_In. split; auto.
  unfold prev_view. rewrite Hv. destruct (Z.leb since 0) eqn:Es; [apply Z.leb_le in Es; lia|].
  eapply walk_prev; eauto.
Qed.

Lemma dep_targets_main : forall v c h dp since ids sk m,
  In m (dep_targets v c h dp since ids sk) -> main_live h (c_main c) m = true.
Proof.
  intros v c h dp since ids sk m H. unfold dep_targets in H. destruct (d_joins dp); [destruct H|].
  apply filter_In in H. tauto.
Qed.

Lemma main_live_In : forall h k m, main_live h k m = true -> In m (map v_id (feed_of h k)).
Proof.
  intros h k m H. unfold main_live in H. destruct (latest_at (feed_of h k) (h_clock h) m) as [v|] eqn:E; [|discriminate].
  destruct (latest_at_In _ _ _ _ E) as [Hin Hid]. apply in_map_iff. exists v. auto.
Qed.


(** * positions *)
Lemma dropz_le0 : forall n l, n <= 0 -> dropz n l = l.
Proof. intros n [|x l] H; cbn; auto. destruct (Z.leb_spec n 0); auto; lia. Qed.

Lemma dropz_cons : forall n x l, 0 < n -> dropz n (x :: l) = dropz (n - 1) l.
Proof. intros. cbn. destruct (Z.leb_spec n 0); auto; lia. Qed.

Lemma nthz_0 : forall x l, nthz (x :: l) 0 = Some x.
Proof. reflexivity. Qed.

Lemma nthz_cons : forall n x l, 0 < n -> nthz (x :: l) n = nthz l (n - 1).
Proof.
  intros. unfold nthz. destruct (Z.ltb_spec n 0); [lia|]. destruct (Z.ltb_spec (n - 1) 0); [lia|].
  now rewrite dropz_cons.
Qed.

Lemma nthz_neg : forall l n, n < 0 -> nthz l n = None.
Proof. intros. unfold nthz. destruct (Z.ltb_spec n 0); auto; lia. Qed.

Lemma nthz_range : forall l n x, nthz l n = Some x -> 0 <= n < lenz l.
Proof.
  unfold lenz. induction l as [|y l IH]; intros n x H.
  - unfold nthz in H. destruct (n <? 0); discriminate.
  - destruct (Z.ltb_spec n 0) as [Hn|Hn]; [rewrite nthz_neg in H by lia; discriminate|].
    destruct (Z.eq_dec n 0) as [->|Hn0]; [cbn [length]; lia|].
    rewrite nthz_cons in H by lia. apply IH in H. cbn [length]. lia.
Qed.

Lemma nthz_some : forall l n, 0 <= n < lenz l -> exists x, nthz l n = Some x.
Proof.
  unfold lenz. induction l as [|y l IH]; intros n H; cbn [length] in H; [lia|].
  destruct (Z.eq_dec n 0) as [->|Hn0]; [eexists; apply nthz_0|].
  rewrite nthz_cons by lia. apply IH. lia.
Qed.

Lemma nthz_In : forall l n x, nthz l n = Some x -> In x l.
Proof.
  induction l as [|y l IH]; intros n x H.
  - unfold nthz in H. destruct (n <? 0); discriminate.
  - destruct (Z.ltb_spec n 0) as [Hn|Hn]; [rewrite nthz_neg in H by lia; discriminate|].
    destruct (Z.eq_dec n 0) as [->|Hn0]; [cbn in H; injection H as <-; now left|].
    rewrite nthz_cons in H by lia. right. eauto.
Qed.

Lemma nthz_dropz : forall l s k, 0 <= s -> 0 <= k -> nthz (dropz s l) k = nthz l (s + k).
Proof.
  induction l as [|y l IH]; intros s k Hs Hk.
  - cbn. unfold nthz. cbn. destruct (k <? 0), (s + k <? 0); auto.
  - destruct (Z.eq_dec s 0) as [->|Hs0]; [now rewrite dropz_le0 by lia|].
    rewrite dropz_cons by lia. rewrite IH by lia. rewrite (nthz_cons (s + k)) by lia. f_equal. lia.
Qed.

Lemma dropz_nil_len : forall l s, 0 <= s -> dropz s l = [] -> lenz l <= s.
Proof.
  unfold lenz. induction l as [|y l IH]; intros s Hs H; [cbn; lia|].
  destruct (Z.eq_dec s 0) as [->|Hs0]; [rewrite dropz_le0 in H by lia; discriminate|].
  rewrite dropz_cons in H by lia. apply IH in H; [|lia]. cbn [length]. lia.
Qed.

Lemma dropz_len : forall l s, 0 <= s -> lenz (dropz s l) = Z.max 0 (lenz l - s).
Proof.
  unfold lenz. induction l as [|y l IH]; intros s Hs; [cbn; lia|].
  destruct (Z.eq_dec s 0) as [->|Hs0]; [rewrite dropz_le0 by lia; cbn [length]; lia|].
  rewrite dropz_cons by lia. rewrite IH by lia. cbn [length]. lia.
Qed.

(** * ProcessChanges without LatestOnly *)
Lemma scan_plain : forall l pos limit n vs sk c,
  (n < limit)%nat -> scan l pos limit n false = (vs, sk, c) ->
  sk = [] /\ pos <= c <= pos + lenz l /\ (l <> [] -> pos < c) /\
  (forall i x, 0 <= i < c - pos -> nthz l i = Some x -> In x vs) /\
  (forall x, In x vs -> In x l).
Proof.
  unfold lenz. induction l as [|y l IH]; intros pos limit n vs sk c Hn H; cbn [scan andb] in H.
  - injection H as <- <- <-. cbn. split; [reflexivity|]. split; [lia|]. split; [congruence|].
    split; [intros; lia|auto].
  - destruct (Nat.eqb (S n) limit) eqn:E.
    + injection H as <- <- <-. cbn [length]. split; [reflexivity|]. split; [lia|]. split; [intros; lia|]. split.
      * intros i x Hi Hx. assert (i = 0) as -> by lia. cbn in Hx. injection Hx as <-. now left.
      * intros x [<-|[]]. now left.
    + apply Nat.eqb_neq in E. destruct (scan l (pos + 1) limit (S n) false) as [[r s] c'] eqn:Es.
      injection H as <- <- <-. apply IH in Es; [|lia]. destruct Es as (-> & Hc & _ & Hcov & Hsub).
      cbn [length]. split; [reflexivity|]. split; [lia|]. split; [intros; lia|]. split.
      * intros i x Hi Hx. destruct (Z.eq_dec i 0) as [->|Hi0]; [cbn in Hx; injection Hx as <-; now left|].
        rewrite nthz_cons in Hx by lia. right. apply (Hcov (i - 1)); auto. lia.
      * intros x [<-|Hx]; [now left|right; auto].
Qed.

Lemma changes_plain : forall f since b vs sk c,
  (1 <= b)%nat -> 0 <= since -> changes f since b false = (vs, sk, c) ->
  sk = [] /\ since <= c /\ c <= Z.max since (lenz f) /\ (since < lenz f -> since < c) /\
  (forall k x, since <= k < c -> nthz f k = Some x -> In x vs) /\
  (forall x, In x vs -> In x f) /\ (vs <> [] -> since < c).
Proof.
  intros f since b vs sk c Hb Hs H. unfold changes in H.
  destruct (dropz since f) as [|y l] eqn:E.
  - injection H as <- <- <-. apply dropz_nil_len in E; auto. split; [reflexivity|]. split; [lia|]. split; [lia|].
    split; [lia|]. split; [intros; lia|]. split; [intros x []|congruence].
  - rewrite <- E in H. apply scan_plain in H; [|lia]. destruct H as (-> & Hc & Hlt & Hcov & Hsub).
    rewrite dropz_len in Hc by lia. split; [reflexivity|]. split; [lia|]. split; [lia|]. split; [|split; [|split]].
    + intros _. apply Hlt. rewrite E. discriminate.
    + intros k x Hk Hx. apply (Hcov (k - since)); [lia|]. rewrite nthz_dropz by lia. rewrite <- Hx. f_equal. lia.
    + intros x Hx. apply Hsub in Hx. rewrite E in Hx.
      assert (Hn : nthz (dropz since f) 0 = Some y) by (rewrite E; reflexivity).
      clear - Hx E Hs. revert since Hs E. induction f as [|z f IH]; intros since Hs E; [cbn in E; discriminate|].
      destruct (Z.eq_dec since 0) as [->|H0]; [rewrite dropz_le0 in E by lia; now rewrite E|].
      rewrite dropz_cons in E by lia. right. eapply IH; [|exact E]. lia.
    + intros _. apply Hlt. rewrite E. discriminate.
Qed.

(** * ProcessChanges with any LatestOnly flag *)
Lemma dropz_dropz : forall l a b, 0 <= a -> 0 <= b -> dropz a (dropz b l) = dropz (a + b) l.
Proof.
  induction l as [|y l IH]; intros a b Ha Hb; [destruct (a <=? 0); reflexivity|].
  destruct (Z.eq_dec b 0) as [->|Hb0]; [rewrite (dropz_le0 0) by lia; f_equal; lia|].
  rewrite (dropz_cons b) by lia. rewrite (dropz_cons (a + b)) by lia. rewrite IH by lia. f_equal. lia.
Qed.

Lemma scan_gen : forall l pos limit n latest vs sk c,
  (n < limit)%nat -> scan l pos limit n latest = (vs, sk, c) ->
  pos <= c <= pos + lenz l /\ (l <> [] -> pos < c) /\
  (forall i x, 0 <= i < c - pos -> nthz l i = Some x ->
               if latest && superseded x (dropz (i + 1) l) then In x sk else In x vs).
Proof.
  unfold lenz. induction l as [|y l IH]; intros pos limit n latest vs sk c Hn H; cbn [scan] in H.
  - injection H as <- <- <-. cbn. split; [lia|]. split; [congruence|intros; lia].
  - assert (Hd : forall i, 0 < i -> dropz (i + 1) (y :: l) = dropz (i - 1 + 1) l).
    { intros i Hi. rewrite dropz_cons by lia. f_equal. lia. }
    assert (Hd0 : dropz (0 + 1) (y :: l) = l) by (cbn; now rewrite dropz_le0 by lia).
    destruct (latest && superseded y l) eqn:Esk.
    + destruct (scan l (pos + 1) limit n latest) as [[r s] c'] eqn:Es. injection H as <- <- <-.
      apply IH in Es; auto. destruct Es as (Hc & _ & Hcov). cbn [length]. split; [lia|]. split; [intros; lia|].
      intros i x Hi Hx. destruct (Z.eq_dec i 0) as [->|Hi0].
      * cbn in Hx. injection Hx as <-. rewrite Hd0, Esk. now left.
      * rewrite nthz_cons in Hx by lia. rewrite Hd by lia. specialize (Hcov (i - 1) x ltac:(lia) Hx).
        destruct (latest && superseded x (dropz (i - 1 + 1) l)); [now right|auto].
    + destruct (Nat.eqb (S n) limit) eqn:E.
      * injection H as <- <- <-. cbn [length]. split; [lia|]. split; [intros; lia|].
        intros i x Hi Hx. assert (i = 0) as -> by lia. cbn in Hx. injection Hx as <-. rewrite Hd0, Esk. now left.
      * apply Nat.eqb_neq in E. destruct (scan l (pos + 1) limit (S n) latest) as [[r s] c'] eqn:Es.
        injection H as <- <- <-. apply IH in Es; [|lia]. destruct Es as (Hc & _ & Hcov).
        cbn [length]. split; [lia|]. split; [intros; lia|].
        intros i x Hi Hx. destruct (Z.eq_dec i 0) as [->|Hi0].
        -- cbn in Hx. injection Hx as <-. rewrite Hd0, Esk. now left.
        -- rewrite nthz_cons in Hx by lia. rewrite Hd by lia. specialize (Hcov (i - 1) x ltac:(lia) Hx).
           destruct (latest && superseded x (dropz (i - 1 + 1) l)); [auto|now right].
Qed.

Lemma changes_gen : forall f since b latest vs sk c,
  (1 <= b)%nat -> 0 <= since -> changes f since b latest = (vs, sk, c) ->
  since <= c /\ c <= Z.max since (lenz f) /\ (since < lenz f -> since < c) /\
  (forall k x, since <= k < c -> nthz f k = Some x ->
               if latest && superseded x (dropz (k + 1) f) then In x sk else In x vs).
Proof.
  intros f since b latest vs sk c Hb Hs H. unfold changes in H.
  destruct (dropz since f) as [|y l] eqn:E.
  - injection H as <- <- <-. apply dropz_nil_len in E; auto. split; [lia|]. split; [lia|]. split; [lia|intros; lia].
  - rewrite <- E in H. apply scan_gen in H; [|lia]. destruct H as (Hc & Hlt & Hcov).
    rewrite dropz_len in Hc by lia. split; [lia|]. split; [lia|]. split.
    + intros _. apply Hlt. rewrite E. discriminate.
    + intros k x Hk Hx. specialize (Hcov (k - since) x ltac:(lia)).
      rewrite nthz_dropz in Hcov by lia. replace (since + (k - since)) with k in Hcov by lia.
      specialize (Hcov Hx). rewrite dropz_dropz in Hcov by lia. replace (k - since + 1 + since) with (k + 1) in Hcov by lia.
      exact Hcov.
Qed.

(** sources of every emitted id, any LatestOnly flag *)
Lemma scan_sub : forall l pos limit n latest vs sk c,
  scan l pos limit n latest = (vs, sk, c) -> forall x, In x vs -> In x l.
Proof.
  induction l as [|y l IH]; intros pos limit n latest vs sk c H x Hx; cbn [scan] in H.
  - injection H as <- <- <-. destruct Hx.
  - destruct (latest && superseded y l).
    + destruct (scan l (pos + 1) limit n latest) as [[r s] c'] eqn:Es. injection H as <- <- <-. right. eauto.
    + destruct (Nat.eqb (S n) limit).
      * injection H as <- <- <-. destruct Hx as [<-|[]]. now left.
      * destruct (scan l (pos + 1) limit (S n) latest) as [[r s] c'] eqn:Es. injection H as <- <- <-.
        destruct Hx as [<-|Hx]; [now left|right; eauto].
Qed.

Lemma dropz_sub : forall l s x, In x (dropz s l) -> In x l.
Proof.
  induction l as [|y l IH]; intros s x H; cbn in H; auto.
  destruct (s <=? 0); auto. right. eauto.
Qed.

Lemma changes_sub : forall f since b latest vs sk c,
  changes f since b latest = (vs, sk, c) -> forall x, In x vs -> In x f.
Proof.
  intros f since b latest vs sk c H x Hx. unfold changes in H. destruct (dropz since f) as [|y l] eqn:E.
  - injection H as <- <- <-. destruct Hx.
  - rewrite <- E in H. eapply dropz_sub. eapply scan_sub; eauto.
Qed.

Lemma changes_nonempty : forall f since b latest vs sk c,
  0 <= since -> changes f since b latest = (vs, sk, c) -> vs <> [] -> since < lenz f.
Proof.
  intros f since b latest vs sk c Hs H Hne. unfold changes in H. destruct (dropz since f) as [|y l] eqn:E.
  - injection H as <- _ _. congruence.
  - pose proof (dropz_len f since Hs) as Hlen. rewrite E in Hlen. unfold lenz in *. cbn [length] in Hlen. lia.
Qed.

Lemma scan_nonempty : forall l pos limit n latest vs sk c,
  (n < limit)%nat -> l <> [] -> scan l pos limit n latest = (vs, sk, c) -> vs <> [].
Proof.
  induction l as [|y l IH]; intros pos limit n latest vs sk c Hn Hne H; [congruence|]. cbn [scan] in H.
  destruct (latest && superseded y l) eqn:Esk.
  - destruct (scan l (pos + 1) limit n latest) as [[r s] c'] eqn:Es. injection H as <- _ _.
    eapply IH; eauto. apply andb_true_iff in Esk. destruct Esk as [_ Esk]. unfold superseded in Esk.
    destruct l; [discriminate|congruence].
  - destruct (Nat.eqb (S n) limit); [injection H as <- _ _; discriminate|].
    destruct (scan l (pos + 1) limit (S n) latest) as [[r s] c']. injection H as <- _ _. discriminate.
Qed.

Lemma changes_nonempty_conv : forall f since b latest vs sk c,
  (1 <= b)%nat -> 0 <= since -> changes f since b latest = (vs, sk, c) -> since < lenz f -> vs <> [].
Proof.
  intros f since b latest vs sk c Hb Hs H Hlt. unfold changes in H. destruct (dropz since f) as [|y l] eqn:E.
  - apply dropz_nil_len in E; auto. lia.
  - rewrite <- E in H. assert (Hn : (0 < b)%nat) by lia.
    assert (Hd : dropz since f <> []) by (rewrite E; discriminate).
    exact (scan_nonempty _ _ _ _ _ _ _ _ Hn Hd H).
Qed.

Lemma last_occurrence : forall f m, In m (map v_id f) ->
  exists p x, nthz f p = Some x /\ v_id x = m /\ superseded x (dropz (p + 1) f) = false.
Proof.
  induction f as [|y f IH]; intros m Hm; [destruct Hm|].
  destruct (existsb (fun w => N.eqb (v_id w) m) f) eqn:Ex.
  - apply existsb_exists in Ex. destruct Ex as (w & Hw & E). apply N.eqb_eq in E.
    destruct (IH m) as (p & x & Hx & Hid & Hs); [apply in_map_iff; eauto|].
    pose proof (nthz_range _ _ _ Hx) as Hr. exists (p + 1), x. split; [|split; auto].
    + rewrite nthz_cons by lia. rewrite <- Hx. f_equal. lia.
    + rewrite dropz_cons by lia. rewrite <- Hs. f_equal. f_equal. lia.
  - destruct Hm as [Hm|Hm].
    + exists 0, y. split; [reflexivity|]. split; auto. cbn [Z.add]. change (0 + 1) with 1.
      rewrite dropz_cons by lia. rewrite dropz_le0 by lia. unfold superseded. rewrite Hm. exact Ex.
    + exfalso. apply in_map_iff in Hm. destruct Hm as (w & Hid & Hw).
      assert (existsb (fun w => N.eqb (v_id w) m) f = true); [|congruence].
      apply existsb_exists. exists w. split; auto. now apply N.eqb_eq.
Qed.

(** * chunks *)
Lemma split_chunks_In : forall b l cur k cs r,
  split_chunks b l cur k = (cs, r) ->
  forall x, (In x (concat cs) \/ In x r) <-> (In x l \/ In x cur).
Proof.
  induction l as [|y l IH]; intros cur k cs r H x; cbn [split_chunks] in H.
  - injection H as <- <-. cbn. rewrite <- in_rev. tauto.
  - destruct (Nat.eqb (S k) b).
    + destruct (split_chunks b l [] 0) as [cs' r'] eqn:E. injection H as <- <-.
      specialize (IH _ _ _ _ E x). cbn [concat]. rewrite !in_app_iff, <- in_rev. cbn in *. tauto.
    + specialize (IH _ _ _ _ H x). cbn in *. tauto.
Qed.

(** * tokens *)
Lemma tok_get_set : forall l k z k', tok_get (tok_set l k z) k' = if Nat.eqb k' k then z else tok_get l k'.
Proof.
  induction l as [|[k0 z0] l IH]; intros k z k'; cbn [tok_get tok_set].
  - reflexivity.
  - destruct (Nat.eqb k k0) eqn:E.
    + apply Nat.eqb_eq in E. subst k0. cbn [tok_get]. destruct (Nat.eqb k' k); reflexivity.
    + destruct (Nat.ltb k k0); cbn [tok_get].
      * reflexivity.
      * rewrite IH. destruct (Nat.eqb k' k0) eqn:E2; auto.
        destruct (Nat.eqb k' k) eqn:E1; auto. apply Nat.eqb_eq in E1, E2. subst. rewrite Nat.eqb_refl in E. discriminate.
Qed.


Definition ents (cs : list call) : list N := concat (map k_ents cs).

Lemma ents_app : forall a b, ents (a ++ b) = ents a ++ ents b.
Proof. intros. unfold ents. now rewrite map_app, concat_app. Qed.

Lemma ents_map_mk : forall d full, ents (map (fun es => mkCall es d) full) = concat full.
Proof. intros. unfold ents. rewrite map_map. cbn. now rewrite map_id. Qed.

Lemma app_split {A} : forall (a b c1 c2 : list A) (k : A),
  a ++ b = c1 ++ k :: c2 ->
  (exists b', a = c1 ++ k :: b' /\ c2 = b' ++ b) \/ (exists a', c1 = a ++ a' /\ b = a' ++ k :: c2).
Proof.
  induction a as [|x a IH]; intros b c1 c2 k H.
  - right. exists c1. auto.
  - destruct c1 as [|y c1]; cbn in H.
    + injection H as -> <-. left. exists a. auto.
    + injection H as -> H. destruct (IH _ _ _ _ H) as [(b' & -> & ->)|(a' & -> & ->)].
      * left. exists b'. auto.
      * right. exists a'. auto.
Qed.

Section Page.
  Variables (v : variant) (c : cfg) (h : hub) (tk0 : tokens) (b : nat).
  Hypothesis Hs : f_shared v = SharedSnapshot.
  Hypothesis Hp : f_prev v = PrevFeed.
  Hypothesis Hsk : c_latest c = true -> f_skip v = SkipPrev.
  Hypothesis Hb : (1 <= b)%nat.
  Hypothesis Htk : forall k, 0 <= dtok tk0 k.
  Hypothesis Hm0 : 0 <= t_main tk0.

  Definition cont_of (ds : nat) : Z := snd (changes (feed_of h ds) (dtok tk0 ds) b (c_latest c)).
  Definition req (dp : dep) (p : Z) (m : N) : Prop :=
    exists x, nthz (feed_of h (d_ds dp)) p = Some x /\ required_l c h dp (dtok tk0 (d_ds dp)) p x m.

  Lemma cont_of_bounds : forall ds,
    dtok tk0 ds <= cont_of ds /\ cont_of ds <= Z.max (dtok tk0 ds) (lenz (feed_of h ds)) /\
    (dtok tk0 ds < lenz (feed_of h ds) -> dtok tk0 ds < cont_of ds).
  Proof.
    intros ds. unfold cont_of.
    destruct (changes (feed_of h ds) (dtok tk0 ds) b (c_latest c)) as [[vs sk] cont] eqn:E.
    apply changes_gen in E; auto. cbn. tauto.
  Qed.

  Definition step_tok (d : tokens) (dp : dep) (later : list dep) : tokens :=
    if existsb (same_ds (d_ds dp)) later then d
    else mkTok (t_main d) (tok_set (t_deps d) (d_ds dp) (cont_of (d_ds dp))).

  Lemma dep_step_spec : forall d dp later cs d',
    dep_step v c h tk0 b d dp later = (cs, d') ->
    d' = step_tok d dp later /\
    (forall p m, dtok tk0 (d_ds dp) <= p < cont_of (d_ds dp) -> req dp p m -> In m (ents cs)) /\
    (forall cs1 k cs2, cs = cs1 ++ k :: cs2 -> k_tok k = d \/ (cs2 = [] /\ k_tok k = d')) /\
    (forall m, In m (ents cs) -> main_live h (c_main c) m = true).
  Proof.
    intros d dp later cs d' H. unfold dep_step in H. rewrite Hs in H.
    unfold step_tok, cont_of.
    destruct (changes (feed_of h (d_ds dp)) (dtok tk0 (d_ds dp)) b (c_latest c)) as [[vs sk] cont] eqn:Ech.
    cbn [snd].
    destruct (split_chunks b (dep_targets v c h dp (dtok tk0 (d_ds dp)) (map v_id vs) (map v_id sk)) [] 0)
      as [full rem] eqn:Esp.
    injection H as <- <-.
    set (d1 := if existsb (same_ds (d_ds dp)) later then d
               else mkTok (t_main d) (tok_set (t_deps d) (d_ds dp) cont)).
    assert (Hents : forall m, In m (ents (map (fun es => mkCall es d) full ++
                                          match rem with [] => [] | _ => [mkCall rem d1] end))
                              <-> In m (concat full) \/ In m rem).
    { intros m. rewrite ents_app, in_app_iff, ents_map_mk. destruct rem as [|r0 rem]; cbn; [tauto|].
      unfold ents. cbn. rewrite app_nil_r. tauto. }
    split; [reflexivity|]. split; [|split].
    - intros p m Hr (x & Hx & Hreq). apply Hents.
      apply (split_chunks_In _ _ _ _ _ _ Esp m). left.
      apply changes_gen in Ech; auto. destruct Ech as (_ & _ & _ & Hcov).
      specialize (Hcov p x Hr Hx). destruct Hreq as [Hreq Hlive]. unfold skipped in Hreq.
      destruct (c_latest c && superseded x (dropz (p + 1) (feed_of h (d_ds dp)))) eqn:Esk.
      + destruct Hreq as [[Hf _]|Hprev]; [discriminate|].
        apply andb_true_iff in Esk. destruct Esk as [Elat _].
        eapply (dep_targets_complete_old v c h dp _ _ _ (v_id x)); eauto. now apply in_map.
      + eapply (dep_targets_complete v c h dp _ _ _ (v_id x)); eauto; [now apply in_map|].
        split; auto. destruct Hreq as [[_ Hn]|Hprev]; auto.
    - intros cs1 k cs2 Hsplit. apply app_split in Hsplit.
      destruct Hsplit as [(b' & Hm & _)|(a' & _ & Hr)].
      + left. assert (Hin : In k (map (fun es => mkCall es d) full)) by (rewrite Hm; apply in_or_app; right; now left).
        apply in_map_iff in Hin. destruct Hin as (es & <- & _). reflexivity.
      + right. destruct rem as [|r0 rem]; [destruct a'; discriminate|].
        destruct a' as [|? [|? ?]]; cbn in Hr; try discriminate. injection Hr as <- <-. auto.
    - intros m Hm. apply Hents in Hm. apply (split_chunks_In _ _ _ _ _ _ Esp m) in Hm.
      destruct Hm as [Hm|[]]. eapply dep_targets_main; eauto.
  Qed.

  Definition inv_tok (done : list dep) (d : tokens) : Prop :=
    forall ds, dtok d ds = dtok tk0 ds \/
               (dtok d ds = cont_of ds /\ forall dp, In dp (c_deps c) -> d_ds dp = ds -> In dp done).
  Definition emitted_inv (done : list dep) (pre : list call) : Prop :=
    forall dp, In dp done -> forall p m, dtok tk0 (d_ds dp) <= p < cont_of (d_ds dp) -> req dp p m -> In m (ents pre).
  Definition safe_calls (pre cs : list call) : Prop :=
    forall cs1 k cs2, cs = cs1 ++ k :: cs2 -> forall dp, In dp (c_deps c) -> forall p m,
      dtok tk0 (d_ds dp) <= p < dtok (k_tok k) (d_ds dp) -> req dp p m -> In m (ents (pre ++ cs1 ++ [k])).

  Lemma tok_safe_aux : forall D d E, inv_tok D d -> emitted_inv D E ->
    forall dp, In dp (c_deps c) -> forall p m,
      dtok tk0 (d_ds dp) <= p < dtok d (d_ds dp) -> req dp p m -> In m (ents E).
  Proof.
    intros D d E Hi He dp Hdp p m Hr Hq. destruct (Hi (d_ds dp)) as [Heq|[Heq Hall]]; [lia|].
    eapply He; eauto. lia.
  Qed.

  Lemma inv_tok_weaken : forall D D' d, (forall x, In x D -> In x D') -> inv_tok D d -> inv_tok D' d.
  Proof. intros D D' d Hsub Hi ds. destruct (Hi ds) as [H|[H1 H2]]; [left|right]; auto. Qed.

  Lemma dtok_step_tok : forall d dp later ds,
    dtok (step_tok d dp later) ds =
    if existsb (same_ds (d_ds dp)) later then dtok d ds
    else if Nat.eqb ds (d_ds dp) then cont_of (d_ds dp) else dtok d ds.
  Proof.
    intros. unfold step_tok. destruct (existsb (same_ds (d_ds dp)) later); auto.
    unfold dtok. cbn. apply tok_get_set.
  Qed.

  Lemma deps_steps_safe : forall rest done pre d cs d2,
    c_deps c = done ++ rest -> inv_tok done d -> emitted_inv done pre ->
    deps_steps v c h tk0 b d rest = (cs, d2) ->
    inv_tok (done ++ rest) d2 /\ emitted_inv (done ++ rest) (pre ++ cs) /\ safe_calls pre cs /\
    (forall m, In m (ents cs) -> main_live h (c_main c) m = true) /\
    (forall k, In k cs -> forall ds, dtok (k_tok k) ds = dtok tk0 ds \/ dtok (k_tok k) ds = cont_of ds).
  Proof.
    induction rest as [|dp rest IH]; intros done pre d cs d2 Hc Hi He H; cbn in H.
    - injection H as <- <-. rewrite !app_nil_r. split; auto. split; auto. split; [|split].
      + intros cs1 k cs2 Hsp. destruct cs1; discriminate.
      + intros m [].
      + intros k [].
    - destruct (dep_step v c h tk0 b d dp rest) as [csd d1] eqn:Ed.
      destruct (deps_steps v c h tk0 b d1 rest) as [cs' d2'] eqn:Er. injection H as <- <-.
      apply dep_step_spec in Ed. destruct Ed as (Hd1 & Hcov & Hshape & Hmain).
      assert (Hi1 : inv_tok (done ++ [dp]) d1).
      { subst d1. intros ds. rewrite dtok_step_tok.
        destruct (existsb (same_ds (d_ds dp)) rest) eqn:Eh.
        - eapply inv_tok_weaken; [|exact Hi]. intros x Hx. apply in_or_app. now left.
        - destruct (Nat.eqb ds (d_ds dp)) eqn:Eds.
          + apply Nat.eqb_eq in Eds. subst ds. right. split; auto. intros dp' Hin Hds.
            rewrite Hc in Hin. apply in_app_or in Hin. apply in_or_app. destruct Hin as [Hin|[<-|Hin]]; auto.
            * right. now left.
            * exfalso. assert (existsb (same_ds (d_ds dp)) rest = true); [|congruence].
              apply existsb_exists. exists dp'. split; auto. unfold same_ds. now apply Nat.eqb_eq.
          + destruct (Hi ds) as [H|[H1 H2]]; [left; auto|right; split; auto].
            intros dp' Hin Hds'. apply in_or_app. left. auto. }
      assert (He1 : emitted_inv (done ++ [dp]) (pre ++ csd)).
      { intros dp' Hin p m Hr Hq. rewrite ents_app. apply in_or_app. apply in_app_or in Hin.
        destruct Hin as [Hin|[<-|[]]]; [left; eapply He; eauto|right; eapply Hcov; eauto]. }
      assert (Hc' : c_deps c = (done ++ [dp]) ++ rest) by (rewrite <- app_assoc; exact Hc).
      destruct (IH _ _ _ _ _ Hc' Hi1 He1 Er) as (Hi2 & He2 & Hsafe & Hmain' & Htoks).
      rewrite <- !app_assoc in Hi2. rewrite <- !app_assoc in He2. rewrite <- (app_assoc pre csd cs') in He2 || idtac. cbn [app] in Hi2, He2.
      split; [exact Hi2|]. split; [exact He2|]. split; [|split].
      + intros cs1 k cs2 Hsp dp' Hdp' p m Hr Hq. apply app_split in Hsp.
        destruct Hsp as [(b' & Hm & _)|(a' & -> & Hrest)].
        * destruct (Hshape _ _ _ Hm) as [Hk|[-> Hk]].
          -- rewrite Hk in Hr. rewrite ents_app. apply in_or_app. left.
             exact (tok_safe_aux done d pre Hi He dp' Hdp' p m Hr Hq).
          -- rewrite Hk in Hr. rewrite <- Hm.
             exact (tok_safe_aux (done ++ [dp]) d1 (pre ++ csd) Hi1 He1 dp' Hdp' p m Hr Hq).
        * specialize (Hsafe _ _ _ Hrest dp' Hdp' p m Hr Hq). now rewrite <- !app_assoc in *.
      + intros m Hm. rewrite ents_app in Hm. apply in_app_or in Hm. destruct Hm; auto.
      + intros k Hk ds. apply in_app_or in Hk. destruct Hk as [Hk|Hk]; [|auto].
        apply in_split in Hk. destruct Hk as (a1 & a2 & Hk).
        destruct (Hshape _ _ _ Hk) as [->|[_ ->]].
        * destruct (Hi ds) as [E|[E _]]; auto.
        * destruct (Hi1 ds) as [E|[E _]]; auto.
  Qed.

  Lemma deps_steps_frame : forall rest d cs d2 ds,
    deps_steps v c h tk0 b d rest = (cs, d2) ->
    (forall dp, In dp rest -> d_ds dp <> ds) -> dtok d2 ds = dtok d ds.
  Proof.
    induction rest as [|dp rest IH]; intros d cs d2 ds H Hn; cbn in H.
    - now injection H as <- <-.
    - destruct (dep_step v c h tk0 b d dp rest) as [csd d1] eqn:Ed.
      destruct (deps_steps v c h tk0 b d1 rest) as [cs' d2'] eqn:Er. injection H as <- <-.
      apply dep_step_spec in Ed. destruct Ed as (-> & _).
      rewrite (IH _ _ _ ds Er) by (intros; apply Hn; now right).
      rewrite dtok_step_tok. destruct (existsb (same_ds (d_ds dp)) rest); auto.
      destruct (Nat.eqb ds (d_ds dp)) eqn:E; auto. apply Nat.eqb_eq in E. exfalso. eapply Hn; [now left|auto].
  Qed.

  Lemma deps_steps_final : forall rest d cs d2,
    deps_steps v c h tk0 b d rest = (cs, d2) ->
    forall dp, In dp rest -> dtok d2 (d_ds dp) = cont_of (d_ds dp).
  Proof.
    induction rest as [|dp0 rest IH]; intros d cs d2 H dp Hin; [destruct Hin|]. cbn in H.
    destruct (dep_step v c h tk0 b d dp0 rest) as [csd d1] eqn:Ed.
    destruct (deps_steps v c h tk0 b d1 rest) as [cs' d2'] eqn:Er. injection H as <- <-.
    destruct (existsb (same_ds (d_ds dp)) rest) eqn:Ex.
    - apply existsb_exists in Ex. destruct Ex as (dp' & Hin' & E). unfold same_ds in E. apply Nat.eqb_eq in E.
      rewrite <- E. eapply IH; eauto.
    - destruct Hin as [->|Hin].
      + rewrite (deps_steps_frame _ _ _ _ (d_ds dp) Er).
        * apply dep_step_spec in Ed. destruct Ed as (-> & _). rewrite dtok_step_tok, Ex, Nat.eqb_refl. reflexivity.
        * intros dp' Hin' E. assert (existsb (same_ds (d_ds dp)) rest = true); [|congruence].
          apply existsb_exists. exists dp'. split; auto. unfold same_ds. now apply Nat.eqb_eq.
      + eapply IH; eauto.
  Qed.

  Lemma deps_steps_main_tok : forall rest d0 cs d,
    deps_steps v c h tk0 b d0 rest = (cs, d) ->
    t_main d = t_main d0 /\ forall k, In k cs -> t_main (k_tok k) = t_main d0.
  Proof.
    induction rest as [|dp rest IH]; intros d0 cs d Ed; cbn in Ed.
    - injection Ed as <- <-. split; auto. intros k [].
    - destruct (dep_step v c h tk0 b d0 dp rest) as [cs1 d1] eqn:E1.
      destruct (deps_steps v c h tk0 b d1 rest) as [cs2 d2] eqn:E2. injection Ed as <- <-.
      apply dep_step_spec in E1. destruct E1 as (Hd1 & _ & Hshape & _).
      assert (Hm1 : t_main d1 = t_main d0).
      { subst d1. unfold step_tok. destruct (existsb (same_ds (d_ds dp)) rest); reflexivity. }
      destruct (IH _ _ _ E2) as [Ha Hb']. split; [congruence|]. intros k Hk.
      apply in_app_or in Hk. destruct Hk as [Hk|Hk].
      + apply in_split in Hk. destruct Hk as (a1 & a2 & Hk). destruct (Hshape _ _ _ Hk) as [->|[_ ->]]; auto.
      + rewrite <- Hm1. auto.
  Qed.

  (** One ReadEntities call: at every persisted token, everything below it has been delivered. *)
  Theorem page_safe : forall cs tk1 more,
    read_page v c h tk0 b = (cs, tk1, more) ->
    safe_calls [] cs /\
    (forall ds, dtok tk1 ds = dtok tk0 ds \/ dtok tk1 ds = cont_of ds) /\
    (forall dp, In dp (c_deps c) -> dtok tk1 (d_ds dp) = cont_of (d_ds dp)) /\
    (forall k, In k cs -> forall ds, dtok (k_tok k) ds = dtok tk0 ds \/ dtok (k_tok k) ds = cont_of ds) /\
    (exists cs0 kl, cs = cs0 ++ [kl] /\ k_tok kl = tk1 /\
                    (more = false <-> k_ents kl = []) /\
                    (forall k, In k cs0 -> t_main (k_tok k) = t_main tk0) /\
                    (forall m, In m (ents cs0) -> main_live h (c_main c) m = true) /\
                    (forall m, In m (k_ents kl) -> In m (map v_id (feed_of h (c_main c)))) /\
                    t_main tk0 <= t_main tk1 /\ t_main tk1 <= Z.max (t_main tk0) (lenz (feed_of h (c_main c))) /\
                    (more = true -> t_main tk0 < t_main tk1) /\
                    (forall p x, t_main tk0 <= p < t_main tk1 -> nthz (feed_of h (c_main c)) p = Some x ->
                                 skipped c (feed_of h (c_main c)) p x = false -> In (v_id x) (k_ents kl))).
  Proof.
    intros cs tk1 more H. unfold read_page in H.
    destruct (deps_steps v c h tk0 b tk0 (c_deps c)) as [csd d] eqn:Ed.
    destruct (changes (feed_of h (c_main c)) (t_main tk0) b (c_latest c)) as [[vs sk] cont] eqn:Ech.
    injection H as <- <- <-.
    assert (Hi0 : inv_tok [] tk0) by (intros ds; now left).
    assert (He0 : emitted_inv [] []) by (intros dp []).
    destruct (deps_steps_safe (c_deps c) [] [] tk0 csd d eq_refl Hi0 He0 Ed) as (Hi & He & Hsafe & Hmain & Htoks).
    cbn [app] in Hi, He.
    set (tk1 := mkTok cont (t_deps d)).
    assert (Hd : forall ds, dtok tk1 ds = dtok d ds) by reflexivity.
    split; [|split; [|split; [|split]]].
    - intros cs1 k cs2 Hsp dp Hdp p m Hr Hq. cbn [app]. apply app_split in Hsp.
      destruct Hsp as [(b' & Hm & _)|(a' & -> & Hrest)].
      + exact (Hsafe _ _ _ Hm dp Hdp p m Hr Hq).
      + destruct a' as [|? [|? ?]]; cbn in Hrest; try discriminate. injection Hrest as <- <-.
        rewrite app_nil_r. rewrite ents_app. apply in_or_app. left.
        cbn [k_tok] in Hr. rewrite Hd in Hr.
        exact (tok_safe_aux (c_deps c) d csd Hi He dp Hdp p m Hr Hq).
    - intros ds. rewrite Hd. destruct (Hi ds) as [E|[E _]]; auto.
    - intros dp Hdp. rewrite Hd. eapply deps_steps_final; eauto.
    - intros k Hk ds. apply in_app_or in Hk. destruct Hk as [Hk|[<-|[]]]; [auto|].
      cbn [k_tok]. rewrite Hd. destruct (Hi ds) as [E|[E _]]; auto.
    - exists csd, (mkCall (map v_id vs) tk1). split; [reflexivity|]. split; [reflexivity|].
      split; [|split; [|split; [|split]]].
      + cbn [k_ents]. destruct vs; cbn; split; congruence.
      + intros k Hk. eapply deps_steps_main_tok; eauto.
      + exact Hmain.
      + cbn [k_ents]. intros m Hm. apply in_map_iff in Hm. destruct Hm as (x & <- & Hx). apply in_map.
        eapply changes_sub; eauto.
      + cbn [k_tok t_main]. unfold tk1. cbn [t_main].
        pose proof (changes_nonempty _ _ _ _ _ _ _ Hm0 Ech) as Hne.
        apply changes_gen in Ech; auto. destruct Ech as (H1 & H2 & H3 & Hcov).
        split; [lia|]. split; [lia|]. split.
        * intros Hmore. apply H3, Hne. destruct vs; [discriminate|congruence].
        * intros p x Hr Hx Hskip. cbn [k_ents]. apply in_map. specialize (Hcov p x Hr Hx).
          unfold skipped in Hskip. now rewrite Hskip in Hcov.
  Qed.


End Page.


(** the token persisted after a sequence of calls *)
Definition tok_after (pre : list call) (d : tokens) : tokens := fold_left (fun _ k => k_tok k) pre d.

Lemma tok_after_app : forall a b d, tok_after (a ++ b) d = tok_after b (tok_after a d).
Proof. intros. unfold tok_after. apply fold_left_app. Qed.

Definition tok_ok (tk : tokens) : Prop := (forall k, 0 <= dtok tk k) /\ 0 <= t_main tk.

Section Run.
  Variables (v : variant) (c : cfg) (h : hub) (b : nat).
  Hypothesis Hs : f_shared v = SharedSnapshot.
  Hypothesis Hp : f_prev v = PrevFeed.
  Hypothesis Hsk : c_latest c = true -> f_skip v = SkipPrev.
  Hypothesis Hb : (1 <= b)%nat.

  Definition tok_in (tk : tokens) : Prop :=
    forall dp, In dp (c_deps c) -> dtok tk (d_ds dp) <= lenz (feed_of h (d_ds dp)).

  Lemma page_tok_ok : forall tk cs tk1 more,
    tok_ok tk -> read_page v c h tk b = (cs, tk1, more) -> tok_ok tk1.
  Proof.
    intros tk cs tk1 more [H1 H2] H.
    destruct (page_safe v c h tk b Hs Hp Hsk Hb H1 H2 _ _ _ H) as (_ & Hd & _ & _ & (cs0 & kl & _ & _ & _ & _ & _ & _ & Hm & _)).
    split; [|lia]. intros k. destruct (Hd k) as [->| ->]; auto.
    pose proof (cont_of_bounds c h tk b Hb H1 k). specialize (H1 k). lia.
  Qed.

  Lemma page_tok_in : forall tk cs tk1 more,
    tok_ok tk -> tok_in tk -> read_page v c h tk b = (cs, tk1, more) ->
    tok_in tk1 /\ forall k, In k cs -> tok_in (k_tok k).
  Proof.
    intros tk cs tk1 more [H1 H2] Hin H.
    destruct (page_safe v c h tk b Hs Hp Hsk Hb H1 H2 _ _ _ H) as (_ & Hd & _ & Hk & _).
    assert (Haux : forall t, (forall ds, dtok t ds = dtok tk ds \/ dtok t ds = cont_of c h tk b ds) -> tok_in t).
    { intros t Ht dp Hdp. destruct (Ht (d_ds dp)) as [->| ->]; auto.
      pose proof (cont_of_bounds c h tk b Hb H1 (d_ds dp)). specialize (Hin dp Hdp). lia. }
    split; auto.
  Qed.

  Definition req_at (tkp : tokens) (dp : dep) (p : Z) (m : N) : Prop :=
    exists x, nthz (feed_of h (d_ds dp)) p = Some x /\ required_l c h dp (dtok tkp (d_ds dp)) p x m.

  Lemma inc_pages_safe : forall fuel tk, tok_ok tk ->
    forall cs1 k cs2, inc_pages v c h b fuel tk = cs1 ++ k :: cs2 ->
    forall dp, In dp (c_deps c) -> forall p, dtok tk (d_ds dp) <= p < dtok (k_tok k) (d_ds dp) ->
    exists pre post, cs1 ++ [k] = pre ++ post /\ dtok (tok_after pre tk) (d_ds dp) <= p /\
                     forall m, req_at (tok_after pre tk) dp p m -> In m (ents post).
  Proof.
    induction fuel as [|fuel IH]; intros tk Hok cs1 k cs2 H dp Hdp p Hr; cbn in H.
    - destruct cs1; discriminate.
    - destruct (read_page v c h tk b) as [[cs tk'] more] eqn:Ep.
      destruct Hok as [H1 H2].
      destruct (page_safe v c h tk b Hs Hp Hsk Hb H1 H2 _ _ _ Ep) as (Hsafe & Hd & _ & _ & (cs0 & kl & Hcs & Hkl & _)).
      assert (Hin_page : forall a k' a2, cs = a ++ k' :: a2 -> dtok tk (d_ds dp) <= p < dtok (k_tok k') (d_ds dp) ->
                 forall m, req_at tk dp p m -> In m (ents (a ++ [k']))).
      { intros a k' a2 Hsp Hr' m Hq. exact (Hsafe _ _ _ Hsp dp Hdp p m Hr' Hq). }
      assert (Hlocal : forall a a2, cs = a ++ k :: a2 -> cs1 = a ->
                 exists pre post, cs1 ++ [k] = pre ++ post /\ dtok (tok_after pre tk) (d_ds dp) <= p /\
                                  forall m, req_at (tok_after pre tk) dp p m -> In m (ents post)).
      { intros a a2 Hsp ->. exists [], (a ++ [k]). cbn. split; auto. split; [lia|]. intros m Hq. eapply Hin_page; eauto. }
      destruct more.
      + apply app_split in H. destruct H as [(b' & Hm & _)|(a' & -> & Hrest)].
        * eapply Hlocal; eauto.
        * destruct (Z.lt_ge_cases p (dtok tk' (d_ds dp))) as [Hlt|Hge].
          -- exists [], ((cs ++ a') ++ [k]). cbn. split; auto. split; [lia|]. intros m Hq.
             rewrite <- app_assoc, ents_app. apply in_or_app. left. rewrite Hcs.
             apply (Hin_page cs0 kl [] Hcs); auto. rewrite Hkl. lia.
          -- assert (Hok' : tok_ok tk') by (eapply page_tok_ok; eauto; split; auto).
             destruct (IH tk' Hok' a' k cs2 Hrest dp Hdp p ltac:(lia)) as (pre & post & E & Hle & Hq).
             assert (Ht : tok_after cs tk = tk').
             { rewrite Hcs, tok_after_app. cbn. exact Hkl. }
             exists (cs ++ pre), post. rewrite tok_after_app, Ht. split; auto.
             rewrite <- !app_assoc. f_equal. exact E.
      + subst cs. eapply Hlocal; eauto.
  Qed.

  Lemma inc_pages_tok_in : forall fuel tk, tok_ok tk -> tok_in tk ->
    forall k, In k (inc_pages v c h b fuel tk) -> tok_in (k_tok k).
  Proof.
    induction fuel as [|fuel IH]; intros tk Hok Hin k Hk; cbn in Hk; [destruct Hk|].
    destruct (read_page v c h tk b) as [[cs tk'] more] eqn:Ep.
    destruct (page_tok_in _ _ _ _ Hok Hin Ep) as [Hin' Hks].
    destruct more; auto. apply in_app_or in Hk. destruct Hk as [Hk|Hk]; auto.
    apply (IH tk'); auto. eapply page_tok_ok; eauto.
  Qed.
End Run.

Section Run2.
  Variables (v : variant) (c : cfg) (h : hub) (b : nat).
  Hypothesis Hs : f_shared v = SharedSnapshot.
  Hypothesis Hp : f_prev v = PrevFeed.
  Hypothesis Hsk : c_latest c = true -> f_skip v = SkipPrev.
  Hypothesis Hb : (1 <= b)%nat.

  Lemma page_calls_tok_ok : forall tk cs tk1 more,
    tok_ok tk -> read_page v c h tk b = (cs, tk1, more) -> forall k, In k cs -> tok_ok (k_tok k).
  Proof.
    intros tk cs tk1 more [H1 H2] H k Hk.
    destruct (page_safe v c h tk b Hs Hp Hsk Hb H1 H2 _ _ _ H) as (_ & _ & _ & Hks & (cs0 & kl & -> & Hkl & _ & Hm0 & _ & _ & Hm & _)).
    split.
    - intros ds. destruct (Hks k Hk ds) as [->| ->]; auto.
      pose proof (cont_of_bounds c h tk b Hb H1 ds). specialize (H1 ds). lia.
    - apply in_app_or in Hk. destruct Hk as [Hk|[<-|[]]].
      + rewrite (Hm0 _ Hk). auto.
      + rewrite Hkl. lia.
  Qed.

  Lemma inc_pages_tok_ok : forall fuel tk, tok_ok tk ->
    forall k, In k (inc_pages v c h b fuel tk) -> tok_ok (k_tok k).
  Proof.
    induction fuel as [|fuel IH]; intros tk Hok k Hk; cbn in Hk; [destruct Hk|].
    destruct (read_page v c h tk b) as [[cs tk'] more] eqn:Ep.
    pose proof (page_calls_tok_ok _ _ _ _ Hok Ep) as Hks.
    destruct more; auto. apply in_app_or in Hk. destruct Hk as [Hk|Hk]; auto.
    apply (IH tk'); auto. eapply page_tok_ok; eauto.
  Qed.
End Run2.


Definition ev_of_call (k : call) : ev := EvCall (k_ents k) (Some (k_tok k)).
Definition ev_of_pair (et : list N * option tokens) : ev := EvCall (fst et) (snd et).

Lemma cut_calls_prefix : forall l fail n evs ok, cut_calls l fail n = (evs, ok) ->
  exists l1 l2, l = l1 ++ l2 /\ evs = map ev_of_pair l1 /\ (ok = true -> l2 = []).
Proof.
  induction l as [|[es tk] l IH]; intros fail n evs ok H; cbn [cut_calls] in H.
  - injection H as <- <-. exists [], []. auto.
  - destruct es as [|e es].
    + destruct (cut_calls l fail n) as [r ok'] eqn:E. injection H as <- <-.
      destruct (IH _ _ _ _ E) as (l1 & l2 & -> & -> & Hok). exists (([], tk) :: l1), l2. auto.
    + destruct (match fail with Some i => Nat.eqb i n | None => false end).
      * injection H as <- <-. exists [], ((e :: es, tk) :: l). split; auto. split; auto. discriminate.
      * destruct (cut_calls l fail (S n)) as [r ok'] eqn:E. injection H as <- <-.
        destruct (IH _ _ _ _ E) as (l1 & l2 & -> & -> & Hok). exists ((e :: es, tk) :: l1), l2. auto.
Qed.

Lemma map_eq_app' {A B} (f : A -> B) : forall l l1 l2, map f l = l1 ++ l2 ->
  exists a1 a2, l = a1 ++ a2 /\ l1 = map f a1 /\ l2 = map f a2.
Proof.
  induction l as [|x l IH]; intros l1 l2 H.
  - destruct l1; [|discriminate]. destruct l2; [|discriminate]. exists [], []. auto.
  - destruct l1 as [|y l1]; cbn in H.
    + exists [], (x :: l). cbn. auto.
    + injection H as <- H. destruct (IH _ _ H) as (a1 & a2 & -> & -> & ->). exists (x :: a1), a2. auto.
Qed.

Lemma replay_app : forall a b h j, replay (a ++ b) h j = replay b (fst (replay a h j)) (snd (replay a h j)).
Proof.
  induction a as [|e a IH]; intros b h j; cbn [app replay]; auto.
  destruct e as [k vs|es [t|]]; apply IH.
Qed.

Lemma replay_calls : forall cs h tk, replay (map ev_of_call cs) h (Some tk) = (h, Some (tok_after cs tk)).
Proof.
  induction cs as [|k cs IH]; intros h tk; cbn; auto.
Qed.

Lemma last_tok_calls : forall cs tk, last_tok (map ev_of_call cs) (Some tk) = Some (tok_after cs tk).
Proof. induction cs as [|k cs IH]; intros tk; cbn; auto. Qed.

Lemma ents_of_app : forall a b, ents_of (a ++ b) = ents_of a ++ ents_of b.
Proof.
  induction a as [|e a IH]; intros b; cbn [app ents_of]; auto. destruct e; auto. rewrite IH. now rewrite app_assoc.
Qed.

Lemma ents_of_calls : forall cs, ents_of (map ev_of_call cs) = ents cs.
Proof. induction cs as [|k cs IH]; cbn; auto. unfold ents in *. cbn. now rewrite IH. Qed.

Lemma no_append_calls : forall cs, no_append (map ev_of_call cs).
Proof. induction cs; cbn; auto. Qed.

Lemma no_append_pairs : forall l, no_append (map ev_of_pair l).
Proof. induction l; cbn; auto. Qed.

Lemma covered_mono : forall c n tr e dp p, covered_l c n tr dp p -> covered_l c n (tr ++ e) dp p.
Proof.
  intros c n tr e dp p (tr1 & tr2 & tr3 & h1 & j1 & x & -> & H). exists tr1, tr2, (tr3 ++ e), h1, j1, x.
  split; [now rewrite <- !app_assoc|exact H].
Qed.

(** * appends *)
Lemma nth_set_nth {A} : forall (l : list A) k k' x d,
  nth k' (set_nth k x l) d = if Nat.eqb k' k then (if Nat.ltb k (length l) then x else d) else nth k' l d.
Proof.
  induction l as [|y l IH]; intros k k' x d.
  - cbn. destruct k; destruct k'; cbn; auto. destruct (Nat.eqb k' k); auto.
  - destruct k as [|k]; destruct k' as [|k']; cbn [set_nth nth length]; auto.
    rewrite IH. cbn. reflexivity.
Qed.

Lemma feed_of_append : forall h k vs k', exists extra,
  feed_of (append_hub h k vs) k' = feed_of h k' ++ extra.
Proof.
  intros. unfold append_hub, feed_of. cbn [h_feeds]. rewrite nth_set_nth.
  destruct (Nat.eqb k' k) eqn:E.
  - apply Nat.eqb_eq in E. subst k'. destruct (Nat.ltb k (length (h_feeds h))) eqn:El.
    + eexists. reflexivity.
    + exists []. rewrite app_nil_r. apply Nat.ltb_ge in El. symmetry. now apply nth_overflow.
  - exists []. now rewrite app_nil_r.
Qed.

Lemma lenz_append : forall h k vs k', lenz (feed_of h k') <= lenz (feed_of (append_hub h k vs) k').
Proof.
  intros. destruct (feed_of_append h k vs k') as [extra ->]. unfold lenz. rewrite app_length. lia.
Qed.

(** * full sync *)
Lemma full_pages_complete : forall c h b, (1 <= b)%nat ->
  forall fuel pos ps fin, 0 <= pos -> lenz (feed_of h (c_main c)) - pos < Z.of_nat fuel ->
  full_pages c h b fuel pos = (ps, fin) ->
  pos <= fin /\ forall k x, pos <= k -> nthz (feed_of h (c_main c)) k = Some x ->
                           skipped c (feed_of h (c_main c)) k x = false -> In (v_id x) (concat ps).
Proof.
  intros c h b Hb. induction fuel as [|fuel IH]; intros pos ps fin Hpos Hf H; cbn [full_pages] in H.
  - injection H as <- <-. split; [lia|]. intros k x Hk Hx. apply nthz_range in Hx. lia.
  - destruct (changes (feed_of h (c_main c)) pos b (c_latest c)) as [[vs sk] cont] eqn:E.
    pose proof (changes_nonempty_conv _ _ _ _ _ _ _ Hb Hpos E) as Hconv.
    pose proof (changes_nonempty _ _ _ _ _ _ _ Hpos E) as Hne.
    pose proof (changes_gen _ _ _ _ _ _ _ Hb Hpos E) as (H1 & H2 & H3 & Hcov).
    destruct vs as [|v0 vs].
    + injection H as <- <-. split; [lia|]. intros k x Hk Hx. pose proof (nthz_range _ _ _ Hx) as Hr.
      destruct (Z.lt_ge_cases pos (lenz (feed_of h (c_main c)))) as [Hlt|Hge]; [|lia].
      exfalso. now apply Hconv.
    + destruct (full_pages c h b fuel cont) as [ps' fin'] eqn:Er. injection H as <- <-.
      assert (Hc : pos < cont) by (apply H3, Hne; discriminate).
      destruct (IH cont ps' fin' ltac:(lia) ltac:(lia) Er) as [Hfin Hrest].
      split; [lia|]. intros k x Hk Hx Hskip. cbn [concat]. apply in_or_app.
      destruct (Z.lt_ge_cases k cont) as [Hlt|Hge].
      * left. apply (in_map v_id (v0 :: vs) x). specialize (Hcov k x ltac:(lia) Hx).
        unfold skipped in Hskip. now rewrite Hskip in Hcov.
      * right. eapply Hrest; eauto.
Qed.

Lemma wm_tokens_own : forall v c h core, f_wm v = WmOwn ->
  (forall dp, In dp (c_deps c) -> tok_get (wm_tokens v c h core) (d_ds dp) = lenz (feed_of h (d_ds dp))) /\
  (forall ds, 0 <= tok_get (wm_tokens v c h core) ds).
Proof.
  intros v c h core Hw. unfold wm_tokens, watermark. rewrite Hw.
  set (f := fun (l : list (nat * Z)) (dp : dep) => tok_set l (d_ds dp) (lenz (feed_of h (d_ds dp)))).
  assert (G : forall l acc,
    (forall ds, tok_get acc ds = 0 \/ tok_get acc ds = lenz (feed_of h ds)) ->
    (forall ds, tok_get (fold_left f l acc) ds = 0 \/ tok_get (fold_left f l acc) ds = lenz (feed_of h ds)) /\
    (forall dp, In dp l \/ tok_get acc (d_ds dp) = lenz (feed_of h (d_ds dp)) ->
                tok_get (fold_left f l acc) (d_ds dp) = lenz (feed_of h (d_ds dp)))).
  { induction l as [|d0 l IH]; intros acc Ha; cbn [fold_left].
    - split; auto. intros dp [[]|H]; auto.
    - assert (Ha' : forall ds, tok_get (f acc d0) ds = 0 \/ tok_get (f acc d0) ds = lenz (feed_of h ds)).
      { intros ds. unfold f. rewrite tok_get_set. destruct (Nat.eqb ds (d_ds d0)) eqn:E; auto.
        apply Nat.eqb_eq in E. subst. auto. }
      destruct (IH _ Ha') as [I1 I2]. split; auto. intros dp Hdp. apply I2.
      unfold f. rewrite tok_get_set. destruct (Nat.eqb (d_ds dp) (d_ds d0)) eqn:E.
      + right. apply Nat.eqb_eq in E. now rewrite E.
      + destruct Hdp as [[->|Hdp]|Hdp]; auto. rewrite Nat.eqb_refl in E. discriminate. }
  destruct (G (c_deps c) []) as [G1 G2]; [intros; now left|]. split.
  - intros dp Hdp. apply G2. now left.
  - intros ds. destruct (G1 ds) as [->| ->]; unfold lenz; lia.
Qed.


Definition hinv (c : cfg) (n : nat) (s : state) (tr : list ev) : Prop :=
  replay tr (s_hub (init_state n)) None = (s_hub s, s_job s) /\
  forall tk, s_job s = Some tk ->
    tok_ok tk /\ tok_in c (s_hub s) tk /\
    forall dp, In dp (c_deps c) -> forall p, 0 <= p < dtok tk (d_ds dp) -> covered_l c n tr dp p.

Lemma app_last_split {A} : forall (a : list A) x l1 l2, a ++ [x] = l1 ++ l2 -> l2 <> [] ->
  exists l2', l2 = l2' ++ [x] /\ a = l1 ++ l2'.
Proof.
  intros a x l1 l2 H Hne. destruct (exists_last Hne) as (l2' & y & ->).
  rewrite app_assoc in H. apply app_inj_tail in H. destruct H as [-> ->]. eauto.
Qed.

Lemma last_tok_none : forall l j, last_tok (map ev_of_pair (map (fun es : list N => (es, @None tokens)) l)) j = j.
Proof. induction l; intros j; cbn; auto. Qed.

Lemma replay_none : forall l h j, replay (map ev_of_pair (map (fun es : list N => (es, @None tokens)) l)) h j = (h, j).
Proof. induction l; intros h j; cbn; auto. Qed.

Lemma ents_of_none : forall l, ents_of (map ev_of_pair (map (fun es : list N => (es, @None tokens)) l)) = concat l.
Proof. induction l; cbn; auto. now rewrite IHl. Qed.

Lemma replay_no_append : forall evs h j, no_append evs -> replay evs h j = (h, last_tok evs j).
Proof.
  induction evs as [|e evs IH]; intros h j H; cbn [replay last_tok]; auto.
  destruct e as [k vs|es [t|]]; cbn in H; [destruct H| |]; apply IH; auto.
Qed.

Lemma last_tok_app : forall a b j, last_tok (a ++ b) j = last_tok b (last_tok a j).
Proof.
  induction a as [|e a IH]; intros b j; cbn [app last_tok]; auto. destruct e as [k vs|es [t|]]; apply IH.
Qed.

Lemma no_append_app : forall a b, no_append (a ++ b) <-> no_append a /\ no_append b.
Proof.
  induction a as [|e a IH]; intros b; cbn [app no_append]; [tauto|]. destruct e; [tauto|apply IH].
Qed.

Lemma insert_mid_spec : forall evs k e evs' ins, insert_mid evs k e = (evs', ins) ->
  (ins = false /\ evs' = evs) \/ (ins = true /\ exists e1 e2, evs = e1 ++ e2 /\ evs' = e1 ++ e :: e2).
Proof.
  induction evs as [|a evs IH]; intros k e evs' ins H; cbn [insert_mid] in H.
  - injection H as <- <-. now left.
  - assert (Hskip : forall k', insert_mid evs k' e = (fst (insert_mid evs k' e), snd (insert_mid evs k' e)))
      by (intros; destruct (insert_mid evs k' e); reflexivity).
    assert (Hrec : forall k' r' i, insert_mid evs k' e = (r', i) -> evs' = a :: r' -> ins = i ->
              (ins = false /\ evs' = a :: evs) \/ (ins = true /\ exists e1 e2, a :: evs = e1 ++ e2 /\ evs' = e1 ++ e :: e2)).
    { intros k' r' i Hi -> ->. destruct (IH _ _ _ _ Hi) as [[-> ->]|(-> & e1 & e2 & -> & ->)]; [now left|].
      right. split; auto. exists (a :: e1), e2. auto. }
    destruct a as [d vs|[|x es] t].
    + destruct (insert_mid evs k e) as [r' i] eqn:E. injection H as <- <-. eapply Hrec; eauto.
    + destruct (insert_mid evs k e) as [r' i] eqn:E. injection H as <- <-. eapply Hrec; eauto.
    + destruct k as [|k'].
      * injection H as <- <-. right. split; auto. exists [EvCall (x :: es) t], evs. auto.
      * destruct (insert_mid evs k' e) as [r' i] eqn:E. injection H as <- <-. eapply Hrec; eauto.
Qed.

(** what a full-sync run does, whatever the sink failure *)
Lemma full_run_facts : forall v c h job (full : bool) b fail core evs ok,
  f_wm v = WmOwn -> (1 <= b)%nat ->
  (if full then @None tokens else job) = None ->
  run_events v c h job full b fail core = (evs, ok) ->
  no_append evs /\
  (last_tok evs job = job \/
   exists tkf, last_tok evs job = Some tkf /\ tok_ok tkf /\
               (forall dp, In dp (c_deps c) -> dtok tkf (d_ds dp) = lenz (feed_of h (d_ds dp))) /\
               (forall m, main_live h (c_main c) m = true -> In m (ents_of evs))).
Proof.
  intros v c h job full b fail core evs ok Hw Hb Ej Er. unfold run_events in Er. rewrite Ej in Er.
  destruct (full_pages c h b (fuel_of h c) 0) as [ps fin] eqn:Ef.
  apply cut_calls_prefix in Er. destruct Er as (l1 & l2 & Hsp & -> & _).
  split; [apply no_append_pairs|].
  destruct l2 as [|e2 l2].
  - right. rewrite app_nil_r in Hsp. subst l1. rewrite map_app. cbn [map ev_of_pair fst snd].
    set (tkf := mkTok fin (wm_tokens v c h core)). exists tkf.
    destruct (wm_tokens_own v c h core Hw) as [Hwm Hwm0].
    destruct (full_pages_complete c h b Hb (fuel_of h c) 0 ps fin ltac:(lia)
                ltac:(unfold fuel_of, lenz; lia) Ef) as [Hfin Hall].
    split; [clear; induction ps; cbn; auto|]. split; [split; [exact Hwm0|exact Hfin]|]. split.
    + intros dp Hdp. unfold dtok, tkf. cbn [t_deps]. exact (Hwm dp Hdp).
    + intros m Hm. rewrite ents_of_app, ents_of_none. apply in_or_app. left.
      apply main_live_In in Hm. apply last_occurrence in Hm. destruct Hm as (p & y & Hy & <- & Hsup).
      pose proof (nthz_range _ _ _ Hy) as Hr.
      apply (Hall p y); [lia|exact Hy|]. unfold skipped. rewrite Hsup. apply andb_false_r.
  - left. apply app_last_split in Hsp; [|discriminate]. destruct Hsp as (l2' & _ & Hps).
    apply map_eq_app' in Hps. destruct Hps as (a1 & a2 & _ & -> & _). apply last_tok_none.
Qed.

(** a full-sync run, possibly with one foreign write [midl] between two of its sink calls, keeps the invariant *)
Lemma full_inv : forall c n s tr e1 e2 midl hub',
  hinv c n s tr -> no_append (e1 ++ e2) ->
  (last_tok (e1 ++ e2) (s_job s) = s_job s \/
   exists tkf, last_tok (e1 ++ e2) (s_job s) = Some tkf /\ tok_ok tkf /\
               (forall dp, In dp (c_deps c) -> dtok tkf (d_ds dp) = lenz (feed_of (s_hub s) (d_ds dp))) /\
               (forall m, main_live (s_hub s) (c_main c) m = true -> In m (ents_of (e1 ++ e2)))) ->
  (midl = [] /\ hub' = s_hub s \/ exists ds vs, midl = [EvAppend ds vs] /\ hub' = append_hub (s_hub s) ds vs) ->
  hinv c n (mkSt hub' (last_tok (e1 ++ e2) (s_job s))) (tr ++ e1 ++ midl ++ e2).
Proof.
  intros c n s tr e1 e2 midl hub' [Hrep Hinv] Hna Hf Hmid.
  apply no_append_app in Hna. destruct Hna as [Hn1 Hn2].
  assert (Hlen : forall k, lenz (feed_of (s_hub s) k) <= lenz (feed_of hub' k)).
  { intros k. destruct Hmid as [[_ ->]|(ds & vs & _ & ->)]; [lia|apply lenz_append]. }
  assert (Hents : forall m, In m (ents_of (e1 ++ e2)) -> In m (ents_of (e1 ++ midl ++ e2))).
  { intros m Hm. rewrite ents_of_app in Hm. rewrite !ents_of_app. apply in_app_or in Hm. apply in_or_app.
    destruct Hm; auto. right. apply in_or_app. now right. }
  split; cbn [s_hub s_job].
  - rewrite replay_app, Hrep. cbn [fst snd]. rewrite replay_app, (replay_no_append e1) by auto. cbn [fst snd].
    rewrite last_tok_app. destruct Hmid as [[-> ->]|(ds & vs & -> & ->)]; cbn [app replay];
      now rewrite replay_no_append.
  - intros tk Htk. destruct Hf as [Hsame|(tkf & Hlast & Hok & Hd & Hall)].
    + rewrite Hsame in Htk. destruct (Hinv tk Htk) as (Hok & Hin & Hcov). split; auto. split.
      * intros dp Hdp. specialize (Hin dp Hdp). specialize (Hlen (d_ds dp)). lia.
      * intros dp Hdp p Hr. apply covered_mono. auto.
    + rewrite Hlast in Htk. injection Htk as <-. split; auto. split.
      * intros dp Hdp. rewrite (Hd dp Hdp). apply Hlen.
      * intros dp Hdp p Hr. rewrite (Hd dp Hdp) in Hr.
        destruct (nthz_some (feed_of (s_hub s) (d_ds dp)) p Hr) as [x Hx].
        exists tr, (e1 ++ midl ++ e2), [], (s_hub s), (s_job s), x.
        split; [now rewrite app_nil_r|]. split; [exact Hrep|]. split; [exact Hx|]. right. auto.
Qed.

Lemma step_inv : forall v c n s tr o s' evs ok,
  sound_l v c -> batch_ok c o -> hinv c n s tr ->
  step v c s o = (s', evs, ok) -> hinv c n s' (tr ++ evs).
Proof.
  intros v c n s tr o s' evs ok ((Hs & Hp & Hw) & Hsk) Hb Hh H. pose proof Hh as [Hrep Hinv].
  destruct o as [k vs|full b fail core|b fail core k ds vs|b fail core k ds vs]; cbn [step] in H;
    [| | |destruct Hb].
  - (* append *)
    injection H as <- <- <-. split; cbn [s_hub s_job].
    + rewrite replay_app, Hrep. reflexivity.
    + intros tk Hj. destruct (Hinv tk Hj) as (Hok & Hin & Hcov). split; auto. split.
      * intros dp Hdp. specialize (Hin dp Hdp). pose proof (lenz_append (s_hub s) k vs (d_ds dp)). lia.
      * intros dp Hdp p Hr. apply covered_mono. auto.
  - destruct (run_events v c (s_hub s) (s_job s) full b fail core) as [evs' ok'] eqn:Er.
    injection H as <- <- <-. cbn [batch_ok] in Hb.
    destruct (if full then None else s_job s) as [tk|] eqn:Ej.
    + (* incremental *)
      unfold run_events in Er. rewrite Ej in Er.
      assert (Hj : s_job s = Some tk) by (destruct full; [discriminate|auto]).
      destruct (Hinv tk Hj) as (Hok & Hin & Hcov).
      apply cut_calls_prefix in Er. destruct Er as (l1 & l2 & Hsp & -> & _).
      apply map_eq_app' in Hsp. destruct Hsp as (cs1 & cs2 & Hcs & -> & _).
      assert (Hev : map ev_of_pair (map (fun k : call => (k_ents k, Some (k_tok k))) cs1) = map ev_of_call cs1)
        by (rewrite map_map; reflexivity).
      rewrite Hev. rewrite Hj, last_tok_calls. split; cbn [s_hub s_job].
      * rewrite replay_app, Hrep. cbn [fst snd]. rewrite Hj. apply replay_calls.
      * intros tk' Htk'. injection Htk' as <-.
        destruct cs1 as [|k0 cs1r] using rev_ind.
        { cbn. rewrite app_nil_r. auto. }
        clear IHcs1r. rename cs1r into cs1'. rename k0 into k.
        assert (Hk : In k (inc_pages v c (s_hub s) b (fuel_of (s_hub s) c) tk)).
        { rewrite Hcs. apply in_or_app. left. apply in_or_app. right. now left. }
        rewrite tok_after_app. cbn [tok_after fold_left].
        split; [eapply inc_pages_tok_ok; eauto|].
        split; [eapply inc_pages_tok_in; eauto|].
        intros dp Hdp p Hr.
        destruct (Z.lt_ge_cases p (dtok tk (d_ds dp))) as [Hlt|Hge].
        { apply covered_mono. apply Hcov; auto. lia. }
        rewrite <- app_assoc in Hcs. cbn [app] in Hcs.
        destruct (inc_pages_safe v c (s_hub s) b Hs Hp Hsk Hb _ _ Hok _ _ _ Hcs dp Hdp p ltac:(lia))
          as (pre & post & Epp & Hle & Hreq).
        assert (Htin : tok_in c (s_hub s) (k_tok k)) by (eapply inc_pages_tok_in; eauto).
        destruct (nthz_some (feed_of (s_hub s) (d_ds dp)) p) as [x Hx].
        { specialize (Htin dp Hdp). lia. }
        exists (tr ++ map ev_of_call pre), (map ev_of_call post), [], (s_hub s), (Some (tok_after pre tk)), x.
        split; [rewrite app_nil_r, <- app_assoc, <- map_app, Epp; reflexivity|].
        split; [rewrite replay_app, Hrep; cbn [fst snd]; rewrite Hj; apply replay_calls|].
        split; [exact Hx|].
        left. exists (tok_after pre tk). split; [apply no_append_calls|]. split; auto. split; auto.
        intros m Hm. rewrite ents_of_calls. apply Hreq. exists x. auto.
    + (* full sync *)
      destruct (full_run_facts v c (s_hub s) (s_job s) full b fail core evs' ok' Hw Hb Ej Er) as [Hna Hf].
      pose proof (full_inv c n s tr evs' [] [] (s_hub s) Hh) as G. rewrite !app_nil_r in G. cbn [app] in G.
      destruct s as [hub job]. apply G; auto.
  - (* full sync with a foreign write between two sink calls *)
    destruct (run_events v c (s_hub s) (s_job s) true b fail core) as [evs0 ok0] eqn:Er.
    destruct (insert_mid evs0 k (EvAppend ds vs)) as [evs1 ins] eqn:Ei.
    injection H as <- <- <-. cbn [batch_ok] in Hb. destruct Hb as [Hb _].
    destruct (full_run_facts v c (s_hub s) (s_job s) true b fail core evs0 ok0 Hw Hb eq_refl Er) as [Hna Hf].
    destruct (insert_mid_spec _ _ _ _ _ Ei) as [[-> ->]|(-> & e1 & e2 & -> & ->)].
    + pose proof (full_inv c n s tr evs0 [] [] (s_hub s) Hh) as G. rewrite !app_nil_r in G. cbn [app] in G.
      apply G; auto.
    + assert (Hl1 : last_tok (e1 ++ EvAppend ds vs :: e2) (s_job s) = last_tok (e1 ++ e2) (s_job s))
        by (rewrite !last_tok_app; reflexivity).
      rewrite Hl1. apply (full_inv c n s tr e1 e2 [EvAppend ds vs] (append_hub (s_hub s) ds vs) Hh Hna Hf).
      right. eauto.
Qed.

Lemma exec_inv : forall v c n ops s tr s' tr',
  sound_l v c -> Forall (batch_ok c) ops -> hinv c n s tr ->
  exec v c s ops = (s', tr') -> hinv c n s' (tr ++ tr').
Proof.
  intros v c n. induction ops as [|o ops IH]; intros s tr s' tr' Hv Hb Hi H; cbn [exec] in H.
  - injection H as <- <-. now rewrite app_nil_r.
  - destruct (step v c s o) as [[s1 e1] ok1] eqn:E1. destruct (exec v c s1 ops) as [s2 e2] eqn:E2.
    injection H as <- <-. inversion Hb; subst. rewrite app_assoc. eapply IH; eauto. eapply step_inv; eauto.
Qed.

Lemma hinv_init : forall c n, hinv c n (init_state n) [].
Proof. intros. split; [reflexivity|]. cbn. discriminate. Qed.

(** general form (any LatestOnly flag): [covered_l] *)
Theorem tokens_safe_l : forall v c n ops s tr tk,
  sound_l v c -> Forall (batch_ok c) ops ->
  exec v c (init_state n) ops = (s, tr) -> s_job s = Some tk ->
  forall dp, In dp (c_deps c) -> forall p, 0 <= p < dtok tk (d_ds dp) -> covered_l c n tr dp p.
Proof.
  intros v c n ops s tr tk Hv Hb H Hj dp Hdp p Hr.
  pose proof (exec_inv v c n ops _ [] _ _ Hv Hb (hinv_init c n) H) as [_ Hi]. cbn [app] in Hi.
  destruct (Hi tk Hj) as (_ & _ & Hc). auto.
Qed.

Theorem complete_l : forall v c n ops s tr,
  sound_l v c -> Forall (batch_ok c) ops ->
  exec v c (init_state n) ops = (s, tr) -> caught_up c s ->
  forall dp, In dp (c_deps c) -> forall p, 0 <= p < lenz (feed_of (s_hub s) (d_ds dp)) -> covered_l c n tr dp p.
Proof.
  intros v c n ops s tr Hv Hb H (tk & Hj & Hup) dp Hdp p Hr.
  eapply tokens_safe_l; eauto. rewrite (Hup dp Hdp). exact Hr.
Qed.

Lemma sound_l_plain : forall v c, sound v -> c_latest c = false -> sound_l v c.
Proof. intros v c Hv Hl. split; auto. congruence. Qed.

Lemma covered_l_plain : forall c n tr dp p, c_latest c = false -> covered_l c n tr dp p -> covered c n tr dp p.
Proof.
  intros c n tr dp p Hl (tr1 & tr2 & tr3 & h1 & j1 & x & E & Hrep & Hx & H).
  exists tr1, tr2, tr3, h1, j1, x. split; auto. split; auto. split; auto.
  destruct H as [(tk1 & Hna & Hj & Hle & Hreq)|H]; [left|right; auto].
  exists tk1. split; auto. split; auto. split; auto. intros m [Hc Hm]. apply Hreq. split; auto.
  destruct Hc as [Hc|Hc]; auto. left. split; auto. unfold skipped. now rewrite Hl.
Qed.

(** C18_tokens_safe: at every moment of every history (including runs cut short by a failing sink) the
    persisted dependency tokens only cover changes that have been handled. *)
Theorem tokens_safe : forall v c n ops s tr tk,
  sound v -> c_latest c = false -> Forall (batch_ok c) ops ->
  exec v c (init_state n) ops = (s, tr) -> s_job s = Some tk ->
  forall dp, In dp (c_deps c) -> forall p, 0 <= p < dtok tk (d_ds dp) -> covered c n tr dp p.
Proof.
  intros v c n ops s tr tk Hv Hl Hb H Hj dp Hdp p Hr. apply covered_l_plain; auto.
  eapply tokens_safe_l; eauto. now apply sound_l_plain.
Qed.

(** C18_complete: once the job has caught up, every change of every dependency dataset has been handled. *)
Theorem complete : forall v c n ops s tr,
  sound v -> c_latest c = false -> Forall (batch_ok c) ops ->
  exec v c (init_state n) ops = (s, tr) -> caught_up c s ->
  forall dp, In dp (c_deps c) -> forall p, 0 <= p < lenz (feed_of (s_hub s) (d_ds dp)) -> covered c n tr dp p.
Proof.
  intros v c n ops s tr Hv Hl Hb H Hup dp Hdp p Hr. apply covered_l_plain; auto.
  eapply complete_l; eauto. now apply sound_l_plain.
Qed.

Section Fix.
  Variables (v : variant) (c : cfg) (h : hub) (b : nat).
  Hypothesis Hs : f_shared v = SharedSnapshot.
  Hypothesis Hp : f_prev v = PrevFeed.
  Hypothesis Hsk : c_latest c = true -> f_skip v = SkipPrev.
  Hypothesis Hb : (1 <= b)%nat.

  Lemma inc_pages_mono : forall fuel tk ds, tok_ok tk ->
    dtok tk ds <= dtok (tok_after (inc_pages v c h b fuel tk) tk) ds.
  Proof.
    induction fuel as [|fuel IH]; intros tk ds Hok; cbn [inc_pages]; [cbn; lia|].
    destruct (read_page v c h tk b) as [[cs tk'] more] eqn:Ep.
    destruct Hok as [H1 H2].
    destruct (page_safe v c h tk b Hs Hp Hsk Hb H1 H2 _ _ _ Ep) as (_ & Hd & _ & _ & (cs0 & kl & Hcs & Hkl & _)).
    assert (Ht : tok_after cs tk = tk') by (rewrite Hcs, tok_after_app; cbn; exact Hkl).
    assert (Hge : dtok tk ds <= dtok tk' ds).
    { destruct (Hd ds) as [->| ->]; [lia|]. pose proof (cont_of_bounds c h tk b Hb H1 ds). lia. }
    destruct more.
    - rewrite tok_after_app, Ht. assert (Hok' : tok_ok tk') by (eapply page_tok_ok; eauto; split; auto).
      specialize (IH tk' ds Hok'). lia.
    - rewrite Ht. exact Hge.
  Qed.

  Lemma run_fixpoint : forall tk dp, tok_ok tk -> In dp (c_deps c) ->
    dtok (tok_after (inc_pages v c h b (fuel_of h c) tk) tk) (d_ds dp) = dtok tk (d_ds dp) ->
    lenz (feed_of h (d_ds dp)) <= dtok tk (d_ds dp).
  Proof.
    intros tk dp Hok Hdp Heq. unfold fuel_of in Heq. cbn [inc_pages] in Heq.
    destruct (read_page v c h tk b) as [[cs tk'] more] eqn:Ep.
    pose proof Hok as [H1 H2].
    destruct (page_safe v c h tk b Hs Hp Hsk Hb H1 H2 _ _ _ Ep) as (_ & _ & Hfin & _ & (cs0 & kl & Hcs & Hkl & _)).
    assert (Ht : tok_after cs tk = tk') by (rewrite Hcs, tok_after_app; cbn; exact Hkl).
    assert (Hge : dtok tk' (d_ds dp) <= dtok tk (d_ds dp)).
    { destruct more.
      - rewrite tok_after_app, Ht in Heq. rewrite <- Heq. apply inc_pages_mono. eapply page_tok_ok; eauto.
      - rewrite Ht in Heq. lia. }
    rewrite (Hfin dp Hdp) in Hge. pose proof (cont_of_bounds c h tk b Hb H1 (d_ds dp)). lia.
  Qed.
End Fix.

(** a fault-free incremental run that leaves a dependency token where it was had nothing left to read *)
Theorem fixpoint_caught_up_l : forall v c h b core tk evs ok tk' dp,
  sound_l v c -> (1 <= b)%nat -> tok_ok tk -> tok_in c h tk -> In dp (c_deps c) ->
  run_events v c h (Some tk) false b None core = (evs, ok) -> last_tok evs (Some tk) = Some tk' ->
  dtok tk' (d_ds dp) = dtok tk (d_ds dp) ->
  dtok tk (d_ds dp) = lenz (feed_of h (d_ds dp)).
Proof.
  intros v c h b core tk evs ok tk' dp ((Hs & Hp & _) & Hsk) Hb Hok Hin Hdp Hr Hlast Heq.
  unfold run_events in Hr. cbn in Hr.
  assert (Hall : forall l n, cut_calls l None n = (map ev_of_pair l, true)).
  { induction l as [|[es t] l IH]; intros n; cbn [cut_calls map]; auto. destruct es; rewrite IH; reflexivity. }
  rewrite Hall in Hr. injection Hr as <- <-. rewrite map_map in Hlast.
  change (map (fun x : call => ev_of_pair (k_ents x, Some (k_tok x)))) with (map ev_of_call) in Hlast.
  rewrite last_tok_calls in Hlast. injection Hlast as <-.
  pose proof (run_fixpoint v c h b Hs Hp Hsk Hb tk dp Hok Hdp Heq). specialize (Hin dp Hdp). lia.
Qed.

Theorem fixpoint_caught_up : forall v c h b core tk evs ok tk' dp,
  sound v -> c_latest c = false -> (1 <= b)%nat -> tok_ok tk -> tok_in c h tk -> In dp (c_deps c) ->
  run_events v c h (Some tk) false b None core = (evs, ok) -> last_tok evs (Some tk) = Some tk' ->
  dtok tk' (d_ds dp) = dtok tk (d_ds dp) ->
  dtok tk (d_ds dp) = lenz (feed_of h (d_ds dp)).
Proof. intros v c h b core tk evs ok tk' dp Hv Hl. apply fixpoint_caught_up_l. now apply sound_l_plain. Qed.

(** * main_only, for every variant *)
Lemma dep_step_main : forall v c h tk0 b d dp later cs d',
  dep_step v c h tk0 b d dp later = (cs, d') -> forall m, In m (ents cs) -> main_live h (c_main c) m = true.
Proof.
  intros v c h tk0 b d dp later cs d' H m Hm. unfold dep_step in H.
  destruct (changes (feed_of h (d_ds dp)) (dtok tk0 (d_ds dp)) b (c_latest c)) as [[vs sk] cont].
  match type of H with context [split_chunks b ?ts [] 0] => destruct (split_chunks b ts [] 0) as [full rem] eqn:Esp end.
  injection H as <- _. rewrite ents_app, ents_map_mk in Hm.
  assert (In m (concat full) \/ In m rem) as Hm'.
  { apply in_app_or in Hm. destruct Hm as [Hm|Hm]; auto. destruct rem; [destruct Hm|].
    unfold ents in Hm. cbn in Hm. rewrite app_nil_r in Hm. auto. }
  apply (split_chunks_In _ _ _ _ _ _ Esp m) in Hm'. destruct Hm' as [Hm'|[]]. eapply dep_targets_main; eauto.
Qed.

Lemma deps_steps_main : forall v c h tk0 b rest d cs d2,
  deps_steps v c h tk0 b d rest = (cs, d2) -> forall m, In m (ents cs) -> main_live h (c_main c) m = true.
Proof.
  induction rest as [|dp rest IH]; intros d cs d2 H m Hm; cbn in H.
  - injection H as <- <-. destruct Hm.
  - destruct (dep_step v c h tk0 b d dp rest) as [cs1 d1] eqn:E1.
    destruct (deps_steps v c h tk0 b d1 rest) as [cs2 d2'] eqn:E2. injection H as <- <-.
    rewrite ents_app in Hm. apply in_app_or in Hm. destruct Hm; [eapply dep_step_main|eapply IH]; eauto.
Qed.

Definition main_ids (h : hub) (c : cfg) : list N := map v_id (feed_of h (c_main c)).

Lemma read_page_main : forall v c h tk b cs tk1 more,
  read_page v c h tk b = (cs, tk1, more) -> forall m, In m (ents cs) -> In m (main_ids h c).
Proof.
  intros v c h tk b cs tk1 more H m Hm. unfold read_page in H.
  destruct (deps_steps v c h tk b tk (c_deps c)) as [csd d] eqn:Ed.
  destruct (changes (feed_of h (c_main c)) (t_main tk) b (c_latest c)) as [[vs sk] cont] eqn:Ech.
  injection H as <- _ _. rewrite ents_app in Hm. apply in_app_or in Hm. destruct Hm as [Hm|Hm].
  - apply main_live_In. eapply deps_steps_main; eauto.
  - unfold ents in Hm. cbn in Hm. rewrite app_nil_r in Hm. apply in_map_iff in Hm. destruct Hm as (x & <- & Hx).
    apply in_map. eapply changes_sub; eauto.
Qed.

Lemma inc_pages_main : forall v c h b fuel tk m, In m (ents (inc_pages v c h b fuel tk)) -> In m (main_ids h c).
Proof.
  induction fuel as [|fuel IH]; intros tk m Hm; cbn [inc_pages] in Hm; [destruct Hm|].
  destruct (read_page v c h tk b) as [[cs tk'] more] eqn:Ep.
  destruct more; [rewrite ents_app in Hm; apply in_app_or in Hm; destruct Hm as [Hm|Hm]|]; eauto using read_page_main.
Qed.

Lemma full_pages_main : forall c h b fuel pos ps fin,
  full_pages c h b fuel pos = (ps, fin) -> forall m, In m (concat ps) -> In m (main_ids h c).
Proof.
  induction fuel as [|fuel IH]; intros pos ps fin H m Hm; cbn [full_pages] in H.
  - injection H as <- <-. destruct Hm.
  - destruct (changes (feed_of h (c_main c)) pos b (c_latest c)) as [[vs sk] cont] eqn:E.
    destruct vs as [|v0 vs]; [injection H as <- <-; destruct Hm|].
    destruct (full_pages c h b fuel cont) as [ps' fin'] eqn:Er. injection H as <- <-.
    cbn [concat] in Hm. apply in_app_or in Hm. destruct Hm as [Hm|Hm]; [|eauto].
    change (In m (map v_id (v0 :: vs))) in Hm.
    apply in_map_iff in Hm. destruct Hm as (x & <- & Hx). apply in_map. eapply changes_sub; eauto.
Qed.

Lemma ents_of_pairs_prefix : forall l1 l2 m, In m (ents_of (map ev_of_pair l1)) -> In m (ents_of (map ev_of_pair (l1 ++ l2))).
Proof. intros. rewrite map_app, ents_of_app. apply in_or_app. now left. Qed.

Lemma run_events_main : forall v c h job full b fail core evs ok,
  run_events v c h job full b fail core = (evs, ok) -> forall m, In m (ents_of evs) -> In m (main_ids h c).
Proof.
  intros v c h job full b fail core evs ok H m Hm. unfold run_events in H.
  destruct (if full then None else job) as [tk|].
  - apply cut_calls_prefix in H. destruct H as (l1 & l2 & Hsp & -> & _).
    apply (ents_of_pairs_prefix l1 l2) in Hm. rewrite <- Hsp, map_map in Hm.
    change (map (fun x : call => ev_of_pair (k_ents x, Some (k_tok x)))) with (map ev_of_call) in Hm.
    rewrite ents_of_calls in Hm. eapply inc_pages_main; eauto.
  - destruct (full_pages c h b (fuel_of h c) 0) as [ps fin] eqn:Ef.
    apply cut_calls_prefix in H. destruct H as (l1 & l2 & Hsp & -> & _).
    apply (ents_of_pairs_prefix l1 l2) in Hm. rewrite <- Hsp, map_app, ents_of_app, ents_of_none in Hm.
    cbn in Hm. rewrite app_nil_r in Hm. eapply full_pages_main; eauto.
Qed.

Lemma main_ids_append : forall h c k vs m, In m (main_ids h c) -> In m (main_ids (append_hub h k vs) c).
Proof.
  intros h c k vs m Hm. unfold main_ids in *. destruct (feed_of_append h k vs (c_main c)) as [extra ->].
  rewrite map_app. apply in_or_app. now left.
Qed.

(** ** an incremental run interrupted by a write: still only main-dataset ids *)
Section MidMain.
  Variables (v : variant) (c : cfg) (h0 : hub) (ds : nat) (vs : list wver) (b k : nat).
  Let h1 := append_hub h0 ds vs.
  Let e := EvAppend ds vs.
  Let M (w : bool) : list N := main_ids (if w then h1 else h0) c.

  Lemma M_mono : forall m, In m (M false) -> In m (M true).
  Proof. intros m H. unfold M, h1. now apply main_ids_append. Qed.

  Fixpoint ok_evs (w : bool) (L : list ev) : Prop :=
    match L with
    | [] => True
    | EvCall es _ :: r => (forall m, In m es -> In m (M w)) /\ ok_evs w r
    | EvAppend ds' vs' :: r => w = false /\ ok_evs true r
    end.

  Lemma ok_evs_app : forall A B w, ok_evs w A -> ok_evs (w || has_append A) B -> ok_evs w (A ++ B).
  Proof.
    induction A as [|a A IH]; intros B w HA HB; cbn [app has_append] in *.
    - now rewrite orb_false_r in HB.
    - destruct a as [d x|es t]; cbn [ok_evs has_append] in *.
      + destruct HA as [-> HA]. cbn [orb] in HB. split; auto.
      + destruct HA as [H1 HA]. split; auto.
  Qed.

  Lemma ok_evs_true_of_false : forall L, ok_evs false L -> has_append L = false -> ok_evs true L.
  Proof.
    induction L as [|a L IH]; intros H Hn; cbn [ok_evs has_append] in *; auto.
    destruct a as [d x|es t]; [discriminate|]. destruct H as [H1 H2]. split; auto.
    intros m Hm. apply M_mono. auto.
  Qed.

  Definition inv_n (w : bool) (n : nat) : Prop := if w then (k < n)%nat else (n <= k)%nat.

  Lemma emit_calls_ok : forall cs n w es n' w1,
    (forall m, In m (ents cs) -> In m (M w)) -> inv_n w n ->
    emit_calls cs n k e = (es, n', w1) ->
    ok_evs w es /\ has_append es = w1 /\ inv_n (w || w1) n' /\ (w = true -> w1 = false).
  Proof.
    induction cs as [|c0 cs IH]; intros n w es n' w1 Hsub Hn H; cbn [emit_calls] in H.
    - injection H as <- <- <-. cbn. rewrite orb_false_r. auto.
    - assert (Hsub0 : forall m, In m (k_ents c0) -> In m (M w)).
      { intros m Hm. apply Hsub. unfold ents. cbn. apply in_or_app. now left. }
      assert (Hsub' : forall m, In m (ents cs) -> In m (M w)).
      { intros m Hm. apply Hsub. unfold ents in *. cbn. apply in_or_app. now right. }
      destruct (k_ents c0) as [|x0 xs] eqn:Ek.
      + destruct (emit_calls cs n k e) as [[r n1] w0] eqn:E. injection H as <- <- <-.
        destruct (IH _ _ _ _ _ Hsub' Hn E) as (H1 & H2 & H3 & H4). cbn [ok_evs has_append]. auto.
      + destruct (Nat.eqb n k) eqn:Enk.
        * destruct (emit_calls cs (S n) k e) as [[r n1] w0] eqn:E. injection H as <- <- <-.
          apply Nat.eqb_eq in Enk. subst n. destruct w; [cbn in Hn; lia|].
          assert (Hsub1 : forall m, In m (ents cs) -> In m (M true)) by (intros; apply M_mono; auto).
          destruct (IH (S k) true _ _ _ Hsub1 ltac:(cbn; lia) E) as (H1 & H2 & H3 & H4).
          unfold e. cbn [ok_evs has_append orb]. cbn [orb] in H3.
          split; [split; [exact Hsub0|split; [reflexivity|exact H1]]|]. split; [reflexivity|]. split; [exact H3|].
          intros; discriminate.
        * destruct (emit_calls cs (S n) k e) as [[r n1] w0] eqn:E. injection H as <- <- <-.
          apply Nat.eqb_neq in Enk.
          assert (Hn' : inv_n w (S n)) by (destruct w; cbn in *; lia).
          destruct (IH _ _ _ _ _ Hsub' Hn' E) as (H1 & H2 & H3 & H4). cbn [ok_evs has_append]. auto.
  Qed.

  Lemma deps_steps_mid_ok : forall tk0 dps d n w es d2 n2 w2,
    inv_n w n -> deps_steps_mid v c h0 h1 tk0 b d dps n k e w = (es, d2, n2, w2) ->
    ok_evs w es /\ w2 = w || has_append es /\ inv_n w2 n2.
  Proof.
    intros tk0. induction dps as [|dp rest IH]; intros d n w es d2 n2 w2 Hn H; cbn [deps_steps_mid] in H.
    - injection H as <- _ <- <-. cbn. rewrite orb_false_r. auto.
    - destruct (dep_step v c (if w then h1 else h0) tk0 b d dp rest) as [cs d1] eqn:Ed.
      destruct (emit_calls cs n k e) as [[es1 n1] w1] eqn:Ee.
      destruct (deps_steps_mid v c h0 h1 tk0 b d1 rest n1 k e (w || w1)) as [[[es' d2'] n2'] w2'] eqn:Er.
      injection H as <- _ <- <-.
      assert (Hsub : forall m, In m (ents cs) -> In m (M w)).
      { intros m Hm. unfold M. apply main_live_In. eapply dep_step_main; eauto. }
      destruct (emit_calls_ok _ _ _ _ _ _ Hsub Hn Ee) as (H1 & H2 & H3 & H4).
      destruct (IH _ _ _ _ _ _ _ H3 Er) as (I1 & I2 & I3).
      split; [apply ok_evs_app; auto; now rewrite H2|]. split; auto.
      rewrite I2, <- H2. clear. induction es1 as [|a es1 IHe]; cbn [app has_append]; [now rewrite orb_false_r|].
      destruct a; cbn; [now rewrite !orb_true_r|]. exact IHe.
  Qed.

  Lemma has_append_app : forall A B, has_append (A ++ B) = has_append A || has_append B.
  Proof. induction A as [|a A IH]; intros B; cbn [app has_append]; auto. destruct a; auto. Qed.

  Lemma read_page_mid_ok : forall tk0 n w es tk1 more n2 w2,
    inv_n w n -> read_page_mid v c h0 h1 tk0 b n k e w = (es, tk1, more, n2, w2) ->
    ok_evs w es /\ w2 = w || has_append es /\ inv_n w2 n2.
  Proof.
    intros tk0 n w es tk1 more n2 w2 Hn H. unfold read_page_mid in H.
    destruct (deps_steps_mid v c h0 h1 tk0 b tk0 (c_deps c) n k e w) as [[[es1 d] n1] w1] eqn:Ed.
    destruct (changes (feed_of (if w1 then h1 else h0) (c_main c)) (t_main tk0) b (c_latest c)) as [[xs sk] cont] eqn:Ech.
    destruct (emit_calls [mkCall (map v_id xs) (mkTok cont (t_deps d))] n1 k e) as [[em nm] wm] eqn:Ee.
    injection H as <- _ _ <- <-.
    destruct (deps_steps_mid_ok _ _ _ _ _ _ _ _ _ Hn Ed) as (H1 & H2 & H3).
    assert (Hsub : forall m, In m (ents [mkCall (map v_id xs) (mkTok cont (t_deps d))]) -> In m (M w1)).
    { intros m Hm. unfold ents in Hm. cbn in Hm. rewrite app_nil_r in Hm. apply in_map_iff in Hm.
      destruct Hm as (x & <- & Hx). unfold M, main_ids. apply in_map. eapply changes_sub; eauto. }
    destruct (emit_calls_ok _ _ _ _ _ _ Hsub H3 Ee) as (E1 & E2 & E3 & E4).
    split; [apply ok_evs_app; auto; now rewrite <- H2|]. split; auto.
    rewrite has_append_app, E2, H2. now rewrite orb_assoc.
  Qed.

  Lemma inc_pages_mid_ok : forall fuel tk n w,
    inv_n w n -> ok_evs w (inc_pages_mid v c h0 h1 b fuel tk n k e w).
  Proof.
    induction fuel as [|fuel IH]; intros tk n w Hn; cbn [inc_pages_mid]; [exact I|].
    destruct (read_page_mid v c h0 h1 tk b n k e w) as [[[[es tk'] more] n'] w'] eqn:Ep.
    destruct (read_page_mid_ok _ _ _ _ _ _ _ _ Hn Ep) as (H1 & H2 & H3).
    destruct more; auto. apply ok_evs_app; auto. rewrite <- H2. apply IH. exact H3.
  Qed.

  Lemma cut_evs_ok : forall L fail n w L' ok, ok_evs w L -> cut_evs L fail n = (L', ok) -> ok_evs w L'.
  Proof.
    induction L as [|a L IH]; intros fail n w L' ok H Hc; cbn [cut_evs] in Hc.
    - injection Hc as <- _. exact I.
    - destruct a as [d x|[|y es] t]; cbn [ok_evs] in H.
      + destruct (cut_evs L fail n) as [r ok'] eqn:E. injection Hc as <- _. destruct H as [-> H]. split; eauto.
      + destruct (cut_evs L fail n) as [r ok'] eqn:E. injection Hc as <- _. destruct H as [H1 H]. split; eauto.
      + destruct (match fail with Some i => Nat.eqb i n | None => false end).
        * injection Hc as <- _. exact I.
        * destruct (cut_evs L fail (S n)) as [r ok'] eqn:E. injection Hc as <- _. destruct H as [H1 H]. split; eauto.
  Qed.

  Lemma ok_evs_ents : forall L w, ok_evs w L -> forall m, In m (ents_of L) -> In m (M (w || has_append L)).
  Proof.
    induction L as [|a L IH]; intros w H m Hm; cbn [ents_of has_append ok_evs] in *; [destruct Hm|].
    destruct a as [d x|es t].
    - destruct H as [-> H]. cbn. specialize (IH true H m Hm). cbn in IH. exact IH.
    - destruct H as [H1 H]. apply in_app_or in Hm. destruct Hm as [Hm|Hm]; [|auto].
      specialize (H1 m Hm). destruct w; cbn; auto. destruct (has_append L); auto. now apply M_mono.
  Qed.
End MidMain.

Lemma step_main : forall v c s0 o s1 e1 ok1,
  step v c s0 o = (s1, e1, ok1) ->
  (forall m, In m (ents_of e1) -> In m (main_ids (s_hub s1) c)) /\
  (forall m, In m (main_ids (s_hub s0) c) -> In m (main_ids (s_hub s1) c)).
Proof.
  intros v c s0 o s1 e1 ok1 E1.
  assert (Hfullmid : forall job b fail core k ds vs evs ok evs1 ins,
            run_events v c (s_hub s0) job true b fail core = (evs, ok) ->
            insert_mid evs k (EvAppend ds vs) = (evs1, ins) ->
            (forall m, In m (ents_of evs1) -> In m (main_ids (if ins then append_hub (s_hub s0) ds vs else s_hub s0) c)) /\
            (forall m, In m (main_ids (s_hub s0) c) -> In m (main_ids (if ins then append_hub (s_hub s0) ds vs else s_hub s0) c))).
  { intros job b fail core k ds vs evs ok evs1 ins Er Ei.
    assert (Hmono : forall m, In m (main_ids (s_hub s0) c) ->
                              In m (main_ids (if ins then append_hub (s_hub s0) ds vs else s_hub s0) c)).
    { intros m Hm. destruct ins; auto. now apply main_ids_append. }
    split; auto. intros m Hm. apply Hmono.
    destruct (insert_mid_spec _ _ _ _ _ Ei) as [[_ ->]|(_ & a1 & a2 & -> & ->)].
    + eapply run_events_main; eauto.
    + eapply run_events_main; eauto. rewrite ents_of_app in *. cbn [ents_of] in Hm. exact Hm. }
  destruct o as [k vs|full b fail core|b fail core k ds vs|b fail core k ds vs]; cbn [step] in E1.
  - injection E1 as <- <- _. cbn [s_hub]. split; [intros m []|]. intros m. apply main_ids_append.
  - destruct (run_events v c (s_hub s0) (s_job s0) full b fail core) as [evs ok] eqn:Er.
    injection E1 as <- <- _. cbn [s_hub]. split; auto. intros m Hm. eapply run_events_main; eauto.
  - destruct (run_events v c (s_hub s0) (s_job s0) true b fail core) as [evs ok] eqn:Er.
    destruct (insert_mid evs k (EvAppend ds vs)) as [evs1 ins] eqn:Ei. injection E1 as <- <- _. cbn [s_hub].
    eapply Hfullmid; eauto.
  - destruct (s_job s0) as [tk|].
    + destruct (cut_evs (inc_pages_mid v c (s_hub s0) (append_hub (s_hub s0) ds vs) b (fuel_of (s_hub s0) c) tk 0 k
                                       (EvAppend ds vs) false) fail 0) as [evs ok] eqn:Ec.
      injection E1 as <- <- _. cbn [s_hub].
      pose proof (inc_pages_mid_ok v c (s_hub s0) ds vs b k (fuel_of (s_hub s0) c) tk 0 false ltac:(cbn; lia)) as Hok.
      pose proof (cut_evs_ok c (s_hub s0) ds vs _ _ _ _ _ _ Hok Ec) as Hok'.
      split.
      * intros m Hm. exact (ok_evs_ents c (s_hub s0) ds vs _ _ Hok' m Hm).
      * intros m Hm. destruct (has_append evs); auto. now apply main_ids_append.
    + destruct (run_events v c (s_hub s0) None true b fail core) as [evs ok] eqn:Er.
      destruct (insert_mid evs k (EvAppend ds vs)) as [evs1 ins] eqn:Ei. injection E1 as <- <- _. cbn [s_hub].
      eapply Hfullmid; eauto.
Qed.

(** C18_main_only: whatever is handed to the sink, in any run of any history under any variant, is an entity
    of the main dataset (and, when it comes from a dependency, a live one - dep_step_main). *)
Theorem main_only : forall v c ops s0 s tr,
  exec v c s0 ops = (s, tr) -> forall m, In m (ents_of tr) -> In m (main_ids (s_hub s) c).
Proof.
  intros v c.
  assert (Hmono : forall ops s1 s2 e2, exec v c s1 ops = (s2, e2) ->
            forall m, In m (main_ids (s_hub s1) c) -> In m (main_ids (s_hub s2) c)).
  { induction ops as [|o ops IH]; intros s1 s2 e2 E2 m H1; cbn [exec] in E2.
    - now injection E2 as <- <-.
    - destruct (step v c s1 o) as [[s1' e1'] ok1'] eqn:E1. destruct (exec v c s1' ops) as [s2' e2'] eqn:E2'.
      injection E2 as <- <-. eapply IH; eauto. apply (proj2 (step_main _ _ _ _ _ _ _ E1)). exact H1. }
  induction ops as [|o ops IH]; intros s0 s tr H m Hm; cbn [exec] in H.
  - injection H as <- <-. destruct Hm.
  - destruct (step v c s0 o) as [[s1 e1] ok1] eqn:E1. destruct (exec v c s1 ops) as [s2 e2] eqn:E2.
    injection H as <- <-. rewrite ents_of_app in Hm. apply in_app_or in Hm. destruct Hm as [Hm|Hm]; [|eauto].
    eapply Hmono; eauto. apply (proj1 (step_main _ _ _ _ _ _ _ E1)). exact Hm.
Qed.


(** * implicit dependencies *)
Lemma join_eqb_eq : forall a b, join_eqb a b = true <-> a = b.
Proof.
  intros [d1 p1 i1] [d2 p2 i2]. unfold join_eqb. cbn. rewrite !andb_true_iff, Nat.eqb_eq, N.eqb_eq, eqb_true_iff.
  split; [intros [[-> ->] ->]; reflexivity|intros [= -> -> ->]; auto].
Qed.

Lemma joins_eqb_eq : forall a b, joins_eqb a b = true <-> a = b.
Proof.
  induction a as [|x a IH]; destruct b as [|y b]; cbn; try (split; congruence).
  rewrite andb_true_iff, join_eqb_eq, IH. split; [intros [-> ->]; reflexivity|intros [= -> ->]; auto].
Qed.

Lemma dep_eqb_eq : forall a b, dep_eqb a b = true <-> a = b.
Proof.
  intros [d1 j1] [d2 j2]. unfold dep_eqb. cbn. rewrite andb_true_iff, Nat.eqb_eq, joins_eqb_eq.
  split; [intros [-> ->]; reflexivity|intros [= -> ->]; auto].
Qed.

Lemma dedup_deps_In : forall l seen d, In d l -> In d (dedup_deps seen l) \/ In d seen.
Proof.
  induction l as [|x l IH]; intros seen d H; [destruct H|]. cbn [dedup_deps].
  destruct (existsb (dep_eqb x) seen) eqn:E.
  - destruct H as [->|H]; [|auto]. right. apply existsb_exists in E. destruct E as (y & Hy & E).
    apply dep_eqb_eq in E. now subst.
  - destruct H as [->|H]; [left; now left|]. destruct (IH (x :: seen) d H) as [H1|[->|H1]]; auto.
    + left. now right.
    + left. now left.
Qed.

Lemma suffix_deps_In : forall main pre j post,
  j_ds j <> main -> In (mkDep (j_ds j) post) (suffix_deps main (pre ++ j :: post)).
Proof.
  induction pre as [|x pre IH]; intros j post H; cbn [app suffix_deps].
  - apply in_or_app. left. destruct (Nat.eqb_spec (j_ds j) main); [contradiction|now left].
  - apply in_or_app. right. auto.
Qed.

(** every intermediate dataset of a declared join path is tracked with the rest of the path: a change (e.g. a
    rewired link) in the middle of a path is a dependency change of its own *)
Theorem implicit_tracked : forall main declared d pre j post,
  In d declared -> d_joins d = pre ++ j :: post -> j_ds j <> main ->
  In (mkDep (j_ds j) post) (effective_deps main declared) /\ In d (effective_deps main declared).
Proof.
  intros main declared d pre j post Hd Hj Hm. unfold effective_deps. split.
  - destruct (dedup_deps_In (declared ++ flat_map (fun d => suffix_deps main (d_joins d)) declared) []
                            (mkDep (j_ds j) post)) as [H|[]]; auto.
    apply in_or_app. right. apply in_flat_map. exists d. split; auto. rewrite Hj. now apply suffix_deps_In.
  - destruct (dedup_deps_In (declared ++ flat_map (fun d => suffix_deps main (d_joins d)) declared) [] d) as [H|[]]; auto.
    apply in_or_app. now left.
Qed.

(** * more facts about runs, used by the link between agreement and the executable spec *)
Lemma tok_set_In : forall l k z k' z', In (k', z') (tok_set l k z) -> (k', z') = (k, z) \/ In (k', z') l.
Proof.
  induction l as [|[k0 z0] l IH]; intros k z k' z' H; cbn [tok_set] in H.
  - destruct H as [H|[]]; auto.
  - destruct (Nat.eqb k k0).
    + destruct H as [H|H]; auto. right. now right.
    + destruct (Nat.ltb k k0).
      * destruct H as [H|H]; auto.
      * destruct H as [H|H]; [right; now left|]. destruct (IH _ _ _ _ H); auto. right. now right.
Qed.

Definition deps_in (h : hub) (tk : tokens) : Prop :=
  forall k z, In (k, z) (t_deps tk) -> 0 <= z <= lenz (feed_of h k).

Lemma deps_in_dtok : forall h tk ds, deps_in h tk -> 0 <= dtok tk ds <= lenz (feed_of h ds).
Proof.
  intros h tk ds H. unfold dtok. unfold deps_in in H. induction (t_deps tk) as [|[k z] l IH]; cbn [tok_get].
  - unfold lenz. lia.
  - destruct (Nat.eqb ds k) eqn:E.
    + apply Nat.eqb_eq in E. subst. apply H. now left.
    + apply IH. intros k' z' Hin. apply H. now right.
Qed.

Section More.
  Variables (v : variant) (c : cfg) (h : hub) (b : nat).
  Hypothesis Hb : (1 <= b)%nat.

  Lemma dep_step_deps_in : forall tk0 d dp later cs d',
    deps_in h tk0 -> deps_in h d -> dep_step v c h tk0 b d dp later = (cs, d') ->
    deps_in h d' /\ forall k, In k cs -> deps_in h (k_tok k).
  Proof.
    intros tk0 d dp later cs d' H0 Hd H. unfold dep_step in H.
    destruct (changes (feed_of h (d_ds dp)) (dtok tk0 (d_ds dp)) b (c_latest c)) as [[vs sk] cont] eqn:Ech.
    match type of H with context [split_chunks b ?ts [] 0] => destruct (split_chunks b ts [] 0) as [full rem] end.
    injection H as <- <-.
    pose proof (deps_in_dtok h tk0 (d_ds dp) H0) as Hr.
    apply changes_gen in Ech; [|auto|lia]. destruct Ech as (H1 & H2 & _).
    set (d1 := if match f_shared v with SharedEager => false | SharedSnapshot => existsb (same_ds (d_ds dp)) later end
               then d else mkTok (t_main d) (tok_set (t_deps d) (d_ds dp) cont)).
    assert (Hd1 : deps_in h d1).
    { unfold d1. destruct (match f_shared v with SharedEager => false | SharedSnapshot => existsb (same_ds (d_ds dp)) later end); auto.
      intros k z Hin. cbn [t_deps] in Hin. apply tok_set_In in Hin. destruct Hin as [[= -> ->]|Hin]; [lia|auto]. }
    split; auto. intros k Hk. apply in_app_or in Hk. destruct Hk as [Hk|Hk].
    - apply in_map_iff in Hk. destruct Hk as (es & <- & _). auto.
    - destruct rem; [destruct Hk|]. destruct Hk as [<-|[]]. auto.
  Qed.

  Lemma deps_steps_deps_in : forall tk0 rest d cs d2,
    deps_in h tk0 -> deps_in h d -> deps_steps v c h tk0 b d rest = (cs, d2) ->
    deps_in h d2 /\ forall k, In k cs -> deps_in h (k_tok k).
  Proof.
    intros tk0. induction rest as [|dp rest IH]; intros d cs d2 H0 Hd H; cbn in H.
    - injection H as <- <-. split; auto. intros k [].
    - destruct (dep_step v c h tk0 b d dp rest) as [cs1 d1] eqn:E1.
      destruct (deps_steps v c h tk0 b d1 rest) as [cs2 d2'] eqn:E2. injection H as <- <-.
      destruct (dep_step_deps_in _ _ _ _ _ _ H0 Hd E1) as [Hd1 Hk1].
      destruct (IH _ _ _ H0 Hd1 E2) as [Hd2 Hk2]. split; auto.
      intros k Hk. apply in_app_or in Hk. destruct Hk; auto.
  Qed.

  Lemma read_page_deps_in : forall tk cs tk1 more,
    deps_in h tk -> read_page v c h tk b = (cs, tk1, more) ->
    deps_in h tk1 /\ forall k, In k cs -> deps_in h (k_tok k).
  Proof.
    intros tk cs tk1 more H0 H. unfold read_page in H.
    destruct (deps_steps v c h tk b tk (c_deps c)) as [csd d] eqn:Ed.
    destruct (changes (feed_of h (c_main c)) (t_main tk) b (c_latest c)) as [[vs sk] cont].
    injection H as <- <- _. destruct (deps_steps_deps_in _ _ _ _ _ H0 H0 Ed) as [Hd Hk].
    split; [exact Hd|]. intros k Hin. apply in_app_or in Hin. destruct Hin as [Hin|[<-|[]]]; auto.
  Qed.

  Lemma inc_pages_deps_in : forall fuel tk, deps_in h tk ->
    forall k, In k (inc_pages v c h b fuel tk) -> deps_in h (k_tok k).
  Proof.
    induction fuel as [|fuel IH]; intros tk H0 k Hk; cbn [inc_pages] in Hk; [destruct Hk|].
    destruct (read_page v c h tk b) as [[cs tk'] more] eqn:Ep.
    destruct (read_page_deps_in _ _ _ _ H0 Ep) as [H1 Hks].
    destruct more; auto. apply in_app_or in Hk. destruct Hk; auto. eapply IH; eauto.
  Qed.
End More.


Section More2.
  Variables (v : variant) (c : cfg) (h : hub) (b : nat).
  Hypothesis Hs : f_shared v = SharedSnapshot.
  Hypothesis Hp : f_prev v = PrevFeed.
  Hypothesis Hsk : c_latest c = true -> f_skip v = SkipPrev.
  Hypothesis Hb : (1 <= b)%nat.

  Lemma inc_pages_tok_ge : forall fuel tk, tok_ok tk ->
    forall k, In k (inc_pages v c h b fuel tk) -> forall ds, dtok tk ds <= dtok (k_tok k) ds.
  Proof.
    induction fuel as [|fuel IH]; intros tk Hok k Hk ds; cbn [inc_pages] in Hk; [destruct Hk|].
    destruct (read_page v c h tk b) as [[cs tk'] more] eqn:Ep.
    pose proof Hok as [H1 H2].
    destruct (page_safe v c h tk b Hs Hp Hsk Hb H1 H2 _ _ _ Ep) as (_ & Hd & _ & Hks & _).
    pose proof (cont_of_bounds c h tk b Hb H1 ds) as Hc.
    assert (Hpage : forall k', In k' cs -> dtok tk ds <= dtok (k_tok k') ds).
    { intros k' Hk'. destruct (Hks k' Hk' ds) as [->| ->]; lia. }
    destruct more; auto. apply in_app_or in Hk. destruct Hk as [Hk|Hk]; auto.
    assert (Hok' : tok_ok tk') by (eapply page_tok_ok; eauto).
    specialize (IH tk' Hok' k Hk ds). destruct (Hd ds) as [E|E]; rewrite E in IH; lia.
  Qed.

  Lemma tok_after_In : forall pre tk, pre = [] /\ tok_after pre tk = tk \/ exists k, In k pre /\ tok_after pre tk = k_tok k.
  Proof.
    intros pre tk. destruct pre as [|k0 pre] using rev_ind; [left; auto|]. right. exists k0.
    split; [apply in_or_app; right; now left|]. rewrite tok_after_app. reflexivity.
  Qed.

  (** main-dataset changes: whenever a call persists a main token, every processed change below it has been
      handed over in this or an earlier call of the run *)
  Lemma inc_pages_main_safe : forall fuel tk, tok_ok tk ->
    (forall k, In k (inc_pages v c h b fuel tk) ->
               t_main tk <= t_main (k_tok k) <= Z.max (t_main tk) (lenz (feed_of h (c_main c)))) /\
    forall cs1 k cs2, inc_pages v c h b fuel tk = cs1 ++ k :: cs2 ->
    forall p x, t_main tk <= p < t_main (k_tok k) -> nthz (feed_of h (c_main c)) p = Some x ->
                skipped c (feed_of h (c_main c)) p x = false -> In (v_id x) (ents (cs1 ++ [k])).
  Proof.
    induction fuel as [|fuel IH]; intros tk Hok; cbn [inc_pages].
    - split; [intros k []|]. intros cs1 k cs2 H. destruct cs1; discriminate.
    - destruct (read_page v c h tk b) as [[cs tk'] more] eqn:Ep.
      pose proof Hok as [H1 H2].
      destruct (page_safe v c h tk b Hs Hp Hsk Hb H1 H2 _ _ _ Ep)
        as (_ & _ & _ & _ & (cs0 & kl & Hcs & Hkl & _ & Hm0 & _ & _ & Hle & Hmax & _ & Hcov)).
      assert (Hpage_b : forall k, In k cs -> t_main tk <= t_main (k_tok k) <= Z.max (t_main tk) (lenz (feed_of h (c_main c)))).
      { intros k Hk. rewrite Hcs in Hk. apply in_app_or in Hk. destruct Hk as [Hk|[<-|[]]].
        - rewrite (Hm0 _ Hk). lia.
        - rewrite Hkl. lia. }
      assert (Hpage : forall a k a2, cs = a ++ k :: a2 ->
                forall p x, t_main tk <= p < t_main (k_tok k) -> nthz (feed_of h (c_main c)) p = Some x ->
                            skipped c (feed_of h (c_main c)) p x = false -> In (v_id x) (ents (a ++ [k]))).
      { intros a k a2 Hsp p x Hr Hx Hskip. rewrite Hcs in Hsp. apply app_split in Hsp.
        destruct Hsp as [(b' & Hc0 & _)|(a' & -> & Hr')].
        - exfalso. assert (In k cs0) by (rewrite Hc0; apply in_or_app; right; now left).
          rewrite (Hm0 _ H) in Hr. lia.
        - destruct a' as [|? [|? ?]]; cbn in Hr'; try discriminate. injection Hr' as <- <-.
          rewrite app_nil_r, ents_app. apply in_or_app. right. unfold ents. cbn. rewrite app_nil_r.
          apply (Hcov p x); auto. rewrite Hkl in Hr. exact Hr. }
      destruct more.
      + assert (Hok' : tok_ok tk') by (eapply page_tok_ok; eauto).
        destruct (IH tk' Hok') as [IHb IHs]. split.
        * intros k Hk. apply in_app_or in Hk. destruct Hk as [Hk|Hk]; auto. specialize (IHb k Hk). lia.
        * intros cs1 k cs2 Hsp p x Hr Hx Hskip. apply app_split in Hsp.
          destruct Hsp as [(b' & Hc0 & _)|(a' & -> & Hrest)].
          { eapply Hpage; eauto. }
          destruct (Z.lt_ge_cases p (t_main tk')) as [Hlt|Hge].
          -- rewrite <- app_assoc, ents_app. apply in_or_app. left. rewrite Hcs.
             apply (Hpage cs0 kl [] Hcs p x); auto. rewrite Hkl. lia.
          -- rewrite <- app_assoc, ents_app. apply in_or_app. right. eapply IHs; eauto. lia.
      + split; auto.
  Qed.
End More2.


