(** The link between the correspondence evaluator and the theorems of C05: a run whose
    observed lock trace is a trace of the repaired model ending in the observed feeds
    satisfies the executable spec (completion, per-dataset serial order consistent with
    every client's order, whole batches). *)
From Coq Require Import List NArith Bool Arith Lia.
From DH Require Import Lib.CheckLib Model.Locks Proofs.LocksProofs Proofs.LocksSerial Check.C05Check.
Import ListNotations.

(** *** lists *)
Lemma nth_error_set_nth_eq {A} (l : list A) i x : i < length l -> nth_error (set_nth i x l) i = Some x.
Proof. revert i; induction l as [|y l IH]; intros [|i]; cbn; intros H; try lia; auto. apply IH. lia. Qed.
Lemma nth_error_set_nth_neq {A} (l : list A) i j x : i <> j -> nth_error (set_nth i x l) j = nth_error l j.
Proof. revert i j; induction l as [|y l IH]; intros [|i] [|j]; cbn; intros H; try congruence; auto. Qed.

Lemma strip_prefix_app b f : strip_prefix b (b ++ f) = Some f.
Proof. induction b as [|x b IH]; cbn; [reflexivity|]. now rewrite N.eqb_refl. Qed.

(** *** the merge lemma: a log projected on one dataset is a merge of the per-client projections *)
Definition proj (d : lock) (i : nat) (lg : list (nat * writes)) : list (list marker) :=
  filter nonempty (map (writes_to d) (my_commits i lg)).

Lemma proj_cons d i j ws lg :
  proj d i ((j, ws) :: lg) =
  (if Nat.eqb j i then (if nonempty (writes_to d ws) then [writes_to d ws] else []) else []) ++ proj d i lg.
Proof.
  unfold proj, my_commits. cbn [filter fst]. destruct (Nat.eqb j i); cbn [map snd filter app]; [|reflexivity].
  destruct (nonempty (writes_to d ws)); reflexivity.
Qed.

Lemma merge_log d : forall lg seqs n,
  (forall e, In e lg -> fst e < length seqs) ->
  (forall i s, nth_error seqs i = Some s -> s = proj d i lg) ->
  (forall i s b k, nth_error seqs i = Some s -> In b s -> In k b -> tid_of k = i) ->
  length (log_feed d lg) < n ->
  merge_ok n (log_feed d lg) seqs = true.
Proof.
  induction lg as [|[j ws] lg IH]; intros seqs n Hb Hs Ht Hn.
  - destruct n; [lia|]. cbn. apply forallb_forall. intros s Is.
    destruct (In_nth_error _ _ Is) as (i & Hi). rewrite (Hs _ _ Hi). reflexivity.
  - unfold log_feed in *. cbn [flat_map snd] in *.
    destruct (writes_to d ws) as [|k b] eqn:Eb.
    + cbn [app] in *. apply IH; auto.
      * intros e He. apply Hb. now right.
      * intros i s Hi. rewrite (Hs _ _ Hi), proj_cons, Eb. cbn. now destruct (Nat.eqb j i).
    + destruct n; [cbn in Hn; lia|].
      assert (Lj : j < length seqs) by (apply (Hb (j, ws)); now left).
      destruct (nth_error seqs j) as [s|] eqn:Ej; [|apply nth_error_None in Ej; lia].
      pose proof (Hs _ _ Ej) as Es. rewrite proj_cons, Nat.eqb_refl, Eb in Es. cbn in Es.
      assert (Tk : tid_of k = j).
      { apply (Ht j s (k :: b) k Ej); [rewrite Es; now left | now left]. }
      cbn [merge_ok app]. rewrite Tk, Ej, Es.
      change (k :: b ++ flat_map (fun e => writes_to d (snd e)) lg)
        with ((k :: b) ++ flat_map (fun e => writes_to d (snd e)) lg).
      rewrite strip_prefix_app. apply IH.
      * intros e He. rewrite set_nth_length. apply Hb. now right.
      * intros i s' Hi. destruct (Nat.eq_dec j i) as [<-|Nji].
        -- rewrite nth_error_set_nth_eq in Hi by assumption. now injection Hi as <-.
        -- rewrite nth_error_set_nth_neq in Hi by assumption. rewrite (Hs _ _ Hi), proj_cons.
           destruct (Nat.eqb j i) eqn:E; [apply Nat.eqb_eq in E; contradiction | reflexivity].
      * intros i s' b' k' Hi Hb' Hk'. destruct (Nat.eq_dec j i) as [<-|Nji].
        -- rewrite nth_error_set_nth_eq in Hi by assumption. injection Hi as <-.
           apply (Ht j s b' k' Ej); [rewrite Es; now right | assumption].
        -- rewrite nth_error_set_nth_neq in Hi by assumption. eapply Ht; eassumption.
      * cbn in Hn. rewrite app_length in Hn. lia.
Qed.

(** *** the clients' indices in the log are thread indices *)
Definition inv_tid (c : config) : Prop := forall e, In e (clog c) -> fst e < length (threads c).

Lemma step_inv_tid c c' : inv_tid c -> step c c' -> inv_tid c'.
Proof.
  intros I [i E]. destruct (exec_at_inv _ _ _ E) as (pre & t & post & t' & fs' & w & Hs & Hl & Ht & ->).
  assert (Len : length (pre ++ t' :: post) = length (threads c)) by (rewrite Hs, !app_length; reflexivity).
  intros e He. cbn [threads clog] in *. rewrite Len. destruct w as [ws|]; [|now apply I].
  apply in_app_or in He. destruct He as [He|[<-|[]]]; [now apply I|].
  cbn. rewrite Hs, app_length. cbn. lia.
Qed.
Lemma steps_inv_tid c c' : inv_tid c -> steps c c' -> inv_tid c'.
Proof. intros I S. induction S; [assumption | eapply step_inv_tid; eauto]. Qed.
Lemma step_length c c' : step c c' -> length (threads c') = length (threads c).
Proof.
  intros [i E]. destruct (exec_at_inv _ _ _ E) as (pre & t & post & t' & fs' & w & Hs & Hl & Ht & ->).
  cbn. rewrite Hs, !app_length. reflexivity.
Qed.
Lemma steps_length c c' : steps c c' -> length (threads c') = length (threads c).
Proof. intros S. induction S; [reflexivity | erewrite step_length; eassumption]. Qed.

(** *** soundness of the executable replay w.r.t. the step relation *)
Lemma run_to_lock_steps f : forall i c c', run_to_lock f i c = Some c' -> steps c c'.
Proof.
  induction f as [|f IH]; cbn; intros i c c' H; [discriminate|].
  destruct (next_instr i c) as [[l|l|d|ws]|]; try (injection H as <-; constructor);
    (destruct (exec_at i c) as [c1|] eqn:E; [|discriminate]);
    (eapply steps_trans; [eapply steps_step; [constructor | exists i; eassumption] | eapply IH; eassumption]).
Qed.

Lemma replay_event_steps f e c c' : replay_event f e c = Some c' -> steps c c'.
Proof.
  unfold replay_event. destruct (run_to_lock f (fst e) c) as [c1|] eqn:R; [|discriminate].
  destruct (next_instr (fst e) c1) as [x|]; [|discriminate].
  destruct (ev_matches (snd e) x); [|discriminate]. intros E.
  eapply steps_step; [eapply run_to_lock_steps; eassumption | eexists; eassumption].
Qed.

Lemma replay_steps f tr : forall c k c' k' ok, replay f tr c k = (c', k', ok) -> steps c c'.
Proof.
  induction tr as [|e tr IH]; cbn; intros c k c' k' ok H.
  - injection H as <- _ _. constructor.
  - destruct (replay_event f e c) as [c1|] eqn:E.
    + eapply steps_trans; [eapply replay_event_steps; eassumption | eapply IH; eassumption].
    + injection H as <- _ _. constructor.
Qed.

Lemma settle_steps f c : steps c (settle f c).
Proof.
  unfold settle. generalize (seq 0 (length (threads c))). intros l. revert c.
  induction l as [|i l IH]; intros c; cbn; [constructor|].
  destruct (run_to_lock f i c) as [c1|] eqn:R; [|apply IH].
  eapply steps_trans; [eapply run_to_lock_steps; eassumption | apply IH].
Qed.

(** *** what the generated programs commit to a user dataset *)
Lemma commits_app p q : commits (p ++ q) = commits p ++ commits q.
Proof. induction p as [|[l|l|d|ws] p IH]; cbn; auto. now rewrite IH. Qed.
Lemma commits_acqs l : commits (map Acq l) = [].
Proof. induction l; cbn; auto. Qed.
Lemma commits_reads l : commits (map Read l) = [].
Proof. induction l; cbn; auto. Qed.
Lemma commits_rels l : commits (map Rel l) = [].
Proof. induction l; cbn; auto. Qed.

Definition dproj (d : lock) (p : list instr) : list (list marker) :=
  filter nonempty (map (writes_to d) (commits p)).
Lemma dproj_app d p q : dproj d (p ++ q) = dproj d p ++ dproj d q.
Proof. unfold dproj. now rewrite commits_app, map_app, filter_app. Qed.

Lemma dproj_part_update d p : is_ds d = true -> dproj d (part_update p) = [].
Proof.
  intros Hd. unfold part_update. destruct (p_new p && negb (is_core (p_ds p))); [|reflexivity].
  unfold dproj. cbn. destruct d; cbn in *; try discriminate. reflexivity.
Qed.
Lemma dproj_updates d ks uo : is_ds d = true -> dproj d (updates_of ks uo) = [].
Proof.
  intros Hd. unfold updates_of. induction uo as [|x uo IH]; cbn [flat_map]; [reflexivity|].
  rewrite dproj_app, IH, app_nil_r. destruct (find_part x ks); [now apply dproj_part_update | reflexivity].
Qed.

Lemma dproj_op d o : is_ds d = true -> op_no_core_txn o = true ->
  dproj d (prog_of_op fixed o) = filter nonempty (op_batches d o).
Proof.
  intros Hd Hc. destruct o as [p|ks ao uo|ks|x isnew|x m|x present]; cbn [prog_of_op op_batches].
  - unfold batch_prog. change ([Acq (p_ds p); Read (p_ds p); Commit [(p_ds p, p_ms p)]] ++ part_update p ++ [Rel (p_ds p)])
      with ([Acq (p_ds p); Read (p_ds p); Commit [(p_ds p, p_ms p)]] ++ (part_update p ++ [Rel (p_ds p)])).
    rewrite !dproj_app, dproj_part_update by assumption. unfold dproj. cbn.
    rewrite !app_nil_r. destruct (lock_eqb (p_ds p) d); cbn; [|reflexivity].
    rewrite ?app_nil_r. destruct (nonempty (p_ms p)); reflexivity.
  - cbn in Hc. apply negb_true_iff in Hc. cbn [v_core fixed]. rewrite Hc.
    unfold txn_prog. fold (updates_of ks uo). rewrite !dproj_app, dproj_updates by assumption.
    unfold dproj. rewrite commits_acqs, commits_reads, commits_rels. cbn. now rewrite app_nil_r.
  - cbn in Hc. apply negb_true_iff in Hc. cbn [v_core fixed]. rewrite Hc.
    unfold dproj. now rewrite commits_app, commits_acqs, commits_rels.
  - destruct isnew; unfold dproj; cbn; destruct d; cbn in *; try discriminate; reflexivity.
  - destruct m; unfold dproj; cbn; destruct d; cbn in *; try discriminate; reflexivity.
  - destruct present; unfold dproj; cbn; destruct d; cbn in *; try discriminate; reflexivity.
Qed.

Lemma dproj_ops d os : is_ds d = true -> forallb op_no_core_txn os = true ->
  dproj d (prog_of_ops fixed os) = thread_batches d os.
Proof.
  intros Hd. unfold thread_batches, prog_of_ops. induction os as [|o os IH]; cbn [flat_map forallb]; [reflexivity|].
  rewrite andb_true_iff. intros [Ho Hos]. rewrite dproj_app, filter_app, IH, dproj_op by assumption. reflexivity.
Qed.

Lemma tags_from_nth d : forall ops i0 j os b k,
  tags_from d i0 ops = true -> nth_error ops j = Some os ->
  In b (thread_batches d os) -> In k b -> tid_of k = i0 + j.
Proof.
  induction ops as [|o ops IH]; intros i0 [|j] os b k T Hn Hb Hk; cbn in *; try discriminate;
    apply andb_true_iff in T; destruct T as [T1 T2].
  - injection Hn as <-. rewrite forallb_forall in T1. specialize (T1 _ Hb). rewrite forallb_forall in T1.
    specialize (T1 _ Hk). apply Nat.eqb_eq in T1. lia.
  - rewrite (IH (S i0) j os b k T2 Hn Hb Hk). lia.
Qed.

(** *** errors *)
Lemma errs_spec os es : forallb op_no_core_txn os = true ->
  list_eqb Bool.eqb (map (op_err fixed) os) es = true -> forallb2 spec_err os es = true.
Proof.
  revert es. induction os as [|o os IH]; intros [|e es]; cbn; try congruence.
  rewrite !andb_true_iff. intros [Ho Hos] [He Hes]. split; [|now apply IH].
  apply eqb_prop in He. subst e.
  destruct o as [p|ks ao uo|ks|x isnew|x m|x present]; cbn in *; try reflexivity.
  - apply negb_true_iff in Ho. rewrite Ho. reflexivity.
  - destruct m; reflexivity.
  - destruct present; reflexivity.
Qed.

Lemma errs_spec_all ops errs : forallb (forallb op_no_core_txn) ops = true ->
  errs_eqb (map (map (op_err fixed)) ops) errs = true -> forallb2 (forallb2 spec_err) ops errs = true.
Proof.
  unfold errs_eqb. revert errs. induction ops as [|os ops IH]; intros [|es errs]; cbn; try congruence.
  rewrite !andb_true_iff. intros [Ho Hos] [He Hes]. split; [now apply errs_spec | now apply IH].
Qed.

Lemma ack_same d os es : forallb op_no_core_txn os = true ->
  list_eqb Bool.eqb (map (op_err fixed) os) es = true ->
  thread_batches_ack d (os, es) = thread_batches d os.
Proof.
  unfold thread_batches_ack, thread_batches. cbn [fst snd]. intros Hc He. f_equal. revert es He Hc.
  induction os as [|o os IH]; intros [|e es]; cbn; try congruence.
  rewrite !andb_true_iff. intros [He Hes] [Ho Hos]. rewrite (IH es Hes Hos). f_equal.
  apply eqb_prop in He. subst e. unfold ack_batches. cbn [fst snd].
  destruct o as [p|ks ao uo|ks|x isnew|x m|x present]; cbn in *; try reflexivity.
  - apply negb_true_iff in Ho. now rewrite Ho.
  - now destruct m.
  - now destruct present.
Qed.

Lemma ack_same_all d ops errs : forallb (forallb op_no_core_txn) ops = true ->
  errs_eqb (map (map (op_err fixed)) ops) errs = true ->
  map (thread_batches_ack d) (combine ops errs) = map (thread_batches d) ops.
Proof.
  unfold errs_eqb. revert errs. induction ops as [|os ops IH]; intros [|es errs]; cbn [combine map forallb list_eqb]; try congruence.
  rewrite !andb_true_iff. intros [Ho Hos] [He Hes]. rewrite (IH errs Hos Hes), ack_same by assumption. reflexivity.
Qed.

Lemma op_wf_safe o : op_wf fixed o = true -> op_safe fixed o = true.
Proof. intros H. unfold op_safe. now rewrite H. Qed.

Lemma mlist_eqb_eq a b : mlist_eqb a b = true -> a = b.
Proof. apply list_eqb_eq. intros; apply N.eqb_eq. Qed.

(** *** the link theorem *)
Theorem agree_run_fixed_spec forced r :
  run_wf r = true -> agree_run fixed forced r = true -> spec_run r = true.
Proof.
  unfold run_wf, agree_run, spec_run. rewrite !andb_true_iff. intros [Wc Wt] [[[Hwf Herr] Hrun] _].
  set (ps := progs_of fixed r) in *. set (fuel := fuel_of ps) in *.
  destruct (replay fuel (r_trace r) (init_config ps) 0) as [[c k] ok] eqn:R.
  apply andb_true_iff in Hrun. destruct Hrun as [_ Hout].
  assert (Safe : forallb (forallb (op_safe fixed)) (r_ops r) = true).
  { apply forallb_forall. intros os Hos. apply forallb_forall. intros o Ho. apply op_wf_safe.
    pose proof (proj1 (forallb_forall _ _) Hwf _ Hos) as H1. exact (proj1 (forallb_forall _ _) H1 _ Ho). }
  assert (S : steps (init_config ps) (settle fuel c)).
  { eapply steps_trans; [eapply replay_steps; eassumption | apply settle_steps]. }
  set (c' := settle fuel c) in *.
  assert (Ford : Forall (ordered []) ps).
  { apply Forall_map. apply Forall_forall. intros os Hos. rewrite forallb_forall in Safe.
    apply ordered_ops; [reflexivity | auto]. }
  assert (Fg : Forall (guarded []) ps).
  { apply Forall_map. apply Forall_forall. intros os Hos. rewrite forallb_forall in Safe. apply guarded_ops; auto. }
  destruct (r_outcome r) as [|[q|q|]] eqn:Eo; try discriminate.
  2:{ rewrite (never_stuck _ _ Ford S) in Hout. discriminate. }
  rewrite !andb_true_iff in Hout. destruct Hout as [[[[[[T Fm] Sn] Bd] Tm] Lk] Ins].
  repeat split; try assumption; try reflexivity.
  - now apply errs_spec_all.
  - destruct (serializable_terminal _ _ Fg S T) as [L P].
    apply forallb_forall. intros [d f] Hdf. unfold feed_spec. cbn [fst snd].
    destruct (is_ds d) eqn:Hd; [|reflexivity].
    unfold feeds_match in Fm. rewrite forallb_forall in Fm. specialize (Fm _ Hdf). cbn [fst snd] in Fm. apply mlist_eqb_eq in Fm.
    rewrite (ack_same_all d _ _ Wc Herr). rewrite <- Fm, L. apply merge_log.
    + intros e He. rewrite map_length.
      assert (I0 : inv_tid (init_config ps)) by (intros ? []).
      pose proof (steps_inv_tid _ _ I0 S e He) as Lt. rewrite (steps_length _ _ S) in Lt.
      cbn in Lt. unfold ps, progs_of in Lt. now rewrite !map_length in Lt.
    + intros i s Hi. destruct (nth_error (r_ops r) i) as [os|] eqn:Eos.
      * rewrite (map_nth_error _ _ _ Eos) in Hi. injection Hi as <-.
        assert (Hp : nth_error ps i = Some (prog_of_ops fixed os)) by (now apply map_nth_error).
        unfold proj. rewrite (P _ _ Hp). symmetry. apply dproj_ops; [assumption|].
        rewrite forallb_forall in Wc. apply Wc. eapply nth_error_In; eassumption.
      * apply nth_error_None in Eos. assert (length (map (thread_batches d) (r_ops r)) <= i) by (now rewrite map_length).
        apply nth_error_None in H. congruence.
    + intros i s b k0 Hi Hb Hk. destruct (nth_error (r_ops r) i) as [os|] eqn:Eos.
      * rewrite (map_nth_error _ _ _ Eos) in Hi. injection Hi as <-.
        rewrite forallb_forall in Wt. specialize (Wt _ Hdf). cbn [fst] in Wt. rewrite Hd in Wt.
        now rewrite (tags_from_nth _ _ _ _ _ _ _ Wt Eos Hb Hk).
      * apply nth_error_None in Eos. assert (length (map (thread_batches d) (r_ops r)) <= i) by (now rewrite map_length).
        apply nth_error_None in H. congruence.
    + rewrite <- L, Fm. lia.
Qed.

Theorem agree_fixed_spec c : case_wf c = true -> agree fixed c = true -> spec_ok c = true.
Proof.
  unfold case_wf, agree, spec_ok. rewrite !forallb_forall. intros W A r Hr.
  eapply agree_run_fixed_spec; eauto.
Qed.
