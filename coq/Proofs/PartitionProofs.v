(** Proofs about Model/Partition.v (property C10). *)
From Coq Require Import List ZArith Bool Lia.
From DH Require Import Model.Partition.
Import ListNotations.
Open Scope Z_scope.

(** ** ranges *)
Lemma zrange_app a x y : zrange a (x + y) = zrange a x ++ zrange (a + Z.of_nat x) y.
Proof.
  revert a; induction x as [|x IH]; intros a; cbn [zrange Nat.add app].
  - f_equal; lia.
  - rewrite IH. do 3 f_equal. lia.
Qed.

Lemma zrange_length a k : length (zrange a k) = k.
Proof. revert a; induction k as [|k IH]; intros a; cbn; [reflexivity | now rewrite IH]. Qed.

Lemma zrange_In a k x : In x (zrange a k) <-> a <= x < a + Z.of_nat k.
Proof.
  revert a; induction k as [|k IH]; intros a; cbn [zrange In].
  - lia.
  - rewrite IH. lia.
Qed.

Lemma zrange_NoDup a k : NoDup (zrange a k).
Proof.
  revert a; induction k as [|k IH]; intros a; cbn [zrange]; constructor.
  - rewrite zrange_In. lia.
  - apply IH.
Qed.

(** ** consecutive chunk lists: [consec a cs b] = the chunks tile [a,b) *)
Fixpoint consec (a : Z) (cs : list (Z * Z)) (b : Z) : Prop :=
  match cs with
  | [] => a = b
  | c :: cs' => fst c = a /\ a <= snd c /\ consec (snd c) cs' b
  end.

Lemma consec_le a cs b : consec a cs b -> a <= b.
Proof.
  revert a; induction cs as [|c cs IH]; cbn [consec]; intros a H.
  - lia.
  - destruct H as (_ & H1 & H2). apply IH in H2. lia.
Qed.

Lemma consec_covered a cs b : consec a cs b -> covered cs = zrange a (Z.to_nat (b - a)).
Proof.
  revert a; induction cs as [|[f t] cs IH]; cbn [consec fst snd]; intros a H.
  - subst. now rewrite Z.sub_diag.
  - destruct H as (-> & H1 & H2).
    pose proof (consec_le _ _ _ H2) as Hle.
    unfold covered in *. cbn [flat_map]. rewrite (IH _ H2).
    unfold chunk_indices; cbn [fst snd].
    replace (Z.to_nat (b - a)) with (Z.to_nat (t - a) + Z.to_nat (b - t))%nat by lia.
    rewrite zrange_app. do 2 f_equal. lia.
Qed.

Lemma skipn_skipn' {A} (x y : nat) (l : list A) : skipn x (skipn y l) = skipn (y + x) l.
Proof.
  revert l; induction y as [|y IH]; intros l; cbn [Nat.add skipn]; [reflexivity|].
  destruct l as [|h l]; [now rewrite skipn_nil | apply IH].
Qed.

Lemma firstn_plus {A} (x y : nat) (l : list A) :
  firstn (x + y) l = firstn x l ++ firstn y (skipn x l).
Proof.
  revert l; induction x as [|x IH]; intros l; cbn [Nat.add firstn skipn app]; [reflexivity|].
  destruct l as [|h l]; cbn [firstn skipn app]; [now rewrite firstn_nil | now rewrite IH].
Qed.

Lemma consec_slices {E} (page : list E) a cs b :
  0 <= a -> consec a cs b ->
  concat (map (slice page) cs) = slice page (a, b).
Proof.
  revert a; induction cs as [|[f t] cs IH]; cbn [consec fst snd map concat]; intros a Ha H.
  - subst. unfold slice; cbn [fst snd]. now rewrite Z.sub_diag.
  - destruct H as (-> & H1 & H2).
    pose proof (consec_le _ _ _ H2) as Hle.
    rewrite (IH t) by (try lia; assumption).
    unfold slice; cbn [fst snd].
    replace (Z.to_nat (b - a)) with (Z.to_nat (t - a) + Z.to_nat (b - t))%nat by lia.
    rewrite firstn_plus. f_equal.
    rewrite skipn_skipn'. do 2 f_equal. lia.
Qed.

Lemma slice_all {E} (page : list E) :
  slice page (0, Z.of_nat (length page)) = page.
Proof.
  unfold slice; cbn [fst snd]. rewrite Z.sub_0_r, Nat2Z.id. cbn [Z.to_nat skipn].
  apply firstn_all.
Qed.

(** ** the chunk loop *)
Lemma chunk_loop_ceilclip n s k index :
  0 <= s -> 0 <= index -> 0 <= n ->
  exists cs, chunk_loop PCeilClip n s k index = Some cs /\
             consec (Z.min n index) cs (Z.min n (index + Z.of_nat k * s)).
Proof.
  intros Hs; revert index; induction k as [|k IH]; intros index Hi Hn.
  - exists []. cbn [chunk_loop consec]. split; [reflexivity | f_equal; lia].
  - cbn [chunk_loop]. unfold chunk_bounds.
    destruct (n <? index) eqn:E1; destruct (n <=? index + s) eqn:E2;
      apply Z.ltb_lt in E1 || apply Z.ltb_ge in E1;
      apply Z.leb_le in E2 || apply Z.leb_gt in E2; try lia.
    + (* index > n: empty chunk [n,n) *)
      replace ((n <? n) || (n <? n)) with false by (rewrite Z.ltb_irrefl; reflexivity).
      destruct (IH (index + s)) as (cs & -> & Hc); try lia.
      eexists; split; [reflexivity|]. cbn [consec fst snd].
      repeat split; try lia.
      replace (Z.min n (index + s)) with n in Hc by lia.
      replace (Z.min n (index + Z.of_nat (S k) * s)) with (Z.min n (index + s + Z.of_nat k * s)) by lia.
      exact Hc.
    + (* last partial chunk [index,n) *)
      replace ((n <? index) || (n <? index)) with false
        by (symmetry; apply orb_false_intro; apply Z.ltb_ge; lia).
      destruct (IH (index + s)) as (cs & -> & Hc); try lia.
      eexists; split; [reflexivity|]. cbn [consec fst snd].
      repeat split; try lia.
      replace (Z.min n (index + s)) with n in Hc by lia.
      replace (Z.min n (index + Z.of_nat (S k) * s)) with (Z.min n (index + s + Z.of_nat k * s)) by lia.
      exact Hc.
    + (* full chunk [index, index+s) *)
      replace ((index + s <? index) || (n <? index)) with false
        by (symmetry; apply orb_false_intro; apply Z.ltb_ge; lia).
      destruct (IH (index + s)) as (cs & -> & Hc); try lia.
      eexists; split; [reflexivity|]. cbn [consec fst snd].
      repeat split; try lia.
      replace (Z.min n (index + s)) with (index + s) in Hc by lia.
      replace (Z.min n (index + Z.of_nat (S k) * s)) with (Z.min n (index + s + Z.of_nat k * s)) by lia.
      exact Hc.
Qed.

(** the pinned arithmetic: no panic iff every [from] stays <= n *)
Lemma chunk_loop_round_ok n s k index :
  0 <= s -> 0 <= index <= n ->
  index + (Z.of_nat k - 1) * s <= n ->
  exists cs, chunk_loop PRound n s k index = Some cs /\
             consec index cs (Z.min n (index + Z.of_nat k * s)).
Proof.
  intros Hs; revert index; induction k as [|k IH]; intros index Hi Hk.
  - exists []. cbn [chunk_loop consec]. split; [reflexivity | lia].
  - cbn [chunk_loop]. unfold chunk_bounds.
    destruct (n <=? index + s) eqn:E2;
      apply Z.leb_le in E2 || apply Z.leb_gt in E2.
    + replace ((n <? index) || (n <? index)) with false
        by (symmetry; apply orb_false_intro; apply Z.ltb_ge; lia).
      destruct k as [|k].
      * exists [(index, n)]. cbn [chunk_loop]. split; [reflexivity|].
        cbn [consec fst snd]. repeat split; lia.
      * (* a further iteration: its [from] = index+s must still be <= n, hence = n *)
        assert (Hs0 : index + s <= n) by nia.
        destruct (IH (index + s)) as (cs & -> & Hc); try lia.
        eexists; split; [reflexivity|]. cbn [consec fst snd].
        repeat split; try lia.
        replace n with (index + s) at 1 by lia.
        replace (Z.min n (index + Z.of_nat (S (S k)) * s))
          with (Z.min n (index + s + Z.of_nat (S k) * s)) by lia.
        exact Hc.
    + replace ((index + s <? index) || (n <? index)) with false
        by (symmetry; apply orb_false_intro; apply Z.ltb_ge; lia).
      destruct (IH (index + s)) as (cs & -> & Hc); try lia.
      eexists; split; [reflexivity|]. cbn [consec fst snd].
      repeat split; try lia.
      replace (Z.min n (index + Z.of_nat (S k) * s))
        with (Z.min n (index + s + Z.of_nat k * s)) by lia.
      exact Hc.
Qed.

Lemma chunk_loop_round_panic n s k index :
  0 < s -> 0 <= index ->
  n < index + Z.of_nat k * s ->
  chunk_loop PRound n s (S k) index = None.
Proof.
  intros Hs; revert index; induction k as [|k IH]; intros index Hi Hk.
  - cbn [chunk_loop]. unfold chunk_bounds.
    destruct (Z.ltb_spec n index) as [Hlt|Hge]; [|lia].
    rewrite orb_true_r. reflexivity.
  - remember (S k) as k1. cbn [chunk_loop]. unfold chunk_bounds.
    destruct (Z.ltb_spec n index) as [Hlt|Hge].
    + rewrite orb_true_r. reflexivity.
    + rewrite orb_false_r. subst k1.
      destruct (n <=? index + s) eqn:E2;
        apply Z.leb_le in E2 || apply Z.leb_gt in E2.
      * destruct (Z.ltb_spec n index); [lia|].
        rewrite IH; [reflexivity | lia | lia].
      * destruct (Z.ltb_spec (index + s) index); [lia|].
        rewrite IH; [reflexivity | lia | lia].
Qed.

(** ** arithmetic of the two chunk sizes *)
Lemma ceil_div_covers n p : 0 <= n -> 0 < p -> n <= p * ceil_div n p.
Proof. intros Hn Hp. unfold ceil_div. Z.div_mod_to_equations. nia. Qed.

Lemma ceil_div_nonneg n p : 0 <= n -> 0 < p -> 0 <= ceil_div n p.
Proof. intros Hn Hp. unfold ceil_div. apply Z.div_pos; lia. Qed.

Lemma round_div_pos n p : 0 < p -> p <= n -> 0 < round_div n p.
Proof.
  intros Hp Hn. unfold round_div.
  apply Z.div_str_pos. lia.
Qed.

Lemma eff_par_pos n p : 1 <= p -> 1 <= eff_par n p.
Proof. unfold eff_par; destruct (n <? p); lia. Qed.

Lemma eff_par_le n p : 1 <= n -> 1 <= p -> eff_par n p <= n.
Proof. unfold eff_par; destruct (Z.ltb_spec n p); lia. Qed.

(** ** C10: the repaired arithmetic tiles every page exactly *)
Theorem chunks_ceilclip_tile n p :
  1 <= n -> 1 <= p ->
  exists cs, chunks PCeilClip n p = Some cs /\ consec 0 cs n.
Proof.
  intros Hn Hp. unfold chunks.
  pose proof (eff_par_pos n p Hp) as Hpar.
  set (par := eff_par n p) in *.
  cbn [psize_of].
  destruct (chunk_loop_ceilclip n (ceil_div n par) (Z.to_nat par) 0) as (cs & Hcs & Hc);
    try lia.
  { apply ceil_div_nonneg; lia. }
  exists cs; split; [exact Hcs|].
  rewrite Z2Nat.id in Hc by lia.
  pose proof (ceil_div_covers n par ltac:(lia) ltac:(lia)).
  replace (Z.min n 0) with 0 in Hc by lia.
  replace (Z.min n (0 + par * ceil_div n par)) with n in Hc by lia.
  exact Hc.
Qed.

(** ** exact characterisation of the pinned arithmetic (signature of F10a/F10b) *)
Definition round_panics (n p : Z) : bool :=
  let par := eff_par n p in n <? (par - 1) * round_div n par.
Definition round_reach (n p : Z) : Z :=
  let par := eff_par n p in Z.min n (par * round_div n par).

Theorem chunks_round_char n p :
  1 <= n -> 1 <= p ->
  if round_panics n p then chunks PRound n p = None
  else exists cs, chunks PRound n p = Some cs /\ consec 0 cs (round_reach n p).
Proof.
  intros Hn Hp. unfold chunks, round_panics, round_reach.
  pose proof (eff_par_pos n p Hp) as Hpar.
  pose proof (eff_par_le n p Hn Hp) as Hle.
  set (par := eff_par n p) in *.
  cbn [psize_of].
  pose proof (round_div_pos n par ltac:(lia) Hle) as Hs.
  destruct (Z.ltb_spec n ((par - 1) * round_div n par)) as [Hlt|Hge].
  - replace (Z.to_nat par) with (S (Z.to_nat (par - 1))) by lia.
    apply chunk_loop_round_panic; try lia.
    rewrite Z2Nat.id by lia. lia.
  - assert (H0 : 0 + (Z.of_nat (Z.to_nat par) - 1) * round_div n par <= n)
      by (rewrite Z2Nat.id by lia; lia).
    destruct (chunk_loop_round_ok n (round_div n par) (Z.to_nat par) 0
                ltac:(lia) ltac:(lia) H0) as (cs & Hcs & Hc).
    exists cs; split; [exact Hcs|].
    rewrite Z2Nat.id in Hc by lia. exact Hc.
Qed.

(** the pinned arithmetic is right exactly on the lucky pairs *)
Definition round_good (n p : Z) : bool :=
  negb (round_panics n p) && (n <=? eff_par n p * round_div n (eff_par n p)).

Corollary chunks_round_good n p :
  1 <= n -> 1 <= p -> round_good n p = true ->
  exists cs, chunks PRound n p = Some cs /\ consec 0 cs n.
Proof.
  intros Hn Hp Hg. unfold round_good in Hg.
  apply andb_true_iff in Hg as [Hg1 Hg2]. apply negb_true_iff in Hg1.
  pose proof (chunks_round_char n p Hn Hp) as H. rewrite Hg1 in H.
  destruct H as (cs & Hcs & Hc). exists cs; split; [exact Hcs|].
  unfold round_reach in Hc. apply Z.leb_le in Hg2.
  now replace (Z.min n (eff_par n p * round_div n (eff_par n p))) with n in Hc by lia.
Qed.

Corollary chunks_round_bad n p :
  1 <= n -> 1 <= p -> round_good n p = false ->
  chunks PRound n p = None \/
  exists cs r, chunks PRound n p = Some cs /\ consec 0 cs r /\ r < n.
Proof.
  intros Hn Hp Hg. unfold round_good in Hg.
  pose proof (chunks_round_char n p Hn Hp) as H.
  destruct (round_panics n p); [left; exact H|].
  cbn [negb andb] in Hg. apply Z.leb_gt in Hg.
  destruct H as (cs & Hcs & Hc). right. exists cs, (round_reach n p).
  repeat split; try assumption. unfold round_reach. lia.
Qed.

(** ** a tiling partition feeds every entity to the transform exactly once *)
Section Pipeline.
  Context {E : Type}.
  Variable g : E -> list E.            (* a per-entity transform: return / drop / duplicate / create *)
  Definition fmap_g (l : list E) : option (list E) := Some (flat_map g l).

  Lemma collect_fmap (ins : list (list E)) :
    collect (map fmap_g ins) = Some (flat_map g (concat ins)).
  Proof.
    induction ins as [|i ins IH]; cbn [map collect concat]; [reflexivity|].
    unfold fmap_g at 1. rewrite IH. now rewrite flat_map_app.
  Qed.

  Lemma concat_map_flat_map (ps : list (list E)) :
    concat (map (flat_map g) ps) = flat_map g (concat ps).
  Proof.
    induction ps as [|pg ps IH]; cbn [map concat flat_map]; [reflexivity|].
    now rewrite flat_map_app, IH.
  Qed.

  Lemma transform_page_tiled m p (page : list E) cs :
    chunks m (Z.of_nat (length page)) p = Some cs ->
    consec 0 cs (Z.of_nat (length page)) ->
    exists ins, transform_page fmap_g m p page = (ins, SOk (flat_map g page))
                /\ concat ins = page.
  Proof.
    intros Hcs Hc. unfold transform_page. rewrite Hcs.
    assert (Hcat : concat (map (slice page) cs) = page)
      by (rewrite (consec_slices page 0 cs _ ltac:(lia) Hc); apply slice_all).
    exists (map (slice page) cs); split; [|exact Hcat].
    rewrite collect_fmap, Hcat. reflexivity.
  Qed.

  Lemma transform_page_fixed p (page : list E) :
    page <> [] -> 1 <= p ->
    exists ins, transform_page fmap_g PCeilClip p page = (ins, SOk (flat_map g page))
                /\ concat ins = page.
  Proof.
    intros Hne Hp.
    assert (Hn : 1 <= Z.of_nat (length page)) by (destruct page; [congruence | cbn [length]; lia]).
    destruct (chunks_ceilclip_tile _ p Hn Hp) as (cs & Hcs & Hc).
    eapply transform_page_tiled; eassumption.
  Qed.

  Lemma pages_concat b fuel (l : list E) :
    (1 <= b)%nat -> (length l <= fuel)%nat -> concat (pages b fuel l) = l.
  Proof.
    intros Hb; revert l; induction fuel as [|fuel IH]; intros l Hl.
    - destruct l; [reflexivity | cbn in Hl; lia].
    - cbn [pages]. destruct l as [|x l']; [reflexivity|].
      set (l := x :: l') in *. cbn [concat].
      rewrite IH.
      + apply firstn_skipn.
      + rewrite skipn_length. subst l. cbn [length] in *. lia.
  Qed.

  Lemma pages_nonempty b fuel (l : list E) :
    (1 <= b)%nat -> Forall (fun pg => pg <> []) (pages b fuel l).
  Proof.
    intros Hb; revert l; induction fuel as [|fuel IH]; intros l; cbn [pages]; [constructor|].
    destruct l as [|x l']; [constructor|]. constructor; [|apply IH].
    destruct b; [lia|]. cbn [firstn]. discriminate.
  Qed.

  Lemma run_pages_fixed p (ps : list (list E)) :
    1 <= p -> Forall (fun pg => pg <> []) ps ->
    exists ins outs, run_pages fmap_g PCeilClip p ps = (ins, outs, length (concat ps), ROk)
                /\ outs = map (flat_map g) ps /\ concat ins = concat ps.
  Proof.
    intros Hp; induction ps as [|pg ps IH]; intros Hall.
    - exists [], []. cbn. repeat split; reflexivity.
    - inversion Hall as [|? ? Hpg Hrest]; subst.
      destruct (IH Hrest) as (ins' & outs' & Hrun & Houts & Hcat).
      destruct (transform_page_fixed p pg Hpg Hp) as (ins & Ht & Hc).
      exists (ins ++ ins'), (flat_map g pg :: outs'). cbn [run_pages]. rewrite Ht, Hrun. cbn [concat map].
      repeat split.
      + now rewrite app_length.
      + now rewrite Houts.
      + now rewrite concat_app, Hc, Hcat.
  Qed.

  (** C10, whole run: for every source list, batch size >= 1 and parallelism >= 1 *)
  Theorem run_job_fixed p b (src : list E) :
    1 <= p -> (1 <= b)%nat ->
    exists ins outs, run_job fmap_g PCeilClip p b src = (ins, outs, length src, ROk)
                /\ concat outs = flat_map g src   (* what the sink receives, in source order *)
                /\ concat ins = src.              (* what the transform saw: every entity once *)
  Proof.
    intros Hp Hb. unfold run_job.
    destruct (run_pages_fixed p (pages b (length src) src) Hp (pages_nonempty b _ src Hb))
      as (ins & outs & Hrun & Houts & Hcat).
    pose proof (pages_concat b (length src) src Hb (le_n _)) as Hpc.
    rewrite Hpc in Hrun, Hcat.
    exists ins, outs; repeat split; try assumption.
    rewrite Houts, concat_map_flat_map, Hpc. reflexivity.
  Qed.

  (** a second run starts at the token = end of the feed: nothing is read,
      nothing reaches the transform or the sink *)
  Theorem rerun_noop m p b (src : list E) :
    run_job fmap_g m p b (skipn (length src) src) = ([], [], O, ROk).
  Proof. now rewrite skipn_all. Qed.
End Pipeline.

Lemma flat_map_single {E} (l : list E) : flat_map (fun e => [e]) l = l.
Proof. induction l as [|x l IH]; [reflexivity | cbn; now rewrite IH]. Qed.

(** identity transform = plain copy *)
Corollary run_job_identity {E} p b (src : list E) :
  1 <= p -> (1 <= b)%nat ->
  exists ins outs, run_job (fmap_g (fun e => [e])) PCeilClip p b src = (ins, outs, length src, ROk)
              /\ concat outs = src /\ concat ins = src.
Proof.
  intros Hp Hb. destruct (run_job_fixed (fun e => [e]) p b src Hp Hb) as (ins & outs & H & Ho & Hc).
  exists ins, outs; repeat split; try assumption. now rewrite Ho, flat_map_single.
Qed.

(** ** refutations of the pinned arithmetic, by computation *)
Lemma refuted_tail : chunks PRound 11 10 = Some
  [(0,1);(1,2);(2,3);(3,4);(4,5);(5,6);(6,7);(7,8);(8,9);(9,10)].
Proof. vm_compute. reflexivity. Qed.
Lemma refuted_panic : chunks PRound 15 10 = None.
Proof. vm_compute. reflexivity. Qed.
