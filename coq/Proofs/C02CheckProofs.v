(** Link between the store evaluator and the theorems for C02: on well-formed
    cases, agreement with the repaired model IS the executable spec. *)
From Coq Require Import List ZArith NArith Bool Lia.
From DH Require Import Lib.CheckLib Model.Store Model.FeedSpec Model.ReverseReader Proofs.StoreProofs Proofs.StoreReaders Proofs.ReverseProofs Check.StoreCheck.
Import ListNotations.
Open Scope Z_scope.

Definition wf_sop (o : sop) : Prop :=
  match o with
  | SWrite w _ => wf_wop w
  | SChanges _ since _ _ _ _ => 0 <= since
  | SRev _ since _ _ _ => 0 <= since \/ since = from_end
  | _ => True
  end.

Lemma sget_set_same s k f : sget (set_assoc k f s) k = f.
Proof. unfold sget. now rewrite assoc_set_assoc_same. Qed.
Lemma sget_set_other s k k' f : k' <> k -> sget (set_assoc k f s) k' = sget s k'.
Proof. intros H. unfold sget. now rewrite assoc_set_assoc_other. Qed.

Lemma sget_swrite s ds ents k :
  sget (swrite s ds ents) k = fwrite identical (sget s) ds ents k.
Proof.
  unfold swrite, fwrite. destruct (Z.eqb_spec k ds) as [->|Hne].
  - apply sget_set_same.
  - now apply sget_set_other.
Qed.

Lemma sget_sapply s w k : sget (sapply s w) k = fapply identical (sget s) w k.
Proof.
  destruct w as [ds ents|sets]; cbn [sapply fapply]; [apply sget_swrite|].
  revert s k. induction sets as [|[d es] sets IH]; intros s k; cbn [fold_left fst snd]; [reflexivity|].
  rewrite IH. clear IH.
  (* the two folds start from pointwise-equal spec states *)
  assert (Hext : forall (s1 s2 : fspec), (forall x, s1 x = s2 x) -> forall x,
             fold_left (fun s' (p : Z * list ent) => fwrite identical s' (fst p) (snd p)) sets s1 x
             = fold_left (fun s' (p : Z * list ent) => fwrite identical s' (fst p) (snd p)) sets s2 x).
  { clear. induction sets as [|[d es] sets IH]; intros s1 s2 H x; cbn [fold_left]; [apply H|].
    apply IH. intros y. unfold fwrite. cbn [fst snd]. destruct (Z.eqb y d); [now rewrite H | apply H]. }
  apply Hext. intros x. apply sget_swrite.
Qed.

Lemma v_fixed_eqb : content_eqb (fst v_fixed) = identical.
Proof. reflexivity. Qed.

Theorem agree_is_spec_c02_run ops : forall st s,
  sinv st -> (forall ds, feed_of (get_ds st ds) = sget s ds) ->
  Forall wf_sop ops ->
  agree_run v_fixed false proj_c02 st ops = spec_run proj_c02 s ops.
Proof.
  induction ops as [|o ops IH]; intros st s Hinv Habs Hwf; [reflexivity|].
  inversion Hwf as [|? ? Ho Hops]; subst.
  destruct o as [w o_new | ds since limit latest o_ents o_next | ds limits o_pages | id at_ scope merged o_found o_parts o_del | fam o_keys | ds since limit o_ents o_next | id scope o_refs tbl o_props];
    cbn [agree_run spec_run].
  - (* write *)
    destruct (apply_wop_refines (fst v_fixed) st (sget s) w Ho Hinv Habs) as [Hinv' Habs'].
    cbn [snd v_fixed] in *.
    assert (Habs'' : forall ds, feed_of (get_ds (apply_wop (fst v_fixed) DupLocalElseStored st w) ds) = sget (sapply s w) ds).
    { intros ds. rewrite sget_sapply. rewrite <- v_fixed_eqb. apply Habs'. }
    rewrite (IH _ _ Hinv' Habs'' Hops). f_equal.
    destruct w as [ds ents|sets]; [|reflexivity].
    cbn [p_writes proj_c02 negb orb].
    rewrite <- (Habs'' ds), <- (Habs ds). unfold feed_of. rewrite !map_length. reflexivity.
  - (* changes *)
    rewrite (IH _ _ Hinv Habs Hops). f_equal.
    cbn [agree_op spec_op_ok p_changes proj_c02 negb orb].
    pose proof (changes_refines _ (get_ds st ds) since limit latest (Hinv ds) Ho) as Hc.
    rewrite (Habs ds) in Hc.
    destruct (changes (get_ds st ds) since limit latest) as [out next].
    rewrite <- Hc. reflexivity.
  - rewrite (IH _ _ Hinv Habs Hops). reflexivity.
  - rewrite (IH _ _ Hinv Habs Hops). reflexivity.
  - rewrite (IH _ _ Hinv Habs Hops). reflexivity.
  - (* reverse reader *)
    rewrite (IH _ _ Hinv Habs Hops). f_equal.
    cbn [agree_op spec_op_ok p_changes proj_c02 negb orb].
    pose proof (changes_rev_refines _ (get_ds st ds) since limit (Hinv ds) Ho) as Hc.
    rewrite (Habs ds) in Hc.
    destruct (changes_rev (get_ds st ds) since limit) as [out next].
    rewrite <- Hc. reflexivity.
  - rewrite (IH _ _ Hinv Habs Hops). reflexivity.
Qed.

Theorem agree_is_spec_c02 c :
  Forall wf_sop c -> agree v_fixed false proj_c02 c = spec_ok proj_c02 c.
Proof.
  intros Hwf. unfold agree, spec_ok. apply agree_is_spec_c02_run; [apply sinv0 | | exact Hwf].
  intros ds. reflexivity.
Qed.
