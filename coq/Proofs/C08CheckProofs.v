(** The link between the correspondence evaluator of C08 and the theorems: on a well-formed
    case, agreement of the implementation with the repaired model implies the executable spec
    (token safety after every run, convergence after every run that ends OK, an incremental
    re-run with nothing new changes nothing, the sink only holds versions of its sources) on the
    implementation's own observations. *)
From Coq Require Import List ZArith NArith Bool Arith Lia.
From DH Require Import Lib.CheckLib Model.Pipeline Proofs.PipelineProofs.
From DH Require Import Proofs.PipelineProofs2 Check.C08Check.
Import ListNotations.

Lemma zlist_eqb_eq l1 l2 : zlist_eqb l1 l2 = true <-> l1 = l2.
Proof. apply list_eqb_eq. intros; apply Z.eqb_eq. Qed.

Lemma opt_eqb_eq a b : opt_eqb a b = true <-> a = b.
Proof.
  destruct a as [x|], b as [y|]; cbn; try (split; congruence).
  rewrite version_eqb_eq. split; congruence.
Qed.

Lemma view_eqb_cur a b : view_eqb a b = true -> forall i, cur a i = cur b i.
Proof.
  unfold view_eqb. intros H i. rewrite forallb_forall in H.
  destruct (in_dec Z.eq_dec i (ids a ++ ids b)) as [Hi|Hi].
  - now apply opt_eqb_eq, H.
  - assert (Ha : cur a i = None) by (apply cur_none; intros Hc; apply Hi, in_or_app; now left).
    assert (Hb : cur b i = None) by (apply cur_none; intros Hc; apply Hi, in_or_app; now right).
    now rewrite Ha, Hb.
Qed.

Lemma safe1_b_of src t sink view :
  safe1 src t sink -> (forall i, cur sink i = cur view i) -> safe1_b src t view = true.
Proof.
  intros [Hle Hs] Hv. unfold safe1_b. apply andb_true_iff. split; [now apply Nat.leb_le|].
  apply forallb_forall. intros i Hi. apply orb_true_iff.
  destruct (Hs i Hi) as [Hp|He].
  - left. now apply zmem_In.
  - right. apply opt_eqb_eq. now rewrite <- Hv.
Qed.

(** source feeds only grow at the end *)
Definition prefixK (a b : list (list version)) : Prop :=
  length a = length b /\ forall k, exists w, nth k b [] = nth k a [] ++ w.

Lemma prefixK_refl a : prefixK a a.
Proof. split; [reflexivity|]. intros k. exists []. now rewrite app_nil_r. Qed.

Lemma prefixK_trans a b c : prefixK a b -> prefixK b c -> prefixK a c.
Proof.
  intros [L1 H1] [L2 H2]. split; [congruence|]. intros k.
  destruct (H1 k) as (w1 & E1). destruct (H2 k) as (w2 & E2).
  exists (w1 ++ w2). now rewrite E2, E1, app_assoc.
Qed.

Lemma upd_ge {A} k (x : A) l : length l <= k -> upd k x l = l.
Proof.
  revert k. induction l as [|y l IH]; intros [|k] H; cbn in *; try lia; auto. f_equal. apply IH. lia.
Qed.

Lemma step_prefix v st o : prefixK (st_srcs st) (st_srcs (fst (step v st o))).
Proof.
  destruct o as [k es|es| | |r]; cbn [step fst st_srcs]; try apply prefixK_refl.
  - split; [now rewrite upd_length|]. intros j.
    destruct (Nat.lt_ge_cases k (length (st_srcs st))) as [Hk|Hk].
    + destruct (Nat.eq_dec j k) as [->|Hjk].
      * rewrite nth_upd_eq by assumption.
        destruct (ds_write_prefix (weq (vm_eq v)) (vm_dup v) (nth k (st_srcs st) []) es) as (w & -> & _). eauto.
      * rewrite nth_upd_neq by congruence. exists []. now rewrite app_nil_r.
    + rewrite upd_ge by assumption. exists []. now rewrite app_nil_r.
  - destruct (run_any v st r) as [st' o] eqn:H. cbn [fst]. rewrite (run_any_srcs _ _ _ _ _ H).
    apply prefixK_refl.
Qed.

Lemma agree_ops_prefix v c : forall ops present st b stf,
  agree_ops v c present st ops = (b, stf) -> prefixK (st_srcs st) (st_srcs stf).
Proof.
  induction ops as [|o ops IH]; intros present st b stf H; cbn [agree_ops] in H.
  - injection H as _ <-. apply prefixK_refl.
  - pose proof (step_prefix v st (op_of c present o)) as Hp.
    destruct (step v st (op_of c present o)) as [st' out]. cbn [fst] in Hp.
    destruct (agree_ops v c (present_after present o) st' ops) as [rest stf'] eqn:Hr. injection H as _ <-.
    eapply prefixK_trans; [exact Hp | eapply IH; eauto].
Qed.

Lemma forallb3_nth {A B C} (g : A -> B -> C -> bool) da db dc : forall la lb lc,
  length la = length lb -> length lb = length lc ->
  (forall k, k < length la -> g (nth k la da) (nth k lb db) (nth k lc dc) = true) ->
  forallb3 g la lb lc = true.
Proof.
  induction la as [|a la IH]; intros [|b lb] [|c lc] H1 H2 H; cbn [length forallb3] in *;
    try discriminate; try reflexivity.
  apply andb_true_iff. split; [apply (H 0); lia|].
  apply IH; try lia. intros k Hk. apply (H (S k)). lia.
Qed.

Lemma tokpos_code t : tokpos (tok_code t) = asincr t.
Proof. destruct t as [n|]; unfold tokpos; cbn [tok_code asincr]; [lia | reflexivity]. Qed.

Lemma firstn_prefix {A} (a w : list A) : firstn (length a) (a ++ w) = a.
Proof. rewrite firstn_app, firstn_all, Nat.sub_diag. cbn. apply app_nil_r. Qed.

(** one run: the observed state equals the model's, the model's is token-safe *)
Lemma run_safe_spec_of st F r out :
  token_safe st -> prefixK (st_srcs st) F -> run_agree st out r = true ->
  run_safe_spec F r = true.
Proof.
  intros [Hl Hs] [HL HP] Ha. unfold run_agree in Ha.
  apply andb_true_iff in Ha. destruct Ha as [Ha _].
  apply andb_true_iff in Ha. destruct Ha as [Ha Hlens].
  apply andb_true_iff in Ha. destruct Ha as [Ha Hview].
  apply andb_true_iff in Ha. destruct Ha as [_ Htok].
  apply zlist_eqb_eq in Hlens. apply zlist_eqb_eq in Htok.
  pose proof (view_eqb_cur _ _ Hview) as Hv.
  unfold run_safe_spec. rewrite <- Hlens, <- Htok.
  apply (forallb3_nth _ [] (Z.of_nat (length (@nil version))) (tok_code None)).
  - now rewrite map_length.
  - rewrite !map_length. congruence.
  - intros k Hk.
    rewrite (map_nth (fun f : list version => Z.of_nat (length f))), (map_nth tok_code).
    destruct (HP k) as (w & Ew). rewrite Ew, Nat2Z.id, firstn_prefix, tokpos_code.
    apply andb_true_iff. split.
    + apply Z.leb_le. rewrite app_length. lia.
    + apply safe1_b_of with (st_sink st); [apply Hs; lia | exact Hv].
Qed.

(** ** The full spec *)

Lemma view_eqb_of a b : (forall i, cur a i = cur b i) -> view_eqb a b = true.
Proof.
  intros H. unfold view_eqb. apply forallb_forall. intros i _. apply opt_eqb_eq. apply H.
Qed.

Lemma out_code_ok o : out_code o = 0%N -> o = OOk.
Proof. destruct o; cbn; congruence. Qed.

Lemma prefixK_cons x a y F : prefixK (x :: a) (y :: F) -> (exists w, y = x ++ w) /\ prefixK a F.
Proof.
  intros [Hl H]. split; [exact (H 0)|]. split; [cbn in Hl; lia|]. intros k. exact (H (S k)).
Qed.

Lemma cuts_prefix : forall a F, prefixK a F ->
  cuts F (map (fun f : list version => Z.of_nat (length f)) a) = a.
Proof.
  induction a as [|x a IH]; intros [|y F] H; try (destruct H as [Hl _]; cbn in Hl; lia); try reflexivity.
  destruct (prefixK_cons _ _ _ _ H) as ((w & ->) & H'). cbn [map cuts].
  rewrite Nat2Z.id, firstn_prefix, (IH _ H'). reflexivity.
Qed.

Lemma In_nth_srcs (srcs : list (list version)) s : In s srcs -> exists k, k < length srcs /\ nth k srcs [] = s.
Proof. intros H. destruct (In_nth _ _ [] H) as (k & Hk & E). eauto. Qed.

(** what [run_agree] says about the observation of a run *)
Definition obs_of (st : state) (r : trun) : Prop :=
  (forall i, cur (st_sink st) i = cur (tr_sink r) i)
  /\ map tok_code (st_tok st) = tr_tok r
  /\ map (fun f : list version => Z.of_nat (length f)) (st_srcs st) = tr_srclens r
  /\ Z.of_nat (length (st_sink st)) = tr_sinklen r.

Lemma run_agree_obs st out r :
  run_agree st out r = true ->
  obs_of st r /\ exists o, out = Some o /\ out_code o = tr_out r.
Proof.
  unfold run_agree. intros Ha.
  apply andb_true_iff in Ha. destruct Ha as [Ha Hsl].
  apply andb_true_iff in Ha. destruct Ha as [Ha Hlens].
  apply andb_true_iff in Ha. destruct Ha as [Ha Hview].
  apply andb_true_iff in Ha. destruct Ha as [Hout Htok].
  split.
  - split; [now apply view_eqb_cur|]. split; [now apply zlist_eqb_eq|]. split; [now apply zlist_eqb_eq|].
    now apply Z.eqb_eq.
  - destruct out as [o|]; [|discriminate]. exists o. split; [reflexivity|]. now apply N.eqb_eq.
Qed.

Lemma conv_spec_of st F r :
  converged st -> (tr_full r = true -> foreign_deleted st) -> prefixK (st_srcs st) F -> obs_of st r ->
  forallb3 (fun f n tz => conv1_b (firstn (Z.to_nat n) f) tz (tr_sink r)) F (tr_srclens r) (tr_tok r)
  && (if tr_full r then foreign_deleted_b (cuts F (tr_srclens r)) (tr_sink r) else true) = true.
Proof.
  intros [Hl Hc] Hfor Hp (Hv & Htok & Hlens & _). pose proof Hp as [HL HP].
  apply andb_true_iff. split.
  - rewrite <- Hlens, <- Htok.
    apply (forallb3_nth _ [] (Z.of_nat (length (@nil version))) (tok_code None)).
    + now rewrite map_length.
    + rewrite !map_length. congruence.
    + intros k Hk.
      rewrite (map_nth (fun f : list version => Z.of_nat (length f))), (map_nth tok_code).
      destruct (HP k) as (w & Ew). rewrite Ew, Nat2Z.id, firstn_prefix.
      assert (Hk' : k < length (st_srcs st)) by lia.
      destruct (Hc k Hk') as [Ht Hcur]. rewrite Ht. unfold conv1_b. cbn [tok_code].
      apply andb_true_iff. split; [apply Z.eqb_refl|].
      apply forallb_forall. intros i Hi. apply opt_eqb_eq. rewrite <- Hv. now apply Hcur.
  - destruct (tr_full r); [|reflexivity]. specialize (Hfor eq_refl).
    rewrite <- Hlens, (cuts_prefix _ _ Hp). unfold foreign_deleted_b.
    apply forallb_forall. intros i _. rewrite <- Hv.
    destruct (existsb (fun s => zmem i (ids s)) (st_srcs st)) eqn:Ex.
    + destruct (cur (st_sink st) i); reflexivity.
    + assert (Hno : forall k, ~ In i (ids (nth k (st_srcs st) []))).
      { intros k Hin. destruct (Nat.lt_ge_cases k (length (st_srcs st))) as [Hk|Hk].
        - assert (Hx : existsb (fun s => zmem i (ids s)) (st_srcs st) = true).
          { apply existsb_exists. exists (nth k (st_srcs st) []). split; [now apply nth_In | now apply zmem_In]. }
          congruence.
        - rewrite nth_overflow in Hin by assumption. destruct Hin. }
      specialize (Hfor i Hno). destruct (cur (st_sink st) i) as [w|]; [|reflexivity].
      cbn [orb]. exact Hfor.
Qed.

Lemma origin_spec_of owner st F r :
  owned owner (st_srcs st) -> orig owner (st_srcs st) (st_sink st) ->
  prefixK (st_srcs st) F -> obs_of st r -> run_origin_spec F r = true.
Proof.
  intros Hown Ho Hp (Hv & _ & Hlens & _). unfold run_origin_spec.
  rewrite <- Hlens, (cuts_prefix _ _ Hp). apply forallb_forall. intros i _. rewrite <- Hv.
  destruct (cur (st_sink st) i) as [w|] eqn:E; [|reflexivity].
  apply forallb_forall. intros cut Hcut.
  destruct (zmem i (ids cut)) eqn:Z; [|reflexivity]. cbn [negb orb].
  apply zmem_In in Z. destruct (In_nth_srcs _ _ Hcut) as (k & Hk & <-).
  destruct (In_ids_inv _ _ Z) as (x & Hx & Hxi).
  destruct (cur_some _ _ _ E) as [Hwi _].
  assert (Hok : owner (v_id w) = k) by (rewrite Hwi, <- Hxi; now apply Hown).
  apply existsb_exists. exists w. split; [|now apply version_eqb_eq].
  specialize (Ho i w E). unfold okv in Ho. rewrite Hok in Ho. now apply Ho.
Qed.

(** what is known about the state when the previous operation was a run *)
Definition prev_link (shl : bool) (st : state) (prev : option trun) : Prop :=
  match prev with
  | None => True
  | Some p => obs_of st p /\ (tr_out p = 0%N -> at_end (st_srcs st) (st_tok st)) /\ tr_full p && shl = false
  end.

Lemma agree_ops_spec owner n c : forall ops st stf prev last,
  good owner n st -> orig owner (st_srcs st) (st_sink st) ->
  Forall (wf_op owner n) (ops_of c true ops) ->
  agree_ops v_fixed c true st ops = (true, stf) -> prev_link (shl_of c) st prev ->
  spec_ops (shl_of c) (st_srcs stf) prev false true last ops = true.
Proof.
  induction ops as [|o ops IH]; intros st stf prev last Hg Ho Hwf H Hlink; [reflexivity|].
  cbn [agree_ops] in H. cbn [ops_of] in Hwf. inversion Hwf as [|? ? Hwo Hops]; subst.
  assert (Hpres : present_after true o = true) by (destruct o; try reflexivity; destruct Hwo).
  rewrite Hpres in *.
  destruct (step v_fixed st (op_of c true o)) as [st' out] eqn:Hstep.
  destruct (agree_ops v_fixed c true st' ops) as [rest stf'] eqn:Hr.
  injection H as Hb <-. apply andb_true_iff in Hb. destruct Hb as [Hok ->].
  assert (Hg' : good owner n st') by (eapply (step_good owner n v_fixed eq_refl); eauto).
  assert (Ho' : orig owner (st_srcs st') (st_sink st')) by exact (step_orig owner n v_fixed eq_refl st _ st' out Hg Ho Hwo Hstep).
  pose proof (agree_ops_prefix _ _ _ _ _ _ _ Hr) as Hp.
  destruct o as [k es|es|r| |]; cbn [spec_ops].
  - apply (IH st' stf' None); auto; exact I.
  - apply (IH st' stf' None); auto; exact I.
  - cbn [op_of step] in Hstep, Hwo.
    assert (Hem : tr_full r && shl_of c = false).
    { pose proof (proj2 (proj2 (proj2 (proj2 Hwo)))) as E. unfold entities_mode in E.
      cbn [rcfg_of r_full r_sinkhttp r_union r_los] in E. unfold shl_of. now rewrite andb_assoc. }
    unfold run_any in Hstep. rewrite (proj2 (proj2 (proj2 (proj2 Hwo)))) in Hstep.
    destruct (run_job v_fixed st (rcfg_of c true r)) as [st1 o1] eqn:Hrun. injection Hstep as -> <-.
    destruct (run_agree_obs _ _ _ Hok) as (Hobs & o & [= <-] & Hcode).
    assert (Hconv : tr_out r = 0%N -> converged st' /\ (tr_full r = true -> foreign_deleted st')).
    { intros E. rewrite <- Hcode in E. apply out_code_ok in E. subst o1.
      destruct (run_ok_converged owner n v_fixed eq_refl st _ st' Hg Hwo Hrun) as (C & _ & F).
      split; [exact C | exact F]. }
    apply andb_true_iff. split.
    + unfold run_spec. rewrite Hem. cbn [orb andb]. rewrite andb_true_r.
      apply andb_true_iff. split; [apply andb_true_iff; split; [apply andb_true_iff; split|]|].
      * eapply run_safe_spec_of; [apply Hg' | exact Hp | exact Hok].
      * unfold run_conv_spec. destruct (N.eqb (tr_out r) 0) eqn:E0; [|reflexivity].
        apply N.eqb_eq in E0. destruct (Hconv E0) as [C F]. now apply conv_spec_of with st'.
      * unfold run_idem_spec. destruct prev as [p|]; [|reflexivity].
        rewrite (proj2 (proj2 Hlink)). cbn [negb andb].
        destruct (N.eqb (tr_out p) 0 && zlist_eqb (tr_srclens p) (tr_srclens r) && negb (tr_full r)) eqn:Cnd;
          [|reflexivity].
        apply andb_true_iff in Cnd. destruct Cnd as [Cnd Hnf]. apply andb_true_iff in Cnd. destruct Cnd as [Hpo _].
        apply N.eqb_eq in Hpo. apply negb_true_iff in Hnf.
        destruct Hlink as [(Hv1 & Ht1 & _ & Hs1) [Hend _]]. specialize (Hend Hpo).
        destruct (run_idem_any owner n v_fixed st (rcfg_of c true r) Hend (proj1 Hg) Hwo Hnf) as (o2 & Hrun2).
        rewrite Hrun in Hrun2. injection Hrun2 as -> _.
        destruct Hobs as (Hv2 & Ht2 & _ & Hs2).
        apply andb_true_iff. split; [apply andb_true_iff; split|].
        -- apply view_eqb_of. intros i. now rewrite <- Hv1, <- Hv2.
        -- apply zlist_eqb_eq. congruence.
        -- apply Z.eqb_eq. congruence.
      * eapply origin_spec_of; [apply Hg' | exact Ho' | exact Hp | exact Hobs].
    + apply (IH st' stf' (Some r)); auto. split; [exact Hobs|]. split; [|exact Hem].
      intros E. destruct (Hconv E) as [[Hl Hc] _]. split; [exact Hl|]. intros k Hk. now apply Hc.
  - destruct Hwo.
  - apply (IH st' stf' None); auto; exact I.
Qed.

Theorem agree_fixed_spec c :
  wf_case c -> agree v_fixed c = true -> spec_ok c = true.
Proof.
  intros (owner & Hwf) H. unfold agree in H.
  destruct (agree_ops v_fixed c true (init_state (c_members c)) (c_ops c)) as [ok stf] eqn:Ha.
  apply andb_true_iff in H. destruct H as [-> Hsrc].
  assert (E : st_srcs stf = o_srcs c).
  { apply (list_eqb_eq feed_eqb); [|exact Hsrc]. intros x y. apply list_eqb_eq. apply version_eqb_eq. }
  unfold spec_ok. rewrite <- E.
  eapply agree_ops_spec; [apply init_good | apply init_orig | exact Hwf | exact Ha | exact I].
Qed.
