(** The link between the correspondence evaluator of C08 and the theorems: on a well-formed
    case, agreement of the implementation with the repaired model implies the token-safety
    part of the executable spec on the implementation's own observations.

    PARTIAL.  The full statement would be
      [wf_case c -> agree v_fixed c = true -> spec_ok c = true].
    Gaps: (a) [run_conv_spec] after an incremental run that ends OK although a scripted fault
    was armed (it never fired): convergence is proved for fault-free runs (C08_converge) and
    for every completed fullsync (C08_fullsync_complete) only; (b) [run_idem_spec] compares the
    length of the sink's change feed, which [agree] deliberately does not compare (it depends
    on the in-batch duplicate rule of the dataset write, finding F02a of property C02). *)
From Coq Require Import List ZArith NArith Bool Arith Lia.
From DH Require Import Lib.CheckLib Model.Pipeline Proofs.PipelineProofs Check.C08Check.
Import ListNotations.

Lemma zlist_eqb_eq l1 l2 : zlist_eqb l1 l2 = true <-> l1 = l2.
Proof. apply list_eqb_eq. intros; apply Z.eqb_eq. Qed.

Lemma opt_eqb_eq a b : opt_eqb a b = true <-> a = b.
Proof.
  destruct a as [x|], b as [y|]; cbn; try (split; congruence).
  rewrite version_eqb_eq. split; congruence.
Qed.

Lemma view_eqb_cur a b : view_eqb a b = true -> forall i, cur a i = cur b i.
Proof.
  unfold view_eqb. intros H i. rewrite forallb_forall in H.
  destruct (in_dec Z.eq_dec i (ids a ++ ids b)) as [Hi|Hi].
  - now apply opt_eqb_eq, H.
  - assert (Ha : cur a i = None) by (apply cur_none; intros Hc; apply Hi, in_or_app; now left).
    assert (Hb : cur b i = None) by (apply cur_none; intros Hc; apply Hi, in_or_app; now right).
    now rewrite Ha, Hb.
Qed.

Lemma safe1_b_of src t sink view :
  safe1 src t sink -> (forall i, cur sink i = cur view i) -> safe1_b src t view = true.
Proof.
  intros [Hle Hs] Hv. unfold safe1_b. apply andb_true_iff. split; [now apply Nat.leb_le|].
  apply forallb_forall. intros i Hi. apply orb_true_iff.
  destruct (Hs i Hi) as [Hp|He].
  - left. now apply zmem_In.
  - right. apply opt_eqb_eq. now rewrite <- Hv.
Qed.

(** source feeds only grow at the end *)
Definition prefixK (a b : list (list version)) : Prop :=
  length a = length b /\ forall k, exists w, nth k b [] = nth k a [] ++ w.

Lemma prefixK_refl a : prefixK a a.
Proof. split; [reflexivity|]. intros k. exists []. now rewrite app_nil_r. Qed.

Lemma prefixK_trans a b c : prefixK a b -> prefixK b c -> prefixK a c.
Proof.
  intros [L1 H1] [L2 H2]. split; [congruence|]. intros k.
  destruct (H1 k) as (w1 & E1). destruct (H2 k) as (w2 & E2).
  exists (w1 ++ w2). now rewrite E2, E1, app_assoc.
Qed.

Lemma upd_ge {A} k (x : A) l : length l <= k -> upd k x l = l.
Proof.
  revert k. induction l as [|y l IH]; intros [|k] H; cbn in *; try lia; auto. f_equal. apply IH. lia.
Qed.

Lemma step_prefix v st o : prefixK (st_srcs st) (st_srcs (fst (step v st o))).
Proof.
  destruct o as [k es|es|r]; cbn [step fst st_srcs].
  - split; [now rewrite upd_length|]. intros j.
    destruct (Nat.lt_ge_cases k (length (st_srcs st))) as [Hk|Hk].
    + destruct (Nat.eq_dec j k) as [->|Hjk].
      * rewrite nth_upd_eq by assumption.
        destruct (ds_write_prefix (weq (vm_eq v)) (vm_dup v) (nth k (st_srcs st) []) es) as (w & -> & _). eauto.
      * rewrite nth_upd_neq by congruence. exists []. now rewrite app_nil_r.
    + rewrite upd_ge by assumption. exists []. now rewrite app_nil_r.
  - apply prefixK_refl.
  - destruct (run_job v st r) as [st' o] eqn:H. cbn [fst]. rewrite (run_srcs _ _ _ _ _ H).
    apply prefixK_refl.
Qed.

Lemma agree_ops_prefix v c : forall ops st b stf,
  agree_ops v c st ops = (b, stf) -> prefixK (st_srcs st) (st_srcs stf).
Proof.
  induction ops as [|o ops IH]; intros st b stf H; cbn [agree_ops] in H.
  - injection H as _ <-. apply prefixK_refl.
  - pose proof (step_prefix v st (op_of c o)) as Hp.
    destruct (step v st (op_of c o)) as [st' out]. cbn [fst] in Hp.
    destruct (agree_ops v c st' ops) as [rest stf'] eqn:Hr. injection H as _ <-.
    eapply prefixK_trans; [exact Hp | eapply IH; eauto].
Qed.

Lemma forallb3_nth {A B C} (g : A -> B -> C -> bool) da db dc : forall la lb lc,
  length la = length lb -> length lb = length lc ->
  (forall k, k < length la -> g (nth k la da) (nth k lb db) (nth k lc dc) = true) ->
  forallb3 g la lb lc = true.
Proof.
  induction la as [|a la IH]; intros [|b lb] [|c lc] H1 H2 H; cbn [length forallb3] in *;
    try discriminate; try reflexivity.
  apply andb_true_iff. split; [apply (H 0); lia|].
  apply IH; try lia. intros k Hk. apply (H (S k)). lia.
Qed.

Lemma tokpos_code t : tokpos (tok_code t) = asincr t.
Proof. destruct t as [n|]; unfold tokpos; cbn [tok_code asincr]; [lia | reflexivity]. Qed.

Lemma firstn_prefix {A} (a w : list A) : firstn (length a) (a ++ w) = a.
Proof. rewrite firstn_app, firstn_all, Nat.sub_diag. cbn. apply app_nil_r. Qed.

(** one run: the observed state equals the model's, the model's is token-safe *)
Lemma run_safe_spec_of st F r out :
  token_safe st -> prefixK (st_srcs st) F -> run_agree st out r = true ->
  run_safe_spec F r = true.
Proof.
  intros [Hl Hs] [HL HP] Ha. unfold run_agree in Ha.
  apply andb_true_iff in Ha. destruct Ha as [Ha Hlens].
  apply andb_true_iff in Ha. destruct Ha as [Ha Hview].
  apply andb_true_iff in Ha. destruct Ha as [_ Htok].
  apply zlist_eqb_eq in Hlens. apply zlist_eqb_eq in Htok.
  pose proof (view_eqb_cur _ _ Hview) as Hv.
  unfold run_safe_spec. rewrite <- Hlens, <- Htok.
  apply (forallb3_nth _ [] (Z.of_nat (length (@nil version))) (tok_code None)).
  - now rewrite map_length.
  - rewrite !map_length. congruence.
  - intros k Hk.
    rewrite (map_nth (fun f : list version => Z.of_nat (length f))), (map_nth tok_code).
    destruct (HP k) as (w & Ew). rewrite Ew, Nat2Z.id, firstn_prefix, tokpos_code.
    apply andb_true_iff. split.
    + apply Z.leb_le. rewrite app_length. lia.
    + apply safe1_b_of with (st_sink st); [apply Hs; lia | exact Hv].
Qed.

Lemma agree_ops_safe owner n c : forall ops st stf,
  good owner n st -> Forall (wf_op owner n) (map (op_of c) ops) ->
  agree_ops v_fixed c st ops = (true, stf) ->
  spec_safe_ops (st_srcs stf) ops = true.
Proof.
  induction ops as [|o ops IH]; intros st stf Hg Hwf H; [reflexivity|].
  cbn [agree_ops] in H. cbn [map] in Hwf. inversion Hwf as [|? ? Ho Hops]; subst.
  destruct (step v_fixed st (op_of c o)) as [st' out] eqn:Hstep.
  destruct (agree_ops v_fixed c st' ops) as [rest stf'] eqn:Hr.
  injection H as Hb <-. apply andb_true_iff in Hb. destruct Hb as [Hok ->].
  assert (Hg' : good owner n st').
  { eapply (step_good owner n v_fixed eq_refl); eauto. }
  pose proof (agree_ops_prefix _ _ _ _ _ _ Hr) as Hp.
  specialize (IH _ _ Hg' Hops Hr).
  destruct o as [k es|es|r]; cbn [spec_safe_ops]; try exact IH.
  apply andb_true_iff. split; [|exact IH].
  eapply run_safe_spec_of; [apply Hg' | exact Hp | exact Hok].
Qed.

Theorem agree_fixed_spec_partial c :
  wf_case c -> agree v_fixed c = true -> spec_safe c = true.
Proof.
  intros (owner & Hwf) H. unfold agree in H.
  destruct (agree_ops v_fixed c (init_state (c_members c)) (c_ops c)) as [ok stf] eqn:Ha.
  apply andb_true_iff in H. destruct H as [-> Hsrc].
  assert (E : st_srcs stf = o_srcs c).
  { apply (list_eqb_eq feed_eqb); [|exact Hsrc]. intros x y. apply list_eqb_eq. apply version_eqb_eq. }
  unfold spec_safe. rewrite <- E.
  eapply agree_ops_safe; [apply init_good | exact Hwf | exact Ha].
Qed.
