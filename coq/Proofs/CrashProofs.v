(** Proofs about Model/Crash.v (property C04): whatever the crash position, the recovered data is
    that of the history without the interrupted write or with it, the invariant holds, change
    positions and internal ids never go backwards, and the items counter lags exactly in the window
    between the data commit and updateDataset. *)
From Coq Require Import List ZArith Bool Lia.
From DH Require Import Model.Store Model.Crash Proofs.StoreProofs Proofs.CrashStore.
Import ListNotations.
Open Scope Z_scope.

(** ** generic list facts *)
Lemma firstn_cases {A} k (P : list A) a b (Q : list A) :
  ((k <= length P)%nat /\ firstn k (P ++ a :: b :: Q) = firstn k P)
  \/ (k = S (length P) /\ firstn k (P ++ a :: b :: Q) = P ++ [a])
  \/ ((k >= S (S (length P)))%nat /\ firstn k (P ++ a :: b :: Q) = P ++ a :: b :: firstn (k - S (S (length P))) Q).
Proof.
  rewrite firstn_app.
  destruct (le_lt_dec k (length P)) as [Hle|Hlt].
  - left. split; [exact Hle|]. replace (k - length P)%nat with O by lia. cbn. now rewrite app_nil_r.
  - rewrite (firstn_all2 P) by lia.
    destruct (k - length P)%nat as [|[|m]] eqn:E; [lia| |].
    + right; left. split; [lia|]. reflexivity.
    + right; right. split; [lia|]. cbn [firstn]. replace (k - S (S (length P)))%nat with m by lia. reflexivity.
Qed.

Lemma Forall_firstn {A} (P : A -> Prop) k l : Forall P l -> Forall P (firstn k l).
Proof.
  intros H. rewrite <- (firstn_skipn k l) in H. now apply Forall_app in H.
Qed.

Lemma Forall_repeat {A} (P : A -> Prop) x n : P x -> Forall P (repeat x n).
Proof. intros H. induction n; cbn; constructor; assumption. Qed.

(** ** classification of the durable steps *)
Definition is_data (s : dstep) : Prop := match s with SCommitData _ _ _ => True | _ => False end.
Definition seq_only (s : dstep) : Prop :=
  match s with SLeaseDs _ | SLeaseId | SReleaseDs _ _ => True | _ => False end.
Definition counter_only (s : dstep) : Prop := match s with SCounter _ _ => True | _ => False end.

Lemma data_with_next d n : data_of (with_next d n) = data_of d.
Proof. reflexivity. Qed.

(** no step but the data commit touches version records, change entries or latest pointers *)
Lemma apply_step_data c s ds : ~ is_data s ->
  data_of (get_ds (cs_store (apply_step c s)) ds) = data_of (get_ds (cs_store c) ds).
Proof.
  destruct s as [k| |k n|asg|clk sets cnt|k n]; cbn [apply_step is_data with_store cs_store]; intros H; try reflexivity.
  - destruct (Z.eq_dec ds k) as [->|Hne]; [now rewrite get_set_same | now rewrite get_set_other].
  - destruct (Z.eq_dec ds k) as [->|Hne]; [now rewrite get_set_same | now rewrite get_set_other].
  - tauto.
Qed.

Lemma apply_steps_data l : forall c ds, Forall (fun s => ~ is_data s) l ->
  data_of (get_ds (cs_store (apply_steps c l)) ds) = data_of (get_ds (cs_store c) ds).
Proof.
  induction l as [|s l IH]; intros c ds H; [reflexivity|].
  inversion H; subst. cbn [apply_steps fold_left]. fold (apply_steps (apply_step c s) l).
  rewrite IH by assumption. now apply apply_step_data.
Qed.

Lemma apply_steps_app c l1 l2 : apply_steps c (l1 ++ l2) = apply_steps (apply_steps c l1) l2.
Proof. apply fold_left_app. Qed.

Lemma seq_only_not_data s : seq_only s -> ~ is_data s.
Proof. destruct s; cbn; tauto. Qed.
Lemma counter_only_not_data s : counter_only s -> ~ is_data s.
Proof. destruct s; cbn; tauto. Qed.

(** the data commit installs the data of [st'] in every dataset it names, and nothing else *)
Lemma commit_fold_data (st' : store) sets : forall s0 ds,
  data_of (get_ds (fold_left (fun s (p : Z * dstate) => set_ds s (fst p) (with_data (get_ds s (fst p)) (snd p)))
                             (map (fun p : Z * list ent => (fst p, get_ds st' (fst p))) sets) s0) ds)
  = if in_dec Z.eq_dec ds (map fst sets) then data_of (get_ds st' ds) else data_of (get_ds s0 ds).
Proof.
  induction sets as [|[k es] sets IH]; intros s0 ds; cbn [map fold_left fst snd]; [reflexivity|].
  rewrite IH. cbn [map fst].
  destruct (in_dec Z.eq_dec ds (map fst sets)) as [Hin|Hn];
    destruct (in_dec Z.eq_dec ds (k :: map fst sets)) as [Hin'|Hn']; try reflexivity.
  - exfalso. apply Hn'. now right.
  - destruct Hin' as [<-|Hin']; [|contradiction]. now rewrite get_set_same.
  - rewrite get_set_other; [reflexivity|]. intros ->. apply Hn'. now left.
Qed.

Lemma commit_fold_next (st' : store) sets : forall s0 ds,
  d_next (get_ds (fold_left (fun s (p : Z * dstate) => set_ds s (fst p) (with_data (get_ds s (fst p)) (snd p)))
                            (map (fun p : Z * list ent => (fst p, get_ds st' (fst p))) sets) s0) ds)
  = d_next (get_ds s0 ds).
Proof.
  induction sets as [|[k es] sets IH]; intros s0 ds; cbn [map fold_left fst snd]; [reflexivity|].
  rewrite IH. destruct (Z.eq_dec ds k) as [->|Hne]; [now rewrite get_set_same | now rewrite get_set_other].
Qed.

(** ** the shape of the step list of a write *)
Section Steps.
Variable cm : counter_mode.
Variable fl : eqflags.
Variable dm : dup_mode.

Definition v0 (c : cstate) : vst := {| v_next := cs_next c; v_leased := cs_idp c; v_asg := [] |}.
Definition st'_of (c : cstate) (o : wop) : store := apply_wop fl dm (cs_store c) o.
Definition pre_pair (c : cstate) (o : wop) : list dstep * vst :=
  pre_steps (cs_ids c) (cs_store c) (st'_of c o) (op_sets o) (v0 c).
Definition pre_of c o := fst (pre_pair c o).
Definition vfin c o := snd (pre_pair c o).
Definition cnt_of (c : cstate) (o : wop) := counts (cs_store c) (op_sets o).
Definition data_step (c : cstate) (o : wop) : dstep :=
  SCommitData (s_clock (st'_of c o)) (map (fun p : Z * list ent => (fst p, get_ds (st'_of c o) (fst p))) (op_sets o))
              (match cm with CounterInData => cnt_of c o | CounterSeparate => [] end).
Definition post_of (c : cstate) (o : wop) : list dstep :=
  match cm with CounterSeparate => map (fun p : Z * Z => SCounter (fst p) (snd p)) (cnt_of c o) | CounterInData => [] end.

Lemma steps_eq c o :
  steps cm fl dm c o = (pre_of c o ++ SCommitIds (v_asg (vfin c o)) :: data_step c o :: post_of c o, v_next (vfin c o)).
Proof.
  unfold steps, pre_of, vfin, pre_pair, st'_of, data_step, post_of, cnt_of, v0.
  destruct (pre_steps _ _ _ _ _) as [pre v]. reflexivity.
Qed.

Lemma commit_index_eq c o : commit_index cm fl dm c o = S (length (pre_of c o)).
Proof.
  unfold commit_index, pre_of, pre_pair, st'_of, v0. destruct (pre_steps _ _ _ _ _) as [pre v]. reflexivity.
Qed.

Lemma share_seq_only ids d d' ds ents v : Forall seq_only (fst (share_steps ids d d' ds ents v)).
Proof.
  unfold share_steps. cbn [fst]. repeat (apply Forall_app; split).
  - apply Forall_repeat. exact I.
  - apply Forall_repeat. exact I.
  - repeat constructor.
Qed.

Lemma pre_seq_only ids st st' sets : forall v, Forall seq_only (fst (pre_steps ids st st' sets v)).
Proof.
  induction sets as [|[ds ents] sets IH]; intros v; cbn [pre_steps]; [constructor|].
  pose proof (share_seq_only ids (get_ds st ds) (get_ds st' ds) ds ents v) as H1.
  destruct (share_steps _ _ _ _ _ _) as [l1 v1]. specialize (IH v1).
  destruct (pre_steps _ _ _ _ v1) as [l2 v2]. cbn [fst] in *. apply Forall_app; split; assumption.
Qed.

Lemma post_counter_only c o : Forall counter_only (post_of c o).
Proof.
  unfold post_of. destruct cm; [|constructor]. apply Forall_forall. intros s Hs.
  apply in_map_iff in Hs. destruct Hs as [p [<- _]]. exact I.
Qed.

(** *** C04_atomic, data part: crash after [k] steps of a write *)
Theorem crash_data c o k :
  let r := crash_at cm fl dm k c o in
  ((k <= commit_index cm fl dm c o)%nat -> data_eq (cs_store r) (cs_store c))
  /\ ((k > commit_index cm fl dm c o)%nat -> data_eq (cs_store r) (apply_wop fl dm (cs_store c) o)).
Proof.
  cbv zeta. unfold crash_at. rewrite steps_eq, commit_index_eq. cbn [fst].
  pose proof (pre_seq_only (cs_ids c) (cs_store c) (st'_of c o) (op_sets o) (v0 c)) as Hpre.
  fold (pre_pair c o) in Hpre. fold (pre_of c o) in Hpre.
  assert (Hpre' : Forall (fun s => ~ is_data s) (pre_of c o)).
  { eapply Forall_impl; [|exact Hpre]. apply seq_only_not_data. }
  destruct (firstn_cases k (pre_of c o) (SCommitIds (v_asg (vfin c o))) (data_step c o) (post_of c o))
    as [[Hk ->]|[[Hk ->]|[Hk ->]]]; (split; [intros Hle | intros Hgt]); try lia; intros ds; cbn [reopen cs_store].
  - apply apply_steps_data. now apply Forall_firstn.
  - apply apply_steps_data. apply Forall_app; split; [exact Hpre' | repeat constructor; cbn; tauto].
  - change (pre_of c o ++ SCommitIds (v_asg (vfin c o)) :: data_step c o :: firstn (k - S (S (length (pre_of c o)))) (post_of c o))
      with (pre_of c o ++ [SCommitIds (v_asg (vfin c o))] ++ [data_step c o] ++ firstn (k - S (S (length (pre_of c o)))) (post_of c o)).
    rewrite !apply_steps_app.
    rewrite apply_steps_data.
    2:{ apply Forall_firstn. eapply Forall_impl; [|apply post_counter_only]. apply counter_only_not_data. }
    set (c1 := apply_steps (apply_steps c (pre_of c o)) [SCommitIds (v_asg (vfin c o))]).
    assert (Hc1 : forall x, data_of (get_ds (cs_store c1) x) = data_of (get_ds (cs_store c) x)).
    { intros x. subst c1. rewrite <- apply_steps_app. apply apply_steps_data.
      apply Forall_app; split; [exact Hpre' | repeat constructor; cbn; tauto]. }
    unfold data_step. cbn [apply_steps fold_left apply_step cs_store].
    unfold get_ds at 1. cbn [s_ds].
    change (data_of (get_ds (fold_left (fun s (p : Z * dstate) => set_ds s (fst p) (with_data (get_ds s (fst p)) (snd p)))
                                       (map (fun p : Z * list ent => (fst p, get_ds (st'_of c o) (fst p))) (op_sets o)) (cs_store c1)) ds)
            = data_of (get_ds (apply_wop fl dm (cs_store c) o) ds)).
    rewrite commit_fold_data.
    destruct (in_dec Z.eq_dec ds (map fst (op_sets o))) as [Hin|Hn]; [reflexivity|].
    rewrite Hc1. unfold st'_of. change (op_sets o) with (wsets o) in Hn.
    now rewrite apply_wop_untouched.
Qed.
End Steps.

(** ** effects of the sequence-only steps *)
Lemma dstate_ext (a b : dstate) :
  d_entries a = d_entries b -> d_latest a = d_latest b -> d_next a = d_next b -> a = b.
Proof. destruct a, b; cbn; intros; subst; reflexivity. Qed.

Definition names (s : dstep) (ds : Z) : Prop :=
  match s with SLeaseDs k | SReleaseDs k _ => k = ds | _ => False end.

Lemma seq_step_other c s ds : seq_only s -> ~ names s ds ->
  get_ds (cs_store (apply_step c s)) ds = get_ds (cs_store c) ds.
Proof.
  destruct s as [k| |k n| | |]; cbn [seq_only names apply_step with_store cs_store]; intros Hs Hn; try tauto; try reflexivity.
  - apply get_set_other. intros ->. now apply Hn.
  - apply get_set_other. intros ->. now apply Hn.
Qed.

Lemma seq_steps_other l : forall c ds, Forall seq_only l -> Forall (fun s => ~ names s ds) l ->
  get_ds (cs_store (apply_steps c l)) ds = get_ds (cs_store c) ds.
Proof.
  induction l as [|s l IH]; intros c ds H1 H2; [reflexivity|].
  inversion H1; inversion H2; subst. cbn [apply_steps fold_left]. fold (apply_steps (apply_step c s) l).
  rewrite IH by assumption. now apply seq_step_other.
Qed.

(** fields the sequence-only steps leave alone *)
Lemma seq_step_fields c s : seq_only s ->
  cs_ids (apply_step c s) = cs_ids c /\ cs_items (apply_step c s) = cs_items c /\ cs_next (apply_step c s) = cs_next c
  /\ s_clock (cs_store (apply_step c s)) = s_clock (cs_store c) /\ cs_idp c <= cs_idp (apply_step c s).
Proof.
  destruct s; cbn [seq_only apply_step with_store cs_ids cs_items cs_next cs_store cs_idp set_ds s_clock]; intros H; try tauto;
    repeat split; try reflexivity; unfold bandwidth; lia.
Qed.

Lemma seq_steps_fields l : forall c, Forall seq_only l ->
  cs_ids (apply_steps c l) = cs_ids c /\ cs_items (apply_steps c l) = cs_items c /\ cs_next (apply_steps c l) = cs_next c
  /\ s_clock (cs_store (apply_steps c l)) = s_clock (cs_store c) /\ cs_idp c <= cs_idp (apply_steps c l).
Proof.
  induction l as [|s l IH]; intros c H; [repeat split; reflexivity || lia|].
  inversion H; subst. cbn [apply_steps fold_left]. fold (apply_steps (apply_step c s) l).
  destruct (IH (apply_step c s) ltac:(assumption)) as (A & B & C & D & E).
  destruct (seq_step_fields c s ltac:(assumption)) as (A' & B' & C' & D' & E').
  repeat split; try congruence. lia.
Qed.

(** a release never goes below the position the write started from *)
Definition rel_ok (st : store) (s : dstep) : Prop :=
  match s with SReleaseDs ds n => d_next (get_ds st ds) <= n | _ => True end.

Lemma seq_step_next_mono st c s : seq_only s -> rel_ok st s ->
  (forall ds, d_next (get_ds st ds) <= d_next (get_ds (cs_store c) ds)) ->
  forall ds, d_next (get_ds st ds) <= d_next (get_ds (cs_store (apply_step c s)) ds).
Proof.
  intros Hs Hr H ds.
  destruct s as [k| |k n| | |]; cbn [seq_only rel_ok apply_step with_store cs_store] in *; try tauto; try apply H.
  - destruct (Z.eq_dec ds k) as [->|Hne]; [rewrite get_set_same | rewrite get_set_other by assumption; apply H].
    cbn [with_next d_next]. specialize (H k). unfold bandwidth. lia.
  - destruct (Z.eq_dec ds k) as [->|Hne]; [rewrite get_set_same | rewrite get_set_other by assumption; apply H].
    cbn [with_next d_next]. exact Hr.
Qed.

Lemma seq_steps_next_mono st l : forall c, Forall seq_only l -> Forall (rel_ok st) l ->
  (forall ds, d_next (get_ds st ds) <= d_next (get_ds (cs_store c) ds)) ->
  forall ds, d_next (get_ds st ds) <= d_next (get_ds (cs_store (apply_steps c l)) ds).
Proof.
  induction l as [|s l IH]; intros c H1 H2 H; [exact H|].
  inversion H1; inversion H2; subst. cbn [apply_steps fold_left]. fold (apply_steps (apply_step c s) l).
  apply IH; try assumption. now apply seq_step_next_mono.
Qed.

(** ** arithmetic of lease renewals *)
Lemma renewals_enough avail n : 0 <= avail -> n <= avail + bandwidth * Z.of_nat (renewals avail n).
Proof.
  intros Ha. unfold renewals, bandwidth. destruct (Z.leb_spec n avail) as [Hle|Hgt]; [cbn; lia|].
  rewrite Z2Nat.id by (apply Z.div_pos; lia).
  pose proof (Z.div_mod (n - avail + 1000 - 1) 1000 ltac:(lia)) as Hd.
  pose proof (Z.mod_pos_bound (n - avail + 1000 - 1) 1000 ltac:(lia)) as Hm. lia.
Qed.

(** ** the ids a write assigns *)
Lemma zseq_from_length a n : length (zseq_from a n) = n.
Proof. revert a; induction n; intros a; cbn; [reflexivity | now rewrite IHn]. Qed.

Lemma zseq_from_In a n x : In x (zseq_from a n) <-> a <= x < a + Z.of_nat n.
Proof.
  revert a; induction n as [|n IH]; intros a; cbn [zseq_from In]; [lia|]. rewrite IH. lia.
Qed.

Lemma zseq_from_nodup a n : NoDup (zseq_from a n).
Proof.
  revert a; induction n as [|n IH]; intros a; cbn [zseq_from]; constructor; [|apply IH].
  rewrite zseq_from_In. lia.
Qed.

Lemma zseq_from_app a n m : zseq_from a (n + m) = zseq_from a n ++ zseq_from (a + Z.of_nat n) m.
Proof.
  revert a; induction n as [|n IH]; intros a; cbn [zseq_from Nat.add app].
  - f_equal; lia.
  - rewrite IH. do 3 f_equal. lia.
Qed.

Lemma combine_fst {A B} (a : list A) : forall (b : list B), length a = length b -> map fst (combine a b) = a.
Proof. induction a as [|x a IH]; intros [|y b] H; cbn in *; try discriminate; [reflexivity|]. f_equal. apply IH. lia. Qed.
Lemma combine_snd {A B} (a : list A) : forall (b : list B), length a = length b -> map snd (combine a b) = b.
Proof. induction a as [|x a IH]; intros [|y b] H; cbn in *; try discriminate; [reflexivity|]. f_equal. apply IH. lia. Qed.

Lemma existsb_eqb_In x l : existsb (Z.eqb x) l = true <-> In x l.
Proof.
  rewrite existsb_exists. split.
  - intros [y [Hy He]]. apply Z.eqb_eq in He. now subst.
  - intros H. exists x. split; [assumption | apply Z.eqb_refl].
Qed.

Lemma dedup_spec l : forall seen,
  NoDup (dedup l seen) /\ forall x, In x (dedup l seen) -> In x l /\ ~ In x seen.
Proof.
  induction l as [|y l IH]; intros seen; cbn [dedup]; [split; [constructor | intros x []]|].
  destruct (existsb (Z.eqb y) seen) eqn:E.
  - destruct (IH seen) as [H1 H2]. split; [exact H1|]. intros x Hx. destruct (H2 x Hx). split; [now right | assumption].
  - destruct (IH (y :: seen)) as [H1 H2]. split.
    + constructor; [|exact H1]. intros Hy. destruct (H2 y Hy) as [_ Hn]. apply Hn. now left.
    + intros x [<-|Hx].
      * split; [now left|]. intros Hin. apply existsb_eqb_In in Hin. congruence.
      * destruct (H2 x Hx) as [Ha Hb]. split; [now right|]. intros Hin. apply Hb. now right.
Qed.

Lemma nodup_app {A} (l1 l2 : list A) :
  NoDup l1 -> NoDup l2 -> (forall x, In x l1 -> ~ In x l2) -> NoDup (l1 ++ l2).
Proof.
  induction l1 as [|x l1 IH]; cbn [app]; intros H1 H2 H; [exact H2|].
  inversion H1; subst. constructor.
  - rewrite in_app_iff. intros [Hx|Hx]; [contradiction | exact (H x (or_introl eq_refl) Hx)].
  - apply IH; try assumption. intros y Hy. apply H. now right.
Qed.

Lemma known_false_notin ids u : known ids u = false <-> ~ In u (map fst ids).
Proof.
  unfold known. induction ids as [|[k v] ids IH]; cbn [assoc map fst In]; [split; [tauto | reflexivity]|].
  destruct (Z.eqb_spec u k) as [->|Hne].
  - split; [discriminate | intros H; exfalso; apply H; now left].
  - rewrite IH. split; [intros H [Heq|Hin]; [congruence | contradiction] | tauto].
Qed.

Record vinv (ids : list (uri * Z)) (n0 : Z) (v : vst) : Prop := {
  vi_next : v_next v = n0 + Z.of_nat (length (v_asg v));
  vi_snd : map snd (v_asg v) = zseq_from n0 (length (v_asg v));
  vi_nodup : NoDup (map fst (v_asg v));
  vi_unknown : forall u, In u (map fst (v_asg v)) -> known ids u = false;
  vi_le : v_next v <= v_leased v
}.

Lemma share_vinv ids n0 d d' ds ents v :
  vinv ids n0 v -> vinv ids n0 (snd (share_steps ids d d' ds ents v)).
Proof.
  intros [Hn Hs Hnd Hu Hle]. unfold share_steps. cbn [snd].
  set (uris := share_uris ids d (pending d d') ents (map fst (v_asg v))).
  set (fresh := dedup (filter (fun u => negb (known ids u)) uris) (map fst (v_asg v))).
  destruct (dedup_spec (filter (fun u => negb (known ids u)) uris) (map fst (v_asg v))) as [Hfn Hfs]. fold fresh in Hfn, Hfs.
  assert (Hlen : length fresh = length (zseq_from (v_next v) (length fresh))) by now rewrite zseq_from_length.
  constructor; cbn [v_next v_leased v_asg].
  - rewrite app_length, combine_length, <- Hlen, Nat.min_id. lia.
  - rewrite map_app, combine_snd by exact Hlen. rewrite app_length, combine_length, <- Hlen, Nat.min_id.
    rewrite zseq_from_app, Hs. f_equal. f_equal. exact Hn.
  - rewrite map_app, combine_fst by exact Hlen. apply nodup_app; [exact Hnd | exact Hfn |].
    intros x Hx Hf. now destruct (Hfs x Hf).
  - intros u. rewrite map_app, combine_fst by exact Hlen. rewrite in_app_iff. intros [Hin|Hin]; [now apply Hu|].
    destruct (Hfs u Hin) as [Hf _]. apply filter_In in Hf. destruct Hf as [_ Hf]. now apply negb_true_iff in Hf.
  - pose proof (renewals_enough (v_leased v - v_next v) (Z.of_nat (length fresh)) ltac:(lia)). lia.
Qed.

Lemma pre_vinv ids n0 st st' sets : forall v, vinv ids n0 v -> vinv ids n0 (snd (pre_steps ids st st' sets v)).
Proof.
  induction sets as [|[ds ents] sets IH]; intros v Hv; cbn [pre_steps]; [exact Hv|].
  pose proof (share_vinv ids n0 (get_ds st ds) (get_ds st' ds) ds ents v Hv) as H1.
  destruct (share_steps _ _ _ _ _ _) as [l1 v1]. cbn [snd] in H1. specialize (IH v1 H1).
  destruct (pre_steps _ _ _ _ v1) as [l2 v2]. exact IH.
Qed.

(** ** exact effect of ALL sequence steps of a write *)
Lemma lease_ds_repeat ds n : forall c,
  cs_idp (apply_steps c (repeat (SLeaseDs ds) n)) = cs_idp c
  /\ (forall x, x <> ds -> get_ds (cs_store (apply_steps c (repeat (SLeaseDs ds) n))) x = get_ds (cs_store c) x).
Proof.
  induction n as [|n IH]; intros c; cbn [repeat apply_steps fold_left]; [split; reflexivity|].
  fold (apply_steps (apply_step c (SLeaseDs ds)) (repeat (SLeaseDs ds) n)).
  destruct (IH (apply_step c (SLeaseDs ds))) as [H1 H2]. split; [rewrite H1; reflexivity|].
  intros x Hx. rewrite H2 by exact Hx. cbn [apply_step with_store cs_store]. now apply get_set_other.
Qed.

Lemma lease_id_repeat n : forall c,
  cs_idp (apply_steps c (repeat SLeaseId n)) = cs_idp c + bandwidth * Z.of_nat n
  /\ cs_store (apply_steps c (repeat SLeaseId n)) = cs_store c.
Proof.
  induction n as [|n IH]; intros c; cbn [repeat apply_steps fold_left]; [split; [lia | reflexivity]|].
  fold (apply_steps (apply_step c SLeaseId) (repeat SLeaseId n)).
  destruct (IH (apply_step c SLeaseId)) as [H1 H2]. rewrite H1, H2. cbn [apply_step cs_idp cs_store]. split; [lia | reflexivity].
Qed.

Lemma share_effect ids d d' ds ents v c :
  let c1 := apply_steps c (fst (share_steps ids d d' ds ents v)) in
  (forall x, x <> ds -> get_ds (cs_store c1) x = get_ds (cs_store c) x)
  /\ d_next (get_ds (cs_store c1) ds) = d_next d'
  /\ cs_idp c1 = cs_idp c + (v_leased (snd (share_steps ids d d' ds ents v)) - v_leased v).
Proof.
  cbv zeta. unfold share_steps. cbn [fst snd v_leased].
  set (r1 := S (renewals bandwidth (d_next d' - d_next d))).
  set (r := renewals _ _).
  rewrite !apply_steps_app.
  destruct (lease_ds_repeat ds r1 c) as [A1 A2].
  set (ca := apply_steps c (repeat (SLeaseDs ds) r1)) in *.
  destruct (lease_id_repeat r ca) as [B1 B2].
  set (cb := apply_steps ca (repeat SLeaseId r)) in *.
  cbn [apply_steps fold_left apply_step with_store cs_store cs_idp].
  repeat split.
  - intros x Hx. rewrite get_set_other by exact Hx. rewrite B2. now apply A2.
  - rewrite get_set_same. cbn [with_next d_next]. lia.
  - rewrite B1, A1. lia.
Qed.

Lemma pre_effect ids st st' sets : forall v c,
  NoDup (map fst sets) ->
  let c' := apply_steps c (fst (pre_steps ids st st' sets v)) in
  (forall ds, d_next (get_ds (cs_store c') ds)
              = if in_dec Z.eq_dec ds (map fst sets) then d_next (get_ds st' ds) else d_next (get_ds (cs_store c) ds))
  /\ cs_idp c' = cs_idp c + (v_leased (snd (pre_steps ids st st' sets v)) - v_leased v).
Proof.
  induction sets as [|[k ents] sets IH]; intros v c Hnd; cbn [pre_steps map fst].
  - cbn. split; [reflexivity | lia].
  - inversion Hnd as [|? ? Hk Hnd']; subst.
    pose proof (share_effect ids (get_ds st k) (get_ds st' k) k ents v c) as Hs.
    pose proof (share_seq_only ids (get_ds st k) (get_ds st' k) k ents v) as Hso.
    destruct (share_steps _ _ _ _ _ _) as [l1 v1]. cbn [fst snd] in Hs, Hso. cbv zeta in Hs.
    destruct Hs as (S1 & S2 & S3).
    specialize (IH v1 (apply_steps c l1) Hnd'). cbv zeta in IH.
    pose proof (pre_seq_only ids st st' sets v1) as Hso2.
    destruct (pre_steps _ _ _ _ v1) as [l2 v2]. cbn [fst snd] in *.
    destruct IH as [I1 I2]. rewrite apply_steps_app. split.
    + intros ds. rewrite I1.
      destruct (in_dec Z.eq_dec ds (map fst sets)) as [Hin|Hn];
        destruct (in_dec Z.eq_dec ds (k :: map fst sets)) as [Hin'|Hn']; try reflexivity.
      * exfalso. apply Hn'. now right.
      * destruct Hin' as [<-|Hin']; [exact S2 | contradiction].
      * rewrite S1; [reflexivity|]. intros ->. apply Hn'. now left.
    + rewrite I2, S3. lia.
Qed.

Lemma batch_fold_next_mono fl dm t sets : forall st ds,
  d_next (get_ds st ds) <= d_next (get_ds (batch_fold fl dm t sets st) ds).
Proof.
  induction sets as [|[k ents] sets IH]; intros st ds; [cbn; lia|].
  rewrite batch_fold_cons. cbn [fst snd]. etransitivity; [|apply IH].
  destruct (Z.eq_dec ds k) as [->|Hne]; [rewrite get_set_same | rewrite get_set_other by assumption; lia].
  destruct (store_batch_shape fl dm t ents (get_ds st k)) as (_ & Hn & _). rewrite Hn. lia.
Qed.

Lemma apply_wop_next_mono fl dm st o ds :
  d_next (get_ds st ds) <= d_next (get_ds (apply_wop fl dm st o) ds).
Proof. rewrite apply_wop_fold. apply (batch_fold_next_mono fl dm _ _ (tick st) ds). Qed.

Lemma share_rel_ok st ids st' ds ents v :
  d_next (get_ds st ds) <= d_next (get_ds st' ds) ->
  Forall (rel_ok st) (fst (share_steps ids (get_ds st ds) (get_ds st' ds) ds ents v)).
Proof.
  intros H. unfold share_steps. cbn [fst]. repeat (apply Forall_app; split).
  - apply Forall_repeat. exact I.
  - apply Forall_repeat. exact I.
  - repeat constructor. cbn [rel_ok]. lia.
Qed.

Lemma pre_rel_ok st ids st' sets : forall v,
  (forall ds, d_next (get_ds st ds) <= d_next (get_ds st' ds)) ->
  Forall (rel_ok st) (fst (pre_steps ids st st' sets v)).
Proof.
  induction sets as [|[ds ents] sets IH]; intros v H; cbn [pre_steps]; [constructor|].
  pose proof (share_rel_ok st ids st' ds ents v (H ds)) as H1.
  destruct (share_steps _ _ _ _ _ _) as [l1 v1]. specialize (IH v1 H).
  destruct (pre_steps _ _ _ _ v1) as [l2 v2]. cbn [fst] in *. apply Forall_app; split; assumption.
Qed.

(** ** the invariant of the crash model *)
Record cinv (c : cstate) : Prop := {
  ci_store : sinvg (cs_store c);                                     (* gap-tolerant store invariant *)
  ci_fst : NoDup (map fst (cs_ids c));                               (* a URI has one internal id *)
  ci_snd : NoDup (map snd (cs_ids c));                               (* an internal id belongs to one URI *)
  ci_lt : Forall (fun p : uri * Z => 0 <= snd p < cs_next c) (cs_ids c);  (* the next id is beyond every id in use *)
  ci_next : 0 <= cs_next c <= cs_idp c                               (* and within the persisted lease *)
}.

Lemma cinv0 next idp : 0 <= next <= idp -> cinv (cstate0 next idp).
Proof.
  intros H. constructor; cbn [cstate0 cs_store cs_ids cs_next cs_idp map].
  - apply sinvg0.
  - constructor.
  - constructor.
  - constructor.
  - exact H.
Qed.

Lemma counter_steps_fields l : forall c, Forall counter_only l ->
  cs_store (apply_steps c l) = cs_store c /\ cs_ids (apply_steps c l) = cs_ids c
  /\ cs_idp (apply_steps c l) = cs_idp c /\ cs_next (apply_steps c l) = cs_next c.
Proof.
  induction l as [|s l IH]; intros c H; [repeat split|].
  inversion H as [|? ? Hs Hl]; subst. cbn [apply_steps fold_left]. fold (apply_steps (apply_step c s) l).
  destruct (IH (apply_step c s) Hl) as (A & B & C & D). rewrite A, B, C, D.
  destruct s; cbn in Hs; try tauto; repeat split.
Qed.

Lemma ids_after_commit ids asg n0 nx :
  NoDup (map fst ids) -> NoDup (map snd ids) -> Forall (fun p : uri * Z => 0 <= snd p < n0) ids -> 0 <= n0 ->
  map snd asg = zseq_from n0 (length asg) -> NoDup (map fst asg) ->
  (forall u, In u (map fst asg) -> known ids u = false) ->
  n0 + Z.of_nat (length asg) <= nx ->
  NoDup (map fst (asg ++ ids)) /\ NoDup (map snd (asg ++ ids))
  /\ Forall (fun p : uri * Z => 0 <= snd p < nx) (asg ++ ids).
Proof.
  intros H1 H2 H3 H0 Hs Hn Hu Hx.
  assert (Hnew : forall p, In p asg -> n0 <= snd p < n0 + Z.of_nat (length asg)).
  { intros p Hp. apply zseq_from_In. rewrite <- Hs. now apply in_map. }
  rewrite Forall_forall in H3. repeat split.
  - rewrite map_app. apply nodup_app; try assumption. intros u Hu1. apply known_false_notin. now apply Hu.
  - rewrite map_app. apply nodup_app; try assumption; [rewrite Hs; apply zseq_from_nodup|].
    intros i Hi Hi'. rewrite Hs in Hi. apply zseq_from_In in Hi.
    apply in_map_iff in Hi'. destruct Hi' as [p [<- Hp]]. specialize (H3 p Hp). lia.
  - apply Forall_forall. intros p Hp. apply in_app_iff in Hp. destruct Hp as [Hp|Hp].
    + specialize (Hnew p Hp). lia.
    + specialize (H3 p Hp). lia.
Qed.

Section Invariant.
Variable cm : counter_mode.
Variable fl : eqflags.
Variable dm : dup_mode.

Notation pre_of := (pre_of fl dm).
Notation vfin := (vfin fl dm).
Notation st'_of := (st'_of fl dm).

Lemma vfin_vinv c o : 0 <= cs_next c <= cs_idp c -> vinv (cs_ids c) (cs_next c) (vfin c o).
Proof.
  intros H. unfold CrashProofs.vfin, pre_pair. apply pre_vinv.
  constructor; cbn [v0 v_next v_leased v_asg length map]; try constructor; try lia. intros u [].
Qed.

(** the durable state once all leases and releases of the write are done *)
Lemma after_pre c o : wf_wop o ->
  let cp := apply_steps c (pre_of c o) in
  cs_ids cp = cs_ids c /\ cs_items cp = cs_items c /\ cs_next cp = cs_next c
  /\ s_clock (cs_store cp) = s_clock (cs_store c)
  /\ cs_idp cp = v_leased (vfin c o)
  /\ (forall ds, data_of (get_ds (cs_store cp) ds) = data_of (get_ds (cs_store c) ds))
  /\ (forall ds, d_next (get_ds (cs_store cp) ds) = d_next (get_ds (st'_of c o) ds)).
Proof.
  intros Hwf. cbv zeta.
  pose proof (pre_seq_only (cs_ids c) (cs_store c) (st'_of c o) (op_sets o) (v0 c)) as Hso.
  fold (pre_pair fl dm c o) in Hso. fold (pre_of c o) in Hso.
  destruct (seq_steps_fields _ c Hso) as (A & B & C & D & _).
  destruct (pre_effect (cs_ids c) (cs_store c) (st'_of c o) (op_sets o) (v0 c) c (wf_wop_nodup o Hwf)) as [E1 E2].
  fold (pre_pair fl dm c o) in E1, E2. fold (pre_of c o) in E1, E2. fold (vfin c o) in E2.
  repeat split; try assumption.
  - rewrite E2. cbn [v0 v_leased]. lia.
  - intros ds. apply apply_steps_data. eapply Forall_impl; [|exact Hso]. apply seq_only_not_data.
  - intros ds. rewrite E1. destruct (in_dec Z.eq_dec ds (map fst (op_sets o))) as [Hin|Hn]; [reflexivity|].
    unfold CrashProofs.st'_of. change (op_sets o) with (wsets o) in Hn. now rewrite apply_wop_untouched.
Qed.

(** the durable store once the data commit is done: exactly the store the crash-free write produces *)
Lemma after_data c o : wf_wop o ->
  let cd := apply_steps c (pre_of c o ++ [SCommitIds (v_asg (vfin c o)); data_step cm fl dm c o]) in
  (forall ds, get_ds (cs_store cd) ds = get_ds (st'_of c o) ds)
  /\ s_clock (cs_store cd) = s_clock (st'_of c o)
  /\ cs_ids cd = v_asg (vfin c o) ++ cs_ids c /\ cs_idp cd = v_leased (vfin c o) /\ cs_next cd = cs_next c.
Proof.
  intros Hwf. cbv zeta. rewrite apply_steps_app.
  destruct (after_pre c o Hwf) as (A & B & C & D & E & F & G). cbv zeta in *.
  set (cp := apply_steps c (pre_of c o)) in *.
  unfold data_step. cbn [apply_steps fold_left apply_step cs_store cs_ids cs_idp cs_next s_clock].
  repeat split; try congruence.
  intros ds. apply dstate_ext.
  - pose proof (commit_fold_data (st'_of c o) (op_sets o) (cs_store cp) ds) as H.
    unfold get_ds at 1. cbn [s_ds]. unfold get_ds at 1 in H.
    assert (H' : forall a b : dstate, data_of a = data_of b -> d_entries a = d_entries b) by (intros a b Hab; now injection Hab).
    apply H'. rewrite H. destruct (in_dec Z.eq_dec ds (map fst (op_sets o))) as [Hin|Hn]; [reflexivity|].
    rewrite F. unfold CrashProofs.st'_of. change (op_sets o) with (wsets o) in Hn. now rewrite apply_wop_untouched.
  - pose proof (commit_fold_data (st'_of c o) (op_sets o) (cs_store cp) ds) as H.
    unfold get_ds at 1. cbn [s_ds]. unfold get_ds at 1 in H.
    assert (H' : forall a b : dstate, data_of a = data_of b -> d_latest a = d_latest b) by (intros a b Hab; now injection Hab).
    apply H'. rewrite H. destruct (in_dec Z.eq_dec ds (map fst (op_sets o))) as [Hin|Hn]; [reflexivity|].
    rewrite F. unfold CrashProofs.st'_of. change (op_sets o) with (wsets o) in Hn. now rewrite apply_wop_untouched.
  - pose proof (commit_fold_next (st'_of c o) (op_sets o) (cs_store cp) ds) as H.
    unfold get_ds at 1. cbn [s_ds]. unfold get_ds at 1 in H. rewrite H. apply G.
Qed.
End Invariant.

Section Theorems.
Variable cm : counter_mode.
Variable fl : eqflags.
Variable dm : dup_mode.

Notation pre_of := (pre_of fl dm).
Notation vfin := (vfin fl dm).
Notation st'_of := (st'_of fl dm).

Lemma dinvg_same clk (d d' : dstate) :
  data_of d' = data_of d -> d_next d <= d_next d' -> dinvg clk d -> dinvg clk d'.
Proof.
  intros Hd Hn. injection Hd as He Hl. now apply dinvg_bump.
Qed.

(** the three kinds of crash position and the durable state at each *)
Lemma crash_state c o k : wf_wop o -> cinv c ->
  let a := apply_steps c (firstn k (fst (steps cm fl dm c o))) in
  ((k <= length (pre_of c o))%nat /\ cs_ids a = cs_ids c /\ cs_idp c <= cs_idp a
   /\ s_clock (cs_store a) = s_clock (cs_store c)
   /\ (forall ds, data_of (get_ds (cs_store a) ds) = data_of (get_ds (cs_store c) ds))
   /\ (forall ds, d_next (get_ds (cs_store c) ds) <= d_next (get_ds (cs_store a) ds)))
  \/ (k = S (length (pre_of c o)) /\ cs_ids a = v_asg (vfin c o) ++ cs_ids c /\ cs_idp a = v_leased (vfin c o)
      /\ s_clock (cs_store a) = s_clock (cs_store c)
      /\ (forall ds, data_of (get_ds (cs_store a) ds) = data_of (get_ds (cs_store c) ds))
      /\ (forall ds, d_next (get_ds (cs_store c) ds) <= d_next (get_ds (cs_store a) ds)))
  \/ ((k > S (length (pre_of c o)))%nat /\ cs_ids a = v_asg (vfin c o) ++ cs_ids c /\ cs_idp a = v_leased (vfin c o)
      /\ s_clock (cs_store a) = s_clock (st'_of c o)
      /\ (forall ds, get_ds (cs_store a) ds = get_ds (st'_of c o) ds)).
Proof.
  intros Hwf Hc. cbv zeta. rewrite steps_eq. cbn [fst].
  pose proof (pre_seq_only (cs_ids c) (cs_store c) (st'_of c o) (op_sets o) (v0 c)) as Hso.
  fold (pre_pair fl dm c o) in Hso. fold (pre_of c o) in Hso.
  assert (Hrel : Forall (rel_ok (cs_store c)) (pre_of c o)).
  { apply pre_rel_ok. intros ds. apply apply_wop_next_mono. }
  destruct (firstn_cases k (pre_of c o) (SCommitIds (v_asg (vfin c o))) (data_step cm fl dm c o) (post_of cm c o))
    as [[Hk ->]|[[Hk ->]|[Hk ->]]].
  - left. split; [exact Hk|].
    pose proof (Forall_firstn _ k _ Hso) as Hso'. pose proof (Forall_firstn _ k _ Hrel) as Hrel'.
    destruct (seq_steps_fields _ c Hso') as (A & B & C & D & E).
    repeat split; try assumption.
    + intros ds. apply apply_steps_data. eapply Forall_impl; [|exact Hso']. apply seq_only_not_data.
    + intros ds. apply (seq_steps_next_mono (cs_store c) _ c Hso' Hrel'). intros; lia.
  - right; left. split; [exact Hk|]. rewrite apply_steps_app.
    destruct (after_pre fl dm c o Hwf) as (A & B & C & D & E & F & G). cbv zeta in *.
    cbn [apply_steps fold_left apply_step cs_ids cs_idp cs_store].
    repeat split; try congruence. intros ds. rewrite G. apply apply_wop_next_mono.
  - right; right. split; [lia|].
    change (pre_of c o ++ SCommitIds (v_asg (vfin c o)) :: data_step cm fl dm c o :: firstn (k - S (S (length (pre_of c o)))) (post_of cm c o))
      with (pre_of c o ++ [SCommitIds (v_asg (vfin c o)); data_step cm fl dm c o] ++ firstn (k - S (S (length (pre_of c o)))) (post_of cm c o)).
    rewrite app_assoc, apply_steps_app.
    destruct (after_data cm fl dm c o Hwf) as (A & B & C & D & E). cbv zeta in *.
    destruct (counter_steps_fields (firstn (k - S (S (length (pre_of c o)))) (post_of cm c o))
                (apply_steps c (pre_of c o ++ [SCommitIds (v_asg (vfin c o)); data_step cm fl dm c o]))
                (Forall_firstn _ _ _ (post_counter_only cm c o))) as (P1 & P2 & P3 & P4).
    rewrite P1, P2, P3. repeat split; assumption.
Qed.

(** *** the recovered state satisfies the invariant, for every crash position *)
Theorem crash_cinv c o k : wf_wop o -> cinv c -> cinv (crash_at cm fl dm k c o).
Proof.
  intros Hwf Hc. unfold crash_at.
  pose proof (vfin_vinv fl dm c o (ci_next _ Hc)) as [Vn Vs Vd Vu Vl].
  destruct (crash_state c o k Hwf Hc) as [(Hk & A & B & C & D & E)|[(Hk & A & B & C & D & E)|(Hk & A & B & C & D)]];
    cbv zeta in *; set (a := apply_steps c (firstn k (fst (steps cm fl dm c o)))) in *.
  - constructor; cbn [reopen cs_store cs_ids cs_next cs_idp].
    + intros ds. rewrite C. eapply dinvg_same; [apply D | apply E | apply (ci_store _ Hc)].
    + rewrite A. apply (ci_fst _ Hc).
    + rewrite A. apply (ci_snd _ Hc).
    + rewrite A. eapply Forall_impl; [|apply (ci_lt _ Hc)]. cbv beta. pose proof (ci_next _ Hc). intros; lia.
    + pose proof (ci_next _ Hc). unfold bandwidth. lia.
  - destruct (ids_after_commit (cs_ids c) (v_asg (vfin c o)) (cs_next c) (cs_idp a)
                (ci_fst _ Hc) (ci_snd _ Hc) (ci_lt _ Hc) ltac:(pose proof (ci_next _ Hc); lia) Vs Vd Vu ltac:(lia)) as (I1 & I2 & I3).
    constructor; cbn [reopen cs_store cs_ids cs_next cs_idp].
    + intros ds. rewrite C. eapply dinvg_same; [apply D | apply E | apply (ci_store _ Hc)].
    + rewrite A. exact I1.
    + rewrite A. exact I2.
    + rewrite A. exact I3.
    + pose proof (ci_next _ Hc). unfold bandwidth. lia.
  - destruct (ids_after_commit (cs_ids c) (v_asg (vfin c o)) (cs_next c) (cs_idp a)
                (ci_fst _ Hc) (ci_snd _ Hc) (ci_lt _ Hc) ltac:(pose proof (ci_next _ Hc); lia) Vs Vd Vu ltac:(lia)) as (I1 & I2 & I3).
    constructor; cbn [reopen cs_store cs_ids cs_next cs_idp].
    + intros ds. rewrite C, D. apply (apply_wop_sinvg fl dm (cs_store c) o Hwf (ci_store _ Hc)).
    + rewrite A. exact I1.
    + rewrite A. exact I2.
    + rewrite A. exact I3.
    + pose proof (ci_next _ Hc). unfold bandwidth. lia.
Qed.

(** *** an acknowledged write: the durable store IS the store of the crash-free model *)
Lemma exec_op_state c o : wf_wop o -> cinv c ->
  (forall ds, get_ds (cs_store (exec_op cm fl dm c o)) ds = get_ds (apply_wop fl dm (cs_store c) o) ds)
  /\ s_clock (cs_store (exec_op cm fl dm c o)) = s_clock (apply_wop fl dm (cs_store c) o)
  /\ cs_ids (exec_op cm fl dm c o) = v_asg (vfin c o) ++ cs_ids c
  /\ cs_idp (exec_op cm fl dm c o) = v_leased (vfin c o)
  /\ cs_next (exec_op cm fl dm c o) = v_next (vfin c o).
Proof.
  intros Hwf Hc.
  pose proof (crash_state c o (S (S (length (fst (steps cm fl dm c o))))) Hwf Hc) as H. cbv zeta in H.
  rewrite firstn_all2 in H by lia.
  unfold exec_op. rewrite steps_eq in *. cbn [fst] in H.
  destruct H as [(Hk & _)|[(Hk & _)|(Hk & A & B & C & D)]].
  - rewrite app_length in Hk. cbn [length] in Hk. lia.
  - rewrite app_length in Hk. cbn [length] in Hk. lia.
  - cbn [set_vnext cs_store cs_ids cs_idp cs_next]. repeat split; assumption.
Qed.

Theorem exec_op_cinv c o : wf_wop o -> cinv c -> cinv (exec_op cm fl dm c o).
Proof.
  intros Hwf Hc. destruct (exec_op_state c o Hwf Hc) as (A & B & C & D & E).
  pose proof (vfin_vinv fl dm c o (ci_next _ Hc)) as [Vn Vs Vd Vu Vl].
  destruct (ids_after_commit (cs_ids c) (v_asg (vfin c o)) (cs_next c) (v_next (vfin c o))
              (ci_fst _ Hc) (ci_snd _ Hc) (ci_lt _ Hc) ltac:(pose proof (ci_next _ Hc); lia) Vs Vd Vu ltac:(lia)) as (I1 & I2 & I3).
  constructor.
  - intros ds. rewrite B, A. apply (apply_wop_sinvg fl dm (cs_store c) o Hwf (ci_store _ Hc)).
  - rewrite C. exact I1.
  - rewrite C. exact I2.
  - rewrite C, E. exact I3.
  - rewrite D, E. pose proof (ci_next _ Hc). lia.
Qed.

Theorem restart_cinv c : cinv c -> cinv (reopen (close c)).
Proof.
  intros [A B C D E]. constructor; cbn [reopen close cs_store cs_ids cs_next cs_idp]; try assumption.
  unfold bandwidth. lia.
Qed.

Definition wf_event (e : event) : Prop :=
  match e with EOp o | ECrash o _ => wf_wop o | ERestart => True end.

Theorem run_event_cinv c e : wf_event e -> cinv c -> cinv (run_event cm fl dm c e).
Proof.
  destruct e as [o|o k|]; cbn [wf_event run_event]; intros Hwf Hc.
  - now apply exec_op_cinv.
  - now apply crash_cinv.
  - now apply restart_cinv.
Qed.

Theorem run_events_cinv es : forall c, Forall wf_event es -> cinv c -> cinv (run_events cm fl dm es c).
Proof.
  induction es as [|e es IH]; intros c Hwf Hc; [exact Hc|].
  inversion Hwf; subst. cbn [run_events fold_left]. apply IH; [assumption|]. now apply run_event_cinv.
Qed.
End Theorems.

(** ** nothing is ever taken back: logs only grow, positions and ids only move forward *)
Lemma batch_fold_extends fl dm t sets : forall st ds,
  exists p, d_entries (get_ds (batch_fold fl dm t sets st) ds) = d_entries (get_ds st ds) ++ p
            /\ Forall (fun e => d_next (get_ds st ds) <= en_seq e) p.
Proof.
  induction sets as [|[k ents] sets IH]; intros st ds; [exists []; split; [now rewrite app_nil_r | constructor]|].
  rewrite batch_fold_cons. cbn [fst snd].
  destruct (IH (set_ds st k (store_batch_ds fl dm t ents (get_ds st k))) ds) as [p [Hp Hq]].
  destruct (Z.eq_dec ds k) as [->|Hne].
  - rewrite get_set_same in Hp, Hq.
    destruct (store_batch_shape fl dm t ents (get_ds st k)) as (He & Hn & Hs & _).
    exists (batch_pend fl dm t ents (get_ds st k) ++ p). split; [rewrite Hp, He; now rewrite app_assoc|].
    apply Forall_app; split.
    + pose proof (below_of_zseq _ _ Hs) as Hb. eapply Forall_impl; [|exact Hb]. cbv beta. intros; lia.
    + eapply Forall_impl; [|exact Hq]. cbv beta. intros. lia.
  - rewrite get_set_other in Hp, Hq by assumption. exists p. split; assumption.
Qed.

Lemma apply_wop_extends fl dm st o ds :
  exists p, d_entries (get_ds (apply_wop fl dm st o) ds) = d_entries (get_ds st ds) ++ p
            /\ Forall (fun e => d_next (get_ds st ds) <= en_seq e) p.
Proof. rewrite apply_wop_fold. apply (batch_fold_extends fl dm _ _ (tick st) ds). Qed.

Section Monotone.
Variable cm : counter_mode.
Variable fl : eqflags.
Variable dm : dup_mode.

(** after any event: every change log extends the previous one, the appended entries have positions at or
    beyond the previous next position, the next position and the next id never decrease, and the id
    table only grows *)
Theorem run_event_forward c e : wf_event e -> cinv c ->
  let c' := run_event cm fl dm c e in
  (forall ds, exists p, d_entries (get_ds (cs_store c') ds) = d_entries (get_ds (cs_store c) ds) ++ p
                        /\ Forall (fun x => d_next (get_ds (cs_store c) ds) <= en_seq x) p)
  /\ (forall ds, d_next (get_ds (cs_store c) ds) <= d_next (get_ds (cs_store c') ds))
  /\ cs_next c <= cs_next c'
  /\ (exists asg, cs_ids c' = asg ++ cs_ids c /\ Forall (fun p : uri * Z => cs_next c <= snd p) asg).
Proof.
  intros Hwf Hc. cbv zeta.
  assert (Hasg : forall o, Forall (fun p : uri * Z => cs_next c <= snd p) (v_asg (vfin fl dm c o))).
  { intros o. pose proof (vfin_vinv fl dm c o (ci_next _ Hc)) as [Vn Vs Vd Vu Vl].
    apply Forall_forall. intros p Hp.
    assert (Hi : In (snd p) (zseq_from (cs_next c) (length (v_asg (vfin fl dm c o))))) by (rewrite <- Vs; now apply in_map).
    apply zseq_from_In in Hi. lia. }
  destruct e as [o|o k|]; cbn [run_event wf_event] in *.
  - destruct (exec_op_state cm fl dm c o Hwf Hc) as (A & B & C & D & E).
    pose proof (vfin_vinv fl dm c o (ci_next _ Hc)) as [Vn Vs Vd Vu Vl].
    repeat split.
    + intros ds. rewrite A. apply apply_wop_extends.
    + intros ds. rewrite A. apply apply_wop_next_mono.
    + rewrite E. lia.
    + exists (v_asg (vfin fl dm c o)). split; [exact C | apply Hasg].
  - unfold crash_at.
    destruct (crash_state cm fl dm c o k Hwf Hc) as [(Hk & A & B & C & D & E)|[(Hk & A & B & C & D & E)|(Hk & A & B & C & D)]];
      cbv zeta in *; cbn [reopen cs_store cs_ids cs_next].
    + repeat split.
      * intros ds. exists []. specialize (D ds). injection D as De _. rewrite De, app_nil_r. split; [reflexivity | constructor].
      * exact E.
      * pose proof (ci_next _ Hc). lia.
      * exists []. split; [rewrite A; reflexivity | constructor].
    + pose proof (vfin_vinv fl dm c o (ci_next _ Hc)) as [Vn Vs Vd Vu Vl]. repeat split.
      * intros ds. exists []. specialize (D ds). injection D as De _. rewrite De, app_nil_r. split; [reflexivity | constructor].
      * exact E.
      * pose proof (ci_next _ Hc). lia.
      * exists (v_asg (vfin fl dm c o)). split; [exact A | apply Hasg].
    + pose proof (vfin_vinv fl dm c o (ci_next _ Hc)) as [Vn Vs Vd Vu Vl]. repeat split.
      * intros ds. rewrite D. apply apply_wop_extends.
      * intros ds. rewrite D. apply apply_wop_next_mono.
      * pose proof (ci_next _ Hc). lia.
      * exists (v_asg (vfin fl dm c o)). split; [exact A | apply Hasg].
  - cbn [reopen close cs_store cs_ids cs_next cs_idp]. repeat split.
    + intros ds. exists []. rewrite app_nil_r. split; [reflexivity | constructor].
    + intros; lia.
    + lia.
    + exists []. split; [reflexivity | constructor].
Qed.

Lemma assoc_app_notin {V} k (l1 l2 : list (Z * V)) : ~ In k (map fst l1) -> assoc k (l1 ++ l2) = assoc k l2.
Proof.
  induction l1 as [|[k' v] l1 IH]; cbn [app assoc map fst In]; intros H; [reflexivity|].
  destruct (Z.eqb_spec k k') as [->|Hne]; [exfalso; apply H; now left|]. apply IH. tauto.
Qed.

Lemma assoc_In {V} k (v : V) l : assoc k l = Some v -> In k (map fst l).
Proof.
  induction l as [|[k' v'] l IH]; cbn [assoc map fst In]; [discriminate|].
  destruct (Z.eqb_spec k k') as [->|Hne]; [now left | intros H; right; now apply IH].
Qed.

Lemma nodup_app_disjoint {A} (l l0 : list A) x : NoDup (l ++ l0) -> In x l -> In x l0 -> False.
Proof.
  induction l as [|y l IH]; cbn [app In]; intros Hnd Hin Hu; [contradiction|].
  inversion Hnd as [|? ? Hy Hnd']; subst. destruct Hin as [->|Hin]; [|now apply IH].
  apply Hy. apply in_app_iff. now right.
Qed.

(** a URI keeps its internal id for ever *)
Theorem run_event_id_stable c e u i : wf_event e -> cinv c ->
  id_of c u = Some i -> id_of (run_event cm fl dm c e) u = Some i.
Proof.
  intros Hwf Hc Hu. unfold id_of in *.
  pose proof (run_event_cinv cm fl dm c e Hwf Hc) as Hc'.
  destruct (run_event_forward c e Hwf Hc) as (_ & _ & _ & asg & Ha & _). cbv zeta in Ha.
  rewrite Ha. rewrite assoc_app_notin; [exact Hu|].
  intros Hin. pose proof (ci_fst _ Hc') as Hnd. rewrite Ha, map_app in Hnd.
  apply assoc_In in Hu. exact (nodup_app_disjoint _ _ u Hnd Hin Hu).
Qed.
End Monotone.

(** ** the items counter *)
Section Counter.
Variable fl : eqflags.
Variable dm : dup_mode.

Lemma seq_steps_items l c : Forall seq_only l -> cs_items (apply_steps c l) = cs_items c.
Proof. intros H. now destruct (seq_steps_fields l c H) as (_ & B & _). Qed.

(** pinned tree: up to and including the data commit the counter is untouched - in particular at the
    crash position right after the data commit the data is there and the counter is not *)
Theorem counter_separate_lag c o k : wf_wop o -> cinv c ->
  (k <= S (commit_index CounterSeparate fl dm c o))%nat ->
  cs_items (crash_at CounterSeparate fl dm k c o) = cs_items c.
Proof.
  intros Hwf Hc Hk. unfold crash_at. cbn [reopen cs_items]. rewrite steps_eq, commit_index_eq in *. cbn [fst].
  pose proof (pre_seq_only (cs_ids c) (cs_store c) (st'_of fl dm c o) (op_sets o) (v0 c)) as Hso.
  fold (pre_pair fl dm c o) in Hso. fold (pre_of fl dm c o) in Hso.
  destruct (firstn_cases k (pre_of fl dm c o) (SCommitIds (v_asg (vfin fl dm c o))) (data_step CounterSeparate fl dm c o)
                         (post_of CounterSeparate c o)) as [[Hk' ->]|[[Hk' ->]|[Hk' ->]]].
  - apply seq_steps_items. now apply Forall_firstn.
  - rewrite apply_steps_app. cbn [apply_steps fold_left apply_step cs_items]. now apply seq_steps_items.
  - replace (k - S (S (length (pre_of fl dm c o))))%nat with O by lia. cbn [firstn].
    change (pre_of fl dm c o ++ [SCommitIds (v_asg (vfin fl dm c o)); data_step CounterSeparate fl dm c o])
      with (pre_of fl dm c o ++ [SCommitIds (v_asg (vfin fl dm c o)); data_step CounterSeparate fl dm c o]).
    rewrite apply_steps_app. unfold data_step. cbn [apply_steps fold_left apply_step cs_items]. now apply seq_steps_items.
Qed.

(** repaired: the counter moves with the data, in the same commit - never one without the other *)
Theorem counter_in_data_atomic c o k : wf_wop o -> cinv c ->
  let r := crash_at CounterInData fl dm k c o in
  ((k <= commit_index CounterInData fl dm c o)%nat -> cs_items r = cs_items c)
  /\ ((k > commit_index CounterInData fl dm c o)%nat ->
      cs_items r = cs_items (exec_op CounterInData fl dm c o)).
Proof.
  intros Hwf Hc. cbv zeta. unfold crash_at, exec_op. rewrite steps_eq, commit_index_eq. cbn [fst reopen cs_items set_vnext].
  pose proof (pre_seq_only (cs_ids c) (cs_store c) (st'_of fl dm c o) (op_sets o) (v0 c)) as Hso.
  fold (pre_pair fl dm c o) in Hso. fold (pre_of fl dm c o) in Hso.
  change (post_of CounterInData c o) with (@nil dstep).
  destruct (firstn_cases k (pre_of fl dm c o) (SCommitIds (v_asg (vfin fl dm c o))) (data_step CounterInData fl dm c o) [])
    as [[Hk' ->]|[[Hk' ->]|[Hk' ->]]]; (split; [intros Hle | intros Hgt]); try lia.
  - apply seq_steps_items. now apply Forall_firstn.
  - rewrite apply_steps_app. cbn [apply_steps fold_left apply_step cs_items]. now apply seq_steps_items.
  - rewrite firstn_nil. reflexivity.
Qed.
End Counter.

(** ** durability of acknowledged writes *)
Section Durable.
Variable cm : counter_mode.
Variable fl : eqflags.
Variable dm : dup_mode.

(** dying after the last durable step of a write (e.g. right after the acknowledgement) loses nothing *)
Theorem crash_after_all c o k : (k >= length (fst (steps cm fl dm c o)))%nat ->
  cs_store (crash_at cm fl dm k c o) = cs_store (exec_op cm fl dm c o)
  /\ cs_ids (crash_at cm fl dm k c o) = cs_ids (exec_op cm fl dm c o)
  /\ cs_items (crash_at cm fl dm k c o) = cs_items (exec_op cm fl dm c o).
Proof.
  intros Hk. unfold crash_at, exec_op. rewrite firstn_all2 by lia.
  destruct (steps cm fl dm c o) as [l n]. cbn [fst]. repeat split.
Qed.

(** whatever happens later (writes, crashes at any position, restarts), the change log of every dataset
    only grows at its end: nothing acknowledged (or recovered) is ever lost or reordered *)
Theorem run_events_extends es : forall c, Forall wf_event es -> cinv c ->
  forall ds, exists p, d_entries (get_ds (cs_store (run_events cm fl dm es c)) ds) = d_entries (get_ds (cs_store c) ds) ++ p.
Proof.
  induction es as [|e es IH]; intros c Hwf Hc ds; [exists []; now rewrite app_nil_r|].
  inversion Hwf as [|? ? He Hes]; subst. cbn [run_events fold_left]. fold (run_events cm fl dm es (run_event cm fl dm c e)).
  destruct (IH (run_event cm fl dm c e) Hes (run_event_cinv cm fl dm c e He Hc) ds) as [p Hp].
  destruct (run_event_forward cm fl dm c e He Hc) as (Hx & _). destruct (Hx ds) as [q [Hq _]].
  exists (q ++ p). rewrite Hp, Hq. now rewrite app_assoc.
Qed.

(** ... and sequences never move backwards over a whole history *)
Theorem run_events_forward es : forall c, Forall wf_event es -> cinv c ->
  (forall ds, d_next (get_ds (cs_store c) ds) <= d_next (get_ds (cs_store (run_events cm fl dm es c)) ds))
  /\ cs_next c <= cs_next (run_events cm fl dm es c).
Proof.
  induction es as [|e es IH]; intros c Hwf Hc; [cbn [run_events fold_left]; split; intros; lia|].
  inversion Hwf as [|? ? He Hes]; subst. cbn [run_events fold_left]. fold (run_events cm fl dm es (run_event cm fl dm c e)).
  destruct (IH (run_event cm fl dm c e) Hes (run_event_cinv cm fl dm c e He Hc)) as [I1 I2].
  destruct (run_event_forward cm fl dm c e He Hc) as (_ & F1 & F2 & _). cbv zeta in *.
  split; [intros ds; specialize (I1 ds); specialize (F1 ds); lia | lia].
Qed.
End Durable.
