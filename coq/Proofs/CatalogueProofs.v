(** Proofs for C19, part 1: the counting batch loop ([cbatch]) against Model/Store.v, the dataset
    invariant needed for counting, meta entities (round trip, the write-time equality cannot confuse
    two meta entities), and what one write of a meta entity does to core.Dataset. *)
From Coq Require Import List ZArith Bool Lia.
From DH Require Import Model.Store Model.Catalogue Proofs.StoreProofs.
Import ListNotations.
Open Scope Z_scope.

(** ** membership and distinct counts *)
Lemma zmem_In x l : zmem x l = true <-> In x l.
Proof.
  unfold zmem. rewrite existsb_exists. split.
  - intros [y [Hy He]]. apply Z.eqb_eq in He. now subst.
  - intros H. exists x. split; [exact H | apply Z.eqb_refl].
Qed.

Lemma zmem_false x l : zmem x l = false <-> ~ In x l.
Proof. rewrite <- zmem_In. destruct (zmem x l); split; congruence. Qed.

Lemma zmem_app x l1 l2 : zmem x (l1 ++ l2) = zmem x l1 || zmem x l2.
Proof. unfold zmem. apply existsb_app. Qed.

Lemma ndistinct_snoc l x :
  ndistinct (l ++ [x]) = if zmem x l then ndistinct l else ndistinct l + 1.
Proof.
  induction l as [|a l IH]; cbn [app ndistinct]; [reflexivity|].
  rewrite zmem_app, IH. cbn [zmem existsb]. fold (zmem x l). fold (zmem a l). rewrite orb_false_r.
  rewrite (Z.eqb_sym x a).
  destruct (Z.eqb_spec a x) as [->|Hne]; cbn [orb].
  - rewrite orb_true_r. destruct (zmem x l); lia.
  - rewrite orb_false_r. destruct (zmem a l), (zmem x l); lia.
Qed.

Lemma ndistinct_nonneg l : 0 <= ndistinct l.
Proof. induction l as [|a l IH]; cbn [ndistinct]; [lia | destruct (zmem a l); lia]. Qed.

(** ** the invariant of one dataset that counting needs (holds for every duplicate mode) *)
Record winv (clk : Z) (d : dstate) : Prop := {
  w_times : times_le clk (d_entries d);
  w_none : forall id, assoc id (d_latest d) = None <-> ~ In id (dids d);
  w_some : forall id t b, assoc id (d_latest d) = Some (t, b) -> find_entry id t b (d_entries d) <> None
}.

Lemma winv0 clk : winv clk dstate0.
Proof. constructor; cbn; [constructor | intros; tauto | intros; discriminate]. Qed.

Lemma winv_mono clk clk' d : clk <= clk' -> winv clk d -> winv clk' d.
Proof.
  intros Hle [H1 H2 H3]. constructor; try assumption.
  eapply Forall_impl; [|exact H1]. cbv beta. intros; lia.
Qed.

Lemma stored_none_iff clk d id : winv clk d -> (stored_latest d id = None <-> ~ In id (dids d)).
Proof.
  intros [_ Hn Hs]. unfold stored_latest.
  destruct (assoc id (d_latest d)) as [[t b]|] eqn:Ea.
  - specialize (Hs id t b Ea). split.
    + destruct (find_entry id t b (d_entries d)); cbn; [discriminate | congruence].
    + intros Hnot. apply Hn in Hnot. congruence.
  - split; [intros _; now apply Hn | reflexivity].
Qed.

(** ** the loop invariant of [cstep] *)
Definition pids (a : cacc) : list uri := map en_id (a_pend (k_acc a)).

Record cinv (fl : eqflags) (dm : dup_mode) (d : dstate) (t : Z) (kn0 : list uri) (a : cacc) : Prop := {
  ci_loc : forall id, assoc id (a_loc (k_acc a)) = None <-> ~ In id (pids a);
  ci_lat_none : forall id, assoc id (a_latest (k_acc a)) = None <-> ~ In id (dids d ++ pids a);
  ci_lat_some : forall id t' b', assoc id (a_latest (k_acc a)) = Some (t', b') ->
                                 find_entry id t' b' (d_entries d ++ a_pend (k_acc a)) <> None;
  ci_times : Forall (fun e => en_time e = t) (a_pend (k_acc a));
  ci_new : k_new a = ndistinct (dids d ++ pids a) - ndistinct (dids d);
  ci_known : incl (dids d ++ pids a) (k_kn a);
  ci_mono : incl kn0 (k_kn a)
}.

Lemma find_entry_snoc_self id t i E c s :
  find_entry id t i (E ++ [{| en_seq := s; en_id := id; en_time := t; en_bidx := i; en_c := c |}]) <> None.
Proof.
  rewrite find_entry_app. destruct (find_entry id t i E); [discriminate|].
  cbn [find_entry en_id en_time en_bidx]. rewrite !Z.eqb_refl. discriminate.
Qed.

Lemma find_entry_mono id t b E P : find_entry id t b E <> None -> find_entry id t b (E ++ P) <> None.
Proof. intros H. rewrite find_entry_app. destruct (find_entry id t b E); [discriminate | congruence]. Qed.

(** the bacc component of [cstep] is Model/Store.v's [batch_step] whenever every id of the dataset
    already has an internal id: [known] does not influence what is stored *)
Lemma cstep_is_batch_step fl dm clk d t kn0 a i e :
  winv clk d -> cinv fl dm d t kn0 a ->
  k_acc (cstep fl dm d t a (i, e)) = batch_step fl dm d t (k_acc a) (i, e).
Proof.
  intros Hw Hc. unfold cstep, batch_step.
  destruct (zmem (e_id e) (k_kn a)) eqn:Ek; cbn [negb orb].
  - destruct (keep_decision fl dm (stored_latest d (e_id e)) (assoc (e_id e) (a_loc (k_acc a))) (e_c e)); reflexivity.
  - apply zmem_false in Ek.
    assert (Hnot : ~ In (e_id e) (dids d ++ pids a)) by (intros H; apply Ek; now apply (ci_known _ _ _ _ _ _ Hc)).
    assert (Hs : stored_latest d (e_id e) = None).
    { apply (stored_none_iff clk); [exact Hw|]. intros H. apply Hnot. apply in_or_app; now left. }
    assert (Hl : assoc (e_id e) (a_loc (k_acc a)) = None).
    { apply (ci_loc _ _ _ _ _ _ Hc). intros H. apply Hnot. apply in_or_app; now right. }
    rewrite Hs, Hl. destruct dm; reflexivity.
Qed.

Lemma cstep_cinv fl dm clk d t kn0 a i e :
  winv clk d -> cinv fl dm d t kn0 a -> cinv fl dm d t kn0 (cstep fl dm d t a (i, e)).
Proof.
  intros Hw Hc.
  pose proof (stored_none_iff clk d (e_id e) Hw) as Hsn.
  pose proof (ci_loc _ _ _ _ _ _ Hc (e_id e)) as Hln.
  unfold cstep.
  set (isnew := negb (zmem (e_id e) (k_kn a))).
  set (stored := if isnew then None else stored_latest d (e_id e)).
  set (loc := if isnew then None else assoc (e_id e) (a_loc (k_acc a))).
  (* in all cases the masked lookups equal the real ones *)
  assert (Hst : stored = stored_latest d (e_id e) /\ loc = assoc (e_id e) (a_loc (k_acc a))).
  { unfold stored, loc, isnew. destruct (zmem (e_id e) (k_kn a)) eqn:Ek; cbn [negb]; [split; reflexivity|].
    apply zmem_false in Ek.
    assert (Hnot : ~ In (e_id e) (dids d ++ pids a)) by (intros H; apply Ek; now apply (ci_known _ _ _ _ _ _ Hc)).
    split; symmetry.
    - apply Hsn. intros H. apply Hnot. apply in_or_app; now left.
    - apply Hln. intros H. apply Hnot. apply in_or_app; now right. }
  destruct Hst as [Hst Hlo].
  (* "seen before in this dataset or batch" *)
  assert (Hprev : (match stored, loc with None, None => true | _, _ => false end) = negb (zmem (e_id e) (dids d ++ pids a))).
  { rewrite Hst, Hlo, zmem_app.
    destruct (stored_latest d (e_id e)) eqn:E1.
    - assert (In (e_id e) (dids d)).
      { destruct (zmem (e_id e) (dids d)) eqn:Em; [now apply zmem_In|]. apply zmem_false in Em. apply Hsn in Em. congruence. }
      apply zmem_In in H. rewrite H. reflexivity.
    - assert (Hd : zmem (e_id e) (dids d) = false) by (apply zmem_false; now apply Hsn). rewrite Hd. cbn [orb].
      destruct (assoc (e_id e) (a_loc (k_acc a))) eqn:E2.
      + assert (In (e_id e) (pids a)).
        { destruct (zmem (e_id e) (pids a)) eqn:Em; [now apply zmem_In|]. apply zmem_false in Em. apply Hln in Em. congruence. }
        apply zmem_In in H. rewrite H. reflexivity.
      + assert (Hp : zmem (e_id e) (pids a) = false) by (apply zmem_false; now apply Hln). rewrite Hp. reflexivity. }
  (* a first occurrence is always kept *)
  assert (Hkeep : zmem (e_id e) (dids d ++ pids a) = false -> isnew || keep_decision fl dm stored loc (e_c e) = true).
  { intros Hz. rewrite Hz in Hprev. cbn [negb] in Hprev.
    destruct stored, loc; try discriminate. destruct dm; cbn; apply orb_true_r. }
  (* an id without internal id has never been seen in the dataset *)
  assert (Hnew : isnew = true -> zmem (e_id e) (dids d ++ pids a) = false).
  { unfold isnew. intros H. apply negb_true_iff in H. apply zmem_false in H. apply zmem_false.
    intros Hin. apply H. now apply (ci_known _ _ _ _ _ _ Hc). }
  destruct (isnew || keep_decision fl dm stored loc (e_c e)) eqn:Ekeep.
  - (* stored *)
    constructor; cbn [k_acc k_kn k_new a_loc a_pend a_latest a_next]; unfold pids; cbn [k_acc a_pend];
      rewrite ?map_app; cbn [map en_id]; fold (pids a).
    + intros id. rewrite assoc_cons. destruct (Z.eqb_spec id (e_id e)) as [->|Hne].
      * split; [discriminate|]. intros H. exfalso. apply H. apply in_or_app. right. now left.
      * rewrite (ci_loc _ _ _ _ _ _ Hc id). rewrite in_app_iff. cbn [In]. intuition congruence.
    + intros id. rewrite assoc_cons. destruct (Z.eqb_spec id (e_id e)) as [->|Hne].
      * split; [discriminate|]. intros H. exfalso. apply H. rewrite !in_app_iff. right. right. now left.
      * rewrite (ci_lat_none _ _ _ _ _ _ Hc id). rewrite !in_app_iff. cbn [In]. intuition congruence.
    + intros id t' b'. rewrite assoc_cons. destruct (Z.eqb_spec id (e_id e)) as [->|Hne].
      * intros [= <- <-]. rewrite app_assoc. apply find_entry_snoc_self.
      * intros H. rewrite app_assoc. apply find_entry_mono. now apply (ci_lat_some _ _ _ _ _ _ Hc).
    + apply Forall_app. split; [exact (ci_times _ _ _ _ _ _ Hc) | constructor; [reflexivity | constructor]].
    + rewrite app_assoc, ndistinct_snoc. rewrite (ci_new _ _ _ _ _ _ Hc).
      rewrite Hprev. destruct isnew eqn:Ein; cbn [negb andb].
      * rewrite (Hnew eq_refl). lia.
      * destruct (zmem (e_id e) (dids d ++ pids a)); cbn [negb]; lia.
    + intros x Hx. rewrite app_assoc in Hx. apply in_app_or in Hx. destruct Hx as [Hx|[<-|[]]].
      * right. apply in_or_app. right. now apply (ci_known _ _ _ _ _ _ Hc).
      * now left.
    + intros x Hx. right. apply in_or_app. right. now apply (ci_mono _ _ _ _ _ _ Hc).
  - (* skipped: only possible for an id already seen *)
    assert (Hz : zmem (e_id e) (dids d ++ pids a) = true).
    { destruct (zmem (e_id e) (dids d ++ pids a)) eqn:Ez; [reflexivity|]. specialize (Hkeep eq_refl). discriminate. }
    destruct Hc as [H1 H2 H3 H4 H5 H6 H7].
    constructor; cbn [k_acc k_kn k_new]; try assumption.
    rewrite Hprev, Hz. cbn [negb]. rewrite andb_false_r. exact H5.
Qed.

Lemma cfold_cinv fl dm clk d t kn0 : forall l a,
  winv clk d -> cinv fl dm d t kn0 a ->
  cinv fl dm d t kn0 (fold_left (cstep fl dm d t) l a)
  /\ k_acc (fold_left (cstep fl dm d t) l a) = fold_left (batch_step fl dm d t) l (k_acc a).
Proof.
  induction l as [|[i e] l IH]; intros a Hw Hc; cbn [fold_left]; [split; [exact Hc | reflexivity]|].
  destruct (IH (cstep fl dm d t a (i, e)) Hw (cstep_cinv fl dm clk d t kn0 a i e Hw Hc)) as [H1 H2].
  split; [exact H1|]. rewrite H2. f_equal. eapply cstep_is_batch_step; eassumption.
Qed.

Lemma pend_ids_subset fl dm d t : forall l a,
  incl (pids a) (map (fun p : Z * ent => e_id (snd p)) l ++ pids a) /\
  incl (pids (fold_left (cstep fl dm d t) l a)) (map (fun p : Z * ent => e_id (snd p)) l ++ pids a).
Proof.
  induction l as [|[i e] l IH]; intros a; cbn [fold_left map app].
  - split; apply incl_refl.
  - split; [intros x Hx; right; apply in_or_app; now right|].
    destruct (IH (cstep fl dm d t a (i, e))) as [_ H2].
    intros x Hx. apply H2 in Hx. apply in_app_or in Hx. destruct Hx as [Hx|Hx].
    + right. apply in_or_app. now left.
    + cbn [snd]. unfold cstep in Hx.
      destruct (negb (zmem (e_id e) (k_kn a)) || _) in Hx; unfold pids in Hx; cbn [k_acc a_pend] in Hx.
      * rewrite map_app in Hx. apply in_app_or in Hx. destruct Hx as [Hx|[<-|[]]]; [right; apply in_or_app; now right | now left].
      * right. apply in_or_app. now right.
Qed.

Lemma number_from_ids {A} (f : A -> Z) : forall (l : list A) i,
  map (fun p : Z * A => f (snd p)) (number_from i l) = map f l.
Proof. induction l as [|x l IH]; intros i; cbn [number_from map snd]; [reflexivity | now rewrite IH]. Qed.

(** ** C19 core: what one dataset's share of a batch or transaction does to the distinct-id count *)
Theorem cbatch_spec fl dm clk t ents d kn :
  winv clk d -> clk <= t -> incl (dids d) kn ->
  let '(d', kn', ni) := cbatch fl dm t ents d kn in
  d' = store_batch_ds fl dm t ents d
  /\ winv t d'
  /\ ndistinct (dids d') = ndistinct (dids d) + ni
  /\ 0 <= ni
  /\ incl kn kn' /\ incl (dids d') kn'
  /\ (forall id, In id (dids d') -> In id (dids d) \/ In id (map e_id ents))
  /\ incl (dids d) (dids d').
Proof.
  intros Hw Ht Hk. unfold cbatch.
  set (acc0 := {| k_acc := {| a_loc := []; a_pend := []; a_latest := d_latest d; a_next := d_next d |}; k_kn := kn; k_new := 0 |}).
  assert (H0 : cinv fl dm d t kn acc0).
  { constructor; unfold pids; cbn [acc0 k_acc k_kn k_new a_loc a_pend a_latest map]; rewrite ?app_nil_r.
    - intros; cbn; tauto.
    - apply (w_none _ _ Hw).
    - apply (w_some _ _ Hw).
    - constructor.
    - lia.
    - exact Hk.
    - apply incl_refl. }
  destruct (cfold_cinv fl dm clk d t kn (number_from 0 ents) acc0 Hw H0) as [Hc Hb].
  destruct (pend_ids_subset fl dm d t (number_from 0 ents) acc0) as [_ Hsub].
  set (a := fold_left (cstep fl dm d t) (number_from 0 ents) acc0) in *.
  assert (Hdids : dids {| d_entries := d_entries d ++ a_pend (k_acc a); d_latest := a_latest (k_acc a); d_next := a_next (k_acc a) |}
                  = dids d ++ pids a) by (unfold dids, pids; cbn [d_entries]; apply map_app).
  split; [|split; [|split; [|split; [|split; [|split; [|split]]]]]].
  - unfold store_batch_ds. rewrite Hb. reflexivity.
  - constructor; cbn [d_entries d_latest].
    + apply Forall_app. split.
      * eapply Forall_impl; [|exact (w_times _ _ Hw)]. cbv beta. intros; lia.
      * eapply Forall_impl; [|exact (ci_times _ _ _ _ _ _ Hc)]. cbv beta. intros; lia.
    + intros id. rewrite Hdids. apply (ci_lat_none _ _ _ _ _ _ Hc).
    + apply (ci_lat_some _ _ _ _ _ _ Hc).
  - rewrite Hdids, (ci_new _ _ _ _ _ _ Hc). lia.
  - rewrite (ci_new _ _ _ _ _ _ Hc).
    assert (forall l2 l1, ndistinct l1 <= ndistinct (l1 ++ l2)).
    { induction l2 as [|x l2 IH2]; intros l1; [rewrite app_nil_r; lia|].
      replace (l1 ++ x :: l2) with ((l1 ++ [x]) ++ l2) by (rewrite <- app_assoc; reflexivity).
      specialize (IH2 (l1 ++ [x])). rewrite ndistinct_snoc in IH2. destruct (zmem x l1); lia. }
    specialize (H (pids a) (dids d)). apply Z.le_0_sub. exact H.
  - exact (ci_mono _ _ _ _ _ _ Hc).
  - rewrite Hdids. exact (ci_known _ _ _ _ _ _ Hc).
  - intros id. rewrite Hdids. intros Hin. apply in_app_or in Hin. destruct Hin as [Hin|Hin]; [now left|].
    right. apply Hsub in Hin. unfold pids in Hin. cbn [acc0 k_acc a_pend map] in Hin. rewrite app_nil_r in Hin.
    now rewrite (number_from_ids e_id) in Hin.
  - rewrite Hdids. intros x Hx. apply in_or_app. now left.
Qed.

(** ** every history of writes to one dataset: the sum of the [newitems] of its batches and
    transaction shares is the number of distinct entity ids in its change log - whatever the
    duplicate mode, the write-time equality and the growth of [known] caused by other datasets *)
Fixpoint run_ds (fl : eqflags) (dm : dup_mode) (d : dstate) (kn : list uri) (t : Z)
         (ws : list (list ent * list uri)) : dstate * list uri * Z * Z :=
  match ws with
  | [] => (d, kn, t, 0)
  | (ents, extra) :: ws' =>
    let '(d', kn', ni) := cbatch fl dm (t + 1) ents d (extra ++ kn) in   (* [extra]: ids other datasets made known meanwhile *)
    let '(d'', kn'', t'', total) := run_ds fl dm d' kn' (t + 1) ws' in
    (d'', kn'', t'', ni + total)
  end.

Theorem run_ds_counts fl dm : forall ws d kn t,
  winv t d -> incl (dids d) kn ->
  let '(d', kn', t', total) := run_ds fl dm d kn t ws in
  ndistinct (dids d') = ndistinct (dids d) + total /\ winv t' d' /\ incl (dids d') kn'.
Proof.
  induction ws as [|[ents extra] ws IH]; intros d kn t Hw Hk; cbn [run_ds].
  - split; [lia | split; assumption].
  - assert (Hk' : incl (dids d) (extra ++ kn)) by (intros x Hx; apply in_or_app; right; now apply Hk).
    pose proof (cbatch_spec fl dm t (t + 1) ents d (extra ++ kn) Hw ltac:(lia) Hk') as Hs.
    destruct (cbatch fl dm (t + 1) ents d (extra ++ kn)) as [[d1 kn1] ni].
    destruct Hs as (_ & Hw1 & Hn1 & _ & _ & Hk1 & _ & _).
    specialize (IH d1 kn1 (t + 1) Hw1 Hk1).
    destruct (run_ds fl dm d1 kn1 (t + 1) ws) as [[[d2 kn2] t2] total].
    destruct IH as (Hn2 & Hw2 & Hk2). split; [lia | split; assumption].
Qed.

(** ** meta entities *)
Lemma meta_parse_content m : meta_parse (meta_content m) = m.
Proof.
  destruct m as [n [k p] i dl]. unfold meta_parse, meta_content, prop_code.
  cbn [c_props c_del m_name m_set m_items m_del s_kind s_pub].
  destruct (Z.eqb_spec k 0) as [->|Hk]; destruct p as [p|]; cbn; try reflexivity.
Qed.

Lemma digits_pos z : 1 <= digits z <= 7.
Proof. unfold digits. repeat match goal with |- context [if ?b then _ else _] => destruct b end; lia. Qed.

(** the write-time equality - pinned (length + old keys) or repaired, with or without the nested-entity
    quirk - never identifies two different meta entities: no write of a changed meta entity is dropped *)
Lemma meta_sound fl m m' : content_eqb fl (meta_content m) (meta_content m') = true -> m = m'.
Proof.
  destruct m as [n [k p] i dl], m' as [n' [k' p'] i' dl'].
  unfold content_eqb, meta_content, meta_len.
  cbn [c_props c_del c_refs c_len m_name m_set m_items m_del s_kind s_pub].
  destruct fl as [lk ob]. cbn [f_lenkeys f_objneq].
  assert (Hpv : forall a b, pval_eqb {| f_lenkeys := lk; f_objneq := ob |} (pv a) (pv b) = Z.eqb a b).
  { intros a b. unfold pval_eqb, pv. cbn. destruct ob; cbn; now rewrite andb_true_r. }
  destruct lk.
  - (* length + old keys *)
    rewrite !andb_true_iff. intros [[Hlen Hrefs] Hprops].
    apply Z.eqb_eq in Hlen.
    assert (k = k').
    { remember (type_uri k) as tk eqn:Etk. remember (type_uri k') as tk' eqn:Etk'.
      cbn in Hrefs. rewrite andb_true_r in Hrefs. unfold rval_eqb in Hrefs. cbn in Hrefs.
      rewrite andb_true_r in Hrefs. apply Z.eqb_eq in Hrefs. unfold type_uri in Etk, Etk'. lia. }
    clear Hrefs. subst k'.
    destruct (Z.eqb_spec k 0) as [->|Hk]; destruct p as [p|], p' as [p'|]; cbn in Hprops;
      rewrite ?Hpv, ?andb_true_r, ?andb_true_iff in Hprops;
      repeat match goal with H : _ /\ _ |- _ => destruct H end;
      repeat match goal with H : Z.eqb _ _ = true |- _ => apply Z.eqb_eq in H end;
      try discriminate; subst;
      destruct dl, dl'; try reflexivity; exfalso; pose proof (digits_pos i'); lia.
  - rewrite !andb_true_iff. intros [[Hdel Hrefs] Hprops].
    apply eqb_prop in Hdel. subst dl'.
    assert (k = k').
    { remember (type_uri k) as tk eqn:Etk. remember (type_uri k') as tk' eqn:Etk'.
      cbn in Hrefs. unfold rval_eqb in Hrefs. cbn in Hrefs. rewrite !andb_true_r in Hrefs.
      apply Z.eqb_eq in Hrefs. unfold type_uri in Etk, Etk'. lia. }
    clear Hrefs. subst k'.
    destruct (Z.eqb_spec k 0) as [->|Hk]; destruct p as [p|], p' as [p'|]; cbn in Hprops;
      rewrite ?Hpv, ?andb_true_r, ?andb_true_iff in Hprops;
      repeat match goal with H : _ /\ _ |- _ => destruct H end;
      repeat match goal with H : Z.eqb _ _ = true |- _ => apply Z.eqb_eq in H end;
      try discriminate; subst; reflexivity.
Qed.
