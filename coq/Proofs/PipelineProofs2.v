(** More proofs about Model/Pipeline.v (property C08): runs that end OK are at the end of every
    feed whatever fault was armed; fault-free fullsyncs end OK; a re-run with nothing new changes
    nothing whatever fault is armed; the sink only ever holds versions of its sources. *)
From Coq Require Import List ZArith Bool Arith Lia.
From DH Require Import Model.Pipeline Proofs.PipelineProofs.
Import ListNotations.

Section More.
  Variable eqf : version -> version -> bool.
  Variable dm : dup_mode.
  Hypothesis Heq : forall a b, eqf a b = true <-> a = b.

  Lemma proc_inc_ok {T} sink (stored : T) page newtok idx flt s t :
    proc_inc eqf dm sink stored page newtok idx flt = (s, t, Some OOk) ->
    page = [] /\ t = newtok /\ s = sink.
  Proof.
    unfold proc_inc. destruct page as [|x page]; cbn [nonempty andb negb].
    - rewrite ds_write_nil. destruct (is_diebefore flt idx); [discriminate|].
      destruct (is_dieafter flt idx); [discriminate|]. intros [= <- <-]. auto.
    - destruct (sink_fails flt idx (x :: page)); [discriminate|]. destruct (is_sinkpanic flt idx); [discriminate|].
      destruct (is_diebefore flt idx); [discriminate|]. destruct (is_dieafter flt idx); [discriminate|].
      destruct (is_kill flt idx); discriminate.
  Qed.

  (** *** an incremental run that ends OK has read to the end (any armed fault) *)
  Lemma inc_single_ok lo b src : forall fuel sink stored idx flt s t,
    safe1 src (asincr stored) sink ->
    inc_single fuel eqf dm lo b src sink stored idx flt = (s, t, OOk) ->
    t = Some (length src).
  Proof.
    induction fuel as [|fuel IH]; intros sink stored idx flt s t Hs H; cbn [inc_single] in H; [discriminate|].
    destruct (is_srcfail flt idx); [discriminate|].
    destruct (process_changes lo src (asincr stored) b) as [page next] eqn:Hp.
    destruct (proc_inc eqf dm sink stored page (Some next) idx flt) as [[s1 t1] r1] eqn:Hpi.
    destruct (safe1_advance eqf dm Heq _ _ _ _ _ _ _ Hs Hp) as [Hadv Hle].
    destruct r1 as [o1|].
    - injection H as <- <- ->. destruct (proc_inc_ok _ _ _ _ _ _ _ _ Hpi) as (-> & -> & _).
      destruct Hs as [Hle0 _]. destruct (page_empty_iff _ _ _ _ _ _ Hp Hle0) as (He & Hnx & _).
      rewrite (Hnx eq_refl). f_equal. now apply He.
    - destruct (proc_inc_cases eqf dm _ _ _ _ _ _ _ _ _ Hpi)
        as [(_ & _ & Hr & _)|[(_ & _ & Hr)|[(_ & _ & Hr)|(-> & -> & _ & _)]]]; try congruence.
      eapply (IH _ (Some next)); eauto.
  Qed.

  (** *** nothing new: nothing changes, whatever fault is armed *)
  Lemma inc_single_idem_any lo b src fuel sink n idx flt :
    length src <= n -> 0 < fuel ->
    exists o, inc_single fuel eqf dm lo b src sink (Some n) idx flt = (sink, Some n, o).
  Proof.
    intros Hn Hf. destruct fuel as [|fuel]; [lia|]. cbn [inc_single asincr].
    destruct (is_srcfail flt idx); [eauto|].
    unfold process_changes. rewrite (skipn_all2 src Hn). cbn [pc_loop].
    unfold proc_inc. cbn [nonempty andb negb]. rewrite ds_write_nil.
    destruct (is_diebefore flt idx); [eauto|]. destruct (is_dieafter flt idx); eauto.
  Qed.

  (** *** a fault-free fullsync reads to the end and ends OK *)
  Lemma full_single_nofault lo b src : forall fuel sink mem seen idx,
    safe1 src (asincr mem) sink -> length src - asincr mem < fuel ->
    exists s mem' seen', full_single fuel eqf dm lo b src sink mem seen idx FNone = (s, mem', seen', OOk).
  Proof.
    induction fuel as [|fuel IH]; intros sink mem seen idx Hs Hf; [lia|].
    cbn [full_single is_srcfail].
    destruct (process_changes lo src (asincr mem) b) as [page next] eqn:Hp.
    rewrite proc_full_nofault.
    destruct (safe1_advance eqf dm Heq _ _ _ _ _ _ _ Hs Hp) as [Hadv Hle].
    destruct Hs as [Hle0 Hs0].
    destruct (page_empty_iff _ _ _ _ _ _ Hp Hle0) as (He & Hnx & Hlt).
    destruct page as [|x page]; cbn [nonempty]; [eauto|].
    assert (Hne : x :: page <> []) by discriminate. specialize (Hlt Hne).
    assert (asincr mem <> length src) by (intros Hc; apply He in Hc; discriminate).
    apply (IH _ (Some next)); [exact Hadv | cbn [asincr]; lia].
  Qed.

  Section UnionMore.
    Variable owner : Z -> nat.
    Variables (los : list bool) (b : nat) (srcs : list (list version)).
    Hypothesis Hown : owned owner srcs.

    Lemma inc_union_ok : forall fuel sink stored mem a idx flt s t,
      a < length srcs -> safeK srcs mem sink ->
      (forall k, k < a -> nth k mem None = Some (length (nth k srcs []))) ->
      inc_union fuel eqf dm los b srcs sink stored mem a idx flt = (s, t, OOk) ->
      at_end srcs t.
    Proof.
      induction fuel as [|fuel IH]; intros sink stored mem a idx flt s t Ha Hmem Hdone H;
        cbn [inc_union] in H; [discriminate|].
      destruct (process_changes (nth a los false) (nth a srcs []) (asincr (nth a mem None)) b)
        as [page next] eqn:Hp.
      destruct (union_update mem a (Some next)) as [[mem1 keep] a'] eqn:Hu.
      assert (Hlm : length mem = length srcs) by apply Hmem.
      destruct (union_update_spec _ _ _ _ _ _ Hu ltac:(lia)) as (-> & Ha' & Hcase).
      destruct (union_iter eqf dm Heq owner los b srcs Hown sink mem a page next Ha Hmem Hp) as (F1 & Hnx & _).
      pose proof (proj2 Hmem a Ha) as [Hta _].
      destruct (page_empty_iff _ _ _ _ _ _ Hp Hta) as (He & Hnx0 & Hlt).
      assert (Hdone' : forall k, k < a -> nth k (upd a (Some next) mem) None = Some (length (nth k srcs []))).
      { intros k Hk. rewrite nth_upd_neq by lia. now apply Hdone. }
      assert (Hexh : Some next = nth a mem None -> page = [] /\ next = length (nth a srcs [])).
      { intros E. assert (Et : asincr (nth a mem None) = next) by (rewrite <- E; reflexivity).
        assert (page = []).
        { destruct page as [|x page]; [reflexivity|]. exfalso.
          assert (asincr (nth a mem None) < next) by (apply Hlt; discriminate). lia. }
        split; [assumption|]. rewrite <- Et. now apply He. }
      destruct (nonempty page || negb keep) eqn:Hc.
      - destruct (proc_inc eqf dm sink stored page (upd a (Some next) mem) idx flt) as [[s1 t1] r1] eqn:Hpi.
        destruct r1 as [o1|].
        + injection H as <- <- ->. destruct (proc_inc_ok _ _ _ _ _ _ _ _ Hpi) as (-> & -> & _).
          cbn [nonempty orb] in Hc. apply negb_true_iff in Hc. subst keep.
          destruct Hcase as [(_ & Hk & _)|[(_ & Hk & _)|(Heq1 & _ & -> & Hlast)]]; try discriminate.
          destruct (Hexh Heq1) as [_ Hend].
          split; [now rewrite upd_length|]. intros k Hk. destruct (Nat.eq_dec k a) as [->|Hka].
          * rewrite nth_upd_eq by lia. now rewrite Hend.
          * apply Hdone'. lia.
        + destruct (proc_inc_cases eqf dm _ _ _ _ _ _ _ _ _ Hpi)
            as [(_ & _ & Hr & _)|[(_ & _ & Hr)|[(_ & _ & Hr)|(-> & -> & _ & Hne)]]]; try congruence.
          destruct Hcase as [(Hneq & -> & ->)|[(Heq1 & _)|(Heq1 & _)]];
            try (destruct (Hexh Heq1) as [-> _]; congruence).
          eapply IH; [exact Ha | exact F1 | exact Hdone' | exact H].
      - apply orb_false_iff in Hc. destruct Hc as [Hc Hkeep]. apply negb_false_iff in Hkeep. subst keep.
        assert (page = []) by (destruct page; [reflexivity|discriminate]). subst page.
        rewrite ds_write_nil in F1.
        destruct Hcase as [(Hneq & _ & ->)|[(Heq1 & _ & ->)|(_ & Hk & _)]]; try discriminate.
        + eapply IH; [exact Ha | exact F1 | exact Hdone' | exact H].
        + destruct (Hexh Heq1) as [_ Hend].
          assert (Ha2 : S a < length srcs) by lia.
          eapply IH; [exact Ha2 | exact F1 | | exact H].
          intros k Hk. destruct (Nat.eq_dec k a) as [->|Hka].
          * rewrite nth_upd_eq by lia. now rewrite Hend.
          * apply Hdone'. lia.
    Qed.

    Lemma full_union_nofault : forall fuel sink mem seen a idx,
      a < length srcs -> safeK srcs mem sink ->
      umu srcs mem a < fuel ->
      exists s mem' seen', full_union fuel eqf dm los b srcs sink mem seen a idx FNone = (s, mem', seen', OOk).
    Proof.
      induction fuel as [|fuel IH]; intros sink mem seen a idx Ha Hmem Hf; [lia|].
      cbn [full_union].
      destruct (process_changes (nth a los false) (nth a srcs []) (asincr (nth a mem None)) b)
        as [page next] eqn:Hp.
      destruct (union_update mem a (Some next)) as [[mem' keep] a'] eqn:Hu.
      assert (Hlm : length mem = length srcs) by apply Hmem.
      destruct (union_update_spec _ _ _ _ _ _ Hu ltac:(lia)) as (-> & Ha' & Hcase).
      destruct (union_iter eqf dm Heq owner los b srcs Hown sink mem a page next Ha Hmem Hp) as (F1 & Hnx & _).
      pose proof (proj2 Hmem a Ha) as [Hta _].
      destruct (page_empty_iff _ _ _ _ _ _ Hp Hta) as (He & Hnx0 & Hlt).
      assert (Hnle : next <= length (nth a srcs [])).
      { pose proof (proj2 F1 a Ha) as [Hx _]. rewrite nth_upd_eq in Hx by lia. exact Hx. }
      rewrite umu_unfold in Hf by assumption.
      destruct Hcase as [(Hne & -> & ->)|[(Heq1 & -> & ->)|(Heq1 & -> & -> & Hlast)]].
      - assert (Hdec : umu srcs (upd a (Some next) mem) a < fuel).
        { rewrite umu_unfold by assumption. rewrite umu_upd by lia.
          unfold uterm in *. rewrite nth_upd_eq by lia. cbn [asincr].
          destruct (nth a mem None) as [p|] eqn:Ep; cbn [asincr] in *.
          - assert (next <> p) by congruence.
            destruct page as [|x page]; [specialize (Hnx0 eq_refl); lia|].
            assert (p < next) by (apply Hlt; discriminate). lia.
          - lia. }
        destruct page as [|x page].
        + cbn [nonempty orb negb]. rewrite ds_write_nil in F1. apply IH; auto.
        + cbn [nonempty orb]. rewrite proc_full_nofault. cbn [nonempty]. apply IH; auto.
      - assert (Et : asincr (nth a mem None) = next) by (rewrite <- Heq1; reflexivity).
        assert (page = []).
        { destruct page as [|x page]; [reflexivity|]. exfalso.
          assert (asincr (nth a mem None) < next) by (apply Hlt; discriminate). lia. }
        subst page. cbn [nonempty orb negb]. rewrite ds_write_nil in F1.
        apply IH; [lia | exact F1 | ].
        rewrite umu_upd by lia. unfold uterm in Hf. lia.
      - assert (Et : asincr (nth a mem None) = next) by (rewrite <- Heq1; reflexivity).
        assert (page = []).
        { destruct page as [|x page]; [reflexivity|]. exfalso.
          assert (asincr (nth a mem None) < next) by (apply Hlt; discriminate). lia. }
        subst page. cbn [nonempty orb negb]. rewrite proc_full_nofault. cbn [nonempty]. eauto.
    Qed.

    (** every write of the union loops is a page of some member *)
    Definition from_member (v : version) : Prop := exists k, k < length srcs /\ In v (nth k srcs []).

    Lemma inc_union_wrote : forall fuel sink stored mem a idx flt s t o,
      a < length srcs -> length mem = length srcs ->
      inc_union fuel eqf dm los b srcs sink stored mem a idx flt = (s, t, o) ->
      wrote eqf dm from_member sink s.
    Proof.
      induction fuel as [|fuel IH]; intros sink stored mem a idx flt s t o Ha Hlm H; cbn [inc_union] in H.
      - injection H as <- _ _. apply wrote_refl.
      - destruct (process_changes (nth a los false) (nth a srcs []) (asincr (nth a mem None)) b)
          as [page next] eqn:Hp.
        destruct (union_update mem a (Some next)) as [[mem1 keep] a'] eqn:Hu.
        destruct (union_update_spec _ _ _ _ _ _ Hu ltac:(lia)) as (-> & Ha' & _).
        assert (Hpg : forall v, In v page -> from_member v).
        { intros v Hv. exists a. split; [assumption|]. eapply page_src; eauto. }
        assert (Hl' : length (upd a (Some next) mem) = length srcs) by now rewrite upd_length.
        destruct (nonempty page || negb keep).
        + destruct (proc_inc eqf dm sink stored page (upd a (Some next) mem) idx flt) as [[s1 t1] r1] eqn:Hpi.
          destruct (proc_inc_cases eqf dm _ _ _ _ _ _ _ _ _ Hpi)
            as [(-> & -> & -> & _)|[(-> & -> & ->)|[(-> & -> & Hr)|(-> & -> & -> & _)]]].
          * injection H as <- _ _. apply wrote_refl.
          * injection H as <- _ _. now apply wrote_one.
          * destruct r1; [|congruence]. injection H as <- _ _. now apply wrote_one.
          * eapply wrote_step; [exact Hpg|]. eapply IH; [| exact Hl' | exact H]. lia.
        + eapply IH; [| exact Hl' | exact H]. lia.
    Qed.

    Lemma full_union_wrote : forall fuel sink mem seen a idx flt s mem' seen' o,
      a < length srcs -> length mem = length srcs ->
      full_union fuel eqf dm los b srcs sink mem seen a idx flt = (s, mem', seen', o) ->
      wrote eqf dm from_member sink s.
    Proof.
      induction fuel as [|fuel IH]; intros sink mem seen a idx flt s mem' seen' o Ha Hlm H; cbn [full_union] in H.
      - injection H as <- _ _ _. apply wrote_refl.
      - destruct (process_changes (nth a los false) (nth a srcs []) (asincr (nth a mem None)) b)
          as [page next] eqn:Hp.
        destruct (union_update mem a (Some next)) as [[mem1 keep] a'] eqn:Hu.
        destruct (union_update_spec _ _ _ _ _ _ Hu ltac:(lia)) as (-> & Ha' & _).
        assert (Hpg : forall v, In v page -> from_member v).
        { intros v Hv. exists a. split; [assumption|]. eapply page_src; eauto. }
        assert (Hl' : length (upd a (Some next) mem) = length srcs) by now rewrite upd_length.
        destruct (nonempty page || negb keep).
        + destruct (proc_full eqf dm sink page idx flt) as [s1 r1] eqn:Hpf.
          destruct (proc_full_cases eqf dm _ _ _ _ _ _ Hpf)
            as [(-> & -> & _)|[(-> & Hr & _)|[(-> & -> & ->)|(-> & -> & Hne)]]].
          * injection H as <- _ _ _. apply wrote_refl.
          * destruct Hr as [-> | ->]; injection H as <- _ _ _; now apply wrote_one.
          * injection H as <- _ _ _. now apply wrote_one.
          * eapply wrote_step; [exact Hpg|]. eapply IH; [| exact Hl' | exact H]. lia.
        + eapply IH; [| exact Hl' | exact H]. lia.
    Qed.
  End UnionMore.
End More.

(** nothing new for a union source, whatever fault is armed *)
Lemma inc_union_idem_any eqf dm los b srcs : forall fuel sink mem a idx flt,
  at_end srcs mem -> a < length srcs -> length srcs - a <= fuel ->
  exists o, inc_union fuel eqf dm los b srcs sink mem mem a idx flt = (sink, mem, o).
Proof.
  induction fuel as [|fuel IH]; intros sink mem a idx flt Hend Ha Hf; [lia|].
  destruct Hend as [Hl He]. cbn [inc_union]. rewrite (He a Ha). cbn [asincr].
  unfold process_changes. rewrite skipn_all. cbn [pc_loop].
  unfold union_update. rewrite (He a Ha). cbn [token_eqb]. rewrite Nat.eqb_refl.
  rewrite <- (He a Ha), upd_same by lia.
  destruct (S a <? length mem) eqn:L.
  - apply Nat.ltb_lt in L. cbn [nonempty orb negb]. apply IH; [split; assumption | lia | lia].
  - cbn [nonempty orb negb]. unfold proc_inc. cbn [nonempty andb negb]. rewrite ds_write_nil.
    destruct (is_diebefore flt idx); [eauto|]. destruct (is_dieafter flt idx); eauto.
Qed.

(** ** Whole runs *)
Section Runs2.
  Variable owner : Z -> nat.
  Variable n : nat.
  Variable v : variant.
  Hypothesis Hv : vm_eq v = EqFull.

  Let eqf := weq (vm_eq v).
  Let dm := vm_dup v.
  Let Heq := Heqf v Hv.

  (** an incremental run that ends OK - fault armed or not - has converged *)
  Lemma run_inc_ok st r st' :
    good owner n st -> wf_op owner n (ORun r) -> r_full r = false ->
    run_job v st r = (st', OOk) -> converged st' /\ good owner n st'.
  Proof.
    intros Hg Hwf Hfull H.
    pose proof (run_inc_safe owner n v Hv _ _ _ _ Hg Hwf Hfull H) as Hg'.
    split; [|exact Hg']. apply at_end_converged; [|apply Hg'].
    destruct Hg as (Hn & Hown & [Hlen Hs]). destruct Hwf as (Hb & Hn1 & Hsingle & _ & _).
    unfold run_job in H. destruct (early_fail r); [discriminate|].
    unfold run_body in H. rewrite Hfull in H. fold eqf dm in H.
    destruct (r_union r) eqn:Hu.
    - destruct (inc_union _ _ _ _ _ _ _ _ _ _ _ _) as [[s t] o1] eqn:Hrun in H.
      injection H as <- ->. cbn [st_srcs st_tok].
      assert (Ha : 0 < length (st_srcs st)) by lia.
      eapply (inc_union_ok eqf dm Heq owner (r_los r) (r_b r) (st_srcs st) Hown);
        [exact Ha | exact (conj Hlen Hs) | | exact Hrun].
      intros k Hk; lia.
    - destruct (inc_single _ _ _ _ _ _ _ _ _ _) as [[s t] o1] eqn:Hrun in H.
      injection H as <- ->. cbn [st_srcs st_tok].
      assert (Hn' : length (st_srcs st) = 1) by (rewrite Hn; now apply Hsingle).
      rewrite (inc_single_ok eqf dm Heq _ _ _ _ _ _ _ _ _ _ (Hs 0 ltac:(lia)) Hrun).
      rewrite Hn' in Hlen. clear Hs Hrun Hg'.
      destruct (st_tok st) as [|t0 [|t1 l]]; cbn in Hlen; try lia.
      split; [cbn; lia|]. intros k Hk. assert (k = 0) by lia. subst k. reflexivity.
  Qed.

  (** every run that ends OK has converged; a fullsync has also deleted foreign entities *)
  Lemma run_ok_converged st r st' :
    good owner n st -> wf_op owner n (ORun r) -> run_job v st r = (st', OOk) ->
    converged st' /\ good owner n st' /\ (r_full r = true -> foreign_deleted st').
  Proof.
    intros Hg Hwf H. destruct (r_full r) eqn:Hfull.
    - destruct Hg as (Hn & Hown & [Hl _]).
      assert (Hnt : length (st_tok st) = n) by lia.
      destruct (run_full_ok owner n v Hv st r st' Hn Hnt Hown Hwf Hfull H) as (_ & C & F & G). auto.
    - destruct (run_inc_ok st r st' Hg Hwf Hfull H). split; [assumption|]. split; [assumption|]. discriminate.
  Qed.

  (** a fault-free fullsync ends OK, from any sink content and any persisted token *)
  Lemma run_full_nofault st r :
    length (st_srcs st) = n -> owned owner (st_srcs st) -> wf_op owner n (ORun r) ->
    r_full r = true -> r_flt r = FNone ->
    exists st', run_job v st r = (st', OOk).
  Proof.
    intros Hn Hown (Hb & Hn1 & Hsingle & _ & _) Hfull Hflt.
    unfold run_job. rewrite (early_fail_none _ Hflt).
    unfold run_body. rewrite Hfull, Hflt. fold eqf dm.
    destruct (r_union r) eqn:Hu.
    - destruct (full_union_nofault eqf dm Heq owner (r_los r) (r_b r) (st_srcs st) Hown
                  (fuel_of (st_srcs st)) (st_sink st) (none_tokens (st_srcs st)) [] 0 0)
        as (s & mem & seen & ->); [lia | apply safeK_none | | eauto].
      pose proof (umu_bound (st_srcs st) (none_tokens (st_srcs st))). unfold fuel_of. lia.
    - destruct (full_single_nofault eqf dm Heq (nth 0 (r_los r) false) (r_b r) (nth 0 (st_srcs st) [])
                  (fuel_of (st_srcs st)) (st_sink st) None [] 0)
        as (s & mem & seen & ->); [apply safe1_zero | | eauto].
      pose proof (nth_le_total (st_srcs st) 0). unfold fuel_of. cbn [asincr]. lia.
  Qed.
End Runs2.

(** re-running with nothing new changes nothing, whatever fault is armed (any variant) *)
Lemma run_idem_any owner n v st r :
  at_end (st_srcs st) (st_tok st) -> length (st_srcs st) = n -> wf_op owner n (ORun r) ->
  r_full r = false -> exists o, run_job v st r = (st, o).
Proof.
  intros Hend Hn (Hb & Hn1 & Hsingle & _ & _) Hfull.
  unfold run_job. destruct st as [srcs sink tok]. cbn [st_srcs st_sink st_tok] in *.
  destruct (early_fail r); [rewrite Hfull; eauto|].
  unfold run_body. rewrite Hfull. cbn [st_srcs st_sink st_tok].
  destruct (r_union r) eqn:Hu.
  - destruct (inc_union_idem_any (weq (vm_eq v)) (vm_dup v) (r_los r) (r_b r) srcs (fuel_of srcs) sink tok 0 0 (r_flt r))
      as (o & ->); [assumption | lia | unfold fuel_of; lia | eauto].
  - destruct Hend as [Hl He]. assert (Hn' : length srcs = 1) by (rewrite Hn; now apply Hsingle).
    rewrite (He 0 ltac:(lia)).
    destruct (inc_single_idem_any (weq (vm_eq v)) (vm_dup v) (nth 0 (r_los r) false) (r_b r) (nth 0 srcs [])
                (fuel_of srcs) sink (length (nth 0 srcs [])) 0 (r_flt r)) as (o & ->);
      [lia | unfold fuel_of; lia |].
    rewrite <- (He 0 ltac:(lia)), upd_same by lia. eauto.
Qed.

(** ** A job only copies: the sink's version of an entity owned by a source member is a
    version of that member's feed *)
Definition okv (owner : Z -> nat) (srcs : list (list version)) (x : version) : Prop :=
  owner (v_id x) < length srcs -> In x (nth (owner (v_id x)) srcs []).
Definition orig (owner : Z -> nat) (srcs : list (list version)) (sink : list version) : Prop :=
  forall i w, cur sink i = Some w -> okv owner srcs w.

Section Origin.
  Variable owner : Z -> nat.
  Variable n : nat.
  Variable v : variant.
  Hypothesis Hv : vm_eq v = EqFull.

  Let eqf := weq (vm_eq v).
  Let dm := vm_dup v.
  Let Heq := Heqf v Hv.

  Lemma orig_write srcs sink es :
    orig owner srcs sink -> (forall x, In x es -> okv owner srcs x) ->
    orig owner srcs (ds_write eqf dm sink es).
  Proof.
    intros Ho Hes i w. rewrite (ds_write_cur eqf dm Heq).
    destruct (cur es i) as [x|] eqn:E.
    - intros [= <-]. apply Hes. now destruct (cur_some _ _ _ E).
    - apply Ho.
  Qed.

  Lemma orig_wrote srcs sink s :
    wrote eqf dm (okv owner srcs) sink s -> orig owner srcs sink -> orig owner srcs s.
  Proof. induction 1 as [|s0 es s' Hes _ IH]; [auto|]. intros Ho. apply IH. now apply orig_write. Qed.

  Lemma okv_member srcs k x :
    owned owner srcs -> k < length srcs -> In x (nth k srcs []) -> okv owner srcs x.
  Proof. intros Hown Hk Hx _. rewrite (Hown k x Hx). exact Hx. Qed.

  Lemma orig_complete srcs s seen :
    orig owner srcs s ->
    (forall k i, k < length srcs -> In i (ids (nth k srcs [])) -> In i seen) ->
    orig owner srcs (complete eqf dm s seen).
  Proof.
    intros Ho Hseen i w. rewrite (complete_cur eqf dm Heq).
    destruct (cur s i) as [x|] eqn:E; [|discriminate].
    destruct (negb (v_del x) && negb (zmem i seen)) eqn:C.
    - intros [= <-]. intros Hlt. exfalso. cbn [set_del v_id] in Hlt.
      apply andb_true_iff in C. destruct C as [_ C]. apply negb_true_iff, zmem_false in C. apply C.
      destruct (cur_some _ _ _ E) as [Hid _].
      apply (Hseen (owner (v_id x)) i Hlt). rewrite <- Hid. apply In_ids. exact (Ho i x E Hlt).
    - intros [= <-]. exact (Ho i x E).
  Qed.

  Lemma orig_grow srcs srcs' sink :
    length srcs' = length srcs ->
    (forall j x, In x (nth j srcs []) -> In x (nth j srcs' [])) ->
    orig owner srcs sink -> orig owner srcs' sink.
  Proof. intros Hl Hin Ho i w E Hlt. apply Hin. apply (Ho i w E). now rewrite <- Hl. Qed.

  Lemma run_orig st r st' o :
    good owner n st -> orig owner (st_srcs st) (st_sink st) -> wf_op owner n (ORun r) ->
    run_job v st r = (st', o) -> orig owner (st_srcs st') (st_sink st').
  Proof.
    intros (Hn & Hown & [Hlen Hs]) Ho (Hb & Hn1 & Hsingle & _ & _) H.
    assert (Hmem : forall s, wrote eqf dm (from_member (st_srcs st)) (st_sink st) s -> orig owner (st_srcs st) s).
    { intros s W. apply orig_wrote with (st_sink st); [|exact Ho].
      eapply wrote_weaken; [|exact W]. intros x (k & Hk & Hx). eapply okv_member; eauto. }
    unfold run_job in H. destruct (early_fail r).
    { injection H as <- _. exact Ho. }
    unfold run_body in H. fold eqf dm in H.
    destruct (r_full r) eqn:Hfull; destruct (r_union r) eqn:Hu.
    - destruct (full_union _ _ _ _ _ _ _ _ _ _ _ _) as [[[s mem] seen] o1] eqn:Hrun in H.
      assert (Ha : 0 < length (st_srcs st)) by lia.
      pose proof (full_union_wrote eqf dm (r_los r) (r_b r) (st_srcs st) _ _ _ _ _ _ _ _ _ _ _
                    Ha (none_tokens_length _) Hrun) as W.
      destruct o1; injection H as <- _; cbn [st_srcs st_sink]; try (now apply Hmem).
      destruct (full_union_spec eqf dm Heq owner (r_los r) (r_b r) (st_srcs st) Hown _ _ _ _ _ _ _ _ _ _ _
                  Ha (safeK_none _ _) ltac:(intros k Hk; lia) Hrun) as (_ & _ & Hok).
      destruct (Hok eq_refl) as (_ & _ & S3).
      apply orig_complete; [now apply Hmem|].
      intros k i Hk Hi. apply (S3 k i); [lia|]. now rewrite nth_none_tokens.
    - destruct (full_single _ _ _ _ _ _ _ _ _ _ _) as [[[s mem] seen] o1] eqn:Hrun in H.
      assert (Hn' : length (st_srcs st) = 1) by (rewrite Hn; now apply Hsingle).
      destruct (full_single_spec eqf dm Heq _ _ _ _ _ None _ _ _ _ _ _ _ (safe1_zero _ _) Hrun)
        as (W & _ & _ & Hok).
      assert (W' : wrote eqf dm (from_member (st_srcs st)) (st_sink st) s).
      { eapply wrote_weaken; [|exact W]. intros x Hx. exists 0. split; [lia | exact Hx]. }
      destruct o1; injection H as <- _; cbn [st_srcs st_sink]; try (now apply Hmem).
      destruct (Hok eq_refl) as (_ & _ & S3). cbn [asincr skipn] in S3.
      apply orig_complete; [now apply Hmem|].
      intros k i Hk Hi. assert (k = 0) by lia. subst k. now apply S3.
    - destruct (inc_union _ _ _ _ _ _ _ _ _ _ _ _) as [[s t] o1] eqn:Hrun in H.
      injection H as <- _. cbn [st_srcs st_sink]. apply Hmem.
      eapply (inc_union_wrote eqf dm (r_los r) (r_b r) (st_srcs st)); [| exact Hlen | exact Hrun]. lia.
    - destruct (inc_single _ _ _ _ _ _ _ _ _ _) as [[s t] o1] eqn:Hrun in H.
      injection H as <- _. cbn [st_srcs st_sink]. apply Hmem.
      assert (Hn' : length (st_srcs st) = 1) by (rewrite Hn; now apply Hsingle).
      destruct (inc_single_safe eqf dm Heq _ _ _ _ _ _ _ _ _ _ _ (Hs 0 ltac:(lia)) Hrun) as [_ W].
      eapply wrote_weaken; [|exact W]. intros x Hx. exists 0. split; [lia | exact Hx].
  Qed.

  Lemma step_orig st o st' out :
    good owner n st -> orig owner (st_srcs st) (st_sink st) -> wf_op owner n o ->
    step v st o = (st', out) -> orig owner (st_srcs st') (st_sink st').
  Proof.
    intros Hg Ho Hwf H. destruct o as [k es|es| | |r].
    - cbn [step] in H. injection H as <- _. cbn [st_srcs st_sink].
      destruct (ds_write_prefix (weq (vm_eq v)) (vm_dup v) (nth k (st_srcs st) []) es) as (w & Ew & _).
      apply orig_grow with (st_srcs st); [now rewrite upd_length | | exact Ho].
      intros j x Hx. destruct Hwf as [Hk _]. destruct Hg as (Hn & _).
      destruct (Nat.eq_dec j k) as [->|Hjk].
      + rewrite nth_upd_eq by lia. rewrite Ew. apply in_or_app. now left.
      + now rewrite nth_upd_neq by congruence.
    - cbn [step] in H. injection H as <- _. cbn [st_srcs st_sink]. fold eqf dm.
      apply orig_write; [exact Ho|]. intros x Hx Hlt. cbn [wf_op] in Hwf. specialize (Hwf x Hx).
      destruct Hg as (Hn & _). lia.
    - destruct Hwf.
    - cbn [step] in H. injection H as <- _. exact Ho.
    - cbn [step] in H. unfold run_any in H. rewrite (proj2 (proj2 (proj2 (proj2 Hwf)))) in H.
      destruct (run_job v st r) as [st1 o1] eqn:Hrun. injection H as <- _.
      eapply run_orig; eauto.
  Qed.
End Origin.

Lemma init_orig owner n : orig owner (st_srcs (init_state n)) (st_sink (init_state n)).
Proof. intros i w H. discriminate. Qed.

(** ** When exactly the tree that keeps the old token during a fullsync is unsafe *)

Lemma cur_prefix_nopending src t i : ~ pending src t i -> cur (firstn t src) i = cur src i.
Proof.
  intros H. rewrite <- (firstn_skipn t src) at 2. rewrite cur_app.
  assert (E : cur (skipn t src) i = None) by now apply cur_none.
  now rewrite E.
Qed.

(** token safety says: on every entity the token has passed, the sink has the source's latest version *)
Lemma safe1_latest src t sink : t <= length src ->
  (safe1 src t sink <-> forall i, In i (ids src) -> ~ pending src t i -> cur sink i = cur src i).
Proof.
  intros Hle. split.
  - intros [_ H] i Hi Hnp. destruct (H i Hi) as [Hp|He]; [contradiction|].
    now rewrite He, cur_prefix_nopending.
  - intros H. split; [assumption|]. intros i Hi.
    destruct (in_dec Z.eq_dec i (ids (skipn t src))) as [Hp|Hnp]; [now left|right].
    rewrite (H i Hi Hnp). symmetry. now apply cur_prefix_nopending.
Qed.

(** A fullsync that does not complete leaves the old token (pinned behaviour).  The resulting
    state is token-safe iff the sink still has the source's latest version of every entity the
    token has passed; whatever version it has instead is a (historical) version of that source. *)
Theorem keep_failed_full_char owner n v st r st' o :
  vm_eq v = EqFull -> vm_fs v = FsKeep ->
  good owner n st -> orig owner (st_srcs st) (st_sink st) -> wf_op owner n (ORun r) ->
  r_full r = true -> run_job v st r = (st', o) -> o <> OOk ->
  st_srcs st' = st_srcs st /\ st_tok st' = st_tok st
  /\ (token_safe st' <->
      forall k i, k < length (st_srcs st) -> In i (ids (nth k (st_srcs st) [])) ->
                  ~ pending (nth k (st_srcs st) []) (asincr (nth k (st_tok st) None)) i ->
                  cur (st_sink st') i = cur (nth k (st_srcs st) []) i)
  /\ (forall k i w, k < length (st_srcs st) -> In i (ids (nth k (st_srcs st) [])) ->
                    cur (st_sink st') i = Some w -> In w (nth k (st_srcs st) [])).
Proof.
  intros Hv Hfs Hg Ho Hwf Hfull Hrun Hne.
  destruct (run_full_token v st r st' o Hfull Hrun Hne) as [E1 E2]. rewrite Hfs in E2.
  pose proof (run_orig owner n v Hv st r st' o Hg Ho Hwf Hrun) as Ho'.
  destruct Hg as (Hn & Hown & [Hlen Hs]).
  split; [exact E1|]. split; [exact E2|]. split.
  - unfold token_safe. rewrite E1, E2. split.
    + intros [_ H] k i Hk Hi Hnp. destruct (Hs k Hk) as [Hle _].
      exact (proj1 (safe1_latest _ _ _ Hle) (H k Hk) i Hi Hnp).
    + intros H. split; [exact Hlen|]. intros k Hk. destruct (Hs k Hk) as [Hle _].
      apply (safe1_latest _ _ _ Hle). intros i Hi Hnp. now apply (H k i).
  - intros k i w Hk Hi E. rewrite E1 in Ho'. destruct (cur_some _ _ _ E) as [Hid _].
    destruct (In_ids_inv _ _ Hi) as (x & Hx & Hxi).
    assert (Hok : owner (v_id w) = k) by (rewrite Hid, <- Hxi; now apply Hown).
    specialize (Ho' i w E). unfold okv in Ho'. rewrite Hok in Ho'. now apply Ho'.
Qed.

(** ** A run while the sink dataset does not exist (the sink is resolved by name at every call)
    writes nothing and does not move any token forward *)
Lemma proc_inc_nosink {T} eqf dm sink (stored : T) page newtok idx s t r :
  proc_inc eqf dm sink stored page newtok idx FNoSink = (s, t, r) ->
  s = sink /\ ((page <> [] /\ t = stored /\ r = Some OFailed) \/ (page = [] /\ t = newtok /\ r = Some OOk)).
Proof.
  unfold proc_inc. destruct page as [|x page]; cbn [nonempty andb negb sink_fails is_sinkfail is_nosink orb
    is_sinkpanic is_diebefore is_dieafter is_kill].
  - rewrite ds_write_nil. intros [= <- <- <-]. auto.
  - intros [= <- <- <-]. split; [reflexivity|]. left. repeat split. discriminate.
Qed.

Lemma page_empty_next lo src t b page next :
  process_changes lo src t b = (page, next) -> page = [] -> next = t.
Proof.
  intros Hp ->. destruct (process_changes_spec _ _ _ _ _ _ Hp) as (n & Hn & _ & Hne & Hnil & _).
  destruct (skipn t src) as [|x rest] eqn:E.
  - destruct (Hnil eq_refl) as [_ ->]. lia.
  - destruct (Hne ltac:(discriminate)) as [_ Hc]. congruence.
Qed.

Lemma inc_single_nosink eqf dm lo b src fuel sink stored idx s t o :
  inc_single fuel eqf dm lo b src sink stored idx FNoSink = (s, t, o) ->
  s = sink /\ asincr t = asincr stored.
Proof.
  destruct fuel as [|fuel]; cbn [inc_single is_srcfail]; [intros [= <- <- _]; auto|].
  destruct (process_changes lo src (asincr stored) b) as [page next] eqn:Hp.
  destruct (proc_inc eqf dm sink stored page (Some next) idx FNoSink) as [[s1 t1] r1] eqn:Hpi.
  destruct (proc_inc_nosink _ _ _ _ _ _ _ _ _ _ Hpi) as (-> & [(_ & -> & ->)|(He & -> & ->)]);
    intros [= <- <- _]; split; auto.
  cbn [asincr]. eapply page_empty_next; eauto.
Qed.

Lemma inc_union_nosink eqf dm los b srcs : forall fuel sink stored mem a idx s t o,
  length mem = length stored -> a < length mem ->
  (forall k, asincr (nth k mem None) = asincr (nth k stored None)) ->
  inc_union fuel eqf dm los b srcs sink stored mem a idx FNoSink = (s, t, o) ->
  s = sink /\ length t = length stored /\ forall k, asincr (nth k t None) = asincr (nth k stored None).
Proof.
  induction fuel as [|fuel IH]; intros sink stored mem a idx s t o Hl Ha Hpos H; cbn [inc_union] in H.
  - injection H as <- <- _. auto.
  - destruct (process_changes (nth a los false) (nth a srcs []) (asincr (nth a mem None)) b)
      as [page next] eqn:Hp.
    destruct (union_update mem a (Some next)) as [[mem1 keep] a'] eqn:Hu.
    destruct (union_update_spec _ _ _ _ _ _ Hu Ha) as (-> & Ha' & _).
    assert (Hpos' : page = [] -> forall k, asincr (nth k (upd a (Some next) mem) None) = asincr (nth k stored None)).
    { intros He k. destruct (Nat.eq_dec k a) as [->|Hka].
      - rewrite nth_upd_eq by assumption. cbn [asincr]. rewrite (page_empty_next _ _ _ _ _ _ Hp He). apply Hpos.
      - rewrite nth_upd_neq by congruence. apply Hpos. }
    destruct (nonempty page || negb keep) eqn:Hc.
    + destruct (proc_inc eqf dm sink stored page (upd a (Some next) mem) idx FNoSink) as [[s1 t1] r1] eqn:Hpi.
      destruct (proc_inc_nosink _ _ _ _ _ _ _ _ _ _ Hpi) as (-> & [(_ & -> & ->)|(He & -> & ->)]);
        injection H as <- <- _.
      * auto.
      * split; [reflexivity|]. split; [now rewrite upd_length|]. now apply Hpos'.
    + apply orb_false_iff in Hc. destruct Hc as [Hc _].
      assert (He : page = []) by (destruct page; [reflexivity|discriminate]).
      eapply IH; [| | | exact H]; [now rewrite upd_length | now rewrite upd_length | now apply Hpos'].
Qed.

Theorem run_nosink v st r st' o :
  r_flt r = FNoSink -> length (st_tok st) = length (st_srcs st) -> 1 <= length (st_srcs st) ->
  run_job v st r = (st', o) ->
  st_sink st' = st_sink st /\ st_srcs st' = st_srcs st /\ length (st_tok st') = length (st_tok st)
  /\ forall k, asincr (nth k (st_tok st') None) <= asincr (nth k (st_tok st) None).
Proof.
  intros Hflt Hl Hn H. unfold run_job, early_fail in H. rewrite Hflt in H. cbn [is_srcfail is_nosink] in H.
  rewrite andb_false_r, andb_true_r in H. cbn [orb] in H.
  destruct (r_full r) eqn:Hfull.
  - injection H as <- _. cbn [st_sink st_srcs st_tok]. split; [reflexivity|]. split; [reflexivity|].
    destruct (vm_fs v); [auto|]. split; [rewrite none_tokens_length; lia|].
    intros k. rewrite nth_none_tokens. cbn. lia.
  - unfold run_body in H. rewrite Hfull, Hflt in H. destruct (r_union r).
    + destruct (inc_union _ _ _ _ _ _ _ _ _ _ _ _) as [[s t] o1] eqn:Hrun in H. injection H as <- _.
      assert (Ha0 : 0 < length (st_tok st)) by lia.
      destruct (inc_union_nosink _ _ _ _ _ _ _ _ _ _ _ _ _ _ eq_refl Ha0 (fun k => eq_refl) Hrun)
        as (-> & Hlt & Hp).
      cbn [st_sink st_srcs st_tok]. repeat split; auto. intros k. rewrite Hp. lia.
    + destruct (inc_single _ _ _ _ _ _ _ _ _ _) as [[s t] o1] eqn:Hrun in H. injection H as <- _.
      destruct (inc_single_nosink _ _ _ _ _ _ _ _ _ _ _ _ Hrun) as (-> & Hp).
      cbn [st_sink st_srcs st_tok]. split; [reflexivity|]. split; [reflexivity|].
      destruct (st_tok st) as [|t0 l]; [cbn in Hl; lia|]. cbn [upd nth length] in *.
      split; [reflexivity|]. intros [|k]; cbn [nth]; lia.
Qed.

Lemma run_any_srcs v st r st' o : run_any v st r = (st', o) -> st_srcs st' = st_srcs st.
Proof.
  unfold run_any. destruct (entities_mode r); [|apply run_srcs].
  unfold run_entities. intros [= <- _]. reflexivity.
Qed.

(** ** Fullsync in entities mode (HttpDatasetSink): the receiver ends with the source's latest view *)
Lemma latest_incl f v : In v (latest f) -> In v f.
Proof.
  induction f as [|w f IH]; cbn; [auto|]. destruct (zmem (v_id w) (ids f)); [auto|].
  intros [<-|H]; auto.
Qed.

Lemma latest_cur f i : cur (latest f) i = cur f i.
Proof.
  induction f as [|w f IH]; [reflexivity|]. cbn [latest cur].
  destruct (zmem (v_id w) (ids f)) eqn:Z.
  - rewrite IH. destruct (cur f i) eqn:E; [reflexivity|].
    destruct (Z.eqb_spec (v_id w) i) as [<-|]; [|reflexivity].
    apply zmem_In in Z. apply cur_none in E. contradiction.
  - cbn [cur]. now rewrite IH.
Qed.

Lemma cur_flat_latest owner : forall srcs k0,
  (forall j x, In x (nth j srcs []) -> owner (v_id x) = k0 + j) ->
  forall k i, k < length srcs -> In i (ids (nth k srcs [])) ->
  cur (flat_map latest srcs) i = cur (nth k srcs []) i.
Proof.
  induction srcs as [|f srcs IH]; intros k0 Hown k i Hk Hi; [cbn in Hk; lia|].
  cbn [flat_map]. rewrite cur_app. destruct k as [|k].
  - cbn [nth] in *. destruct (cur (flat_map latest srcs) i) as [w|] eqn:E; [|apply latest_cur].
    exfalso. destruct (cur_some _ _ _ E) as [Hid Hin]. apply in_flat_map in Hin.
    destruct Hin as (s & Hs & Hw). apply latest_incl in Hw.
    destruct (In_nth _ _ [] Hs) as (j & Hj & Ej). rewrite <- Ej in Hw.
    pose proof (Hown (S j) w Hw) as H1. cbn [nth] in H1.
    destruct (In_ids_inv _ _ Hi) as (x & Hx & Hxi). pose proof (Hown 0 x Hx) as H2. cbn [nth] in H2.
    rewrite Hid in H1. rewrite Hxi in H2. lia.
  - cbn [nth length] in *.
    assert (Hown' : forall j x, In x (nth j srcs []) -> owner (v_id x) = S k0 + j).
    { intros j x Hx. rewrite (Hown (S j) x Hx). lia. }
    rewrite (IH (S k0) Hown' k i ltac:(lia) Hi).
    destruct (cur_in _ _ Hi) as (w & ->). reflexivity.
Qed.

Theorem run_entities_converges owner v st r st' o :
  vm_eq v = EqFull -> owned owner (st_srcs st) -> rejected r = None ->
  run_entities v st r = (st', o) ->
  o = OOk /\ st_srcs st' = st_srcs st
  /\ st_tok st' = match vm_fs v with FsKeep => st_tok st | FsReset => none_tokens (st_srcs st) end
  /\ (forall k i, k < length (st_srcs st) -> In i (ids (nth k (st_srcs st) [])) ->
        cur (st_sink st') i = cur (nth k (st_srcs st) []) i)
  /\ foreign_deleted st'.
Proof.
  intros Hv Hown Hrej H. unfold run_entities in H. rewrite Hrej in H. injection H as <- <-.
  pose proof (Heqf v Hv) as Heq. cbn [st_srcs st_sink st_tok].
  set (all := flat_map latest (st_srcs st)).
  assert (Hall : forall i, In i (ids all) <-> exists k, k < length (st_srcs st) /\ In i (ids (nth k (st_srcs st) []))).
  { intros i. split.
    - intros Hi. destruct (In_ids_inv _ _ Hi) as (w & Hw & <-). apply in_flat_map in Hw.
      destruct Hw as (s & Hs & Hw). apply latest_incl in Hw.
      destruct (In_nth _ _ [] Hs) as (j & Hj & Ej). exists j. split; [assumption|]. rewrite Ej. now apply In_ids.
    - intros (k & Hk & Hi). apply cur_in in Hi. destruct Hi as (w & E).
      rewrite <- (cur_flat_latest owner (st_srcs st) 0 ltac:(intros j x Hx; now rewrite (Hown j x Hx)) k i Hk) in E.
      + destruct (cur_some _ _ _ E) as [<- Hw]. now apply In_ids.
      + destruct (cur (nth k (st_srcs st) []) i) eqn:E2; [|discriminate].
        destruct (cur_some _ _ _ E2) as [<- Hw]. now apply In_ids. }
  split; [reflexivity|]. split; [reflexivity|]. split; [reflexivity|]. split.
  - intros k i Hk Hi.
    assert (Hin : In i (ids all)) by (apply Hall; eauto).
    rewrite (complete_seen_cur v Hv _ _ _ Hin), (ds_write_cur _ _ Heq).
    unfold all. rewrite (cur_flat_latest owner (st_srcs st) 0 ltac:(intros j x Hx; now rewrite (Hown j x Hx)) k i Hk Hi).
    destruct (cur_in _ _ Hi) as (w & ->). reflexivity.
  - intros i Hi. cbn [st_sink st_srcs] in *.
    apply (complete_foreign v Hv (st_srcs st)); [|assumption].
    intros j Hj. now apply Hall.
Qed.
