(** Proofs about Model/Compact.v (C12): flush batching is irrelevant for every variant;
    for the repaired variant every prefix of the instruction stream (= every crash point,
    = the complete run) removes only versions identical to their immediate predecessor,
    keeps the invariant and the latest view; the complete run leaves exactly the
    de-duplicated feed. *)
From Coq Require Import List ZArith Bool Lia.
From DH Require Import Model.Store Model.FeedSpec Model.Compact Proofs.StoreProofs.
Import ListNotations.
Open Scope Z_scope.

(** ** 1. flush batching (all variants, all states, no invariant needed) *)
Lemma del_keys_app g1 g2 : del_keys (g1 ++ g2) = del_keys g1 ++ del_keys g2.
Proof. unfold del_keys. now rewrite flat_map_app. Qed.

Lemma kmem_app k l1 l2 : kmem k (l1 ++ l2) = kmem k l1 || kmem k l2.
Proof. unfold kmem. apply existsb_app. Qed.

Lemma filter_filter {A} (f g : A -> bool) l :
  filter g (filter f l) = filter (fun x => f x && g x) l.
Proof.
  induction l as [|x l IH]; cbn [filter]; [reflexivity|].
  destruct (f x); cbn [filter andb]; [destruct (g x)|]; now rewrite IH.
Qed.

Lemma filter_ext' {A} (f g : A -> bool) l : (forall x, f x = g x) -> filter f l = filter g l.
Proof. intros H. induction l as [|x l IH]; cbn [filter]; [reflexivity|]. now rewrite H, IH. Qed.

Lemma filter_alltrue {A} (f : A -> bool) l : (forall x, f x = true) -> filter f l = l.
Proof. intros H. induction l as [|x l IH]; cbn [filter]; [reflexivity|]. now rewrite H, IH. Qed.

Lemma apply_flush_app cf d g1 g2 :
  apply_flush cf (apply_flush cf d g1) g2 = apply_flush cf d (g1 ++ g2).
Proof.
  unfold apply_flush. cbn [d_entries d_latest d_next]. f_equal.
  - rewrite filter_filter. apply filter_ext'. intros e.
    rewrite del_keys_app, kmem_app, negb_orb. reflexivity.
  - now rewrite fold_left_app.
Qed.

Lemma apply_flush_nil cf d : apply_flush cf d [] = d.
Proof.
  destruct d as [E L n]. unfold apply_flush. cbn. f_equal. now apply filter_alltrue.
Qed.

Lemma apply_flushes_concat cf gs : forall d, apply_flushes cf d gs = apply_flush cf d (concat gs).
Proof.
  induction gs as [|g gs IH]; intros d; cbn [apply_flushes fold_left concat].
  - now rewrite apply_flush_nil.
  - fold (apply_flushes cf (apply_flush cf d g) gs). rewrite IH. apply apply_flush_app.
Qed.

Lemma concat_batches thr l : forall acc w, concat (batches thr acc w l) = acc ++ l.
Proof.
  induction l as [|i l IH]; intros acc w; cbn [batches concat].
  - reflexivity.
  - destruct (w + i_weight i <? thr); cbn [concat]; rewrite IH.
    + now rewrite <- app_assoc.
    + now rewrite <- app_assoc.
Qed.

(** C12_flush_indep: the state after compaction is the state after ONE flush of all instructions,
    whatever the threshold - for every variant of the strategy and every state *)
Theorem compact_one_flush cf fl thr order d :
  compact_ds cf fl thr order d = apply_flush cf d (all_instrs cf (compact_eqb fl) d order).
Proof.
  unfold compact_ds, plan. rewrite apply_flushes_concat, concat_batches. reflexivity.
Qed.

Theorem flush_threshold_irrelevant cf fl thr1 thr2 order d :
  compact_ds cf fl thr1 order d = compact_ds cf fl thr2 order d.
Proof. now rewrite !compact_one_flush. Qed.

(** a crash after [k] flushes leaves the state of one flush of a PREFIX of the instruction stream *)
Theorem crash_is_prefix cf fl thr order k d :
  exists p rest, all_instrs cf (compact_eqb fl) d order = p ++ rest
                 /\ compact_crash cf fl thr order k d = apply_flush cf d p.
Proof.
  unfold compact_crash, plan.
  set (bs := batches (eff_threshold thr) [] 0 (all_instrs cf (compact_eqb fl) d order)).
  exists (concat (firstn k bs)), (concat (skipn k bs)). split.
  - rewrite <- concat_app, firstn_skipn. unfold bs. now rewrite concat_batches.
  - apply apply_flushes_concat.
Qed.

(** ** 2. the invariant compaction needs and keeps: latest pointer = key of the entity's last version,
    versions strictly ordered by (time, batch index).  (Sequence numbers have gaps after a compaction,
    so this is StoreProofs.dinv without contiguity.) *)
Record cinv (d : dstate) : Prop := {
  ci_ptr : forall id, assoc id (d_latest d) = option_map ekey (last_entry (d_entries d) id);
  ci_sorted : ksorted (d_entries d)
}.

Lemma dinv_cinv clk d : dinv clk d -> cinv d.
Proof. intros H. constructor; [apply (dinv_ptr _ _ H) | apply (dinv_sorted _ _ H)]. Qed.

Lemma cinv_latest d : cinv d -> forall id, stored_latest d id = current_of (feed_of d) id.
Proof.
  intros Hd id. unfold stored_latest, feed_of. fold (efeed (d_entries d)).
  rewrite current_of_last_entry, (ci_ptr _ Hd).
  destruct (last_entry (d_entries d) id) as [e|] eqn:El; cbn [option_map ekey]; [|reflexivity].
  now rewrite (find_last_entry _ _ _ (ci_sorted _ Hd) El).
Qed.

Fixpoint last_opt {A} (l : list A) : option A :=
  match l with
  | [] => None
  | x :: l' => match last_opt l' with Some y => Some y | None => Some x end
  end.

Lemma last_opt_app {A} (l1 l2 : list A) :
  last_opt (l1 ++ l2) = match last_opt l2 with Some y => Some y | None => last_opt l1 end.
Proof.
  induction l1 as [|x l1 IH]; cbn [app last_opt].
  - destruct (last_opt l2); reflexivity.
  - rewrite IH. destruct (last_opt l2); reflexivity.
Qed.

Definition has_id (id : uri) (e : entry) : bool := Z.eqb (en_id e) id.

Lemma last_entry_versions E id : last_entry E id = last_opt (filter (has_id id) E).
Proof.
  induction E as [|e E IH]; cbn [last_entry filter]; [reflexivity|]. unfold has_id at 1.
  destruct (Z.eqb (en_id e) id); cbn [last_opt]; rewrite IH; destruct (last_opt (filter (has_id id) E)); reflexivity.
Qed.

Lemma versions_of_eq d id : versions_of d id = filter (has_id id) (d_entries d).
Proof. reflexivity. Qed.

Lemma Forall_filter {A} (P : A -> Prop) f l : Forall P l -> Forall P (filter f l).
Proof.
  rewrite !Forall_forall. intros H x Hx. apply filter_In in Hx. apply H, Hx.
Qed.

Lemma ksorted_filter f l : ksorted l -> ksorted (filter f l).
Proof.
  induction l as [|a l IH]; cbn [ksorted filter]; [auto|]. intros [H1 H2].
  destruct (f a); cbn [ksorted]; [split; [now apply Forall_filter | now apply IH] | now apply IH].
Qed.

Lemma klt_keys_differ a b : klt a b -> vkey_eqb (key_of a) (key_of b) = false /\ vkey_eqb (key_of b) (key_of a) = false.
Proof.
  unfold klt, vkey_eqb, key_of. cbn [fst snd]. intros H.
  destruct (Z.eqb_spec (en_time a) (en_time b)), (Z.eqb_spec (en_bidx a) (en_bidx b));
    destruct (Z.eqb_spec (en_time b) (en_time a)), (Z.eqb_spec (en_bidx b) (en_bidx a));
    rewrite ?andb_false_r, ?andb_true_r; try (split; reflexivity); exfalso; lia.
Qed.

Lemma ksorted_mid_keys l1 v l2 : ksorted (l1 ++ v :: l2) ->
  forall e, In e (l1 ++ l2) -> vkey_eqb (key_of e) (key_of v) = false.
Proof.
  induction l1 as [|a l1 IH]; cbn [app ksorted]; intros [Hf Hs] e He.
  - rewrite Forall_forall in Hf. apply (klt_keys_differ v e). now apply Hf.
  - destruct He as [<-|He].
    + rewrite Forall_forall in Hf. apply (klt_keys_differ a v). apply Hf. apply in_or_app. right. now left.
    + now apply IH.
Qed.

Lemma vkey_eqb_refl k : vkey_eqb k k = true.
Proof. unfold vkey_eqb. now rewrite !Z.eqb_refl. Qed.

Lemma filter_all_in {A} (f : A -> bool) l : (forall x, In x l -> f x = true) -> filter f l = l.
Proof.
  induction l as [|x l IH]; cbn [filter]; intros H; [reflexivity|].
  rewrite (H x (or_introl eq_refl)), IH; [reflexivity|]. intros y Hy. apply H. now right.
Qed.

Lemma filter_remove_mid (l1 l2 : list entry) v : ksorted (l1 ++ v :: l2) ->
  filter (fun e => negb (kmem (key_of e) [key_of v])) (l1 ++ v :: l2) = l1 ++ l2.
Proof.
  intros Hs. pose proof (ksorted_mid_keys _ _ _ Hs) as Hk.
  rewrite filter_app. cbn [filter kmem existsb]. rewrite vkey_eqb_refl. cbn [orb negb].
  f_equal; apply filter_all_in; intros x Hx; rewrite Hk, ?orb_false_r; try reflexivity;
    apply in_or_app; [now left | now right].
Qed.

(** ** 3. one "duplicate" instruction applied to a state positioned at (prev, v) *)
Definition vlastc (d : dstate) (id : uri) : option content := option_map en_c (last_opt (versions_of d id)).

Definition dup_instr (prev v : entry) (w : Z) (is_last : bool) : instr :=
  {| i_del := Some (key_of v); i_weight := w; i_repoint := if is_last then Some (key_of prev) else None; i_shared := false |}.

Lemma versions_after_del d i id' :
  versions_of (apply_flush cf_fixed d [i]) id'
  = filter (fun e => negb (kmem (key_of e) (del_keys [i]))) (versions_of d id').
Proof.
  unfold versions_of, apply_flush. cbn [d_entries]. rewrite !filter_filter. apply filter_ext'.
  intros e. apply andb_comm.
Qed.

Lemma has_id_in id e l : In e (filter (has_id id) l) -> en_id e = id.
Proof. intros H. apply filter_In in H. destruct H as [_ H]. now apply Z.eqb_eq in H. Qed.

Lemma dup_step d id pre prev v vs w :
  cinv d -> versions_of d id = pre ++ prev :: v :: vs ->
  let i := dup_instr prev v w (match vs with [] => true | _ => false end) in
  let d' := apply_flush cf_fixed d [i] in
  cinv d' /\ d_next d' = d_next d
  /\ versions_of d' id = pre ++ prev :: vs
  /\ (forall id', id' <> id -> versions_of d' id' = versions_of d id')
  /\ d_entries d' = filter (fun e => negb (kmem (key_of e) [key_of v])) (d_entries d).
Proof.
  intros Hd Hv i d'.
  assert (Hsv : ksorted (versions_of d id)) by (apply ksorted_filter, (ci_sorted _ Hd)).
  assert (Hidv : en_id v = id).
  { apply (has_id_in id v (d_entries d)). change (In v (versions_of d id)). rewrite Hv.
    apply in_or_app. right. right. now left. }
  assert (Hidp : en_id prev = id).
  { apply (has_id_in id prev (d_entries d)). change (In prev (versions_of d id)). rewrite Hv.
    apply in_or_app. right. now left. }
  assert (Hvid : versions_of d' id = pre ++ prev :: vs).
  { unfold d'. rewrite versions_after_del. cbn [del_keys flat_map i dup_instr i_del app].
    rewrite Hv. replace (pre ++ prev :: v :: vs) with ((pre ++ [prev]) ++ v :: vs) by (now rewrite <- app_assoc).
    rewrite filter_remove_mid.
    - now rewrite <- app_assoc.
    - rewrite <- app_assoc. cbn [app]. now rewrite <- Hv. }
  assert (Hvother : forall id', id' <> id -> versions_of d' id' = versions_of d id').
  { intros id' Hne. unfold d'. rewrite versions_after_del. apply filter_all_in. intros e He.
    cbn [del_keys flat_map i dup_instr i_del app kmem existsb]. rewrite orb_false_r.
    apply has_id_in in He. unfold vkey_eqb, key_of. cbn [fst snd].
    replace (Z.eqb (en_id e) (en_id v)) with false; [reflexivity|].
    symmetry. apply Z.eqb_neq. congruence. }
  split; [|split; [reflexivity | split; [exact Hvid | split; [exact Hvother | reflexivity]]]].
  constructor.
  - (* pointers *)
    intros id'. rewrite last_entry_versions. change (filter (has_id id') (d_entries d')) with (versions_of d' id').
    pose proof (ci_ptr _ Hd id') as Hp. rewrite last_entry_versions in Hp.
    change (filter (has_id id') (d_entries d)) with (versions_of d id') in Hp.
    replace (d_latest d') with (repoint cf_fixed (d_latest d) i) by reflexivity.
    destruct (Z.eq_dec id' id) as [->|Hne].
    + rewrite Hvid. rewrite Hv in Hp.
      destruct vs as [|v2 vs]; cbn [i dup_instr i_repoint i_del repoint cf_fixed cf_blind_repoint key_of].
      * (* v was the last version: the pointer named it, it is moved to prev *)
        rewrite Hidp.
        assert (Hcur : assoc id (d_latest d) = Some (ekey v)).
        { rewrite Hp. rewrite !last_opt_app. cbn [last_opt]. reflexivity. }
        rewrite Hcur. unfold key_opt_eqb, ekey. cbn [fst snd]. rewrite !Z.eqb_refl. cbn [andb].
        rewrite assoc_cons, Z.eqb_refl. rewrite last_opt_app. cbn [last_opt option_map]. reflexivity.
      * rewrite Hp. rewrite !last_opt_app. cbn [last_opt]. destruct (last_opt vs); reflexivity.
    + rewrite (Hvother id' Hne).
      destruct vs as [|v2 vs]; cbn [i dup_instr i_repoint i_del repoint cf_fixed cf_blind_repoint key_of].
      * rewrite Hidp. destruct (key_opt_eqb (assoc id (d_latest d)) (en_time v, en_bidx v)); [|exact Hp].
        rewrite assoc_cons. replace (Z.eqb id' id) with false by (symmetry; now apply Z.eqb_neq). exact Hp.
      * exact Hp.
  - unfold d', apply_flush. cbn [d_entries]. apply ksorted_filter, (ci_sorted _ Hd).
Qed.

Lemma oc_same_refl_pre a : oc_same a a = true.
Proof. destruct a; cbn; [apply identical_refl | reflexivity]. Qed.

(** point-in-time: the last version of an entity not newer than [at_] *)
Definition upto (at_ : Z) (e : entry) : bool := en_time e <=? at_.
Definition vbestc (d : dstate) (id : uri) (at_ : Z) : option content :=
  option_map en_c (last_opt (filter (upto at_) (versions_of d id))).

Lemma ksorted_suffix l1 l2 : ksorted (l1 ++ l2) -> ksorted l2.
Proof. induction l1 as [|a l1 IH]; cbn [app ksorted]; [auto | intros [_ H]; auto]. Qed.

Lemma best_drop (P : entry -> bool) pre prev v vs :
  (P v = true -> P prev = true) -> identical (en_c prev) (en_c v) = true ->
  oc_same (option_map en_c (last_opt (filter P (pre ++ prev :: vs))))
          (option_map en_c (last_opt (filter P (pre ++ prev :: v :: vs)))) = true.
Proof.
  intros HP Hid.
  replace (pre ++ prev :: v :: vs) with ((pre ++ [prev]) ++ [v] ++ vs) by (now rewrite <- app_assoc).
  replace (pre ++ prev :: vs) with ((pre ++ [prev]) ++ vs) by (now rewrite <- app_assoc).
  rewrite !filter_app, !last_opt_app.
  destruct (last_opt (filter P vs)) as [x|]; [apply oc_same_refl_pre|].
  cbn [filter]. destruct (P v) eqn:Pv; cbn [last_opt].
  - rewrite (HP eq_refl). cbn [last_opt option_map oc_same]. exact Hid.
  - apply oc_same_refl_pre.
Qed.

(** ** 4. every prefix of the repaired strategy's instruction stream is invisible *)
Lemma oc_same_refl a : oc_same a a = true.
Proof. destruct a; cbn; [apply identical_refl | reflexivity]. Qed.
Lemma oc_same_trans a b c : oc_same a b = true -> oc_same b c = true -> oc_same a c = true.
Proof. destruct a, b, c; cbn; try congruence. apply identical_trans. Qed.
Lemma oc_same_sym a b : oc_same a b = oc_same b a.
Proof. destruct a, b; cbn; try reflexivity. apply identical_sym. Qed.

(** what a reader can tell about [d'] relative to [d]: the invariant holds, every entity's last version has
    identical content (so the latest view, listings, lookups and the latest-only feed agree), nothing was added *)
Record inv_rel (d d' : dstate) : Prop := {
  ir_inv : cinv d';
  ir_next : d_next d' = d_next d;
  ir_last : forall id, oc_same (vlastc d' id) (vlastc d id) = true;
  ir_best : forall id at_, oc_same (vbestc d' id at_) (vbestc d id at_) = true;
  ir_sub : forall e, In e (d_entries d') -> In e (d_entries d)
}.

Lemma inv_rel_refl d : cinv d -> inv_rel d d.
Proof. intros H. constructor; auto; intros; apply oc_same_refl. Qed.

Lemma inv_rel_trans d1 d2 d3 : inv_rel d1 d2 -> inv_rel d2 d3 -> inv_rel d1 d3.
Proof.
  intros [A1 A2 A3 A5 A4] [B1 B2 B3 B5 B4]. constructor; auto.
  - congruence.
  - intros id. eapply oc_same_trans; [apply B3 | apply A3].
  - intros id at_. eapply oc_same_trans; [apply B5 | apply A5].
Qed.

Lemma apply_flush_noop cf d i : i_del i = None -> i_repoint i = None -> apply_flush cf d [i] = d.
Proof.
  intros H1 H2. destruct d as [E L n]. unfold apply_flush. cbn [d_entries d_latest d_next fold_left].
  unfold repoint. rewrite H2. unfold del_keys. cbn [flat_map]. rewrite H1. cbn [app].
  f_equal. now apply filter_alltrue.
Qed.

Lemma apply_flush_cons cf d i q : apply_flush cf d (i :: q) = apply_flush cf (apply_flush cf d [i]) q.
Proof. now rewrite apply_flush_app. Qed.

Lemma pass_sound id same : forall vs prev pre d q rest,
  cinv d -> versions_of d id = pre ++ prev :: vs ->
  entity_pass cf_fixed identical same prev vs = q ++ rest ->
  inv_rel d (apply_flush cf_fixed d q)
  /\ (forall id', id' <> id -> versions_of (apply_flush cf_fixed d q) id' = versions_of d id').
Proof.
  induction vs as [|v vs IH]; intros prev pre d q rest Hd Hv Hq.
  - cbn [entity_pass] in Hq. symmetry in Hq. apply app_eq_nil in Hq. destruct Hq as [-> _].
    rewrite apply_flush_nil. split; [now apply inv_rel_refl | reflexivity].
  - cbn [entity_pass] in Hq.
    destruct (identical (en_c prev) (en_c v)) eqn:Hid.
    + (* duplicate of the comparison base: removed *)
      destruct q as [|i0 q].
      { rewrite apply_flush_nil. split; [now apply inv_rel_refl | reflexivity]. }
      cbn [app] in Hq. injection Hq as Hi0 Hq.
      set (w := if false || negb (same v) then 1 + 2 * ref_targets (en_c v) else 1).
      assert (Ei : i0 = dup_instr prev v w (match vs with [] => true | _ => false end))
        by (rewrite <- Hi0; reflexivity).
      rewrite Ei. clear Hi0 Ei i0.
      rewrite apply_flush_cons.
      destruct (dup_step d id pre prev v vs w Hd Hv) as (Hd1 & Hn1 & Hv1 & Ho1 & He1).
      set (d1 := apply_flush cf_fixed d [dup_instr prev v w (match vs with [] => true | _ => false end)]) in *.
      destruct (IH prev pre d1 q rest Hd1 Hv1 Hq) as [Hr Ho].
      split.
      * eapply inv_rel_trans; [|exact Hr]. constructor; [exact Hd1 | exact Hn1 | | |].
        -- intros id'. unfold vlastc. destruct (Z.eq_dec id' id) as [->|Hne].
           ++ rewrite Hv1, Hv. rewrite !last_opt_app. cbn [last_opt].
              destruct vs as [|v2 vs]; cbn [last_opt option_map oc_same].
              ** exact Hid.
              ** destruct (last_opt vs); cbn [option_map oc_same]; apply identical_refl.
           ++ rewrite (Ho1 id' Hne). apply oc_same_refl.
        -- intros id' at_. unfold vbestc. destruct (Z.eq_dec id' id) as [->|Hne].
           ++ rewrite Hv1, Hv. apply best_drop; [|exact Hid].
              assert (Hsv : ksorted (versions_of d id)) by (apply ksorted_filter, (ci_sorted _ Hd)).
              rewrite Hv in Hsv. apply ksorted_suffix in Hsv. cbn [ksorted] in Hsv. destruct Hsv as [Hf _].
              apply Forall_cons_iff in Hf. destruct Hf as [Hk _].
              unfold upto. rewrite !Z.leb_le. unfold klt in Hk. lia.
           ++ rewrite (Ho1 id' Hne). apply oc_same_refl.
        -- intros e He. rewrite He1 in He. apply filter_In in He. apply He.
      * intros id' Hne. rewrite (Ho id' Hne). now apply Ho1.
    + assert (Hv' : versions_of d id = (pre ++ [prev]) ++ v :: vs) by (now rewrite <- app_assoc).
      match type of Hq with context [if 0 <? ?w then _ else _] => destruct (0 <? w) end.
      * (* only reference keys are scheduled: the dataset state is untouched, the base advances *)
        cbn [cf_fixed cf_stale_prev] in Hq.
        destruct q as [|i0 q].
        { rewrite apply_flush_nil. split; [now apply inv_rel_refl | reflexivity]. }
        cbn [app] in Hq. injection Hq as Hi0 Hq.
        rewrite apply_flush_cons, apply_flush_noop by (rewrite <- Hi0; reflexivity).
        exact (IH v (pre ++ [prev]) d q rest Hd Hv' Hq).
      * exact (IH v (pre ++ [prev]) d q rest Hd Hv' Hq).
Qed.

Lemma entity_sound d0 d id q rest :
  cinv d -> versions_of d id = versions_of d0 id ->
  entity_instrs cf_fixed identical d0 id = q ++ rest ->
  inv_rel d (apply_flush cf_fixed d q)
  /\ (forall id', id' <> id -> versions_of (apply_flush cf_fixed d q) id' = versions_of d id').
Proof.
  intros Hd Hv Hq. unfold entity_instrs in Hq.
  destruct (versions_of d0 id) as [|v vs] eqn:E0.
  - symmetry in Hq. apply app_eq_nil in Hq. destruct Hq as [-> _].
    rewrite apply_flush_nil. split; [now apply inv_rel_refl | reflexivity].
  - apply (pass_sound id (shares_time (v :: vs)) vs v [] d q rest Hd); [exact Hv | exact Hq].
Qed.

Lemma order_sound d0 : forall order d q rest,
  NoDup order -> cinv d -> (forall id, In id order -> versions_of d id = versions_of d0 id) ->
  all_instrs cf_fixed identical d0 order = q ++ rest ->
  inv_rel d (apply_flush cf_fixed d q).
Proof.
  induction order as [|id order IH]; intros d q rest Hnd Hd Hsame Hq.
  - cbn in Hq. symmetry in Hq. apply app_eq_nil in Hq. destruct Hq as [-> _].
    rewrite apply_flush_nil. now apply inv_rel_refl.
  - unfold all_instrs in Hq. cbn [flat_map] in Hq. fold (all_instrs cf_fixed identical d0 order) in Hq.
    inversion Hnd as [|? ? Hnotin Hnd']; subst.
    apply app_eq_app in Hq. destruct Hq as [l [[H1 H2]|[H1 H2]]].
    + (* the prefix ends inside this entity *)
      apply (entity_sound d0 d id q l Hd (Hsame id (or_introl eq_refl)) H1).
    + subst q. rewrite <- apply_flush_app.
      destruct (entity_sound d0 d id (entity_instrs cf_fixed identical d0 id) [] Hd (Hsame id (or_introl eq_refl))
                             ltac:(now rewrite app_nil_r)) as [Hr Ho].
      eapply inv_rel_trans; [exact Hr|].
      apply (IH _ l rest Hnd' (ir_inv _ _ Hr)); [|exact H2].
      intros id' Hin. rewrite Ho; [apply Hsame; now right|]. intros ->. contradiction.
Qed.

Lemma compact_eqb_fixed fl : f_lenkeys fl = false -> compact_eqb fl = identical.
Proof. intros H. unfold compact_eqb, identical, eq_full. now rewrite H. Qed.

(** C12_crash (and, with k >= the number of flushes, the complete run): for every state satisfying the
    invariant, every visiting order without repetition, every threshold and every number [k] of committed
    flushes, the repaired compaction leaves a state that satisfies the invariant, whose entities all have a last
    version with identical content, and that contains no version that was not there before. *)
Theorem crash_invisible fl thr order k d :
  f_lenkeys fl = false -> cinv d -> NoDup order ->
  inv_rel d (compact_crash cf_fixed fl thr order k d).
Proof.
  intros Hfl Hd Hnd.
  destruct (crash_is_prefix cf_fixed fl thr order k d) as (p & rest & Hp & ->).
  rewrite (compact_eqb_fixed fl Hfl) in Hp.
  apply (order_sound d order d p rest Hnd Hd (fun _ _ => eq_refl) Hp).
Qed.

Theorem compact_invisible fl thr order d :
  f_lenkeys fl = false -> cinv d -> NoDup order ->
  inv_rel d (compact_ds cf_fixed fl thr order d).
Proof.
  intros Hfl Hd Hnd. rewrite compact_one_flush, (compact_eqb_fixed fl Hfl).
  apply (order_sound d order d _ [] Hnd Hd (fun _ _ => eq_refl)). now rewrite app_nil_r.
Qed.

(** consequences of [inv_rel] for the readers *)
Lemma vlastc_current d id : vlastc d id = current_of (feed_of d) id.
Proof.
  unfold vlastc, feed_of. fold (efeed (d_entries d)). rewrite current_of_last_entry, last_entry_versions. reflexivity.
Qed.

Theorem inv_rel_latest d d' : cinv d -> inv_rel d d' ->
  forall id, oc_same (stored_latest d' id) (stored_latest d id) = true.
Proof.
  intros Hd Hr id. rewrite (cinv_latest _ Hd), (cinv_latest _ (ir_inv _ _ Hr)), <- !vlastc_current. apply (ir_last _ _ Hr).
Qed.

(** ** 5. the complete run of the repaired strategy leaves exactly the de-duplicated feed *)
Lemma identical_cong_l a b c : identical a b = true -> identical a c = identical b c.
Proof.
  intros H. destruct (identical a c) eqn:E1, (identical b c) eqn:E2; try reflexivity.
  - rewrite identical_sym in H. rewrite (identical_trans _ _ _ H E1) in E2. discriminate.
  - rewrite (identical_trans _ _ _ H E2) in E1. discriminate.
Qed.

Lemma vkey_eqb_sym a b : vkey_eqb a b = vkey_eqb b a.
Proof. unfold vkey_eqb. now rewrite (Z.eqb_sym (fst a)), (Z.eqb_sym (fst (snd a))), (Z.eqb_sym (snd (snd a))). Qed.

Lemma del_keys_cons i g : del_keys (i :: g) = match i_del i with Some k => [k] | None => [] end ++ del_keys g.
Proof. reflexivity. Qed.

(** no instruction of a pass names a key outside the versions it walks *)
Lemma pass_keys_absent cf eqb same k : forall vs prev,
  (forall x, In x vs -> vkey_eqb k (key_of x) = false) ->
  kmem k (del_keys (entity_pass cf eqb same prev vs)) = false.
Proof.
  induction vs as [|v vs IH]; intros prev H; cbn [entity_pass]; [reflexivity|].
  assert (Hv : vkey_eqb k (key_of v) = false) by (apply H; now left).
  assert (Hvs : forall x, In x vs -> vkey_eqb k (key_of x) = false) by (intros; apply H; now right).
  destruct (eqb (en_c prev) (en_c v)).
  - rewrite del_keys_cons. cbn [i_del app kmem existsb]. rewrite Hv. cbn [orb]. now apply IH.
  - destruct (0 <? _); [rewrite del_keys_cons; cbn [i_del app]|]; now apply IH.
Qed.

Definition lastc (pimm : entry) (M : list entry) : entry := match last_opt M with Some x => x | None => pimm end.

Lemma pass_char same e L2 : forall M prev pimm,
  identical (en_c prev) (en_c pimm) = true ->
  (forall x, In x (M ++ L2) -> vkey_eqb (key_of e) (key_of x) = false) ->
  kmem (key_of e) (del_keys (entity_pass cf_fixed identical same prev (M ++ e :: L2)))
  = identical (en_c (lastc pimm M)) (en_c e).
Proof.
  induction M as [|m M IH]; intros prev pimm Hpp Hk; cbn [app entity_pass].
  - unfold lastc. cbn [last_opt]. rewrite <- (identical_cong_l _ _ (en_c e) Hpp).
    destruct (identical (en_c prev) (en_c e)).
    + rewrite del_keys_cons. cbn [i_del app kmem existsb]. now rewrite vkey_eqb_refl.
    + destruct (0 <? _); [rewrite del_keys_cons; cbn [i_del app]|]; apply pass_keys_absent; exact Hk.
  - assert (Hm : vkey_eqb (key_of e) (key_of m) = false) by (apply Hk; now left).
    assert (Hk' : forall x, In x (M ++ L2) -> vkey_eqb (key_of e) (key_of x) = false) by (intros; apply Hk; now right).
    assert (Hl : forall p, lastc p (m :: M) = lastc m M).
    { intros p. unfold lastc. cbn [last_opt]. destruct (last_opt M); reflexivity. }
    rewrite Hl.
    destruct (identical (en_c prev) (en_c m)) eqn:Hid.
    + rewrite del_keys_cons. cbn [i_del app kmem existsb]. rewrite Hm. cbn [orb]. now apply IH.
    + cbn [cf_fixed cf_stale_prev].
      destruct (0 <? _); [rewrite del_keys_cons; cbn [i_del app]|]; apply IH; auto using identical_refl.
Qed.

(** keys named by the pass of another entity never match *)
Lemma entity_keys_other cf eqb d id e : en_id e <> id ->
  kmem (key_of e) (del_keys (entity_instrs cf eqb d id)) = false.
Proof.
  intros Hne. unfold entity_instrs. destruct (versions_of d id) as [|v vs] eqn:Ev; [reflexivity|].
  apply pass_keys_absent. intros x Hx.
  assert (Hidx : en_id x = id).
  { apply (has_id_in id x (d_entries d)). change (In x (versions_of d id)). rewrite Ev. now right. }
  unfold vkey_eqb, key_of. cbn [fst snd].
  replace (Z.eqb (en_id e) (en_id x)) with false; [reflexivity|]. symmetry. apply Z.eqb_neq. congruence.
Qed.

Lemma del_keys_flat_map {A} (f : A -> list instr) l : del_keys (flat_map f l) = flat_map (fun x => del_keys (f x)) l.
Proof. induction l as [|x l IH]; cbn [flat_map]; [reflexivity|]. now rewrite del_keys_app, IH. Qed.

Lemma kmem_all_instrs cf eqb d e : forall order, NoDup order ->
  kmem (key_of e) (del_keys (all_instrs cf eqb d order))
  = if existsb (Z.eqb (en_id e)) order then kmem (key_of e) (del_keys (entity_instrs cf eqb d (en_id e))) else false.
Proof.
  unfold all_instrs. induction order as [|id order IH]; intros Hnd; cbn [flat_map existsb]; [reflexivity|].
  inversion Hnd as [|? ? Hnotin Hnd']; subst. rewrite del_keys_app, kmem_app, (IH Hnd').
  destruct (Z.eqb_spec (en_id e) id) as [Heq|Hne]; cbn [orb].
  - subst id.
    assert (Hex : existsb (Z.eqb (en_id e)) order = false).
    { apply not_true_is_false. intros Hex. apply existsb_exists in Hex. destruct Hex as (x & Hx & Hxe).
      apply Z.eqb_eq in Hxe. subst x. contradiction. }
    rewrite Hex. now rewrite orb_false_r.
  - now rewrite (entity_keys_other cf eqb d id e Hne).
Qed.

Definition ddec (A : list entry) (e : entry) : bool :=
  match current_of (efeed A) (en_id e) with Some p => identical p (en_c e) | None => false end.

Lemma feed_filter_dedup keep : forall E A,
  (forall E1 e E2, E = E1 ++ e :: E2 -> keep e = negb (ddec (A ++ E1) e)) ->
  efeed (filter keep E) = dedup_from (efeed A) (efeed E).
Proof.
  induction E as [|e E IH]; intros A H; [reflexivity|].
  pose proof (H [] e E eq_refl) as He. rewrite app_nil_r in He.
  cbn [filter efeed map dedup_from]. fold (efeed E).
  assert (Hrest : efeed (filter keep E) = dedup_from (efeed A ++ [(en_id e, en_c e)]) (efeed E)).
  { replace (efeed A ++ [(en_id e, en_c e)]) with (efeed (A ++ [e])) by (now rewrite efeed_app).
    apply IH. intros E1 x E2 HE. rewrite <- app_assoc. cbn [app]. apply (H (e :: E1) x E2). now rewrite HE. }
  rewrite He. unfold ddec.
  destruct (current_of (efeed A) (en_id e)) as [p|]; [destruct (identical p (en_c e))|]; cbn [negb efeed map];
    fold (efeed (filter keep E)); now rewrite Hrest.
Qed.

(** positional characterisation of the keys the complete instruction stream deletes *)
Lemma all_char d order E1 e E2 :
  cinv d -> NoDup order -> d_entries d = E1 ++ e :: E2 ->
  kmem (key_of e) (del_keys (all_instrs cf_fixed identical d order))
  = existsb (Z.eqb (en_id e)) order && ddec E1 e.
Proof.
  intros Hd Hnd HE. rewrite (kmem_all_instrs _ _ _ _ _ Hnd).
  destruct (existsb (Z.eqb (en_id e)) order); [cbn [andb]|reflexivity].
  assert (Hvs : versions_of d (en_id e) = filter (has_id (en_id e)) E1 ++ e :: filter (has_id (en_id e)) E2).
  { rewrite versions_of_eq, HE, filter_app. cbn [filter]. unfold has_id at 2. now rewrite Z.eqb_refl. }
  assert (Hsv : ksorted (versions_of d (en_id e))) by (apply ksorted_filter, (ci_sorted _ Hd)).
  rewrite Hvs in Hsv. pose proof (ksorted_mid_keys _ _ _ Hsv) as Hkeys.
  unfold ddec. rewrite current_of_last_entry, last_entry_versions.
  unfold entity_instrs. rewrite Hvs.
  destruct (filter (has_id (en_id e)) E1) as [|f L1] eqn:EL1; cbn [app last_opt option_map].
  - (* e is the entity's first version: never removed *)
    apply pass_keys_absent. intros x Hx. rewrite vkey_eqb_sym. apply Hkeys. exact Hx.
  - rewrite (pass_char _ e _ L1 f f (identical_refl _)).
    + unfold lastc. destruct (last_opt L1); reflexivity.
    + intros x Hx. rewrite vkey_eqb_sym. apply Hkeys. cbn [app]. right. exact Hx.
Qed.

Theorem compact_feed fl thr order d :
  f_lenkeys fl = false -> cinv d -> NoDup order ->
  (forall id, versions_of d id <> [] -> In id order) ->
  feed_of (compact_ds cf_fixed fl thr order d) = spec_compact (feed_of d).
Proof.
  intros Hfl Hd Hnd Hcov. rewrite compact_one_flush, (compact_eqb_fixed fl Hfl).
  unfold feed_of, spec_compact, apply_flush. cbn [d_entries]. fold (efeed (d_entries d)).
  change (@nil (uri * content)) with (efeed []).
  apply (feed_filter_dedup _ (d_entries d) []). intros E1 e E2 HE. cbn [app]. f_equal.
  rewrite (all_char d order E1 e E2 Hd Hnd HE).
  replace (existsb (Z.eqb (en_id e)) order) with true; [reflexivity|].
  symmetry. apply existsb_exists. exists (en_id e). split; [|apply Z.eqb_refl]. apply Hcov.
  rewrite versions_of_eq, HE, filter_app. cbn [filter]. unfold has_id at 2. rewrite Z.eqb_refl.
  intros Hnil. apply app_eq_nil in Hnil. destruct Hnil as [_ Hn]. discriminate.
Qed.

(** removing only versions identical to their immediate predecessor does not change the de-duplicated feed *)
Lemma dedup_filter keep : forall E A A',
  (forall id, oc_same (current_of (efeed A') id) (current_of (efeed A) id) = true) ->
  (forall E1 e E2, E = E1 ++ e :: E2 -> keep e = false -> ddec (A ++ E1) e = true) ->
  dedup_from (efeed A') (efeed (filter keep E)) = dedup_from (efeed A) (efeed E).
Proof.
  induction E as [|e E IH]; intros A A' Hc H; [reflexivity|].
  assert (Htail : forall E1 x E2, E = E1 ++ x :: E2 -> keep x = false -> ddec ((A ++ [e]) ++ E1) x = true).
  { intros E1 x E2 HE Hk. rewrite <- app_assoc. cbn [app]. apply (H (e :: E1) x E2); [now rewrite HE | exact Hk]. }
  cbn [filter]. destruct (keep e) eqn:K.
  - cbn [efeed map dedup_from]. fold (efeed E) (efeed (filter keep E)).
    assert (Hrest : dedup_from (efeed A' ++ [(en_id e, en_c e)]) (efeed (filter keep E))
                    = dedup_from (efeed A ++ [(en_id e, en_c e)]) (efeed E)).
    { replace (efeed A' ++ [(en_id e, en_c e)]) with (efeed (A' ++ [e])) by (now rewrite efeed_app).
      replace (efeed A ++ [(en_id e, en_c e)]) with (efeed (A ++ [e])) by (now rewrite efeed_app).
      apply IH; [|exact Htail].
      intros id. rewrite !efeed_app. cbn [efeed map]. rewrite !current_of_snoc.
      destruct (Z.eqb (en_id e) id); [apply oc_same_refl | apply Hc]. }
    rewrite Hrest. pose proof (Hc (en_id e)) as Hs.
    destruct (current_of (efeed A') (en_id e)) as [x|], (current_of (efeed A) (en_id e)) as [y|];
      cbn [oc_same] in Hs; try discriminate; [|reflexivity].
    now rewrite (identical_cong_l x y (en_c e) Hs).
  - pose proof (H [] e E eq_refl K) as Hd. rewrite app_nil_r in Hd. unfold ddec in Hd.
    cbn [efeed map dedup_from]. fold (efeed E).
    destruct (current_of (efeed A) (en_id e)) as [p|] eqn:Ep; [|discriminate]. rewrite Hd.
    replace (efeed A ++ [(en_id e, en_c e)]) with (efeed (A ++ [e])) by (now rewrite efeed_app).
    apply IH; [|exact Htail].
    intros id. rewrite efeed_app. cbn [efeed map]. rewrite current_of_snoc.
    destruct (Z.eqb_spec (en_id e) id) as [<-|Hne]; [|apply Hc].
    eapply oc_same_trans; [apply Hc|]. rewrite Ep. cbn [oc_same]. exact Hd.
Qed.

Lemma kmem_prefix k p rest : kmem k (del_keys p) = true -> kmem k (del_keys (p ++ rest)) = true.
Proof. intros H. now rewrite del_keys_app, kmem_app, H. Qed.

(** C12_crash, feed clause: whatever number of flushes was committed, the feed left behind de-duplicates to the
    same feed as the one before (only versions identical to their immediate predecessor are missing) *)
Theorem crash_feed fl thr order k d :
  f_lenkeys fl = false -> cinv d -> NoDup order ->
  spec_compact (feed_of (compact_crash cf_fixed fl thr order k d)) = spec_compact (feed_of d).
Proof.
  intros Hfl Hd Hnd.
  destruct (crash_is_prefix cf_fixed fl thr order k d) as (p & rest & Hp & ->).
  rewrite (compact_eqb_fixed fl Hfl) in Hp.
  unfold feed_of, spec_compact, apply_flush. cbn [d_entries]. fold (efeed (d_entries d)).
  change (@nil (uri * content)) with (efeed []).
  apply dedup_filter; [intros; apply oc_same_refl|].
  intros E1 e E2 HE Hk. cbn [app]. apply negb_false_iff in Hk.
  apply (kmem_prefix _ _ rest) in Hk. rewrite <- Hp in Hk.
  rewrite (all_char d order E1 e E2 Hd Hnd HE) in Hk. apply andb_true_iff in Hk. apply Hk.
Qed.

Lemma last_opt_nonempty {A} (x : A) l : last_opt (x :: l) <> None.
Proof. cbn [last_opt]. destruct (last_opt l); discriminate. Qed.

(** the compactor visits the entities that have a latest pointer: under the invariant these are all entities with versions *)
Lemma cinv_cover d id : cinv d -> versions_of d id <> [] -> assoc id (d_latest d) <> None.
Proof.
  intros Hd Hv. rewrite (ci_ptr _ Hd), last_entry_versions. change (filter (has_id id) (d_entries d)) with (versions_of d id).
  destruct (versions_of d id) as [|x l]; [contradiction|].
  destruct (last_opt (x :: l)) eqn:E; [discriminate | now apply last_opt_nonempty in E].
Qed.

(** C12_invisible, all clauses for the complete run *)
Theorem compact_invisible_full fl thr order d :
  f_lenkeys fl = false -> cinv d -> NoDup order ->
  (forall id, assoc id (d_latest d) <> None -> In id order) ->
  let d' := compact_ds cf_fixed fl thr order d in
  feed_of d' = spec_compact (feed_of d)
  /\ cinv d'
  /\ (forall id, oc_same (stored_latest d' id) (stored_latest d id) = true)
  /\ (forall id, oc_same (current_of (feed_of d') id) (current_of (feed_of d) id) = true).
Proof.
  intros Hfl Hd Hnd Hcov d'.
  pose proof (compact_invisible fl thr order d Hfl Hd Hnd) as Hr. fold d' in Hr.
  split; [|split; [exact (ir_inv _ _ Hr) | split]].
  - apply compact_feed; auto. intros id Hv. apply Hcov. now apply cinv_cover.
  - now apply inv_rel_latest.
  - intros id. rewrite <- !vlastc_current. apply (ir_last _ _ Hr).
Qed.

(** ** latest pointers always name existing versions *)
Lemma cinv_no_dangling d : cinv d -> forall id, dangling d id = false.
Proof.
  intros Hd id. unfold dangling. rewrite (ci_ptr _ Hd).
  destruct (last_entry (d_entries d) id) as [e|] eqn:El; cbn [option_map ekey]; [|reflexivity].
  now rewrite (find_last_entry _ _ _ (ci_sorted _ Hd) El).
Qed.

(** after a kill at ANY flush boundary (k flush transactions committed, k arbitrary) the state is one flush of a prefix of
    the instruction stream and no latest pointer dangles *)
Theorem crash_no_dangling fl thr order k d :
  f_lenkeys fl = false -> cinv d -> NoDup order ->
  forall id, dangling (compact_crash cf_fixed fl thr order k d) id = false.
Proof.
  intros Hfl Hd Hnd. apply cinv_no_dangling. exact (ir_inv _ _ (crash_invisible fl thr order k d Hfl Hd Hnd)).
Qed.
