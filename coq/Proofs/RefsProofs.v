(** Basic facts about Model/Refs.v: the lexicographic key order, key sets, sorted views. *)
From Coq Require Import List ZArith Bool Lia Sorting.Permutation Sorting.Sorted.
From DH Require Import Model.Store Model.Refs.
Import ListNotations.
Open Scope Z_scope.

(** ** lexicographic order on field lists *)
Lemma lex_ltb_irrefl a : lex_ltb a a = false.
Proof.
  induction a as [|x a IH]; cbn [lex_ltb]; [reflexivity|].
  rewrite Z.ltb_irrefl, Z.eqb_refl, IH. reflexivity.
Qed.

Lemma lex_ltb_trans a : forall b c, lex_ltb a b = true -> lex_ltb b c = true -> lex_ltb a c = true.
Proof.
  induction a as [|x a IH]; intros [|y b] [|z c]; cbn [lex_ltb]; try congruence.
  rewrite !orb_true_iff, !andb_true_iff, !Z.ltb_lt, !Z.eqb_eq.
  intros [H1|[H1 H1']] [H2|[H2 H2']].
  - left; lia.
  - left; lia.
  - left; lia.
  - right. split; [lia|]. eapply IH; eassumption.
Qed.

Lemma lex_ltb_asym a b : lex_ltb a b = true -> lex_ltb b a = false.
Proof.
  intros H. destruct (lex_ltb b a) eqn:E; [|reflexivity].
  pose proof (lex_ltb_trans _ _ _ H E) as H'. rewrite lex_ltb_irrefl in H'. discriminate.
Qed.

Lemma lex_ltb_total a : forall b, length a = length b -> lex_ltb a b = false -> lex_ltb b a = false -> a = b.
Proof.
  induction a as [|x a IH]; intros [|y b] Hl; cbn [lex_ltb length] in *; try congruence; try discriminate.
  rewrite !orb_false_iff, !andb_false_iff, !Z.ltb_ge, !Z.eqb_neq.
  intros [H1 H1'] [H2 H2'].
  assert (x = y) by lia. subst y.
  f_equal. apply IH; [lia | |].
  - destruct H1' as [?|?]; [congruence | assumption].
  - destruct H2' as [?|?]; [congruence | assumption].
Qed.

(** ** keys *)
Lemma rk_eqb_eq a b : rk_eqb a b = true <-> a = b.
Proof.
  unfold rk_eqb. rewrite !andb_true_iff, !Z.eqb_eq, eqb_true_iff.
  destruct a, b; cbn. split.
  - intros [[[[[-> ->] ->] ->] ->] ->]. reflexivity.
  - intros [= -> -> -> -> -> ->]. tauto.
Qed.

Lemma rk_eqb_refl a : rk_eqb a a = true.
Proof. now apply rk_eqb_eq. Qed.

Lemma rk_eq_dec (a b : rk) : {a = b} + {a <> b}.
Proof.
  destruct (rk_eqb a b) eqn:E; [left; now apply rk_eqb_eq | right].
  intros ->. rewrite rk_eqb_refl in E. discriminate.
Qed.

Lemma b2z_inj a b : b2z a = b2z b -> a = b.
Proof. destruct a, b; cbn; congruence. Qed.

Lemma okey_inj a b : okey a = okey b -> a = b.
Proof.
  destruct a, b; unfold okey; cbn. intros [= -> -> -> -> H ->]. apply b2z_inj in H. now subst.
Qed.
Lemma ikey_inj a b : ikey a = ikey b -> a = b.
Proof.
  destruct a, b; unfold ikey; cbn. intros [= -> -> -> -> H ->]. apply b2z_inj in H. now subst.
Qed.

Lemma kmem_In k l : kmem k l = true <-> In k l.
Proof.
  unfold kmem. rewrite existsb_exists. split.
  - intros (x & Hx & He). apply rk_eqb_eq in He. now subst.
  - intros H. exists k. split; [assumption | apply rk_eqb_refl].
Qed.

Lemma kset_add_In k l x : In x (kset_add k l) <-> x = k \/ In x l.
Proof.
  unfold kset_add. destruct (kmem k l) eqn:E.
  - apply kmem_In in E. split; [now right | intros [->|H]; assumption].
  - cbn [In]. split; intros [H|H]; auto.
Qed.

Lemma kset_del_In k l x : In x (kset_del k l) <-> x <> k /\ In x l.
Proof.
  unfold kset_del. rewrite filter_In, negb_true_iff. split.
  - intros [H E]. split; [|assumption]. intros ->. rewrite rk_eqb_refl in E. discriminate.
  - intros [H1 H2]. split; [assumption|]. destruct (rk_eqb k x) eqn:E; [|reflexivity].
    apply rk_eqb_eq in E. congruence.
Qed.

Lemma NoDup_filter {A} (p : A -> bool) l : NoDup l -> NoDup (filter p l).
Proof.
  induction 1 as [|x l Hx Hn IH]; cbn [filter]; [constructor|].
  destruct (p x); [|assumption]. constructor; [|assumption]. rewrite filter_In. tauto.
Qed.

Lemma kset_add_NoDup k l : NoDup l -> NoDup (kset_add k l).
Proof.
  intros H. unfold kset_add. destruct (kmem k l) eqn:E; [assumption|].
  constructor; [|assumption]. intros Hi. apply kmem_In in Hi. congruence.
Qed.
Lemma kset_del_NoDup k l : NoDup l -> NoDup (kset_del k l).
Proof. apply NoDup_filter. Qed.

Lemma apply_rop_NoDup l o : NoDup l -> NoDup (apply_rop l o).
Proof. destruct o; cbn [apply_rop]; [apply kset_add_NoDup | apply kset_del_NoDup]. Qed.

Lemma fold_rop_NoDup ops : forall l, NoDup l -> NoDup (fold_left apply_rop ops l).
Proof. induction ops as [|o ops IH]; intros l H; cbn [fold_left]; [assumption|]. apply IH, apply_rop_NoDup, H. Qed.

(** ** insertion sort *)
Section Sort.
  Variable ltb : rk -> rk -> bool.
  Hypothesis ltb_trans : forall a b c, ltb a b = true -> ltb b c = true -> ltb a c = true.
  Hypothesis ltb_irrefl : forall a, ltb a a = false.

  Lemma insert_by_perm k l : Permutation (insert_by ltb k l) (k :: l).
  Proof.
    induction l as [|x l IH]; cbn [insert_by]; [apply Permutation_refl|].
    destruct (ltb k x); [apply Permutation_refl|].
    eapply perm_trans; [apply perm_skip, IH | apply perm_swap].
  Qed.

  Lemma isort_perm l : Permutation (isort ltb l) l.
  Proof.
    induction l as [|x l IH]; cbn [isort fold_right]; [constructor|].
    eapply perm_trans; [apply insert_by_perm | apply perm_skip, IH].
  Qed.

  (** [a] before [b] implies [b] is not smaller than [a] *)
  Definition ordered (l : list rk) : Prop := StronglySorted (fun a b => ltb b a = false) l.

  Lemma insert_by_ordered k l : ordered l -> ordered (insert_by ltb k l).
  Proof.
    unfold ordered. induction 1 as [|x l Hs IH Hx]; cbn [insert_by].
    - constructor; constructor.
    - destruct (ltb k x) eqn:E.
      + constructor; [constructor; assumption|].
        constructor.
        * destruct (ltb x k) eqn:E'; [|reflexivity].
          pose proof (ltb_trans _ _ _ E E') as H. rewrite ltb_irrefl in H. discriminate.
        * rewrite Forall_forall in Hx |- *. intros y Hy. specialize (Hx y Hy).
          destruct (ltb y k) eqn:E'; [|reflexivity].
          pose proof (ltb_trans _ _ _ E' E) as H. congruence.
      + constructor; [assumption|].
        rewrite Forall_forall in Hx |- *. intros y Hy.
        apply (Permutation_in _ (insert_by_perm k l)) in Hy. destruct Hy as [<-|Hy]; [assumption | now apply Hx].
  Qed.

  Lemma isort_ordered l : ordered (isort ltb l).
  Proof.
    induction l as [|x l IH]; cbn [isort fold_right]; [constructor | apply insert_by_ordered, IH].
  Qed.

  Lemma isort_In l x : In x (isort ltb l) <-> In x l.
  Proof.
    split; intros H.
    - eapply Permutation_in; [apply isort_perm | assumption].
    - eapply Permutation_in; [apply Permutation_sym, isort_perm | assumption].
  Qed.

  Lemma isort_NoDup l : NoDup l -> NoDup (isort ltb l).
  Proof. intros H. eapply Permutation_NoDup; [apply Permutation_sym, isort_perm | assumption]. Qed.

  Lemma ordered_filter p l : ordered l -> ordered (filter p l).
  Proof.
    unfold ordered. induction 1 as [|x l Hs IH Hx]; cbn [filter]; [constructor|].
    destruct (p x); [|assumption]. constructor; [assumption|].
    rewrite Forall_forall in Hx |- *. intros y Hy. apply filter_In in Hy. now apply Hx.
  Qed.

  Lemma ordered_split l1 k l2 : ordered (l1 ++ k :: l2) ->
    (forall y, In y l1 -> ltb k y = false) /\ (forall y, In y l2 -> ltb y k = false).
  Proof.
    unfold ordered. induction l1 as [|x l1 IH]; cbn [app]; intros H.
    - inversion H as [|? ? Hs Hf]; subst. split; [intros ? []|]. rewrite Forall_forall in Hf. exact Hf.
    - inversion H as [|? ? Hs Hf]; subst. destruct (IH Hs) as [H1 H2]. split; [|assumption].
      intros y [<-|Hy]; [|now apply H1]. rewrite Forall_forall in Hf. apply Hf. apply in_or_app. right. now left.
  Qed.

  Lemma ordered_app_inv l1 l2 : ordered (l1 ++ l2) -> ordered l2.
  Proof.
    unfold ordered. induction l1 as [|x l1 IH]; cbn [app]; intros H; [assumption|].
    inversion H; subst. now apply IH.
  Qed.
End Sort.

Lemma okey_ltb_trans a b c : okey_ltb a b = true -> okey_ltb b c = true -> okey_ltb a c = true.
Proof. apply lex_ltb_trans. Qed.
Lemma ikey_ltb_trans a b c : ikey_ltb a b = true -> ikey_ltb b c = true -> ikey_ltb a c = true.
Proof. apply lex_ltb_trans. Qed.
Lemma okey_ltb_irrefl a : okey_ltb a a = false. Proof. apply lex_ltb_irrefl. Qed.
Lemma ikey_ltb_irrefl a : ikey_ltb a a = false. Proof. apply lex_ltb_irrefl. Qed.

Lemma okey_ltb_total a b : a <> b -> okey_ltb a b = false -> okey_ltb b a = true.
Proof.
  intros Hne H. destruct (okey_ltb b a) eqn:E; [reflexivity|]. exfalso. apply Hne, okey_inj.
  apply lex_ltb_total; [reflexivity | exact H | exact E].
Qed.
Lemma ikey_ltb_total a b : a <> b -> ikey_ltb a b = false -> ikey_ltb b a = true.
Proof.
  intros Hne H. destruct (ikey_ltb b a) eqn:E; [reflexivity|]. exfalso. apply Hne, ikey_inj.
  apply lex_ltb_total; [reflexivity | exact H | exact E].
Qed.

(** order of two keys of the same fact in the same dataset = order of (time, deleted) *)
Definition same_fact (src p tgt ds : Z) (k : rk) : Prop :=
  r_src k = src /\ r_pred k = p /\ r_tgt k = tgt /\ r_ds k = ds.

(** [k'] supersedes [k]: recorded later, or at the same time as a tombstone over a live key *)
Definition newer (k' k : rk) : Prop :=
  r_time k < r_time k' \/ (r_time k = r_time k' /\ r_del k = false /\ r_del k' = true).

Lemma okey_ltb_same_fact a b src p tgt ds :
  same_fact src p tgt ds a -> same_fact src p tgt ds b -> (okey_ltb a b = true <-> newer b a).
Proof.
  intros (A1 & A2 & A3 & A4) (B1 & B2 & B3 & B4). unfold okey_ltb, okey, newer. cbn [lex_ltb].
  rewrite A1, A2, A3, A4, B1, B2, B3, B4, !Z.ltb_irrefl, !Z.eqb_refl. cbn [orb andb].
  rewrite orb_true_iff, andb_true_iff, Z.ltb_lt, Z.eqb_eq.
  destruct (r_del a), (r_del b); cbn; intuition (try discriminate; try lia).
Qed.

Lemma ikey_ltb_same_fact a b src p tgt ds :
  same_fact src p tgt ds a -> same_fact src p tgt ds b -> (ikey_ltb a b = true <-> newer b a).
Proof.
  intros (A1 & A2 & A3 & A4) (B1 & B2 & B3 & B4). unfold ikey_ltb, ikey, newer. cbn [lex_ltb].
  rewrite A1, A2, A3, A4, B1, B2, B3, B4, !Z.ltb_irrefl, !Z.eqb_refl. cbn [orb andb].
  rewrite orb_true_iff, andb_true_iff, Z.ltb_lt, Z.eqb_eq.
  destruct (r_del a), (r_del b); cbn; intuition (try discriminate; try lia).
Qed.

(** ** the views *)
Lemma out_view_In K src k : In k (out_view K src) <-> In k K /\ r_src k = src.
Proof. unfold out_view. rewrite isort_In, filter_In, Z.eqb_eq. tauto. Qed.
Lemma in_view_In K tgt k : In k (in_view K tgt) <-> In k K /\ r_tgt k = tgt.
Proof. unfold in_view. rewrite isort_In, filter_In, Z.eqb_eq. tauto. Qed.

Definition desc_ltb (a b : rk) : bool := okey_ltb b a.
Lemma out_view_ordered K src : ordered desc_ltb (out_view K src).
Proof.
  apply isort_ordered.
  - intros a b c H1 H2. unfold desc_ltb in *. eapply okey_ltb_trans; eassumption.
  - intros a. apply okey_ltb_irrefl.
Qed.
Lemma in_view_ordered K tgt : ordered ikey_ltb (in_view K tgt).
Proof. apply isort_ordered; [apply ikey_ltb_trans | apply ikey_ltb_irrefl]. Qed.

Lemma out_view_NoDup K src : NoDup K -> NoDup (out_view K src).
Proof. intros H. apply isort_NoDup, NoDup_filter, H. Qed.
Lemma in_view_NoDup K tgt : NoDup K -> NoDup (in_view K tgt).
Proof. intros H. apply isort_NoDup, NoDup_filter, H. Qed.
