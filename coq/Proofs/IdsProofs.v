(** Lemmas about Model/Ids.v: the id state machine (all interleavings of
    assertIDForURI / commitIDTxn / NewContextualStore / restart / crash). *)
From Coq Require Import List NArith Bool Arith Lia.
From DH Require Import Lib.CheckLib Model.Namespace Model.Ids Proofs.NamespaceProofs.
Import ListNotations.
Open Scope N_scope.

Definition hist_inj (h : list (str * N)) : Prop := forall u u' i, In (u, i) h -> In (u', i) h -> u = u'.

Record idinv (st : idstate) : Prop := {
  iv_keys : NoDup (map fst (view st));
  iv_ids : NoDup (map snd (view st));
  iv_incl : incl (view st) (hist st);
  iv_lt : forall u i, In (u, i) (hist st) -> i < nxt st;
  iv_inj : hist_inj (hist st);
  iv_seq : nxt st <= leased st /\ leased st = dseq st;
  iv_pend : mref st <> MOpen -> pend st = []
}.

(** [st'] knows every committed pair and every handed-out pair of [st] *)
Definition id_ext (st st' : idstate) : Prop := incl (disk st) (disk st') /\ incl (hist st) (hist st').

Lemma id_ext_refl st : id_ext st st.
Proof. split; apply incl_refl. Qed.
Lemma id_ext_trans a b c : id_ext a b -> id_ext b c -> id_ext a c.
Proof. intros [H1 H2] [H3 H4]. split; eapply incl_tran; eassumption. Qed.

Lemma idinv_init L : idinv (id_init L).
Proof.
  constructor; cbn.
  - constructor.
  - constructor.
  - intros x [].
  - intros u i [].
  - intros u u' i [].
  - lia.
  - reflexivity.
Qed.

Lemma NoDup_snoc {A} (l : list A) x : NoDup l -> ~ In x l -> NoDup (l ++ [x]).
Proof.
  intros H1 H2. apply (NoDup_Add (a := x) (l := l)).
  - pose proof (Add_app x l []) as H. now rewrite app_nil_r in H.
  - split; assumption.
Qed.

Lemma NoDup_app_l {A} (a b : list A) : NoDup (a ++ b) -> NoDup a.
Proof.
  induction a as [|x a IH]; cbn; intros H; [constructor|].
  inversion H as [|? ? Hn Hd]; subst. constructor; [|auto]. intros Hin. apply Hn, in_or_app. now left.
Qed.

Lemma view_commit st r cs : view (do_commit st r cs) = view st.
Proof. unfold view, do_commit. cbn. apply app_nil_r. Qed.

Section WithLease.
  Variable L : N.
  Hypothesis HL : 1 <= L.

  Lemma seq_next_spec st :
    nxt st <= leased st -> leased st = dseq st ->
    let '(i, s1) := seq_next L st in
    nxt st <= i /\ nxt s1 = i + 1 /\ nxt s1 <= leased s1 /\ leased s1 = dseq s1
    /\ disk s1 = disk st /\ pend s1 = pend st /\ mref s1 = mref st /\ gen s1 = gen st /\ ctxs s1 = ctxs st
    /\ hist s1 = hist st /\ wgens s1 = wgens st.
  Proof.
    intros H1 H2. unfold seq_next.
    destruct (leased st <=? nxt st) eqn:E; cbn.
    - apply N.leb_le in E. repeat split; lia.
    - apply N.leb_gt in E. repeat split; lia.
  Qed.


  Lemma idinv_known st u i g :
    idinv st -> In (u, i) (view st) ->
    idinv {| disk := disk st; pend := pend st; mref := MOpen; gen := g; ctxs := ctxs st;
             nxt := nxt st; leased := leased st; dseq := dseq st; wgens := wgens st; hist := hist st ++ [(u, i)] |}.
  Proof.
    intros [K I C Lt J S P] Hin. constructor; unfold view in *; cbn.
    - exact K.
    - exact I.
    - intros x Hx. apply in_or_app. left. auto.
    - intros x j Hx. apply in_app_or in Hx. destruct Hx as [Hx|[Hx|[]]]; [eauto|]. injection Hx as <- <-. eapply Lt, C, Hin.
    - intros x y j H1 H2. apply in_app_or in H1. apply in_app_or in H2.
      destruct H1 as [H1|[H1|[]]]; destruct H2 as [H2|[H2|[]]].
      + eapply J; eassumption.
      + injection H2 as <- <-. eapply J; [exact H1 | apply C, Hin].
      + injection H1 as <- <-. eapply J; [apply C, Hin | exact H2].
      + congruence.
    - exact S.
    - intros H. congruence.
  Qed.

  Lemma idinv_new st u i g n l d :
    idinv st -> slookup u (view st) = None -> nxt st <= i -> n = i + 1 -> n <= l -> l = d ->
    idinv {| disk := disk st; pend := pend st ++ [(u, i)]; mref := MOpen; gen := g; ctxs := ctxs st;
             nxt := n; leased := l; dseq := d; wgens := wgens st; hist := hist st ++ [(u, i)] |}.
  Proof.
    intros [K I C Lt J S P] Hnone Hi Hn Hl Hd.
    assert (Hfresh : ~ In i (map snd (view st))).
    { rewrite in_map_iff. intros ([x j] & Hj & Hin). cbn in Hj. subst j. apply C, Lt in Hin. lia. }
    assert (Hkfresh : ~ In u (map fst (view st))) by (now apply slookup_None).
    constructor; unfold view in *; cbn.
    - rewrite app_assoc, map_app. apply NoDup_snoc; assumption.
    - rewrite app_assoc, map_app. apply NoDup_snoc; assumption.
    - rewrite app_assoc. intros x Hx. apply in_app_or in Hx. apply in_or_app. destruct Hx as [Hx|Hx]; [left; auto | right; exact Hx].
    - intros x j Hx. apply in_app_or in Hx. destruct Hx as [Hx|[Hx|[]]]; [apply Lt in Hx; lia|]. injection Hx as <- <-. lia.
    - intros x y j H1 H2. apply in_app_or in H1. apply in_app_or in H2.
      destruct H1 as [H1|[H1|[]]]; destruct H2 as [H2|[H2|[]]].
      + eapply J; eassumption.
      + injection H2 as <- <-. apply Lt in H1. lia.
      + injection H1 as <- <-. apply Lt in H2. lia.
      + congruence.
    - split; assumption.
    - intros H. congruence.
  Qed.

  (** assertIDForURI *)
  Lemma assert_id_spec u st :
    idinv st ->
    let '(st', o) := assert_id L u st in
    idinv st' /\ id_ext st st' /\ disk st' = disk st /\ incl (view st) (view st') /\ ctxs st' = ctxs st
    /\ match o with
       | RId i _ => In (u, i) (view st') /\ In (u, i) (hist st') /\ mref st' = MOpen /\ mref st <> MDead /\ u <> []
       | RErrEmpty => u = [] /\ st' = st
       | RPanic => mref st = MDead /\ st' = st
       | _ => False
       end.
  Proof.
    intros Hinv. unfold assert_id.
    destruct u as [|c u].
    { split; [exact Hinv|]. split; [apply id_ext_refl|]. split; [reflexivity|]. split; [apply incl_refl|]. split; [reflexivity|]. split; reflexivity. }
    set (uu := c :: u).
    assert (Hgo : forall g, mref st <> MDead ->
      let '(st', o) :=
        match slookup uu (view st) with
        | Some i =>
          ({| disk := disk st; pend := pend st; mref := MOpen; gen := g; ctxs := ctxs st;
              nxt := nxt st; leased := leased st; dseq := dseq st; wgens := wgens st; hist := hist st ++ [(uu, i)] |}, RId i false)
        | None =>
          let '(i, s1) := seq_next L st in
          ({| disk := disk s1; pend := pend s1 ++ [(uu, i)]; mref := MOpen; gen := g; ctxs := ctxs s1;
              nxt := nxt s1; leased := leased s1; dseq := dseq s1; wgens := wgens s1; hist := hist s1 ++ [(uu, i)] |}, RId i true)
        end in
      idinv st' /\ id_ext st st' /\ disk st' = disk st /\ incl (view st) (view st') /\ ctxs st' = ctxs st
      /\ match o with
         | RId i _ => In (uu, i) (view st') /\ In (uu, i) (hist st') /\ mref st' = MOpen /\ mref st <> MDead /\ uu <> []
         | RErrEmpty => uu = [] /\ st' = st
         | RPanic => mref st = MDead /\ st' = st
         | _ => False
         end).
    { intros g Hnd. destruct (slookup uu (view st)) as [i|] eqn:El.
      - pose proof (slookup_In _ _ _ El) as Hin.
        split; [now apply idinv_known|]. split; [split; cbn; [apply incl_refl | apply incl_appl, incl_refl]|].
        split; [reflexivity|]. split; [apply incl_refl|]. split; [reflexivity|].
        cbn. repeat split; [exact Hin | apply in_or_app; right; now left | exact Hnd | discriminate].
      - pose proof (iv_seq _ Hinv) as [S1 S2].
        pose proof (seq_next_spec st S1 S2) as Hs. destruct (seq_next L st) as [i s1].
        destruct Hs as (Hi & Hn & Hl & Hd & E1 & E2 & E3 & E4 & E5 & E6 & E7).
        rewrite E1, E2, E5, E6, E7.
        split; [now apply idinv_new|]. split; [split; cbn; [apply incl_refl | apply incl_appl, incl_refl]|].
        split; [reflexivity|]. unfold view; cbn.
        split; [rewrite app_assoc; apply incl_appl, incl_refl|]. split; [reflexivity|].
        repeat split; [rewrite app_assoc; apply in_or_app; right; now left | apply in_or_app; right; now left | exact Hnd | discriminate]. }
    destruct (mref st) eqn:Em.
    - apply Hgo. discriminate.
    - apply Hgo. discriminate.
    - split; [exact Hinv|]. split; [apply id_ext_refl|]. split; [reflexivity|]. split; [apply incl_refl|]. split; [reflexivity|]. split; reflexivity.
  Qed.

  Lemma commit_main_spec st :
    idinv st ->
    let '(st', o) := commit_main st in
    idinv st' /\ id_ext st st' /\ view st' = view st /\ hist st' = hist st
    /\ match o with
       | ROk => mref st <> MDead /\ mref st' = MNone /\ pend st' = [] /\ disk st' = view st
       | RErrDiscarded => mref st = MDead /\ st' = st
       | _ => False
       end.
  Proof.
    intros Hinv. unfold commit_main. destruct (mref st) eqn:Em.
    - pose proof (iv_pend _ Hinv ltac:(congruence)) as Hp.
      split; [exact Hinv|]. split; [apply id_ext_refl|]. split; [reflexivity|]. split; [reflexivity|].
      split; [congruence|]. split; [assumption|]. split; [assumption|]. unfold view. rewrite Hp. now rewrite app_nil_r.
    - assert (Hv : view (do_commit st MNone (ctxs st)) = view st) by apply view_commit.
      split; [|split; [|split; [|split]]].
      + destruct Hinv as [K I C Lt J S P]. constructor; rewrite ?Hv; cbn; auto.
      + split; cbn; [apply incl_appl, incl_refl | apply incl_refl].
      + exact Hv.
      + reflexivity.
      + cbn. repeat split; congruence.
    - split; [exact Hinv|]. split; [apply id_ext_refl|]. split; [reflexivity|]. split; [reflexivity|]. split; reflexivity.
  Qed.

  Lemma commit_ctx_spec m k st :
    idinv st ->
    let '(st', o) := commit_ctx m k st in
    idinv st' /\ id_ext st st' /\ view st' = view st /\ hist st' = hist st
    /\ (m = CtxShared -> mref st <> MDead -> o = ROk /\ mref st' = MNone /\ pend st' = [] /\ disk st' = view st)
    /\ (o = ROk \/ o = RErrDiscarded)
    /\ (o = RErrDiscarded -> st' = st).
  Proof.
    intros Hinv. destruct m; cbn [commit_ctx].
    - assert (Hforget : forall cs,
        let st' := {| disk := disk st; pend := pend st; mref := mref st; gen := gen st; ctxs := cs;
                      nxt := nxt st; leased := leased st; dseq := dseq st; wgens := wgens st; hist := hist st |} in
        idinv st' /\ id_ext st st' /\ view st' = view st /\ hist st' = hist st
        /\ (CtxCopyPtr = CtxShared -> mref st <> MDead -> ROk = ROk /\ mref st' = MNone /\ pend st' = [] /\ disk st' = view st)
        /\ (ROk = ROk \/ ROk = RErrDiscarded) /\ (ROk = RErrDiscarded -> st' = st)).
      { intros cs st'. split; [destruct Hinv; constructor; auto|]. split; [split; cbn; apply incl_refl|].
        split; [reflexivity|]. split; [reflexivity|]. split; [discriminate|]. split; [now left | discriminate]. }
      destruct (nth_error (ctxs st) k) as [[g|]|].
      2,3: (split; [exact Hinv|]; split; [apply id_ext_refl|]; split; [reflexivity|]; split; [reflexivity|];
            split; [discriminate|]; split; [now left | discriminate]).
      destruct (is_open (mref st) && Nat.eqb g (gen st)) eqn:E.
      2: { destruct (existsb (Nat.eqb g) (wgens st)); [|apply Hforget].
           split; [exact Hinv|]; split; [apply id_ext_refl|]; split; [reflexivity|]; split; [reflexivity|];
             split; [discriminate|]; split; [now right | reflexivity]. }
      destruct (pend st) as [|pp pq] eqn:Ep; [apply Hforget|].
      assert (Hv : view (do_commit st MDead (replace_nth k None (ctxs st))) = view st) by apply view_commit.
      split; [|split; [|split; [|split; [|split; [|split]]]]].
      + destruct Hinv as [K I C Lt J S P]. constructor; rewrite ?Hv; cbn; auto.
      + split; cbn; [apply incl_appl, incl_refl | apply incl_refl].
      + exact Hv.
      + reflexivity.
      + discriminate.
      + now left.
      + discriminate.
    - pose proof (commit_main_spec st Hinv) as H. destruct (commit_main st) as [st' o].
      destruct H as (H1 & H2 & H3 & H4 & H5).
      split; [exact H1|]. split; [exact H2|]. split; [exact H3|]. split; [exact H4|].
      destruct o; try contradiction.
      + destruct H5 as (A & B & C & D). split; [intros _ _; repeat split; assumption|]. split; [now left | discriminate].
      + destruct H5 as [A B]. split; [intros _ Hn; contradiction|]. split; [now right | intros _; exact B].
  Qed.

  Lemma id_restart_spec crash st :
    idinv st ->
    idinv (id_restart L crash st) /\ id_ext st (id_restart L crash st)
    /\ disk (id_restart L crash st) = disk st /\ mref (id_restart L crash st) = MNone.
  Proof.
    intros [K I C Lt J [S1 S2] P]. unfold id_restart.
    set (d := if crash then dseq st else if dseq st =? leased st then nxt st else dseq st).
    assert (Hd : nxt st <= d).
    { unfold d. destruct crash; [lia|]. destruct (dseq st =? leased st); lia. }
    split; [|repeat split; cbn; apply incl_refl].
    unfold view in *. constructor; unfold view; cbn; rewrite ?app_nil_r.
    - rewrite map_app in K. eapply NoDup_app_l, K.
    - rewrite map_app in I. eapply NoDup_app_l, I.
    - intros x Hx. apply C, in_or_app. now left.
    - intros u i Hx. apply Lt in Hx. lia.
    - exact J.
    - lia.
    - reflexivity.
  Qed.

  Lemma id_step_inv m op st :
    idinv st -> idinv (fst (id_step m L op st)) /\ id_ext st (fst (id_step m L op st)).
  Proof.
    intros Hinv. destruct op; cbn [id_step].
    - pose proof (assert_id_spec u st Hinv) as H. destruct (assert_id L u st). cbn. tauto.
    - pose proof (commit_main_spec st Hinv) as H. destruct (commit_main st). cbn. tauto.
    - cbn. split; [|split; cbn; apply incl_refl]. destruct Hinv. constructor; auto.
    - pose proof (commit_ctx_spec m k st Hinv) as H. destruct (commit_ctx m k st). cbn. tauto.
    - cbn. pose proof (id_restart_spec crash st Hinv). tauto.
  Qed.

  Lemma id_run_inv m ops : forall st,
    idinv st -> idinv (fst (id_run m L ops st)) /\ id_ext st (fst (id_run m L ops st)).
  Proof.
    induction ops as [|op ops IH]; intros st Hinv; cbn [id_run].
    - split; [assumption | apply id_ext_refl].
    - destruct (id_step_inv m op st Hinv) as [H1 H2]. destruct (id_step m L op st) as [s1 o]. cbn [fst] in *.
      destruct (IH s1 H1) as [H3 H4]. destruct (id_run m L ops s1) as [s2 os]. cbn [fst] in *.
      split; [assumption | eapply id_ext_trans; eassumption].
  Qed.
End WithLease.

(** ** consequences *)
Lemma rlookup_In i u l : rlookup i l = Some u -> In (u, i) l.
Proof.
  induction l as [|[x j] l IH]; cbn; [discriminate|].
  destruct (N.eqb i j) eqn:E; [apply N.eqb_eq in E; intros [= ->]; subst; now left | intros H; right; auto].
Qed.

Lemma In_rlookup i u l : NoDup (map snd l) -> In (u, i) l -> rlookup i l = Some u.
Proof.
  induction l as [|[x j] l IH]; cbn; [tauto|]. intros Hnd [H|H].
  - injection H as -> ->. now rewrite N.eqb_refl.
  - inversion Hnd as [|? ? Hni Hnd']; subst. destruct (N.eqb i j) eqn:E; [|auto].
    apply N.eqb_eq in E. subst. exfalso. apply Hni. now apply (in_map snd) in H.
Qed.

Lemma idinv_disk_keys st : idinv st -> NoDup (map fst (disk st)) /\ NoDup (map snd (disk st)).
Proof.
  intros H. pose proof (iv_keys _ H) as K. pose proof (iv_ids _ H) as I. unfold view in *.
  rewrite map_app in K, I. split; eapply NoDup_app_l; eassumption.
Qed.

(** the two id indexes are each other's inverse *)
Lemma ids_tables_inverse st u i : idinv st -> (slookup u (disk st) = Some i <-> rlookup i (disk st) = Some u).
Proof.
  intros H. destruct (idinv_disk_keys _ H) as [K I]. split; intros Hl.
  - apply In_rlookup; [assumption|]. now apply slookup_In.
  - apply sIn_lookup; [assumption|]. now apply rlookup_In.
Qed.

Lemma idinv_view_lookup st u i : idinv st -> In (u, i) (view st) -> slookup u (view st) = Some i.
Proof. intros H Hin. apply sIn_lookup; [apply (iv_keys _ H) | exact Hin]. Qed.

Section Theorems.
  Variable L : N.
  Hypothesis HL : 1 <= L.

  (** no internal id is ever returned for two different URIs - whatever the interleaving of
      assertions, commits, contextual stores, restarts and crashes, in either variant *)
  Theorem ids_injective m ops : hist_inj (hist (fst (id_run m L ops (id_init L)))).
  Proof. apply iv_inj. apply (id_run_inv L HL m ops). apply idinv_init. Qed.

  Theorem ids_reachable_inv m ops : idinv (fst (id_run m L ops (id_init L))).
  Proof. apply (id_run_inv L HL m ops). apply idinv_init. Qed.

  (** every answer of assertIDForURI is recorded in [hist] *)
  Lemma assert_recorded u st st' i b : idinv st -> assert_id L u st = (st', RId i b) -> In (u, i) (hist st').
  Proof. intros Hinv E. pose proof (assert_id_spec L HL u st Hinv) as H. rewrite E in H. apply H. Qed.

  (** a committed pair stays committed and keeps being the answer, for ever *)
  Theorem ids_committed_stable m st u i ops :
    idinv st -> In (u, i) (disk st) -> u <> [] ->
    let st' := fst (id_run m L ops st) in
    In (u, i) (disk st')
    /\ (snd (assert_id L u st') = RId i false \/ (snd (assert_id L u st') = RPanic /\ mref st' = MDead)).
  Proof.
    intros Hinv Hin Hne st'. destruct (id_run_inv L HL m ops st Hinv) as [Hinv' [Hd _]]. fold st' in Hinv', Hd.
    split; [auto|].
    assert (Hl : slookup u (view st') = Some i).
    { apply idinv_view_lookup; [assumption|]. unfold view. apply in_or_app. left. auto. }
    unfold assert_id. destruct u as [|c u]; [contradiction|].
    destruct (mref st'); rewrite ?Hl; cbn; auto.
  Qed.

  (** repaired contextual store: nothing ever points at a dead transaction *)
  Definition alive (st : idstate) : Prop := mref st <> MDead.

  Lemma shared_step_alive op st : idinv st -> alive st -> alive (fst (id_step CtxShared L op st)).
  Proof.
    unfold alive. intros Hinv Ha. destruct op; cbn [id_step commit_ctx].
    - pose proof (assert_id_spec L HL u st Hinv) as H. destruct (assert_id L u st) as [st' o]. cbn.
      destruct H as (_ & _ & _ & _ & _ & H). destruct o; try contradiction.
      + destruct H as (_ & _ & H & _). congruence.
      + destruct H as [_ ->]. assumption.
      + destruct H as [_ ->]. assumption.
    - unfold commit_main. destruct (mref st) eqn:E; cbn; congruence.
    - cbn. assumption.
    - unfold commit_main. destruct (mref st) eqn:E; cbn; congruence.
    - cbn. discriminate.
  Qed.

  Lemma shared_run_alive ops : forall st, idinv st -> alive st -> alive (fst (id_run CtxShared L ops st)).
  Proof.
    induction ops as [|op ops IH]; intros st Hinv Ha; cbn [id_run]; [assumption|].
    pose proof (shared_step_alive op st Hinv Ha) as H1. destruct (id_step_inv L HL CtxShared op st Hinv) as [H2 _].
    destruct (id_step CtxShared L op st) as [s1 o]. cbn [fst] in *.
    specialize (IH s1 H2 H1). destruct (id_run CtxShared L ops s1). exact IH.
  Qed.

  Lemma shared_step_out op st :
    idinv st -> alive st -> snd (id_step CtxShared L op st) <> RPanic /\ snd (id_step CtxShared L op st) <> RErrDiscarded.
  Proof.
    unfold alive. intros Hinv Ha. destruct op; cbn [id_step commit_ctx].
    - pose proof (assert_id_spec L HL u st Hinv) as H. destruct (assert_id L u st) as [st' o]. cbn.
      destruct H as (_ & _ & _ & _ & _ & H). destruct o; try contradiction; try (split; discriminate).
      destruct H as [H _]. contradiction.
    - unfold commit_main. destruct (mref st) eqn:E; cbn; try (split; discriminate). contradiction.
    - cbn. split; discriminate.
    - unfold commit_main. destruct (mref st) eqn:E; cbn; try (split; discriminate). contradiction.
    - cbn. split; discriminate.
  Qed.

  (** repaired: no request ever panics or hits a discarded transaction *)
  Theorem ids_shared_no_failure ops : forall st,
    idinv st -> alive st -> Forall (fun o => o <> RPanic /\ o <> RErrDiscarded) (snd (id_run CtxShared L ops st)).
  Proof.
    induction ops as [|op ops IH]; intros st Hinv Ha; cbn [id_run]; [constructor|].
    pose proof (shared_step_alive op st Hinv Ha) as H1. destruct (id_step_inv L HL CtxShared op st Hinv) as [H2 _].
    pose proof (shared_step_out op st Hinv Ha) as H3.
    destruct (id_step CtxShared L op st) as [s1 o]. cbn [fst snd] in *.
    specialize (IH s1 H2 H1). destruct (id_run CtxShared L ops s1). cbn [snd] in *. constructor; assumption.
  Qed.

  (** repaired: a commit through any contextual store (or the main store) makes every id the
      transaction saw durable, and from then on it is the answer for its URI for ever *)
  Theorem ids_stable k st u i ops :
    idinv st -> alive st -> In (u, i) (view st) -> u <> [] ->
    let st1 := fst (id_step CtxShared L (ICommitCtx k) st) in
    let st' := fst (id_run CtxShared L ops st1) in
    snd (id_step CtxShared L (ICommitCtx k) st) = ROk /\ pend st1 = [] /\ In (u, i) (disk st')
    /\ snd (assert_id L u st') = RId i false.
  Proof.
    intros Hinv Ha Hin Hne st1 st'.
    pose proof (commit_ctx_spec CtxShared k st Hinv) as H. unfold st1 in *. cbn [id_step] in *.
    destruct (commit_ctx CtxShared k st) as [s1 o]. cbn [fst snd] in *.
    destruct H as (Hi1 & _ & _ & _ & Hs & _). destruct (Hs eq_refl Ha) as (-> & Hm & Hp & Hd).
    assert (Ha1 : alive s1) by (unfold alive; congruence).
    assert (Hin1 : In (u, i) (disk s1)) by (rewrite Hd; exact Hin).
    destruct (ids_committed_stable CtxShared s1 u i ops Hi1 Hin1 Hne) as [H1 H2]. fold st' in H1, H2.
    repeat split; try assumption.
    destruct H2 as [H2|[_ H2]]; [assumption|]. exfalso. exact (shared_run_alive ops s1 Hi1 Ha1 H2).
  Qed.

  (** ** the pinned contextual store: exact condition under which it is dead *)
  Definition ctx_dead (k g : nat) (st : idstate) : Prop :=
    nth_error (ctxs st) k = Some (Some g) /\ existsb (Nat.eqb g) (wgens st) = true
    /\ (g < gen st \/ (g = gen st /\ mref st <> MOpen))%nat.

  Lemma ctx_dead_fails k g st : ctx_dead k g st -> commit_ctx CtxCopyPtr k st = (st, RErrDiscarded).
  Proof.
    intros (Hn & Hw & Hg). cbn [commit_ctx]. rewrite Hn.
    destruct (is_open (mref st) && Nat.eqb g (gen st)) eqn:E; [|now rewrite Hw].
    apply andb_true_iff in E. destruct E as [E1 E2]. apply Nat.eqb_eq in E2.
    destruct (mref st); try discriminate. destruct Hg as [Hg|[_ Hg]]; [lia | congruence].
  Qed.

  Lemma nth_error_replace_other {A} k j (x : A) l : k <> j -> nth_error (replace_nth j x l) k = nth_error l k.
  Proof.
    revert k j. induction l as [|y l IH]; intros k j Hne; destruct j, k; cbn; auto; try contradiction.
  Qed.

  Lemma ctx_dead_step k g op st :
    idinv st -> ctx_dead k g st -> (forall c, op <> IRestart c) -> ctx_dead k g (fst (id_step CtxCopyPtr L op st)).
  Proof.
    intros Hinv (Hn & Hw & Hg) Hop. destruct op; cbn [id_step].
    - unfold assert_id. destruct u as [|c u]; [repeat split; assumption|].
      destruct (mref st) eqn:Em.
      + destruct (slookup (c :: u) (view st)); [|unfold seq_next; destruct (leased st <=? nxt st)]; unfold ctx_dead; cbn;
          (split; [assumption|]; split; [assumption|]; left; destruct Hg as [Hg|[Hg _]]; lia).
      + destruct (slookup (c :: u) (view st)); [|unfold seq_next; destruct (leased st <=? nxt st)]; unfold ctx_dead; cbn;
          (split; [assumption|]; split; [assumption|]; destruct Hg as [Hg|[_ Hg]]; [left; exact Hg | congruence]).
      + split; [assumption|]. split; [assumption|]. cbn [fst]. rewrite Em. exact Hg.
    - unfold commit_main. destruct (mref st) eqn:Em; unfold ctx_dead; cbn.
      + rewrite Em. repeat split; assumption.
      + split; [assumption|]. split.
        * destruct (pend st); [assumption|]. cbn. now rewrite Hw, orb_true_r.
        * destruct Hg as [Hg|[_ Hg]]; [left; exact Hg | congruence].
      + rewrite Em. repeat split; assumption.
    - unfold ctx_dead; cbn. split; [|split; assumption]. rewrite nth_error_app1; [assumption|]. apply nth_error_Some. congruence.
    - cbn [commit_ctx]. destruct (nth_error (ctxs st) k0) as [[g0|]|] eqn:En; cbn [fst]; try (repeat split; assumption).
      assert (Hforget : ctx_dead k g {| disk := disk st; pend := pend st; mref := mref st; gen := gen st;
                 ctxs := replace_nth k0 None (ctxs st); nxt := nxt st; leased := leased st; dseq := dseq st;
                 wgens := wgens st; hist := hist st |} \/ k = k0).
      { destruct (Nat.eq_dec k k0) as [->|Hne]; [now right|]. left. unfold ctx_dead; cbn.
        split; [rewrite nth_error_replace_other; assumption|]. split; assumption. }
      destruct (is_open (mref st) && Nat.eqb g0 (gen st)) eqn:E; cbn [fst].
      + apply andb_true_iff in E. destruct E as [E1 E2]. apply Nat.eqb_eq in E2. subst g0.
        destruct (mref st) eqn:Em; try discriminate.
        destruct Hforget as [Hf| ->].
        2: { rewrite Hn in En. injection En as ->. destruct Hg as [Hg|[_ Hg]]; [lia | congruence]. }
        destruct (pend st) eqn:Ep; cbn [fst]; [exact Hf|].
        destruct Hf as (Hf1 & _ & _). cbn in Hf1. unfold ctx_dead; cbn. rewrite Ep. split; [exact Hf1|]. split.
        * cbn. now rewrite Hw, orb_true_r.
        * destruct Hg as [Hg|[_ Hg]]; [left; exact Hg | congruence].
      + destruct (existsb (Nat.eqb g0) (wgens st)) eqn:Ew; cbn [fst]; [repeat split; assumption|].
        destruct Hforget as [Hf| ->]; [exact Hf|].
        rewrite Hn in En. injection En as ->. congruence.
    - exfalso. now apply (Hop crash).
  Qed.

  (** once dead, a contextual store fails every commit until the process is restarted *)
  Theorem ctx_dead_forever k g ops : forall st,
    idinv st -> ctx_dead k g st -> (forall c, ~ In (IRestart c) ops) ->
    commit_ctx CtxCopyPtr k (fst (id_run CtxCopyPtr L ops st)) = (fst (id_run CtxCopyPtr L ops st), RErrDiscarded).
  Proof.
    induction ops as [|op ops IH]; intros st Hinv Hd Hops; cbn [id_run].
    - now apply (ctx_dead_fails k g).
    - assert (Hop : forall c, op <> IRestart c) by (intros c ->; apply (Hops c); now left).
      pose proof (ctx_dead_step k g op st Hinv Hd Hop) as H1. destruct (id_step_inv L HL CtxCopyPtr op st Hinv) as [H2 _].
      destruct (id_step CtxCopyPtr L op st) as [s1 o]. cbn [fst] in *.
      assert (Hops' : forall c, ~ In (IRestart c) ops) by (intros c Hc; apply (Hops c); now right).
      specialize (IH s1 H2 H1 Hops'). destruct (id_run CtxCopyPtr L ops s1). exact IH.
  Qed.
End Theorems.

(** ** refutations of the pinned contextual store (concrete histories, lease 1000) *)
Definition u1 : str := [117; 49].
Definition u2 : str := [117; 50].
Definition u3 : str := [117; 51].

(** F13b: a failed write leaves the id txn open, the contextual store captures it, the parent
    commits it: the contextual store is dead *)
Lemma refuted_ctx_discarded :
  let st := fst (id_run CtxCopyPtr 1000 [IAssert u1; INewCtx; ICommitMain; IAssert u2] (id_init 1000)) in
  ctx_dead 0 1 st /\ snd (id_step CtxCopyPtr 1000 (ICommitCtx 0) st) = RErrDiscarded.
Proof. vm_compute. split; [split; [reflexivity | split; [reflexivity | left; lia]] | reflexivity]. Qed.

(** F13c: ids handed out through a contextual store are not committed by its commit and are lost *)
Lemma refuted_ctx_lost :
  snd (id_run CtxCopyPtr 1000 [INewCtx; IAssert u1; ICommitCtx 0; IRestart false; IAssert u2; IAssert u1] (id_init 1000))
  = [ROk; RId 0 true; ROk; ROk; RId 1 true; RId 2 true].
Proof. vm_compute. reflexivity. Qed.

(** F13d: the contextual store commits the transaction its parent still points to *)
Lemma refuted_ctx_poison :
  snd (id_run CtxCopyPtr 1000 [IAssert u1; INewCtx; ICommitCtx 0; IAssert u2; ICommitMain] (id_init 1000))
  = [RId 0 true; ROk; ROk; RPanic; RErrDiscarded].
Proof. vm_compute. reflexivity. Qed.

(** the same three histories under the repaired contextual store *)
Lemma fixed_ctx_histories :
  snd (id_run CtxShared 1000 [IAssert u1; INewCtx; ICommitMain; IAssert u2; ICommitCtx 0] (id_init 1000))
  = [RId 0 true; ROk; ROk; RId 1 true; ROk]
  /\ snd (id_run CtxShared 1000 [INewCtx; IAssert u1; ICommitCtx 0; IRestart false; IAssert u2; IAssert u1] (id_init 1000))
  = [ROk; RId 0 true; ROk; ROk; RId 1 true; RId 0 false]
  /\ snd (id_run CtxShared 1000 [IAssert u1; INewCtx; ICommitCtx 0; IAssert u2; ICommitMain] (id_init 1000))
  = [RId 0 true; ROk; ROk; RId 1 true; ROk].
Proof. vm_compute. repeat split; reflexivity. Qed.

(** a crash skips the unused part of the lease, a clean restart does not; ids are never reused *)
Lemma lease_example :
  snd (id_run CtxShared 1000 [IAssert u1; IRestart true; IAssert u2; ICommitMain; IRestart false; IAssert u3; IAssert u1]
              (id_init 1000))
  = [RId 0 true; ROk; RId 1000 true; ROk; ROk; RId 1001 true; RId 1002 true].
Proof. vm_compute. reflexivity. Qed.

(** ** F13c, exact: which handed-out ids a restart loses, and why the pinned contextual store
    leaves them in that position *)
Section Lost.
  Variable L : N.
  Hypothesis HL : 1 <= L.

  (** a contextual store created while its parent had no id transaction commits nothing:
      its commitIDTxn is the identity, the ids its ExecuteTransaction asserted stay pending *)
  Lemma ctx_commit_noop k st : nth_error (ctxs st) k = Some None -> commit_ctx CtxCopyPtr k st = (st, ROk).
  Proof. intros H. cbn [commit_ctx]. now rewrite H. Qed.

  Lemma NoDup_app_disjoint {A} (a b : list A) x : NoDup (a ++ b) -> In x b -> ~ In x a.
  Proof.
    induction a as [|y a IH]; cbn; intros Hnd Hb; [tauto|].
    inversion Hnd as [|? ? Hn Hd]; subst. intros [->|Ha]; [apply Hn, in_or_app; now right | now apply IH].
  Qed.

  (** what a restart (clean or crash) does to a pair the current id transaction can see:
      committed pairs survive and stay the answer; pending pairs are gone and the URI is given a
      strictly larger id - nothing else can happen *)
  Theorem restart_loses_exactly_pending crash st u i :
    idinv st -> u <> [] -> In (u, i) (view st) ->
    let st2 := id_restart L crash st in
    (In (u, i) (disk st) -> snd (assert_id L u st2) = RId i false)
    /\ (In (u, i) (pend st) -> exists j, snd (assert_id L u st2) = RId j true /\ i < j).
  Proof.
    intros Hinv Hne Hin st2.
    destruct (id_restart_spec L HL crash st Hinv) as (Hi2 & _ & Hd2 & Hm2). fold st2 in Hi2, Hd2, Hm2.
    assert (Hv2 : view st2 = disk st) by (unfold view, st2, id_restart; cbn; apply app_nil_r).
    split.
    - intros Hd. unfold assert_id. destruct u as [|c u]; [contradiction|]. rewrite Hm2, Hv2.
      rewrite (sIn_lookup _ _ _ (proj1 (idinv_disk_keys _ Hinv)) Hd). reflexivity.
    - intros Hp.
      assert (Hnone : slookup u (view st2) = None).
      { rewrite Hv2. apply slookup_None. pose proof (iv_keys _ Hinv) as K. unfold view in K. rewrite map_app in K.
        apply (NoDup_app_disjoint _ _ _ K). now apply (in_map fst) in Hp. }
      unfold assert_id. destruct u as [|c u]; [contradiction|]. rewrite Hm2, Hnone.
      pose proof (iv_seq _ Hi2) as [S1 S2]. pose proof (seq_next_spec L HL st2 S1 S2) as Hs.
      destruct (seq_next L st2) as [j s1]. destruct Hs as (Hj & _). cbn [snd]. exists j. split; [reflexivity|].
      assert (Hlt : i < nxt st) by (apply (iv_lt _ Hinv (c :: u)), (iv_incl _ Hinv), Hin).
      assert (Hge : nxt st <= nxt st2).
      { destruct Hinv as [_ _ _ _ _ [A B] _]. unfold st2, id_restart. cbn. destruct crash; [lia|].
        destruct (dseq st =? leased st); lia. }
      lia.
  Qed.

  (** the two variants side by side on one step: same state, same contextual store, same commit *)
  Theorem ctx_commit_variants k st :
    idinv st -> alive st -> nth_error (ctxs st) k = Some None ->
    (fst (commit_ctx CtxCopyPtr k st) = st /\ snd (commit_ctx CtxCopyPtr k st) = ROk)
    /\ (pend (fst (commit_ctx CtxShared k st)) = [] /\ disk (fst (commit_ctx CtxShared k st)) = view st
        /\ snd (commit_ctx CtxShared k st) = ROk).
  Proof.
    intros Hinv Ha Hk. split; [rewrite (ctx_commit_noop k st Hk); split; reflexivity|].
    pose proof (commit_ctx_spec CtxShared k st Hinv) as H. destruct (commit_ctx CtxShared k st) as [s1 o].
    destruct H as (_ & _ & _ & _ & Hs & _). destruct (Hs eq_refl Ha) as (-> & _ & Hp & Hd). cbn. auto.
  Qed.
End Lost.

(** the read side resolves every committed identifier to the id the write side handed out *)
Lemma read_id_committed st u i : idinv st -> In (u, i) (disk st) -> read_id st u = Some i.
Proof. intros H Hin. unfold read_id. apply sIn_lookup; [apply (idinv_disk_keys _ H) | exact Hin]. Qed.
