(** C04 / C19: under the repaired counter mode (counter written by the data transaction) the items counter
    of every dataset equals its number of entities after EVERY history of writes, crashes at any position and
    restarts. *)
From Coq Require Import List ZArith NArith Bool Lia Permutation.
From DH Require Import Lib.CheckLib Model.Store Model.FeedSpec Model.Crash Proofs.StoreProofs Proofs.StoreReaders
     Proofs.C01Proofs Proofs.CrashStore Proofs.CrashProofs Check.StoreCheck Proofs.C02CheckProofs Proofs.C01CheckProofs.
Import ListNotations.
Open Scope Z_scope.

(** ** number of entities = number of distinct ids in the log *)
Definition nents (d : dstate) : Z := Z.of_nat (length (view_of (feed_of d))).

Lemma last_entry_None E id : last_entry E id = None <-> ~ In id (map en_id E).
Proof.
  induction E as [|e E IH]; cbn [last_entry map In]; [tauto|].
  destruct (last_entry E id) eqn:El.
  - split; [discriminate|]. intros H. exfalso. assert (Hn : ~ In id (map en_id E)) by tauto. apply IH in Hn. discriminate.
  - destruct (Z.eqb_spec (en_id e) id) as [->|Hne]; [split; [discriminate | tauto]|].
    split; [intros _ [H|H]; [contradiction | now apply IH in H] | reflexivity].
Qed.

Lemma view_ids_In E k : In k (map fst (view_of (efeed E))) <-> In k (map en_id E).
Proof.
  split.
  - intros H. apply in_map_iff in H. destruct H as [[k' c] [Hk Hin]]. cbn [fst] in Hk. subst k'.
    apply view_of_In in Hin. rewrite current_of_last_entry in Hin.
    destruct (last_entry E k) eqn:El; [|discriminate].
    destruct (last_entry_In _ _ _ El) as [Hi He]. subst k. now apply in_map.
  - intros H. destruct (last_entry E k) as [e|] eqn:El; [|apply last_entry_None in El; contradiction].
    apply in_map_iff. exists (k, en_c e). split; [reflexivity|]. apply view_of_In. rewrite current_of_last_entry, El. reflexivity.
Qed.

(** the ids a share adds that the dataset did not have *)
Definition fresh_ids (d : dstate) (ents : list ent) : list uri :=
  dedup (filter (fun id => match assoc id (d_latest d) with None => true | Some _ => false end) (map e_id ents)) [].

Lemma new_items_fresh d ents : new_items d ents = Z.of_nat (length (fresh_ids d ents)).
Proof. reflexivity. Qed.

(** ** the batch loop keeps every id that is new to the dataset, and only ids that were posted *)
Section Loop.
Variable fl : eqflags.
Variable dm : dup_mode.
Variable d : dstate.
Variable t : Z.

Record kinv (proc : list uri) (acc : bacc) : Prop := {
  k_loc : forall id, In id (map fst (a_loc acc)) -> In id (map en_id (a_pend acc));
  k_new : forall id, In id proc -> stored_latest d id = None -> In id (map en_id (a_pend acc));
  k_sub : forall id, In id (map en_id (a_pend acc)) -> In id proc
}.

Lemma assoc_None_notin {V} k (l : list (Z * V)) : assoc k l = None <-> ~ In k (map fst l).
Proof. rewrite assoc_In_fst. destruct (assoc k l); split; intros H; try tauto; try discriminate. exfalso. apply H. discriminate. Qed.

Lemma batch_step_kinv proc acc i e : kinv proc acc -> kinv (proc ++ [e_id e]) (batch_step fl dm d t acc (i, e)).
Proof.
  intros [Hl Hn Hs]. destruct e as [id c]. unfold batch_step. cbn [e_id e_c].
  destruct (keep_decision fl dm (stored_latest d id) (assoc id (a_loc acc)) c) eqn:Ek.
  - constructor; cbn [a_loc a_pend map fst]; intros x; rewrite ?map_app, ?in_app_iff; cbn [map In en_id].
    + intros [<-|H]; [right; now left | left; now apply Hl].
    + intros [H|[<-|[]]] Hst; [left; now apply Hn | right; now left].
    + intros [H|[<-|[]]]; [left; now apply Hs | right; now left].
  - constructor; intros x; rewrite ?in_app_iff; cbn [In].
    + apply Hl.
    + intros [H|[<-|[]]] Hst; [now apply Hn|].
      (* a skipped element whose id has no stored version: it has an in-batch predecessor, which was kept *)
      rewrite Hst in Ek. apply Hl. apply assoc_In_fst.
      destruct (assoc id (a_loc acc)); [discriminate|]. exfalso. destruct dm; cbn in Ek; discriminate.
    + intros H. left. now apply Hs.
Qed.

Lemma batch_fold_kinv ents : forall i proc acc, kinv proc acc ->
  kinv (proc ++ map e_id ents) (fold_left (batch_step fl dm d t) (number_from i ents) acc).
Proof.
  induction ents as [|e ents IH]; intros i proc acc H; cbn [number_from fold_left map]; [now rewrite app_nil_r|].
  replace (proc ++ e_id e :: map e_id ents) with ((proc ++ [e_id e]) ++ map e_id ents) by (now rewrite <- app_assoc).
  apply IH. now apply batch_step_kinv.
Qed.

Lemma pend_ids ents :
  (forall id, In id (map e_id ents) -> stored_latest d id = None -> In id (map en_id (batch_pend fl dm t ents d)))
  /\ (forall id, In id (map en_id (batch_pend fl dm t ents d)) -> In id (map e_id ents)).
Proof.
  assert (H0 : kinv [] (acc0_of d)) by (constructor; cbn; tauto).
  pose proof (batch_fold_kinv ents 0 [] (acc0_of d) H0) as [_ Hn Hs]. cbn [app] in *. split; assumption.
Qed.
End Loop.

Lemma NoDup_same_length {A} (l1 l2 : list A) : NoDup l1 -> NoDup l2 -> (forall x, In x l1 <-> In x l2) -> length l1 = length l2.
Proof.
  intros H1 H2 H. apply Nat.le_antisymm; apply NoDup_incl_length; try assumption; intros x Hx; now apply H.
Qed.

(** one dataset's share adds exactly [new_items] entities *)
Lemma store_batch_nents fl dm clk t ents d : dinvg clk d ->
  nents (store_batch_ds fl dm t ents d) = nents d + new_items d ents.
Proof.
  intros Hd. rewrite new_items_fresh. unfold nents, feed_of.
  destruct (store_batch_shape fl dm t ents d) as (He & _). rewrite He.
  fold (efeed (d_entries d ++ batch_pend fl dm t ents d)) (efeed (d_entries d)).
  rewrite <- Nat2Z.inj_add. f_equal.
  set (V' := view_of (efeed (d_entries d ++ batch_pend fl dm t ents d))). set (V := view_of (efeed (d_entries d))). unfold oent in *.
  rewrite <- (map_length fst V'), <- (map_length fst V), <- app_length. subst V V'.
  destruct (dedup_spec (filter (fun id => match assoc id (d_latest d) with None => true | Some _ => false end) (map e_id ents)) [])
    as [Hfn Hfs]. fold (fresh_ids d ents) in Hfn, Hfs.
  assert (Hfresh : forall x, In x (fresh_ids d ents) <-> In x (map e_id ents) /\ ~ In x (map en_id (d_entries d))).
  { intros x. split.
    - intros Hx. destruct (Hfs x Hx) as [Hf _]. apply filter_In in Hf. destruct Hf as [Hin Hn]. split; [exact Hin|].
      rewrite (g_ptr _ _ Hd) in Hn. apply last_entry_None. destruct (last_entry (d_entries d) x); [discriminate | reflexivity].
    - intros [Hin Hn]. unfold fresh_ids.
      assert (Hf : In x (filter (fun id => match assoc id (d_latest d) with None => true | Some _ => false end) (map e_id ents))).
      { apply filter_In. split; [exact Hin|]. rewrite (g_ptr _ _ Hd). apply last_entry_None in Hn. now rewrite Hn. }
      revert Hf. generalize (filter (fun id => match assoc id (d_latest d) with None => true | Some _ => false end) (map e_id ents)).
      intros l. assert (Hgen : forall seen, In x l -> ~ In x seen -> In x (dedup l seen)).
      { clear. induction l as [|y l IH]; intros seen Hl Hs; [contradiction|]. cbn [dedup].
        destruct (existsb (Z.eqb y) seen) eqn:E.
        - destruct Hl as [->|Hl]; [apply existsb_eqb_In in E; contradiction | now apply IH].
        - destruct (Z.eq_dec y x) as [->|Hne]; [now left|]. right. destruct Hl as [Hl|Hl]; [contradiction|].
          apply IH; [exact Hl|]. intros [H|H]; [contradiction | contradiction]. }
      intros Hl. apply Hgen; [exact Hl | intros []]. }
  destruct (pend_ids fl dm d t ents) as [Hkept Hsub].
  apply NoDup_same_length.
  - apply view_of_NoDup.
  - apply nodup_app; [apply view_of_NoDup | exact Hfn|]. intros x Hx Hf. apply view_ids_In in Hx. apply Hfresh in Hf. tauto.
  - intros x. rewrite view_ids_In, map_app, !in_app_iff, view_ids_In, Hfresh. split.
    + intros [H|H]; [now left|]. destruct (in_dec Z.eq_dec x (map en_id (d_entries d))); [now left | right; split; [now apply Hsub | assumption]].
    + intros [H|[H1 H2]]; [now left|]. right. apply Hkept; [exact H1|].
      unfold stored_latest. rewrite (g_ptr _ _ Hd). apply last_entry_None in H2. now rewrite H2.
Qed.

(** ** the counter under the repaired mode *)
From DH Require Import Proofs.CrashCounter.

Definition cnt_ok (c : cstate) : Prop := forall ds, items_of c ds = nents (get_ds (cs_store c) ds).

Lemma nents_data d1 d2 : data_of d1 = data_of d2 -> nents d1 = nents d2.
Proof. unfold data_of, nents, feed_of. intros [= -> _]. reflexivity. Qed.

Definition iget (items : list (Z * Z)) (x : Z) : Z := match assoc x items with Some n => n | None => 0 end.

Lemma items_fold l : forall items x, NoDup (map fst l) ->
  iget (fold_left (fun it (p : Z * Z) => add_items it (fst p) (snd p)) l items) x = iget items x + cval l x.
Proof.
  induction l as [|[d n] l IH]; intros items x Hnd; cbn [fold_left fst snd].
  - unfold cval. cbn. lia.
  - inversion Hnd as [|? ? Hd Hnd']; subst. rewrite IH by exact Hnd'.
    unfold cval. cbn [assoc]. unfold iget, add_items.
    destruct (Z.eqb_spec x d) as [->|Hne].
    + rewrite assoc_set_assoc_same.
      assert (Hn : assoc d l = None).
      { destruct (assoc d l) eqn:E; [|reflexivity]. exfalso. apply Hd. eapply assoc_In; exact E. }
      rewrite Hn. lia.
    + rewrite assoc_set_assoc_other by exact Hne. reflexivity.
Qed.

Lemma new_items_nonneg d ents : 0 <= new_items d ents.
Proof. unfold new_items. lia. Qed.

Lemma cval_counts_untouched st sets ds : ~ In ds (map fst sets) -> cval (counts st sets) ds = 0.
Proof.
  unfold cval. intros Hn. destruct (assoc ds (counts st sets)) as [n|] eqn:E; [|reflexivity].
  exfalso. apply Hn. apply assoc_Some_In in E. unfold counts in E. apply in_flat_map in E.
  destruct E as [[d2 es2] [Hin Hx]]. cbn [fst snd] in Hx. destruct (0 <? new_items (get_ds st d2) es2); [|contradiction].
  destruct Hx as [[= -> _]|[]]. change ds with (fst (ds, es2)). now apply in_map.
Qed.

Lemma cval_app l1 l2 x : cval (l1 ++ l2) x = match assoc x l1 with Some n => n | None => cval l2 x end.
Proof.
  unfold cval. induction l1 as [|[k v] l1 IH]; cbn [app assoc]; [reflexivity|].
  destruct (Z.eqb x k); [reflexivity | exact IH].
Qed.

Lemma cval_counts_touched st sets : forall ds ents, NoDup (map fst sets) -> In (ds, ents) sets ->
  cval (counts st sets) ds = new_items (get_ds st ds) ents.
Proof.
  induction sets as [|[k es] sets IH]; intros ds ents Hnd Hin; [contradiction|].
  inversion Hnd as [|? ? Hk Hnd']; subst.
  change (counts st ((k, es) :: sets)) with ((if 0 <? new_items (get_ds st k) es then [(k, new_items (get_ds st k) es)] else []) ++ counts st sets).
  rewrite cval_app. destruct Hin as [[= -> ->]|Hin].
  - destruct (Z.ltb_spec 0 (new_items (get_ds st ds) ents)) as [Hlt|Hge]; cbn [assoc].
    + now rewrite Z.eqb_refl.
    + rewrite cval_counts_untouched by exact Hk. pose proof (new_items_nonneg (get_ds st ds) ents). lia.
  - assert (Hne : ds <> k). { intros ->. apply Hk. change k with (fst (k, ents)). now apply in_map. }
    destruct (0 <? new_items (get_ds st k) es); cbn [assoc].
    + replace (Z.eqb ds k) with false by (symmetry; now apply Z.eqb_neq). now apply IH.
    + now apply IH.
Qed.

Section CounterInData.
Variable fl : eqflags.
Variable dm : dup_mode.

Lemma exec_items c o :
  cs_items (exec_op CounterInData fl dm c o)
  = fold_left (fun it (p : Z * Z) => add_items it (fst p) (snd p)) (cnt_of c o) (cs_items c).
Proof.
  unfold exec_op. rewrite steps_eq. cbn [set_vnext cs_items]. change (post_of CounterInData c o) with (@nil dstep).
  pose proof (pre_seq_only (cs_ids c) (cs_store c) (st'_of fl dm c o) (op_sets o) (v0 c)) as Hso.
  fold (pre_pair fl dm c o) in Hso. fold (pre_of fl dm c o) in Hso.
  rewrite apply_steps_app. unfold data_step. cbn [apply_steps fold_left apply_step cs_items].
  now rewrite (seq_steps_items _ _ Hso).
Qed.

Theorem exec_op_cnt_ok c o : wf_wop o -> cinv c -> cnt_ok c -> cnt_ok (exec_op CounterInData fl dm c o).
Proof.
  intros Hwf Hc Hok ds.
  destruct (exec_op_state CounterInData fl dm c o Hwf Hc) as (A & _). rewrite A.
  unfold items_of. rewrite exec_items. fold (iget (fold_left (fun it (p : Z * Z) => add_items it (fst p) (snd p)) (cnt_of c o) (cs_items c)) ds).
  rewrite items_fold by (apply counts_nodup; apply (wf_wop_nodup o Hwf)).
  change (iget (cs_items c) ds) with (items_of c ds). rewrite (Hok ds). unfold cnt_of. change (op_sets o) with (wsets o).
  destruct (in_dec Z.eq_dec ds (map fst (wsets o))) as [Hin|Hn].
  - destruct (in_map_fst_inv _ _ Hin) as [ents He].
    rewrite (cval_counts_touched _ _ _ _ (wf_wop_nodup o Hwf) He), (apply_wop_touched _ _ _ _ _ _ Hwf He).
    symmetry. apply (store_batch_nents fl dm (s_clock (cs_store c))). apply (ci_store _ Hc).
  - rewrite (cval_counts_untouched _ _ _ Hn), apply_wop_untouched by exact Hn. lia.
Qed.

Theorem crash_cnt_ok c o k : wf_wop o -> cinv c -> cnt_ok c -> cnt_ok (crash_at CounterInData fl dm k c o).
Proof.
  intros Hwf Hc Hok ds.
  destruct (counter_in_data_atomic fl dm c o k Hwf Hc) as [I1 I2]. cbv zeta in *.
  destruct (crash_data CounterInData fl dm c o k) as [D1 D2]. cbv zeta in *.
  destruct (le_lt_dec k (commit_index CounterInData fl dm c o)) as [Hle|Hgt].
  - unfold items_of. rewrite (I1 Hle). fold (items_of c ds). rewrite (nents_data _ _ (D1 Hle ds)). apply Hok.
  - unfold items_of. rewrite (I2 Hgt). fold (items_of (exec_op CounterInData fl dm c o) ds).
    rewrite (nents_data _ _ (D2 Hgt ds)).
    destruct (exec_op_state CounterInData fl dm c o Hwf Hc) as (A & _). rewrite <- A.
    now apply exec_op_cnt_ok.
Qed.

Theorem run_event_cnt_ok c e : wf_event e -> cinv c -> cnt_ok c -> cnt_ok (run_event CounterInData fl dm c e).
Proof.
  destruct e as [o|o k|]; cbn [wf_event run_event]; intros Hwf Hc Hok.
  - now apply exec_op_cnt_ok.
  - now apply crash_cnt_ok.
  - exact Hok.
Qed.

(** C19_items across crashes, repaired counter mode: after EVERY history the counter of every dataset is its
    number of entities *)
Theorem run_events_cnt_ok es : forall c, Forall wf_event es -> cinv c -> cnt_ok c ->
  cnt_ok (run_events CounterInData fl dm es c).
Proof.
  induction es as [|e es IH]; intros c Hwf Hc Hok; [exact Hok|].
  inversion Hwf; subst. cbn [run_events fold_left]. apply IH; [assumption | now apply run_event_cinv | now apply run_event_cnt_ok].
Qed.
End CounterInData.

Lemma cnt_ok0 next idp : cnt_ok (cstate0 next idp).
Proof. intros ds. reflexivity. Qed.
