(** The reverse change reader refines its feed-level spec (C02, reverse paging). *)
From Coq Require Import List ZArith Bool Lia.
From DH Require Import Model.Store Model.FeedSpec Model.ReverseReader Proofs.StoreProofs Proofs.StoreReaders.
Import ListNotations.
Open Scope Z_scope.

Lemma takez_map {A B} (f : A -> B) l : forall n, takez n (map f l) = map f (takez n l).
Proof.
  induction l as [|x l IH]; intros n; cbn [map takez]; [reflexivity|].
  destruct (n <=? 0); [reflexivity|]. cbn [map]. now rewrite IH.
Qed.

Lemma takez_prefix {A} (l : list A) : forall n, exists r, l = takez n l ++ r.
Proof.
  induction l as [|x l IH]; intros n; cbn [takez]; [exists []; reflexivity|].
  destruct (n <=? 0); [exists (x :: l); reflexivity|].
  destruct (IH (n - 1)) as [r Hr]. exists r. cbn [app]. now rewrite <- Hr.
Qed.

Lemma limitz_prefix {A} limit (l : list A) : exists r, l = limitz limit l ++ r.
Proof. unfold limitz. destruct (0 <? limit); [apply takez_prefix | exists []; now rewrite app_nil_r]. Qed.

Lemma limitz_map {A B} (f : A -> B) limit l : limitz limit (map f l) = map f (limitz limit l).
Proof. unfold limitz. destruct (0 <? limit); [apply takez_map | reflexivity]. Qed.

Lemma takez_length_le {A} (l : list A) : forall n, Z.of_nat (length l) <= n -> takez n l = l.
Proof.
  induction l as [|x l IH]; intros n H; cbn [takez]; [reflexivity|]. cbn [length] in H.
  destruct (Z.leb_spec n 0); [lia|]. now rewrite IH by lia.
Qed.

Lemma takez_length_bound {A} (l : list A) : forall n, 0 <= n -> Z.of_nat (length (takez n l)) <= n.
Proof.
  induction l as [|x l IH]; intros n Hn; cbn [takez length]; [lia|].
  destruct (Z.leb_spec n 0); cbn [length]; [lia|]. specialize (IH (n - 1) ltac:(lia)). lia.
Qed.

(** with contiguous sequence numbers, "below since" is a prefix of the log *)
Lemma filter_lt_takez E : forall a since,
  map en_seq E = zseq a (length E) ->
  filter (fun e => en_seq e <? since) E = takez (since - a) E.
Proof.
  induction E as [|e E IH]; intros a since H; cbn [filter takez]; [reflexivity|].
  cbn [map length zseq] in H. injection H as He HE.
  destruct (Z.leb_spec (since - a) 0) as [Hle|Hgt].
  - replace (en_seq e <? since) with false by (symmetry; apply Z.ltb_ge; lia).
    rewrite (IH (a + 1) since HE). destruct E; cbn [takez]; [reflexivity|].
    destruct (Z.leb_spec (since - (a + 1)) 0); [reflexivity | lia].
  - replace (en_seq e <? since) with true by (symmetry; apply Z.ltb_lt; lia).
    f_equal. rewrite (IH (a + 1) since HE). f_equal. lia.
Qed.

(** the sequence number of the last element of a non-empty prefix of the reversed log *)
Lemma last_of_rev_prefix l a out r :
  map en_seq l = zseq a (length l) -> rev l = out ++ r -> out <> [] ->
  exists e, last (map Some out) None = Some e /\ en_seq e = a + Z.of_nat (length l) - Z.of_nat (length out).
Proof.
  intros Hs Hr Hne.
  destruct (exists_last Hne) as (out' & e & ->).
  exists e. split.
  - rewrite map_app. cbn [map]. apply last_last.
  - assert (Hl : l = rev r ++ (e :: rev out')).
    { rewrite <- (rev_involutive l), Hr, rev_app_distr, rev_app_distr. cbn [rev app]. reflexivity. }
    rewrite Hl in Hs.
    apply seqs_suffix in Hs. cbn [map length zseq] in Hs. injection Hs as He _.
    rewrite He, Hl, !app_length, rev_length. cbn [length]. rewrite rev_length. lia.
Qed.

Theorem changes_rev_refines clk d since limit :
  dinv clk d -> 0 <= since \/ since = from_end ->
  let '(out, tok) := changes_rev d since limit in
  (map entry_oent out, tok) = spec_changes_rev (feed_of d) since limit.
Proof.
  intros Hd Hs. unfold changes_rev, spec_changes_rev.
  set (below := if (since =? 0) || (since =? from_end) then d_entries d
                else filter (fun e => en_seq e <? since) (d_entries d)).
  assert (Hbelow : (if (since =? 0) || (since =? from_end) then feed_of d else takez since (feed_of d))
                   = map entry_oent below).
  { subst below. destruct ((since =? 0) || (since =? from_end)); [reflexivity|].
    rewrite (filter_lt_takez (d_entries d) 0 since (dinv_seqs _ _ Hd)), Z.sub_0_r.
    unfold feed_of. now rewrite takez_map. }
  rewrite Hbelow. rewrite <- map_rev, limitz_map, !map_length.
  set (out := limitz limit (rev below)).
  f_equal.
  (* below is a prefix of the log, so its sequence numbers are 0 .. |below|-1 *)
  assert (Hseq : map en_seq below = zseq 0 (length below)).
  { subst below. destruct ((since =? 0) || (since =? from_end)); [apply (dinv_seqs _ _ Hd)|].
    rewrite (filter_lt_takez (d_entries d) 0 since (dinv_seqs _ _ Hd)), Z.sub_0_r.
    destruct (takez_prefix (d_entries d) since) as [r Hr].
    pose proof (dinv_seqs _ _ Hd) as H. rewrite Hr, map_app, app_length, zseq_app in H.
    apply (f_equal (firstn (length (takez since (d_entries d))))) in H.
    rewrite firstn_app, firstn_all2 in H by (rewrite map_length; lia).
    rewrite map_length, Nat.sub_diag in H. cbn [firstn] in H. rewrite app_nil_r in H.
    rewrite H. rewrite firstn_app.
    assert (Hz : forall a n, length (zseq a n) = n) by (intros a n; revert a; induction n; intros; cbn; auto).
    rewrite Hz, Nat.sub_diag. cbn [firstn]. rewrite app_nil_r. apply firstn_all2. rewrite Hz. lia. }
  destruct (limitz_prefix limit (rev below)) as [r Hr]. fold out in Hr.
  destruct out as [|x out'] eqn:Eo.
  - cbn. reflexivity.
  - destruct (last_of_rev_prefix below 0 (x :: out') r Hseq Hr ltac:(discriminate)) as (e & Hl & He).
    rewrite Hl, He. cbn [length Nat.eqb]. lia.
Qed.

(** ** feed-level facts: reverse pages walk the prefix below [since] backwards without gaps *)
Theorem rev_page_partition f since limit :
  0 < since ->
  let '(out, tok) := spec_changes_rev f since limit in
  out <> [] ->
  exists rest, rev (takez since f) = out ++ rest
               /\ rest = rev (takez tok f) /\ 0 <= tok < since.
Proof.
  intros Hs. unfold spec_changes_rev.
  replace ((since =? 0) || (since =? from_end)) with false
    by (symmetry; apply orb_false_intro; apply Z.eqb_neq; unfold from_end; lia).
  set (below := takez since f).
  destruct (limitz_prefix limit (rev below)) as [r Hr].
  set (out := limitz limit (rev below)) in *.
  intros Hne. destruct out as [|x out'] eqn:Eo; [contradiction|]. cbn [length Nat.eqb].
  exists r. split; [exact Hr|].
  assert (Hlen : (length below = length (x :: out') + length r)%nat)
    by (rewrite <- rev_length, Hr, app_length; reflexivity).
  assert (Hbl : Z.of_nat (length below) <= since) by (subst below; apply takez_length_bound; lia).
  split; [|cbn [length] in *; lia].
  (* r = rev of the first |below| - |out| elements *)
  assert (Hb : below = rev r ++ rev (x :: out')).
  { rewrite <- (rev_involutive below), Hr, rev_app_distr. reflexivity. }
  assert (Htk : takez (Z.of_nat (length below) - Z.of_nat (length (x :: out'))) f = rev r).
  { assert (Hpre : exists tl, f = below ++ tl) by (subst below; apply takez_prefix).
    destruct Hpre as [tl Htl]. rewrite Htl, Hb, <- app_assoc.
    replace (Z.of_nat (length (rev r ++ rev (x :: out'))) - Z.of_nat (length (x :: out'))) with (Z.of_nat (length (rev r)))
      by (rewrite app_length, !rev_length; lia).
    generalize (rev r) as p. generalize (rev (x :: out') ++ tl) as q. clear.
    intros q p. induction p as [|y p IH]; cbn [app length takez].
    - destruct q; cbn [takez]; reflexivity.
    - destruct (Z.leb_spec (Z.of_nat (S (length p))) 0); [lia|].
      replace (Z.of_nat (S (length p)) - 1) with (Z.of_nat (length p)) by lia. now rewrite IH. }
  cbn [length] in Htk |- *. rewrite Htk, rev_involutive. reflexivity.
Qed.
