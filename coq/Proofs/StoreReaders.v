(** The readers of Model/Store.v against the feed-level spec (C02 paging / latest-only,
    C01 listing). *)
From Coq Require Import List ZArith Bool Lia.
From DH Require Import Model.Store Model.FeedSpec Proofs.StoreProofs.
Import ListNotations.
Open Scope Z_scope.

Definition entry_oent (e : entry) : oent := (en_id e, en_c e).

(** ** skipping *)
Lemma skipz_nonpos {A} n (l : list A) : n <= 0 -> skipz n l = l.
Proof. intros H. destruct l; cbn [skipz]; [reflexivity|]. destruct (Z.leb_spec n 0); [reflexivity | lia]. Qed.

Lemma skipz_map {A B} (f : A -> B) n l : skipz n (map f l) = map f (skipz n l).
Proof.
  revert n; induction l as [|x l IH]; intros n; cbn [map skipz]; [reflexivity|].
  destruct (n <=? 0); [reflexivity | apply IH].
Qed.

Lemma skipz_suffix {A} n (l : list A) : exists l1, l = l1 ++ skipz n l.
Proof.
  revert n; induction l as [|x l IH]; intros n; cbn [skipz].
  - exists []. reflexivity.
  - destruct (n <=? 0).
    + exists []. reflexivity.
    + destruct (IH (n - 1)) as [l1 H]. exists (x :: l1). cbn [app]. now rewrite <- H.
Qed.

Lemma filter_all {A} (p : A -> bool) l : Forall (fun x => p x = true) l -> filter p l = l.
Proof. induction 1 as [|x l Hx _ IH]; cbn [filter]; [reflexivity|]. now rewrite Hx, IH. Qed.

Lemma zseq_ge a n : Forall (fun x => a <= x) (zseq a n).
Proof.
  revert a; induction n as [|n IH]; intros a; cbn [zseq]; constructor; [lia|].
  eapply Forall_impl; [|apply IH]. cbv beta. intros; lia.
Qed.

(** with contiguous sequence numbers, seeking to [since] is skipping [since - first] entries *)
Lemma filter_since E : forall a since,
  map en_seq E = zseq a (length E) ->
  filter (fun e => since <=? en_seq e) E = skipz (since - a) E.
Proof.
  induction E as [|e E IH]; intros a since H; cbn [filter skipz]; [reflexivity|].
  cbn [map length zseq] in H. injection H as He HE.
  destruct (Z.leb_spec (since - a) 0) as [Hle|Hgt].
  - replace (since <=? en_seq e) with true by (symmetry; apply Z.leb_le; lia).
    f_equal. rewrite (IH (a + 1) since HE). apply skipz_nonpos. lia.
  - replace (since <=? en_seq e) with false by (symmetry; apply Z.leb_gt; lia).
    rewrite (IH (a + 1) since HE). f_equal. lia.
Qed.

(** ** latest flags *)
Lemma is_last_occ_last_entry E id : is_last_occ (efeed E) id = true <-> last_entry E id = None.
Proof.
  induction E as [|e E IH]; cbn [efeed map is_last_occ last_entry]; [tauto|].
  fold (efeed E). rewrite andb_true_iff, negb_true_iff, IH.
  destruct (last_entry E id); destruct (Z.eqb (en_id e) id); split; intros; try tauto; try discriminate;
    destruct H; discriminate.
Qed.

Lemma flag_latest_skipz f : forall n, skipz n (flag_latest f) = flag_latest (skipz n f).
Proof.
  induction f as [|[i c] f IH]; intros n; cbn [flag_latest skipz]; [reflexivity|].
  destruct (n <=? 0); [reflexivity | apply IH].
Qed.

Lemma ksorted_app_inv l1 l2 : ksorted (l1 ++ l2) ->
  ksorted l2 /\ forall x y, In x l1 -> In y l2 -> klt x y.
Proof.
  induction l1 as [|a l1 IH]; cbn [app ksorted]; intros H.
  - split; [exact H | intros ? ? []].
  - destruct H as [Ha Hs]. destruct (IH Hs) as [H2 H12]. split; [exact H2|].
    intros x y [<-|Hx] Hy.
    + rewrite Forall_forall in Ha. apply Ha. apply in_or_app. now right.
    + now apply H12.
Qed.

(** the latest pointer of an entry's id names that entry iff no later entry has the id *)
Lemma emit_flag clk d E1 e E2 :
  dinv clk d -> d_entries d = E1 ++ e :: E2 ->
  match assoc (en_id e) (d_latest d) with
  | Some (t, b) => Z.eqb t (en_time e) && Z.eqb b (en_bidx e)
  | None => false
  end = is_last_occ (efeed E2) (en_id e).
Proof.
  intros Hd HE. rewrite (dinv_ptr _ _ Hd), HE, last_entry_app. cbn [last_entry].
  rewrite Z.eqb_refl.
  destruct (last_entry E2 (en_id e)) as [x|] eqn:El.
  - cbn [option_map ekey].
    assert (Hf : is_last_occ (efeed E2) (en_id e) = false).
    { destruct (is_last_occ (efeed E2) (en_id e)) eqn:E; [|reflexivity].
      apply is_last_occ_last_entry in E. congruence. }
    rewrite Hf.
    destruct (last_entry_In _ _ _ El) as [Hin _].
    pose proof (dinv_sorted _ _ Hd) as Hs. rewrite HE in Hs.
    destruct (ksorted_app_inv _ _ Hs) as [Hs2 _]. cbn [ksorted] in Hs2. destruct Hs2 as [Hall _].
    rewrite Forall_forall in Hall. specialize (Hall x Hin). unfold klt in Hall.
    destruct (Z.eqb_spec (en_time x) (en_time e)); destruct (Z.eqb_spec (en_bidx x) (en_bidx e));
      cbn [andb]; try reflexivity. exfalso. lia.
  - cbn [option_map ekey]. rewrite !Z.eqb_refl. cbn [andb].
    symmetry. now apply is_last_occ_last_entry.
Qed.

(** ** the changes loop against [take_sel] *)
Definition flagged (latest_only : bool) (l : list entry) : list (oent * bool) :=
  if latest_only then flag_latest (efeed l) else map (fun x => (x, true)) (efeed l).

Lemma flagged_cons lo e l :
  flagged lo (e :: l) =
  (entry_oent e, if lo then is_last_occ (efeed l) (en_id e) else true) :: flagged lo l.
Proof. unfold flagged. destruct lo; reflexivity. Qed.

Lemma flagged_nil lo : flagged lo [] = [].
Proof. destruct lo; reflexivity. Qed.

Lemma changes_loop_spec clk d lo limit : forall l E1 a processed last_seen found,
  dinv clk d -> d_entries d = E1 ++ l ->
  map en_seq l = zseq a (length l) ->
  0 <= processed -> (limit <= 0 \/ processed < limit) ->
  let '(out, ls, f) := changes_loop (d_latest d) lo limit l processed last_seen found in
  let scanned := take_sel (limit - processed) (flagged lo l) in
  map entry_oent out = map fst (filter snd scanned)
  /\ match l with
     | [] => ls = last_seen /\ f = found
     | _ => f = true /\ ls = a + Z.of_nat (length scanned) - 1
     end.
Proof.
  induction l as [|e l IH]; intros E1 a processed last_seen found Hd HE Hseq Hp Hlim.
  - unfold flagged. destruct lo; cbn; auto.
  - cbn [changes_loop]. rewrite flagged_cons. cbn [take_sel snd].
    cbn [map length zseq] in Hseq. injection Hseq as He Hl.
    set (emit := if lo then match assoc (en_id e) (d_latest d) with
                           | Some (t, b) => Z.eqb t (en_time e) && Z.eqb b (en_bidx e)
                           | None => false end else true).
    assert (Hemit : emit = if lo then is_last_occ (efeed l) (en_id e) else true).
    { subst emit. destruct lo; [|reflexivity]. eapply emit_flag; eassumption. }
    rewrite <- Hemit.
    assert (HE' : d_entries d = (E1 ++ [e]) ++ l) by (rewrite <- app_assoc; exact HE).
    destruct emit.
    + (* selected *)
      destruct (Z.eqb_spec (limit - processed) 1) as [H1|H1].
      * replace ((0 <? limit) && Z.eqb (processed + 1) limit) with true
          by (symmetry; apply andb_true_iff; split; [apply Z.ltb_lt | apply Z.eqb_eq]; lia).
        cbn. split; [reflexivity | split; [reflexivity | lia]].
      * replace ((0 <? limit) && Z.eqb (processed + 1) limit) with false.
        2:{ symmetry. apply andb_false_iff. destruct (Z.ltb_spec 0 limit); [right; apply Z.eqb_neq; lia | now left]. }
        specialize (IH (E1 ++ [e]) (a + 1) (processed + 1) (en_seq e) true Hd HE' Hl ltac:(lia) ltac:(lia)).
        destruct (changes_loop (d_latest d) lo limit l (processed + 1) (en_seq e) true) as [[out ls] f].
        replace (limit - (processed + 1)) with (limit - processed - 1) in IH by lia.
        destruct IH as [Ho Hr]. cbn [map filter snd fst length]. split; [now rewrite Ho|].
        destruct l; [rewrite flagged_nil; destruct Hr as [-> ->]; cbn; split; [reflexivity | lia]|].
        destruct Hr as [-> ->]. split; [reflexivity | lia].
    + (* not selected *)
      replace ((0 <? limit) && Z.eqb processed limit) with false.
      2:{ symmetry. apply andb_false_iff. destruct (Z.ltb_spec 0 limit); [right; apply Z.eqb_neq; lia | now left]. }
      specialize (IH (E1 ++ [e]) (a + 1) processed (en_seq e) true Hd HE' Hl Hp Hlim).
      destruct (changes_loop (d_latest d) lo limit l processed (en_seq e) true) as [[out ls] f].
      destruct IH as [Ho Hr]. cbn [map filter snd fst length]. split; [exact Ho|].
      destruct l; [rewrite flagged_nil; destruct Hr as [-> ->]; cbn; split; [reflexivity | lia]|].
      destruct Hr as [-> ->]. split; [reflexivity | lia].
Qed.

Lemma seqs_suffix E1 : forall l a,
  map en_seq (E1 ++ l) = zseq a (length (E1 ++ l)) ->
  map en_seq l = zseq (a + Z.of_nat (length E1)) (length l).
Proof.
  induction E1 as [|x E1 IH]; intros l a H; cbn [app length] in *.
  - now rewrite Z.add_0_r.
  - cbn [map zseq] in H. injection H as _ H. rewrite (IH l (a + 1) H). f_equal. lia.
Qed.

(** if skipping stops before the end, exactly [since] entries were skipped *)
Lemma skipz_prefix_len {A} (E : list A) : forall since E1 x l,
  0 <= since -> E = E1 ++ skipz since E -> skipz since E = x :: l -> Z.of_nat (length E1) = since.
Proof.
  induction E as [|y E IH]; intros since E1 x l Hs HE El; cbn [skipz] in *; [discriminate|].
  destruct (Z.leb_spec since 0).
  - assert (E1 = []) as ->.
    { destruct E1 as [|z E1]; [reflexivity|]. exfalso.
      apply (f_equal (@length _)) in HE. rewrite app_length in HE. cbn [length] in HE. lia. }
    cbn. lia.
  - destruct E1 as [|z E1].
    + exfalso. cbn [app] in HE. apply (f_equal (@length _)) in HE.
      destruct (skipz_suffix (since - 1) E) as [l1 Hl1]. rewrite Hl1 in HE at 1.
      cbn [length] in HE. rewrite app_length in HE. lia.
    + cbn [app] in HE. injection HE as -> HE.
      cbn [length]. rewrite Nat2Z.inj_succ. specialize (IH (since - 1) E1 x l ltac:(lia) HE El). lia.
Qed.

(** ** C02: the reader returns exactly the spec's page and token, for every since >= 0,
    every limit and both modes *)
Theorem changes_refines clk d since limit lo :
  dinv clk d -> 0 <= since ->
  let '(out, next) := changes d since limit lo in
  (map entry_oent out, next) = spec_changes (feed_of d) since limit lo.
Proof.
  intros Hd Hs. unfold changes, spec_changes.
  rewrite (filter_since (d_entries d) 0 since (dinv_seqs _ _ Hd)), Z.sub_0_r.
  destruct (skipz_suffix since (d_entries d)) as [E1 HE].
  remember (skipz since (d_entries d)) as l eqn:El.
  assert (Hseq : map en_seq l = zseq (0 + Z.of_nat (length E1)) (length l)).
  { apply seqs_suffix. rewrite <- HE. apply (dinv_seqs _ _ Hd). }
  pose proof (changes_loop_spec clk d lo limit l E1 _ 0 since false Hd HE Hseq ltac:(lia)) as H.
  assert (Hlim : limit <= 0 \/ 0 < limit) by lia. specialize (H Hlim).
  destruct (changes_loop (d_latest d) lo limit l 0 since false) as [[out ls] f].
  rewrite Z.sub_0_r in H. destruct H as [Ho Hr].
  assert (Hfl : (if lo then flag_latest (feed_of d) else map (fun x => (x, true)) (feed_of d)) = flagged lo (d_entries d))
    by (unfold flagged, feed_of, efeed; reflexivity).
  rewrite Hfl.
  assert (Hsk : skipz since (flagged lo (d_entries d)) = flagged lo l).
  { rewrite El. unfold flagged. destruct lo.
    - rewrite flag_latest_skipz. unfold efeed. now rewrite skipz_map.
    - unfold efeed. now rewrite !skipz_map. }
  rewrite Hsk, Ho. f_equal.
  destruct l as [|e l'].
  - destruct Hr as [-> ->]. rewrite flagged_nil. reflexivity.
  - destruct Hr as [-> ->]. rewrite flagged_cons.
    pose proof (skipz_prefix_len (d_entries d) since E1 e l' Hs) as Hlen.
    rewrite <- El in Hlen. specialize (Hlen HE eq_refl).
    lia.
Qed.
