(** Proofs about Model/Pipeline.v (property C08). *)
From Coq Require Import List ZArith Bool Arith Lia.
From DH Require Import Model.Pipeline.
Import ListNotations.

(** ** Basic facts: version equality, latest view *)

Lemma version_eqb_eq a b : version_eqb a b = true <-> a = b.
Proof.
  unfold version_eqb. destruct a as [i1 p1 q1 d1], b as [i2 p2 q2 d2]; cbn.
  rewrite !andb_true_iff, !Z.eqb_eq, eqb_true_iff. split.
  - intros [[[-> ->] ->] ->]. reflexivity.
  - intros [= -> -> -> ->]. auto.
Qed.

Lemma zmem_In i l : zmem i l = true <-> In i l.
Proof.
  unfold zmem. rewrite existsb_exists. split.
  - intros (x & Hx & E). apply Z.eqb_eq in E. now subst.
  - intros H. exists i. split; [assumption | apply Z.eqb_refl].
Qed.

Lemma zmem_false i l : zmem i l = false <-> ~ In i l.
Proof. rewrite <- zmem_In. destruct (zmem i l); split; congruence. Qed.

Lemma cur_app f g i :
  cur (f ++ g) i = match cur g i with Some v => Some v | None => cur f i end.
Proof.
  induction f as [|v f IH]; cbn.
  - destruct (cur g i); reflexivity.
  - rewrite IH. destruct (cur g i); reflexivity.
Qed.

Lemma cur_some f i v : cur f i = Some v -> v_id v = i /\ In v f.
Proof.
  induction f as [|w f IH]; cbn; [discriminate|].
  destruct (cur f i) eqn:E.
  - intros [= <-]. destruct (IH eq_refl). auto.
  - destruct (Z.eqb_spec (v_id w) i); [|discriminate]. intros [= <-]. auto.
Qed.

Lemma cur_none f i : cur f i = None <-> ~ In i (ids f).
Proof.
  induction f as [|w f IH]; cbn; [tauto|].
  destruct (cur f i) eqn:E.
  - split; [discriminate|]. intros H. exfalso. apply H. right.
    destruct (cur_some _ _ _ E) as [<- Hin]. unfold ids. now apply in_map.
  - destruct (Z.eqb_spec (v_id w) i).
    + split; [discriminate|]. intros H. exfalso. apply H. now left.
    + split; [|reflexivity]. intros _ [H|H]; [contradiction|]. now apply IH in H.
Qed.

Lemma cur_in f i : In i (ids f) -> exists v, cur f i = Some v.
Proof.
  intros H. destruct (cur f i) eqn:E; [eauto|]. apply cur_none in E. contradiction.
Qed.

Lemma cur_single v i : cur [v] i = if Z.eqb (v_id v) i then Some v else None.
Proof. reflexivity. Qed.

Lemma ids_app f g : ids (f ++ g) = ids f ++ ids g.
Proof. apply map_app. Qed.

(** ** The dataset write *)
Section WriteAny.
  Variable eqf : version -> version -> bool.
  Variable dm : dup_mode.

  Lemma batch_loop_incl es : forall snap w0 v,
    In v (batch_loop eqf dm snap w0 es) -> In v w0 \/ In v es.
  Proof.
    induction es as [|e es IH]; cbn; intros snap w0 v H; [auto|].
    destruct (skip eqf dm snap w0 e).
    - destruct (IH _ _ _ H); auto.
    - destruct (IH _ _ _ H) as [H1|H1]; [|auto].
      apply in_app_or in H1. destruct H1 as [H1|[<-|[]]]; auto.
  Qed.

  Lemma ds_write_prefix f es :
    exists w, ds_write eqf dm f es = f ++ w /\ forall v, In v w -> In v es.
  Proof.
    exists (batch_loop eqf dm f [] es). split; [reflexivity|].
    intros v H. destruct (batch_loop_incl _ _ _ _ H) as [[]|]; assumption.
  Qed.

  Lemma ds_write_nil f : ds_write eqf dm f [] = f.
  Proof. unfold ds_write. cbn. apply app_nil_r. Qed.
End WriteAny.

Section WriteFull.
  Variable eqf : version -> version -> bool.
  Variable dm : dup_mode.
  Hypothesis Heq : forall a b, eqf a b = true <-> a = b.

  (** the view after a batch = last write wins, whatever the batch loop skipped or doubled *)
  Lemma batch_loop_cur es : forall snap w0 i,
    cur (snap ++ batch_loop eqf dm snap w0 es) i
    = match cur es i with Some v => Some v | None => cur (snap ++ w0) i end.
  Proof.
    induction es as [|e es IH]; intros snap w0 i; [reflexivity|].
    cbn [batch_loop cur].
    destruct (skip eqf dm snap w0 e) eqn:Hs.
    - rewrite IH. destruct (cur es i) eqn:Ec; [reflexivity|].
      destruct (Z.eqb_spec (v_id e) i) as [<-|]; [|reflexivity].
      unfold skip in Hs. rewrite cur_app. destruct dm.
      + apply andb_true_iff in Hs. destruct Hs as [H1 H2].
        destruct (cur snap (v_id e)) as [s|]; [|discriminate]. apply Heq in H1. subst s.
        destruct (cur w0 (v_id e)) as [l|]; [|reflexivity]. apply Heq in H2. now subst l.
      + destruct (cur w0 (v_id e)) as [l|]; [apply Heq in Hs; now subst l|].
        destruct (cur snap (v_id e)) as [s|]; [|discriminate]. apply Heq in Hs. now subst s.
    - rewrite IH. destruct (cur es i) eqn:Ec; [reflexivity|].
      rewrite app_assoc, cur_app, cur_single.
      destruct (Z.eqb_spec (v_id e) i); reflexivity.
  Qed.

  Lemma ds_write_cur f es i :
    cur (ds_write eqf dm f es) i = match cur es i with Some v => Some v | None => cur f i end.
  Proof. unfold ds_write. rewrite batch_loop_cur, app_nil_r. reflexivity. Qed.
End WriteFull.

Lemma weq_full a b : weq EqFull a b = true <-> a = b.
Proof. apply version_eqb_eq. Qed.

(** ** The source read *)

Lemma cur_cons_some v f i w : cur f i = Some w -> cur (v :: f) i = Some w.
Proof. intros H. cbn. now rewrite H. Qed.

Lemma pc_loop_spec lo : forall rest pos left page next,
  pc_loop lo rest pos left = (page, next) ->
  exists n, next = pos + n /\ n <= length rest
    /\ (rest <> [] -> 1 <= n /\ page <> [])
    /\ (rest = [] -> page = [] /\ n = 0)
    /\ (forall v, In v page -> In v (firstn n rest))
    /\ (forall i, In i (ids (firstn n rest)) -> ~ In i (ids (skipn n rest)) ->
                  cur page i = cur (firstn n rest) i).
Proof.
  induction rest as [|v rest IH]; intros pos left page next H.
  - cbn in H. injection H as <- <-. exists 0. repeat split; try (cbn; auto; lia); try tauto.
  - cbn [pc_loop] in H.
    set (emit := if lo then negb (zmem (v_id v) (ids rest)) else true) in H.
    destruct emit eqn:Hemit.
    + assert (Hone : (page, next) = ([v], S pos) ->
        exists n, next = pos + n /\ n <= length (v :: rest)
          /\ (v :: rest <> [] -> 1 <= n /\ page <> [])
          /\ (v :: rest = [] -> page = [] /\ n = 0)
          /\ (forall x, In x page -> In x (firstn n (v :: rest)))
          /\ (forall i, In i (ids (firstn n (v :: rest))) -> ~ In i (ids (skipn n (v :: rest))) ->
                  cur page i = cur (firstn n (v :: rest)) i)).
      { intros [= -> ->]. exists 1. repeat split; cbn; try lia; try discriminate; auto. }
      destruct left as [|[|l']]; try (apply Hone; now symmetry).
      destruct (pc_loop lo rest (S pos) (S l')) as [pg nx] eqn:Hrec.
      injection H as <- <-.
      destruct (IH _ _ _ _ Hrec) as (n & Hn & Hle & Hne & Hnil & Hin & Hcur).
      exists (S n). repeat split; cbn [length firstn skipn]; try lia; try discriminate.
      * intros x [<-|Hx]; [now left | right; auto].
      * intros i Hi Hni.
        cbn [ids map] in Hi. destruct (in_dec Z.eq_dec i (ids (firstn n rest))) as [Hw|Hw].
        -- destruct (cur_in _ _ Hw) as (w & Ew).
           rewrite (cur_cons_some _ _ _ _ Ew).
           rewrite <- (Hcur i Hw Hni) in Ew. now rewrite (cur_cons_some _ _ _ _ Ew).
        -- destruct Hi as [Hi|Hi]; [|contradiction]. cbn [cur].
           assert (E1 : cur (firstn n rest) i = None) by now apply cur_none.
           assert (E2 : cur pg i = None).
           { apply cur_none. intros Hc. apply Hw. unfold ids in *. apply in_map_iff in Hc.
             destruct Hc as (x & <- & Hx). apply in_map. auto. }
           now rewrite E1, E2.
    + destruct lo; [|discriminate]. cbn in Hemit. apply negb_false_iff, zmem_In in Hemit.
      destruct (IH _ _ _ _ H) as (n & Hn & Hle & Hne & Hnil & Hin & Hcur).
      assert (Hr : rest <> []) by (intros ->; destruct Hemit).
      exists (S n). repeat split; cbn [length firstn skipn]; try lia; try discriminate.
      * now apply Hne.
      * intros x Hx. right. auto.
      * intros i Hi Hni.
        destruct (in_dec Z.eq_dec i (ids (firstn n rest))) as [Hw|Hw].
        -- destruct (cur_in _ _ Hw) as (w & Ew). rewrite (cur_cons_some _ _ _ _ Ew).
           rewrite <- Ew. now apply Hcur.
        -- exfalso. cbn [ids map] in Hi. destruct Hi as [Hi|Hi]; [|contradiction]. subst i.
           rewrite <- (firstn_skipn n rest), ids_app in Hemit.
           apply in_app_or in Hemit. tauto.
Qed.

Lemma firstn_add {A} t n (l : list A) : firstn (t + n) l = firstn t l ++ firstn n (skipn t l).
Proof.
  revert l. induction t as [|t IH]; intros l; [reflexivity|].
  destruct l as [|x l]; cbn; [now rewrite firstn_nil|]. now rewrite IH.
Qed.

Lemma skipn_add {A} t n (l : list A) : skipn (t + n) l = skipn n (skipn t l).
Proof.
  revert l. induction t as [|t IH]; intros l; [reflexivity|].
  destruct l as [|x l]; cbn; [now rewrite skipn_nil|]. apply IH.
Qed.

Lemma skipn_nil_iff {A} t (l : list A) : skipn t l = [] <-> length l <= t.
Proof.
  split; intros H.
  - rewrite <- (firstn_skipn t l), H, app_nil_r, firstn_length. lia.
  - now apply skipn_all2.
Qed.

Lemma In_firstn {A} n (l : list A) x : In x (firstn n l) -> In x l.
Proof. intros H. rewrite <- (firstn_skipn n l). apply in_or_app. now left. Qed.

Lemma In_ids v f : In v f -> In (v_id v) (ids f).
Proof. intros H. unfold ids. now apply in_map. Qed.

Lemma In_ids_inv i f : In i (ids f) -> exists v, In v f /\ v_id v = i.
Proof. unfold ids. intros H. apply in_map_iff in H. destruct H as (v & E & H). eauto. Qed.

Lemma ids_incl f g : (forall v, In v f -> In v g) -> forall i, In i (ids f) -> In i (ids g).
Proof. intros H i Hi. destruct (In_ids_inv _ _ Hi) as (v & Hv & <-). apply In_ids. auto. Qed.

(** what one page read gives, in terms of the window [t, next) of the feed *)
Lemma process_changes_spec lo src t b page next :
  process_changes lo src t b = (page, next) ->
  exists n, next = t + n /\ n <= length (skipn t src)
    /\ (skipn t src <> [] -> 1 <= n /\ page <> [])
    /\ (skipn t src = [] -> page = [] /\ n = 0)
    /\ (forall v, In v page -> In v (firstn n (skipn t src)))
    /\ (forall i, In i (ids (firstn n (skipn t src))) -> ~ In i (ids (skipn next src)) ->
                  cur page i = cur (firstn n (skipn t src)) i).
Proof.
  unfold process_changes. intros H.
  destruct (pc_loop_spec _ _ _ _ _ _ H) as (n & Hn & Hle & Hne & Hnil & Hin & Hcur).
  exists n. repeat split; try assumption; try (now apply Hne); try (now apply Hnil).
  intros i Hi Hni. apply Hcur; [assumption|]. now rewrite <- skipn_add, <- Hn.
Qed.

Lemma page_in_src lo src t b page next v :
  process_changes lo src t b = (page, next) -> In v page -> In v (skipn t src).
Proof.
  intros H Hv. destruct (process_changes_spec _ _ _ _ _ _ H) as (n & _ & _ & _ & _ & Hin & _).
  eapply In_firstn. eauto.
Qed.

(** ** Token safety, one member *)
Section Safe.
  Variable eqf : version -> version -> bool.
  Variable dm : dup_mode.
  Hypothesis Heq : forall a b, eqf a b = true <-> a = b.

  Lemma safe1_zero src sink : safe1 src 0 sink.
  Proof. split; [lia|]. intros i Hi. left. exact Hi. Qed.

  Lemma pending_mono src t t' i : t' <= t -> pending src t i -> pending src t' i.
  Proof.
    unfold pending. intros Hle H. replace t with (t' + (t - t')) in H by lia.
    rewrite skipn_add in H. destruct (In_ids_inv _ _ H) as (v & Hv & <-).
    apply In_ids. rewrite <- (firstn_skipn (t - t') (skipn t' src)). apply in_or_app. now right.
  Qed.

  (** writing versions whose entity still has a change ahead of the token, or that belong
      to no entity of this source, keeps the token safe *)
  Lemma safe1_write src t sink es :
    safe1 src t sink ->
    (forall v, In v es -> pending src t (v_id v) \/ ~ In (v_id v) (ids src)) ->
    safe1 src t (ds_write eqf dm sink es).
  Proof.
    intros [Hle Hs] Hes. split; [assumption|]. intros i Hi.
    rewrite (ds_write_cur eqf dm Heq). destruct (cur es i) as [v|] eqn:E.
    - destruct (cur_some _ _ _ E) as [<- Hv]. destruct (Hes _ Hv); [now left | contradiction].
    - now apply Hs.
  Qed.

  (** the page read at the token is written, then the token moves to [next] *)
  Lemma safe1_advance lo b src t sink page next :
    safe1 src t sink -> process_changes lo src t b = (page, next) ->
    safe1 src next (ds_write eqf dm sink page) /\ t <= next.
  Proof.
    intros [Hle Hs] Hp.
    destruct (process_changes_spec _ _ _ _ _ _ Hp) as (n & Hn & Hnle & _ & _ & Hin & Hcur).
    rewrite skipn_length in Hnle. split; [|lia]. split; [lia|].
    intros i Hi.
    destruct (in_dec Z.eq_dec i (ids (skipn next src))) as [Hp'|Hnp]; [now left|right].
    rewrite (ds_write_cur eqf dm Heq). subst next. rewrite firstn_add, cur_app.
    set (win := firstn n (skipn t src)) in *.
    destruct (in_dec Z.eq_dec i (ids win)) as [Hw|Hw].
    - rewrite (Hcur i Hw Hnp). destruct (cur_in _ _ Hw) as (w & ->). reflexivity.
    - assert (E1 : cur win i = None) by now apply cur_none.
      assert (E2 : cur page i = None).
      { apply cur_none. intros Hc. apply Hw. revert Hc. apply ids_incl. exact Hin. }
      rewrite E1, E2. destruct (Hs i Hi) as [Hpen|He]; [|exact He].
      exfalso. unfold pending in Hpen.
      rewrite <- (firstn_skipn n (skipn t src)), ids_app in Hpen.
      apply in_app_or in Hpen. destruct Hpen as [Hpen|Hpen]; [now apply Hw|].
      apply Hnp. now rewrite skipn_add.
  Qed.

  (** the page is written but the token is not moved (death before the token store) *)
  Lemma safe1_page lo b src t t' sink page next :
    safe1 src t' sink -> t' <= t -> process_changes lo src t b = (page, next) ->
    safe1 src t' (ds_write eqf dm sink page).
  Proof.
    intros Hs Hle Hp. apply safe1_write; [assumption|].
    intros v Hv. left. apply pending_mono with t; [assumption|].
    apply In_ids. eapply page_in_src; eauto.
  Qed.

  Lemma safe1_src_app src more t sink : safe1 src t sink -> safe1 (src ++ more) t sink.
  Proof.
    intros [Hle Hs]. split; [rewrite app_length; lia|]. intros i Hi.
    unfold pending. rewrite skipn_app, firstn_app, ids_app.
    replace (t - length src) with 0 by lia. cbn [firstn skipn]. rewrite app_nil_r.
    rewrite ids_app in Hi. apply in_app_or in Hi. destruct Hi as [Hi|Hi].
    - destruct (Hs i Hi) as [H|H]; [left; apply in_or_app; now left | now right].
    - left. apply in_or_app. now right.
  Qed.

  Lemma safe1_converged src sink :
    safe1 src (length src) sink -> forall i, In i (ids src) -> cur sink i = cur src i.
  Proof.
    intros [_ Hs] i Hi. destruct (Hs i Hi) as [H|H].
    - unfold pending in H. rewrite skipn_all in H. destruct H.
    - now rewrite firstn_all in H.
  Qed.

  (** sinks reachable by writing batches of versions that satisfy [P] *)
  Inductive wrote (P : version -> Prop) : feed -> feed -> Prop :=
  | wrote_refl s : wrote P s s
  | wrote_step s es s' : (forall v, In v es -> P v) -> wrote P (ds_write eqf dm s es) s' -> wrote P s s'.

  Lemma wrote_one (P : version -> Prop) s es : (forall v, In v es -> P v) -> wrote P s (ds_write eqf dm s es).
  Proof. intros H. eapply wrote_step; [exact H | apply wrote_refl]. Qed.

  Lemma wrote_trans P s1 s2 s3 : wrote P s1 s2 -> wrote P s2 s3 -> wrote P s1 s3.
  Proof. induction 1; [auto|]. intros H3. eapply wrote_step; eauto. Qed.

  Lemma wrote_weaken (P Q : version -> Prop) s s' : (forall v, P v -> Q v) -> wrote P s s' -> wrote Q s s'.
  Proof. intros HPQ. induction 1; [apply wrote_refl|]. eapply wrote_step; eauto. Qed.

  Lemma wrote_safe1 src t s s' :
    wrote (fun v => ~ In (v_id v) (ids src)) s s' -> safe1 src t s -> safe1 src t s'.
  Proof.
    induction 1 as [|s es s' Hes _ IH]; [auto|]. intros Hs. apply IH.
    apply safe1_write; [assumption|]. intros v Hv. right. now apply Hes.
  Qed.

  Lemma wrote_cur_other P s s' i :
    wrote P s s' -> (forall v, P v -> v_id v <> i) -> cur s' i = cur s i.
  Proof.
    induction 1 as [|s es s' Hes _ IH]; [reflexivity|]. intros HP. rewrite (IH HP).
    rewrite (ds_write_cur eqf dm Heq). destruct (cur es i) as [v|] eqn:E; [|reflexivity].
    destruct (cur_some _ _ _ E) as [Hid Hv]. exfalso. exact (HP v (Hes v Hv) Hid).
  Qed.

  (** *** the callback of the incremental pipeline *)
  Lemma proc_inc_cases {T} sink (stored : T) page newtok idx flt s t r :
    proc_inc eqf dm sink stored page newtok idx flt = (s, t, r) ->
    (s = sink /\ t = stored /\ r = Some OFailed /\ page <> [])
    \/ (s = ds_write eqf dm sink page /\ t = stored /\ r = Some ODied)
    \/ (s = ds_write eqf dm sink page /\ t = newtok /\ r <> None)
    \/ (s = ds_write eqf dm sink page /\ t = newtok /\ r = None /\ page <> []).
  Proof.
    unfold proc_inc. intros H.
    destruct (nonempty page && sink_fails flt idx page) eqn:E1.
    { injection H as <- <- <-. left. repeat split. destruct page; [discriminate|congruence]. }
    destruct (nonempty page && is_sinkpanic flt idx).
    { injection H as <- <- <-. right; left. auto. }
    destruct (is_diebefore flt idx).
    { injection H as <- <- <-. right; left. auto. }
    destruct (is_dieafter flt idx).
    { injection H as <- <- <-. right; right; left. repeat split. discriminate. }
    destruct (negb (nonempty page)) eqn:E2.
    { injection H as <- <- <-. right; right; left. repeat split. discriminate. }
    destruct (is_kill flt idx).
    { injection H as <- <- <-. right; right; left. repeat split. discriminate. }
    injection H as <- <- <-. right; right; right. repeat split.
    destruct page; [discriminate|congruence].
  Qed.

  Lemma proc_inc_nofault {T} sink (stored : T) page newtok idx :
    proc_inc eqf dm sink stored page newtok idx FNone
    = (ds_write eqf dm sink page, newtok, if nonempty page then None else Some OOk).
  Proof. unfold proc_inc. cbn. rewrite !andb_false_r. destruct page; reflexivity. Qed.

  (** *** DatasetSource, incremental *)
  Lemma inc_single_safe lo b src : forall fuel sink stored idx flt s t o,
    safe1 src (asincr stored) sink ->
    inc_single fuel eqf dm lo b src sink stored idx flt = (s, t, o) ->
    safe1 src (asincr t) s /\ wrote (fun v => In v src) sink s.
  Proof.
    induction fuel as [|fuel IH]; intros sink stored idx flt s t o Hs H; cbn [inc_single] in H.
    - injection H as <- <- <-. split; [assumption | apply wrote_refl].
    - destruct (is_srcfail flt idx); [injection H as <- <- <-; split; [assumption | apply wrote_refl]|].
      destruct (process_changes lo src (asincr stored) b) as [page next] eqn:Hp.
      assert (Hpg : forall v, In v page -> In v src).
      { intros v Hv. eapply In_firstn with (n := length src).
        rewrite firstn_all. pose proof (page_in_src _ _ _ _ _ _ v Hp Hv) as Hin.
        rewrite <- (firstn_skipn (asincr stored) src). apply in_or_app. now right. }
      destruct (proc_inc eqf dm sink stored page (Some next) idx flt) as [[s1 t1] r1] eqn:Hpi.
      destruct (safe1_advance _ _ _ _ _ _ _ Hs Hp) as [Hadv Hle].
      pose proof (safe1_page _ _ _ _ _ _ _ _ Hs (le_n _) Hp) as Hpage.
      destruct (proc_inc_cases _ _ _ _ _ _ _ _ _ Hpi)
        as [(-> & -> & -> & _)|[(-> & -> & ->)|[(-> & -> & Hr)|(-> & -> & -> & _)]]].
      + injection H as <- <- <-. split; [assumption | apply wrote_refl].
      + injection H as <- <- <-. split; [assumption | now apply wrote_one].
      + destruct r1 as [o1|]; [|congruence]. injection H as <- <- <-.
        split; [assumption | now apply wrote_one].
      + destruct (IH _ (Some next) _ _ _ _ _ Hadv H) as [H1 H2]. split; [assumption|].
        eapply wrote_step; eauto.
  Qed.

  Lemma page_empty_iff lo b src t page next :
    process_changes lo src t b = (page, next) -> t <= length src ->
    (page = [] <-> t = length src) /\ (page = [] -> next = t) /\ (page <> [] -> t < next).
  Proof.
    intros Hp Hle.
    destruct (process_changes_spec _ _ _ _ _ _ Hp) as (n & Hn & Hnle & Hne & Hnil & _ & _).
    destruct (skipn t src) as [|x rest] eqn:E.
    - destruct (Hnil eq_refl) as [-> ->]. apply skipn_nil_iff in E.
      repeat split; try lia; try congruence.
    - assert (Hx : x :: rest <> []) by discriminate. destruct (Hne Hx) as [H1 H2].
      assert (t < length src).
      { destruct (Nat.lt_ge_cases t (length src)); [assumption|].
        apply skipn_nil_iff in H. congruence. }
      repeat split; try lia; try congruence; try contradiction.
  Qed.

  (** a fault-free run reads to the end of the feed *)
  Lemma inc_single_converge lo b src : forall fuel sink stored idx,
    safe1 src (asincr stored) sink -> length src - asincr stored < fuel ->
    exists s, inc_single fuel eqf dm lo b src sink stored idx FNone = (s, Some (length src), OOk)
              /\ safe1 src (length src) s.
  Proof.
    induction fuel as [|fuel IH]; intros sink stored idx Hs Hf; [lia|].
    cbn [inc_single is_srcfail].
    destruct (process_changes lo src (asincr stored) b) as [page next] eqn:Hp.
    rewrite proc_inc_nofault.
    destruct (safe1_advance _ _ _ _ _ _ _ Hs Hp) as [Hadv Hle].
    destruct Hs as [Hle0 Hs0].
    destruct (page_empty_iff _ _ _ _ _ _ Hp Hle0) as (He & Hnx & Hlt).
    destruct page as [|x page].
    - cbn [nonempty]. assert (asincr stored = length src) by now apply He.
      rewrite (Hnx eq_refl) in *. rewrite H in *. eauto.
    - cbn [nonempty]. assert (Hne : x :: page <> []) by discriminate. specialize (Hlt Hne).
      assert (asincr stored <> length src) by (intros Hc; apply He in Hc; discriminate).
      apply (IH _ (Some next)); [exact Hadv | cbn [asincr]; lia].
  Qed.

  (** nothing new: nothing is written and the token stays *)
  Lemma inc_single_idem lo b src fuel sink n idx :
    length src <= n -> 0 < fuel ->
    inc_single fuel eqf dm lo b src sink (Some n) idx FNone = (sink, Some n, OOk).
  Proof.
    intros Hn Hf. destruct fuel as [|fuel]; [lia|]. cbn [inc_single asincr is_srcfail].
    unfold process_changes. rewrite (skipn_all2 src Hn). cbn [pc_loop].
    rewrite proc_inc_nofault. cbn [nonempty]. now rewrite ds_write_nil.
  Qed.

  (** *** DatasetSource, fullsync *)
  Lemma proc_full_cases sink page idx flt s r :
    proc_full eqf dm sink page idx flt = (s, r) ->
    (s = sink /\ r = Some OFailed /\ page <> [])
    \/ (s = ds_write eqf dm sink page /\ (r = Some ODied \/ r = Some OFailed) /\ page <> [])
    \/ (s = ds_write eqf dm sink page /\ r = Some OOk /\ page = [])
    \/ (s = ds_write eqf dm sink page /\ r = None /\ page <> []).
  Proof.
    unfold proc_full. intros H. destruct page as [|x page].
    - cbn in H. injection H as <- <-. right; right; left. auto.
    - cbn [nonempty andb negb] in H. assert (Hne : x :: page <> []) by discriminate.
      destruct (sink_fails flt idx (x :: page)). { injection H as <- <-. left. auto. }
      destruct (is_sinkpanic flt idx). { injection H as <- <-. right; left. auto. }
      destruct (is_kill flt idx). { injection H as <- <-. right; left. auto. }
      injection H as <- <-. right; right; right. auto.
  Qed.

  Lemma proc_full_nofault sink page idx :
    proc_full eqf dm sink page idx FNone
    = (ds_write eqf dm sink page, if nonempty page then None else Some OOk).
  Proof. unfold proc_full. cbn. rewrite !andb_false_r. destruct page; reflexivity. Qed.

  Lemma page_src lo b src t page next v :
    process_changes lo src t b = (page, next) -> In v page -> In v src.
  Proof.
    intros Hp Hv. pose proof (page_in_src _ _ _ _ _ _ v Hp Hv) as Hin.
    rewrite <- (firstn_skipn t src). apply in_or_app. now right.
  Qed.

  (** every entity with a change in the window is seen in this page or has a later change *)
  Lemma page_sees lo b src t page next i :
    process_changes lo src t b = (page, next) ->
    In i (ids (skipn t src)) -> In i (ids page) \/ In i (ids (skipn next src)).
  Proof.
    intros Hp Hi.
    destruct (process_changes_spec _ _ _ _ _ _ Hp) as (n & Hn & _ & _ & _ & _ & Hcur).
    destruct (in_dec Z.eq_dec i (ids (skipn next src))) as [|Hnp]; [now right|left].
    rewrite <- (firstn_skipn n (skipn t src)), ids_app, <- skipn_add, <- Hn in Hi.
    apply in_app_or in Hi. destruct Hi as [Hi|Hi]; [|contradiction].
    destruct (cur_in _ _ Hi) as (w & Ew). rewrite <- (Hcur i Hi Hnp) in Ew.
    destruct (cur_some _ _ _ Ew) as [<- Hw]. now apply In_ids.
  Qed.

  Lemma full_single_spec lo b src : forall fuel sink mem seen idx flt s mem' seen' o,
    safe1 src (asincr mem) sink ->
    full_single fuel eqf dm lo b src sink mem seen idx flt = (s, mem', seen', o) ->
    wrote (fun v => In v src) sink s
    /\ (forall i, In i seen -> In i seen')
    /\ (forall i, In i seen' -> In i seen \/ In i (ids src))
    /\ (o = OOk -> safe1 src (length src) s /\ mem' = Some (length src)
                   /\ forall i, In i (ids (skipn (asincr mem) src)) -> In i seen').
  Proof.
    induction fuel as [|fuel IH]; intros sink mem seen idx flt s mem' seen' o Hs H; cbn [full_single] in H.
    - injection H as <- <- <- <-. repeat split; auto using wrote_refl; discriminate.
    - destruct (is_srcfail flt idx);
        [injection H as <- <- <- <-; repeat split; auto using wrote_refl; discriminate|].
      destruct (process_changes lo src (asincr mem) b) as [page next] eqn:Hp.
      destruct (proc_full eqf dm sink page idx flt) as [s1 r1] eqn:Hpf.
      destruct (safe1_advance _ _ _ _ _ _ _ Hs Hp) as [Hadv Hle].
      assert (Hpg : forall v, In v page -> In v src) by (intros v; eapply page_src; eauto).
      assert (Hseen : forall i, In i (seen ++ ids page) -> In i seen \/ In i (ids src)).
      { intros i Hi. apply in_app_or in Hi. destruct Hi; [auto|right]. revert H0. now apply ids_incl. }
      destruct (proc_full_cases _ _ _ _ _ _ Hpf)
        as [(-> & -> & _)|[(-> & Hr & _)|[(-> & -> & ->)|(-> & -> & _)]]].
      + injection H as <- <- <- <-. repeat split; auto using wrote_refl; discriminate.
      + destruct Hr as [-> | ->]; injection H as <- <- <- <-;
          (repeat split; auto using wrote_one; discriminate).
      + injection H as <- <- <- <-. destruct Hs as [Hle0 Hs0].
        destruct (page_empty_iff _ _ _ _ _ _ Hp Hle0) as (He & Hnx & _).
        assert (Et : asincr mem = length src) by now apply He.
        assert (En : next = length src) by (rewrite (Hnx eq_refl); exact Et).
        subst next.
        split; [now apply wrote_one|]. split; [intros i Hi; apply in_or_app; now left|].
        split; [exact Hseen|]. intros _. split; [exact Hadv|]. split; [reflexivity|].
        intros i Hi. rewrite Et, skipn_all in Hi. destruct Hi.
      + destruct (IH _ (Some next) _ _ _ _ _ _ _ Hadv H) as (W & M1 & M2 & Hok).
        split; [eapply wrote_step; eauto|]. split; [|split].
        * intros i Hi. apply M1. apply in_or_app. now left.
        * intros i Hi. destruct (M2 i Hi); auto.
        * intros ->. destruct (Hok eq_refl) as (S1 & S2 & S3). repeat split; try apply S1; try assumption.
          intros i Hi. destruct (page_sees _ _ _ _ _ _ i Hp Hi) as [Hpi|Hl].
          -- apply M1. apply in_or_app. now right.
          -- apply S3. exact Hl.
  Qed.

  (** *** CompleteFullSync *)
  Lemma dedup_In l i : In i (dedup l) <-> In i l.
  Proof.
    induction l as [|x l IH]; cbn; [tauto|].
    destruct (zmem x l) eqn:E.
    - apply zmem_In in E. rewrite IH. split; [auto|]. intros [<-|]; auto.
    - cbn. rewrite IH. tauto.
  Qed.

  Lemma cur_flat_map (g : Z -> list version) l i :
    (forall j v, In v (g j) -> v_id v = j) -> (forall j, length (g j) <= 1) ->
    (In i l -> cur (flat_map g l) i = hd_error (g i))
    /\ (~ In i l -> cur (flat_map g l) i = None).
  Proof.
    intros Hid Hlen.
    assert (Hg : forall j, j <> i -> cur (g j) i = None).
    { intros j Hj. apply cur_none. intros Hc. destruct (In_ids_inv _ _ Hc) as (v & Hv & Ev).
      apply Hid in Hv. congruence. }
    assert (Hgi : cur (g i) i = hd_error (g i)).
    { specialize (Hlen i). destruct (g i) as [|v [|w r]] eqn:E; [reflexivity| |cbn in Hlen; lia].
      cbn. assert (v_id v = i) by (apply Hid; rewrite E; now left). subst i.
      now rewrite Z.eqb_refl. }
    induction l as [|j l [IH1 IH2]]; [split; [intros []|reflexivity]|].
    cbn [flat_map]. rewrite cur_app. split.
    - intros [->|Hi].
      + destruct (in_dec Z.eq_dec i l) as [Hl|Hl].
        * rewrite (IH1 Hl). destruct (hd_error (g i)) eqn:E; [reflexivity|]. now rewrite Hgi.
        * rewrite (IH2 Hl). exact Hgi.
      + rewrite (IH1 Hi). destruct (hd_error (g i)) eqn:E; [reflexivity|].
        destruct (Z.eq_dec j i) as [->|Hj]; [now rewrite Hgi | now apply Hg].
    - intros Hn. rewrite IH2 by (intros Hc; apply Hn; now right).
      apply Hg. intros ->. apply Hn. now left.
  Qed.

  Lemma complete_cur s seen i :
    cur (complete eqf dm s seen) i
    = match cur s i with
      | Some v => if negb (v_del v) && negb (zmem i seen) then Some (set_del v) else Some v
      | None => None
      end.
  Proof.
    unfold complete. rewrite (ds_write_cur eqf dm Heq). unfold unseen_live.
    set (g := fun j => match cur s j with
                       | Some v => if negb (v_del v) && negb (zmem j seen) then [set_del v] else []
                       | None => [] end).
    assert (Hid : forall j v, In v (g j) -> v_id v = j).
    { intros j v. unfold g. destruct (cur s j) as [w|] eqn:E; [|intros []].
      destruct (negb (v_del w) && negb (zmem j seen)); [|intros []].
      intros [<-|[]]. cbn. now destruct (cur_some _ _ _ E). }
    assert (Hlen : forall j, length (g j) <= 1).
    { intros j. unfold g. destruct (cur s j) as [w|]; [|cbn; lia].
      destruct (negb (v_del w) && negb (zmem j seen)); cbn; lia. }
    destruct (cur_flat_map g (dedup (ids s)) i Hid Hlen) as [H1 H2].
    destruct (cur s i) as [v|] eqn:E.
    - assert (Hin : In i (dedup (ids s))).
      { apply dedup_In. destruct (cur_some _ _ _ E) as [<- Hv]. now apply In_ids. }
      rewrite (H1 Hin). unfold g. rewrite E.
      destruct (negb (v_del v) && negb (zmem i seen)); reflexivity.
    - assert (Hin : ~ In i (dedup (ids s))) by (rewrite dedup_In; now apply cur_none).
      now rewrite (H2 Hin).
  Qed.

  Lemma complete_wrote s seen : wrote (fun v => ~ In (v_id v) seen) s (complete eqf dm s seen).
  Proof.
    apply wrote_one. intros v Hv. unfold unseen_live in Hv. apply in_flat_map in Hv.
    destruct Hv as (j & _ & Hv). destruct (cur s j) as [w|] eqn:E; [|destruct Hv].
    destruct (negb (v_del w) && negb (zmem j seen)) eqn:C; [|destruct Hv].
    destruct Hv as [<-|[]]. cbn. apply andb_true_iff in C. destruct C as [_ C].
    apply negb_true_iff, zmem_false in C. now destruct (cur_some _ _ _ E) as [-> _].
  Qed.
End Safe.

(** ** Lists of members *)
Lemma upd_length {A} k (x : A) l : length (upd k x l) = length l.
Proof. revert k. induction l as [|y l IH]; intros [|k]; cbn; auto. Qed.

Lemma nth_upd_eq {A} k (x d : A) l : k < length l -> nth k (upd k x l) d = x.
Proof. revert k. induction l as [|y l IH]; intros [|k] H; cbn in *; try lia; auto. apply IH. lia. Qed.

Lemma nth_upd_neq {A} k j (x d : A) l : k <> j -> nth j (upd k x l) d = nth j l d.
Proof.
  revert k j. induction l as [|y l IH]; intros [|k] [|j] H; cbn; auto; try congruence.
Qed.

Lemma upd_same {A} k (d : A) l : k < length l -> upd k (nth k l d) l = l.
Proof. revert k. induction l as [|y l IH]; intros [|k] H; cbn in *; try lia; auto. f_equal. apply IH. lia. Qed.

Lemma token_eqb_eq a b : token_eqb a b = true <-> a = b.
Proof.
  destruct a, b; cbn; try (split; congruence).
  rewrite Nat.eqb_eq. split; congruence.
Qed.

Definition safeK (srcs : list feed) (toks : list token) (sink : feed) : Prop :=
  length toks = length srcs /\
  forall k, k < length srcs -> safe1 (nth k srcs []) (asincr (nth k toks None)) sink.

Definition at_end (srcs : list feed) (toks : list token) : Prop :=
  length toks = length srcs /\
  forall k, k < length srcs -> nth k toks None = Some (length (nth k srcs [])).

Lemma owned_other owner srcs a k v :
  owned owner srcs -> a <> k -> In v (nth a srcs []) -> ~ In (v_id v) (ids (nth k srcs [])).
Proof.
  intros Ho Hak Hv Hc. destruct (In_ids_inv _ _ Hc) as (w & Hw & E).
  apply Ho in Hv. apply Ho in Hw. congruence.
Qed.

Section Union.
  Variable eqf : version -> version -> bool.
  Variable dm : dup_mode.
  Hypothesis Heq : forall a b, eqf a b = true <-> a = b.
  Variable owner : Z -> nat.
  Variables (los : list bool) (b : nat) (srcs : list feed).
  Hypothesis Hown : owned owner srcs.

  (** one iteration of the union loop: facts about the page of member [a] *)
  Lemma union_iter sink mem a page next :
    a < length srcs -> safeK srcs mem sink ->
    process_changes (nth a los false) (nth a srcs []) (asincr (nth a mem None)) b = (page, next) ->
    safeK srcs (upd a (Some next) mem) (ds_write eqf dm sink page)
    /\ asincr (nth a mem None) <= next
    /\ (forall stored, safeK srcs stored sink ->
          (forall k, asincr (nth k stored None) <= asincr (nth k mem None)) ->
          safeK srcs stored (ds_write eqf dm sink page)).
  Proof.
    intros Ha [Hlen Hs] Hp.
    destruct (safe1_advance eqf dm Heq _ _ _ _ _ _ _ (Hs a Ha) Hp) as [Hadv Hle].
    assert (Hother : forall k t, k <> a -> safe1 (nth k srcs []) t sink ->
                                 safe1 (nth k srcs []) t (ds_write eqf dm sink page)).
    { intros k t Hk H1. apply (safe1_write eqf dm Heq); [assumption|]. intros v Hv. right.
      apply (owned_other owner srcs a k); auto. eapply page_src; eauto. }
    split; [|split; [assumption|]].
    - split; [now rewrite upd_length|]. intros k Hk. destruct (Nat.eq_dec k a) as [->|Hka].
      + rewrite nth_upd_eq by lia. exact Hadv.
      + rewrite nth_upd_neq by congruence. apply Hother; auto.
    - intros stored [Hl2 Hs2] Hle2. split; [assumption|]. intros k Hk.
      destruct (Nat.eq_dec k a) as [->|Hka].
      + eapply (safe1_page eqf dm Heq); eauto.
      + apply Hother; auto.
  Qed.

  Lemma union_update_spec mem a nt mem' keep a' :
    union_update mem a nt = (mem', keep, a') -> a < length mem ->
    mem' = upd a nt mem /\ a' < length mem
    /\ ((nt <> nth a mem None /\ keep = true /\ a' = a)
        \/ (nt = nth a mem None /\ keep = true /\ a' = S a)
        \/ (nt = nth a mem None /\ keep = false /\ a' = a /\ S a = length mem)).
  Proof.
    unfold union_update. intros H Ha.
    destruct (token_eqb nt (nth a mem None)) eqn:E.
    - apply token_eqb_eq in E. destruct (S a <? length mem) eqn:L.
      + apply Nat.ltb_lt in L. injection H as <- <- <-. repeat split; auto.
      + apply Nat.ltb_ge in L. injection H as <- <- <-. repeat split; auto.
        right; right. repeat split; auto. lia.
    - injection H as <- <- <-. repeat split; auto. left. repeat split; auto.
      intros Hc. apply token_eqb_eq in Hc. congruence.
  Qed.

  Lemma inc_union_safe : forall fuel sink stored mem a idx flt s t o,
    a < length srcs ->
    safeK srcs stored sink -> safeK srcs mem sink ->
    (forall k, asincr (nth k stored None) <= asincr (nth k mem None)) ->
    inc_union fuel eqf dm los b srcs sink stored mem a idx flt = (s, t, o) ->
    safeK srcs t s.
  Proof.
    induction fuel as [|fuel IH]; intros sink stored mem a idx flt s t o Ha Hst Hmem Hle H;
      cbn [inc_union] in H.
    - injection H as <- <- <-. assumption.
    - destruct (process_changes (nth a los false) (nth a srcs []) (asincr (nth a mem None)) b)
        as [page next] eqn:Hp.
      destruct (union_update mem a (Some next)) as [[mem' keep] a'] eqn:Hu.
      assert (Hlm : length mem = length srcs) by apply Hmem.
      destruct (union_update_spec _ _ _ _ _ _ Hu ltac:(lia)) as (-> & Ha' & _).
      destruct (union_iter sink mem a page next Ha Hmem Hp) as (F1 & Hnx & F2).
      specialize (F2 stored Hst Hle).
      assert (Hle' : forall k, asincr (nth k stored None) <= asincr (nth k (upd a (Some next) mem) None)).
      { intros k. destruct (Nat.eq_dec k a) as [->|Hka].
        - rewrite nth_upd_eq by lia. cbn. specialize (Hle a). lia.
        - rewrite nth_upd_neq by congruence. apply Hle. }
      destruct (nonempty page || negb keep) eqn:Hc.
      + destruct (proc_inc eqf dm sink stored page (upd a (Some next) mem) idx flt) as [[s1 t1] r1] eqn:Hpi.
        destruct (proc_inc_cases _ _ _ _ _ _ _ _ _ _ _ Hpi)
          as [(-> & -> & -> & _)|[(-> & -> & ->)|[(-> & -> & Hr)|(-> & -> & -> & _)]]].
        * injection H as <- <- <-. assumption.
        * injection H as <- <- <-. assumption.
        * destruct r1; [|congruence]. injection H as <- <- <-. assumption.
        * eapply (IH _ _ _ a'); [lia | exact F1 | exact F1 | auto | exact H].
      + apply orb_false_iff in Hc. destruct Hc as [Hc _].
        assert (page = []) by (destruct page; [reflexivity|discriminate]). subst page.
        rewrite ds_write_nil in F1. eapply (IH _ _ _ a'); [lia | exact Hst | exact F1 | exact Hle' | exact H].
  Qed.

  (** remaining work of the union loop from member [a] on *)
  Definition uterm (mem : list token) (k : nat) : nat :=
    length (nth k srcs []) - asincr (nth k mem None)
    + match nth k mem None with None => 1 | Some _ => 0 end + 1.
  Definition umu (mem : list token) (a : nat) : nat :=
    list_sum (map (uterm mem) (seq a (length srcs - a))).

  Lemma umu_unfold mem a : a < length srcs ->
    umu mem a = uterm mem a + umu mem (S a).
  Proof.
    intros Ha. unfold umu. replace (length srcs - a) with (S (length srcs - S a)) by lia.
    reflexivity.
  Qed.

  Lemma umu_upd mem a x j : a < j -> umu (upd a x mem) j = umu mem j.
  Proof.
    intros Hj. unfold umu. f_equal. apply map_ext_in. intros k Hk. apply in_seq in Hk.
    unfold uterm. rewrite nth_upd_neq by lia. reflexivity.
  Qed.

  Lemma inc_union_converge : forall fuel sink stored mem a idx,
    a < length srcs -> safeK srcs mem sink ->
    (forall k, k < a -> nth k mem None = Some (length (nth k srcs []))) ->
    umu mem a < fuel ->
    exists s t, inc_union fuel eqf dm los b srcs sink stored mem a idx FNone = (s, t, OOk)
                /\ at_end srcs t.
  Proof.
    induction fuel as [|fuel IH]; intros sink stored mem a idx Ha Hmem Hdone Hf; [lia|].
    cbn [inc_union].
    destruct (process_changes (nth a los false) (nth a srcs []) (asincr (nth a mem None)) b)
      as [page next] eqn:Hp.
    destruct (union_update mem a (Some next)) as [[mem' keep] a'] eqn:Hu.
    assert (Hlm : length mem = length srcs) by apply Hmem.
    destruct (union_update_spec _ _ _ _ _ _ Hu ltac:(lia)) as (-> & Ha' & Hcase).
    destruct (union_iter sink mem a page next Ha Hmem Hp) as (F1 & Hnx & _).
    pose proof (proj2 Hmem a Ha) as [Hta _].
    destruct (page_empty_iff _ _ _ _ _ _ Hp Hta) as (He & Hnx0 & Hlt).
    assert (Hnle : next <= length (nth a srcs [])).
    { pose proof (proj2 F1 a Ha) as [Hx _]. rewrite nth_upd_eq in Hx by lia. exact Hx. }
    rewrite umu_unfold in Hf by assumption.
    assert (Hdone' : forall k, k < a -> nth k (upd a (Some next) mem) None = Some (length (nth k srcs []))).
    { intros k Hk. rewrite nth_upd_neq by lia. now apply Hdone. }
    destruct Hcase as [(Hne & -> & ->)|[(Heq1 & -> & ->)|(Heq1 & -> & -> & Hlast)]].
    - (* the token of member a moved *)
      assert (Hdec : umu (upd a (Some next) mem) a < fuel).
      { rewrite umu_unfold by assumption. rewrite umu_upd by lia.
        unfold uterm in *. rewrite nth_upd_eq by lia. cbn [asincr].
        destruct (nth a mem None) as [p|] eqn:Ep; cbn [asincr] in *.
        - assert (next <> p) by congruence.
          destruct page as [|x page]; [specialize (Hnx0 eq_refl); lia|].
          assert (p < next) by (apply Hlt; discriminate). lia.
        - lia. }
      destruct page as [|x page].
      + cbn [nonempty orb negb]. rewrite ds_write_nil in F1.
        apply IH; auto.
      + cbn [nonempty orb]. rewrite proc_inc_nofault. cbn [nonempty].
        apply IH; auto.
    - (* member a is exhausted, go to the next member *)
      assert (Et : asincr (nth a mem None) = next) by (rewrite <- Heq1; reflexivity).
      assert (page = []).
      { destruct page as [|x page]; [reflexivity|]. exfalso.
        assert (asincr (nth a mem None) < next) by (apply Hlt; discriminate). lia. }
      subst page. cbn [nonempty orb negb]. rewrite ds_write_nil in F1.
      assert (Hend : next = length (nth a srcs [])) by (rewrite <- Et; now apply He).
      apply IH; [lia | exact F1 | | ].
      + intros k Hk. destruct (Nat.eq_dec k a) as [->|Hka].
        * rewrite nth_upd_eq by lia. now rewrite Hend.
        * apply Hdone'. lia.
      + rewrite umu_upd by lia. unfold uterm in Hf. lia.
    - (* the last member is exhausted: final callback with the empty page *)
      assert (Et : asincr (nth a mem None) = next) by (rewrite <- Heq1; reflexivity).
      assert (page = []).
      { destruct page as [|x page]; [reflexivity|]. exfalso.
        assert (asincr (nth a mem None) < next) by (apply Hlt; discriminate). lia. }
      subst page. cbn [nonempty orb negb]. rewrite proc_inc_nofault. cbn [nonempty].
      assert (Hend : next = length (nth a srcs [])) by (rewrite <- Et; now apply He).
      eexists _, _. split; [reflexivity|]. split; [now rewrite upd_length|].
      intros k Hk. destruct (Nat.eq_dec k a) as [->|Hka].
      + rewrite nth_upd_eq by lia. now rewrite Hend.
      + apply Hdone'. lia.
  Qed.

  Lemma full_union_spec : forall fuel sink mem seen a idx flt s mem' seen' o,
    a < length srcs -> safeK srcs mem sink ->
    (forall k, k < a -> nth k mem None = Some (length (nth k srcs []))) ->
    full_union fuel eqf dm los b srcs sink mem seen a idx flt = (s, mem', seen', o) ->
    (forall i, In i seen -> In i seen')
    /\ (forall i, In i seen' -> In i seen \/ exists k, k < length srcs /\ In i (ids (nth k srcs [])))
    /\ (o = OOk -> safeK srcs mem' s /\ at_end srcs mem'
          /\ forall k i, a <= k < length srcs ->
                In i (ids (skipn (asincr (nth k mem None)) (nth k srcs []))) -> In i seen').
  Proof.
    induction fuel as [|fuel IH]; intros sink mem seen a idx flt s mem' seen' o Ha Hmem Hdone H;
      cbn [full_union] in H.
    - injection H as <- <- <- <-. repeat split; auto; discriminate.
    - destruct (process_changes (nth a los false) (nth a srcs []) (asincr (nth a mem None)) b)
        as [page next] eqn:Hp.
      destruct (union_update mem a (Some next)) as [[mem1 keep] a'] eqn:Hu.
      assert (Hlm : length mem = length srcs) by apply Hmem.
      destruct (union_update_spec _ _ _ _ _ _ Hu ltac:(lia)) as (-> & Ha' & Hcase).
      destruct (union_iter sink mem a page next Ha Hmem Hp) as (F1 & Hnx & _).
      pose proof (proj2 Hmem a Ha) as [Hta _].
      destruct (page_empty_iff _ _ _ _ _ _ Hp Hta) as (He & Hnx0 & Hlt).
      assert (Hdone' : forall k, k < a -> nth k (upd a (Some next) mem) None = Some (length (nth k srcs []))).
      { intros k Hk. rewrite nth_upd_neq by lia. now apply Hdone. }
      assert (Hpg : forall i, In i (ids page) -> exists k, k < length srcs /\ In i (ids (nth k srcs []))).
      { intros i Hi. exists a. split; [assumption|]. revert Hi. apply ids_incl.
        intros v. eapply page_src; eauto. }
      assert (Hexh : Some next = nth a mem None -> page = [] /\ next = length (nth a srcs [])).
      { intros E. assert (Et : asincr (nth a mem None) = next) by (rewrite <- E; reflexivity).
        assert (page = []).
        { destruct page as [|x page]; [reflexivity|]. exfalso.
          assert (asincr (nth a mem None) < next) by (apply Hlt; discriminate). lia. }
        split; [assumption|]. rewrite <- Et. now apply He. }
      destruct (nonempty page || negb keep) eqn:Hc.
      + destruct (proc_full eqf dm sink page idx flt) as [s1 r1] eqn:Hpf.
        destruct (proc_full_cases eqf dm _ _ _ _ _ _ Hpf)
          as [(-> & -> & _)|[(-> & Hr & _)|[(-> & -> & ->)|(-> & -> & Hne)]]].
        * injection H as <- <- <- <-. repeat split; auto; discriminate.
        * destruct Hr as [-> | ->]; injection H as <- <- <- <-; (repeat split; auto; discriminate).
        * injection H as <- <- <- <-. cbn [nonempty orb] in Hc. apply negb_true_iff in Hc. subst keep.
          destruct Hcase as [(_ & Hk & _)|[(_ & Hk & _)|(Heq1 & _ & -> & Hlast)]]; try discriminate.
          destruct (Hexh Heq1) as [_ Hend].
          split; [intros i Hi; apply in_or_app; now left|].
          split; [intros i Hi; apply in_app_or in Hi; destruct Hi as [|[]]; auto|].
          intros _. split; [exact F1|]. split.
          -- split; [now rewrite upd_length|]. intros k Hk. destruct (Nat.eq_dec k a) as [->|Hka].
             ++ rewrite nth_upd_eq by lia. now rewrite Hend.
             ++ apply Hdone'. lia.
          -- intros k i Hk Hi. assert (k = a) by lia. subst k.
             rewrite <- Heq1 in Hi. cbn [asincr] in Hi. rewrite Hend, skipn_all in Hi. destruct Hi.
        * destruct Hcase as [(Hneq & -> & ->)|[(Heq1 & _)|(Heq1 & _)]];
            try (destruct (Hexh Heq1) as [-> _]; congruence).
          destruct (IH _ _ _ _ _ _ _ _ _ _ Ha F1 Hdone' H) as (M1 & M2 & Hok).
          split; [intros i Hi; apply M1, in_or_app; now left|].
          split.
          { intros i Hi. destruct (M2 i Hi) as [Hi'|]; [|auto]. apply in_app_or in Hi'.
            destruct Hi'; auto. }
          intros ->. destruct (Hok eq_refl) as (S1 & S2 & S3). split; [assumption|]. split; [assumption|].
          intros k i Hk Hi. destruct (Nat.eq_dec k a) as [->|Hka].
          -- destruct (page_sees _ _ _ _ _ _ i Hp Hi) as [Hpi|Hl].
             ++ apply M1, in_or_app. now right.
             ++ apply (S3 a i); [lia|]. rewrite nth_upd_eq by lia. exact Hl.
          -- apply (S3 k i); [lia|]. rewrite nth_upd_neq by congruence. exact Hi.
      + apply orb_false_iff in Hc. destruct Hc as [Hc Hkeep]. apply negb_false_iff in Hkeep. subst keep.
        assert (page = []) by (destruct page; [reflexivity|discriminate]). subst page.
        rewrite ds_write_nil in F1. specialize (Hnx0 eq_refl).
        destruct Hcase as [(Hneq & _ & ->)|[(Heq1 & _ & ->)|(_ & Hk & _)]]; try discriminate.
        * destruct (IH _ _ _ _ _ _ _ _ _ _ Ha F1 Hdone' H) as (M1 & M2 & Hok).
          split; [assumption|]. split; [assumption|].
          intros ->. destruct (Hok eq_refl) as (S1 & S2 & S3). split; [assumption|]. split; [assumption|].
          intros k i Hk Hi. apply (S3 k i); [lia|]. destruct (Nat.eq_dec k a) as [->|Hka].
          -- rewrite nth_upd_eq by lia. cbn [asincr]. now rewrite Hnx0.
          -- rewrite nth_upd_neq by congruence. exact Hi.
        * destruct (Hexh Heq1) as [_ Hend].
          assert (Hdone2 : forall k, k < S a -> nth k (upd a (Some next) mem) None = Some (length (nth k srcs []))).
          { intros k Hk. destruct (Nat.eq_dec k a) as [->|Hka].
            - rewrite nth_upd_eq by lia. now rewrite Hend.
            - apply Hdone'. lia. }
          assert (Ha2 : S a < length srcs) by lia.
          destruct (IH _ _ _ _ _ _ _ _ _ _ Ha2 F1 Hdone2 H) as (M1 & M2 & Hok).
          split; [assumption|]. split; [assumption|].
          intros ->. destruct (Hok eq_refl) as (S1 & S2 & S3). split; [assumption|]. split; [assumption|].
          intros k i Hk Hi. destruct (Nat.eq_dec k a) as [->|Hka].
          -- rewrite <- Heq1 in Hi. cbn [asincr] in Hi. rewrite Hend, skipn_all in Hi. destruct Hi.
          -- apply (S3 k i); [lia|]. rewrite nth_upd_neq by congruence. exact Hi.
  Qed.
End Union.

Lemma early_fail_none r : r_flt r = FNone -> early_fail r = false.
Proof. unfold early_fail. intros ->. cbn. now rewrite !andb_false_r. Qed.

(** ** Whole runs on the persisted state *)

Lemma nth_none_tokens srcs k : nth k (none_tokens srcs) None = None.
Proof.
  unfold none_tokens. revert k. induction srcs as [|f srcs IH]; intros [|k]; cbn; auto.
Qed.

Lemma none_tokens_length srcs : length (none_tokens srcs) = length srcs.
Proof. apply map_length. Qed.

Lemma safeK_none srcs sink : safeK srcs (none_tokens srcs) sink.
Proof.
  split; [apply none_tokens_length|]. intros k _. rewrite nth_none_tokens. cbn.
  apply safe1_zero.
Qed.

Lemma nth_le_total srcs k : length (nth k srcs []) <= total_len srcs.
Proof.
  unfold total_len. revert k. induction srcs as [|f srcs IH]; intros [|k]; cbn; try lia. specialize (IH k). lia.
Qed.

Lemma sum_bound (g h : nat -> nat) l : (forall k, g k <= h k) ->
  list_sum (map g l) <= list_sum (map h l).
Proof. intros H. unfold list_sum. induction l as [|x l IH]; cbn; [lia|]. specialize (H x). lia. Qed.

Lemma sum_nth_total srcs :
  list_sum (map (fun k => length (nth k srcs []) + 2) (seq 0 (length srcs)))
  = total_len srcs + 2 * length srcs.
Proof.
  induction srcs as [|f srcs IH]; [reflexivity|].
  unfold list_sum, total_len in *. cbn [length seq map fold_right nth].
  rewrite <- seq_shift, map_map. cbn [nth]. rewrite IH. lia.
Qed.

Lemma umu_bound srcs mem : umu srcs mem 0 <= total_len srcs + 2 * length srcs.
Proof.
  unfold umu. rewrite Nat.sub_0_r, <- sum_nth_total. apply sum_bound.
  intros k. unfold uterm. destruct (nth k mem None); cbn [asincr]; lia.
Qed.

Definition good (owner : Z -> nat) (n : nat) (st : state) : Prop :=
  length (st_srcs st) = n /\ owned owner (st_srcs st) /\ token_safe st.

Lemma token_safe_safeK st : token_safe st <-> safeK (st_srcs st) (st_tok st) (st_sink st).
Proof. reflexivity. Qed.

Lemma single_srcs (srcs : list feed) : length srcs = 1 -> srcs = [nth 0 srcs []].
Proof. destruct srcs as [|f [|g l]]; cbn; intros; try lia. reflexivity. Qed.

Section Runs.
  Variable owner : Z -> nat.
  Variable n : nat.
  Variable v : variant.
  Hypothesis Hv : vm_eq v = EqFull.

  Let eqf := weq (vm_eq v).
  Let dm := vm_dup v.
  Lemma Heqf : forall a b, eqf a b = true <-> a = b.
  Proof. unfold eqf. rewrite Hv. apply weq_full. Qed.

  (** safeK for a one-member source, from safe1 of member 0 *)
  Lemma safeK_single srcs toks sink t :
    length srcs = 1 -> length toks = 1 ->
    safe1 (nth 0 srcs []) (asincr t) sink -> safeK srcs (upd 0 t toks) sink.
  Proof.
    intros H1 H2 Hs. split; [rewrite upd_length; lia|]. intros k Hk.
    assert (k = 0) by lia. subst k. rewrite nth_upd_eq by lia. exact Hs.
  Qed.

  (** *** incremental runs keep the token safe, whatever the fault *)
  Lemma run_inc_safe st r st' o :
    good owner n st -> wf_op owner n (ORun r) -> r_full r = false ->
    run_job v st r = (st', o) -> good owner n st'.
  Proof.
    intros (Hn & Hown & Hts) (Hb & Hn1 & Hsingle & _ & _) Hfull H.
    unfold run_job in H. destruct (early_fail r).
    { rewrite Hfull in H. injection H as <- <-. split; [exact Hn|]. split; [exact Hown | exact Hts]. }
    unfold run_body in H. rewrite Hfull in H. fold eqf dm in H.
    destruct Hts as [Hlen Hs].
    destruct (r_union r) eqn:Hu.
    - destruct (inc_union _ _ _ _ _ _ _ _ _ _ _) as [[s t] o1] eqn:Hrun in H.
      injection H as <- <-.
      assert (Ha : 0 < length (st_srcs st)) by lia.
      pose proof (inc_union_safe eqf dm Heqf owner (r_los r) (r_b r) (st_srcs st) Hown _ _ _ _ _ _ _ _ _ _
                    Ha (conj Hlen Hs) (conj Hlen Hs) (fun k => le_n _) Hrun) as Hres.
      split; [exact Hn|]. split; [exact Hown|]. exact Hres.
    - destruct (inc_single _ _ _ _ _ _ _ _ _) as [[s t] o1] eqn:Hrun in H.
      injection H as <- <-.
      assert (Hn' : length (st_srcs st) = 1) by (rewrite Hn; now apply Hsingle).
      destruct (inc_single_safe eqf dm Heqf _ _ _ _ _ _ _ _ _ _ _ (Hs 0 ltac:(lia)) Hrun) as [Hres _].
      split; [exact Hn|]. split; [exact Hown|].
      apply (safeK_single (st_srcs st) (st_tok st) s t); auto; lia.
  Qed.

  (** *** a fault-free incremental run with no concurrent writes converges *)
  Lemma at_end_converged st :
    at_end (st_srcs st) (st_tok st) -> token_safe st -> converged st.
  Proof.
    intros [Hl He] [_ Hs]. split; [assumption|]. intros k Hk. split; [now apply He|].
    specialize (Hs k Hk). rewrite (He k Hk) in Hs. cbn in Hs.
    apply safe1_converged. exact Hs.
  Qed.

  Lemma run_inc_converge st r :
    good owner n st -> wf_op owner n (ORun r) -> r_full r = false -> r_flt r = FNone ->
    exists st', run_job v st r = (st', OOk) /\ st_srcs st' = st_srcs st
                /\ converged st' /\ good owner n st'.
  Proof.
    intros Hg Hwf Hfull Hflt.
    destruct (run_job v st r) as [st' o] eqn:Hrun.
    pose proof (run_inc_safe _ _ _ _ Hg Hwf Hfull Hrun) as Hg'.
    destruct Hg as (Hn & Hown & Hts). destruct Hwf as (Hb & Hn1 & Hsingle & _ & _).
    unfold run_job in Hrun. rewrite (early_fail_none _ Hflt) in Hrun.
    unfold run_body in Hrun. rewrite Hfull, Hflt in Hrun. fold eqf dm in Hrun.
    destruct Hts as [Hlen Hs].
    destruct (r_union r) eqn:Hu.
    - assert (Ha : 0 < length (st_srcs st)) by lia.
      destruct (inc_union_converge eqf dm Heqf owner (r_los r) (r_b r) (st_srcs st) Hown
                  (fuel_of (st_srcs st)) (st_sink st) (st_tok st) (st_tok st) 0 0 Ha (conj Hlen Hs))
        as (s & t & Hrun' & Hend).
      { intros k Hk. lia. }
      { pose proof (umu_bound (st_srcs st) (st_tok st)). unfold fuel_of. lia. }
      rewrite Hrun' in Hrun. injection Hrun as <- <-. exists (mkSt (st_srcs st) s t).
      split; [reflexivity|]. split; [reflexivity|]. split; [|exact Hg'].
      apply at_end_converged; [exact Hend | apply Hg'].
    - assert (Hn' : length (st_srcs st) = 1) by (rewrite Hn; now apply Hsingle).
      destruct (inc_single_converge eqf dm Heqf (nth 0 (r_los r) false) (r_b r) (nth 0 (st_srcs st) [])
                  (fuel_of (st_srcs st)) (st_sink st) (nth 0 (st_tok st) None) 0 (Hs 0 ltac:(lia)))
        as (s & Hrun' & Hsafe).
      { pose proof (nth_le_total (st_srcs st) 0). unfold fuel_of. lia. }
      rewrite Hrun' in Hrun. injection Hrun as <- <-. eexists. split; [reflexivity|].
      split; [reflexivity|]. split; [|exact Hg'].
      apply at_end_converged; [|apply Hg']. cbn [st_srcs st_tok].
      rewrite Hn' in Hlen. clear Hs Hrun' Hg'.
      destruct (st_tok st) as [|t0 [|t1 l]]; cbn in Hlen; try lia.
      split; [cbn; lia|]. intros k Hk. assert (k = 0) by lia. subst k. reflexivity.
  Qed.

  (** *** fullsync runs *)
  Lemma complete_safeK srcs toks s seen :
    safeK srcs toks s ->
    (forall k i, k < length srcs -> In i (ids (nth k srcs [])) -> In i seen) ->
    safeK srcs toks (complete eqf dm s seen).
  Proof.
    intros [Hl Hs] Hseen. split; [assumption|]. intros k Hk.
    apply (wrote_safe1 eqf dm Heqf) with s; [|now apply Hs].
    eapply wrote_weaken; [|apply complete_wrote]. cbn. intros w Hw Hc. apply Hw. eauto.
  Qed.

  Lemma complete_foreign srcs s seen :
    (forall i, In i seen -> exists k, k < length srcs /\ In i (ids (nth k srcs []))) ->
    forall i, (forall k, ~ In i (ids (nth k srcs []))) ->
      match cur (complete eqf dm s seen) i with Some w => v_del w = true | None => True end.
  Proof.
    intros Hseen i Hi. rewrite (complete_cur eqf dm Heqf).
    destruct (cur s i) as [w|]; [|exact I].
    assert (Hz : zmem i seen = false).
    { apply zmem_false. intros Hc. destruct (Hseen i Hc) as (k & _ & Hk). exact (Hi k Hk). }
    rewrite Hz. destruct (v_del w) eqn:D; cbn; [exact D | reflexivity].
  Qed.

  Lemma complete_seen_cur s seen i : In i seen -> cur (complete eqf dm s seen) i = cur s i.
  Proof.
    intros Hi. rewrite (complete_cur eqf dm Heqf). apply zmem_In in Hi. rewrite Hi.
    destruct (cur s i) as [w|]; [|reflexivity]. now rewrite andb_false_r.
  Qed.

  Lemma run_full_ok st r st' :
    length (st_srcs st) = n -> length (st_tok st) = n ->
    owned owner (st_srcs st) -> wf_op owner n (ORun r) ->
    r_full r = true -> run_job v st r = (st', OOk) ->
    st_srcs st' = st_srcs st /\ converged st' /\ foreign_deleted st' /\ good owner n st'.
  Proof.
    intros Hn Hnt Hown (Hb & Hn1 & Hsingle & _ & _) Hfull H.
    unfold run_job in H. destruct (early_fail r); [discriminate|].
    unfold run_body in H. rewrite Hfull in H. fold eqf dm in H.
    destruct (r_union r) eqn:Hu.
    - destruct (full_union _ _ _ _ _ _ _ _ _ _ _) as [[[s mem] seen] o1] eqn:Hrun in H.
      destruct o1; try (injection H as _ H; discriminate). injection H as <-.
      assert (Ha : 0 < length (st_srcs st)) by lia.
      destruct (full_union_spec eqf dm Heqf owner (r_los r) (r_b r) (st_srcs st) Hown _ _ _ _ _ _ _ _ _ _ _
                  Ha (safeK_none _ _) ltac:(intros k Hk; lia) Hrun) as (_ & M2 & Hok).
      destruct (Hok eq_refl) as (S1 & S2 & S3).
      assert (Hseen : forall k i, k < length (st_srcs st) -> In i (ids (nth k (st_srcs st) [])) -> In i seen).
      { intros k i Hk Hi. apply (S3 k i); [lia|]. now rewrite nth_none_tokens. }
      assert (Hts : token_safe (mkSt (st_srcs st) (complete eqf dm s seen) mem)).
      { apply complete_safeK; assumption. }
      split; [reflexivity|]. split; [|split].
      + exact (at_end_converged (mkSt (st_srcs st) (complete eqf dm s seen) mem) S2 Hts).
      + intros i Hi. cbn [st_sink st_srcs] in *. apply (complete_foreign (st_srcs st)); [|assumption].
        intros j Hj. destruct (M2 j Hj) as [[]|]; assumption.
      + split; [exact Hn|]. split; [exact Hown | exact Hts].
    - destruct (full_single _ _ _ _ _ _ _ _ _ _) as [[[s mem] seen] o1] eqn:Hrun in H.
      destruct o1; try (injection H as _ H; discriminate). injection H as <-.
      assert (Hn' : length (st_srcs st) = 1) by (rewrite Hn; now apply Hsingle).
      destruct (full_single_spec eqf dm Heqf _ _ _ _ _ None _ _ _ _ _ _ _ (safe1_zero _ _) Hrun)
        as (_ & _ & M2 & Hok).
      destruct (Hok eq_refl) as (S1 & -> & S3). cbn [asincr skipn] in S3.
      pose proof (single_srcs _ Hn') as Esrc.
      set (tok' := upd 0 (Some (length (nth 0 (st_srcs st) []))) (st_tok st)).
      assert (Hseen : forall k i, k < length (st_srcs st) -> In i (ids (nth k (st_srcs st) [])) -> In i seen).
      { intros k i Hk Hi. assert (k = 0) by lia. subst k. now apply S3. }
      split; [reflexivity|].
      assert (Hfor : foreign_deleted (mkSt (st_srcs st) (complete eqf dm s seen) tok')).
      { intros i Hi. cbn [st_sink st_srcs] in *. apply (complete_foreign (st_srcs st)); [|assumption].
        intros j Hj. destruct (M2 j Hj) as [[]|Hj']. exists 0. split; [lia | exact Hj']. }
      assert (Hts : token_safe (mkSt (st_srcs st) (complete eqf dm s seen) tok')).
      { apply complete_safeK; [|assumption].
        apply (safeK_single (st_srcs st) (st_tok st) s); auto; lia. }
      split; [|split; [exact Hfor|]].
      + apply (at_end_converged (mkSt (st_srcs st) (complete eqf dm s seen) tok')); [|exact Hts].
        cbn [st_srcs st_tok]. unfold tok'.
        split; [rewrite upd_length; lia|]. intros k Hk. assert (k = 0) by lia. subst k.
        now rewrite nth_upd_eq by lia.
      + split; [exact Hn|]. split; [exact Hown | exact Hts].
  Qed.
End Runs.

Lemma outcome_eq_dec (a b : outcome) : {a = b} + {a <> b}.
Proof. decide equality. Qed.

(** *** the fullsync token is stored only on completion (any variant) *)
Lemma run_full_token v st r st' o :
  r_full r = true -> run_job v st r = (st', o) -> o <> OOk ->
  st_srcs st' = st_srcs st /\
  st_tok st' = match vm_fs v with FsKeep => st_tok st | FsReset => none_tokens (st_srcs st) end.
Proof.
  intros Hfull H Ho. unfold run_job in H. destruct (early_fail r).
  { rewrite Hfull in H. injection H as <- <-. auto. }
  unfold run_body in H. rewrite Hfull in H.
  destruct (r_union r).
  - destruct (full_union _ _ _ _ _ _ _ _ _ _ _) as [[[s mem] seen] o1] in H.
    destruct o1; injection H as <- <-; try congruence; auto.
  - destruct (full_single _ _ _ _ _ _ _ _ _ _) as [[[s mem] seen] o1] in H.
    destruct o1; injection H as <- <-; try congruence; auto.
Qed.

Lemma run_srcs v st r st' o : run_job v st r = (st', o) -> st_srcs st' = st_srcs st.
Proof.
  unfold run_job. destruct (early_fail r); [intros [= <- <-]; reflexivity|].
  unfold run_body. intros H. destruct (r_full r), (r_union r).
  - destruct (full_union _ _ _ _ _ _ _ _ _ _ _) as [[[s mem] seen] o1] in H.
    destruct o1; injection H as <- <-; reflexivity.
  - destruct (full_single _ _ _ _ _ _ _ _ _ _) as [[[s mem] seen] o1] in H.
    destruct o1; injection H as <- <-; reflexivity.
  - destruct (inc_union _ _ _ _ _ _ _ _ _ _ _) as [[s t] o1] in H. injection H as <- <-. reflexivity.
  - destruct (inc_single _ _ _ _ _ _ _ _ _) as [[s t] o1] in H. injection H as <- <-. reflexivity.
Qed.

(** *** re-running with nothing new changes nothing (any variant) *)
Lemma inc_union_idem eqf dm los b srcs : forall fuel sink stored mem a idx,
  at_end srcs mem -> a < length srcs -> length srcs - a <= fuel ->
  inc_union fuel eqf dm los b srcs sink stored mem a idx FNone = (sink, mem, OOk).
Proof.
  induction fuel as [|fuel IH]; intros sink stored mem a idx Hend Ha Hf; [lia|].
  destruct Hend as [Hl He]. cbn [inc_union]. rewrite (He a Ha). cbn [asincr].
  unfold process_changes. rewrite skipn_all. cbn [pc_loop].
  unfold union_update. rewrite (He a Ha). cbn [token_eqb]. rewrite Nat.eqb_refl.
  rewrite <- (He a Ha), upd_same by lia.
  destruct (S a <? length mem) eqn:L.
  - apply Nat.ltb_lt in L. cbn [nonempty orb negb]. apply IH; [split; assumption | lia | lia].
  - cbn [nonempty orb negb]. rewrite proc_inc_nofault. cbn [nonempty]. now rewrite ds_write_nil.
Qed.

Lemma run_idem owner n v st r :
  at_end (st_srcs st) (st_tok st) -> length (st_srcs st) = n -> wf_op owner n (ORun r) ->
  r_full r = false -> r_flt r = FNone ->
  run_job v st r = (st, OOk).
Proof.
  intros Hend Hn (Hb & Hn1 & Hsingle & _ & _) Hfull Hflt.
  unfold run_job. rewrite (early_fail_none _ Hflt).
  unfold run_body. rewrite Hfull, Hflt. destruct st as [srcs sink tok]. cbn [st_srcs st_sink st_tok] in *.
  destruct (r_union r) eqn:Hu.
  - rewrite inc_union_idem; [reflexivity | assumption | lia | unfold fuel_of; lia].
  - destruct Hend as [Hl He]. assert (Hn' : length srcs = 1) by (rewrite Hn; now apply Hsingle).
    rewrite (He 0 ltac:(lia)).
    rewrite inc_single_idem; [| lia | unfold fuel_of; lia].
    rewrite <- (He 0 ltac:(lia)), upd_same by lia. reflexivity.
Qed.

(** ** Histories *)
Section Histories.
  Variable owner : Z -> nat.
  Variable n : nat.
  Variable v : variant.
  Hypothesis Hv : vm_eq v = EqFull.

  Lemma run_safe st r st' o :
    good owner n st -> wf_op owner n (ORun r) -> run_job v st r = (st', o) ->
    vm_fs v = FsReset \/ r_full r = false \/ o = OOk ->
    good owner n st'.
  Proof.
    intros Hg Hwf H Hc. destruct (r_full r) eqn:Hfull.
    - destruct (outcome_eq_dec o OOk) as [->|Hne].
      + destruct Hg as (Hn & Hown & [Hl _]).
        apply (run_full_ok owner n v Hv st r st'); auto. lia.
      + destruct Hc as [Hfs|[Hc|Hc]]; try congruence.
        destruct (run_full_token v st r st' o Hfull H Hne) as [E1 E2]. rewrite Hfs in E2.
        destruct Hg as (Hn & Hown & _). split; [now rewrite E1|]. split; [now rewrite E1|].
        apply token_safe_safeK. rewrite E1, E2. apply safeK_none.
    - eapply run_inc_safe; eauto.
  Qed.

  Lemma write_good st k es :
    good owner n st -> wf_op owner n (OWrite k es) ->
    good owner n (fst (step v st (OWrite k es))).
  Proof.
    intros (Hn & Hown & [Hl Hs]) [Hk Hes]. cbn [step fst].
    destruct (ds_write_prefix (weq (vm_eq v)) (vm_dup v) (nth k (st_srcs st) []) es) as (w & Ew & Hw).
    rewrite Ew. split; [cbn; rewrite upd_length; exact Hn|]. split.
    - intros j x Hx. cbn [st_srcs] in Hx. destruct (Nat.eq_dec j k) as [->|Hjk].
      + rewrite nth_upd_eq in Hx by lia. apply in_app_or in Hx. destruct Hx; [now apply Hown | auto].
      + rewrite nth_upd_neq in Hx by congruence. now apply Hown.
    - split; cbn [st_srcs st_tok st_sink]; [rewrite upd_length; exact Hl|].
      rewrite upd_length. intros j Hj. destruct (Nat.eq_dec j k) as [->|Hjk].
      + rewrite nth_upd_eq by lia. apply safe1_src_app. now apply Hs.
      + rewrite nth_upd_neq by congruence. now apply Hs.
  Qed.

  Lemma sinkwrite_good st es :
    good owner n st -> wf_op owner n (OSinkWrite es) ->
    good owner n (fst (step v st (OSinkWrite es))).
  Proof.
    intros (Hn & Hown & [Hl Hs]) Hes. cbn [step fst wf_op] in *.
    split; [exact Hn|]. split; [exact Hown|]. split; [exact Hl|]. cbn [st_srcs st_tok st_sink].
    intros k Hk. apply (safe1_write _ (vm_dup v) (Heqf v Hv)); [now apply Hs|].
    intros x Hx. right. intros Hc. destruct (In_ids_inv _ _ Hc) as (y & Hy & E).
    apply Hown in Hy. specialize (Hes x Hx). rewrite <- E in Hes. lia.
  Qed.

  (** the operations after which nothing is claimed for a tree that keeps the old token:
      fullsync runs that did not complete *)
  Definition failed_full (o : op) (out : option outcome) : Prop :=
    match o, out with
    | ORun r, Some x => r_full r = true /\ x <> OOk
    | _, _ => False
    end.

  Lemma step_good st o st' out :
    good owner n st -> wf_op owner n o -> step v st o = (st', out) ->
    vm_fs v = FsReset \/ ~ failed_full o out -> good owner n st'.
  Proof.
    intros Hg Hwf H Hc. destruct o as [k es|es| | |r].
    - pose proof (write_good st k es Hg Hwf) as G. rewrite H in G. exact G.
    - pose proof (sinkwrite_good st es Hg Hwf) as G. rewrite H in G. exact G.
    - destruct Hwf.
    - cbn [step] in H. injection H as <- _. exact Hg.
    - cbn [step] in H. unfold run_any in H. rewrite (proj2 (proj2 (proj2 (proj2 Hwf)))) in H.
      destruct (run_job v st r) as [st1 o1] eqn:Hrun. injection H as <- <-.
      apply (run_safe st r st1 o1 Hg Hwf Hrun).
      destruct Hc as [Hc|Hc]; [now left|right].
      destruct (r_full r) eqn:Hfull; [right | now left].
      destruct (outcome_eq_dec o1 OOk); [assumption|]. exfalso. apply Hc. cbn. auto.
  Qed.

  Theorem exec_safe : vm_fs v = FsReset -> forall h st,
    good owner n st -> Forall (wf_op owner n) h ->
    Forall (fun so => good owner n (fst so)) (exec v st h).
  Proof.
    intros Hfs. induction h as [|o h IH]; intros st Hg Hwf; cbn [exec]; [constructor|].
    inversion Hwf as [|? ? Ho Hh]; subst.
    destruct (step v st o) as [st' out] eqn:Hstep.
    assert (Hg' : good owner n st') by (eapply step_good; eauto).
    constructor; [exact Hg' | now apply IH].
  Qed.

  (** the same for a tree that keeps the old token, as long as no fullsync fails *)
  Fixpoint no_failed_full (st : state) (h : list op) : Prop :=
    match h with
    | [] => True
    | o :: h' => ~ failed_full o (snd (step v st o)) /\ no_failed_full (fst (step v st o)) h'
    end.

  Theorem exec_safe_keep : forall h st,
    good owner n st -> Forall (wf_op owner n) h -> no_failed_full st h ->
    Forall (fun so => good owner n (fst so)) (exec v st h).
  Proof.
    induction h as [|o h IH]; intros st Hg Hwf Hnf; cbn [exec]; [constructor|].
    inversion Hwf as [|? ? Ho Hh]; subst. cbn [no_failed_full] in Hnf. destruct Hnf as [Hn1 Hn2].
    destruct (step v st o) as [st' out] eqn:Hstep. cbn [fst snd] in *.
    assert (Hg' : good owner n st') by (eapply step_good; eauto).
    constructor; [exact Hg' | now apply IH].
  Qed.
End Histories.

(** ** The empty hub satisfies the invariant *)
Lemma init_good owner n : good owner n (init_state n).
Proof.
  unfold init_state. split; [apply repeat_length|]. split.
  - intros k x Hx. cbn [st_srcs] in Hx.
    assert (E : nth k (repeat (@nil version) n) [] = []).
    { clear. revert k. induction n as [|m IH]; intros [|k]; cbn; auto. }
    rewrite E in Hx. destruct Hx.
  - split; cbn [st_srcs st_tok st_sink]; [now rewrite !repeat_length|].
    intros k _.
    assert (E : nth k (repeat (@nil version) n) [] = []).
    { clear. revert k. induction n as [|m IH]; intros [|k]; cbn; auto. }
    assert (E2 : nth k (repeat (@None nat) n) None = None).
    { clear. revert k. induction n as [|m IH]; intros [|k]; cbn; auto. }
    rewrite E, E2. apply safe1_zero.
Qed.

(** ** Refutations for the pinned tree *)

Definition own0 : Z -> nat := fun _ => 0.

(** F08a (inherits F01a): a LatestOnly job delivers the un-delete of entity 1 as the only new
    version; it has the JSON length of the stored deleted version, so the sink drops it.
    Every run is fault-free and successful, the token is at the end, the views differ. *)
Definition h_eqlen : list op :=
  [ OWrite 0 [mkV 1 0 0 true];
    ORun (mkR false false 2 [true] FNone [] false);
    OWrite 0 [mkV 1 4 0 false];
    OWrite 0 [mkV 1 13 0 false];
    ORun (mkR false false 2 [true] FNone [] false);
    ORun (mkR false false 2 [true] FNone [] false) ].

Lemma refuted_eqlen :
  Forall (wf_op own0 1) h_eqlen
  /\ map snd (exec (mkVar EqLen FsReset DupStoredAndLocal) (init_state 1) h_eqlen)
     = [None; Some OOk; None; None; Some OOk; Some OOk]
  /\ (let st := final (mkVar EqLen FsReset DupStoredAndLocal) (init_state 1) h_eqlen in
      st_tok st = [Some 3]
      /\ cur (nth 0 (st_srcs st) []) 1%Z = Some (mkV 1 13 0 false)
      /\ cur (st_sink st) 1%Z = Some (mkV 1 0 0 true)).
Proof.
  split.
  - unfold h_eqlen. repeat constructor; cbn; try lia; intros x [<-|[]]; reflexivity.
  - split; vm_compute; auto.
Qed.

(** F08b: a fullsync over a two-version history is killed after its first page (batch 1):
    the sink is back at version 1, the persisted token still says 2, and the next successful
    incremental run changes nothing. *)
Definition h_fskeep : list op :=
  [ OWrite 0 [mkV 1 1 0 false];
    OWrite 0 [mkV 1 2 0 false];
    ORun (mkR false false 1 [false] FNone [] false);
    ORun (mkR true false 1 [false] (FKill 0) [] false);
    ORun (mkR false false 1 [false] FNone [] false) ].

Lemma refuted_fskeep :
  Forall (wf_op own0 1) h_fskeep
  /\ map snd (exec (mkVar EqFull FsKeep DupStoredAndLocal) (init_state 1) h_fskeep)
     = [None; None; Some OOk; Some OFailed; Some OOk]
  /\ (let st := final (mkVar EqFull FsKeep DupStoredAndLocal) (init_state 1) h_fskeep in
      st_tok st = [Some 2]
      /\ cur (nth 0 (st_srcs st) []) 1%Z = Some (mkV 1 2 0 false)
      /\ cur (st_sink st) 1%Z = Some (mkV 1 1 0 false)
      /\ ~ token_safe st /\ ~ converged st).
Proof.
  split.
  - unfold h_fskeep. repeat constructor; cbn; try lia; intros x [<-|[]]; reflexivity.
  - split; [vm_compute; reflexivity|].
    set (st := final _ _ _). vm_compute in st. subst st. cbn [st_tok st_srcs st_sink nth].
    repeat split; try reflexivity.
    + intros [_ H]. specialize (H 0 ltac:(cbn; lia)). cbn [st_tok st_srcs st_sink nth asincr] in H.
      destruct H as [_ H]. specialize (H 1%Z ltac:(cbn; auto)).
      destruct H as [H|H]; [exact H | vm_compute in H; discriminate].
    + intros [_ H]. specialize (H 0 ltac:(cbn; lia)). cbn [st_tok st_srcs st_sink nth] in H.
      destruct H as [_ H]. specialize (H 1%Z ltac:(cbn; auto)). vm_compute in H. discriminate.
Qed.

(** the repaired variant on the same two histories *)
Lemma fixed_on_witnesses :
  (let st := final (mkVar EqFull FsReset DupLocalElseStored) (init_state 1) h_eqlen in
   cur (st_sink st) 1%Z = cur (nth 0 (st_srcs st) []) 1%Z)
  /\ (let st := final (mkVar EqFull FsReset DupLocalElseStored) (init_state 1) h_fskeep in
      st_tok st = [Some 2] /\ cur (st_sink st) 1%Z = cur (nth 0 (st_srcs st) []) 1%Z).
Proof. vm_compute. auto. Qed.
