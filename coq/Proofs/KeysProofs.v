(** Proofs about the byte layout of keys (Model/Keys.v). *)
From Coq Require Import List Arith NArith Bool Lia.
From DH Require Import Model.Keys.
Import ListNotations.
Open Scope N_scope.

Lemma pow256_pos w : 0 < 256 ^ N.of_nat w.
Proof. assert (256 ^ N.of_nat w <> 0) by (apply N.pow_nonzero; lia). lia. Qed.

Lemma pow256_succ w : 256 ^ N.of_nat (S w) = 256 ^ N.of_nat w * 256.
Proof. rewrite Nat2N.inj_succ, N.pow_succ_r by lia. lia. Qed.

Lemma be_length w n : length (be w n) = w.
Proof. revert n; induction w as [|w IH]; intros n; cbn [be length]; [reflexivity | now rewrite IH]. Qed.

(** splitting an in-range number into its top byte and the rest *)
Lemma split_top w n : n < 256 ^ N.of_nat (S w) ->
  let B := 256 ^ N.of_nat w in
  n / B < 256 /\ n mod B < B /\ n = B * (n / B) + n mod B.
Proof.
  intros H B. pose proof (pow256_pos w) as HB. fold B in HB. rewrite pow256_succ in H. fold B in H.
  split; [|split].
  - apply N.div_lt_upper_bound; lia.
  - apply N.mod_lt; lia.
  - apply N.div_mod; lia.
Qed.

Lemma be_val_fold w : forall n acc, n < 256 ^ N.of_nat w ->
  fold_left (fun a b => a * 256 + b) (be w n) acc = acc * 256 ^ N.of_nat w + n.
Proof.
  induction w as [|w IH]; intros n acc H.
  - change (N.of_nat 0) with 0 in *. rewrite N.pow_0_r in *. cbn [be fold_left]. lia.
  - cbn [be fold_left]. destruct (split_top w n H) as (Ha & Hr & Hn).
    set (B := 256 ^ N.of_nat w) in *.
    rewrite (N.mod_small (n / B) 256 Ha). rewrite IH by exact Hr. fold B.
    rewrite pow256_succ. fold B. nia.
Qed.

(** decoding an encoded number gives it back (hence encoding is injective) *)
Lemma be_val_be w n : n < 256 ^ N.of_nat w -> be_val (be w n) = n.
Proof. intros H. unfold be_val. rewrite be_val_fold by exact H. lia. Qed.

Lemma be_inj w n m : n < 256 ^ N.of_nat w -> m < 256 ^ N.of_nat w -> be w n = be w m -> n = m.
Proof. intros Hn Hm H. rewrite <- (be_val_be w n Hn), <- (be_val_be w m Hm). now rewrite H. Qed.

(** bytewise order of the encodings = numeric order *)
Lemma be_order w : forall n m, n < 256 ^ N.of_nat w -> m < 256 ^ N.of_nat w ->
  lex_ltb (be w n) (be w m) = (n <? m).
Proof.
  induction w as [|w IH]; intros n m Hn Hm.
  - change (N.of_nat 0) with 0 in *. rewrite N.pow_0_r in Hn, Hm. assert (n = 0) by lia. assert (m = 0) by lia. subst. reflexivity.
  - cbn [be lex_ltb].
    destruct (split_top w n Hn) as (Ha & Hr & Hne). destruct (split_top w m Hm) as (Hb & Hs & Hme).
    set (B := 256 ^ N.of_nat w) in *.
    rewrite (N.mod_small (n / B) 256 Ha), (N.mod_small (m / B) 256 Hb).
    rewrite (IH _ _ Hr Hs).
    pose proof (pow256_pos w) as HB. fold B in HB.
    set (a := n / B) in *. set (r := n mod B) in *. set (b := m / B) in *. set (s := m mod B) in *.
    clearbody a r b s. clear IH Hn Hm. subst n m.
    destruct (N.ltb_spec a b) as [Hlt|Hge]; cbn [orb].
    + symmetry. apply N.ltb_lt. nia.
    + destruct (N.eqb_spec a b) as [Heq|Hne2]; cbn [andb].
      * subst b. destruct (N.ltb_spec r s); symmetry; [apply N.ltb_lt | apply N.ltb_ge]; nia.
      * symmetry. apply N.ltb_ge. nia.
Qed.

Fixpoint leqb (a b : list N) : bool :=
  match a, b with
  | [], [] => true
  | x :: a', y :: b' => (x =? y) && leqb a' b'
  | _, _ => false
  end.

Lemma leqb_eq a b : leqb a b = true <-> a = b.
Proof.
  revert b; induction a as [|x a IH]; destruct b as [|y b]; cbn; try (split; congruence).
  rewrite andb_true_iff, N.eqb_eq, IH. split; [intros [-> ->]; reflexivity | intros [= -> ->]; auto].
Qed.

Lemma be_eqb w n m : n < 256 ^ N.of_nat w -> m < 256 ^ N.of_nat w ->
  leqb (be w n) (be w m) = (n =? m).
Proof.
  intros Hn Hm. destruct (N.eqb_spec n m) as [->|Hne].
  - apply leqb_eq. reflexivity.
  - destruct (leqb (be w n) (be w m)) eqn:E; [|reflexivity].
    apply leqb_eq in E. exfalso. apply Hne. eapply be_inj; eassumption.
Qed.

(** lexicographic order of concatenations with equally long heads *)
Lemma lex_app a1 : forall a2 b1 b2, length a1 = length a2 ->
  lex_ltb (a1 ++ b1) (a2 ++ b2) = lex_ltb a1 a2 || (leqb a1 a2 && lex_ltb b1 b2).
Proof.
  induction a1 as [|x a1 IH]; intros [|y a2] b1 b2 Hl; cbn [length] in Hl; try discriminate.
  - cbn. destruct b1, b2; reflexivity.
  - cbn [app lex_ltb leqb]. rewrite IH by lia.
    destruct (x <? y); cbn [orb]; [reflexivity|]. destruct (x =? y); cbn [andb]; reflexivity.
Qed.

(** ** keys: bytewise order = lexicographic order of the field values *)
Theorem enc_order f1 : forall f2,
  map fst f1 = map fst f2 -> in_range f1 -> in_range f2 ->
  lex_ltb (enc f1) (enc f2) = flt f1 f2.
Proof.
  induction f1 as [|[w v1] r1 IH]; intros [|[w2 v2] r2] Hw H1 H2; cbn [map fst] in Hw; try discriminate.
  - reflexivity.
  - injection Hw as <- Hw. cbn [enc flt].
    inversion H1 as [|? ? Hv1 Hr1]; subst. inversion H2 as [|? ? Hv2 Hr2]; subst. cbn [fst snd] in *.
    rewrite lex_app by (now rewrite !be_length).
    rewrite be_order, be_eqb, IH by assumption. reflexivity.
Qed.

Lemma app_inj_len {A} (a1 : list A) : forall a2 b1 b2,
  length a1 = length a2 -> a1 ++ b1 = a2 ++ b2 -> a1 = a2 /\ b1 = b2.
Proof.
  induction a1 as [|x a1 IH]; intros [|y a2] b1 b2 Hl H; cbn [length] in Hl; try discriminate.
  - auto.
  - cbn [app] in H. injection H as -> H. destruct (IH a2 b1 b2 ltac:(lia) H) as [-> ->]. auto.
Qed.

(** encoding is injective on in-range field lists of the same shape *)
Theorem enc_inj f1 : forall f2,
  map fst f1 = map fst f2 -> in_range f1 -> in_range f2 -> enc f1 = enc f2 -> f1 = f2.
Proof.
  induction f1 as [|[w v1] r1 IH]; intros [|[w2 v2] r2] Hw H1 H2 He; cbn [map fst] in Hw; try discriminate.
  - reflexivity.
  - injection Hw as <- Hw. cbn [enc] in He.
    inversion H1 as [|? ? Hv1 Hr1]; subst. inversion H2 as [|? ? Hv2 Hr2]; subst. cbn [fst snd] in *.
    apply app_inj_len in He; [|now rewrite !be_length]. destruct He as [Hb He'].
    f_equal; [f_equal; eapply be_inj; eassumption | apply IH; assumption].
Qed.

(** decoding with the layout's widths returns the field values: the byte slices the code reads
    (key[2:10], key[10:14], key[14:22], ...) are exactly the named fields *)
Theorem dec_enc fs : in_range fs -> dec (map fst fs) (enc fs) = Some (map snd fs).
Proof.
  induction fs as [|[w v] r IH]; intros H; cbn [map fst snd enc dec]; [reflexivity|].
  inversion H as [|? ? Hv Hr]; subst. cbn [fst snd] in Hv.
  rewrite app_length, be_length.
  replace (Nat.leb w (w + length (enc r))) with true by (symmetry; apply Nat.leb_le; lia).
  assert (Hs : skipn w (be w v ++ enc r) = enc r).
  { rewrite skipn_app, be_length, Nat.sub_diag. rewrite skipn_all2 by (rewrite be_length; lia). reflexivity. }
  assert (Hf : firstn w (be w v ++ enc r) = be w v).
  { rewrite firstn_app, be_length, Nat.sub_diag. rewrite firstn_all2 by (rewrite be_length; lia). cbn. now rewrite app_nil_r. }
  rewrite Hs, Hf, (IH Hr), be_val_be by exact Hv. reflexivity.
Qed.

(** ** corollaries for the key families *)
Definition u16 : N := 256 ^ 2.
Definition u32 : N := 256 ^ 4.
Definition u64 : N := 256 ^ 8.

Corollary version_key_order rid ds t b rid' ds' t' b' :
  rid < u64 -> ds < u32 -> t < u64 -> b < u16 -> rid' < u64 -> ds' < u32 -> t' < u64 -> b' < u16 ->
  lex_ltb (enc (vkey rid ds t b)) (enc (vkey rid' ds' t' b'))
  = flt (vkey rid ds t b) (vkey rid' ds' t' b').
Proof.
  intros. apply enc_order; [reflexivity | |]; repeat constructor; cbn [fst snd]; assumption || (cbv; reflexivity).
Qed.

Corollary change_key_order ds s rid ds' s' rid' :
  ds < u32 -> s < u64 -> rid < u64 -> ds' < u32 -> s' < u64 -> rid' < u64 ->
  lex_ltb (enc (ckey ds s rid)) (enc (ckey ds' s' rid')) = flt (ckey ds s rid) (ckey ds' s' rid').
Proof.
  intros. apply enc_order; [reflexivity | |]; repeat constructor; cbn [fst snd]; assumption || (cbv; reflexivity).
Qed.

Corollary outgoing_key_order a b c d e f a' b' c' d' e' f' :
  a < u64 -> b < u64 -> c < u64 -> d < u64 -> e < u16 -> f < u32 ->
  a' < u64 -> b' < u64 -> c' < u64 -> d' < u64 -> e' < u16 -> f' < u32 ->
  lex_ltb (enc (okey a b c d e f)) (enc (okey a' b' c' d' e' f')) = flt (okey a b c d e f) (okey a' b' c' d' e' f').
Proof.
  intros. apply enc_order; [reflexivity | |]; repeat constructor; cbn [fst snd]; assumption || (cbv; reflexivity).
Qed.

(** the dataset id the garbage collector and the readers slice out of a version key (key[10:14]) *)
Corollary version_key_dataset_slice rid ds t b :
  rid < u64 -> ds < u32 -> t < u64 -> b < u16 ->
  be_val (firstn 4 (skipn 10 (enc (vkey rid ds t b)))) = ds.
Proof.
  intros Hr Hd Ht Hb. cbn [vkey enc].
  assert (H10 : skipn 10 (be 2 1 ++ be 8 rid ++ be 4 ds ++ be 8 t ++ be 2 b ++ []) = be 4 ds ++ be 8 t ++ be 2 b ++ []).
  { rewrite app_assoc. rewrite skipn_app. rewrite app_length, !be_length. cbn [Nat.sub Nat.add].
    rewrite skipn_all2 by (rewrite app_length, !be_length; cbn; lia). reflexivity. }
  rewrite H10. rewrite firstn_app, be_length, Nat.sub_diag. rewrite firstn_all2 by (rewrite be_length; lia).
  cbn [firstn]. rewrite app_nil_r. apply be_val_be. exact Hd.
Qed.
