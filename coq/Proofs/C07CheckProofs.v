(** agreement with the repaired model implies the spec on the implementation's observations *)
From Coq Require Import List ZArith NArith Bool Lia.
From DH Require Import Lib.CheckLib Model.Store Proofs.StoreProofs Model.FeedSpec Model.DsManager Model.Gc
     Proofs.DsManagerProofs Proofs.DsRefine Model.NameCodec Check.C07Check.
Import ListNotations.
Open Scope Z_scope.


(** ** sets of pairs *)
Lemma pair_eqb_eq a b : pair_eqb a b = true <-> a = b.
Proof.
  destruct a as [a1 a2], b as [b1 b2]. unfold pair_eqb. cbn. rewrite andb_true_iff, !Z.eqb_eq.
  split; [intros [-> ->]; reflexivity | intros [= -> ->]; auto].
Qed.
Lemma In_pinsert x l y : In y (pinsert x l) <-> y = x \/ In y l.
Proof.
  induction l as [|z l IH]; cbn; [intuition|].
  destruct (pair_ltb x z); [cbn; intuition|].
  destruct (pair_eqb x z) eqn:E; [apply pair_eqb_eq in E; subst; cbn; intuition|]. cbn. rewrite IH. intuition.
Qed.
Lemma pcanon_In l y : In y (pcanon l) <-> In y l.
Proof. induction l as [|x l IH]; cbn; [tauto|]. rewrite In_pinsert, IH. intuition. Qed.
Lemma subsetb_spec a b : subsetb a b = true <-> (forall x, In x a -> In x b).
Proof.
  unfold subsetb. rewrite forallb_forall. split; intros H x Hx.
  - apply H in Hx. apply existsb_exists in Hx. destruct Hx as (y & Hy & E). apply pair_eqb_eq in E. now subst.
  - apply existsb_exists. exists x. split; [auto | now apply pair_eqb_eq].
Qed.
Lemma subsetb_mono a b c : subsetb a b = true -> (forall x, In x b -> In x c) -> subsetb a c = true.
Proof. rewrite !subsetb_spec. auto. Qed.

Lemma collect_mono {K A} (ok ok' : K -> bool) (f : dstate -> list A) l :
  (forall k, ok k = true -> ok' k = true) -> forall x, In x (collect ok f l) -> In x (collect ok' f l).
Proof.
  intros H. induction l as [|p l IH]; intros x Hx; [exact Hx|]. rewrite collect_cons in *.
  apply in_app_or in Hx. apply in_or_app. destruct Hx as [Hx|Hx]; [left | right; auto].
  destruct (ok (fst p)) eqn:E; [|contradiction]. now rewrite (H _ E).
Qed.

(** whatever ids a scope was resolved to: the relations found under it are among the unscoped ones *)
Lemma rel_ids_unscoped h sc start pred inverse x :
  In x (rel_ids h sc start pred inverse) -> In x (rel_ids h [] start pred inverse).
Proof.
  unfold rel_ids. rewrite !pcanon_In, !in_map_iff. intros (y & E & Hy). exists y. split; [exact E|].
  revert Hy. apply collect_mono. intros k Hk. unfold pass in *. apply andb_true_iff in Hk. destruct Hk as [Hk _].
  now rewrite Hk.
Qed.
Lemma rel_ids_obs h scope start pred inverse :
  rel_ids h (scope_ids (h_names h) scope) start pred inverse = rel_of (obs h (QRelated start pred inverse scope)).
Proof. reflexivity. Qed.

(** ** writes through a handle *)
Lemma In_set_assoc_keys {V} i (v : V) l k : In k (map fst (set_assoc i v l)) <-> k = i \/ In k (map fst l).
Proof.
  induction l as [|[j w] l IH]; cbn; [intuition|].
  destruct (Z.eqb_spec i j); [subst; cbn; intuition|].
  destruct (Z.ltb_spec i j); cbn; [intuition|]. rewrite IH. intuition.
Qed.
Lemma incr_set_assoc {V} i (v : V) : forall l lo, lo < i -> incr lo (map fst l) -> incr lo (map fst (set_assoc i v l)).
Proof.
  induction l as [|[j w] l IH]; intros lo Hlo H; cbn in *; [auto|]. destruct H as [H1 H2].
  destruct (Z.eqb_spec i j); [subst; cbn; auto|].
  destruct (Z.ltb_spec i j); cbn; [repeat split; auto; lia|]. split; [auto|]. apply IH; [lia | auto].
Qed.
Lemma abs_set_assoc_deleted nm dl i d : zmem i dl = true -> forall l,
  flat_map (abs_entry nm dl) (set_assoc i d l) = flat_map (abs_entry nm dl) l.
Proof.
  intros Hd. assert (E : forall x, abs_entry nm dl (i, x) = []) by (intros; unfold abs_entry; cbn; now rewrite Hd).
  induction l as [|[j w] l IH]; cbn [set_assoc flat_map]; [now rewrite E|].
  destruct (Z.eqb_spec i j); [subst; cbn [flat_map]; now rewrite !E|].
  destruct (Z.ltb_spec i j); cbn [flat_map]; [now rewrite E | now rewrite IH].
Qed.

Lemma stale_deleted_full h i ents :
  hfull h -> zmem i (h_del h) = true -> 0 < i < r_next (h_mem h) ->
  hfull (stale_write v_fixed i ents h) /\ habs (stale_write v_fixed i ents h) = s_tick (habs h).
Proof.
  intros (H & O & M) Hd Hb. destruct H as [Hs Hr]. unfold dinvh in Hr. pose proof Hr as Hr0. inv_rinv Hr0.
  unfold stale_write. split.
  - split; [split; [exact Hs|] | split; [|exact M]].
    + unfold dinvh. cbn [upd_st h_st h_disk apply_wop tick set_ds s_ds s_clock]. rewrite <- Hs in *.
      constructor; cbn [s_ds]; auto.
      * apply incr_set_assoc; [lia | exact Hsorted].
      * apply Forall_forall. intros k Hk. apply In_set_assoc_keys in Hk. destruct Hk as [->|Hk]; [lia|].
        rewrite Forall_forall in Hbound. auto.
      * eapply Forall_impl; [|exact Hdata]. cbn. intros k Hk. apply In_set_assoc_keys. now right.
    + unfold orph in *. cbn [upd_st h_st h_mem apply_wop tick set_ds s_ds]. apply Forall_forall. intros k Hk.
      apply In_set_assoc_keys in Hk. destruct Hk as [->|Hk]; [left; exact Hd|]. rewrite Forall_forall in O. auto.
  - unfold habs, abs_of, s_tick. cbn [upd_st h_st h_mem apply_wop tick set_ds s_ds s_clock ss_ds ss_clock]. f_equal.
    now apply abs_set_assoc_deleted.
Qed.

Lemma stale_live_is_write h i n ents :
  assoc n (h_names h) = Some i -> stale_write v_fixed i ents h = fst (write v_fixed n ents h).
Proof. intros E. unfold write, h_names in *. now rewrite E. Qed.

(** ** what a complete manager operation does to the registry *)
Lemma mop_effect m h : hfull h ->
  let h' := fst (run_mop v_fixed m h) in
  r_next (h_mem h) <= r_next (h_mem h') /\
  match m with
  | MCreate n => if has_name n (h_names h) then h_names h' = h_names h /\ h_del h' = h_del h
                 else h_names h' = h_names h ++ [(n, r_next (h_mem h))] /\ h_del h' = h_del h
  | MDelete n => if Z.eqb n core then h_names h' = h_names h /\ h_del h' = h_del h
                 else match assoc n (h_names h) with
                      | None => h_names h' = h_names h /\ h_del h' = h_del h
                      | Some j => h_names h' = remove_name n (h_names h) /\ h_del h' = h_del h ++ [j]
                      end
  | MRename o n => if Z.eqb o core || negb (has_name o (h_names h)) || Z.eqb n o || has_name n (h_names h)
                   then h_names h' = h_names h /\ h_del h' = h_del h
                   else h_names h' = relabel o n (h_names h) /\ h_del h' = h_del h
  end.
Proof.
  intros (H & O & M). destruct H as [Hs Hd]. destruct h as [st meta mem disk]. cbn in Hs. subst mem.
  unfold metaok in M. cbn [h_meta h_mem] in M. unfold run_mop, h_names, h_del.
  destruct m as [n|n|o n]; cbn [plan h_mem h_meta r_names v_fixed mkv v_del_atomic].
  - destruct (has_name n (r_names disk)); (cbn; split; [lia | split; reflexivity]).
  - destruct (Z.eqb n core); [cbn; split; [lia | split; reflexivity]|].
    destruct (assoc n (r_names disk)) as [j|] eqn:En; [|cbn; split; [lia | split; reflexivity]].
    assert (Hin : In n (map fst (r_names disk))) by (apply In_fst_assoc; congruence).
    pose proof (meta_some {| h_st := st; h_meta := meta; h_mem := disk; h_disk := disk |} n M Hin) as Ms. cbn [h_meta] in Ms.
    destruct (assoc n meta); [|contradiction]. cbn. split; [lia | split; reflexivity].
  - unfold has_name. destruct (Z.eqb o core); [cbn; split; [lia | split; reflexivity]|].
    destruct (assoc o (r_names disk)) as [j|] eqn:Eo; [|cbn; split; [lia | split; reflexivity]].
    destruct (Z.eqb n o); [cbn; split; [lia | split; reflexivity]|].
    destruct (assoc n (r_names disk)); [cbn; split; [lia | split; reflexivity]|].
    assert (Hin : In o (map fst (r_names disk))) by (apply In_fst_assoc; congruence).
    pose proof (meta_some {| h_st := st; h_meta := meta; h_mem := disk; h_disk := disk |} o M Hin) as Ms. cbn [h_meta] in Ms.
    destruct (assoc o meta); [|contradiction]. cbn. split; [lia | split; reflexivity].
Qed.


(** a spec state (with its dataset handles) that is consistent with everything observed along the history *)
Fixpoint wit (c : scand) (ops : list cop) : Prop :=
  let s := fst c in let hs := snd c in
  match ops with
  | [] => True
  | o :: ops' =>
    match o with
    | CWrite n ents oc => (if s_has n s then 0 else 1) = oc /\ wit (s_write wef wdm n ents s, hs) ops'
    | CMop m oc => s_outcome m s = oc /\ wit (s_mop m s, sh_mop m s hs) ops'
    | CGc before after => gc_census_ok before after = true /\ wit c ops'
    | CRestart => wit (s, []) ops'
    | CCrash m k => wit (s, []) ops' \/ wit (s_mop m s, []) ops'
    | CQuery q oa => answer_matches (sobs s q) oa = true /\ wit c ops'
    | CHttp meth seg to oc =>
      (if Z.eqb meth 1 && s_has (http_name seg) s then 1 else s_outcome (http_mop meth seg to) s) = oc
      /\ wit (s_mop (http_mop meth seg to) s, sh_mop (http_mop meth seg to) s hs) ops'
    | CHold slot n oc => (if s_has n s then 0 else 1) = oc
                         /\ wit (if s_has n s then (s, (slot, Some n) :: hs) else c) ops'
    | CStale slot ents oc => (match assoc slot hs with Some _ => 0 | None => 1 end) = oc
                             /\ wit (match assoc slot hs with Some hn => (s_stale hn ents s, hs) | None => c end) ops'
    | CKeep slot start pred inverse scope o =>
      exists l, o = Some l /\ subsetb (pcanon l) (rel_of (sobs s (QRelated start pred inverse scope))) = true /\ wit c ops'
    | CCont slot start pred inverse o =>
      exists l, o = Some l /\ subsetb (pcanon l) (rel_of (sobs s (QRelated start pred inverse []))) = true /\ wit c ops'
    end
  end.

Lemma spec_run_wit ops : forall cands c, In c cands -> wit c ops -> spec_run cands ops = true.
Proof.
  induction ops as [|o ops IH]; intros cands c Hin W.
  - destruct cands; [contradiction | reflexivity].
  - destruct cands as [|c0 cands']; [contradiction|]. cbn [spec_run].
    destruct o as [n ents oc | m oc | before after | | m k | q oa | slot n oc | slot ents oc
                   | slot start pred inverse scope o | slot start pred inverse o | meth seg to oc]; cbn [wit] in W.
    + destruct W as [W1 W2]. apply (IH _ (s_write wef wdm n ents (fst c), snd c)); [|exact W2].
      apply (in_map (fun c => (s_write wef wdm n ents (fst c), snd c))). apply filter_In. split; [exact Hin|]. now apply Z.eqb_eq.
    + destruct W as [W1 W2]. apply (IH _ (s_mop m (fst c), sh_mop m (fst c) (snd c))); [|exact W2].
      apply (in_map (fun c => (s_mop m (fst c), sh_mop m (fst c) (snd c)))). apply filter_In. split; [exact Hin|]. now apply Z.eqb_eq.
    + destruct W as [W1 W2]. rewrite W1. cbn. apply (IH _ c); assumption.
    + apply (IH _ (fst c, [])); [|exact W]. apply (in_map (fun c => (fst c, @nil (Z * option name)))). exact Hin.
    + destruct W as [W|W].
      * apply (IH _ (fst c, [])); [|exact W]. apply in_or_app. left.
        apply (in_map (fun c => (fst c, @nil (Z * option name)))). exact Hin.
      * apply (IH _ (s_mop m (fst c), [])); [|exact W]. apply in_or_app. right.
        apply (in_map (fun c => (s_mop m (fst c), @nil (Z * option name)))). exact Hin.
    + destruct W as [W1 W2]. apply (IH _ c); [|exact W2]. apply filter_In. auto.
    + destruct W as [W1 W2].
      apply (IH _ (if s_has n (fst c) then (fst c, (slot, Some n) :: snd c) else c)); [|exact W2].
      apply (in_map (fun c => if s_has n (fst c) then (fst c, (slot, Some n) :: snd c) else c)).
      apply filter_In. split; [exact Hin|]. now apply Z.eqb_eq.
    + destruct W as [W1 W2].
      apply (IH _ (match assoc slot (snd c) with Some hn => (s_stale hn ents (fst c), snd c) | None => c end)); [|exact W2].
      apply (in_map (fun c => match assoc slot (snd c) with Some hn => (s_stale hn ents (fst c), snd c) | None => c end)).
      apply filter_In. split; [exact Hin|]. now apply Z.eqb_eq.
    + destruct W as (l & -> & W1 & W2). apply (IH _ c); [|exact W2]. apply filter_In. auto.
    + destruct W as (l & -> & W1 & W2). apply (IH _ c); [|exact W2]. apply filter_In. auto.
    + destruct W as [W1 W2]. cbv zeta.
      apply (IH _ (s_mop (http_mop meth seg to) (fst c), sh_mop (http_mop meth seg to) (fst c) (snd c))); [|exact W2].
      apply (in_map (fun c => (s_mop (http_mop meth seg to) (fst c), sh_mop (http_mop meth seg to) (fst c) (snd c)))).
      apply filter_In. split; [exact Hin|]. now apply Z.eqb_eq.
Qed.

(** census *)
Lemma crow_eqb_eq a b : crow_eqb a b = true <-> a = b.
Proof.
  destruct a as [[a1 a2] a3], b as [[b1 b2] b3]. unfold crow_eqb. cbn.
  rewrite !andb_true_iff, !Z.eqb_eq. split; [intros [[-> ->] ->]; reflexivity | intros [= -> -> ->]; auto].
Qed.
Lemma existsb_crow r l : In r l -> existsb (crow_eqb r) l = true.
Proof. intros H. apply existsb_exists. exists r. split; [exact H | now apply crow_eqb_eq]. Qed.

Lemma gc_census_ok_gc del before : gc_census_ok before (gc_census del before) = true.
Proof.
  unfold gc_census_ok, rows_sub, gc_census. apply andb_true_iff. split.
  - apply forallb_forall. intros r Hr. apply filter_In in Hr. apply existsb_crow. tauto.
  - apply forallb_forall. intros r Hr.
    destruct (is_data_fam (fst (fst r))) eqn:Ef; [|reflexivity]. cbn [negb orb].
    destruct (zmem (snd (fst r)) del) eqn:Ez.
    + apply orb_true_iff. right. apply negb_true_iff.
      destruct (existsb _ _) eqn:Ex; [|reflexivity]. apply existsb_exists in Ex.
      destruct Ex as (r' & Hr' & C). apply filter_In in Hr'. destruct Hr' as [_ Hk].
      apply andb_true_iff in C. destruct C as [C1 C2]. apply Z.eqb_eq in C2. rewrite C1, C2, Ez in Hk. discriminate.
    + apply orb_true_iff. left. apply existsb_crow. apply filter_In. split; [exact Hr|]. now rewrite Ef, Ez.
Qed.

Lemma outcome_mop m h : hfull h -> outcome_code (snd (run_mop v_fixed m h)) = s_outcome m (habs h).
Proof.
  intros F. pose proof F as (H & O & M).
  assert (SH : forall n, s_has n (habs h) = has_name n (h_names h)) by (intros; now apply s_has_abs).
  unfold run_mop. destruct m as [n|n|o n]; cbn [plan s_outcome].
  - destruct (has_name n (r_names (h_mem h))); reflexivity.
  - destruct (Z.eqb_spec n core); [reflexivity|]. cbn [orb]. rewrite (SH n). unfold has_name, h_names.
    destruct (assoc n (r_names (h_mem h))) as [i|] eqn:En; [|reflexivity]. cbn [negb].
    assert (Hin : In n (map fst (r_names (h_mem h)))) by (apply In_fst_assoc; congruence).
    pose proof (meta_some h n M Hin) as Ms. destruct (assoc n (h_meta h)); [reflexivity | contradiction].
  - destruct (Z.eqb_spec o core); [reflexivity|]. cbn [orb]. rewrite (SH o), (SH n). unfold has_name, h_names.
    destruct (assoc o (r_names (h_mem h))) as [i|] eqn:Eo; [|reflexivity]. cbn [negb].
    destruct (Z.eqb n o); [reflexivity|].
    destruct (assoc n (r_names (h_mem h))) eqn:En; [reflexivity|].
    assert (Hin : In o (map fst (r_names (h_mem h)))) by (apply In_fst_assoc; congruence).
    pose proof (meta_some h o M Hin) as Ms. destruct (assoc o (h_meta h)); [reflexivity | contradiction].
Qed.

(** ** dataset handles: the model's (slot -> dataset id) against the spec's (slot -> dataset, dead once deleted) *)
Definition slots_ok (h : hub) (a : aux) (hs : shandles) : Prop :=
  forall slot,
    match assoc slot (a_slots a) with
    | None => assoc slot hs = None
    | Some i => 0 < i < r_next (h_mem h)
                /\ ((zmem i (h_del h) = true /\ assoc slot hs = Some None)
                    \/ (zmem i (h_del h) = false /\ exists n, rassoc i (h_names h) = Some n /\ assoc slot hs = Some (Some n)))
    end.

Lemma slots_ok_same h h' a hs :
  h_mem h' = h_mem h -> slots_ok h a hs -> slots_ok h' a hs.
Proof. intros E S slot. specialize (S slot). unfold h_del, h_names in *. now rewrite E. Qed.
Lemma slots_ok_nil h a : slots_ok h (drop_slots a) [].
Proof. intros slot. reflexivity. Qed.

Lemma assoc_map_snd {V W} (f : Z * V -> Z * W) (g : V -> W) slot (l : list (Z * V)) :
  (forall p, f p = (fst p, g (snd p))) -> assoc slot (map f l) = option_map g (assoc slot l).
Proof.
  intros Hf. induction l as [|[k v] l IH]; cbn; [reflexivity|]. rewrite Hf. cbn.
  destruct (Z.eqb slot k); [reflexivity | exact IH].
Qed.

Lemma slots_mop m h a hs : hfull h -> slots_ok h a hs ->
  slots_ok (fst (run_mop v_fixed m h)) a (sh_mop m (habs h) hs).
Proof.
  intros F S. pose proof F as (H & O & M). pose proof H as [Hs Hd]. unfold dinvh in Hd. rewrite <- Hs in Hd.
  pose proof Hd as Hd0. inv_rinv Hd0.
  pose proof (mop_effect m h F) as [Hnx E]. cbv zeta in Hnx, E.
  assert (SH : forall n, s_has n (habs h) = has_name n (h_names h)) by (intros; now apply s_has_abs).
  set (h' := fst (run_mop v_fixed m h)) in *.
  destruct m as [n|n|o n]; cbn [sh_mop s_outcome].
  - (* create *)
    intros slot. specialize (S slot). destruct (assoc slot (a_slots a)) as [i|]; [|exact S]. destruct S as [Hb S]. split; [lia|].
    destruct (has_name n (h_names h)) eqn:En; destruct E as [E1 E2]; rewrite E2, E1; [exact S|].
    destruct S as [S|(Z1 & x & R & A)]; [left; exact S | right; split; [exact Z1|]]. exists x. split; [|exact A].
    rewrite rassoc_app_other; [exact R | lia].
  - (* delete *)
    destruct (Z.eqb_spec n core) as [Ec|Ec].
    { cbn [orb Z.eqb]. destruct E as [E1 E2]. intros slot. specialize (S slot).
      destruct (assoc slot (a_slots a)) as [i|]; [|exact S]. destruct S as [Hb S]. split; [lia|]. now rewrite E1, E2. }
    cbn [orb]. rewrite (SH n). unfold has_name. destruct (assoc n (h_names h)) as [j|] eqn:En; cbn [negb Z.eqb].
    2:{ destruct E as [E1 E2]. intros slot. specialize (S slot).
        destruct (assoc slot (a_slots a)) as [i|]; [|exact S]. destruct S as [Hb S]. split; [lia|]. now rewrite E1, E2. }
    destruct E as [E1 E2]. pose proof (assoc_rassoc _ _ _ Hids En) as Rj.
    intros slot. specialize (S slot).
    rewrite (assoc_map_snd _ (fun v : option name => match v with Some x => if Z.eqb x n then None else Some x | None => None end))
      by (intros [k [x|]]; cbn; [destruct (Z.eqb x n)|]; reflexivity).
    destruct (assoc slot (a_slots a)) as [i|]; [|now rewrite S]. destruct S as [Hb S]. split; [lia|]. rewrite E2, zmem_app.
    destruct S as [(Z1 & A)|(Z1 & x & R & A)].
    + left. rewrite Z1, A. auto.
    + rewrite A. cbn [option_map]. destruct (Z.eqb_spec i j).
      * subst i. left. cbn. rewrite Z.eqb_refl, orb_true_r. split; [reflexivity|].
        assert (x = n) by (unfold h_names in *; congruence). subst x. now rewrite Z.eqb_refl.
      * right. assert (Hx : x <> n). { intros ->. apply (rassoc_assoc _ _ _ Hnames) in R. unfold h_names in *. congruence. }
        split.
        -- rewrite Z1. cbn. destruct (Z.eqb_spec i j); [contradiction | reflexivity].
        -- exists x. split; [rewrite E1; now apply rassoc_remove_other|]. destruct (Z.eqb_spec x n); [contradiction | reflexivity].
  - (* rename *)
    rewrite (SH o), (SH n).
    assert (Unch : h_names h' = h_names h /\ h_del h' = h_del h -> slots_ok h' a hs).
    { intros [E1 E2] slot. specialize (S slot). destruct (assoc slot (a_slots a)) as [i|]; [|exact S].
      destruct S as [Hb S]. split; [lia|]. rewrite E1, E2. exact S. }
    destruct (Z.eqb o core) eqn:B1; cbn [orb negb] in *; [cbn [Z.eqb]; now apply Unch|].
    destruct (has_name o (h_names h)) eqn:B2; cbn [orb negb] in *; [|cbn [Z.eqb]; now apply Unch].
    destruct (Z.eqb_spec n o) as [B3|B3]; cbn [orb] in *.
    + (* rename to itself: outcome 0, the relabelling is the identity *)
      subst n. cbn [Z.eqb]. intros slot. specialize (S slot). destruct E as [E1 E2].
      rewrite (assoc_map_snd _ (fun v : option name => match v with Some x => if Z.eqb x o then Some o else Some x | None => None end))
        by (intros [k [x|]]; cbn; [destruct (Z.eqb x o)|]; reflexivity).
      assert (Hid : option_map (fun v : option name => match v with Some x => if Z.eqb x o then Some o else Some x | None => None end) (assoc slot hs) = assoc slot hs).
      { destruct (assoc slot hs) as [[x|]|]; cbn; try reflexivity. destruct (Z.eqb_spec x o); [subst|]; reflexivity. }
      rewrite Hid. destruct (assoc slot (a_slots a)) as [i|]; [|exact S]. destruct S as [Hb S]. split; [lia|]. now rewrite E1, E2.
    + destruct (has_name n (h_names h)) eqn:B4; [cbn [Z.eqb]; now apply Unch|].
      destruct E as [E1 E2]. cbn [Z.eqb].
      intros slot. specialize (S slot).
      rewrite (assoc_map_snd _ (fun v : option name => match v with Some x => if Z.eqb x o then Some n else Some x | None => None end))
        by (intros [k [x|]]; cbn; [destruct (Z.eqb x o)|]; reflexivity).
      destruct (assoc slot (a_slots a)) as [i|]; [|now rewrite S]. destruct S as [Hb S]. split; [lia|]. rewrite E2.
      destruct S as [(Z1 & A)|(Z1 & x & R & A)].
      * left. rewrite A. auto.
      * right. split; [exact Z1|]. rewrite A. cbn [option_map]. rewrite E1, rassoc_relabel, R. cbn.
        destruct (Z.eqb x o); eexists; split; reflexivity.
Qed.

Lemma write_mem v n ents h : h_mem (fst (write v n ents h)) = h_mem h.
Proof. unfold write. destruct (assoc n (r_names (h_mem h))); reflexivity. Qed.

Lemma agree_wit ops : forall h a hs, hfull h -> slots_ok h a hs -> agree_run v_fixed h a ops = true -> wit (habs h, hs) ops.
Proof.
  induction ops as [|o ops IH]; intros h a hs F S A; [exact I|].
  destruct o as [n ents oc | m oc | before after | | m k | q oa | slot n oc | slot ents oc
                 | slot start pred inverse scope o | slot start pred inverse o | meth seg to oc]; cbn [agree_run wit fst snd] in *.
  - pose proof (sim_step h (OWrite n ents) F) as [F' E]. cbn [step] in F', E.
    pose proof (write_mem v_fixed n ents h) as Wm.
    destruct (write v_fixed n ents h) as [h' r] eqn:W. cbn [fst] in *. apply andb_true_iff in A. destruct A as [A1 A2].
    apply Z.eqb_eq in A1. split.
    + rewrite <- A1. unfold write in W. rewrite (s_has_abs h n (proj1 F)). unfold has_name, h_names.
      destruct (assoc n (r_names (h_mem h))); inversion W; reflexivity.
    + unfold wef, wdm. rewrite <- E. apply (IH h' a hs F'); [|exact A2]. now apply (slots_ok_same h).
  - pose proof (sim_step h (OMop m) F) as [F' E]. cbn [step] in F', E.
    pose proof (outcome_mop m h F) as OC. pose proof (slots_mop m h a hs F S) as S'.
    destruct (run_mop v_fixed m h) as [h' r] eqn:W. cbn [fst snd] in *. apply andb_true_iff in A. destruct A as [A1 A2].
    apply Z.eqb_eq in A1. split; [congruence|]. rewrite <- E. now apply (IH h' a).
  - apply andb_true_iff in A. destruct A as [A A3]. apply andb_true_iff in A. destruct A as [A1 A2].
    pose proof (sim_step h OGc F) as [F' E]. cbn [step] in F', E. split.
    + apply (list_eqb_eq crow_eqb crow_eqb_eq) in A2. rewrite <- A2. apply gc_census_ok_gc.
    + rewrite <- E. apply (IH (gc h) a hs F'); [|exact A3]. now apply (slots_ok_same h).
  - pose proof (sim_step h ORestart F) as [F' E]. cbn [step] in F', E. rewrite <- E.
    apply (IH _ (drop_slots a) [] F'); [apply slots_ok_nil | exact A].
  - pose proof (sim_step h (OCrash m k) F) as [F' E]. cbn [step] in F', E.
    destruct E as [E|E]; [left | right]; rewrite <- E; (apply (IH _ (drop_slots a) [] F'); [apply slots_ok_nil | exact A]).
  - apply andb_true_iff in A. destruct A as [A1 A2]. split; [|now apply (IH h a)].
    now rewrite <- (obs_abs h q F).
  - (* hold *)
    rewrite (s_has_abs h n (proj1 F)). unfold has_name.
    destruct (assoc n (h_names h)) as [i|] eqn:En; apply andb_true_iff in A; destruct A as [A1 A2]; apply Z.eqb_eq in A1.
    + cbn beta iota. split; [congruence|]. apply (IH h {| a_slots := (slot, i) :: a_slots a; a_conts := a_conts a |} ((slot, Some n) :: hs) F); [|exact A2].
      pose proof F as ([Hs Hd] & _ & _). unfold dinvh in Hd. rewrite <- Hs in Hd. pose proof Hd as Hd0. inv_rinv Hd0.
      destruct (names_id_of _ _ _ _ Hd En) as (Hb & L & _).
      intros slot'. cbn [a_slots assoc]. specialize (S slot'). destruct (Z.eqb_spec slot' slot).
      * split; [exact Hb|]. right. split; [exact L|]. exists n. split; [now apply assoc_rassoc | reflexivity].
      * exact S.
    + cbn beta iota. split; [congruence|]. now apply (IH h a).
  - (* a write through a handle *)
    pose proof (S slot) as Ss. destruct (assoc slot (a_slots a)) as [i|] eqn:Ea;
      apply andb_true_iff in A; destruct A as [A1 A2]; apply Z.eqb_eq in A1.
    + destruct Ss as [Hb [(Z1 & Ah)|(Z1 & x & R & Ah)]]; rewrite Ah; (split; [congruence|]).
      * destruct (stale_deleted_full h i ents F Z1 Hb) as [F' E]. cbn [s_stale]. rewrite <- E.
        apply (IH _ a hs F'); [|exact A2]. now apply (slots_ok_same h).
      * pose proof F as ([Hs Hd] & _ & _). unfold dinvh in Hd. rewrite <- Hs in Hd. pose proof Hd as Hd0. inv_rinv Hd0.
        assert (Ax : assoc x (h_names h) = Some i) by now apply rassoc_assoc.
        rewrite (stale_live_is_write h i x ents Ax) in A2.
        pose proof (sim_step h (OWrite x ents) F) as [F' E]. cbn [step] in F', E.
        cbn [s_stale]. rewrite (s_has_abs h x (proj1 F)). unfold has_name. rewrite Ax. unfold wef, wdm. rewrite <- E.
        apply (IH _ a hs F'); [|exact A2]. apply (slots_ok_same h); [apply write_mem | exact S].
    + rewrite Ss. split; [congruence|]. now apply (IH h a).
  - (* first page of a paged query *)
    destruct o as [l|]; [|discriminate]. apply andb_true_iff in A. destruct A as [A1 A2].
    exists l. split; [reflexivity|]. split.
    + rewrite <- (obs_abs h _ F), <- rel_ids_obs. exact A1.
    + apply (IH h {| a_slots := a_slots a; a_conts := (slot, scope_ids (h_names h) scope) :: a_conts a |} hs F); [exact S | exact A2].
  - (* the remaining pages, later *)
    destruct o as [l|]; [|destruct (assoc slot (a_conts a)); discriminate].
    exists l. split; [reflexivity|].
    assert (U : rel_ids h [] start pred inverse = rel_of (sobs (habs h) (QRelated start pred inverse []))).
    { rewrite <- (obs_abs h _ F). reflexivity. }
    destruct (assoc slot (a_conts a)) as [sc|].
    + apply andb_true_iff in A. destruct A as [A1 A2]. split; [|now apply (IH h a)].
      rewrite <- U. apply (subsetb_mono _ _ _ A1). intros x. apply rel_ids_unscoped.
    + destruct l; [|discriminate]. split; [reflexivity | now apply (IH h a)].
  - (* dataset management over HTTP *)
    set (m := http_mop meth seg to) in *.
    pose proof (sim_step h (OMop m) F) as [F' E]. cbn [step] in F', E.
    pose proof (outcome_mop m h F) as OC. pose proof (slots_mop m h a hs F S) as S'.
    destruct (run_mop v_fixed m h) as [h' r] eqn:W. cbn [fst snd] in *. apply andb_true_iff in A. destruct A as [A1 A2].
    apply Z.eqb_eq in A1. split.
    + rewrite (s_has_abs h _ (proj1 F)), <- OC. exact A1.
    + rewrite <- E. now apply (IH h' a).
Qed.

Lemma habs0 : habs hub0 = sstate0.
Proof. reflexivity. Qed.

(** agreement of the implementation's observations with the repaired model implies that the executable spec
    accepts them: some run of the spec (named datasets; delete drops, rename relabels, create appends an empty
    dataset, collection and restart do nothing, a crash leaves the state before or after the operation, a write
    through the handle of a deleted dataset is never seen, a continued query returns nothing of a deleted dataset)
    explains every observed outcome and answer *)
Theorem C07_agree_implies_spec_thm c : agree v_fixed c = true -> spec_ok c = true.
Proof.
  intros A. unfold spec_ok. apply (spec_run_wit c [(sstate0, [])] (sstate0, [])); [now left|].
  rewrite <- habs0. apply (agree_wit c hub0 aux0 []); [exact hfull0 | intros slot; reflexivity | exact A].
Qed.
