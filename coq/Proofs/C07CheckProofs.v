(** agreement with the repaired model implies the spec on the implementation's observations *)
From Coq Require Import List ZArith NArith Bool Lia.
From DH Require Import Lib.CheckLib Model.Store Proofs.StoreProofs Model.FeedSpec Model.DsManager Model.Gc
     Proofs.DsManagerProofs Proofs.DsRefine Check.C07Check.
Import ListNotations.
Open Scope Z_scope.

(** a spec state that is consistent with everything observed along the history *)
Fixpoint wit (s : sstate) (ops : list cop) : Prop :=
  match ops with
  | [] => True
  | o :: ops' =>
    match o with
    | CWrite n ents oc => (if s_has n s then 0 else 1) = oc /\ wit (s_write wef wdm n ents s) ops'
    | CMop m oc => s_outcome m s = oc /\ wit (s_mop m s) ops'
    | CGc before after => gc_census_ok before after = true /\ wit s ops'
    | CRestart => wit s ops'
    | CCrash m k => wit s ops' \/ wit (s_mop m s) ops'
    | CQuery q oa => answer_matches (sobs s q) oa = true /\ wit s ops'
    end
  end.

Lemma spec_run_wit ops : forall cands s, In s cands -> wit s ops -> spec_run cands ops = true.
Proof.
  induction ops as [|o ops IH]; intros cands s Hin W.
  - destruct cands; [contradiction | reflexivity].
  - destruct cands as [|c0 cands']; [contradiction|]. cbn [spec_run].
    destruct o as [n ents oc | m oc | before after | | m k | q oa]; cbn [wit] in W.
    + destruct W as [W1 W2]. apply (IH _ (s_write wef wdm n ents s)); [|exact W2].
      apply in_map. apply filter_In. split; [exact Hin|]. now apply Z.eqb_eq.
    + destruct W as [W1 W2]. apply (IH _ (s_mop m s)); [|exact W2].
      apply in_map. apply filter_In. split; [exact Hin|]. now apply Z.eqb_eq.
    + destruct W as [W1 W2]. rewrite W1. cbn. apply (IH _ s); assumption.
    + apply (IH _ s); assumption.
    + destruct W as [W|W].
      * apply (IH _ s); [apply in_or_app; now left | exact W].
      * apply (IH _ (s_mop m s)); [apply in_or_app; right; now apply in_map | exact W].
    + destruct W as [W1 W2]. apply (IH _ s); [|exact W2]. apply filter_In. auto.
Qed.

(** census *)
Lemma crow_eqb_eq a b : crow_eqb a b = true <-> a = b.
Proof.
  destruct a as [[a1 a2] a3], b as [[b1 b2] b3]. unfold crow_eqb. cbn.
  rewrite !andb_true_iff, !Z.eqb_eq. split; [intros [[-> ->] ->]; reflexivity | intros [= -> -> ->]; auto].
Qed.
Lemma existsb_crow r l : In r l -> existsb (crow_eqb r) l = true.
Proof. intros H. apply existsb_exists. exists r. split; [exact H | now apply crow_eqb_eq]. Qed.

Lemma gc_census_ok_gc del before : gc_census_ok before (gc_census del before) = true.
Proof.
  unfold gc_census_ok, rows_sub, gc_census. apply andb_true_iff. split.
  - apply forallb_forall. intros r Hr. apply filter_In in Hr. apply existsb_crow. tauto.
  - apply forallb_forall. intros r Hr.
    destruct (is_data_fam (fst (fst r))) eqn:Ef; [|reflexivity]. cbn [negb orb].
    destruct (zmem (snd (fst r)) del) eqn:Ez.
    + (* removed: nothing of that dataset id is left in the data families *)
      apply orb_true_iff. right. apply negb_true_iff.
      destruct (existsb _ _) eqn:Ex; [|reflexivity]. apply existsb_exists in Ex.
      destruct Ex as (r' & Hr' & C). apply filter_In in Hr'. destruct Hr' as [_ Hk].
      apply andb_true_iff in C. destruct C as [C1 C2]. apply Z.eqb_eq in C2. rewrite C1, C2, Ez in Hk. discriminate.
    + apply orb_true_iff. left. apply existsb_crow. apply filter_In. split; [exact Hr|]. now rewrite Ef, Ez.
Qed.

Lemma outcome_mop m h : hfull h -> outcome_code (snd (run_mop v_fixed m h)) = s_outcome m (habs h).
Proof.
  intros F. pose proof F as (H & O & M).
  assert (SH : forall n, s_has n (habs h) = has_name n (h_names h)) by (intros; now apply s_has_abs).
  unfold run_mop. destruct m as [n|n|o n]; cbn [plan s_outcome].
  - destruct (has_name n (r_names (h_mem h))); reflexivity.
  - destruct (Z.eqb_spec n core); [reflexivity|]. cbn [orb]. rewrite (SH n). unfold has_name, h_names.
    destruct (assoc n (r_names (h_mem h))) as [i|] eqn:En; [|reflexivity]. cbn [negb].
    assert (Hin : In n (map fst (r_names (h_mem h)))) by (apply In_fst_assoc; congruence).
    pose proof (meta_some h n M Hin) as Ms. destruct (assoc n (h_meta h)); [reflexivity | contradiction].
  - destruct (Z.eqb_spec o core); [reflexivity|]. cbn [orb]. rewrite (SH o), (SH n). unfold has_name, h_names.
    destruct (assoc o (r_names (h_mem h))) as [i|] eqn:Eo; [|reflexivity]. cbn [negb].
    destruct (Z.eqb n o); [reflexivity|].
    destruct (assoc n (r_names (h_mem h))) eqn:En; [reflexivity|].
    assert (Hin : In o (map fst (r_names (h_mem h)))) by (apply In_fst_assoc; congruence).
    pose proof (meta_some h o M Hin) as Ms. destruct (assoc o (h_meta h)); [reflexivity | contradiction].
Qed.

Lemma agree_wit ops : forall h, hfull h -> agree_run v_fixed h ops = true -> wit (habs h) ops.
Proof.
  induction ops as [|o ops IH]; intros h F A; [exact I|].
  destruct o as [n ents oc | m oc | before after | | m k | q oa]; cbn [agree_run wit] in *.
  - pose proof (sim_step h (OWrite n ents) F) as [F' E]. cbn [step] in F', E.
    destruct (write v_fixed n ents h) as [h' r] eqn:W. cbn [fst] in *. apply andb_true_iff in A. destruct A as [A1 A2].
    apply Z.eqb_eq in A1. split.
    + rewrite <- A1. unfold write in W. rewrite (s_has_abs h n (proj1 F)). unfold has_name, h_names.
      destruct (assoc n (r_names (h_mem h))); inversion W; reflexivity.
    + unfold wef, wdm. rewrite <- E. now apply IH.
  - pose proof (sim_step h (OMop m) F) as [F' E]. cbn [step] in F', E.
    pose proof (outcome_mop m h F) as OC.
    destruct (run_mop v_fixed m h) as [h' r] eqn:W. cbn [fst snd] in *. apply andb_true_iff in A. destruct A as [A1 A2].
    apply Z.eqb_eq in A1. split; [congruence|]. rewrite <- E. now apply IH.
  - apply andb_true_iff in A. destruct A as [A A3]. apply andb_true_iff in A. destruct A as [A1 A2].
    pose proof (sim_step h OGc F) as [F' E]. cbn [step] in F', E. split.
    + apply (list_eqb_eq crow_eqb crow_eqb_eq) in A2. rewrite <- A2. apply gc_census_ok_gc.
    + rewrite <- E. now apply IH.
  - pose proof (sim_step h ORestart F) as [F' E]. cbn [step] in F', E. rewrite <- E. now apply IH.
  - pose proof (sim_step h (OCrash m k) F) as [F' E]. cbn [step] in F', E.
    destruct E as [E|E]; [left | right]; rewrite <- E; now apply IH.
  - apply andb_true_iff in A. destruct A as [A1 A2]. split; [|now apply IH].
    now rewrite <- (obs_abs h q F).
Qed.

Lemma habs0 : habs hub0 = sstate0.
Proof. reflexivity. Qed.

(** agreement of the implementation's observations with the repaired model implies that the executable spec
    accepts them: some run of the spec (named datasets; delete drops, rename relabels, create appends an empty
    dataset, collection and restart do nothing, a crash leaves the state before or after the operation) explains
    every observed outcome and answer *)
Theorem C07_agree_implies_spec_thm c : agree v_fixed c = true -> spec_ok c = true.
Proof.
  intros A. unfold spec_ok. apply (spec_run_wit c [sstate0] sstate0); [now left|].
  rewrite <- habs0. apply agree_wit; [exact hfull0 | exact A].
Qed.
