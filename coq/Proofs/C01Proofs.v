(** C01: listings and lookups of Model/Store.v return the last version written. *)
From Coq Require Import List ZArith Bool Lia.
From DH Require Import Model.Store Model.FeedSpec Proofs.StoreProofs.
Import ListNotations.
Open Scope Z_scope.

(** ** lookup: the (time,bidx)-greatest version not newer than [at] is the last entry when at >= every time *)
Lemma best_version_last id at_ E : forall best,
  ksorted E -> Forall (fun e => en_time e <= at_) E ->
  (forall b, best = Some b -> Forall (klt b) E) ->
  best_version id at_ E best =
  match last_entry E id with Some e => Some e | None => best end.
Proof.
  induction E as [|x E IH]; intros best Hs Ht Hb; cbn [best_version last_entry]; [reflexivity|].
  destruct Hs as [Hx Hs]. apply Forall_cons_iff in Ht. destruct Ht as [Htx HtE].
  destruct (Z.eqb_spec (en_id x) id) as [Hid|Hid].
  - replace (en_time x <=? at_) with true by (symmetry; apply Z.leb_le; lia). cbn [andb].
    assert (Hnew : best_version id at_ E (Some x) = match last_entry E id with Some e => Some e | None => Some x end).
    { apply IH; try assumption. intros b [= <-]. exact Hx. }
    destruct best as [b|].
    + specialize (Hb b eq_refl). apply Forall_cons_iff in Hb. destruct Hb as [Hbx HbE].
      replace ((en_time b <? en_time x) || (Z.eqb (en_time b) (en_time x) && (en_bidx b <? en_bidx x))) with true.
      2:{ symmetry. unfold klt in Hbx. destruct Hbx as [H|[H1 H2]].
          - apply orb_true_iff. left. apply Z.ltb_lt. exact H.
          - apply orb_true_iff. right. apply andb_true_iff. split; [apply Z.eqb_eq | apply Z.ltb_lt]; assumption. }
      rewrite Hnew. destruct (last_entry E id); reflexivity.
    + rewrite Hnew. destruct (last_entry E id); reflexivity.
  - cbn [andb]. rewrite IH; try assumption.
    + destruct (last_entry E id); reflexivity.
    + intros b Hbb. specialize (Hb b Hbb). apply Forall_cons_iff in Hb. tauto.
Qed.

Theorem best_version_current clk d id at_ :
  dinv clk d -> clk <= at_ ->
  option_map en_c (best_version id at_ (d_entries d) None) = current_of (feed_of d) id.
Proof.
  intros Hd Hat. unfold feed_of. fold (efeed (d_entries d)). rewrite current_of_last_entry.
  rewrite best_version_last.
  - destruct (last_entry (d_entries d) id); reflexivity.
  - exact (dinv_sorted _ _ Hd).
  - eapply Forall_impl; [|exact (dinv_times _ _ Hd)]. cbv beta. intros; lia.
  - intros b [=].
Qed.

(** [entity_at] as a comprehension over the datasets, in dataset order *)
Definition spec_partials (st : store) (id : uri) (scope : list Z) : list (Z * content) :=
  flat_map (fun (p : Z * dstate) =>
              if in_scope scope (fst p) then
                match current_of (feed_of (snd p)) id with
                | Some c => if c_del c then [] else [(fst p, c)]
                | None => []
                end
              else []) (s_ds st).
Definition spec_hasdel (st : store) (id : uri) (scope : list Z) : bool :=
  existsb (fun (p : Z * dstate) =>
             in_scope scope (fst p) &&
             match current_of (feed_of (snd p)) id with Some c => c_del c | None => false end) (s_ds st).

Lemma entity_at_fold id at_ scope (l : list (Z * dstate)) clk :
  (forall p, In p l -> dinv clk (snd p)) -> clk <= at_ ->
  forall acc,
  fold_left (fun (acc : list (Z * content) * bool) (p : Z * dstate) =>
               if in_scope scope (fst p) then
                 match best_version id at_ (d_entries (snd p)) None with
                 | None => acc
                 | Some e => if c_del (en_c e) then (fst acc, true) else (fst acc ++ [(fst p, en_c e)], snd acc)
                 end
               else acc) l acc
  = (fst acc ++ flat_map (fun (p : Z * dstate) =>
              if in_scope scope (fst p) then
                match current_of (feed_of (snd p)) id with
                | Some c => if c_del c then [] else [(fst p, c)]
                | None => []
                end
              else []) l,
     snd acc || existsb (fun (p : Z * dstate) =>
             in_scope scope (fst p) &&
             match current_of (feed_of (snd p)) id with Some c => c_del c | None => false end) l).
Proof.
  intros Hinv Hat. induction l as [|p l IH]; intros [parts hd]; cbn [fold_left flat_map existsb fst snd].
  - now rewrite app_nil_r, orb_false_r.
  - assert (Hp : dinv clk (snd p)) by (apply Hinv; now left).
    pose proof (best_version_current clk (snd p) id at_ Hp Hat) as Hb.
    rewrite IH by (intros q Hq; apply Hinv; now right).
    destruct (in_scope scope (fst p)); cbn [andb].
    + destruct (best_version id at_ (d_entries (snd p)) None) as [e|]; cbn [option_map] in Hb; rewrite <- Hb.
      * destruct (c_del (en_c e)); cbn [fst snd app].
        -- now rewrite orb_true_l, orb_true_r.
        -- now rewrite <- app_assoc.
      * reflexivity.
    + reflexivity.
Qed.

Lemma get_ds_in st p : In p (s_ds st) -> NoDup (map fst (s_ds st)) -> get_ds st (fst p) = snd p.
Proof.
  unfold get_ds. destruct p as [k d]. cbn [fst snd].
  induction (s_ds st) as [|[k' d'] l IH]; intros Hin Hnd; [destruct Hin|].
  cbn [map fst] in Hnd. inversion Hnd as [|? ? Hk Hnd']; subst.
  cbn [assoc]. destruct Hin as [[= -> ->]|Hin].
  - now rewrite Z.eqb_refl.
  - destruct (Z.eqb_spec k k') as [->|_].
    + exfalso. apply Hk. apply in_map_iff. exists (k', d). split; [reflexivity | exact Hin].
    + apply IH; assumption.
Qed.

(** C01, lookup: for every reachable store (invariant) and every instant not before the last commit,
    the lookup returns exactly the latest non-deleted version per in-scope dataset, in dataset order,
    and reports "deleted" iff some in-scope dataset's latest version is deleted *)
Theorem entity_at_spec st id at_ scope :
  sinv st -> NoDup (map fst (s_ds st)) -> s_clock st <= at_ ->
  entity_at st id at_ scope = (spec_partials st id scope, spec_hasdel st id scope).
Proof.
  intros Hinv Hnd Hat. unfold entity_at.
  rewrite (entity_at_fold id at_ scope (s_ds st) (s_clock st)); [reflexivity | | exact Hat].
  intros p Hp. rewrite <- (get_ds_in st p Hp Hnd). apply Hinv.
Qed.

(** ** listing *)
Lemma insert_sorted_In k x l : In x (insert_sorted k l) <-> x = k \/ In x l.
Proof.
  induction l as [|y l IH]; cbn [insert_sorted In]; [intuition|].
  destruct (k <? y); cbn [In]; [intuition|].
  destruct (Z.eqb_spec k y) as [->|Hne]; cbn [In]; [intuition | rewrite IH; intuition].
Qed.

Fixpoint strictly_sorted (l : list Z) : Prop :=
  match l with
  | [] => True
  | x :: l' => Forall (fun y => x < y) l' /\ strictly_sorted l'
  end.

Lemma insert_sorted_sorted k l : strictly_sorted l -> strictly_sorted (insert_sorted k l).
Proof.
  induction l as [|y l IH]; cbn [insert_sorted strictly_sorted]; intros H.
  - split; [constructor | exact I].
  - destruct H as [Hy Hs]. destruct (Z.ltb_spec k y) as [Hlt|Hge].
    + cbn [strictly_sorted]. split; [|split; assumption].
      constructor; [exact Hlt|]. eapply Forall_impl; [|exact Hy]. cbv beta. intros; lia.
    + destruct (Z.eqb_spec k y) as [->|Hne]; cbn [strictly_sorted]; [split; assumption|].
      split; [|apply IH; exact Hs].
      apply Forall_forall. intros x Hx. apply insert_sorted_In in Hx. destruct Hx as [->|Hx]; [lia|].
      rewrite Forall_forall in Hy. now apply Hy.
Qed.

Lemma strictly_sorted_NoDup l : strictly_sorted l -> NoDup l.
Proof.
  induction l as [|x l IH]; cbn [strictly_sorted]; intros H; constructor.
  - destruct H as [Hx _]. intros Hin. rewrite Forall_forall in Hx. specialize (Hx x Hin). lia.
  - apply IH. tauto.
Qed.

Lemma latest_keys_sorted d : strictly_sorted (latest_keys d).
Proof.
  unfold latest_keys. induction (map fst (d_latest d)) as [|k l IH]; cbn [fold_right]; [exact I|].
  now apply insert_sorted_sorted.
Qed.

Lemma latest_keys_In d k : In k (latest_keys d) <-> In k (map fst (d_latest d)).
Proof.
  unfold latest_keys. induction (map fst (d_latest d)) as [|x l IH]; cbn [fold_right In]; [tauto|].
  rewrite insert_sorted_In, IH. intuition.
Qed.

Lemma assoc_In_fst {V} k (l : list (Z * V)) : In k (map fst l) <-> assoc k l <> None.
Proof.
  induction l as [|[k' v] l IH]; cbn [map fst In assoc]; [intuition|].
  destruct (Z.eqb_spec k k') as [->|Hne]; [intuition discriminate|].
  rewrite <- IH. intuition.
Qed.

Lemma take_page_all l : forall taken, 0 <= taken -> take_page 0 taken l = l.
Proof.
  induction l as [|x l IH]; intros taken Ht; cbn [take_page]; [reflexivity|].
  replace (Z.eqb (taken + 1) 0) with false by (symmetry; apply Z.eqb_neq; lia).
  now rewrite IH by lia.
Qed.

(** C01, listing: the unpaged listing contains exactly the entities that have a version, each once,
    each with the content of its last version *)
Theorem listing_spec clk d :
  dinv clk d ->
  let l := listing_page d None 0 in
  NoDup (map fst l)
  /\ (forall k oc, In (k, oc) l -> oc = current_of (feed_of d) k /\ oc <> None)
  /\ (forall k c, current_of (feed_of d) k = Some c -> In (k, Some c) l).
Proof.
  intros Hd. unfold listing_page. rewrite take_page_all by lia.
  split; [|split].
  - rewrite map_map. cbn [fst]. rewrite map_id. apply strictly_sorted_NoDup, latest_keys_sorted.
  - intros k oc Hin. apply in_map_iff in Hin. destruct Hin as (k' & [= <- <-] & Hk).
    split; [apply (dinv_latest _ _ Hd)|].
    apply latest_keys_In, assoc_In_fst in Hk.
    rewrite (dinv_latest _ _ Hd). unfold feed_of. fold (efeed (d_entries d)).
    rewrite current_of_last_entry. rewrite (dinv_ptr _ _ Hd) in Hk.
    destruct (last_entry (d_entries d) k'); cbn [option_map] in *; congruence.
  - intros k c Hc. apply in_map_iff. exists k. split.
    + f_equal. rewrite (dinv_latest _ _ Hd). exact Hc.
    + apply latest_keys_In, assoc_In_fst. rewrite (dinv_ptr _ _ Hd).
      unfold feed_of in Hc. fold (efeed (d_entries d)) in Hc. rewrite current_of_last_entry in Hc.
      destruct (last_entry (d_entries d) k); cbn [option_map] in *; congruence.
Qed.

(** ** paging the listing with continuation tokens *)
Lemma take_page_prefix count l : forall taken, exists r, l = take_page count taken l ++ r.
Proof.
  induction l as [|x l IH]; intros taken; cbn [take_page]; [exists []; reflexivity|].
  destruct (Z.eqb (taken + 1) count); [exists l; reflexivity|].
  destruct (IH (taken + 1)) as [r Hr]. exists r. cbn [app]. now rewrite <- Hr.
Qed.

Lemma take_page_nonempty count taken x l : take_page count taken (x :: l) <> [].
Proof. cbn [take_page]. destruct (Z.eqb (taken + 1) count); discriminate. Qed.

Lemma strictly_sorted_app_inv l1 l2 : strictly_sorted (l1 ++ l2) ->
  strictly_sorted l1 /\ strictly_sorted l2 /\ forall x y, In x l1 -> In y l2 -> x < y.
Proof.
  induction l1 as [|a l1 IH]; cbn [app strictly_sorted]; intros H.
  - repeat split; try exact H. intros ? ? [].
  - destruct H as [Ha Hs]. destruct (IH Hs) as (H1 & H2 & H12).
    apply Forall_app in Ha. destruct Ha as [Ha1 Ha2]. repeat split; try assumption.
    intros x y [<-|Hx] Hy; [rewrite Forall_forall in Ha2; now apply Ha2 | now apply H12].
Qed.

Lemma filter_gt_suffix pre k post :
  strictly_sorted (pre ++ k :: post) -> filter (fun x => k <? x) (pre ++ k :: post) = post.
Proof.
  intros H. destruct (strictly_sorted_app_inv _ _ H) as (_ & H2 & H12).
  cbn [strictly_sorted] in H2. destruct H2 as [Hk _].
  rewrite filter_app. cbn [filter]. rewrite Z.ltb_irrefl.
  replace (filter (fun x => k <? x) pre) with (@nil Z).
  2:{ symmetry. clear -H12. induction pre as [|a pre IH]; cbn [filter]; [reflexivity|].
      replace (k <? a) with false by (symmetry; apply Z.ltb_ge; specialize (H12 a k (or_introl eq_refl) (or_introl eq_refl)); lia).
      apply IH. intros x y Hx Hy. apply H12; [now right | exact Hy]. }
  cbn [app]. clear -Hk. induction post as [|a post IH]; cbn [filter]; [reflexivity|].
  apply Forall_cons_iff in Hk. destruct Hk as [Ha Hk].
  replace (k <? a) with true by (symmetry; apply Z.ltb_lt; exact Ha). f_equal. now apply IH.
Qed.

(** pages over the remaining keys [l] (all greater than the token) *)
Lemma listing_pages_concat d count : 0 < count ->
  forall fuel pre l from,
  latest_keys d = pre ++ l ->
  (match from with None => pre = [] | Some k => exists pre', pre = pre' ++ [k] end) ->
  (length l < fuel)%nat ->
  concat (listing_pages d from count fuel) = map (fun k => (k, stored_latest d k)) l.
Proof.
  intros Hc. induction fuel as [|fuel IH]; intros pre l from Hks Hfrom Hf; [lia|].
  cbn [listing_pages]. unfold listing_page.
  assert (Hfilt : match from with None => latest_keys d | Some f => filter (fun k => f <? k) (latest_keys d) end = l).
  { destruct from as [k|].
    - destruct Hfrom as [pre' ->]. rewrite Hks, <- app_assoc. cbn [app].
      apply filter_gt_suffix.
      pose proof (latest_keys_sorted d) as Hs. rewrite Hks, <- app_assoc in Hs. exact Hs.
    - subst pre. exact Hks. }
  rewrite Hfilt.
  destruct l as [|x l'].
  - cbn. reflexivity.
  - destruct (take_page_prefix count (x :: l') 0) as [r Hr].
    set (pg := take_page count 0 (x :: l')) in *.
    assert (Hne : pg <> []) by apply take_page_nonempty.
    destruct (rev (map (fun k => (k, stored_latest d k)) pg)) as [|[k oc] rest] eqn:Erev.
    { exfalso. apply (f_equal (@rev _)) in Erev. rewrite rev_involutive in Erev. cbn in Erev.
      apply map_eq_nil in Erev. contradiction. }
    replace (count <=? 0) with false by (symmetry; apply Z.leb_gt; exact Hc).
    cbn [concat].
    (* k is the last key of the page *)
    assert (Hlast : exists pg', pg = pg' ++ [k]).
    { apply (f_equal (@rev _)) in Erev. rewrite rev_involutive in Erev. cbn [rev] in Erev.
      destruct (exists_last Hne) as (pg' & k' & Hpg). exists pg'. rewrite Hpg in Erev |- *.
      rewrite map_app in Erev. cbn [map] in Erev. apply app_inj_tail in Erev. destruct Erev as [_ [= -> _]]. reflexivity. }
    destruct Hlast as [pg' Hpg'].
    rewrite (IH (pre ++ pg) r (Some k)).
    + rewrite Hr. now rewrite map_app.
    + rewrite Hks, Hr, app_assoc. reflexivity.
    + exists (pre ++ pg'). rewrite Hpg', app_assoc. reflexivity.
    + apply (f_equal (@length _)) in Hr. rewrite app_length in Hr.
      assert (0 < length pg)%nat by (destruct pg; [contradiction | cbn; lia]). cbn [length] in *. lia.
Qed.

(** C01, paging: following continuation tokens with any page size >= 1 returns the unpaged
    listing, every entity exactly once, in the same order *)
Theorem listing_paged_spec d count :
  0 < count ->
  concat (listing_pages d None count (S (length (latest_keys d)))) = listing_page d None 0.
Proof.
  intros Hc. rewrite (listing_pages_concat d count Hc (S (length (latest_keys d))) [] (latest_keys d) None eq_refl eq_refl ltac:(lia)).
  unfold listing_page. now rewrite take_page_all by lia.
Qed.
