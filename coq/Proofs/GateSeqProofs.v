(** Sequences of requests (Model/GateSeq.v): the pinned gate is stateless, so nothing expired is ever served. *)
From Coq Require Import List String Bool NArith.
From DH Require Import Model.Acl Model.Jwt Model.Gate Model.GateSeq Proofs.AclProofs Proofs.JwtProofs Proofs.GateProofs.
Import ListNotations.
Open Scope string_scope.

Lemma gate_run_from_stateless v tw rs : forall cache, gate_run_from CacheNone v tw cache rs = stateless_answers v tw rs.
Proof. induction rs as [|r rs IH]; intros cache; [reflexivity|]. cbn. now rewrite IH. Qed.

(** whatever was asked before, in whatever order and at whatever instants: the answers are the per-request ones *)
Theorem gate_run_stateless v tw rs : gate_run CacheNone v tw rs = stateless_answers v tw rs.
Proof. apply gate_run_from_stateless. Qed.

Corollary history_irrelevant v tw before r :
  nth_error (gate_run CacheNone v tw (before ++ [r])) (List.length before)
  = Some (decide v (world_at tw (rq_time r)) (rq_auth r) (rq_method r) (rq_path r)).
Proof.
  rewrite gate_run_stateless. unfold stateless_answers. rewrite map_app, nth_error_app2; rewrite map_length; [|auto].
  now rewrite PeanoNat.Nat.sub_diag.
Qed.

(** every answer of a run satisfies the gate spec at the instant of its request (repaired flags) *)
Theorem gate_run_sound tw rs i r o :
  table_ok (tw_routes tw) ->
  nth_error rs i = Some r -> nth_error (gate_run CacheNone fixed tw rs) i = Some o ->
  gate_spec (world_at tw (rq_time r)) (rq_auth r) (rq_method r) (rq_path r) (fst o).
Proof.
  intros Htab Hr Ho. rewrite gate_run_stateless in Ho. unfold stateless_answers in Ho.
  rewrite (map_nth_error _ _ _ Hr) in Ho. injection Ho as <-. now apply gate_sound.
Qed.

Lemma facts_at_expired now tt : f_expired (facts_at now tt) = false -> forall e, tt_exp tt = Some e -> (now < e)%N.
Proof. cbn. intros H e He. rewrite He in H. now apply N.leb_gt. Qed.

Lemma facts_at_notyet now tt : f_notyet (facts_at now tt) = false -> forall n, tt_nbf tt = Some n -> (n <= now)%N.
Proof. cbn. intros H n Hn. rewrite Hn in H. now apply N.ltb_ge. Qed.

(** no expired (or not yet valid) token is ever served on a non-open route, however often it was accepted before *)
Theorem no_expired_served tw rs i r o :
  table_ok (tw_routes tw) ->
  nth_error rs i = Some r -> nth_error (gate_run CacheNone fixed tw rs) i = Some o -> fst o = Served ->
  ~ open_request (rq_method r) (rq_path r) ->
  exists t, extract_token (rq_auth r) = Some t
    /\ (forall e, tt_exp (tw_tokens tw t) = Some e -> (rq_time r < e)%N)
    /\ (forall n, tt_nbf (tw_tokens tw t) = Some n -> (n <= rq_time r)%N).
Proof.
  intros Htab Hr Ho Hs Hno. pose proof (gate_run_sound tw rs i r o Htab Hr Ho Hs) as [H | (t & Ht & Hok & _)]; [contradiction|].
  exists t. split; [assumption|]. destruct Hok as (_ & _ & He & Hn & _). cbn [world_at w_oracle] in He, Hn.
  split; [now apply facts_at_expired | now apply facts_at_notyet].
Qed.

(** the same holds for the time window under the pinned flags: they deviate in claims and ACL handling, not in time *)
Lemma validate_time_window cm cfg f : validate cm cfg f = true -> f_expired f = false /\ f_notyet f = false.
Proof.
  unfold validate.
  destruct (parses_with KNode f || (cfg_oauth cfg && match f_kid f with KidGood => parses_with KOauth f | _ => false end)) eqn:Es;
    cbn [negb]; [|discriminate].
  intros _. destruct (trusted_signature _ _ Es) as (_ & _ & He & Hn). now split.
Qed.

(** ** a handler that remembers accepted bearer strings is not stateless: it serves an expired token *)
Definition demo_tw : tworld :=
  {| tw_cfg := {| cfg_oauth := false; cfg_aud := ["node:n1"]; cfg_iss := ["node:n1"] |};
     tw_routes := routes_compiled;
     tw_tokens := fun _ => {| tt_facts := good_token; tt_exp := Some 5%N; tt_nbf := None |};
     tw_acls := fun s => if s =? "c1" then Some [{| ac_resource := "/datasets/*"; ac_action := "read"; ac_deny := false |}] else None |}.

Definition demo_rq (t : N) : rq := {| rq_time := t; rq_auth := "Bearer tok"; rq_method := "GET"; rq_path := "/datasets/a" |}.

Lemma cache_refuted :
  map fst (gate_run CacheVerified fixed demo_tw [demo_rq 0; demo_rq 10]) = [Served; Served]
  /\ map fst (gate_run CacheNone fixed demo_tw [demo_rq 0; demo_rq 10]) = [Served; Unauth]
  /\ map fst (gate_run CacheVerified fixed demo_tw [demo_rq 10]) = [Unauth].
Proof. vm_compute. repeat split; reflexivity. Qed.

(** the time window is respected under every combination of the gate flags (the pinned deviations are elsewhere) *)
Lemma served_in_window v w auth method path :
  fst (decide v w auth method path) = Served ->
  skipper path = true
  \/ exists t, extract_token auth = Some t /\ f_expired (w_oracle w t) = false /\ f_notyet (w_oracle w t) = false.
Proof.
  unfold decide. destruct (method =? "OPTIONS"); [cbn; discriminate|]. unfold authenticate.
  destruct (skipper path); [intros _; now left|].
  destruct (extract_token auth) as [t|]; [|cbn; discriminate].
  destruct (validate (v_claims v) (w_cfg w) (w_oracle w t)) eqn:Ev; [|cbn; discriminate].
  intros _. right. exists t. split; [reflexivity|]. now apply (validate_time_window _ _ _ Ev).
Qed.

Theorem no_expired_served_any_variant v tw rs i r o :
  nth_error rs i = Some r -> nth_error (gate_run CacheNone v tw rs) i = Some o -> fst o = Served ->
  skipper (rq_path r) = false ->
  exists t, extract_token (rq_auth r) = Some t
    /\ (forall e, tt_exp (tw_tokens tw t) = Some e -> (rq_time r < e)%N)
    /\ (forall n, tt_nbf (tw_tokens tw t) = Some n -> (n <= rq_time r)%N).
Proof.
  intros Hr Ho Hs Hsk. rewrite gate_run_stateless in Ho. unfold stateless_answers in Ho.
  rewrite (map_nth_error _ _ _ Hr) in Ho. injection Ho as <-.
  destruct (served_in_window _ _ _ _ _ Hs) as [H | (t & Ht & He & Hn)]; [congruence|].
  exists t. split; [assumption|]. cbn [world_at w_oracle] in He, Hn.
  split; [now apply facts_at_expired | now apply facts_at_notyet].
Qed.
