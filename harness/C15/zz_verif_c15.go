//go:build verif

// Injected into package web by `go build -overlay` (never committed to /repo).
// Driver for property C15: runs byte strings through the real EntityStreamParser
// (ParseStream / ParseTransaction, with recover) and through the real echo handlers
// (POST entities / POST transactions / GET changes / GET entities behind the recover
// middleware), and lists the token stream Go's own json.Decoder sees for the same bytes.
package web

import (
	"bytes"
	"context"
	"encoding/base64"
	"encoding/json"
	"fmt"
	"io"
	"net/http"
	"net/http/httptest"
	"os"
	"sort"
	"strconv"
	"strings"

	"github.com/DataDog/datadog-go/v5/statsd"
	"github.com/labstack/echo/v4"
	"go.uber.org/zap"

	"github.com/mimiro-io/datahub/internal/conf"
	"github.com/mimiro-io/datahub/internal/jobs"
	"github.com/mimiro-io/datahub/internal/jobs/source"
	"github.com/mimiro-io/datahub/internal/server"
)

type VerifC15Case struct {
	Mode string `json:"mode"` // stream | txn | http | httptxn
	Body string `json:"body"`
	B64  bool   `json:"b64"`
	Get  string `json:"get"`  // http modes: changes | entities
	Pre  int    `json:"pre"`  // http mode: number of filler entities posted in the same request before Body's entities (unused by the driver; part of Body)
	DsN  []string `json:"ds"` // httptxn: datasets to create and read back
	Restart bool  `json:"restart"` // http mode: close and reopen the store after the first POST
	Body2   string `json:"body2"`  // http mode: a second POST (after the restart, if any) before the GET
	Fn      string `json:"fn"`     // proxy mode: changes-raw | changes | entities-raw | entities
	Public   []string `json:"public"`   // http mode: publicNamespaces of the dataset
	GetFirst bool     `json:"getfirst"` // http mode: a GET (entities and changes) right after dataset creation and again after the first POST
	Pages    []string `json:"pages"`    // source mode: the documents one HTTPDatasetSource object reads, in order
	Body2Txn bool     `json:"body2txn"` // http mode: the second POST goes to /transactions
	// http mode: instead of POSTing Body2, build entities the way the JavaScript API does (AsEntity ->
	// NewEntityFromMap on each map; "carrier" != "": attach the result as a property of a new entity with that id)
	// and store them like a transform + dataset sink; Body2 is the equivalent UDA payload (what the model expects)
	AsEntity []VerifC15Map `json:"asentity"`
}

type VerifC15Map struct {
	M       map[string]interface{} `json:"m"`
	Carrier string                 `json:"carrier"`
}

type VerifC15Parse struct {
	Outcome string          `json:"outcome"` // ok | err | panic
	Tokens  []interface{}   `json:"tokens"`
	EOF     bool            `json:"eof"`
	Groups  [][]interface{} `json:"groups"` // [name, [entity...]]
	Ns      [][]string      `json:"ns"`     // parser namespace context (sorted), only when outcome == ok
	Detail  string          `json:"detail,omitempty"`
}

type VerifC15Obs struct {
	VerifC15Parse
	Status   int              `json:"status"`             // http modes: status of the POST
	Post     *VerifC15Parse   `json:"post,omitempty"`     // http modes: tokens of the posted body
	More     []*VerifC15Parse `json:"more,omitempty"`     // httptxn: further datasets read back
	Status2  int              `json:"status2"`            // http mode: status of the second POST (0 = none)
	Post2    *VerifC15Parse   `json:"post2,omitempty"`
	Token    string           `json:"token"`              // proxy mode: continuation token returned
	Pages    []*VerifC15Parse `json:"pages,omitempty"`    // source mode: one observation per document
	GetBytes int              `json:"getbytes,omitempty"` // size of the GET response
	PostReply string          `json:"postreply,omitempty"`
}

type VerifC15Driver struct {
	dir    string
	store  *server.Store
	dsm    *server.DsManager
	n      int
	remote *httptest.Server
	page   []byte
	proxy  *server.ProxyDataset
}

func verifC15Store(dir string) (*server.Store, *server.DsManager) {
	_ = os.RemoveAll(dir)
	return verifC15Open(dir)
}

func verifC15Open(dir string) (*server.Store, *server.DsManager) {
	cfg := &conf.Config{Logger: zap.NewNop().Sugar(), StoreLocation: dir}
	store := server.NewStore(cfg, &statsd.NoOpClient{})
	dsm := server.NewDsManager(cfg, store, server.NoOpBus())
	// the receiving hub already knows these namespaces, in this order (ns3, ns4, ...): payloads written by
	// ANOTHER hub use the same "nsN" prefix names for different expansions (lib/props/c15.py: RECEIVER)
	for _, e := range verifC15Receiver {
		_, _ = store.NamespaceManager.AssertPrefixMappingForExpansion(e)
	}
	return store, dsm
}

var verifC15Receiver = []string{"http://ex.org/a/", "http://ex.org/b#", "https://s.io/x/", "http://data.mimiro.io/core/", "http://ex.org/deep/er/"}

func NewVerifC15Driver(dir string) *VerifC15Driver {
	d := &VerifC15Driver{dir: dir}
	d.store, d.dsm = verifC15Store(dir + "/parse")
	return d
}

// the remote hub of the proxy dataset: answers every request with the page of the current case
func (d *VerifC15Driver) proxyDataset() (*server.ProxyDataset, error) {
	if d.proxy != nil {
		return d.proxy, nil
	}
	d.remote = httptest.NewServer(http.HandlerFunc(func(w http.ResponseWriter, r *http.Request) {
		w.Header().Set("Content-Type", "application/json")
		w.WriteHeader(200)
		_, _ = w.Write(d.page)
	}))
	ds, err := d.dsm.CreateDataset("px", &server.CreateDatasetConfig{
		ProxyDatasetConfig: &server.ProxyDatasetConfig{RemoteURL: d.remote.URL + "/datasets/remote"}})
	if err != nil {
		return nil, err
	}
	d.proxy = ds.AsProxy(func(req *http.Request) {})
	return d.proxy, nil
}

func (d *VerifC15Driver) runProxy(c VerifC15Case, body []byte) *VerifC15Obs {
	obs := &VerifC15Obs{}
	obs.Groups = [][]interface{}{}
	obs.Ns = [][]string{}
	obs.Tokens, obs.EOF = verifC15Tokens(body)
	px, err := d.proxyDataset()
	if err != nil {
		obs.Outcome = "setup-error"
		obs.Detail = err.Error()
		return obs
	}
	d.page = body
	ids := make([]interface{}, 0)
	idOnly := func(id string) map[string]interface{} {
		return map[string]interface{}{"id": verifC15Name(d.store, id), "rec": "0", "del": false,
			"props": []interface{}{}, "refs": []interface{}{}}
	}
	raw := func(jsonData []byte) error {
		var e struct {
			ID string `json:"id"`
		}
		if err := json.Unmarshal(jsonData, &e); err != nil {
			return err
		}
		ids = append(ids, idOnly(e.ID))
		return nil
	}
	ent := func(e *server.Entity) error {
		ids = append(ids, idOnly(e.ID))
		return nil
	}
	func() {
		defer func() {
			if r := recover(); r != nil {
				obs.Outcome = "panic"
				obs.Detail = fmt.Sprint(r)
			}
		}()
		var tok string
		var err error
		switch c.Fn {
		case "changes-raw":
			tok, err = px.StreamChangesRaw("", 0, false, false, raw, nil)
		case "changes":
			tok, err = px.StreamChanges("", 0, false, false, ent, nil)
		case "entities-raw":
			tok, err = px.StreamEntitiesRaw("", 0, raw, nil)
		default:
			tok, err = px.StreamEntities("", 0, ent, nil)
		}
		if err != nil {
			obs.Outcome = "err"
			obs.Detail = err.Error()
		} else {
			obs.Outcome = "ok"
			obs.Token = tok
		}
	}()
	obs.Groups = append(obs.Groups, []interface{}{"", ids})
	return obs
}

// one HTTPDatasetSource object reads the given documents one after the other (pages of a remote, or the
// successive runs of a job: the pipeline keeps the source object)
func (d *VerifC15Driver) runSource(c VerifC15Case) *VerifC15Obs {
	obs := &VerifC15Obs{}
	obs.Groups = [][]interface{}{}
	obs.Ns = [][]string{}
	obs.Tokens = []interface{}{}
	obs.Outcome = "ok"
	var page []byte
	srv := httptest.NewServer(http.HandlerFunc(func(w http.ResponseWriter, r *http.Request) {
		w.Header().Set("Content-Type", "application/json")
		w.WriteHeader(200)
		_, _ = w.Write(page)
	}))
	defer srv.Close()
	src := &source.HTTPDatasetSource{Endpoint: srv.URL + "/datasets/remote/changes", Store: d.store, Logger: zap.NewNop().Sugar()}
	for _, pg := range c.Pages {
		page = []byte(pg)
		p := &VerifC15Parse{Groups: [][]interface{}{}, Ns: [][]string{}}
		p.Tokens, p.EOF = verifC15Tokens(page)
		ents := make([]interface{}, 0)
		func() {
			defer func() {
				if r := recover(); r != nil {
					p.Outcome = "panic"
					p.Detail = fmt.Sprint(r)
				}
			}()
			err := src.ReadEntities(context.Background(), &source.StringDatasetContinuation{}, 3,
				func(es []*server.Entity, _ source.DatasetContinuation) error {
					for _, e := range es {
						ents = append(ents, verifC15Ent(d.store, e))
					}
					return nil
				})
			if err != nil {
				p.Outcome = "err"
				p.Detail = err.Error()
			} else {
				p.Outcome = "ok"
			}
		}()
		p.Groups = append(p.Groups, []interface{}{"", ents})
		obs.Pages = append(obs.Pages, p)
	}
	return obs
}

func (d *VerifC15Driver) Close() {
	if d.remote != nil {
		d.remote.Close()
	}
	if d.store != nil {
		_ = d.store.Close()
	}
	_ = os.RemoveAll(d.dir + "/parse")
}

// ---- token stream of the bytes as encoding/json's Decoder.Token delivers it

func verifC15Tokens(body []byte) ([]interface{}, bool) {
	dec := json.NewDecoder(bytes.NewReader(body))
	toks := make([]interface{}, 0)
	for {
		t, err := dec.Token()
		if err != nil {
			return toks, err == io.EOF
		}
		switch v := t.(type) {
		case json.Delim:
			toks = append(toks, []interface{}{"d", v.String()})
		case string:
			toks = append(toks, []interface{}{"s", v})
		case float64:
			toks = append(toks, []interface{}{"n", strconv.FormatFloat(v, 'g', -1, 64), strconv.FormatUint(uint64(v), 10)})
		case bool:
			toks = append(toks, []interface{}{"b", v})
		case nil:
			toks = append(toks, []interface{}{"z"})
		default:
			toks = append(toks, []interface{}{"?", fmt.Sprintf("%T", t)})
		}
		if len(toks) > 200000 {
			return toks, false
		}
	}
}

// ---- canonical observation of parsed entities

func verifC15Name(store *server.Store, c string) []interface{} {
	i := strings.Index(c, ":")
	if i >= 0 {
		m := store.NamespaceManager.GetPrefixToExpansionMap()
		if exp, ok := m[c[:i]]; ok {
			return []interface{}{"q", exp, c[i+1:]}
		}
	}
	return []interface{}{"r", c}
}

func verifC15Val(store *server.Store, v interface{}) []interface{} {
	switch x := v.(type) {
	case nil:
		return []interface{}{"z"}
	case string:
		return []interface{}{"s", x}
	case float64:
		return []interface{}{"n", strconv.FormatFloat(x, 'g', -1, 64)}
	case bool:
		return []interface{}{"b", x}
	case json.Delim:
		return []interface{}{"d", x.String()}
	case []interface{}:
		l := make([]interface{}, 0, len(x))
		for _, y := range x {
			l = append(l, verifC15Val(store, y))
		}
		return []interface{}{"a", l}
	case *server.Entity:
		if x == nil {
			return []interface{}{"?", "nil *Entity"}
		}
		return []interface{}{"e", verifC15Ent(store, x)}
	default:
		return []interface{}{"?", fmt.Sprintf("%T", v)}
	}
}

func verifC15SortPairs(l [][]interface{}) []interface{} {
	keys := make([]string, len(l))
	idx := make([]int, len(l))
	for i, p := range l {
		b, _ := json.Marshal(p[0])
		keys[i] = string(b)
		idx[i] = i
	}
	sort.Slice(idx, func(a, b int) bool { return keys[idx[a]] < keys[idx[b]] })
	out := make([]interface{}, 0, len(l))
	for _, i := range idx {
		out = append(out, l[i])
	}
	return out
}

func verifC15Ent(store *server.Store, e *server.Entity) map[string]interface{} {
	props := make([][]interface{}, 0, len(e.Properties))
	for k, v := range e.Properties {
		props = append(props, []interface{}{verifC15Name(store, k), verifC15Val(store, v)})
	}
	refs := make([][]interface{}, 0, len(e.References))
	for k, v := range e.References {
		var rv []interface{}
		switch x := v.(type) {
		case string:
			rv = []interface{}{"s", verifC15Name(store, x)}
		case []string:
			l := make([]interface{}, 0, len(x))
			for _, y := range x {
				l = append(l, verifC15Name(store, y))
			}
			rv = []interface{}{"a", l}
		default:
			rv = []interface{}{"?", fmt.Sprintf("%T", v)}
		}
		refs = append(refs, []interface{}{verifC15Name(store, k), rv})
	}
	return map[string]interface{}{
		"id":    verifC15Name(store, e.ID),
		"rec":   strconv.FormatUint(e.Recorded, 10),
		"del":   e.IsDeleted,
		"props": verifC15SortPairs(props),
		"refs":  verifC15SortPairs(refs),
	}
}

func verifC15NsList(m map[string]string) [][]string {
	out := make([][]string, 0, len(m))
	for k, v := range m {
		out = append(out, []string{k, v})
	}
	sort.Slice(out, func(a, b int) bool { return out[a][0] < out[b][0] })
	return out
}

// ---- direct parser runs

func verifC15ParseStream(store *server.Store, body []byte) *VerifC15Parse {
	p := &VerifC15Parse{Groups: [][]interface{}{}, Ns: [][]string{}}
	p.Tokens, p.EOF = verifC15Tokens(body)
	ents := make([]interface{}, 0)
	esp := server.NewEntityStreamParser(store)
	func() {
		defer func() {
			if r := recover(); r != nil {
				p.Outcome = "panic"
				p.Detail = fmt.Sprint(r)
			}
		}()
		err := esp.ParseStream(bytes.NewReader(body), func(e *server.Entity) error {
			ents = append(ents, verifC15Ent(store, e))
			return nil
		})
		if err != nil {
			p.Outcome = "err"
			p.Detail = err.Error()
		} else {
			p.Outcome = "ok"
			p.Ns = verifC15NsList(esp.VerifC15Namespaces())
		}
	}()
	p.Groups = append(p.Groups, []interface{}{"", ents})
	return p
}

func verifC15ParseTxn(store *server.Store, body []byte) *VerifC15Parse {
	p := &VerifC15Parse{Groups: [][]interface{}{}, Ns: [][]string{}}
	p.Tokens, p.EOF = verifC15Tokens(body)
	esp := server.NewEntityStreamParser(store)
	func() {
		defer func() {
			if r := recover(); r != nil {
				p.Outcome = "panic"
				p.Detail = fmt.Sprint(r)
			}
		}()
		txn, err := esp.ParseTransaction(bytes.NewReader(body))
		if err != nil {
			p.Outcome = "err"
			p.Detail = err.Error()
			return
		}
		p.Outcome = "ok"
		p.Ns = verifC15NsList(esp.VerifC15Namespaces())
		names := make([]string, 0)
		for k := range txn.DatasetEntities {
			names = append(names, k)
		}
		sort.Strings(names)
		for _, k := range names {
			ents := make([]interface{}, 0)
			for _, e := range txn.DatasetEntities[k] {
				ents = append(ents, verifC15Ent(store, e))
			}
			p.Groups = append(p.Groups, []interface{}{k, ents})
		}
	}()
	return p
}

// ---- through the echo stack (recover middleware + the real handlers)

func verifC15Echo(store *server.Store, dsm *server.DsManager) *echo.Echo {
	e := echo.New()
	e.HideBanner = true
	e.HidePort = true
	log := zap.NewNop().Sugar()
	e.Use(setupRecovery(log))
	h := &datasetHandler{datasetManager: dsm, store: store, eventBus: server.NoOpBus(), tokenProviders: nil}
	e.GET("/datasets/:dataset/entities", h.getEntitiesHandler)
	e.GET("/datasets/:dataset/changes", h.getChangesHandler)
	e.POST("/datasets/:dataset/entities", h.storeEntitiesHandler)
	th := &txnHandler{store: store, logger: log}
	e.POST("/transactions", th.processTransaction)
	return e
}

func verifC15Do(e *echo.Echo, method, path string, body []byte) (int, []byte) {
	req := httptest.NewRequest(method, path, bytes.NewReader(body))
	req.Header.Set("Content-Type", "application/json")
	rec := httptest.NewRecorder()
	e.ServeHTTP(rec, req)
	return rec.Code, rec.Body.Bytes()
}

func (d *VerifC15Driver) runHTTP(c VerifC15Case, body []byte) *VerifC15Obs {
	d.n++
	dir := fmt.Sprintf("%s/h%d", d.dir, d.n)
	store, dsm := verifC15Store(dir)
	defer func() {
		_ = store.Close()
		_ = os.RemoveAll(dir)
	}()
	obs := &VerifC15Obs{}
	names := c.DsN
	if len(names) == 0 {
		names = []string{"ds"}
	}
	for _, n := range names {
		var cfg *server.CreateDatasetConfig
		if len(c.Public) > 0 {
			cfg = &server.CreateDatasetConfig{PublicNamespaces: c.Public}
		}
		if _, err := dsm.CreateDataset(n, cfg); err != nil {
			obs.Outcome = "setup-error"
			obs.Detail = err.Error()
			return obs
		}
	}
	e := verifC15Echo(store, dsm)
	if c.GetFirst {
		_, _ = verifC15Do(e, http.MethodGet, "/datasets/"+names[0]+"/entities", nil)
		_, _ = verifC15Do(e, http.MethodGet, "/datasets/"+names[0]+"/changes", nil)
	}
	post := &VerifC15Parse{Groups: [][]interface{}{}, Ns: [][]string{}}
	post.Tokens, post.EOF = verifC15Tokens(body)
	obs.Post = post
	var pb []byte
	if c.Mode == "httptxn" {
		obs.Status, pb = verifC15Do(e, http.MethodPost, "/transactions", body)
	} else {
		obs.Status, pb = verifC15Do(e, http.MethodPost, "/datasets/"+names[0]+"/entities", body)
	}
	obs.PostReply = string(pb)
	if obs.Status == 500 && !strings.Contains(obs.PostReply, "\"Internal Server Error\"") {
		obs.Status = 599 // an error returned by the store, not a recovered panic
	}
	if c.GetFirst {
		_, _ = verifC15Do(e, http.MethodGet, "/datasets/"+names[0]+"/entities", nil)
		_, _ = verifC15Do(e, http.MethodGet, "/datasets/"+names[0]+"/changes", nil)
	}
	if c.Restart {
		_ = store.Close()
		store, dsm = verifC15Open(dir)
		e = verifC15Echo(store, dsm)
	}
	if c.Body2 != "" {
		b2 := []byte(c.Body2)
		post2 := &VerifC15Parse{Groups: [][]interface{}{}, Ns: [][]string{}}
		post2.Tokens, post2.EOF = verifC15Tokens(b2)
		obs.Post2 = post2
		var pb2 []byte
		if len(c.AsEntity) > 0 {
			obs.Status2 = 200
			func() {
				defer func() {
					if r := recover(); r != nil {
						obs.Status2 = 500
						obs.Detail = fmt.Sprint(r)
					}
				}()
				jt := &jobs.JavascriptTransform{}
				out := make([]*server.Entity, 0)
				for _, am := range c.AsEntity {
					ent := jt.AsEntity(am.M)
					if am.Carrier != "" {
						ce := server.NewEntity(am.Carrier, 0)
						ce.Properties["ns3:address"] = ent
						out = append(out, ce)
					} else if ent != nil {
						out = append(out, ent)
					}
				}
				if len(out) > 0 {
					if err := dsm.GetDataset(names[0]).StoreEntities(out); err != nil {
						obs.Status2 = 599
						obs.Detail = err.Error()
					}
				}
			}()
		} else if c.Body2Txn {
			obs.Status2, pb2 = verifC15Do(e, http.MethodPost, "/transactions", b2)
		} else {
			obs.Status2, pb2 = verifC15Do(e, http.MethodPost, "/datasets/"+names[0]+"/entities", b2)
		}
		if obs.Status2 == 500 && !strings.Contains(string(pb2), "\"Internal Server Error\"") {
			obs.Status2 = 599
		}
	}
	get := c.Get
	if get == "" {
		get = "changes"
	}
	for i, n := range names {
		code, gb := verifC15Do(e, http.MethodGet, "/datasets/"+n+"/"+get, nil)
		var p *VerifC15Parse
		if code != 200 {
			p = &VerifC15Parse{Outcome: "get-" + strconv.Itoa(code), Groups: [][]interface{}{}, Ns: [][]string{}, Tokens: []interface{}{}}
		} else {
			p = verifC15ParseStream(store, gb)
		}
		if i == 0 {
			obs.VerifC15Parse = *p
			obs.GetBytes = len(gb)
		} else {
			p.Groups[0][0] = n
			obs.More = append(obs.More, p)
		}
	}
	return obs
}

func (d *VerifC15Driver) Run(c VerifC15Case) *VerifC15Obs {
	body := []byte(c.Body)
	if c.B64 {
		b, err := base64.StdEncoding.DecodeString(c.Body)
		if err != nil {
			return &VerifC15Obs{VerifC15Parse: VerifC15Parse{Outcome: "setup-error", Detail: err.Error()}}
		}
		body = b
	}
	switch c.Mode {
	case "stream":
		return &VerifC15Obs{VerifC15Parse: *verifC15ParseStream(d.store, body)}
	case "txn":
		return &VerifC15Obs{VerifC15Parse: *verifC15ParseTxn(d.store, body)}
	case "http", "httptxn":
		return d.runHTTP(c, body)
	case "proxy":
		return d.runProxy(c, body)
	case "source":
		return d.runSource(c)
	}
	return &VerifC15Obs{VerifC15Parse: VerifC15Parse{Outcome: "setup-error", Detail: "unknown mode"}}
}
