//go:build verif

// Injected into package server by `go build -overlay` (never committed to /repo).
package server

// VerifC15Namespaces exposes the parser's local namespace context (anchor state of property C15).
func (esp *EntityStreamParser) VerifC15Namespaces() map[string]string {
	out := make(map[string]string, len(esp.localNamespaces))
	for k, v := range esp.localNamespaces {
		out[k] = v
	}
	return out
}
