//go:build verif

// verif driver for property C15: one JSON case per stdin line, one "@@OBS <json>" line per case.
package main

import (
	"bufio"
	"encoding/json"
	"fmt"
	"os"

	"github.com/mimiro-io/datahub/internal/web"
)

func main() {
	dir := os.Args[1]
	in := bufio.NewScanner(os.Stdin)
	in.Buffer(make([]byte, 1<<20), 1<<26)
	out := bufio.NewWriter(os.Stdout)
	defer out.Flush()
	d := web.NewVerifC15Driver(dir)
	defer d.Close()
	for in.Scan() {
		var c web.VerifC15Case
		if err := json.Unmarshal(in.Bytes(), &c); err != nil {
			fmt.Fprintln(os.Stderr, "bad case:", err)
			os.Exit(2)
		}
		obs := d.Run(c)
		b, err := json.Marshal(obs)
		if err != nil {
			fmt.Fprintln(os.Stderr, "bad obs:", err)
			os.Exit(2)
		}
		out.WriteString("@@OBS ")
		out.Write(b)
		out.WriteString("\n")
		out.Flush()
	}
}
