//go:build verif

// Injected into package jobs by `go build -overlay` (never committed to /repo).
// Drives the real IncrementalPipeline / FullSyncPipeline + JavascriptTransform for property C10.
package jobs

import (
	"context"
	"encoding/base64"
	"fmt"
	"os"
	"sort"
	"strconv"
	"sync"

	"github.com/DataDog/datadog-go/v5/statsd"
	"go.uber.org/zap"

	"github.com/mimiro-io/datahub/internal/conf"
	"github.com/mimiro-io/datahub/internal/security"
	"github.com/mimiro-io/datahub/internal/server"
)

type VerifC10Case struct {
	N     int    `json:"n"`
	Batch int    `json:"batch"`
	Par   int    `json:"par"`
	Kind  string `json:"kind"` // identity | dropodd | dup | create
	Full  bool   `json:"full"` // fullsync pipeline instead of incremental
	Wrap  bool   `json:"wrap"` // wrap the JS transform in a recording transform
	Json  []map[string]interface{} `json:"json,omitempty"` // value-normalisation case: [value, its JS image] in the description language of server.VerifGoValue
	Copy  bool   `json:"copy"` // copy mode (zz_verif_c10copy.go): real DatasetSink, rich contents, compared with a plain copy
}

type VerifC10Obs struct {
	Outcome string  `json:"outcome"` // ok | err | panic
	Seen    [][]int `json:"seen"`    // chunks handed to the transform (only when wrap), sorted by first element
	Sink    [][]int `json:"sink"`    // batches handed to the sink, in order; created entities are 100000+i
	Token   string  `json:"token"`   // stored continuation token after the run
	Rerun   int     `json:"rerun"`   // number of entities the sink saw in a second run (-1: not run)
	Result  bool    `json:"result"`  // a job result was stored
	Detail  string  `json:"detail"`
	// copy mode
	DstEq       bool `json:"dst_eq"`       // sink entities == entities of a plain copy job's sink
	DstChanges  int  `json:"dst_changes"`  // change-log length of the sink after the first run
	RefChanges  int  `json:"ref_changes"`  // change-log length of the plain copy's sink
	ReChanges   int  `json:"re_changes"`   // changes added to the sink by a second run from scratch (token reset)
	FullChanges int  `json:"full_changes"` // changes added to the sink by a further full-sync run
	// value-normalisation case: toJsonValue of the two values
	JsonOut []map[string]interface{} `json:"json_out,omitempty"`
}

type verifRecSink struct {
	mu      sync.Mutex
	batches [][]int
}

func verifIdx(e *server.Entity) int {
	// source entities: ns0:e<i> or http://v/e<i> ; created ones end in "-c"
	id := e.ID
	created := false
	if len(id) > 2 && id[len(id)-2:] == "-c" {
		created = true
		id = id[:len(id)-2]
	}
	j := len(id)
	for j > 0 && id[j-1] >= '0' && id[j-1] <= '9' {
		j--
	}
	n, err := strconv.Atoi(id[j:])
	if err != nil {
		return -1
	}
	if created {
		return 100000 + n
	}
	return n
}

func (s *verifRecSink) GetConfig() map[string]interface{} {
	return map[string]interface{}{"Type": "VerifRecSink"}
}
func (s *verifRecSink) processEntities(runner *Runner, entities []*server.Entity) error {
	b := make([]int, 0, len(entities))
	for _, e := range entities {
		b = append(b, verifIdx(e))
	}
	s.mu.Lock()
	s.batches = append(s.batches, b)
	s.mu.Unlock()
	return nil
}
func (s *verifRecSink) startFullSync(runner *Runner) error                     { return nil }
func (s *verifRecSink) endFullSync(ctx context.Context, runner *Runner) error { return nil }

type verifRecTransform struct {
	inner *JavascriptTransform
	mu    sync.Mutex
	seen  [][]int
}

func (t *verifRecTransform) GetConfig() map[string]interface{} { return t.inner.GetConfig() }
func (t *verifRecTransform) getParallelism() int               { return t.inner.getParallelism() }
func (t *verifRecTransform) EndStoreContext(s string) error    { return nil }
func (t *verifRecTransform) transformEntities(runner *Runner, entities []*server.Entity, jobTag string) ([]*server.Entity, error) {
	b := make([]int, 0, len(entities))
	for _, e := range entities {
		b = append(b, verifIdx(e))
	}
	t.mu.Lock()
	t.seen = append(t.seen, b)
	t.mu.Unlock()
	tc, err := t.inner.Clone()
	if err != nil {
		return nil, err
	}
	return tc.transformEntities(runner, entities, jobTag)
}

var verifC10JS = map[string]string{
	"identity": `function transform_entities(entities) { return entities; }`,
	"dropodd": `function transform_entities(entities) { var r = []; for (var i = 0; i < entities.length; i++) {
		var e = entities[i]; if (GetProperty(e, "ns3", "idx") % 2 == 0) { r.push(e); } } return r; }`,
	"dup": `function transform_entities(entities) { var r = []; for (var i = 0; i < entities.length; i++) {
		r.push(entities[i]); r.push(entities[i]); } return r; }`,
	"droplow": `function transform_entities(entities) { var r = []; for (var i = 0; i < entities.length; i++) {
		var e = entities[i]; if (GetProperty(e, "ns3", "idx") >= 2) { r.push(e); } } return r; }`,
	"pushin": `function transform_entities(entities) { var n = entities.length; for (var i = 0; i < n; i++) {
		var c = NewEntity(); SetId(c, GetId(entities[i]) + "-c"); entities.push(c); } return entities; }`,
	"create": `function transform_entities(entities) { var r = []; for (var i = 0; i < entities.length; i++) {
		var e = entities[i]; r.push(e); var c = NewEntity(); SetId(c, GetId(e) + "-c"); r.push(c); } return r; }`,
}

// VerifC10Run executes one case on a fresh store under dir.
func VerifC10Run(c VerifC10Case, dir string) (obs VerifC10Obs) {
	if len(c.Json) == 2 {
		obs.Outcome = "ok"
		obs.Rerun = -1
		obs.Sink, obs.Seen = [][]int{}, [][]int{}
		obs.JsonOut = []map[string]interface{}{server.VerifToJsonValue(server.VerifGoValue(c.Json[0])), server.VerifToJsonValue(server.VerifGoValue(c.Json[1]))}
		return
	}
	if c.Copy {
		return VerifC10Copy(c, dir)
	}
	obs.Rerun = -1
	_ = os.MkdirAll(dir, 0o755)
	defer os.RemoveAll(dir)
	logger := zap.NewNop().Sugar()
	cfg := &conf.Config{
		Logger:        logger,
		StoreLocation: dir,
		RunnerConfig:  &conf.RunnerConfig{PoolIncremental: 10, PoolFull: 5, Concurrent: 0},
	}
	sd := &statsd.NoOpClient{}
	store := server.NewStore(cfg, sd)
	defer store.Close()
	pm := security.NewProviderManager(cfg, store, logger)
	tps := security.NewTokenProviders(logger, pm, nil)
	runner := NewRunner(cfg, store, tps, server.NoOpBus(), sd)
	dsm := server.NewDsManager(cfg, store, server.NoOpBus())
	sched := NewScheduler(cfg, store, dsm, runner)

	ds, err := dsm.CreateDataset("src", nil)
	if err != nil {
		obs.Outcome = "setup-error"
		obs.Detail = err.Error()
		return
	}
	ents := make([]*server.Entity, c.N)
	for i := 0; i < c.N; i++ {
		e := server.NewEntity("http://v/e"+strconv.Itoa(i), 0)
		e.Properties["ns3:idx"] = i
		ents[i] = e
	}
	if c.N > 0 {
		if err := ds.StoreEntities(ents); err != nil {
			obs.Outcome = "setup-error"
			obs.Detail = err.Error()
			return
		}
	}
	code, ok := verifC10JS[c.Kind]
	if !ok {
		obs.Outcome = "setup-error"
		obs.Detail = "unknown kind"
		return
	}
	jobType := JobTypeIncremental
	if c.Full {
		jobType = JobTypeFull
	}
	jobJSON := fmt.Sprintf(`{"id":"j1","title":"j1","batchSize":%d,
		"triggers":[{"triggerType":"cron","jobType":"%s","schedule":"@every 2000s"}],
		"source":{"Type":"DatasetSource","Name":"src"},
		"transform":{"Type":"JavascriptTransform","Parallelism":%d,"Code":"%s"},
		"sink":{"Type":"DevNullSink"}}`, c.Batch, jobType, c.Par, base64.StdEncoding.EncodeToString([]byte(code)))
	jc, err := sched.Parse([]byte(jobJSON))
	if err != nil {
		obs.Outcome = "setup-error"
		obs.Detail = "parse: " + err.Error()
		return
	}
	pl, err := sched.toPipeline(jc, jobType)
	if err != nil {
		obs.Outcome = "setup-error"
		obs.Detail = "toPipeline: " + err.Error()
		return
	}
	sink := &verifRecSink{}
	spec := pl.spec()
	spec.sink = sink
	var rec *verifRecTransform
	if c.Wrap {
		rec = &verifRecTransform{inner: spec.transform.(*JavascriptTransform)}
		spec.transform = rec
	}
	j := &job{dsm: dsm, id: jc.ID, title: jc.Title, pipeline: pl, schedule: "@every 2000s", runner: runner}

	runOnce := func() (outcome string, detail string) {
		defer func() {
			if r := recover(); r != nil {
				outcome = "panic"
				detail = fmt.Sprint(r)
			}
		}()
		_ = store.DeleteObject(server.JobResultIndex, j.id)
		j.Run()
		res := &jobResult{}
		_ = store.GetObject(server.JobResultIndex, j.id, res)
		if res.ID == "" {
			return "noresult", ""
		}
		if res.LastError != "" {
			return "err", res.LastError
		}
		return "ok", ""
	}
	obs.Outcome, obs.Detail = runOnce()
	res := &jobResult{}
	_ = store.GetObject(server.JobResultIndex, j.id, res)
	obs.Result = res.ID != ""
	st := &SyncJobState{}
	_ = store.GetObject(server.JobDataIndex, j.id, st)
	obs.Token = st.ContinuationToken
	sink.mu.Lock()
	obs.Sink = sink.batches
	first := 0
	for _, b := range sink.batches {
		first += len(b)
	}
	sink.mu.Unlock()
	if rec != nil {
		rec.mu.Lock()
		obs.Seen = append([][]int{}, rec.seen...)
		rec.mu.Unlock()
		sort.SliceStable(obs.Seen, func(a, b int) bool {
			x, y := obs.Seen[a], obs.Seen[b]
			if len(x) == 0 || len(y) == 0 {
				return len(x) < len(y)
			}
			return x[0] < y[0]
		})
	}
	if obs.Outcome == "ok" && !c.Full {
		o2, _ := runOnce()
		if o2 == "ok" {
			total := 0
			sink.mu.Lock()
			for _, b := range sink.batches {
				total += len(b)
			}
			sink.mu.Unlock()
			obs.Rerun = total - first
		} else {
			obs.Rerun = -2
		}
	}
	if obs.Sink == nil {
		obs.Sink = [][]int{}
	}
	if obs.Seen == nil {
		obs.Seen = [][]int{}
	}
	return
}
