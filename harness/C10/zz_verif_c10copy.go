//go:build verif

// Injected into package jobs by `go build -overlay`.  Copy mode of the C10 driver: the job writes into a real
// DatasetSink, entity contents are rich (numbers of every shape, arrays, nested entities, references), and the sink
// is compared with the sink of a plain copy job (no transform) over the same source; then the job is run again from
// scratch (token reset) and as a full sync: neither may add a change to the sink.
package jobs

import (
	"bytes"
	"encoding/base64"
	"encoding/json"
	"fmt"
	"io"
	"net/http"
	"net/http/httptest"
	"os"
	"sort"
	"strconv"
	"sync/atomic"

	"github.com/DataDog/datadog-go/v5/statsd"
	"go.uber.org/zap"

	"github.com/mimiro-io/datahub/internal/conf"
	"github.com/mimiro-io/datahub/internal/security"
	"github.com/mimiro-io/datahub/internal/server"
)

var verifC10CopyJS = map[string]string{
	"identity": `function transform_entities(entities) { return entities; }`,
	// every value is read into JavaScript and written back (numbers go through a JS arithmetic no-op)
	"touch": `function transform_entities(entities) { for (var i = 0; i < entities.length; i++) { var e = entities[i];
		var ks = Object.keys(e.Properties); for (var j = 0; j < ks.length; j++) { var v = e.Properties[ks[j]];
		e.Properties[ks[j]] = (typeof v === "number") ? v * 1 : v; } } return entities; }`,
	// a fresh entity is built from the old one (AsEntity / NewEntity path)
	"rebuild": `function transform_entities(entities) { var r = []; for (var i = 0; i < entities.length; i++) { var e = entities[i];
		var c = NewEntity(); c.ID = e.ID; c.IsDeleted = e.IsDeleted; var ks = Object.keys(e.Properties);
		for (var j = 0; j < ks.length; j++) { c.Properties[ks[j]] = e.Properties[ks[j]]; }
		var rs = Object.keys(e.References); for (var j = 0; j < rs.length; j++) { c.References[rs[j]] = e.References[rs[j]]; }
		r.push(c); } return r; }`,
}

func verifC10Payload(n int) []byte {
	var b bytes.Buffer
	b.WriteString(`[{"id":"@context","namespaces":{"v":"http://v/"}}`)
	for i := 0; i < n; i++ {
		props := map[string]interface{}{"v:idx": i}
		switch i % 6 {
		case 0:
			props["v:f"] = 1.5
			props["v:neg"] = -7
		case 1:
			props["v:big"] = json.Number("9007199254740993")
			props["v:exp"] = json.Number("1e21")
			props["v:small"] = json.Number("0.000001")
		case 2:
			props["v:arr"] = []interface{}{1, 2.5, "x", true, json.Number("-0.0")}
			props["v:s"] = "txt"
		case 3:
			props["v:nested"] = map[string]interface{}{"id": "v:n" + strconv.Itoa(i), "props": map[string]interface{}{"v:q": 3, "v:w": 2.25}, "refs": map[string]interface{}{}}
		case 4:
			props["v:b"] = false
			props["v:zero"] = 0
			props["v:flt0"] = json.Number("3.0")
		case 5:
			props["v:narr"] = []interface{}{map[string]interface{}{"id": "v:m" + strconv.Itoa(i), "props": map[string]interface{}{"v:q": []interface{}{1, 2}}, "refs": map[string]interface{}{}}}
		}
		refs := map[string]interface{}{}
		if i%2 == 0 {
			refs["v:r"] = "v:e" + strconv.Itoa((i+1)%(n+1))
		}
		if i%3 == 0 {
			refs["v:rs"] = []interface{}{"v:e1", "v:e2"}
		}
		ent := map[string]interface{}{"id": "v:e" + strconv.Itoa(i), "props": props, "refs": refs}
		if i%7 == 6 {
			ent["deleted"] = true
		}
		j, _ := json.Marshal(ent)
		b.WriteString(",")
		b.Write(j)
	}
	b.WriteString("]")
	return b.Bytes()
}

func verifC10Dump(ds *server.Dataset) ([]string, error) {
	res, err := ds.GetEntities("", 0)
	if err != nil {
		return nil, err
	}
	out := make([]string, 0, len(res.Entities))
	for _, e := range res.Entities {
		j, _ := json.Marshal(map[string]interface{}{"id": e.ID, "deleted": e.IsDeleted, "props": e.Properties, "refs": e.References})
		// canonical: re-marshal through interface{} so that key order and number formatting are the same on both sides
		var v interface{}
		_ = json.Unmarshal(j, &v)
		j2, _ := json.Marshal(v)
		out = append(out, string(j2))
	}
	sort.Strings(out)
	return out, nil
}

func verifC10Count(ds *server.Dataset) int {
	n := 0
	_, _ = ds.ProcessChangesRaw(0, 0, false, func(b []byte) error { n++; return nil })
	return n
}

// VerifC10Copy executes one copy-mode case on a fresh store under dir.
func VerifC10Copy(c VerifC10Case, dir string) (obs VerifC10Obs) {
	obs.Rerun, obs.ReChanges, obs.FullChanges = -1, -1, -1
	obs.Sink, obs.Seen = [][]int{}, [][]int{}
	_ = os.MkdirAll(dir, 0o755)
	defer os.RemoveAll(dir)
	logger := zap.NewNop().Sugar()
	cfg := &conf.Config{Logger: logger, StoreLocation: dir, RunnerConfig: &conf.RunnerConfig{PoolIncremental: 10, PoolFull: 5, Concurrent: 0}}
	sd := &statsd.NoOpClient{}
	store := server.NewStore(cfg, sd)
	defer store.Close()
	pm := security.NewProviderManager(cfg, store, logger)
	tps := security.NewTokenProviders(logger, pm, nil)
	runner := NewRunner(cfg, store, tps, server.NoOpBus(), sd)
	dsm := server.NewDsManager(cfg, store, server.NoOpBus())
	sched := NewScheduler(cfg, store, dsm, runner)
	fail := func(what string, err error) VerifC10Obs {
		obs.Outcome = "setup-error"
		obs.Detail = what + ": " + err.Error()
		return obs
	}
	src, err := dsm.CreateDataset("src", nil)
	if err != nil {
		return fail("create", err)
	}
	for _, n := range []string{"dst", "ref"} {
		if _, err := dsm.CreateDataset(n, nil); err != nil {
			return fail("create", err)
		}
	}
	ents := make([]*server.Entity, 0, c.N)
	esp := server.NewEntityStreamParser(store)
	if err := esp.ParseStream(bytes.NewReader(verifC10Payload(c.N)), func(e *server.Entity) error { ents = append(ents, e); return nil }); err != nil {
		return fail("parse", err)
	}
	if len(ents) > 0 {
		if err := src.StoreEntities(ents); err != nil {
			return fail("store", err)
		}
	}
	code, ok := verifC10CopyJS[c.Kind]
	if c.Kind == "httpecho" || c.Kind == "httpctx" || c.Kind == "httpflaky" {
		ok = true
	}
	if !ok {
		obs.Outcome = "setup-error"
		obs.Detail = "unknown copy kind"
		return
	}
	mk := func(id, sinkName, transform string, jobType string) (*job, error) {
		jobJSON := fmt.Sprintf(`{"id":"%s","title":"%s","batchSize":%d,
			"triggers":[{"triggerType":"cron","jobType":"%s","schedule":"@every 2000s"}],
			"source":{"Type":"DatasetSource","Name":"src"},%s
			"sink":{"Type":"DatasetSink","Name":"%s"}}`, id, id, c.Batch, jobType, transform, sinkName)
		jc, err := sched.Parse([]byte(jobJSON))
		if err != nil {
			return nil, err
		}
		pl, err := sched.toPipeline(jc, jobType)
		if err != nil {
			return nil, err
		}
		return &job{dsm: dsm, id: jc.ID, title: jc.Title, pipeline: pl, schedule: "@every 2000s", runner: runner}, nil
	}
	tr := fmt.Sprintf(`"transform":{"Type":"JavascriptTransform","Parallelism":%d,"Code":"%s"},`, c.Par, base64.StdEncoding.EncodeToString([]byte(code)))
	var failNext int32
	if c.Kind == "httpecho" || c.Kind == "httpctx" || c.Kind == "httpflaky" {
		// an external transform service that sends back what it received (HttpTransform, without / with the namespace context);
		// httpflaky: it answers 503 once, to the first request of the final full-sync run
		srv := httptest.NewServer(http.HandlerFunc(func(w http.ResponseWriter, r *http.Request) {
			body, _ := io.ReadAll(r.Body)
			if atomic.CompareAndSwapInt32(&failNext, 1, 0) {
				w.WriteHeader(503)
				return
			}
			w.Header().Set("Content-Type", "application/json")
			w.WriteHeader(200)
			_, _ = w.Write(body)
		}))
		defer srv.Close()
		tr = fmt.Sprintf(`"transform":{"Type":"HttpTransform","Url":"%s","SupportContext":%v},`, srv.URL, c.Kind == "httpctx")
	}
	runJob := func(j *job) (outcome string, detail string) {
		defer func() {
			if r := recover(); r != nil {
				outcome = "panic"
				detail = fmt.Sprint(r)
			}
		}()
		_ = store.DeleteObject(server.JobResultIndex, j.id)
		j.Run()
		res := &jobResult{}
		_ = store.GetObject(server.JobResultIndex, j.id, res)
		if res.ID == "" {
			return "noresult", ""
		}
		if res.LastError != "" {
			return "err", res.LastError
		}
		return "ok", ""
	}
	jt, err := mk("jt", "dst", tr, JobTypeIncremental)
	if err != nil {
		return fail("job jt", err)
	}
	jr, err := mk("jr", "ref", "", JobTypeIncremental)
	if err != nil {
		return fail("job jr", err)
	}
	obs.Outcome, obs.Detail = runJob(jt)
	obs.Result = obs.Outcome != "noresult"
	if obs.Outcome != "ok" {
		return
	}
	if o, d := runJob(jr); o != "ok" {
		obs.Outcome, obs.Detail = "setup-error", "plain copy job: "+o+" "+d
		return
	}
	dst, ref := dsm.GetDataset("dst"), dsm.GetDataset("ref")
	a, err1 := verifC10Dump(dst)
	b, err2 := verifC10Dump(ref)
	if err1 != nil || err2 != nil {
		obs.Outcome, obs.Detail = "setup-error", "dump failed"
		return
	}
	obs.DstEq = len(a) == len(b)
	for i := 0; obs.DstEq && i < len(a); i++ {
		if a[i] != b[i] {
			obs.DstEq = false
			obs.Detail = "transformed: " + a[i] + " plain copy: " + b[i]
		}
	}
	if len(a) != len(b) {
		obs.Detail = fmt.Sprintf("sink has %d entities, plain copy %d", len(a), len(b))
	}
	obs.DstChanges = verifC10Count(dst)
	obs.RefChanges = verifC10Count(ref)
	// run again from scratch: the stored token is removed, every source entity flows through the transform again
	before := verifC10Count(dst)
	_ = store.DeleteObject(server.JobDataIndex, jt.id)
	if o, _ := runJob(jt); o == "ok" {
		obs.ReChanges = verifC10Count(dst) - before
		if obs.ReChanges > 0 {
			// which entities were stored again, and as what
			_, _ = dst.ProcessChangesRaw(uint64(before), 0, false, func(b []byte) error {
				if len(obs.Detail) < 1500 {
					obs.Detail += " re-stored: " + string(b)
				}
				return nil
			})
		}
	} else {
		obs.ReChanges = -2
	}
	// and as a full sync
	jf, err := mk("jt", "dst", tr, JobTypeFull)
	if err == nil {
		before = verifC10Count(dst)
		if c.Kind == "httpflaky" {
			atomic.StoreInt32(&failNext, 1)
		}
		if o, _ := runJob(jf); o == "ok" {
			obs.FullChanges = verifC10Count(dst) - before
		} else {
			obs.FullChanges = -2
		}
	}
	return
}
