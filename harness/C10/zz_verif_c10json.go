//go:build verif

// Injected into package server by `go build -overlay`: calls the unexported toJsonValue on Go values built from a small
// description language and renders the result with its dynamic types, for the value-normalisation cases of C10.
package server

import (
	"fmt"
	"math"
	"sort"
)

// VerifGoValue builds a Go value from its description:
//   {"k":"int"|"int8"|...|"uint64","v":n}  {"k":"f32"|"f64","v":thousandths}  {"k":"str","v":code}  {"k":"bool","v":b}  {"k":"nil"}
//   {"k":"slice","v":[...]} ([]interface{})  {"k":"strslice","v":[codes]} ([]string)  {"k":"map","v":[[keycode, value],...]}
func VerifGoValue(d map[string]interface{}) interface{} {
	num := func() float64 { f, _ := d["v"].(float64); return f }
	switch d["k"] {
	case "int":
		return int(num())
	case "int8":
		return int8(num())
	case "int16":
		return int16(num())
	case "int32":
		return int32(num())
	case "int64":
		return int64(num())
	case "uint":
		return uint(num())
	case "uint8":
		return uint8(num())
	case "uint16":
		return uint16(num())
	case "uint32":
		return uint32(num())
	case "uint64":
		return uint64(num())
	case "f32":
		return float32(num() / 1000)
	case "f64":
		return num() / 1000
	case "str":
		return fmt.Sprintf("s%d", int(num()))
	case "bool":
		b, _ := d["v"].(bool)
		return b
	case "nil":
		return nil
	case "slice":
		l, _ := d["v"].([]interface{})
		out := make([]interface{}, 0, len(l))
		for _, x := range l {
			m, _ := x.(map[string]interface{})
			out = append(out, VerifGoValue(m))
		}
		return out
	case "strslice":
		l, _ := d["v"].([]interface{})
		out := make([]string, 0, len(l))
		for _, x := range l {
			f, _ := x.(float64)
			out = append(out, fmt.Sprintf("s%d", int(f)))
		}
		return out
	case "map":
		l, _ := d["v"].([]interface{})
		out := map[string]interface{}{}
		for _, x := range l {
			kv, _ := x.([]interface{})
			if len(kv) != 2 {
				continue
			}
			kf, _ := kv[0].(float64)
			m, _ := kv[1].(map[string]interface{})
			out[fmt.Sprintf("k%d", int(kf))] = VerifGoValue(m)
		}
		return out
	}
	return nil
}

func verifCode(s string) int {
	n := 0
	_, _ = fmt.Sscanf(s[1:], "%d", &n)
	return n
}

// verifRaw renders a Go value in the description language (dynamic types kept)
func verifRaw(v interface{}) map[string]interface{} {
	th := func(f float64) float64 { return math.Round(f * 1000) }
	switch x := v.(type) {
	case nil:
		return map[string]interface{}{"k": "nil"}
	case int:
		return map[string]interface{}{"k": "int", "v": x}
	case int8:
		return map[string]interface{}{"k": "int8", "v": x}
	case int16:
		return map[string]interface{}{"k": "int16", "v": x}
	case int32:
		return map[string]interface{}{"k": "int32", "v": x}
	case int64:
		return map[string]interface{}{"k": "int64", "v": x}
	case uint:
		return map[string]interface{}{"k": "uint", "v": x}
	case uint8:
		return map[string]interface{}{"k": "uint8", "v": x}
	case uint16:
		return map[string]interface{}{"k": "uint16", "v": x}
	case uint32:
		return map[string]interface{}{"k": "uint32", "v": x}
	case uint64:
		return map[string]interface{}{"k": "uint64", "v": x}
	case float32:
		return map[string]interface{}{"k": "f32", "v": th(float64(x))}
	case float64:
		return map[string]interface{}{"k": "f64", "v": th(x)}
	case string:
		return map[string]interface{}{"k": "str", "v": verifCode(x)}
	case bool:
		return map[string]interface{}{"k": "bool", "v": x}
	case []interface{}:
		out := []interface{}{}
		for _, e := range x {
			out = append(out, verifRaw(e))
		}
		return map[string]interface{}{"k": "slice", "v": out}
	case []string:
		out := []interface{}{}
		for _, e := range x {
			out = append(out, verifCode(e))
		}
		return map[string]interface{}{"k": "strslice", "v": out}
	case map[string]interface{}:
		keys := make([]string, 0, len(x))
		for k := range x {
			keys = append(keys, k)
		}
		sort.Slice(keys, func(a, b int) bool { return verifCode(keys[a]) < verifCode(keys[b]) })
		out := []interface{}{}
		for _, k := range keys {
			out = append(out, []interface{}{verifCode(k), verifRaw(x[k])})
		}
		return map[string]interface{}{"k": "map", "v": out}
	}
	return map[string]interface{}{"k": "other", "go": fmt.Sprintf("%T", v)}
}

// VerifToJsonValue: toJsonValue(v), rendered: {"t":"num","v":thousandths} {"t":"str","v":code} {"t":"bool","v":b} {"t":"nil"}
// {"t":"slice","v":[...]} {"t":"map","v":[[keycode, raw value],...]} {"t":"other","go":type}
func VerifToJsonValue(v interface{}) map[string]interface{} {
	r, _ := toJsonValue(v)
	return verifNorm(r)
}

func verifNorm(r interface{}) map[string]interface{} {
	switch x := r.(type) {
	case nil:
		return map[string]interface{}{"t": "nil"}
	case float64:
		return map[string]interface{}{"t": "num", "v": math.Round(x * 1000)}
	case string:
		return map[string]interface{}{"t": "str", "v": verifCode(x)}
	case bool:
		return map[string]interface{}{"t": "bool", "v": x}
	case []interface{}:
		out := []interface{}{}
		for _, e := range x {
			out = append(out, verifNorm(e))
		}
		return map[string]interface{}{"t": "slice", "v": out}
	case map[string]interface{}:
		return map[string]interface{}{"t": "map", "v": verifRaw(x)["v"]}
	}
	return map[string]interface{}{"t": "other", "go": fmt.Sprintf("%T", r)}
}
