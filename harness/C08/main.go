//go:build verif

// verif driver for property C08: reads one JSON case per line on stdin, writes one JSON observation per line.
package main

import (
	"bufio"
	"bytes"
	"encoding/json"
	"fmt"
	"io"
	"net/http"
	"net/http/httptest"
	"os"
	"strconv"
	"sync/atomic"

	"github.com/mimiro-io/datahub/internal/jobs"
	"github.com/mimiro-io/datahub/internal/server"
	"github.com/mimiro-io/datahub/internal/web"
)

// a hub endpoint for the job's http sink / http source: the real handlers, plus a scripted receiver fault
// (refuse every POST whose body mentions entity e<id> with 400, as the stream parser does for a bad entity)
func serverFactory(store *server.Store, dsm *server.DsManager) (string, func(int), func()) {
	e := web.VerifC08Echo(store, dsm)
	var reject int64 = -1
	h := http.HandlerFunc(func(w http.ResponseWriter, r *http.Request) {
		id := atomic.LoadInt64(&reject)
		if r.Method == http.MethodPost && id >= 0 {
			body, _ := io.ReadAll(r.Body)
			r.Body = io.NopCloser(bytes.NewReader(body))
			needle := []byte("/e" + strconv.FormatInt(id, 10) + "\"")
			needle2 := []byte(":e" + strconv.FormatInt(id, 10) + "\"")
			if bytes.Contains(body, needle) || bytes.Contains(body, needle2) {
				http.Error(w, "verif: receiver refuses entity", http.StatusBadRequest)
				return
			}
		}
		e.ServeHTTP(w, r)
	})
	srv := httptest.NewServer(h)
	return srv.URL, func(id int) { atomic.StoreInt64(&reject, int64(id)) }, srv.Close
}

func main() {
	dir := os.Args[1]
	jobs.VerifC08Server = serverFactory
	jobs.VerifC08DecodeSince = web.VerifC08DecodeSince
	in := bufio.NewScanner(os.Stdin)
	in.Buffer(make([]byte, 1<<20), 1<<26)
	out := bufio.NewWriter(os.Stdout)
	defer out.Flush()
	i := 0
	for in.Scan() {
		var c jobs.VerifC08Case
		if err := json.Unmarshal(in.Bytes(), &c); err != nil {
			fmt.Fprintln(os.Stderr, "bad case:", err)
			os.Exit(2)
		}
		obs := jobs.VerifC08Run(c, fmt.Sprintf("%s/c%d", dir, i))
		b, _ := json.Marshal(obs)
		out.WriteString("@@OBS ")
		out.Write(b)
		out.WriteString("\n")
		out.Flush()
		i++
	}
}
