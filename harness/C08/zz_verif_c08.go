//go:build verif

// Injected into package jobs by `go build -overlay` (never committed to /repo).
// Property C08: drives the real IncrementalPipeline / FullSyncPipeline with the real
// DatasetSource / UnionDatasetSource and the real datasetSink (wrapped by a scripted
// fault injector) through job.Run(), over histories of source writes and runs.
package jobs

import (
	"encoding/json"
	"errors"
	"fmt"
	"os"
	"sort"
	"strconv"
	"strings"
	"time"

	"github.com/DataDog/datadog-go/v5/statsd"
	"go.uber.org/zap"

	"context"

	"github.com/mimiro-io/datahub/internal/conf"
	jobSource "github.com/mimiro-io/datahub/internal/jobs/source"
	"github.com/mimiro-io/datahub/internal/security"
	"github.com/mimiro-io/datahub/internal/server"
	"github.com/mimiro-io/datahub/internal/verifhook"
)

type VerifC08Op struct {
	Op    string   `json:"op"` // w | sw | run | drop (delete the sink dataset) | create (create it again)
	K     int      `json:"k"`
	Es    [][4]int `json:"es"` // [id, p, q, deleted]
	Full  bool     `json:"full"`
	Fault string   `json:"fault"` // none | sinkfail | sinkpanic | kill | diebefore | dieafter | srcfail | sinkreject (at = entity id) | slow (at = ms slept per sink call)
	At    int      `json:"at"`
}

// set by the driver's main package (package jobs cannot import package web)
var (
	VerifC08Server      func(store *server.Store, dsm *server.DsManager) (url string, setReject func(id int), closeFn func())
	VerifC08DecodeSince func(token string) int
)

type VerifC08Case struct {
	Members int          `json:"members"`
	Union   bool         `json:"union"`
	Los     []bool       `json:"los"`
	Batch   int          `json:"batch"`
	Handlers []string    `json:"handlers"` // onError handlers of both triggers: requeue | rerun | log
	Sink     string      `json:"sink"`     // dataset (default) | http: HttpDatasetSink -> the hub's own POST handler
	DropIDs  []int       `json:"dropids"`  // a filtering transform (Go stub) that drops these entity ids
	SrcHTTP  bool        `json:"srchttp"`  // single source read through HttpDatasetSource from the hub's /changes handler (latestOnly = los[0], limit = batch)
	Ops     []VerifC08Op `json:"ops"`
}

type VerifC08RunObs struct {
	Outcome string   `json:"outcome"` // ok | failed | died | noresult
	Token   []int    `json:"token"`   // per member, -1 = empty string
	Sink    [][4]int `json:"sink"`    // latest view of the sink dataset, sorted by id
	SinkLen int      `json:"sinklen"` // length of the sink's change feed
	SrcLens []int    `json:"srclens"`
	SinkNew [][4]int `json:"sinknew"` // the entries this run appended to the sink's change feed
	Detail  string   `json:"detail,omitempty"`
}

type VerifC08Obs struct {
	Outcome string        `json:"outcome"` // ok | setup-error
	Runs    []VerifC08RunObs `json:"runs"`
	Srcs    [][][4]int    `json:"srcs"` // final change feeds of the source datasets
	Detail  string        `json:"detail,omitempty"`
}

type verifC08Death struct{}

// verifC08Sink wraps the real datasetSink with a scripted fault
type verifC08Sink struct {
	inner  Sink
	calls  int
	fault  string
	at     int
	runner *Runner
	jobID  string
	remote bool // http sink: the receiver refuses the entity, not this wrapper
}

func (s *verifC08Sink) GetConfig() map[string]interface{} { return s.inner.GetConfig() }
func (s *verifC08Sink) startFullSync(runner *Runner) error { return s.inner.startFullSync(runner) }
func (s *verifC08Sink) endFullSync(ctx context.Context, runner *Runner) error {
	return s.inner.endFullSync(ctx, runner)
}

func (s *verifC08Sink) processEntities(runner *Runner, entities []*server.Entity) error {
	i := s.calls
	s.calls++
	if s.fault == "sinkfail" && i == s.at {
		return errors.New("verif: scripted sink failure")
	}
	if s.fault == "slow" {
		time.Sleep(time.Duration(s.at) * time.Millisecond)
	}
	if s.fault == "sinkreject" && !s.remote {
		for _, e := range entities {
			if verifC08Tuple(e)[0] == s.at {
				return errors.New("verif: sink rejects entity")
			}
		}
	}
	err := s.inner.processEntities(runner, entities)
	if err != nil {
		return err
	}
	if s.fault == "sinkpanic" && i == s.at {
		panic(verifC08Death{})
	}
	if s.fault == "kill" && i == s.at {
		if rs := s.runner.raffle.runningJob(s.jobID); rs != nil {
			rs.cancel()
		}
	}
	return nil
}

// verifC08Source wraps the real source: the at-th call of ReadEntities of a run fails before reading
type verifC08Source struct {
	inner jobSource.Source
	calls int
	fault string
	at    int
}

func (s *verifC08Source) GetConfig() map[string]interface{} { return s.inner.GetConfig() }
func (s *verifC08Source) StartFullSync()                    { s.inner.StartFullSync() }
func (s *verifC08Source) EndFullSync()                      { s.inner.EndFullSync() }
func (s *verifC08Source) ReadEntities(ctx context.Context, since jobSource.DatasetContinuation, batchSize int,
	processEntities func([]*server.Entity, jobSource.DatasetContinuation) error,
) error {
	i := s.calls
	s.calls++
	if s.fault == "srcfail" && i == s.at {
		return errors.New("verif: scripted source failure")
	}
	return s.inner.ReadEntities(ctx, since, batchSize, processEntities)
}

// verifC08Drop is a filtering transform: it returns its input without the entities whose id is listed
type verifC08Drop struct{ ids map[int]bool }

func (t *verifC08Drop) GetConfig() map[string]interface{} {
	return map[string]interface{}{"Type": "VerifDropTransform"}
}
func (t *verifC08Drop) getParallelism() int            { return 1 }
func (t *verifC08Drop) EndStoreContext(s string) error { return nil }
func (t *verifC08Drop) transformEntities(runner *Runner, entities []*server.Entity, jobTag string) ([]*server.Entity, error) {
	out := make([]*server.Entity, 0, len(entities))
	for _, e := range entities {
		if !t.ids[verifC08Tuple(e)[0]] {
			out = append(out, e)
		}
	}
	return out, nil
}

func verifC08Value(code int) string {
	if code <= 0 {
		return ""
	}
	return strings.Repeat(string(rune('a'+(code-1)%3)), (code-1)/3+1)
}

func verifC08Code(v interface{}) int {
	s, ok := v.(string)
	if !ok || len(s) == 0 {
		return -1000
	}
	for i := 1; i < len(s); i++ {
		if s[i] != s[0] {
			return -1000
		}
	}
	return (len(s)-1)*3 + int(s[0]-'a') + 1
}

func verifC08Entity(t [4]int) *server.Entity {
	e := server.NewEntity("http://v/e"+strconv.Itoa(t[0]), 0)
	if t[1] != 0 {
		e.Properties["ns0:p"] = verifC08Value(t[1])
	}
	if t[2] != 0 {
		e.Properties["ns0:q"] = verifC08Value(t[2])
	}
	e.IsDeleted = t[3] != 0
	return e
}

func verifC08Tuple(e *server.Entity) [4]int {
	var t [4]int
	id := e.ID
	j := len(id)
	for j > 0 && id[j-1] >= '0' && id[j-1] <= '9' {
		j--
	}
	n, err := strconv.Atoi(id[j:])
	if err != nil {
		n = -1
	}
	t[0] = n
	extra := 0
	for k, v := range e.Properties {
		switch k {
		case "ns0:p":
			t[1] = verifC08Code(v)
		case "ns0:q":
			t[2] = verifC08Code(v)
		default:
			extra++
		}
	}
	if extra > 0 || len(e.References) > 0 {
		t[1] = -2000
	}
	if e.IsDeleted {
		t[3] = 1
	}
	return t
}

type verifC08Env struct {
	jobs   map[string]*job // "incremental" / "fullsync": the job objects, built once like AddJob does and reused
	sinks  map[string]*verifC08Sink
	srcs   map[string]jobSource.Source
	url    string // base url of the hub endpoint (http sink / http source)
	reject func(int)
	stop   func()
	lease  time.Duration
	dir    string
	cfg    *conf.Config
	store  *server.Store
	dsm    *server.DsManager
	runner *Runner
	sched  *Scheduler
}

func (env *verifC08Env) open() {
	logger := zap.NewNop().Sugar()
	env.cfg = &conf.Config{
		Logger:        logger,
		StoreLocation: env.dir,
		RunnerConfig:  &conf.RunnerConfig{PoolIncremental: 10, PoolFull: 5, Concurrent: 0},
	}
	if env.lease > 0 {
		env.cfg.FullsyncLeaseTimeout = env.lease
	}
	sd := &statsd.NoOpClient{}
	env.store = server.NewStore(env.cfg, sd)
	pm := security.NewProviderManager(env.cfg, env.store, logger)
	tps := security.NewTokenProviders(logger, pm, nil)
	env.runner = NewRunner(env.cfg, env.store, tps, server.NoOpBus(), sd)
	env.dsm = server.NewDsManager(env.cfg, env.store, server.NoOpBus())
	env.sched = NewScheduler(env.cfg, env.store, env.dsm, env.runner)
	if VerifC08Server != nil {
		env.url, env.reject, env.stop = VerifC08Server(env.store, env.dsm)
	}
}

func (env *verifC08Env) close() {
	if env.stop != nil {
		env.stop()
		env.stop = nil
	}
	if env.store != nil {
		_ = env.store.Close()
		env.store = nil
	}
}

const verifC08JobID = "j1"

func verifC08SrcName(k int) string { return "src" + strconv.Itoa(k) }

func verifC08Feed(ds *server.Dataset) ([][4]int, error) {
	out := make([][4]int, 0)
	_, err := ds.ProcessChanges(0, 0, false, func(e *server.Entity) {
		out = append(out, verifC08Tuple(e))
	})
	return out, err
}

func verifC08Token(union bool, members int, tok string) ([]int, error) {
	res := make([]int, members)
	for i := range res {
		res[i] = -1
	}
	if tok == "" {
		return res, nil
	}
	if !union {
		n, err := strconv.Atoi(tok)
		if err != nil && VerifC08DecodeSince != nil {
			// HttpDatasetSource: the hub's /changes token
			if m := VerifC08DecodeSince(tok); m >= 0 {
				n, err = m, nil
			}
		}
		if err != nil {
			return nil, fmt.Errorf("token %q", tok)
		}
		res[0] = n
		return res, nil
	}
	c := &jobSource.UnionDatasetContinuation{}
	if err := json.Unmarshal([]byte(tok), c); err != nil {
		return nil, err
	}
	if len(c.Tokens) != members {
		return nil, fmt.Errorf("union token with %d members", len(c.Tokens))
	}
	for i, t := range c.Tokens {
		if t.Token != "" {
			n, err := strconv.Atoi(t.Token)
			if err != nil {
				return nil, fmt.Errorf("token %q", t.Token)
			}
			res[i] = n
		}
		if c.DatasetNames[i] != verifC08SrcName(i) {
			return nil, fmt.Errorf("token names %v", c.DatasetNames)
		}
	}
	return res, nil
}

// VerifC08Run executes one case on a fresh store under dir.
func VerifC08Run(c VerifC08Case, dir string) (obs VerifC08Obs) {
	obs.Outcome = "ok"
	obs.Runs = make([]VerifC08RunObs, 0)
	obs.Srcs = make([][][4]int, 0)
	_ = os.MkdirAll(dir, 0o755)
	defer os.RemoveAll(dir)
	fail := func(where string, err error) VerifC08Obs {
		obs.Outcome = "setup-error"
		obs.Detail = where + ": " + err.Error()
		return obs
	}
	if c.Members < 1 || len(c.Los) != c.Members || (!c.Union && c.Members != 1) {
		return fail("case", errors.New("bad shape"))
	}
	env := &verifC08Env{dir: dir}
	for _, op := range c.Ops {
		if op.Op == "lease" {
			env.lease = time.Second
		}
	}
	httpSink := c.Sink == "http"
	if (httpSink || c.SrcHTTP) && VerifC08Server == nil {
		return fail("case", errors.New("no http server factory"))
	}
	if c.SrcHTTP && (c.Union || c.Members != 1) {
		return fail("case", errors.New("http source is a single source"))
	}
	env.open()
	defer func() { env.close() }()
	defer verifhook.SetHandler(nil)

	for k := 0; k < c.Members; k++ {
		if _, err := env.dsm.CreateDataset(verifC08SrcName(k), nil); err != nil {
			return fail("create", err)
		}
	}
	if _, err := env.dsm.CreateDataset("sink", nil); err != nil {
		return fail("create", err)
	}

	// the job configuration, parsed by the real scheduler code (built again after a restart: new endpoint url)
	jobConfigJSON := func(onError string) string {
		var srcJSON string
		batch := c.Batch
		switch {
		case c.Union:
			parts := make([]string, c.Members)
			for k := 0; k < c.Members; k++ {
				parts[k] = fmt.Sprintf(`{"Name":"%s","LatestOnly":%v}`, verifC08SrcName(k), c.Los[k])
			}
			srcJSON = `{"Type":"UnionDatasetSource","DatasetSources":[` + strings.Join(parts, ",") + `]}`
		case c.SrcHTTP:
			// the page size is the endpoint's own limit parameter; the job's batch size only cuts one response
			// into several callbacks, so it is kept above the limit
			srcJSON = fmt.Sprintf(`{"Type":"HttpDatasetSource","Url":"%s/datasets/src0/changes?latestOnly=%v&limit=%d"}`,
				env.url, c.Los[0], c.Batch)
			batch = 1000
		default:
			srcJSON = fmt.Sprintf(`{"Type":"DatasetSource","Name":"src0","LatestOnly":%v}`, c.Los[0])
		}
		sinkJSON := `{"Type":"DatasetSink","Name":"sink"}`
		if httpSink {
			sinkJSON = fmt.Sprintf(`{"Type":"HttpDatasetSink","Url":"%s/datasets/sink/entities"}`, env.url)
		}
		return fmt.Sprintf(`{"id":"%s","title":"%s","batchSize":%d,
		"triggers":[{"triggerType":"cron","jobType":"incremental","schedule":"@every 2000s"%s},
		            {"triggerType":"cron","jobType":"fullsync","schedule":"@every 4000s"%s}],
		"source":%s,"sink":%s}`, verifC08JobID, verifC08JobID, batch, onError, onError, srcJSON, sinkJSON)
	}
	hparts := make([]string, 0)
	for _, h := range c.Handlers {
		switch h {
		case "requeue":
			hparts = append(hparts, `{"errorHandler":"reQueue"}`)
		case "log":
			hparts = append(hparts, `{"errorHandler":"log"}`)
		case "rerun":
			// the retry is scheduled a day ahead: it never fires while the case runs
			hparts = append(hparts, `{"errorHandler":"reRun","maxRetries":100,"retryDelay":86400}`)
		default:
			return fail("case", errors.New("unknown handler "+h))
		}
	}
	onError := ""
	if len(hparts) > 0 {
		onError = `,"onError":[` + strings.Join(hparts, ",") + `]`
	}
	// the job objects are built once per process life by the scheduler's own code (verify +
	// toTriggeredJobs, as AddJob does) and reused for every run, like cron / onchange triggers do
	buildJobs := func() error {
		jc, err := env.sched.Parse([]byte(jobConfigJSON(onError)))
		if err != nil {
			return err
		}
		if err := env.sched.verify(jc); err != nil {
			return err
		}
		js, err := env.sched.toTriggeredJobs(jc)
		if err != nil {
			return err
		}
		env.jobs = map[string]*job{}
		env.sinks = map[string]*verifC08Sink{}
		env.srcs = map[string]jobSource.Source{}
		for _, j := range js {
			t := JobTypeIncremental
			if j.pipeline.isFullSync() {
				t = JobTypeFull
			}
			spec := j.pipeline.spec()
			switch spec.sink.(type) {
			case *datasetSink:
				if httpSink {
					return fmt.Errorf("sink is %T", spec.sink)
				}
			case *httpDatasetSink:
				if !httpSink {
					return fmt.Errorf("sink is %T", spec.sink)
				}
			default:
				return fmt.Errorf("sink is %T", spec.sink)
			}
			w := &verifC08Sink{inner: spec.sink, fault: "none", runner: env.runner, jobID: jc.ID, remote: httpSink}
			spec.sink = w
			if len(c.DropIDs) > 0 {
				d := &verifC08Drop{ids: map[int]bool{}}
				for _, id := range c.DropIDs {
					d.ids[id] = true
				}
				spec.transform = d
			}
			env.jobs[t] = j
			env.sinks[t] = w
			env.srcs[t] = spec.source
		}
		if env.jobs[JobTypeIncremental] == nil || env.jobs[JobTypeFull] == nil {
			return errors.New("triggers did not give both jobs")
		}
		return nil
	}
	if err := buildJobs(); err != nil {
		return fail("jobs", err)
	}

	runOnce := func(op VerifC08Op) (r VerifC08RunObs, fatal error) {
		jobType := JobTypeIncremental
		if op.Full {
			jobType = JobTypeFull
		}
		j := env.jobs[jobType]
		w := env.sinks[jobType]
		w.calls, w.fault, w.at, w.runner = 0, op.Fault, op.At, env.runner
		spec := j.pipeline.spec()
		spec.source = env.srcs[jobType]
		if op.Fault == "srcfail" {
			// (the wrapper hides the *DatasetSource type from FullSyncPipeline: a LatestOnly source is then not put
			// into fullsync mode, which for a local dataset selects the same ProcessChanges call)
			spec.source = &verifC08Source{inner: env.srcs[jobType], fault: op.Fault, at: op.At}
		}
		jcID := verifC08JobID
		if env.reject != nil {
			if op.Fault == "sinkreject" && httpSink {
				env.reject(op.At)
			} else {
				env.reject(-1)
			}
		}
		before := 0
		if sk := env.dsm.GetDataset("sink"); sk != nil {
			if f, err := verifC08Feed(sk); err == nil {
				before = len(f)
			}
		}
		hits := map[string]int{}
		verifhook.SetHandler(func(name string, arg string) {
			if arg != jcID {
				return
			}
			i := hits[name]
			hits[name] = i + 1
			if (op.Fault == "diebefore" && name == "pipeline.beforeToken" && i == op.At) ||
				(op.Fault == "dieafter" && name == "pipeline.afterToken" && i == op.At) {
				panic(verifC08Death{})
			}
		})
		_ = env.store.DeleteObject(server.JobResultIndex, j.id)
		died := false
		func() {
			defer func() {
				if x := recover(); x != nil {
					if _, ok := x.(verifC08Death); ok {
						died = true
					} else {
						r.Outcome = "panic"
						r.Detail = fmt.Sprint(x)
					}
				}
			}()
			j.Run()
		}()
		verifhook.SetHandler(nil)
		if died {
			// the process is gone: only what was persisted survives
			env.close()
			env.open()
			if err := buildJobs(); err != nil {
				return r, err
			}
			r.Outcome = "died"
		} else if r.Outcome == "" {
			res := &jobResult{}
			_ = env.store.GetObject(server.JobResultIndex, verifC08JobID, res)
			switch {
			case res.ID == "":
				r.Outcome = "noresult"
			case res.LastError != "":
				r.Outcome = "failed"
				r.Detail = res.LastError
			default:
				r.Outcome = "ok"
			}
		}
		st := &SyncJobState{}
		_ = env.store.GetObject(server.JobDataIndex, verifC08JobID, st)
		tok, err := verifC08Token(c.Union, c.Members, st.ContinuationToken)
		if err != nil {
			return r, err
		}
		r.Token = tok
		r.Sink = make([][4]int, 0)
		// the sink is what is registered under the NAME "sink" (nothing, while it is deleted)
		if sink := env.dsm.GetDataset("sink"); sink != nil {
			if _, err := sink.MapEntities("", -1, func(e *server.Entity) error {
				r.Sink = append(r.Sink, verifC08Tuple(e))
				return nil
			}); err != nil {
				return r, err
			}
			sort.Slice(r.Sink, func(a, b int) bool { return r.Sink[a][0] < r.Sink[b][0] })
			sf, err := verifC08Feed(sink)
			if err != nil {
				return r, err
			}
			r.SinkLen = len(sf)
			if before <= len(sf) {
				r.SinkNew = sf[before:]
			}
		}
		if r.SinkNew == nil {
			r.SinkNew = make([][4]int, 0)
		}
		r.SrcLens = make([]int, c.Members)
		for k := 0; k < c.Members; k++ {
			f, err := verifC08Feed(env.dsm.GetDataset(verifC08SrcName(k)))
			if err != nil {
				return r, err
			}
			r.SrcLens[k] = len(f)
		}
		return r, nil
	}

	for _, op := range c.Ops {
		switch op.Op {
		case "w", "sw":
			name := "sink"
			if op.Op == "w" {
				if op.K < 0 || op.K >= c.Members {
					return fail("op", errors.New("bad member"))
				}
				name = verifC08SrcName(op.K)
			}
			ds := env.dsm.GetDataset(name)
			if ds == nil {
				return fail("op", errors.New("no dataset "+name))
			}
			ents := make([]*server.Entity, len(op.Es))
			for i, t := range op.Es {
				ents[i] = verifC08Entity(t)
			}
			if err := ds.StoreEntities(ents); err != nil {
				return fail("store", err)
			}
		case "lease":
			// an http client opened a fullsync on the sink dataset without a sync id and went away
			sk := env.dsm.GetDataset("sink")
			if sk == nil {
				return fail("lease", errors.New("no sink"))
			}
			if err := sk.StartFullSyncWithLease(""); err != nil {
				return fail("lease", err)
			}
		case "drop":
			if err := env.dsm.DeleteDataset("sink"); err != nil {
				return fail("drop", err)
			}
		case "create":
			if _, err := env.dsm.CreateDataset("sink", nil); err != nil {
				return fail("create", err)
			}
		case "run":
			r, err := runOnce(op)
			if err != nil {
				return fail("run", err)
			}
			obs.Runs = append(obs.Runs, r)
		default:
			return fail("op", errors.New("unknown op "+op.Op))
		}
	}
	for k := 0; k < c.Members; k++ {
		f, err := verifC08Feed(env.dsm.GetDataset(verifC08SrcName(k)))
		if err != nil {
			return fail("feed", err)
		}
		obs.Srcs = append(obs.Srcs, f)
	}
	return obs
}
