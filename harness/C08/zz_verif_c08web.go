//go:build verif

// Injected into package web by `go build -overlay` (property C08): the hub's real dataset handlers behind an
// echo router, so that HttpDatasetSink / HttpDatasetSource of a job talk to the real receiving / serving code.
package web

import (
	"github.com/labstack/echo/v4"
	"go.uber.org/zap"

	"github.com/mimiro-io/datahub/internal/conf"
	"github.com/mimiro-io/datahub/internal/security"
	"github.com/mimiro-io/datahub/internal/server"
)

func VerifC08Echo(store *server.Store, dsm *server.DsManager) *echo.Echo {
	e := echo.New()
	e.HideBanner = true
	e.HidePort = true
	log := zap.NewNop().Sugar()
	e.Use(setupRecovery(log))
	cfg := &conf.Config{Logger: log}
	tps := security.NewTokenProviders(log, security.NewProviderManager(cfg, store, log), nil)
	h := &datasetHandler{datasetManager: dsm, store: store, eventBus: server.NoOpBus(), tokenProviders: tps}
	e.GET("/datasets/:dataset/entities", h.getEntitiesHandler)
	e.GET("/datasets/:dataset/changes", h.getChangesHandler)
	e.POST("/datasets/:dataset/entities", h.storeEntitiesHandler)
	return e
}

// VerifC08DecodeSince: the position inside a changes token (-1 if it does not decode)
func VerifC08DecodeSince(s string) int {
	n, err := decodeSince(s)
	if err != nil || uint64(n) > 1<<40 {
		return -1
	}
	return int(n)
}
