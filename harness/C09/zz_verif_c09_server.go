//go:build verif

// Injected into package server by `go build -overlay` (never committed to /repo).
// Read-only peeks at the full-sync state of a dataset for property C09.
package server

import (
	"runtime"
	"strings"
)

// VerifC09Peek returns (fullSyncStarted, lease present, fullSyncID).
func VerifC09Peek(ds *Dataset) (bool, bool, string) {
	return ds.fullSyncStarted, ds.fullSyncLease != nil, ds.fullSyncID
}

// VerifC09LeaseGoroutines counts the live lease-timer goroutines (the anonymous
// function started by RefreshFullSyncLease), by name in the goroutine dump.
var verifC09Buf = make([]byte, 1<<18)

func VerifC09LeaseGoroutines() int {
	buf := verifC09Buf
	for {
		n := runtime.Stack(buf, true)
		if n < len(buf) {
			buf = buf[:n]
			break
		}
		buf = make([]byte, 2*len(buf))
		verifC09Buf = buf
	}
	return strings.Count(string(buf), "RefreshFullSyncLease.func")
}
