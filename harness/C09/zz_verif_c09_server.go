//go:build verif

// Injected into package server by `go build -overlay` (never committed to /repo).
// Read-only peeks at the full-sync state of a dataset for property C09.
package server

import (
	"runtime"
	"strconv"
	"strings"
)

// VerifC09Peek returns (fullSyncStarted, lease present, fullSyncID).
func VerifC09Peek(ds *Dataset) (bool, bool, string) {
	return ds.fullSyncStarted, ds.fullSyncLease != nil, ds.fullSyncID
}

// VerifC09LeaseGoroutines counts the live lease-timer goroutines (the anonymous
// function started by RefreshFullSyncLease), by name in the goroutine dump.
var verifC09Buf = make([]byte, 1<<18)

func VerifC09LeaseGoroutines() int {
	buf := verifC09Buf
	for {
		n := runtime.Stack(buf, true)
		if n < len(buf) {
			buf = buf[:n]
			break
		}
		buf = make([]byte, 2*len(buf))
		verifC09Buf = buf
	}
	return strings.Count(string(buf), "RefreshFullSyncLease.func")
}

// VerifC09LeaseGoroutinesSettled reports whether every live lease-timer goroutine is parked in
// `<-ctx.Done()`, i.e. has already executed `currentFsID := ds.fullSyncID` (the goroutine reads the id it
// guards only when it is first scheduled; a history step must not overtake that read).
func VerifC09LeaseGoroutinesSettled() bool {
	buf := verifC09Buf
	for {
		n := runtime.Stack(buf, true)
		if n < len(buf) {
			buf = buf[:n]
			break
		}
		buf = make([]byte, 2*len(buf))
		verifC09Buf = buf
	}
	for _, g := range strings.Split(string(buf), "\n\n") {
		if !strings.Contains(g, "RefreshFullSyncLease.func") {
			continue
		}
		head := g
		if i := strings.Index(g, "\n"); i >= 0 {
			head = g[:i]
		}
		if !strings.Contains(head, "[chan receive") {
			return false
		}
	}
	return true
}

// VerifC09LeaseGoroutineIDs returns the goroutine ids of the live lease-timer goroutines (ids grow with
// creation, so a set taken at one moment identifies the timers that were already running then).
func VerifC09LeaseGoroutineIDs() map[int]bool {
	buf := verifC09Buf
	for {
		n := runtime.Stack(buf, true)
		if n < len(buf) {
			buf = buf[:n]
			break
		}
		buf = make([]byte, 2*len(buf))
		verifC09Buf = buf
	}
	ids := map[int]bool{}
	for _, g := range strings.Split(string(buf), "\n\n") {
		if !strings.Contains(g, "RefreshFullSyncLease.func") {
			continue
		}
		g = strings.TrimLeft(g, "\n")
		if !strings.HasPrefix(g, "goroutine ") {
			continue
		}
		rest := g[len("goroutine "):]
		if i := strings.IndexByte(rest, ' '); i > 0 {
			if id, err := strconv.Atoi(rest[:i]); err == nil {
				ids[id] = true
			}
		}
	}
	return ids
}
