//go:build verif

// Injected into package jobs by `go build -overlay` (never committed to /repo).
// Exposes the real datasetSink start/process/end of a fullsync job for property C09.
package jobs

import (
	"context"
	"encoding/json"
	"errors"

	"github.com/DataDog/datadog-go/v5/statsd"
	"go.uber.org/zap"

	jobSource "github.com/mimiro-io/datahub/internal/jobs/source"
	"github.com/mimiro-io/datahub/internal/server"
)

type VerifC09Sink struct {
	sink   Sink
	runner *Runner
}

func VerifC09NewSink(name string, store *server.Store, dm *server.DsManager) *VerifC09Sink {
	return &VerifC09Sink{
		sink:   &datasetSink{DatasetName: name, Store: store, DatasetManager: dm},
		runner: &Runner{store: store, eventBus: server.NoOpBus()},
	}
}

func (v *VerifC09Sink) Start() error { return v.sink.startFullSync(v.runner) }
func (v *VerifC09Sink) Process(ents []*server.Entity) error {
	if len(ents) == 0 { // FullSyncPipeline.sync does not call the sink for an empty page
		return nil
	}
	return v.sink.processEntities(v.runner, ents)
}
func (v *VerifC09Sink) End() error { return v.sink.endFullSync(context.Background(), v.runner) }

// EndCancelled is the end call of a job run whose context was cancelled after its last page.
func (v *VerifC09Sink) EndCancelled() error {
	ctx, cancel := context.WithCancel(context.Background())
	cancel()
	return v.sink.endFullSync(ctx, v.runner)
}

// ---- the same three calls issued by the real FullSyncPipeline.sync, page by page ----

type verifC09Cmd struct {
	kind int // 0 page | 1 last (empty) page | 2 source failure
	ents []*server.Entity
}

// verifC09Source is a scripted source: every ReadEntities call announces that the pipeline is idle
// (the previous page went through the sink) and then waits for the driver's next command.
type verifC09Source struct {
	cmd   chan verifC09Cmd
	ready chan struct{}
}

func (s *verifC09Source) GetConfig() map[string]interface{} {
	return map[string]interface{}{"Type": "VerifC09Source"}
}
func (s *verifC09Source) StartFullSync() {}
func (s *verifC09Source) EndFullSync()   {}
func (s *verifC09Source) ReadEntities(ctx context.Context, since jobSource.DatasetContinuation, batchSize int,
	process func([]*server.Entity, jobSource.DatasetContinuation) error,
) error {
	s.ready <- struct{}{}
	c := <-s.cmd
	switch c.kind {
	case 0:
		return process(c.ents, &jobSource.StringDatasetContinuation{Token: "more"})
	case 1:
		return process([]*server.Entity{}, &jobSource.StringDatasetContinuation{Token: ""})
	}
	return errors.New("verif: source failed")
}

// VerifC09Pipeline is one run of a fullsync job whose sink is the real datasetSink.
type VerifC09Pipeline struct {
	src  *verifC09Source
	done chan error
	over bool
}

// VerifC09StartPipeline starts FullSyncPipeline.sync in a goroutine and returns once the pipeline has
// called sink.startFullSync and asks the source for the first page.
// The sink object is the one of job n (shared with the direct calls): it is the identity of the job.
// onError is the trigger's `onError` JSON ("" = none), e.g. `[{"errorHandler":"log","maxItems":1}]`: the job is set up
// the way job.Run does it (verifyErrorHandlers, instrumentErrorHandling wrapping the sink) before sync is called.
func VerifC09StartPipeline(id string, vs *VerifC09Sink, store *server.Store, dm *server.DsManager, onError string) (*VerifC09Pipeline, error) {
	src := &verifC09Source{cmd: make(chan verifC09Cmd), ready: make(chan struct{})}
	pl := &FullSyncPipeline{PipelineSpec{
		source:    src,
		sink:      vs.sink,
		batchSize: 1000,
	}}
	runner := &Runner{store: store, eventBus: server.NoOpBus(), statsdClient: &statsd.NoOpClient{}, logger: zap.NewNop().Sugar()}
	j := &job{id: id, title: id, pipeline: pl, runner: runner, dsm: dm}
	if onError != "" {
		trigger := JobTrigger{TriggerType: TriggerTypeCron, JobType: JobTypeFull, Schedule: "@every 1h"}
		if err := json.Unmarshal([]byte(onError), &trigger.ErrorHandlers); err != nil {
			return &VerifC09Pipeline{over: true}, err
		}
		if err := verifyErrorHandlers(trigger, id, id); err != nil {
			return &VerifC09Pipeline{over: true}, err
		}
		j.errorHandlers = trigger.ErrorHandlers
		j.instrumentErrorHandling()
	}
	p := &VerifC09Pipeline{src: src, done: make(chan error, 1)}
	go func() {
		_, err := pl.sync(j, context.Background())
		p.done <- err
	}()
	select {
	case <-src.ready:
		return p, nil
	case err := <-p.done:
		p.over = true
		if err == nil {
			err = errors.New("verif: pipeline ended before reading")
		}
		return p, err
	}
}

func (p *VerifC09Pipeline) Running() bool { return !p.over }

// Page hands one non-empty page to the pipeline and returns when the sink has processed it.
func (p *VerifC09Pipeline) Page(ents []*server.Entity) error {
	p.src.cmd <- verifC09Cmd{kind: 0, ents: ents}
	select {
	case <-p.src.ready:
		return nil
	case err := <-p.done:
		p.over = true
		return err
	}
}

// End delivers the last (empty) page: the pipeline calls sink.endFullSync and returns.
func (p *VerifC09Pipeline) End() error {
	p.src.cmd <- verifC09Cmd{kind: 1}
	p.over = true
	return <-p.done
}

// Abort makes the source fail: the pipeline returns without calling sink.endFullSync.
func (p *VerifC09Pipeline) Abort() error {
	p.src.cmd <- verifC09Cmd{kind: 2}
	p.over = true
	return <-p.done
}

// ---- a fullsync job whose sink is the real httpDatasetSink (one sink object per job, reused across its runs,
// like the pipeline Scheduler.toTriggeredJobs builds once) posting to an in-process hub endpoint ----

type VerifC09HttpSink struct {
	sink   *httpDatasetSink
	runner *Runner
}

func VerifC09NewHttpSink(endpoint string, store *server.Store) *VerifC09HttpSink {
	return &VerifC09HttpSink{
		sink:   &httpDatasetSink{Endpoint: endpoint, Store: store, logger: zap.NewNop().Sugar()},
		runner: &Runner{store: store, eventBus: server.NoOpBus(), statsdClient: &statsd.NoOpClient{}, logger: zap.NewNop().Sugar()},
	}
}

func (v *VerifC09HttpSink) Start() error { return v.sink.startFullSync(v.runner) }
func (v *VerifC09HttpSink) Process(ents []*server.Entity) error {
	if len(ents) == 0 {
		return nil
	}
	return v.sink.processEntities(v.runner, ents)
}
func (v *VerifC09HttpSink) End() error { return v.sink.endFullSync(context.Background(), v.runner) }
