//go:build verif

// Injected into package web by `go build -overlay` (never committed to /repo).
package web

import (
	"github.com/labstack/echo/v4"
	"go.uber.org/zap"

	"github.com/mimiro-io/datahub/internal/server"
)

// VerifC09Register mounts the real entities POST handler (no authorizer middleware).
func VerifC09Register(e *echo.Echo, dm *server.DsManager, store *server.Store) {
	h := &datasetHandler{datasetManager: dm, store: store, eventBus: server.NoOpBus()}
	e.POST("/datasets/:dataset/entities", h.storeEntitiesHandler)
	// the real transaction endpoint (Store.ExecuteTransaction is the second caller of the write worker)
	th := &txnHandler{store: store, logger: zap.NewNop().Sugar()}
	e.POST("/transactions", th.processTransaction)
}
