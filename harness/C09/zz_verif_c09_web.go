//go:build verif

// Injected into package web by `go build -overlay` (never committed to /repo).
package web

import (
	"github.com/labstack/echo/v4"

	"github.com/mimiro-io/datahub/internal/server"
)

// VerifC09Register mounts the real entities POST handler (no authorizer middleware).
func VerifC09Register(e *echo.Echo, dm *server.DsManager, store *server.Store) {
	h := &datasetHandler{datasetManager: dm, store: store, eventBus: server.NoOpBus()}
	e.POST("/datasets/:dataset/entities", h.storeEntitiesHandler)
}
