//go:build verif

// verif driver for property C09: reads one JSON case (a history of full-sync events) per line on stdin,
// runs it against the real echo handler (POST /datasets/d/entities) and the real datasetSink
// start/process/end on a fresh store, writes one JSON observation per line.
package main

import (
	"bufio"
	"context"
	"encoding/json"
	"fmt"
	"net/http"
	"net/http/httptest"
	"os"
	"runtime"
	"sort"
	"strconv"
	"strings"
	"time"

	"github.com/DataDog/datadog-go/v5/statsd"
	"github.com/labstack/echo/v4"
	"go.uber.org/zap"

	"github.com/mimiro-io/datahub/internal/conf"
	"github.com/mimiro-io/datahub/internal/jobs"
	"github.com/mimiro-io/datahub/internal/server"
	"github.com/mimiro-io/datahub/internal/web"
)

type Event struct {
	K     string   `json:"k"` // http | txn | hstart | hbatch | hend | jstart | jbatch | jend | jabort | expire | pause | expire_old
	Start bool     `json:"start"`
	ID    int      `json:"id"` // 0 = no sync-id header
	End   bool     `json:"end"`
	N     int      `json:"n"`    // job instance
	Ents  [][3]int `json:"ents"` // [id, content, deleted]
	// jbatch in pipeline mode: an entity the sink refuses (nil reference, fresh id PoisonID) is inserted at this index
	Cancelled bool `json:"cancelled,omitempty"` // http end / jend: the request (run) context is already cancelled
	Poison   *int `json:"poison,omitempty"`
	PoisonID int  `json:"poison_id,omitempty"`
}

type Case struct {
	LeaseMs  int     `json:"lease_ms"`
	Pipeline bool    `json:"pipeline"` // job events go through the real FullSyncPipeline.sync where a run is in progress
	LongIDs  bool    `json:"long_ids"` // sync ids 1 and 2 are sent as 80+ byte strings that differ in their last byte only
	OnError  string  `json:"on_error"` // the job trigger's onError JSON for pipeline runs ("" = no error handler)
	Events   []Event `json:"events"`
}

type Step struct {
	Status  int      `json:"status"` // 0 ok | 1 conflict(409) | 2 gone(410) | 3 bad request | 4 server error | 5 other | 6 job error | 9 panic
	Changes int      `json:"changes"`
	Started bool     `json:"started"`
	Lease   bool     `json:"lease"`
	SyncID  string   `json:"syncid"`
	View    [][3]int `json:"view"`
	AtMs    float64  `json:"at_ms"`  // diagnostics: time since the oldest possibly-live lease timer was created
	LeaseMs int      `json:"lease_ms"`
}

type Obs struct {
	Outcome string `json:"outcome"` // ok | skipped | setup-error
	Steps   []Step `json:"steps"`
	Detail  string `json:"detail"`
	Tries   int    `json:"tries"`
}

var countBroken bool

// content codes 7 and 8: the entity additionally carries a nested sub-entity that is flagged deleted (the entity
// itself is live; its stored json contains `"deleted":true` inside the property value)
func nested(content int) string {
	if content == 7 || content == 8 {
		return fmt.Sprintf(`,"ex:line":{"id":"ex:l%d","deleted":true,"props":{"ex:q":%d},"refs":{}}`, content, content)
	}
	return ""
}

func payload(ents [][3]int) string {
	var sb strings.Builder
	sb.WriteString(`[{"id":"@context","namespaces":{"ex":"http://v/"}}`)
	for _, e := range ents {
		sb.WriteString(fmt.Sprintf(`,{"id":"ex:e%d","props":{"ex:p":%d%s},"refs":{}`, e[0], e[1], nested(e[1])))
		if e[2] != 0 {
			sb.WriteString(`,"deleted":true`)
		}
		sb.WriteString("}")
	}
	sb.WriteString("]")
	return sb.String()
}

func txnPayload(ents [][3]int) string {
	var sb strings.Builder
	sb.WriteString(`{"@context":{"namespaces":{"ex":"http://v/"}},"d":[`)
	for i, e := range ents {
		if i > 0 {
			sb.WriteString(",")
		}
		sb.WriteString(fmt.Sprintf(`{"id":"ex:e%d","props":{"ex:p":%d%s},"refs":{}`, e[0], e[1], nested(e[1])))
		if e[2] != 0 {
			sb.WriteString(`,"deleted":true`)
		}
		sb.WriteString("}")
	}
	sb.WriteString("]}")
	return sb.String()
}

// syncID is the header value of model sync id n (> 0).  With long ids, 1 and 2 share a 76-byte prefix.
func syncID(n int, long bool) string {
	if long && (n == 1 || n == 2) {
		return "fullsync/tenant-acme/export-nightly/dataset-d/region-eu-north-1/pool-7/run-0000" + strconv.Itoa(n)
	}
	return "sync-" + strconv.Itoa(n)
}

func statusClass(code int) int {
	switch code {
	case 200:
		return 0
	case 409:
		return 1
	case 410:
		return 2
	case 400:
		return 3
	case 500:
		return 4
	}
	return 5
}

func entID(e *server.Entity) int {
	id := e.ID
	j := len(id)
	for j > 0 && id[j-1] >= '0' && id[j-1] <= '9' {
		j--
	}
	n, err := strconv.Atoi(id[j:])
	if err != nil {
		return -1
	}
	return n
}

func observe(ds *server.Dataset, st *Step) error {
	view := make([][3]int, 0)
	_, err := ds.MapEntities("", -1, func(e *server.Entity) error {
		c := -1
		for _, v := range e.Properties {
			switch x := v.(type) {
			case float64:
				c = int(x)
			case int:
				c = x
			case int64:
				c = int(x)
			}
		}
		d := 0
		if e.IsDeleted {
			d = 1
		}
		view = append(view, [3]int{entID(e), c, d})
		return nil
	})
	if err != nil {
		return err
	}
	sort.Slice(view, func(a, b int) bool { return view[a][0] < view[b][0] })
	st.View = view
	ch, err := ds.GetChanges(0, 1000000, false)
	if err != nil {
		return err
	}
	st.Changes = len(ch.Entities)
	st.Started, st.Lease, st.SyncID = server.VerifC09Peek(ds)
	return nil
}


func runOnce(c Case, dir string) (obs Obs, taint bool) {
	_ = os.MkdirAll(dir, 0o755)
	defer os.RemoveAll(dir)
	timeout := time.Duration(c.LeaseMs) * time.Millisecond
	cfg := &conf.Config{Logger: zap.NewNop().Sugar(), StoreLocation: dir, FullsyncLeaseTimeout: timeout}
	store := server.NewStore(cfg, &statsd.NoOpClient{})
	defer store.Close()
	dsm := server.NewDsManager(cfg, store, server.NoOpBus())
	ds, err := dsm.CreateDataset("d", nil)
	if err != nil {
		obs.Outcome, obs.Detail = "setup-error", err.Error()
		return
	}
	e := echo.New()
	e.HideBanner = true
	web.VerifC09Register(e, dsm, store)
	sinks := map[int]*jobs.VerifC09Sink{}
	sinkOf := func(n int) *jobs.VerifC09Sink {
		if s, ok := sinks[n]; ok {
			return s
		}
		s := jobs.VerifC09NewSink("d", store, dsm)
		sinks[n] = s
		return s
	}
	// jobs with an HTTP sink: one real httpDatasetSink per job n, reused by all its runs, posting to this hub
	var srv *httptest.Server
	hsinks := map[int]*jobs.VerifC09HttpSink{}
	hsinkOf := func(n int) *jobs.VerifC09HttpSink {
		if srv == nil {
			srv = httptest.NewServer(e)
		}
		if s, ok := hsinks[n]; ok {
			return s
		}
		s := jobs.VerifC09NewHttpSink(srv.URL+"/datasets/d/entities", store)
		hsinks[n] = s
		return s
	}
	defer func() {
		if srv != nil {
			srv.Close()
		}
	}()
	// pipeline mode: job run n is a goroutine executing FullSyncPipeline.sync over a scripted source
	pipes := map[int]*jobs.VerifC09Pipeline{}
	var allPipes []*jobs.VerifC09Pipeline
	npipes := 0
	defer func() {
		for _, p := range allPipes {
			if p.Running() {
				_ = p.Abort() // the source fails: the pipeline returns without calling endFullSync
			}
		}
	}()
	parse := func(ents [][3]int) ([]*server.Entity, error) {
		out := make([]*server.Entity, 0, len(ents))
		esp := server.NewEntityStreamParser(store)
		err := esp.ParseStream(strings.NewReader(payload(ents)), func(e *server.Entity) error {
			out = append(out, e)
			return nil
		})
		return out, err
	}

	// lease timers still running when the case ends fire within one lease time; their goroutines only touch this
	// case's in-memory Dataset object (nothing of the code under test is used to clean up)

	var segStart time.Time
	inSeg := false
	oldIDs := map[int]bool{} // lease goroutines that were running at the last pause
	var oldDeadline, youngStart time.Time
	haveYoung := false
	lastEnd := time.Now()
	obs.Outcome = "ok"
	for _, ev := range c.Events {
		var st Step
		if ev.K == "pause" {
			// time passes, less than a lease: every timer running now is "old"; nothing may fire
			oldIDs = map[int]bool{}
			if !countBroken {
				oldIDs = server.VerifC09LeaseGoroutineIDs()
			}
			if len(oldIDs) > 0 {
				oldDeadline = lastEnd.Add(timeout)
				time.Sleep(timeout / 2)
				youngStart = time.Now()
				haveYoung = true
			}
			if err := observe(ds, &st); err != nil {
				obs.Outcome, obs.Detail = "setup-error", err.Error()
				return
			}
			st.AtMs, st.LeaseMs = float64(time.Since(segStart).Microseconds())/1000, c.LeaseMs
			obs.Steps = append(obs.Steps, st)
			lastEnd = time.Now()
			if inSeg && lastEnd.Sub(segStart) > timeout*85/100 {
				return obs, true
			}
			continue
		}
		if ev.K == "expire_old" {
			// the timers that were running at the last pause fire, the younger ones must not
			if countBroken {
				obs.Outcome, obs.Detail = "skipped", "lease goroutines not recognisable: cannot tell old timers from young ones"
				return
			}
			anyOld := func() bool {
				for id := range server.VerifC09LeaseGoroutineIDs() {
					if oldIDs[id] {
						return true
					}
				}
				return false
			}
			if len(oldIDs) > 0 && !anyOld() {
				oldIDs = map[int]bool{} // all of them were cancelled meanwhile: nothing to wait for
			}
			if len(oldIDs) > 0 {
				if d := time.Until(oldDeadline.Add(3 * time.Millisecond)); d > 0 {
					time.Sleep(d)
				}
				limit := time.Now().Add(20*timeout + 2*time.Second)
				for {
					if !anyOld() {
						break
					}
					if time.Now().After(limit) {
						obs.Outcome, obs.Detail = "skipped", "old lease goroutines did not finish within the poll bound"
						return
					}
					time.Sleep(200 * time.Microsecond)
				}
				runtime.Gosched()
				oldIDs = map[int]bool{}
				// whatever timer is alive now was created after the pause
				if haveYoung {
					segStart = youngStart
				}
				inSeg = len(server.VerifC09LeaseGoroutineIDs()) > 0
			}
			if err := observe(ds, &st); err != nil {
				obs.Outcome, obs.Detail = "setup-error", err.Error()
				return
			}
			st.AtMs, st.LeaseMs = float64(time.Since(segStart).Microseconds())/1000, c.LeaseMs
			obs.Steps = append(obs.Steps, st)
			lastEnd = time.Now()
			if inSeg && lastEnd.Sub(segStart) > timeout*85/100 {
				return obs, true
			}
			continue
		}
		if ev.K == "expire" {
			// realise "every outstanding lease timer fires": wait past the deadline of the youngest timer,
			// then until no lease goroutine is left
			if countBroken || server.VerifC09LeaseGoroutines() > 0 {
				deadline := lastEnd.Add(timeout + 3*time.Millisecond)
				if d := time.Until(deadline); d > 0 {
					time.Sleep(d)
				}
			}
			if countBroken {
				time.Sleep(2 * timeout)
			}
			limit := time.Now().Add(20*timeout + 2*time.Second)
			for server.VerifC09LeaseGoroutines() > 0 {
				if time.Now().After(limit) {
					obs.Outcome, obs.Detail = "skipped", "lease goroutines did not finish within the poll bound"
					return
				}
				time.Sleep(time.Millisecond)
			}
			runtime.Gosched()
			inSeg = false
			oldIDs = map[int]bool{}
			haveYoung = false
			if err := observe(ds, &st); err != nil {
				obs.Outcome, obs.Detail = "setup-error", err.Error()
				return
			}
			st.AtMs, st.LeaseMs = float64(time.Since(segStart).Microseconds())/1000, c.LeaseMs
			obs.Steps = append(obs.Steps, st)
			lastEnd = time.Now()
			continue
		}
		if !inSeg {
			segStart = time.Now()
			inSeg = true
		}
		func() {
			defer func() {
				if r := recover(); r != nil {
					st.Status = 9
					obs.Detail = fmt.Sprint(r)
				}
			}()
			switch ev.K {
			case "http":
				req := httptest.NewRequest(http.MethodPost, "/datasets/d/entities", strings.NewReader(payload(ev.Ents)))
				if ev.Cancelled {
					cctx, cancel := context.WithCancel(context.Background())
					cancel() // the client of this request is gone
					req = req.WithContext(cctx)
				} else {
					req = req.WithContext(context.Background())
				}
				req.Header.Set("Content-Type", "application/json")
				if ev.Start {
					req.Header.Set("universal-data-api-full-sync-start", "true")
				}
				if ev.ID != 0 {
					req.Header.Set("universal-data-api-full-sync-id", syncID(ev.ID, c.LongIDs))
				}
				if ev.End {
					req.Header.Set("universal-data-api-full-sync-end", "true")
				}
				rec := httptest.NewRecorder()
				e.ServeHTTP(rec, req)
				st.Status = statusClass(rec.Code)
			case "txn":
				req := httptest.NewRequest(http.MethodPost, "/transactions", strings.NewReader(txnPayload(ev.Ents)))
				req.Header.Set("Content-Type", "application/json")
				rec := httptest.NewRecorder()
				e.ServeHTTP(rec, req)
				st.Status = statusClass(rec.Code)
			case "hstart":
				if err := hsinkOf(ev.N).Start(); err != nil {
					st.Status = 6
				}
			case "hbatch":
				ents, err := parse(ev.Ents)
				if err == nil {
					err = hsinkOf(ev.N).Process(ents)
				}
				if err != nil {
					st.Status = 6
				}
			case "hend":
				if err := hsinkOf(ev.N).End(); err != nil {
					st.Status = 6
				}
			case "jstart":
				if c.Pipeline {
					// an earlier unfinished run of n stays blocked in its source: an abandoned job
					npipes++
					p, err := jobs.VerifC09StartPipeline(fmt.Sprintf("verif-c09-%d-%d", ev.N, npipes), sinkOf(ev.N), store, dsm, c.OnError)
					pipes[ev.N] = p
					allPipes = append(allPipes, p)
					if err != nil {
						st.Status = 6
					}
				} else if err := sinkOf(ev.N).Start(); err != nil {
					st.Status = 6
				}
			case "jbatch":
				ents, err := parse(ev.Ents)
				if err == nil {
					if ev.Poison != nil {
						pe, perr := parse([][3]int{{ev.PoisonID, 1, 0}})
						if perr != nil || len(pe) != 1 {
							panic("cannot build the refused entity")
						}
						pe[0].References["ex:r"] = nil // StoreEntities: "encountered nil ref, cannot store entity"
						k := *ev.Poison
						if k < 0 || k > len(ents) {
							k = len(ents)
						}
						ents = append(ents[:k:k], append(pe, ents[k:]...)...)
					}
					if p := pipes[ev.N]; c.Pipeline && p != nil && p.Running() {
						if len(ents) > 0 { // an empty page would end the run
							err = p.Page(ents)
						}
					} else {
						err = sinkOf(ev.N).Process(ents)
					}
				}
				if err != nil {
					st.Status = 6
				}
			case "jabort":
				// the job fails between two pages: FullSyncPipeline.sync must return without touching the sink
				if p := pipes[ev.N]; c.Pipeline && p != nil && p.Running() {
					_ = p.Abort()
				}
			case "jend":
				var err error
				if ev.Cancelled {
					err = sinkOf(ev.N).EndCancelled()
				} else if p := pipes[ev.N]; c.Pipeline && p != nil && p.Running() {
					err = p.End()
				} else {
					err = sinkOf(ev.N).End()
				}
				if err != nil {
					st.Status = 6
				}
			default:
				st.Status = 5
			}
		}()
		// let a freshly started lease goroutine read the sync id it guards (and cancelled ones end) before the
		// next step of the history: the code reads ds.fullSyncID inside the goroutine, not at creation
		if !countBroken {
			settleLimit := time.Now().Add(500 * time.Millisecond)
			for !server.VerifC09LeaseGoroutinesSettled() {
				if time.Now().After(settleLimit) {
					return obs, true
				}
				runtime.Gosched()
				time.Sleep(20 * time.Microsecond)
			}
		} else {
			for i := 0; i < 3; i++ {
				runtime.Gosched()
			}
			time.Sleep(200 * time.Microsecond)
		}
		if err := observe(ds, &st); err != nil {
			obs.Outcome, obs.Detail = "setup-error", err.Error()
			return
		}
		st.AtMs, st.LeaseMs = float64(time.Since(segStart).Microseconds())/1000, c.LeaseMs
		obs.Steps = append(obs.Steps, st)
		lastEnd = time.Now()
		if lastEnd.Sub(segStart) > timeout*85/100 {
			return obs, true
		}
	}
	return
}

func runCase(c Case, dir string) Obs {
	if c.LeaseMs <= 0 {
		c.LeaseMs = 60
	}
	var obs Obs
	for try := 1; try <= 5; try++ {
		o, taint := runOnce(c, fmt.Sprintf("%s-t%d", dir, try))
		obs = o
		obs.Tries = try
		if !taint {
			return obs
		}
		c.LeaseMs *= 2 // slower machine than expected: give the segment more room
	}
	obs.Outcome, obs.Detail = "skipped", "a segment of the history took longer than 85% of the lease timeout in 5 attempts"
	obs.Steps = nil
	return obs
}

// selfTest checks that the lease goroutine can be recognised in a goroutine dump: one shows up when a lease is
// taken and it is gone again after the lease time (no cancel involved: nothing but the timer itself is relied on).
// One successful attempt is enough; an attempt can fail for timing reasons only (the process was descheduled for
// longer than the lease between taking it and looking), so it is repeated with longer leases before giving up.
func selfTest(dir string) {
	for attempt := 1; attempt <= 5; attempt++ {
		if selfTestOnce(fmt.Sprintf("%s-%d", dir, attempt), time.Duration(attempt)*300*time.Millisecond) {
			countBroken = false
			return
		}
	}
	countBroken = true
}

func selfTestOnce(dir string, timeout time.Duration) bool {
	_ = os.MkdirAll(dir, 0o755)
	defer os.RemoveAll(dir)
	cfg := &conf.Config{Logger: zap.NewNop().Sugar(), StoreLocation: dir, FullsyncLeaseTimeout: timeout}
	store := server.NewStore(cfg, &statsd.NoOpClient{})
	defer store.Close()
	dsm := server.NewDsManager(cfg, store, server.NoOpBus())
	ds, err := dsm.CreateDataset("d", nil)
	if err != nil {
		return false
	}
	// leftovers of an earlier attempt end by themselves
	limit := time.Now().Add(20*timeout + 2*time.Second)
	for server.VerifC09LeaseGoroutines() != 0 && time.Now().Before(limit) {
		time.Sleep(time.Millisecond)
	}
	before := server.VerifC09LeaseGoroutines()
	_ = ds.StartFullSyncWithLease("x")
	during := server.VerifC09LeaseGoroutines()
	ids := len(server.VerifC09LeaseGoroutineIDs())
	ok := false
	limit = time.Now().Add(20*timeout + 2*time.Second)
	for time.Now().Before(limit) {
		if server.VerifC09LeaseGoroutines() == 0 {
			ok = true
			break
		}
		time.Sleep(time.Millisecond)
	}
	return before == 0 && during == 1 && ids == 1 && ok
}

func main() {
	dir := os.Args[1]
	selfTest(dir + "/selftest")
	in := bufio.NewScanner(os.Stdin)
	in.Buffer(make([]byte, 1<<20), 1<<26)
	out := bufio.NewWriter(os.Stdout)
	defer out.Flush()
	i := 0
	for in.Scan() {
		var c Case
		if err := json.Unmarshal(in.Bytes(), &c); err != nil {
			fmt.Fprintln(os.Stderr, "bad case:", err)
			os.Exit(2)
		}
		obs := runCase(c, fmt.Sprintf("%s/c%d", dir, i))
		if obs.Steps == nil {
			obs.Steps = []Step{}
		}
		if countBroken {
			obs.Detail += " [lease goroutine not recognisable: sleep-based expiry]"
		}
		b, _ := json.Marshal(obs)
		out.WriteString("@@OBS ")
		out.Write(b)
		out.WriteString("\n")
		out.Flush()
		i++
	}
}
