//go:build verif

// Injected into package dataset by `go build -overlay`: reaches the unexported CompactionWorker.compact
// and deduplicationStrategy.flushAfter, exactly as internal/service/dataset/compact_test.go does.
package dataset

import (
	"go.uber.org/zap"

	"github.com/mimiro-io/datahub/internal/server"
)

// VerifCompact runs the deduplication compaction synchronously; threshold <= 0 = the default (100000).
func VerifCompact(store *server.Store, dsm *server.DsManager, ds string, threshold int) error {
	c := NewCompactor(store, dsm, zap.NewNop().Sugar())
	s := DeduplicationStrategy()
	s.(*deduplicationStrategy).flushAfter = threshold
	return c.compact(ds, s)
}
