//go:build verif

// Injected into package server by `go build -overlay` (never committed to /repo).
// C12's own copy of harness/store/zz_verif_store.go (interpreter for histories of store operations)
// extended with: compact (threshold, crash at the k-th flush, a writer racing at the k-th flush),
// dup (legacy duplicate version injected with raw key deletes) and raw (key-level dump of a dataset).
package server

import (
	"bytes"
	"encoding/binary"
	"encoding/json"
	"fmt"
	"os"
	"sort"
	"strings"
	"time"

	"github.com/DataDog/datadog-go/v5/statsd"
	"github.com/dgraph-io/badger/v4"
	"go.uber.org/zap"

	"github.com/mimiro-io/datahub/internal/conf"
	"github.com/mimiro-io/datahub/internal/verifhook"
)

// VerifCompactFn is set by the driver main to dataset.VerifCompact (package dataset imports server).
var VerifCompactFn func(store *Store, dsm *DsManager, ds string, threshold int) error

type VerifRace struct {
	At   int        `json:"at"` // the write is committed at the at-th compact.beforeFlush (1-based)
	Ents []VerifEnt `json:"ents"`
}

type verifCrash struct{}

// raw key-level dump of one dataset; times are given as the index of the write op that committed them (-1 unknown)
type VerifRawVer struct {
	ID   string `json:"id"`
	Op   int    `json:"op"`
	Bidx int    `json:"bidx"`
	Seq  int64  `json:"seq,omitempty"`
	Miss bool   `json:"miss,omitempty"` // the JSON key a change-log entry / latest pointer names does not exist
}

type VerifRaw struct {
	Versions []VerifRawVer `json:"versions"` // JSON keys in key order per entity (entities in internal-id order)
	Log      []VerifRawVer `json:"log"`      // change log in sequence order
	Latest   []VerifRawVer `json:"latest"`   // latest pointers in internal-id order
	Out      int           `json:"out"`      // number of outgoing / incoming reference keys of the dataset
	In       int           `json:"in"`
}


type VerifEnt struct {
	ID      string                 `json:"id"`
	Deleted bool                   `json:"deleted,omitempty"`
	Props   map[string]interface{} `json:"props"`
	Refs    map[string]interface{} `json:"refs"`
}

type VerifSet struct {
	Ds   string     `json:"ds"`
	Ents []VerifEnt `json:"ents"`
}

type VerifTimeRef struct {
	AfterOp int  `json:"after_op"` // index of a write op of this history
	Exact   bool `json:"exact"`    // exactly the commit time of that op (if it stored anything), else an instant after it
}

type VerifOp struct {
	Op       string        `json:"op"` // batch | txn | changes | entities | get | related | create | restart
	Ds       string        `json:"ds,omitempty"`
	Ents     []VerifEnt    `json:"ents,omitempty"`
	Sets     []VerifSet    `json:"sets,omitempty"`
	Since    int64         `json:"since,omitempty"`
	Reader   string        `json:"reader,omitempty"` // token-carrying reader: since is taken from its last token
	Limit    int           `json:"limit,omitempty"`
	Limits   []int         `json:"limits,omitempty"` // entities/related: limit per page, last one repeated
	Latest   bool          `json:"latest,omitempty"`
	Reverse  bool          `json:"reverse,omitempty"`
	ID       string        `json:"id,omitempty"`
	Datasets []string      `json:"datasets,omitempty"`
	Merge    bool          `json:"merge,omitempty"`
	Pred     string        `json:"pred,omitempty"`
	Inverse  bool          `json:"inverse,omitempty"`
	Starts   []string      `json:"starts,omitempty"`
	At       *VerifTimeRef `json:"at,omitempty"`
	// compact
	Threshold int        `json:"threshold,omitempty"`
	CrashAt   int        `json:"crash_at,omitempty"` // panic at the k-th compact.beforeFlush (1-based), then reopen the store
	CrashAfter int       `json:"crash_after,omitempty"` // panic at the k-th compact.afterFlush (1-based: k flush transactions committed), then reopen
	Race      *VerifRace `json:"race,omitempty"`
}

type VerifCase struct {
	Datasets []string  `json:"datasets"`
	Ops      []VerifOp `json:"ops"`
}

type VerifOut struct {
	Ent *VerifEnt `json:"ent,omitempty"`
}

type VerifRel struct {
	Start string `json:"start"`
	Pred  string `json:"pred"`
	ID    string `json:"id"`
}

type VerifOpObs struct {
	Err     string       `json:"err,omitempty"`
	Panic   string       `json:"panic,omitempty"`
	Lens    []int        `json:"lens,omitempty"`  // batch/txn: serialized length of each posted entity (internalId, recorded zeroed)
	Time    int64        `json:"time,omitempty"`  // batch/txn: commit time (recorded) if anything was stored
	Ents    []VerifEnt   `json:"ents,omitempty"`  // changes / get
	Next    int64        `json:"next,omitempty"`  // changes: next token
	Pages   [][]VerifEnt `json:"pages,omitempty"` // entities
	RPages  [][]VerifRel `json:"rpages,omitempty"`
	Found   bool         `json:"found,omitempty"`
	NewSeqs int          `json:"newseqs,omitempty"`
	Flushes int          `json:"flushes,omitempty"` // compact: number of compact.beforeFlush points reached
	Crashed bool         `json:"crashed,omitempty"`
	Raced   bool         `json:"raced,omitempty"`
	Raw     *VerifRaw    `json:"raw,omitempty"`
}

type VerifObs struct {
	Outcome string            `json:"outcome"`
	Detail  string            `json:"detail,omitempty"`
	Ops     []VerifOpObs      `json:"ops"`
	Ns      map[string]string `json:"ns"`
}

func verifPayload(ents []VerifEnt) []byte {
	var b bytes.Buffer
	b.WriteString(`[{"id":"@context","namespaces":{"_":"http://v/"}}`)
	for _, e := range ents {
		if e.Props == nil {
			e.Props = map[string]interface{}{}
		}
		if e.Refs == nil {
			e.Refs = map[string]interface{}{}
		}
		j, _ := json.Marshal(e)
		b.WriteString(",")
		b.Write(j)
	}
	b.WriteString("]")
	return b.Bytes()
}

func verifParse(store *Store, ents []VerifEnt) ([]*Entity, error) {
	esp := NewEntityStreamParser(store)
	res := make([]*Entity, 0)
	err := esp.ParseStream(bytes.NewReader(verifPayload(ents)), func(e *Entity) error {
		res = append(res, e)
		return nil
	})
	return res, err
}

func verifLen(e *Entity) int {
	c := *e
	c.InternalID = 0
	c.Recorded = 0
	j, _ := json.Marshal(&c)
	return len(j)
}

func verifOutEnt(e *Entity) VerifEnt {
	// round trip through JSON so that nested entities etc. come out as plain maps
	j, _ := json.Marshal(e)
	var m struct {
		ID      string                 `json:"id"`
		Deleted bool                   `json:"deleted"`
		Props   map[string]interface{} `json:"props"`
		Refs    map[string]interface{} `json:"refs"`
	}
	_ = json.Unmarshal(j, &m)
	return VerifEnt{ID: m.ID, Deleted: m.Deleted, Props: m.Props, Refs: m.Refs}
}

type verifHub struct {
	dir   string
	store *Store
	dsm   *DsManager
}

func (h *verifHub) open() {
	cfg := &conf.Config{Logger: zap.NewNop().Sugar(), StoreLocation: h.dir}
	h.store = NewStore(cfg, &statsd.NoOpClient{})
	h.dsm = NewDsManager(cfg, h.store, NoOpBus())
}

func (h *verifHub) close() {
	if h.store != nil {
		_ = h.store.Close()
		h.store = nil
	}
}

// VerifStoreRun executes one history on a fresh store under dir.
func VerifStoreRun(c VerifCase, dir string) (obs VerifObs) {
	_ = os.MkdirAll(dir, 0o755)
	defer os.RemoveAll(dir)
	h := &verifHub{dir: dir}
	h.open()
	defer h.close()
	obs.Outcome = "ok"
	obs.Ops = make([]VerifOpObs, 0, len(c.Ops))
	for _, d := range c.Datasets {
		if _, err := h.dsm.CreateDataset(d, nil); err != nil {
			obs.Outcome = "setup-error"
			obs.Detail = err.Error()
			return
		}
	}
	times := make(map[int]int64)
	tokens := make(map[string]int64)
	verifTimeOp = make(map[int64]int)
	for i, op := range c.Ops {
		oo := verifDoOp(h, op, i, times, tokens)
		obs.Ops = append(obs.Ops, oo)
	}
	obs.Ns = h.store.NamespaceManager.GetPrefixToExpansionMap()
	cp := make(map[string]string)
	for k, v := range obs.Ns {
		cp[k] = v
	}
	obs.Ns = cp
	return
}

var verifTimeOp map[int64]int // commit time -> index of the op that wrote it

func verifAt(op VerifOp, times map[int]int64) (int64, bool) {
	if op.At == nil {
		return 0, false
	}
	if op.At.Exact {
		if t, ok := times[-1-op.At.AfterOp]; ok && t > 0 {
			return t, true
		}
	}
	return times[op.At.AfterOp], true
}

// record the instants of write op idx: times[idx] = an instant after it, times[-1-idx] = its commit time (0 if it stored nothing)
func verifStamp(idx int, times map[int]int64, last int64, prevAfter int64) {
	if last > prevAfter {
		times[-1-idx] = last
	} else {
		times[-1-idx] = 0
	}
	time.Sleep(time.Microsecond)
	times[idx] = time.Now().UnixNano()
	time.Sleep(time.Microsecond)
}

func verifLastTime(ds *Dataset) int64 {
	var t int64
	_, _ = ds.ProcessChanges(0, 0, false, func(e *Entity) {
		if int64(e.Recorded) > t {
			t = int64(e.Recorded)
		}
	})
	return t
}

func verifDoOp(h *verifHub, op VerifOp, idx int, times map[int]int64, tokens map[string]int64) (oo VerifOpObs) {
	defer func() {
		if r := recover(); r != nil {
			oo.Panic = fmt.Sprint(r)
		}
	}()
	store := h.store
	switch op.Op {
	case "create":
		if _, err := h.dsm.CreateDataset(op.Ds, nil); err != nil {
			oo.Err = err.Error()
		}
	case "restart":
		h.close()
		h.open()
	case "batch":
		ds := h.dsm.GetDataset(op.Ds)
		if ds == nil {
			oo.Err = "no dataset"
			return
		}
		ents, err := verifParse(store, op.Ents)
		if err != nil {
			oo.Err = "parse: " + err.Error()
			return
		}
		for _, e := range ents {
			oo.Lens = append(oo.Lens, verifLen(e))
		}
		before, _ := ds.GetChangesWatermark2()
		if err := ds.StoreEntities(ents); err != nil {
			oo.Err = err.Error()
		}
		after, _ := ds.GetChangesWatermark2()
		oo.NewSeqs = int(after - before)
		oo.Time = verifLastTime(ds)
		if oo.NewSeqs > 0 {
			verifTimeOp[oo.Time] = idx
		}
		verifStamp(idx, times, oo.Time, times[1<<30])
		times[1<<30] = times[idx]
	case "compact":
		verifCompactOp(h, op, idx, times, &oo)
	case "dup":
		verifDupOp(h, op, idx, times, &oo)
	case "raw":
		ds := h.dsm.GetDataset(op.Ds)
		if ds == nil {
			oo.Err = "no dataset"
			return
		}
		oo.Raw = verifRawDump(h, ds)
	case "txn":
		txn := &Transaction{DatasetEntities: make(map[string][]*Entity)}
		for _, s := range op.Sets {
			ents, err := verifParse(store, s.Ents)
			if err != nil {
				oo.Err = "parse: " + err.Error()
				return
			}
			for _, e := range ents {
				oo.Lens = append(oo.Lens, verifLen(e))
			}
			txn.DatasetEntities[s.Ds] = append(txn.DatasetEntities[s.Ds], ents...)
		}
		if err := store.ExecuteTransaction(txn); err != nil {
			oo.Err = err.Error()
		}
		var t int64
		for _, s := range op.Sets {
			if ds := h.dsm.GetDataset(s.Ds); ds != nil {
				if x := verifLastTime(ds); x > t {
					t = x
				}
			}
		}
		oo.Time = t
		if t > times[1<<30] {
			verifTimeOp[t] = idx
		}
		verifStamp(idx, times, t, times[1<<30])
		times[1<<30] = times[idx]
	case "changes":
		ds := h.dsm.GetDataset(op.Ds)
		if ds == nil {
			oo.Err = "no dataset"
			return
		}
		since := op.Since
		if op.Reader != "" {
			since = tokens[op.Reader+"@"+op.Ds]
		}
		oo.Ents = []VerifEnt{}
		next, err := ds.ProcessChanges(uint64(since), op.Limit, op.Latest, func(e *Entity) {
			oo.Ents = append(oo.Ents, verifOutEnt(e))
		})
		if err != nil {
			oo.Err = err.Error()
			return
		}
		oo.Next = int64(next)
		if op.Reader != "" {
			tokens[op.Reader+"@"+op.Ds] = int64(next)
		}
	case "entities":
		ds := h.dsm.GetDataset(op.Ds)
		if ds == nil {
			oo.Err = "no dataset"
			return
		}
		oo.Pages = [][]VerifEnt{}
		from := ""
		for p := 0; p < 10000; p++ {
			lim := 0
			if len(op.Limits) > 0 {
				if p < len(op.Limits) {
					lim = op.Limits[p]
				} else {
					lim = op.Limits[len(op.Limits)-1]
				}
			}
			page := []VerifEnt{}
			tok, err := ds.MapEntities(from, lim, func(e *Entity) error {
				page = append(page, verifOutEnt(e))
				return nil
			})
			if err != nil {
				oo.Err = err.Error()
				return
			}
			oo.Pages = append(oo.Pages, page)
			if len(page) == 0 || lim <= 0 {
				break
			}
			from = tok
		}
	case "get":
		var e *Entity
		var err error
		if at, ok := verifAt(op, times); ok {
			rtxn := store.database.NewTransaction(false)
			curie, err2 := store.GetNamespacedIdentifierFromURI(op.ID)
			if err2 != nil {
				rtxn.Discard()
				oo.Err = err2.Error()
				return
			}
			rid, exists, _ := store.getIDForURI(rtxn, curie)
			rtxn.Discard()
			if !exists {
				return
			}
			e, err = store.GetEntityAtPointInTimeWithInternalID(rid, at, store.DatasetsToInternalIDs(op.Datasets), op.Merge)
		} else {
			e, err = store.GetEntity(op.ID, op.Datasets, op.Merge)
		}
		if err != nil {
			oo.Err = err.Error()
			return
		}
		if e != nil {
			oo.Found = true
			oo.Ents = []VerifEnt{verifOutEnt(e)}
		}
	case "related":
		at, hasAt := verifAt(op, times)
		oo.RPages = [][]VerifRel{}
		var froms []*RelatedFrom
		var err error
		qt := at
		if !hasAt {
			qt = 1 << 62
		}
		froms, err = store.ToRelatedFrom(op.Starts, op.Pred, op.Inverse, op.Datasets, qt)
		if err != nil {
			oo.Err = err.Error()
			return
		}
		for _, f := range froms {
			if f == nil {
				oo.Err = "unknown start"
				return
			}
		}
		for p := 0; p < 10000; p++ {
			lim := 0
			if len(op.Limits) > 0 {
				if p < len(op.Limits) {
					lim = op.Limits[p]
				} else {
					lim = op.Limits[len(op.Limits)-1]
				}
			}
			res, err := store.GetManyRelatedEntitiesAtTime(froms, lim, true)
			if err != nil {
				oo.Err = err.Error()
				return
			}
			page := []VerifRel{}
			for _, r := range res.Relations {
				id := ""
				if r.RelatedEntity != nil {
					id = r.RelatedEntity.ID
				}
				page = append(page, VerifRel{Start: r.StartURI, Pred: r.PredicateURI, ID: id})
			}
			oo.RPages = append(oo.RPages, page)
			if len(res.Cont) == 0 || lim <= 0 || p > 2000 {
				break
			}
			froms = res.Cont
		}
	default:
		oo.Err = "unknown op " + op.Op
	}
	return
}

// GetChangesWatermark2: number of change-log entries (robust on an empty dataset, unlike GetChangesWatermark)
func (ds *Dataset) GetChangesWatermark2() (uint64, error) {
	var n uint64
	_, err := ds.ProcessChangesRaw(0, 0, false, func(b []byte) error {
		n++
		return nil
	})
	return n, err
}

var _ = sort.Strings
var _ = strings.HasPrefix

func verifCompactOp(h *verifHub, op VerifOp, idx int, times map[int]int64, oo *VerifOpObs) {
	ds := h.dsm.GetDataset(op.Ds)
	if ds == nil {
		oo.Err = "no dataset"
		return
	}
	n := 0
	m := 0
	verifhook.SetHandler(func(name, arg string) {
		if name == "compact.afterFlush" {
			m++
			if op.CrashAfter > 0 && m == op.CrashAfter {
				panic(verifCrash{})
			}
			return
		}
		if name != "compact.beforeFlush" {
			return
		}
		n++
		if op.Race != nil && n == op.Race.At {
			// a writer commits between the compactor's snapshot and this flush
			ents, err := verifParse(h.store, op.Race.Ents)
			if err == nil {
				for _, e := range ents {
					oo.Lens = append(oo.Lens, verifLen(e))
				}
				before, _ := ds.GetChangesWatermark2()
				if err := ds.StoreEntities(ents); err != nil {
					oo.Err = "race: " + err.Error()
				}
				after, _ := ds.GetChangesWatermark2()
				oo.NewSeqs = int(after - before)
				oo.Time = verifLastTime(ds)
				if oo.NewSeqs > 0 {
					verifTimeOp[oo.Time] = idx
				}
				oo.Raced = true
			} else {
				oo.Err = "race parse: " + err.Error()
			}
		}
		if op.CrashAt > 0 && n == op.CrashAt {
			panic(verifCrash{})
		}
	})
	func() {
		defer verifhook.SetHandler(nil)
		defer func() {
			if r := recover(); r != nil {
				if _, ok := r.(verifCrash); ok {
					oo.Crashed = true
				} else {
					oo.Panic = fmt.Sprint(r)
				}
			}
		}()
		if err := VerifCompactFn(h.store, h.dsm, op.Ds, op.Threshold); err != nil {
			oo.Err = err.Error()
		}
	}()
	oo.Flushes = n
	if oo.Crashed {
		h.close()
		h.open()
	}
	verifStamp(idx, times, oo.Time, times[1<<30])
	times[1<<30] = times[idx]
}

// legacy duplicate: store the latest version with the deleted flag toggled, store it again toggled back,
// then remove the middle version (JSON key, change-log entry, reference keys) with raw deletes
// (same technique as duplicateEntityChange in internal/service/dataset/compact_test.go).
func verifDupOp(h *verifHub, op VerifOp, idx int, times map[int]int64, oo *VerifOpObs) {
	ds := h.dsm.GetDataset(op.Ds)
	if ds == nil {
		oo.Err = "no dataset"
		return
	}
	store := h.store
	curie, err := store.GetNamespacedIdentifierFromURI(op.ID)
	if err != nil {
		oo.Err = err.Error()
		return
	}
	rtxn := store.database.NewTransaction(false)
	rid, exists, _ := store.getIDForURI(rtxn, curie)
	var ent *Entity
	if exists {
		lk := make([]byte, 14)
		binary.BigEndian.PutUint16(lk, DatasetLatestEntities)
		binary.BigEndian.PutUint32(lk[2:], ds.InternalID)
		binary.BigEndian.PutUint64(lk[6:], rid)
		if it, err := rtxn.Get(lk); err == nil {
			jk, _ := it.ValueCopy(nil)
			if jit, err := rtxn.Get(jk); err == nil {
				jv, _ := jit.ValueCopy(nil)
				ent = &Entity{}
				_ = json.Unmarshal(jv, ent)
			}
		}
	}
	rtxn.Discard()
	if ent == nil {
		oo.Found = false
		return
	}
	oo.Found = true
	mk := func(deleted bool) *Entity {
		e := NewEntity(ent.ID, 0)
		e.Properties = ent.Properties
		e.References = ent.References
		e.IsDeleted = deleted
		return e
	}
	before, _ := ds.GetChangesWatermark2()
	mid := mk(!ent.IsDeleted)
	if err := ds.StoreEntities([]*Entity{mid}); err != nil {
		oo.Err = err.Error()
		return
	}
	midTime := verifLastTime(ds)
	// locate the middle version's keys
	var delKeys [][]byte
	_ = store.database.View(func(txn *badger.Txn) error {
		pfx := make([]byte, 6)
		binary.BigEndian.PutUint16(pfx, DatasetEntityChangeLog)
		binary.BigEndian.PutUint32(pfx[2:], ds.InternalID)
		it := txn.NewIterator(badger.DefaultIteratorOptions)
		defer it.Close()
		for it.Seek(pfx); it.ValidForPrefix(pfx); it.Next() {
			v, _ := it.Item().ValueCopy(nil)
			if len(v) == 24 && binary.BigEndian.Uint64(v[2:10]) == rid && int64(binary.BigEndian.Uint64(v[14:22])) == midTime {
				delKeys = append(delKeys, it.Item().KeyCopy(nil), v)
			}
		}
		for _, ix := range []uint16{OutgoingRefIndex, IncomingRefIndex} {
			p2 := make([]byte, 2)
			binary.BigEndian.PutUint16(p2, ix)
			for it.Seek(p2); it.ValidForPrefix(p2); it.Next() {
				k := it.Item().KeyCopy(nil)
				if len(k) != 40 || binary.BigEndian.Uint32(k[36:40]) != ds.InternalID {
					continue
				}
				var me, tm uint64
				if ix == OutgoingRefIndex {
					me, tm = binary.BigEndian.Uint64(k[2:10]), binary.BigEndian.Uint64(k[10:18])
				} else {
					me, tm = binary.BigEndian.Uint64(k[10:18]), binary.BigEndian.Uint64(k[18:26])
				}
				if me == rid && int64(tm) == midTime {
					delKeys = append(delKeys, k)
				}
			}
		}
		return nil
	})
	if err := ds.StoreEntities([]*Entity{mk(ent.IsDeleted)}); err != nil {
		oo.Err = err.Error()
		return
	}
	_ = store.database.Update(func(txn *badger.Txn) error {
		for _, k := range delKeys {
			_ = txn.Delete(k)
		}
		return nil
	})
	after, _ := ds.GetChangesWatermark2()
	oo.NewSeqs = int(after - before)
	oo.Time = verifLastTime(ds)
	verifTimeOp[oo.Time] = idx
	verifStamp(idx, times, oo.Time, times[1<<30])
	times[1<<30] = times[idx]
}

func verifRawDump(h *verifHub, ds *Dataset) *VerifRaw {
	raw := &VerifRaw{Versions: []VerifRawVer{}, Log: []VerifRawVer{}, Latest: []VerifRawVer{}}
	store := h.store
	opOf := func(t uint64) int {
		if i, ok := verifTimeOp[int64(t)]; ok {
			return i
		}
		return -1
	}
	_ = store.database.View(func(txn *badger.Txn) error {
		it := txn.NewIterator(badger.DefaultIteratorOptions)
		defer it.Close()
		ids := make(map[uint64]string)
		p2 := make([]byte, 2)
		binary.BigEndian.PutUint16(p2, EntityIDToJSONIndexID)
		for it.Seek(p2); it.ValidForPrefix(p2); it.Next() {
			k := it.Item().KeyCopy(nil)
			if len(k) != 24 {
				continue
			}
			v, _ := it.Item().ValueCopy(nil)
			e := &Entity{}
			_ = json.Unmarshal(v, e)
			rid := binary.BigEndian.Uint64(k[2:10])
			ids[rid] = e.ID
			if binary.BigEndian.Uint32(k[10:14]) != ds.InternalID {
				continue
			}
			raw.Versions = append(raw.Versions, VerifRawVer{ID: e.ID, Op: opOf(binary.BigEndian.Uint64(k[14:22])), Bidx: int(binary.BigEndian.Uint16(k[22:24]))})
		}
		name := func(rid uint64) string {
			if s, ok := ids[rid]; ok {
				return s
			}
			return fmt.Sprintf("?%d", rid)
		}
		pfx := make([]byte, 6)
		binary.BigEndian.PutUint16(pfx, DatasetEntityChangeLog)
		binary.BigEndian.PutUint32(pfx[2:], ds.InternalID)
		for it.Seek(pfx); it.ValidForPrefix(pfx); it.Next() {
			k := it.Item().KeyCopy(nil)
			v, _ := it.Item().ValueCopy(nil)
			if len(v) != 24 {
				continue
			}
			_, gerr := txn.Get(v)
			raw.Log = append(raw.Log, VerifRawVer{ID: name(binary.BigEndian.Uint64(v[2:10])), Op: opOf(binary.BigEndian.Uint64(v[14:22])),
				Bidx: int(binary.BigEndian.Uint16(v[22:24])), Seq: int64(binary.BigEndian.Uint64(k[6:14])), Miss: gerr != nil})
		}
		binary.BigEndian.PutUint16(pfx, DatasetLatestEntities)
		for it.Seek(pfx); it.ValidForPrefix(pfx); it.Next() {
			v, _ := it.Item().ValueCopy(nil)
			if len(v) != 24 {
				continue
			}
			_, gerr := txn.Get(v)
			raw.Latest = append(raw.Latest, VerifRawVer{ID: name(binary.BigEndian.Uint64(v[2:10])), Op: opOf(binary.BigEndian.Uint64(v[14:22])),
				Bidx: int(binary.BigEndian.Uint16(v[22:24])), Miss: gerr != nil})
		}
		for _, ix := range []uint16{OutgoingRefIndex, IncomingRefIndex} {
			binary.BigEndian.PutUint16(p2, ix)
			for it.Seek(p2); it.ValidForPrefix(p2); it.Next() {
				k := it.Item().Key()
				if len(k) == 40 && binary.BigEndian.Uint32(k[36:40]) == ds.InternalID {
					if ix == OutgoingRefIndex {
						raw.Out++
					} else {
						raw.In++
					}
				}
			}
		}
		return nil
	})
	return raw
}
