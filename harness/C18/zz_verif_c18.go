//go:build verif

// Injected into package jobs by `go build -overlay` (never committed to /repo).
// Property C18: drives the real MultiSource (configured from JSON by Scheduler.Parse / toPipeline, or through
// track_queries of a real JavaScript transform) through job.Run(), over histories of writes to the main,
// link and dependency datasets and job runs; the real datasetSink is wrapped by a recorder (optionally
// failing at its k-th call).
package jobs

import (
	"encoding/base64"
	"encoding/json"
	"errors"
	"fmt"
	"os"
	"sort"
	"strconv"
	"strings"
	"time"

	"context"

	"github.com/DataDog/datadog-go/v5/statsd"
	"go.uber.org/zap"

	"github.com/mimiro-io/datahub/internal/conf"
	jobSource "github.com/mimiro-io/datahub/internal/jobs/source"
	"github.com/mimiro-io/datahub/internal/security"
	"github.com/mimiro-io/datahub/internal/server"
)

type VerifC18Join struct {
	Ds   int  `json:"ds"`
	Pred int  `json:"pred"`
	Inv  bool `json:"inv"`
}

type VerifC18Dep struct {
	Ds    int            `json:"ds"`
	Joins []VerifC18Join `json:"joins"`
}

// entity: id, refs [[pred, target]...], deleted
type VerifC18Ent struct {
	ID   int      `json:"id"`
	Refs [][2]int `json:"refs"`
	Del  bool     `json:"del"`
}

type VerifC18Mid struct {
	After int           `json:"after"` // after the sink call with this index (0-based) has succeeded ...
	Ds    int           `json:"ds"`    // ... these entities are stored into this dataset (a write DURING the run)
	Es    []VerifC18Ent `json:"es"`
}

type VerifC18Op struct {
	Op   string        `json:"op"` // w | run
	Mid  *VerifC18Mid  `json:"mid,omitempty"`
	Ds   int           `json:"ds"`
	Es   []VerifC18Ent `json:"es"`
	Full bool          `json:"full"`
	Fail int           `json:"fail"` // index of the sink call that fails (-1 = none)
	Fix  bool          `json:"fix"`  // repeat the (fault-free, incremental) run until the token stops moving
}

type VerifC18Case struct {
	Nds    int           `json:"nds"`
	Main   int           `json:"main"`
	Deps   []VerifC18Dep `json:"deps"`
	Track  bool          `json:"track"` // declare the dependencies through track_queries of a JS transform
	Ntrack int           `json:"ntrack"` // ... only the last ntrack of them, the others in the job JSON (both forms at once)
	Latest bool          `json:"latest"`
	Batch  int           `json:"batch"`
	Ops    []VerifC18Op  `json:"ops"`
}

type VerifC18RunObs struct {
	Outcome string   `json:"outcome"` // ok | failed | panic | noresult
	Emitted []int    `json:"emitted"` // ids handed to the sink in this run, sorted (with repeats)
	Calls   []int    `json:"calls"`   // size of every sink call
	MidDone bool     `json:"middone"` // the scripted write during the run was performed
	Late    []int    `json:"late"`    // ids handed to the sink after that write, sorted
	Foreign int      `json:"foreign"` // emitted entities that do not carry the main dataset's marker
	Main    int      `json:"main"`    // main token (-1 = "")
	Deps    [][2]int `json:"deps"`    // dependency tokens (dataset index, token; -1 = ""), sorted
	Detail  string   `json:"detail,omitempty"`
}

type VerifC18Ver struct {
	ID   int      `json:"id"`
	Refs [][2]int `json:"refs"`
	Del  bool     `json:"del"`
}

type VerifC18Obs struct {
	Outcome string            `json:"outcome"`
	Deps    []VerifC18Dep     `json:"deps"`  // the dependency list MultiSource ended up with (explicit + implicit, deduped)
	Lens    [][]int           `json:"lens"`  // per op: change-feed length of every dataset after the op
	Core    []int             `json:"core"`  // per op: change-feed length of core.Dataset after the op
	Core0   int               `json:"core0"` // ... before the first op
	Runs    [][]VerifC18RunObs `json:"runs"` // per run op: the runs it performed
	Feeds   [][]VerifC18Ver   `json:"feeds"` // final change feeds
	Detail  string            `json:"detail,omitempty"`
}

type verifC18Sink struct {
	inner  Sink
	n      int
	failAt int
	prefix string
	mainDs int
	ids    []int
	calls  []int
	foreign int
	midAt   int
	mid     func() error
	midDone bool
	late    []int
}

func (s *verifC18Sink) GetConfig() map[string]interface{}  { return s.inner.GetConfig() }
func (s *verifC18Sink) startFullSync(runner *Runner) error { return s.inner.startFullSync(runner) }
func (s *verifC18Sink) endFullSync(ctx context.Context, runner *Runner) error {
	return s.inner.endFullSync(ctx, runner)
}

func (s *verifC18Sink) processEntities(runner *Runner, entities []*server.Entity) error {
	i := s.n
	s.n++
	if i == s.failAt {
		return errors.New("verif: scripted sink failure")
	}
	s.calls = append(s.calls, len(entities))
	for _, e := range entities {
		s.ids = append(s.ids, verifC18Code(e.ID))
		if s.midDone {
			s.late = append(s.late, verifC18Code(e.ID))
		}
		m, ok := e.Properties[s.prefix+":ds"]
		if f, isf := m.(float64); isf {
			m = int(f)
		}
		if !e.IsDeleted && (!ok || m != s.mainDs) {
			s.foreign++
		}
	}
	if err := s.inner.processEntities(runner, entities); err != nil {
		return err
	}
	if s.mid != nil && i == s.midAt && !s.midDone {
		if err := s.mid(); err != nil {
			return err
		}
		s.midDone = true
	}
	return nil
}

func verifC18Code(id string) int {
	j := len(id)
	for j > 0 && id[j-1] >= '0' && id[j-1] <= '9' {
		j--
	}
	n, err := strconv.Atoi(id[j:])
	if err != nil {
		return -1
	}
	return n
}

type verifC18Env struct {
	dir    string
	cfg    *conf.Config
	store  *server.Store
	dsm    *server.DsManager
	runner *Runner
	sched  *Scheduler
}

func (env *verifC18Env) open() {
	logger := zap.NewNop().Sugar()
	env.cfg = &conf.Config{
		Logger:        logger,
		StoreLocation: env.dir,
		RunnerConfig:  &conf.RunnerConfig{PoolIncremental: 10, PoolFull: 5, Concurrent: 0},
	}
	sd := &statsd.NoOpClient{}
	env.store = server.NewStore(env.cfg, sd)
	pm := security.NewProviderManager(env.cfg, env.store, logger)
	tps := security.NewTokenProviders(logger, pm, nil)
	env.runner = NewRunner(env.cfg, env.store, tps, server.NoOpBus(), sd)
	env.dsm = server.NewDsManager(env.cfg, env.store, server.NoOpBus())
	env.sched = NewScheduler(env.cfg, env.store, env.dsm, env.runner)
}

func (env *verifC18Env) close() {
	if env.store != nil {
		_ = env.store.Close()
		env.store = nil
	}
}

const verifC18JobID = "j18"

func verifC18Ds(k int) string { return "d" + strconv.Itoa(k) }

func verifC18DsIdx(name string) int {
	if len(name) < 2 || name[0] != 'd' {
		return -1
	}
	n, err := strconv.Atoi(name[1:])
	if err != nil {
		return -1
	}
	return n
}

func verifC18Refs(prefix string, e *server.Entity) [][2]int {
	out := make([][2]int, 0)
	for k, v := range e.References {
		p := -1
		if strings.HasPrefix(k, prefix+":p") {
			p = verifC18Code(k)
		}
		switch t := v.(type) {
		case string:
			out = append(out, [2]int{p, verifC18Code(t)})
		case []interface{}:
			for _, x := range t {
				if s, ok := x.(string); ok {
					out = append(out, [2]int{p, verifC18Code(s)})
				}
			}
		case []string:
			for _, s := range t {
				out = append(out, [2]int{p, verifC18Code(s)})
			}
		}
	}
	sort.Slice(out, func(a, b int) bool {
		if out[a][0] != out[b][0] {
			return out[a][0] < out[b][0]
		}
		return out[a][1] < out[b][1]
	})
	return out
}

func verifC18Feed(prefix string, ds *server.Dataset) ([]VerifC18Ver, error) {
	out := make([]VerifC18Ver, 0)
	_, err := ds.ProcessChanges(0, 0, false, func(e *server.Entity) {
		out = append(out, VerifC18Ver{ID: verifC18Code(e.ID), Refs: verifC18Refs(prefix, e), Del: e.IsDeleted})
	})
	return out, err
}

func verifC18Len(ds *server.Dataset) (int, error) {
	n := 0
	_, err := ds.ProcessChangesRaw(0, 0, false, func([]byte) error { n++; return nil })
	return n, err
}

// VerifC18Run executes one case on a fresh store under dir.
func VerifC18Run(c VerifC18Case, dir string) (obs VerifC18Obs) {
	obs.Outcome = "ok"
	obs.Runs = make([][]VerifC18RunObs, 0)
	obs.Lens = make([][]int, 0)
	obs.Core = make([]int, 0)
	obs.Feeds = make([][]VerifC18Ver, 0)
	obs.Deps = make([]VerifC18Dep, 0)
	_ = os.MkdirAll(dir, 0o755)
	defer os.RemoveAll(dir)
	fail := func(where string, err error) VerifC18Obs {
		obs.Outcome = "setup-error"
		obs.Detail = where + ": " + err.Error()
		return obs
	}
	if c.Nds < 1 || c.Main < 0 || c.Main >= c.Nds || c.Batch < 1 {
		return fail("case", errors.New("bad shape"))
	}
	env := &verifC18Env{dir: dir}
	env.open()
	defer func() { env.close() }()

	prefix, err := env.store.NamespaceManager.AssertPrefixMappingForExpansion("http://v/")
	if err != nil {
		return fail("ns", err)
	}
	for k := 0; k < c.Nds; k++ {
		if _, err := env.dsm.CreateDataset(verifC18Ds(k), nil); err != nil {
			return fail("create", err)
		}
	}
	if _, err := env.dsm.CreateDataset("sink", nil); err != nil {
		return fail("create", err)
	}

	if n0, err := verifC18Len(env.dsm.GetDataset("core.Dataset")); err == nil {
		obs.Core0 = n0
	} else {
		return fail("len", err)
	}

	// job configuration
	depParts := make([]string, 0)
	trackLines := make([]string, 0)
	ntrack := c.Ntrack
	if c.Track && ntrack == 0 {
		ntrack = len(c.Deps)
	}
	for di, d := range c.Deps {
		viaTrack := di >= len(c.Deps)-ntrack
		js := make([]string, 0)
		for _, j := range d.Joins {
			js = append(js, fmt.Sprintf(`{"dataset":"%s","predicate":"http://v/p%d","inverse":%v}`, verifC18Ds(j.Ds), j.Pred, j.Inv))
		}
		if !viaTrack {
			depParts = append(depParts, fmt.Sprintf(`{"dataset":"%s","joins":[%s]}`, verifC18Ds(d.Ds), strings.Join(js, ",")))
			continue
		}
		// the same path as seen from the main dataset: reverse order, reverse direction
		// joins J1..Jn from dep dataset D: hop i goes prev_i -> Ji.Ds; from main: start at main, for i = n..1 go to prev_i with !inv
		line := "reg"
		for i := len(d.Joins) - 1; i >= 0; i-- {
			prev := d.Ds
			if i > 0 {
				prev = d.Joins[i-1].Ds
			}
			fn := "iHop"
			if d.Joins[i].Inv {
				fn = "hop"
			}
			line += fmt.Sprintf(`.%s("%s","http://v/p%d")`, fn, verifC18Ds(prev), d.Joins[i].Pred)
		}
		trackLines = append(trackLines, line+";")
	}
	var srcJSON, transformJSON string
	if ntrack > 0 {
		code := "function track_queries(reg) {\n" + strings.Join(trackLines, "\n") + "\n}\n" +
			"function transform_entities(entities) { return entities; }\n"
		srcJSON = fmt.Sprintf(`{"Type":"MultiSource","Name":"%s","LatestOnly":%v,"Dependencies":[%s]}`,
			verifC18Ds(c.Main), c.Latest, strings.Join(depParts, ","))
		if len(depParts) == 0 {
			srcJSON = fmt.Sprintf(`{"Type":"MultiSource","Name":"%s","LatestOnly":%v}`, verifC18Ds(c.Main), c.Latest)
		}
		transformJSON = fmt.Sprintf(`,"transform":{"Type":"JavascriptTransform","Code":"%s"}`,
			base64.StdEncoding.EncodeToString([]byte(code)))
	} else {
		srcJSON = fmt.Sprintf(`{"Type":"MultiSource","Name":"%s","LatestOnly":%v,"Dependencies":[%s]}`,
			verifC18Ds(c.Main), c.Latest, strings.Join(depParts, ","))
	}
	jobJSON := fmt.Sprintf(`{"id":"%s","title":"%s","batchSize":%d,
		"triggers":[{"triggerType":"cron","jobType":"incremental","schedule":"@every 2000s"},
		            {"triggerType":"cron","jobType":"fullsync","schedule":"@every 4000s"}],
		"source":%s,"sink":{"Type":"DatasetSink","Name":"sink"}%s}`, verifC18JobID, verifC18JobID, c.Batch, srcJSON, transformJSON)

	nonce := 0
	storeEnts := func(dsi int, es []VerifC18Ent) error {
		ds := env.dsm.GetDataset(verifC18Ds(dsi))
		if ds == nil {
			return errors.New("no dataset")
		}
		ents := make([]*server.Entity, len(es))
		for i, t := range es {
			nonce++
			refs := map[string]interface{}{}
			byPred := map[int][]string{}
			order := []int{}
			for _, r := range t.Refs {
				if _, ok := byPred[r[0]]; !ok {
					order = append(order, r[0])
				}
				byPred[r[0]] = append(byPred[r[0]], fmt.Sprintf("%s:e%d", prefix, r[1]))
			}
			for _, p := range order {
				k := fmt.Sprintf("%s:p%d", prefix, p)
				if len(byPred[p]) == 1 {
					refs[k] = byPred[p][0]
				} else {
					refs[k] = byPred[p]
				}
			}
			e := server.NewEntityFromMap(map[string]interface{}{
				"id":    fmt.Sprintf("%s:e%d", prefix, t.ID),
				"props": map[string]interface{}{prefix + ":ds": dsi, prefix + ":n": nonce},
				"refs":  refs,
			})
			e.IsDeleted = t.Del
			ents[i] = e
		}
		return ds.StoreEntities(ents)
	}

	depsRecorded := false
	runOnce := func(full bool, failAt int, mid *VerifC18Mid) (r VerifC18RunObs, fatal error) {
		jc, err := env.sched.Parse([]byte(jobJSON))
		if err != nil {
			return r, err
		}
		jobType := JobTypeIncremental
		if full {
			jobType = JobTypeFull
		}
		pl, err := env.sched.toPipeline(jc, jobType)
		if err != nil {
			return r, err
		}
		spec := pl.spec()
		ms, ok := spec.source.(*jobSource.MultiSource)
		if !ok {
			return r, fmt.Errorf("source is %T", spec.source)
		}
		if !depsRecorded {
			depsRecorded = true
			for _, d := range ms.Dependencies {
				vd := VerifC18Dep{Ds: verifC18DsIdx(d.Dataset), Joins: make([]VerifC18Join, 0)}
				for _, j := range d.Joins {
					p := -1
					if strings.HasPrefix(j.Predicate, "http://v/p") {
						p = verifC18Code(j.Predicate)
					}
					vd.Joins = append(vd.Joins, VerifC18Join{Ds: verifC18DsIdx(j.Dataset), Pred: p, Inv: j.Inverse})
				}
				obs.Deps = append(obs.Deps, vd)
			}
		}
		if _, ok := spec.sink.(*datasetSink); !ok {
			return r, fmt.Errorf("sink is %T", spec.sink)
		}
		rec := &verifC18Sink{inner: spec.sink, failAt: failAt, prefix: prefix, mainDs: c.Main}
		if mid != nil {
			m := *mid
			rec.midAt = m.After
			rec.mid = func() error { return storeEnts(m.Ds, m.Es) }
		}
		spec.sink = rec
		j := &job{dsm: env.dsm, id: jc.ID, title: jc.Title, pipeline: pl, schedule: "@every 2000s", runner: env.runner}
		_ = env.store.DeleteObject(server.JobResultIndex, j.id)
		func() {
			defer func() {
				if x := recover(); x != nil {
					r.Outcome = "panic"
					r.Detail = fmt.Sprint(x)
				}
			}()
			j.Run()
		}()
		if rec.n > len(rec.calls) {
			// the sink failed: processDependency returned while its producer goroutine may still be inside a store
			// query (it then parks for ever on its channel); let it get there before the store is used or closed
			time.Sleep(40 * time.Millisecond)
		}
		if r.Outcome == "" {
			res := &jobResult{}
			_ = env.store.GetObject(server.JobResultIndex, verifC18JobID, res)
			switch {
			case res.ID == "":
				r.Outcome = "noresult"
			case res.LastError != "":
				r.Outcome = "failed"
				r.Detail = res.LastError
			default:
				r.Outcome = "ok"
			}
		}
		r.Emitted = append([]int{}, rec.ids...)
		sort.Ints(r.Emitted)
		r.Calls = append([]int{}, rec.calls...)
		r.MidDone = rec.midDone
		r.Late = append([]int{}, rec.late...)
		sort.Ints(r.Late)
		r.Foreign = rec.foreign
		st := &SyncJobState{}
		_ = env.store.GetObject(server.JobDataIndex, verifC18JobID, st)
		r.Main = -1
		r.Deps = make([][2]int, 0)
		if st.ContinuationToken != "" {
			mc := &jobSource.MultiDatasetContinuation{}
			if err := json.Unmarshal([]byte(st.ContinuationToken), mc); err != nil {
				return r, fmt.Errorf("token %q: %w", st.ContinuationToken, err)
			}
			if mc.MainToken != "" {
				n, err := strconv.Atoi(mc.MainToken)
				if err != nil {
					return r, fmt.Errorf("main token %q", mc.MainToken)
				}
				r.Main = n
			}
			for name, t := range mc.DependencyTokens {
				v := -1
				if t != nil && t.Token != "" {
					n, err := strconv.Atoi(t.Token)
					if err != nil {
						return r, fmt.Errorf("dep token %q", t.Token)
					}
					v = n
				}
				r.Deps = append(r.Deps, [2]int{verifC18DsIdx(name), v})
			}
			sort.Slice(r.Deps, func(a, b int) bool { return r.Deps[a][0] < r.Deps[b][0] })
		}
		return r, nil
	}

	for _, op := range c.Ops {
		switch op.Op {
		case "w":
			if op.Ds < 0 || op.Ds >= c.Nds {
				return fail("op", errors.New("bad dataset"))
			}
			if err := storeEnts(op.Ds, op.Es); err != nil {
				return fail("store", err)
			}
		case "run":
			rs := make([]VerifC18RunObs, 0)
			if op.Fix {
				prev := ""
				for i := 0; i < 12; i++ {
					r, err := runOnce(false, -1, nil)
					if err != nil {
						return fail("run", err)
					}
					rs = append(rs, r)
					cur := fmt.Sprint(r.Main, r.Deps)
					if r.Outcome != "ok" || (i > 0 && cur == prev) {
						break
					}
					prev = cur
				}
			} else {
				r, err := runOnce(op.Full, op.Fail, op.Mid)
				if err != nil {
					return fail("run", err)
				}
				rs = append(rs, r)
			}
			obs.Runs = append(obs.Runs, rs)
		default:
			return fail("op", errors.New("unknown op "+op.Op))
		}
		lens := make([]int, c.Nds)
		for k := 0; k < c.Nds; k++ {
			n, err := verifC18Len(env.dsm.GetDataset(verifC18Ds(k)))
			if err != nil {
				return fail("len", err)
			}
			lens[k] = n
		}
		obs.Lens = append(obs.Lens, lens)
		cn, err := verifC18Len(env.dsm.GetDataset("core.Dataset"))
		if err != nil {
			return fail("len", err)
		}
		obs.Core = append(obs.Core, cn)
	}
	for k := 0; k < c.Nds; k++ {
		f, err := verifC18Feed(prefix, env.dsm.GetDataset(verifC18Ds(k)))
		if err != nil {
			return fail("feed", err)
		}
		obs.Feeds = append(obs.Feeds, f)
	}
	return obs
}
