//go:build verif

// verif driver for property C14: reads one JSON case per line on stdin, writes one "@@OBS <json>" line per case.
package main

import (
	"bufio"
	"encoding/json"
	"fmt"
	"os"

	"github.com/mimiro-io/datahub/internal/jobs"
)

func main() {
	dir := os.Args[1]
	in := bufio.NewScanner(os.Stdin)
	in.Buffer(make([]byte, 1<<20), 1<<26)
	out := bufio.NewWriter(os.Stdout)
	defer out.Flush()
	i := 0
	for in.Scan() {
		var c jobs.VerifC14Case
		if err := json.Unmarshal(in.Bytes(), &c); err != nil {
			fmt.Fprintln(os.Stderr, "bad case:", err)
			os.Exit(2)
		}
		obs := jobs.VerifC14Run(c, fmt.Sprintf("%s/c%d", dir, i))
		b, _ := json.Marshal(obs)
		out.WriteString("@@OBS ")
		out.Write(b)
		out.WriteString("\n")
		out.Flush()
		i++
	}
}
