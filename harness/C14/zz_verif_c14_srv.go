//go:build verif

// Injected into package server by `go build -overlay` (never committed to /repo).
// Property C14: read-only accessors for state the exported API does not show.
package server

import (
	"encoding/binary"
	"sort"

	"github.com/dgraph-io/badger/v4"
)

// VerifC14Meta returns the in-memory next dataset id and the in-memory deleted-dataset set (sorted).
func VerifC14Meta(s *Store) (uint32, []uint32) {
	del := make([]uint32, 0)
	for k, v := range s.deletedDatasets {
		if v {
			del = append(del, k)
		}
	}
	sort.Slice(del, func(a, b int) bool { return del[a] < del[b] })
	return s.nextDatasetID, del
}

// VerifC14IDIndex dumps the committed URI -> internal id index.
func VerifC14IDIndex(s *Store) map[string]uint64 {
	res := map[string]uint64{}
	prefix := make([]byte, 2)
	binary.BigEndian.PutUint16(prefix, URIToIDIndexID)
	_ = s.database.View(func(txn *badger.Txn) error {
		opts := badger.DefaultIteratorOptions
		opts.Prefix = prefix
		it := txn.NewIterator(opts)
		defer it.Close()
		for it.Seek(prefix); it.ValidForPrefix(prefix); it.Next() {
			k := it.Item().KeyCopy(nil)
			_ = it.Item().Value(func(v []byte) error {
				res[string(k[2:])] = binary.BigEndian.Uint64(v)
				return nil
			})
		}
		return nil
	})
	return res
}
