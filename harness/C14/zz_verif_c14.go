//go:build verif

// Injected into package jobs by `go build -overlay` (never committed to /repo).
// Property C14: a hub-level driver.  It builds the managers the way NewDatahubInstance does (store, dataset
// manager, provider manager, security core, token providers, runner, scheduler - everything but the web layer),
// interprets mixed histories of data / dataset-management / job-management / security-management operations,
// and on a `restart` op stops the scheduler, closes the store and re-creates every manager on the same directories.
// Around every restart it takes a snapshot of everything the read APIs return.
package jobs

import (
	"context"
	"crypto/rand"
	"crypto/rsa"
	"encoding/json"
	"fmt"
	"os"
	"sort"
	"strconv"
	"strings"
	"sync"
	"time"

	"github.com/DataDog/datadog-go/v5/statsd"
	"github.com/mustafaturan/bus"
	"go.uber.org/zap"

	"github.com/mimiro-io/datahub/internal/conf"
	"github.com/mimiro-io/datahub/internal/security"
	"github.com/mimiro-io/datahub/internal/server"
)

type VerifC14Op struct {
	Op     string   `json:"op"`
	Ds     int      `json:"ds"`
	To     int      `json:"to"`
	Pub    []int    `json:"pub"`
	Kind   int      `json:"kind"` // create: 0 plain, 1 proxy, 2 virtual
	Cfg    int      `json:"cfg"`  // proxy: timeoutSeconds; virtual: the number in the transform string
	Es     [][4]int `json:"es"` // [entity code, value, ref target (-1 none), deleted]
	Fs     string   `json:"fs"` // full-sync id
	Job    int      `json:"job"`
	Src    int      `json:"src"`
	Sink   int      `json:"sink"`
	Paused bool     `json:"paused"`
	Trig   int      `json:"trig"`  // addjob: -1 (or absent with Cron) = cron trigger, k >= 0 = onchange trigger monitoring d<k>
	Cron   bool     `json:"cron"`  // addjob: explicit cron trigger (default when trig is not given)
	Sets   [][]int  `json:"sets"`  // pubnsm: [dataset, public namespaces...] per meta entity of the one batch
	Delay  int      `json:"delay"` // > 0: the trigger carries a reRun error handler with this retryDelay (seconds)
	C      string   `json:"c"`
	Acl    []int    `json:"acl"`
	Name   string   `json:"name"`
	User   string   `json:"user"`
}

type VerifC14Case struct {
	Ops   []VerifC14Op `json:"ops"`
	Probe []int        `json:"probe"` // entity codes for GetEntity / relation queries
	NoRef bool         `json:"noref"` // skip the reference run (history without its restart ops)
}

type VerifC14Feed struct {
	ID    int        `json:"id"`
	Ents  [][]int    `json:"ents"` // listing: [code, internal id, value, ref, deleted]
	Etok  string     `json:"etok"`
	Chg   [][]int    `json:"chg"`
	Next  int        `json:"next"`
	Lat   [][]int    `json:"lat"`
	Lnext int        `json:"lnext"`
	Toks  []int      `json:"toks"` // tokens of the pages when read two at a time
	Raw   []string   `json:"raw,omitempty"`
	Rec   []uint64   `json:"rec"`
}

type VerifC14Snap struct {
	Ds      [][]int                 `json:"ds"` // [name code, internal id, kind, config, pub...]
	Dsraw   []string                `json:"dsraw"` // per dataset: name, IsProxy, IsVirtual, ProxyConfig and VirtualDatasetConfig as JSON
	Next    int                     `json:"next"`
	Del     []int                   `json:"del"`
	Feeds   map[string]VerifC14Feed `json:"feeds"`
	Ns      []string                `json:"ns"`
	Ctx     map[string][]string     `json:"ctx"`
	Get     [][]int                 `json:"get"`
	Rel     [][]int                 `json:"rel"`
	Hang    bool                    `json:"hang,omitempty"` // an event-triggered run did not finish
	Jobs    [][]int                 `json:"jobs"` // [job, paused, source, sink, number of error handlers, retryDelay of the reRun handler, monitored dataset or -1]
	Jraw    []string                `json:"jraw"` // the stored job configurations as JSON
	Tok     [][]int                 `json:"tok"`
	Sched   []int                   `json:"sched"`
	Hist    [][]int                 `json:"hist"`
	Clients []string                `json:"clients"`
	Acls    map[string][]int        `json:"acls"`
	Provs   [][]string              `json:"provs"`
	Tp      [][]string              `json:"tp"`
	Res     [][]string              `json:"res"` // per stored provider: name, what Get(strings.ToLower(name)) resolves to
	Fs      [][]int                 `json:"fs"`
	Ids     map[string]uint64       `json:"ids"`
	Err     string                  `json:"err,omitempty"`
}

type VerifC14Obs struct {
	Outcome string           `json:"outcome"` // ok | setup-error | panic
	Detail  string           `json:"detail,omitempty"`
	Res     []string         `json:"res"`    // per op: ok | err | conflict | gone | nojob | failed
	Errs    []string         `json:"errs"`   // per op: error text (not compared)
	Before  []VerifC14Snap   `json:"before"` // per restart op
	After   []VerifC14Snap   `json:"after"`
	Final   *VerifC14Snap    `json:"final"`
	RefRes  []string         `json:"refres"` // reference run (no restarts): per non-restart op
	RefFin  *VerifC14Snap    `json:"reffin"`
}

var verifC14KeyPriv, verifC14KeyPub []byte

func verifC14Keys() error {
	if verifC14KeyPriv != nil {
		return nil
	}
	key, err := rsa.GenerateKey(rand.Reader, 2048)
	if err != nil {
		return err
	}
	priv, err := security.ExportRsaPrivateKeyAsPem(key)
	if err != nil {
		return err
	}
	pub, err := security.ExportRsaPublicKeyAsPem(&key.PublicKey)
	if err != nil {
		return err
	}
	verifC14KeyPriv, verifC14KeyPub = []byte(priv), []byte(pub)
	return nil
}

// verifC14Bus is the hub's real event bus (server.NewBus) with one change: a dataset subscription that fires is
// queued instead of started right away; the driver delivers the queued runs one at a time after the op that emitted
// them (the hub starts them as goroutines while the request goes on; at the next quiescent point the result is the same).
type verifC14Trig struct {
	id string
	f  func(e *bus.Event)
	e  *bus.Event
}

type verifC14Bus struct {
	inner   *server.MEventBus
	mu      sync.Mutex
	pending []verifC14Trig
}

func (b *verifC14Bus) Init(datasets []server.DatasetName) { b.inner.Init(datasets) }
func (b *verifC14Bus) RegisterTopic(ds string)            { b.inner.RegisterTopic(ds) }
func (b *verifC14Bus) UnregisterTopic(ds string)          { b.inner.UnregisterTopic(ds) }
func (b *verifC14Bus) UnsubscribeToDataset(id string)     { b.inner.UnsubscribeToDataset(id) }
func (b *verifC14Bus) Emit(ctx context.Context, topicName string, data interface{}) {
	b.inner.Emit(ctx, topicName, data)
}
func (b *verifC14Bus) SubscribeToDataset(id string, matcher string, f func(e *bus.Event)) {
	b.inner.SubscribeToDataset(id, matcher, func(e *bus.Event) {
		b.mu.Lock()
		b.pending = append(b.pending, verifC14Trig{id: id, f: f, e: e})
		b.mu.Unlock()
	})
}

type verifC14Env struct {
	bus   *verifC14Bus
	hang  bool
	dir   string
	cfg   *conf.Config
	store *server.Store
	dsm   *server.DsManager
	pm    *security.ProviderManager
	core  *security.ServiceCore
	tps   *security.TokenProviders
	run   *Runner
	sched *Scheduler
}

// the order of NewDatahubInstance (app.go)
func (env *verifC14Env) open() {
	logger := zap.NewNop().Sugar()
	env.cfg = &conf.Config{
		Logger:                  logger,
		StoreLocation:           env.dir + "/store",
		SecurityStorageLocation: env.dir + "/sec",
		NodeID:                  "verifnode",
		RunnerConfig:            &conf.RunnerConfig{PoolIncremental: 10, PoolFull: 5, Concurrent: 0},
	}
	sd := &statsd.NoOpClient{}
	rb, err := server.NewBus(env.cfg)
	if err != nil {
		panic(err)
	}
	bus := &verifC14Bus{inner: rb.(*server.MEventBus)}
	env.bus = bus
	env.store = server.NewStore(env.cfg, sd)
	env.dsm = server.NewDsManager(env.cfg, env.store, bus)
	env.pm = security.NewProviderManager(env.cfg, env.store, logger)
	env.core = security.NewServiceCore(env.cfg)
	env.tps = security.NewTokenProviders(logger, env.pm, env.core)
	env.run = NewRunner(env.cfg, env.store, env.tps, bus, sd)
	env.sched = NewScheduler(env.cfg, env.store, env.dsm, env.run)
}

// DatahubInstance.Stop: scheduler.Stop, store.Close
func (env *verifC14Env) close() {
	if env.sched != nil {
		_ = env.sched.Stop(context.Background())
		env.sched = nil
	}
	if env.store != nil {
		_ = env.store.Close()
		env.store = nil
	}
}

const verifC14Rounds = 30

// drain delivers the queued event-triggered runs: the runs triggered by one op in job-id order, one at a time, each
// waited for (its job result is rewritten and its ticket returned); the runs they trigger form the next round
func (env *verifC14Env) drain() {
	for round := 0; round < verifC14Rounds; round++ {
		env.bus.mu.Lock()
		batch := env.bus.pending
		env.bus.pending = nil
		env.bus.mu.Unlock()
		if len(batch) == 0 {
			return
		}
		sort.SliceStable(batch, func(a, b int) bool { return verifC14JobCode(batch[a].id) < verifC14JobCode(batch[b].id) })
		for _, t := range batch {
			prev := &jobResult{}
			_ = env.store.GetObject(server.JobResultIndex, t.id, prev)
			t.f(t.e)
			deadline := time.Now().Add(60 * time.Second)
			for {
				cur := &jobResult{}
				_ = env.store.GetObject(server.JobResultIndex, t.id, cur)
				env.run.raffle.runningMu.Lock()
				_, running := env.run.raffle.runningJobs[t.id]
				env.run.raffle.runningMu.Unlock()
				if !running && cur.ID != "" && !cur.Start.Equal(prev.Start) {
					break
				}
				if time.Now().After(deadline) {
					env.hang = true
					break
				}
				time.Sleep(200 * time.Microsecond)
			}
		}
	}
	env.bus.mu.Lock()
	env.bus.pending = nil
	env.bus.mu.Unlock()
}

func verifC14DsName(k int) string {
	if k < 0 {
		return "core.Dataset"
	}
	return "d" + strconv.Itoa(k)
}

func verifC14DsCode(name string) int {
	if strings.HasPrefix(name, "d") {
		if n, err := strconv.Atoi(name[1:]); err == nil {
			return n
		}
	}
	if name == "core.Dataset" {
		return -1
	}
	return -2
}

func verifC14Exp(x int) string     { return "http://v" + strconv.Itoa(x) + "/" }
func verifC14EntURI(e int) string  { return verifC14Exp(e%3) + "e" + strconv.Itoa(e) }
func verifC14JobID(j int) string   { return "j" + strconv.Itoa(j) }
func verifC14JobCode(s string) int { n, _ := strconv.Atoi(strings.TrimPrefix(s, "j")); return n }

const verifC14PropURI = "http://v0/p"
const verifC14RefURI = "http://v0/r"

func verifC14AclEntry(c int) *security.AccessControl {
	act := "read"
	if (c/2)%2 == 1 {
		act = "write"
	}
	return &security.AccessControl{Resource: "/r" + strconv.Itoa(c/4), Action: act, Deny: c%2 == 1}
}

func verifC14AclCode(a *security.AccessControl) int {
	if a == nil || !strings.HasPrefix(a.Resource, "/r") {
		return -1
	}
	n, err := strconv.Atoi(a.Resource[2:])
	if err != nil {
		return -1
	}
	c := n * 4
	if a.Action == "write" {
		c += 2
	} else if a.Action != "read" {
		return -1
	}
	if a.Deny {
		c++
	}
	return c
}

// entity code from a stored id (a CURIE)
func (env *verifC14Env) entCode(id string) int {
	full, err := env.store.ExpandCurie(id)
	if err != nil {
		return -1000
	}
	i := strings.LastIndex(full, "/e")
	if i < 0 || !strings.HasPrefix(full, "http://v") {
		return -1000
	}
	n, err := strconv.Atoi(full[i+2:])
	if err != nil || verifC14EntURI(n) != full {
		return -1000
	}
	return n
}

func (env *verifC14Env) tuple(e *server.Entity) []int {
	t := []int{env.entCode(e.ID), int(e.InternalID), 0, -1, 0}
	for k, v := range e.Properties {
		full, _ := env.store.ExpandCurie(k)
		if f, ok := v.(float64); ok && full == verifC14PropURI {
			t[2] = int(f)
		} else if n, ok := v.(int); ok && full == verifC14PropURI {
			t[2] = n
		} else {
			t[2] = -2000
		}
	}
	for k, v := range e.References {
		full, _ := env.store.ExpandCurie(k)
		if s, ok := v.(string); ok && full == verifC14RefURI {
			t[3] = env.entCode(s)
		} else {
			t[3] = -2000
		}
	}
	if e.IsDeleted {
		t[4] = 1
	}
	return t
}

func verifC14Raw(e *server.Entity) string {
	m := map[string]interface{}{"id": e.ID, "iid": e.InternalID, "del": e.IsDeleted, "props": e.Properties, "refs": e.References}
	b, _ := json.Marshal(m)
	return string(b)
}

func (env *verifC14Env) curieIfKnown(uri string) (string, bool) {
	i := strings.LastIndex(uri, "/")
	p, err := env.store.NamespaceManager.GetPrefixMappingForExpansion(uri[:i+1])
	if err != nil {
		return "", false
	}
	return p + ":" + uri[i+1:], true
}

func (env *verifC14Env) snapshot(probe []int) (s VerifC14Snap) {
	defer func() {
		if r := recover(); r != nil {
			s.Err = fmt.Sprint("panic in snapshot: ", r)
		}
	}()
	fail := func(where string, err error) {
		if s.Err == "" {
			s.Err = where + ": " + err.Error()
		}
	}
	// datasets
	names := make([]string, 0)
	for _, n := range env.dsm.GetDatasetNames() {
		names = append(names, n.Name)
	}
	sort.Strings(names)
	s.Ds = make([][]int, 0)
	s.Dsraw = make([]string, 0)
	s.Feeds = map[string]VerifC14Feed{}
	s.Ctx = map[string][]string{}
	s.Fs = make([][]int, 0)
	for _, n := range names {
		ds := env.dsm.GetDataset(n)
		kind, cfg := 0, 0
		if ds.IsProxy() {
			kind, cfg = 1, ds.ProxyConfig.TimeoutSeconds
		} else if ds.IsVirtual() {
			kind, cfg = 2, -7
			if k, err := strconv.Atoi(strings.TrimPrefix(ds.VirtualDatasetConfig.Transform, "t")); err == nil {
				cfg = k
			}
		}
		pcj, _ := json.Marshal(ds.ProxyConfig)
		vcj, _ := json.Marshal(ds.VirtualDatasetConfig)
		s.Dsraw = append(s.Dsraw, fmt.Sprintf("%s proxy=%v virtual=%v %s %s", n, ds.IsProxy(), ds.IsVirtual(), pcj, vcj))
		row := []int{verifC14DsCode(n), int(ds.InternalID), kind, cfg}
		for _, p := range ds.PublicNamespaces {
			x := -1
			if strings.HasPrefix(p, "http://v") && strings.HasSuffix(p, "/") {
				if k, err := strconv.Atoi(p[8 : len(p)-1]); err == nil {
					x = k
				}
			}
			row = append(row, x)
		}
		s.Ds = append(s.Ds, row)
		fs := 0
		if ds.FullSyncStarted() {
			fs = 1
		}
		s.Fs = append(s.Fs, []int{verifC14DsCode(n), fs})
		isCore := n == "core.Dataset"
		f := VerifC14Feed{ID: int(ds.InternalID), Ents: [][]int{}, Chg: [][]int{}, Lat: [][]int{}, Toks: []int{}, Rec: []uint64{}}
		er, err := ds.GetEntities("", -1)
		if err != nil {
			fail("entities "+n, err)
		} else {
			for _, e := range er.Entities {
				if isCore {
					f.Raw = append(f.Raw, "E"+verifC14Raw(e))
				} else {
					f.Ents = append(f.Ents, env.tuple(e))
				}
				f.Rec = append(f.Rec, e.Recorded)
			}
			f.Etok = er.ContinuationToken
		}
		ch, err := ds.GetChanges(0, 0, false)
		if err != nil {
			fail("changes "+n, err)
		} else {
			for _, e := range ch.Entities {
				if isCore {
					f.Raw = append(f.Raw, "C"+verifC14Raw(e))
				} else {
					f.Chg = append(f.Chg, env.tuple(e))
				}
				f.Rec = append(f.Rec, e.Recorded)
			}
			f.Next = int(ch.NextToken)
		}
		lt, err := ds.GetChanges(0, 0, true)
		if err != nil {
			fail("latest "+n, err)
		} else {
			for _, e := range lt.Entities {
				if isCore {
					f.Raw = append(f.Raw, "L"+verifC14Raw(e))
				} else {
					f.Lat = append(f.Lat, env.tuple(e))
				}
			}
			f.Lnext = int(lt.NextToken)
		}
		// pages of two, following the tokens
		since := uint64(0)
		for i := 0; i < 1000; i++ {
			pg, err := ds.GetChanges(since, 2, false)
			if err != nil {
				fail("pages "+n, err)
				break
			}
			f.Toks = append(f.Toks, int(pg.NextToken))
			if len(pg.Entities) == 0 {
				break
			}
			since = pg.NextToken
		}
		s.Feeds[n] = f
		cx := make([]string, 0)
		for p, e := range ds.GetContext().Namespaces {
			cx = append(cx, p+"="+e)
		}
		sort.Strings(cx)
		s.Ctx[n] = cx
	}
	next, del := server.VerifC14Meta(env.store)
	s.Next = int(next)
	s.Del = make([]int, 0)
	for _, d := range del {
		s.Del = append(s.Del, int(d))
	}
	// namespaces, ordered by prefix number
	gc := env.store.GetGlobalContext(false).Namespaces
	s.Ns = make([]string, len(gc))
	for i := range s.Ns {
		s.Ns[i] = "?"
	}
	for p, e := range gc {
		k, err := strconv.Atoi(strings.TrimPrefix(p, "ns"))
		if err == nil && k >= 0 && k < len(s.Ns) {
			s.Ns[k] = e
		} else {
			s.Ns = append(s.Ns, p+"="+e)
		}
	}
	// point reads and relation queries
	s.Get = make([][]int, 0)
	s.Rel = make([][]int, 0)
	for _, code := range probe {
		curie, known := env.curieIfKnown(verifC14EntURI(code))
		if !known {
			s.Get = append(s.Get, []int{code, 0})
			continue
		}
		e, err := env.store.GetEntity(curie, nil, true)
		if err != nil {
			fail("get", err)
		} else if e == nil {
			s.Get = append(s.Get, []int{code, 0})
		} else {
			s.Get = append(s.Get, append([]int{code, 1}, env.tuple(e)...))
		}
		for inv := 0; inv < 2; inv++ {
			rs, err := env.store.GetManyRelatedEntities([]string{curie}, "*", inv == 1, nil, true)
			if err != nil {
				fail("related", err)
				continue
			}
			row := []int{code, inv}
			tg := make([]int, 0)
			for _, r := range rs {
				if re, ok := r[2].(*server.Entity); ok {
					tg = append(tg, env.entCode(re.ID))
				}
			}
			sort.Ints(tg)
			s.Rel = append(s.Rel, append(row, tg...))
		}
	}
	// jobs
	s.Jobs = make([][]int, 0)
	s.Jraw = make([]string, 0)
	s.Tok = make([][]int, 0)
	for _, jc := range env.sched.ListJobs() {
		p := 0
		if jc.Paused {
			p = 1
		}
		src, _ := jc.Source["Name"].(string)
		snk, _ := jc.Sink["Name"].(string)
		delay, has := 0, 0
		for _, t := range jc.Triggers {
			for _, eh := range t.ErrorHandlers {
				delay = int(eh.RetryDelay)
				has++
			}
		}
		trig := -1
		for _, t := range jc.Triggers {
			if t.TriggerType == TriggerTypeOnChange {
				trig = verifC14DsCode(t.MonitoredDataset)
			}
		}
		s.Jobs = append(s.Jobs, []int{verifC14JobCode(jc.ID), p, verifC14DsCode(src), verifC14DsCode(snk), has, delay, trig})
		raw, _ := json.Marshal(jc)
		s.Jraw = append(s.Jraw, string(raw))
	}
	sort.Slice(s.Jobs, func(a, b int) bool { return s.Jobs[a][0] < s.Jobs[b][0] })
	sort.Strings(s.Jraw)
	for j := 0; j < 4; j++ {
		st, err := env.sched.GetJobState(verifC14JobID(j))
		if err != nil {
			fail("jobstate", err)
			continue
		}
		if st.ID == "" && st.ContinuationToken == "" {
			continue
		}
		t := -1
		if st.ContinuationToken != "" {
			if n, err := strconv.Atoi(st.ContinuationToken); err == nil {
				t = n
			} else {
				t = -2000
			}
		}
		s.Tok = append(s.Tok, []int{j, t})
	}
	s.Sched = make([]int, 0)
	for id, ents := range env.run.scheduledJobs {
		if len(ents) > 0 {
			s.Sched = append(s.Sched, verifC14JobCode(id))
		}
	}
	// jobs with a dataset subscription on the event bus
	for _, id := range env.bus.inner.Bus.HandlerKeys() {
		s.Sched = append(s.Sched, verifC14JobCode(id))
	}
	sort.Ints(s.Sched)
	s.Hang = env.hang
	s.Hist = make([][]int, 0)
	for _, h := range env.sched.GetJobHistory() {
		f := 0
		if h.LastError != "" {
			f = 1
		}
		s.Hist = append(s.Hist, []int{verifC14JobCode(h.ID), f, h.Processed})
	}
	sort.Slice(s.Hist, func(a, b int) bool { return s.Hist[a][0] < s.Hist[b][0] })
	// security
	s.Clients = make([]string, 0)
	for c := range env.core.GetClients() {
		s.Clients = append(s.Clients, c)
	}
	sort.Strings(s.Clients)
	s.Acls = map[string][]int{}
	for c, l := range env.core.GetAllAccessControls() {
		row := make([]int, 0)
		for _, a := range l {
			row = append(row, verifC14AclCode(a))
		}
		s.Acls[c] = row
	}
	// login providers: the stored list and the live provider map
	s.Provs = make([][]string, 0)
	pl, err := env.tps.ListProviders()
	if err != nil {
		fail("providers", err)
	}
	for _, p := range pl {
		u := ""
		if p.User != nil {
			u = p.User.Value
		}
		s.Provs = append(s.Provs, []string{p.Name, p.Type, u})
	}
	s.Res = make([][]string, 0)
	for _, p := range pl {
		// the lookup of parseSource / httpDatasetSink / HttpTransform / the proxy dataset handler
		u := "<none>"
		if pr, ok := env.tps.Get(strings.ToLower(p.Name)); ok {
			u = "?"
			if bp, ok := pr.(security.BasicProvider); ok {
				u = bp.User
			}
		}
		s.Res = append(s.Res, []string{p.Name, u})
	}
	s.Tp = make([][]string, 0)
	for n, p := range *env.tps.Providers {
		u := "?"
		if bp, ok := p.(security.BasicProvider); ok {
			u = bp.User
		}
		s.Tp = append(s.Tp, []string{n, u})
	}
	sort.Slice(s.Tp, func(a, b int) bool { return s.Tp[a][0] < s.Tp[b][0] })
	s.Ids = server.VerifC14IDIndex(env.store)
	return s
}

func (env *verifC14Env) entities(es [][4]int) ([]*server.Entity, error) {
	out := make([]*server.Entity, 0, len(es))
	for _, t := range es {
		id, err := env.store.GetNamespacedIdentifier(verifC14EntURI(t[0]), nil)
		if err != nil {
			return nil, err
		}
		e := server.NewEntity(id, 0)
		pk, err := env.store.GetNamespacedIdentifier(verifC14PropURI, nil)
		if err != nil {
			return nil, err
		}
		e.Properties[pk] = t[1]
		if t[2] >= 0 {
			rk, err := env.store.GetNamespacedIdentifier(verifC14RefURI, nil)
			if err != nil {
				return nil, err
			}
			tg, err := env.store.GetNamespacedIdentifier(verifC14EntURI(t[2]), nil)
			if err != nil {
				return nil, err
			}
			e.References[rk] = tg
		}
		e.IsDeleted = t[3] != 0
		out = append(out, e)
	}
	return out, nil
}

// what web.datasetHandler.processEntities does around dataset.StoreEntities
func (env *verifC14Env) post(name string, start bool, fsID string, end bool, es [][4]int) (string, error) {
	if !env.dsm.IsDataset(name) {
		return "err", fmt.Errorf("dataset does not exists")
	}
	ds := env.dsm.GetDataset(name)
	if ds.IsProxy() {
		// the handler forwards the body to the remote hub, which does not exist here
		return "err", fmt.Errorf("proxy dataset: remote not reachable")
	}
	if ds.IsVirtual() {
		return "err", fmt.Errorf("virtual datasets are read-only")
	}
	if start {
		if err := ds.StartFullSyncWithLease(fsID); err != nil {
			return "conflict", err
		}
	} else if ds.FullSyncStarted() {
		if err := ds.RefreshFullSyncLease(fsID); err != nil {
			return "conflict", err
		}
	}
	ents, err := env.entities(es)
	if err != nil {
		return "err", err
	}
	if len(ents) > 0 {
		if err := ds.StoreEntities(ents); err != nil {
			return "err", err
		}
	}
	if end {
		if err := ds.ReleaseFullSyncLease(fsID); err != nil {
			return "gone", err
		}
		if err := ds.CompleteFullSync(context.Background()); err != nil {
			return "err", err
		}
	}
	// the handler emits the dataset events so that subscribers can react
	env.bus.Emit(context.Background(), "dataset."+name, nil)
	env.bus.Emit(context.Background(), "dataset.core.Dataset", nil)
	return "ok", nil
}

func (env *verifC14Env) apply(op VerifC14Op) (res string, err error) {
	defer func() {
		if r := recover(); r != nil {
			res, err = "panic", fmt.Errorf("%v", r)
		}
	}()
	switch op.Op {
	case "create":
		var cc *server.CreateDatasetConfig
		if len(op.Pub) > 0 || op.Kind != 0 {
			cc = &server.CreateDatasetConfig{}
			for _, x := range op.Pub {
				cc.PublicNamespaces = append(cc.PublicNamespaces, verifC14Exp(x))
			}
			if op.Kind == 1 {
				// the remote is not reachable: nothing in the driver talks to it
				cc.ProxyDatasetConfig = &server.ProxyDatasetConfig{RemoteURL: "http://127.0.0.1:1/datasets/remote",
					AuthProviderName: "pa", TimeoutSeconds: op.Cfg}
			} else if op.Kind == 2 {
				cc.VirtualDatasetConfig = &server.VirtualDatasetConfig{Transform: "t" + strconv.Itoa(op.Cfg)}
			}
		}
		if _, err := env.dsm.CreateDataset(verifC14DsName(op.Ds), cc); err != nil {
			return "err", err
		}
	case "delete":
		if err := env.dsm.DeleteDataset(verifC14DsName(op.Ds)); err != nil {
			return "err", err
		}
	case "rename":
		if _, err := env.dsm.UpdateDataset(verifC14DsName(op.Ds), &server.UpdateDatasetConfig{ID: verifC14DsName(op.To)}); err != nil {
			return "err", err
		}
	case "pubns":
		// a client updating the dataset's meta entity in core.Dataset (read, set the property, write back)
		name := verifC14DsName(op.Ds)
		info, err := env.store.NamespaceManager.GetDatasetNamespaceInfo()
		if err != nil {
			return "err", err
		}
		ent, err := env.store.GetEntity(info.DatasetPrefix+":"+name, []string{"core.Dataset"}, true)
		if err != nil || ent == nil {
			return "err", fmt.Errorf("no meta entity: %v", err)
		}
		if _, ok := ent.Properties[info.NameKey]; !ok {
			return "err", fmt.Errorf("no meta entity")
		}
		pub := make([]interface{}, 0)
		for _, x := range op.Pub {
			pub = append(pub, verifC14Exp(x))
		}
		ent.Properties[info.PublicNamespacesKey] = pub
		if err := env.dsm.GetDataset("core.Dataset").StoreEntities([]*server.Entity{ent}); err != nil {
			return "err", err
		}
	case "pubnsm":
		// one batch into core.Dataset carrying the meta entities of several datasets
		info, err := env.store.NamespaceManager.GetDatasetNamespaceInfo()
		if err != nil {
			return "err", err
		}
		ents := make([]*server.Entity, 0)
		for _, set := range op.Sets {
			name := verifC14DsName(set[0])
			if !env.dsm.IsDataset(name) {
				return "err", fmt.Errorf("no dataset %s", name)
			}
			ent, err := env.store.GetEntity(info.DatasetPrefix+":"+name, []string{"core.Dataset"}, true)
			if err != nil || ent == nil {
				return "err", fmt.Errorf("no meta entity: %v", err)
			}
			if _, ok := ent.Properties[info.NameKey]; !ok {
				return "err", fmt.Errorf("no meta entity")
			}
			pub := make([]interface{}, 0)
			for _, x := range set[1:] {
				pub = append(pub, verifC14Exp(x))
			}
			ent.Properties[info.PublicNamespacesKey] = pub
			ents = append(ents, ent)
		}
		if len(ents) > 0 {
			if err := env.dsm.GetDataset("core.Dataset").StoreEntities(ents); err != nil {
				return "err", err
			}
		}
	case "w":
		return env.post(verifC14DsName(op.Ds), false, "", false, op.Es)
	case "fsstart":
		return env.post(verifC14DsName(op.Ds), true, op.Fs, false, op.Es)
	case "fsw":
		return env.post(verifC14DsName(op.Ds), false, op.Fs, false, op.Es)
	case "fsend":
		return env.post(verifC14DsName(op.Ds), false, op.Fs, true, op.Es)
	case "addjob":
		onErr := ""
		if op.Delay > 0 {
			onErr = fmt.Sprintf(`,"onError":[{"errorHandler":"reRun","maxRetries":2,"retryDelay":%d}]`, op.Delay)
		}
		trigger := fmt.Sprintf(`{"triggerType":"cron","jobType":"incremental","schedule":"@every 2000s"%s}`, onErr)
		if op.Trig >= 0 && !op.Cron {
			trigger = fmt.Sprintf(`{"triggerType":"onchange","jobType":"incremental","monitoredDataset":"%s"}`, verifC14DsName(op.Trig))
		}
		js := fmt.Sprintf(`{"id":"%s","title":"%s","paused":%v,
			"triggers":[%s],
			"source":{"Type":"DatasetSource","Name":"%s"},"sink":{"Type":"DatasetSink","Name":"%s"}}`,
			verifC14JobID(op.Job), verifC14JobID(op.Job), op.Paused, trigger, verifC14DsName(op.Src), verifC14DsName(op.Sink))
		jc, err := env.sched.Parse([]byte(js))
		if err != nil {
			return "err", err
		}
		if err := env.sched.AddJob(jc); err != nil {
			return "err", err
		}
	case "pause":
		if err := env.sched.PauseJob(verifC14JobID(op.Job)); err != nil {
			return "err", err
		}
	case "resume":
		if err := env.sched.UnpauseJob(verifC14JobID(op.Job)); err != nil {
			return "err", err
		}
	case "deljob":
		if err := env.sched.DeleteJob(verifC14JobID(op.Job)); err != nil {
			return "err", err
		}
	case "run":
		// Scheduler.RunJob, with the job run synchronously instead of through jobrunner.Now
		jc, err := env.sched.LoadJob(verifC14JobID(op.Job))
		if jc == nil || jc.ID == "" {
			return "nojob", err
		}
		pl, err := env.sched.toPipeline(jc, JobTypeIncremental)
		if err != nil {
			return "err", err
		}
		j := &job{id: jc.ID, title: jc.Title, pipeline: pl, runner: env.run, dsm: env.dsm}
		j.Run()
		r := &jobResult{}
		_ = env.store.GetObject(server.JobResultIndex, jc.ID, r)
		if r.LastError != "" {
			return "failed", fmt.Errorf("%s", r.LastError)
		}
	case "reg":
		env.core.RegisterClient(&security.ClientInfo{ClientID: op.C, PublicKey: []byte("k-" + op.C)})
	case "unreg":
		env.core.RegisterClient(&security.ClientInfo{ClientID: op.C, Deleted: true})
	case "setacl":
		l := make([]*security.AccessControl, 0)
		for _, c := range op.Acl {
			l = append(l, verifC14AclEntry(c))
		}
		env.core.SetClientAccessControls(op.C, l)
	case "delacl":
		env.core.DeleteClientAccessControls(op.C)
	case "addprov":
		pc := security.ProviderConfig{Name: op.Name, Type: "basic",
			User:     &security.ValueReader{Type: "text", Value: op.User},
			Password: &security.ValueReader{Type: "text", Value: "pw"}}
		if err := env.tps.Add(pc); err != nil {
			return "err", err
		}
	case "delprov":
		if err := env.tps.DeleteProvider(op.Name); err != nil {
			return "err", err
		}
	default:
		return "err", fmt.Errorf("unknown op %q", op.Op)
	}
	return "ok", nil
}

func verifC14Exec(c VerifC14Case, dir string, withRestarts bool, obs *VerifC14Obs) (res []string, errs []string, fin *VerifC14Snap, err error) {
	defer func() {
		if r := recover(); r != nil {
			err = fmt.Errorf("panic: %v", r)
		}
	}()
	_ = os.RemoveAll(dir)
	if err := os.MkdirAll(dir+"/sec", 0o755); err != nil {
		return nil, nil, nil, err
	}
	defer os.RemoveAll(dir)
	if err := verifC14Keys(); err != nil {
		return nil, nil, nil, err
	}
	// the node key pair is provisioned (Init would generate a 4096 bit key on every fresh directory)
	if err := os.WriteFile(dir+"/sec/node_key", verifC14KeyPriv, 0o600); err != nil {
		return nil, nil, nil, err
	}
	if err := os.WriteFile(dir+"/sec/node_key.pub", verifC14KeyPub, 0o600); err != nil {
		return nil, nil, nil, err
	}
	env := &verifC14Env{dir: dir}
	env.open()
	defer env.close()
	res = make([]string, 0)
	errs = make([]string, 0)
	for _, op := range c.Ops {
		if op.Op == "restart" {
			if !withRestarts {
				continue
			}
			b := env.snapshot(c.Probe)
			env.close()
			env.open()
			a := env.snapshot(c.Probe)
			obs.Before = append(obs.Before, b)
			obs.After = append(obs.After, a)
			res = append(res, "ok")
			errs = append(errs, "")
			continue
		}
		r, e := env.apply(op)
		env.drain()
		res = append(res, r)
		if e != nil {
			errs = append(errs, e.Error())
		} else {
			errs = append(errs, "")
		}
	}
	s := env.snapshot(c.Probe)
	return res, errs, &s, nil
}

// VerifC14Run executes one case: the history with its restart ops, then (unless NoRef) the same history without them.
func VerifC14Run(c VerifC14Case, dir string) (obs VerifC14Obs) {
	obs.Outcome = "ok"
	obs.Before = make([]VerifC14Snap, 0)
	obs.After = make([]VerifC14Snap, 0)
	res, errs, fin, err := verifC14Exec(c, dir, true, &obs)
	if err != nil {
		obs.Outcome = "setup-error"
		obs.Detail = err.Error()
		return obs
	}
	obs.Res, obs.Errs, obs.Final = res, errs, fin
	if !c.NoRef {
		var dummy VerifC14Obs
		rres, _, rfin, err := verifC14Exec(c, dir+"r", false, &dummy)
		if err != nil {
			obs.Outcome = "setup-error"
			obs.Detail = "reference run: " + err.Error()
			return obs
		}
		obs.RefRes, obs.RefFin = rres, rfin
	}
	return obs
}
