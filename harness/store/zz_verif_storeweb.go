//go:build verif

// Injected into package web by `go build -overlay`: the real dataset handlers behind an echo router,
// for the store-core drivers (POST entities is cut into batches of 10 by the handler; GET changes / entities stream JSON).
package web

import (
	"strconv"
	"github.com/labstack/echo/v4"
	"go.uber.org/zap"

	"github.com/mimiro-io/datahub/internal/conf"
	"github.com/mimiro-io/datahub/internal/security"
	"github.com/mimiro-io/datahub/internal/server"
	"github.com/mimiro-io/datahub/internal/service/types"
)

func VerifStoreEcho(store *server.Store, dsm *server.DsManager) *echo.Echo {
	e := echo.New()
	e.HideBanner = true
	e.HidePort = true
	log := zap.NewNop().Sugar()
	e.Use(setupRecovery(log))
	cfg := &conf.Config{Logger: log}
	tps := security.NewTokenProviders(log, security.NewProviderManager(cfg, store, log), nil)
	h := &datasetHandler{datasetManager: dsm, store: store, eventBus: server.NoOpBus(), tokenProviders: tps}
	e.GET("/datasets/:dataset/entities", h.getEntitiesHandler)
	e.GET("/datasets/:dataset/changes", h.getChangesHandler)
	e.POST("/datasets/:dataset/entities", h.storeEntitiesHandler)
	q := &queryHandler{store: store, datasetManager: dsm, logger: log}
	e.POST("/query", q.queryHandler)
	t := &txnHandler{store: store, logger: log}
	e.POST("/transactions", t.processTransaction)
	return e
}

func VerifDecodeSince(s string) int64 {
	n, err := decodeSince(s)
	if err != nil {
		return -7
	}
	if uint64(n) > 1<<62 {
		return -1
	}
	return int64(n)
}

// VerifDecodeSinceStr: the position inside a token as a decimal string ("" if the token does not decode)
func VerifDecodeSinceStr(s string) string {
	n, err := decodeSince(s)
	if err != nil {
		return ""
	}
	return strconv.FormatUint(uint64(n), 10)
}

func VerifEncodeSince(n int64) string {
	if n <= 0 {
		return ""
	}
	return encodeSince(types.DatasetOffset(n))
}
