//go:build verif

// Injected into package server by `go build -overlay` (never committed to /repo).
// A small interpreter for histories of store operations used by the store-core properties
// (C01 latest view, C02 change feed, C03 relations, C06 point in time, ...).
package server

import (
	"bytes"
	"encoding/binary"
	"encoding/hex"
	"encoding/json"
	"fmt"
	"os"
	"sort"
	"strings"
	"sync"
	"sync/atomic"
	"time"

	"github.com/DataDog/datadog-go/v5/statsd"
	"github.com/dgraph-io/badger/v4"
	"go.uber.org/zap"

	"github.com/mimiro-io/datahub/internal/conf"
	"github.com/mimiro-io/datahub/internal/verifhook"
)

type VerifEnt struct {
	ID      string                 `json:"id"`
	Deleted bool                   `json:"deleted,omitempty"`
	Props   map[string]interface{} `json:"props"`
	Refs    map[string]interface{} `json:"refs"`
	// a recorded time supplied by the client (what a hub-to-hub sync sends); the store stamps every version itself
	Recorded uint64 `json:"recorded,omitempty"`
}

type VerifSet struct {
	Ds   string     `json:"ds"`
	Ents []VerifEnt `json:"ents"`
}

type VerifTimeRef struct {
	AfterOp int  `json:"after_op"` // index of a write op of this history
	Exact   bool `json:"exact"`    // exactly the commit time of that op (if it stored anything), else an instant after it
}

type VerifOp struct {
	Op       string        `json:"op"` // batch | txn | changes | entities | get | related | create | restart
	Ds       string        `json:"ds,omitempty"`
	Ents     []VerifEnt    `json:"ents,omitempty"`
	Sets     []VerifSet    `json:"sets,omitempty"`
	Since    int64         `json:"since,omitempty"`
	Reader   string        `json:"reader,omitempty"` // token-carrying reader: since is taken from its last token
	Limit    int           `json:"limit,omitempty"`
	Limits   []int         `json:"limits,omitempty"` // entities/related: limit per page, last one repeated
	Latest   bool          `json:"latest,omitempty"`
	Reverse  bool          `json:"reverse,omitempty"`
	ID       string        `json:"id,omitempty"`
	Datasets []string      `json:"datasets,omitempty"`
	Merge    bool          `json:"merge,omitempty"`
	Pred     string        `json:"pred,omitempty"`
	Inverse  bool          `json:"inverse,omitempty"`
	Starts   []string      `json:"starts,omitempty"`
	At       *VerifTimeRef `json:"at,omitempty"`
	Second   []VerifEnt    `json:"second,omitempty"`    // race: the second writer's batch (the first one's is Ents)
	PauseAt  string        `json:"pause_at,omitempty"`  // race: hook point at which the first writer is held
	FirstTxn bool          `json:"first_txn,omitempty"` // race: the first writer is a (single-dataset) transaction
	SinceStr string        `json:"since_str,omitempty"` // hchanges: a position as a decimal string (positions at and above 2^63 do not fit Since)
	Ctx      string        `json:"ctx,omitempty"`       // hbatch: the request's @context binds the default prefix to this expansion instead of http://v/
	Ld       bool          `json:"ld,omitempty"`        // hchanges / hentities: every request is repeated with Accept: application/ld+json and compared
	RefuseDuring string    `json:"refuse_during,omitempty"` // batch: while this writer stands at batch.beforeIdCommit, a batch into this OTHER dataset is refused
	Burn     int           `json:"n,omitempty"`         // burn: number of internal ids to use up (entities stored in a hidden dataset)
	Reject   bool          `json:"reject,omitempty"`    // batch: an entity with a nil reference is appended, StoreEntities must refuse the whole batch
}

type VerifCase struct {
	Datasets []string  `json:"datasets"`
	Ops      []VerifOp `json:"ops"`
}

type VerifOut struct {
	Ent *VerifEnt `json:"ent,omitempty"`
}

type VerifRel struct {
	Start string `json:"start"`
	Pred  string `json:"pred"`
	ID    string `json:"id"`
}

type VerifOpObs struct {
	Err     string              `json:"err,omitempty"`
	Panic   string              `json:"panic,omitempty"`
	Lens    []int               `json:"lens,omitempty"`  // batch/txn: serialized length of each posted entity (internalId, recorded zeroed)
	Time    int64               `json:"time,omitempty"`  // batch/txn: commit time (recorded) if anything was stored
	Ents    []VerifEnt          `json:"ents,omitempty"`  // changes / get
	Next    int64               `json:"next,omitempty"`  // changes: next token
	Pages   [][]VerifEnt        `json:"pages,omitempty"` // entities
	RPages  [][]VerifRel        `json:"rpages,omitempty"`
	Found   bool                `json:"found,omitempty"`
	NextStr string              `json:"next_str,omitempty"` // hchanges with since_str: the returned position as a decimal string
	Seqs    []int64             `json:"seqs,omitempty"`
	Raw     map[string][]string `json:"raw,omitempty"` // rawkeys: index id -> keys (hex) in Badger iteration order
	NewSeqs int                 `json:"newseqs,omitempty"`
}

type VerifObs struct {
	Outcome string            `json:"outcome"`
	Detail  string            `json:"detail,omitempty"`
	Ops     []VerifOpObs      `json:"ops"`
	Ns      map[string]string `json:"ns"`
}

// verifDefaultNS: the expansion the payload's context binds the default prefix "_" to (op field ctx changes it for one request)
var verifDefaultNS = "http://v/"

func verifPayload(ents []VerifEnt) []byte {
	var b bytes.Buffer
	b.WriteString(`[{"id":"@context","namespaces":{"_":"` + verifDefaultNS + `"}}`)
	for _, e := range ents {
		if e.Props == nil {
			e.Props = map[string]interface{}{}
		}
		if e.Refs == nil {
			e.Refs = map[string]interface{}{}
		}
		j, _ := json.Marshal(e)
		b.WriteString(",")
		b.Write(j)
	}
	b.WriteString("]")
	return b.Bytes()
}

func verifParse(store *Store, ents []VerifEnt) ([]*Entity, error) {
	esp := NewEntityStreamParser(store)
	res := make([]*Entity, 0)
	err := esp.ParseStream(bytes.NewReader(verifPayload(ents)), func(e *Entity) error {
		// the HTTP parser drops null properties; Go callers (job sinks, transforms) can store them:
		// the marker string "@@null" stands for a nil property value written through the Go API
		for k, v := range e.Properties {
			if sv, ok := v.(string); ok && sv == "@@null" {
				e.Properties[k] = nil
			}
		}
		res = append(res, e)
		return nil
	})
	return res, err
}

func verifLen(e *Entity) int {
	c := *e
	c.InternalID = 0
	c.Recorded = 0
	j, _ := json.Marshal(&c)
	return len(j)
}

func verifOutEnt(e *Entity) VerifEnt {
	// round trip through JSON so that nested entities etc. come out as plain maps
	j, _ := json.Marshal(e)
	var m struct {
		ID      string                 `json:"id"`
		Deleted bool                   `json:"deleted"`
		Props   map[string]interface{} `json:"props"`
		Refs    map[string]interface{} `json:"refs"`
	}
	_ = json.Unmarshal(j, &m)
	return VerifEnt{ID: m.ID, Deleted: m.Deleted, Props: m.Props, Refs: m.Refs}
}

type verifHub struct {
	dir   string
	store *Store
	dsm   *DsManager
}

func (h *verifHub) open() {
	cfg := &conf.Config{Logger: zap.NewNop().Sugar(), StoreLocation: h.dir}
	h.store = NewStore(cfg, &statsd.NoOpClient{})
	h.dsm = NewDsManager(cfg, h.store, NoOpBus())
}

func (h *verifHub) close() {
	if h.store != nil {
		_ = h.store.Close()
		h.store = nil
	}
}

// VerifStoreRun executes one history on a fresh store under dir.
func VerifStoreRun(c VerifCase, dir string) (obs VerifObs) {
	_ = os.MkdirAll(dir, 0o755)
	defer os.RemoveAll(dir)
	h := &verifHub{dir: dir}
	h.open()
	defer h.close()
	obs.Outcome = "ok"
	obs.Ops = make([]VerifOpObs, 0, len(c.Ops))
	for _, d := range c.Datasets {
		if _, err := h.dsm.CreateDataset(d, nil); err != nil {
			obs.Outcome = "setup-error"
			obs.Detail = err.Error()
			return
		}
	}
	times := make(map[int]int64)
	tokens := make(map[string]int64)
	for i, op := range c.Ops {
		oo := verifDoOp(h, op, i, times, tokens)
		obs.Ops = append(obs.Ops, oo)
	}
	obs.Ns = h.store.NamespaceManager.GetPrefixToExpansionMap()
	cp := make(map[string]string)
	for k, v := range obs.Ns {
		cp[k] = v
	}
	obs.Ns = cp
	return
}

func verifAt(op VerifOp, times map[int]int64) (int64, bool) {
	if op.At == nil {
		return 0, false
	}
	if op.At.Exact {
		if t, ok := times[-1-op.At.AfterOp]; ok && t > 0 {
			return t, true
		}
	}
	return times[op.At.AfterOp], true
}

// record the instants of write op idx: times[idx] = an instant after it, times[-1-idx] = its commit time (0 if it stored nothing)
func verifStamp(idx int, times map[int]int64, last int64, prevAfter int64) {
	if last > prevAfter {
		times[-1-idx] = last
	} else {
		times[-1-idx] = 0
	}
	time.Sleep(time.Microsecond)
	times[idx] = time.Now().UnixNano()
	time.Sleep(time.Microsecond)
}

func verifLastTime(ds *Dataset) int64 {
	var t int64
	_, _ = ds.ProcessChanges(0, 0, false, func(e *Entity) {
		if int64(e.Recorded) > t {
			t = int64(e.Recorded)
		}
	})
	return t
}

func verifDoOp(h *verifHub, op VerifOp, idx int, times map[int]int64, tokens map[string]int64) (oo VerifOpObs) {
	defer func() {
		if r := recover(); r != nil {
			oo.Panic = fmt.Sprint(r)
		}
	}()
	store := h.store
	switch op.Op {
	case "create":
		if _, err := h.dsm.CreateDataset(op.Ds, nil); err != nil {
			oo.Err = err.Error()
		}
	case "restart":
		h.close()
		h.open()
	case "recreate":
		// the dataset is deleted and a new one of the same name created: a new incarnation with a history of its own
		if err := h.dsm.DeleteDataset(op.Ds); err != nil {
			oo.Err = err.Error()
			return
		}
		if _, err := h.dsm.CreateDataset(op.Ds, nil); err != nil {
			oo.Err = err.Error()
		}
	case "batch":
		ds := h.dsm.GetDataset(op.Ds)
		if ds == nil {
			oo.Err = "no dataset"
			return
		}
		ents, err := verifParse(store, op.Ents)
		if err != nil {
			oo.Err = "parse: " + err.Error()
			return
		}
		for _, e := range ents {
			oo.Lens = append(oo.Lens, verifLen(e))
		}
		if op.Reject {
			bad := NewEntity("ns3:poison", 0)
			bad.References["ns3:r1"] = nil
			ents = append(ents, bad)
		}
		before, _ := ds.GetChangesWatermark2()
		if op.RefuseDuring != "" {
			other := h.dsm.GetDataset(op.RefuseDuring)
			var once sync.Once
			verifhook.SetHandler(func(name, arg string) {
				if name == "batch.beforeIdCommit" && arg == op.Ds && other != nil {
					once.Do(func() {
						bad := NewEntity("ns3:poison", 0)
						bad.References["ns3:r1"] = nil
						fresh := NewEntity(fmt.Sprintf("ns3:fresh%d", idx), 0)
						if err := other.StoreEntities([]*Entity{fresh, bad}); err == nil {
							oo.Err = "the poisoned batch was accepted"
						}
					})
				}
			})
		}
		if err := ds.StoreEntities(ents); err != nil {
			oo.Err = err.Error()
		}
		if op.RefuseDuring != "" {
			verifhook.SetHandler(nil)
		}
		after, _ := ds.GetChangesWatermark2()
		oo.NewSeqs = int(after - before)
		oo.Time = verifLastTime(ds)
		verifStamp(idx, times, oo.Time, times[1<<30])
		times[1<<30] = times[idx]
	case "txn":
		txn := &Transaction{DatasetEntities: make(map[string][]*Entity)}
		for _, s := range op.Sets {
			ents, err := verifParse(store, s.Ents)
			if err != nil {
				oo.Err = "parse: " + err.Error()
				return
			}
			for _, e := range ents {
				oo.Lens = append(oo.Lens, verifLen(e))
			}
			txn.DatasetEntities[s.Ds] = append(txn.DatasetEntities[s.Ds], ents...)
		}
		if err := store.ExecuteTransaction(txn); err != nil {
			oo.Err = err.Error()
		}
		var t int64
		for _, s := range op.Sets {
			if ds := h.dsm.GetDataset(s.Ds); ds != nil {
				if x := verifLastTime(ds); x > t {
					t = x
				}
			}
		}
		oo.Time = t
		verifStamp(idx, times, t, times[1<<30])
		times[1<<30] = times[idx]
	case "changes":
		ds := h.dsm.GetDataset(op.Ds)
		if ds == nil {
			oo.Err = "no dataset"
			return
		}
		since := op.Since
		if op.Reader != "" {
			since = tokens[op.Reader+"@"+op.Ds]
		}
		oo.Ents = []VerifEnt{}
		next, err := ds.ProcessChanges(uint64(since), op.Limit, op.Latest, func(e *Entity) {
			oo.Ents = append(oo.Ents, verifOutEnt(e))
		})
		if err != nil {
			oo.Err = err.Error()
			return
		}
		oo.Next = int64(next)
		if op.Reader != "" {
			tokens[op.Reader+"@"+op.Ds] = int64(next)
		}
	case "entities":
		ds := h.dsm.GetDataset(op.Ds)
		if ds == nil {
			oo.Err = "no dataset"
			return
		}
		oo.Pages = [][]VerifEnt{}
		from := ""
		for p := 0; p < 300; p++ {
			lim := 0
			if len(op.Limits) > 0 {
				if p < len(op.Limits) {
					lim = op.Limits[p]
				} else {
					lim = op.Limits[len(op.Limits)-1]
				}
			}
			page := []VerifEnt{}
			tok, err := ds.MapEntities(from, lim, func(e *Entity) error {
				page = append(page, verifOutEnt(e))
				return nil
			})
			if err != nil {
				oo.Err = err.Error()
				return
			}
			oo.Pages = append(oo.Pages, page)
			if len(page) == 0 || lim <= 0 {
				break
			}
			from = tok
		}
	case "get":
		var e *Entity
		var err error
		if at, ok := verifAt(op, times); ok {
			rtxn := store.database.NewTransaction(false)
			curie, err2 := store.GetNamespacedIdentifierFromURI(op.ID)
			if err2 != nil {
				rtxn.Discard()
				oo.Err = err2.Error()
				return
			}
			rid, exists, _ := store.getIDForURI(rtxn, curie)
			rtxn.Discard()
			if !exists {
				return
			}
			e, err = store.GetEntityAtPointInTimeWithInternalID(rid, at, store.DatasetsToInternalIDs(op.Datasets), op.Merge)
		} else {
			e, err = store.GetEntity(op.ID, op.Datasets, op.Merge)
		}
		if err != nil {
			oo.Err = err.Error()
			return
		}
		if e != nil {
			oo.Found = true
			oo.Ents = []VerifEnt{verifOutEnt(e)}
		}
	case "related":
		at, hasAt := verifAt(op, times)
		oo.RPages = [][]VerifRel{}
		var froms []*RelatedFrom
		var err error
		qt := at
		if !hasAt {
			qt = 1 << 62
		}
		froms, err = store.ToRelatedFrom(op.Starts, op.Pred, op.Inverse, op.Datasets, qt)
		if err != nil {
			oo.Err = err.Error()
			return
		}
		for _, f := range froms {
			if f == nil {
				oo.Err = "unknown start"
				return
			}
		}
		for p := 0; p < 300; p++ {
			lim := 0
			if len(op.Limits) > 0 {
				if p < len(op.Limits) {
					lim = op.Limits[p]
				} else {
					lim = op.Limits[len(op.Limits)-1]
				}
			}
			res, err := store.GetManyRelatedEntitiesAtTime(froms, lim, true)
			if err != nil {
				oo.Err = err.Error()
				return
			}
			page := []VerifRel{}
			for _, r := range res.Relations {
				id := ""
				if r.RelatedEntity != nil {
					id = r.RelatedEntity.ID
				}
				page = append(page, VerifRel{Start: r.StartURI, Pred: r.PredicateURI, ID: id})
			}
			oo.RPages = append(oo.RPages, page)
			if len(res.Cont) == 0 || lim <= 0 || p > 2000 {
				break
			}
			froms = res.Cont
		}
	case "race":
		// two writers on one dataset under a forced schedule: writer 1 is held at a hook point, writer 2 is started and
		// given time to finish or to block on the dataset lock, an optional reader reads, then writer 1 is released.
		ds := h.dsm.GetDataset(op.Ds)
		if ds == nil {
			oo.Err = "no dataset"
			return
		}
		e1, err := verifParse(store, op.Ents)
		if err != nil {
			oo.Err = "parse: " + err.Error()
			return
		}
		e2, err := verifParse(store, op.Second)
		if err != nil {
			oo.Err = "parse: " + err.Error()
			return
		}
		for _, e := range e1 {
			oo.Lens = append(oo.Lens, verifLen(e))
		}
		for _, e := range e2 {
			oo.Lens = append(oo.Lens, verifLen(e))
		}
		held := make(chan struct{})
		release := make(chan struct{})
		var once sync.Once
		var w2acquired int32
		var phase int32 // 0: writer 1 running alone, 1: writer 1 held, writer 2 running
		verifhook.SetHandler(func(name, arg string) {
			if arg != op.Ds && !(arg == "" && strings.HasPrefix(name, "txn.")) {
				return
			}
			if atomic.LoadInt32(&phase) == 0 && name == op.PauseAt {
				fired := false
				once.Do(func() { fired = true })
				if fired {
					atomic.StoreInt32(&phase, 1)
					close(held)
					<-release
				}
				return
			}
			if atomic.LoadInt32(&phase) == 1 && name == "lock.acquired" {
				atomic.StoreInt32(&w2acquired, 1)
			}
		})
		defer verifhook.SetHandler(nil)
		done1 := make(chan error, 1)
		done2 := make(chan error, 1)
		if op.FirstTxn {
			txn := &Transaction{DatasetEntities: map[string][]*Entity{op.Ds: e1}}
			go func() { done1 <- store.ExecuteTransaction(txn) }()
		} else {
			go func() { done1 <- ds.StoreEntities(e1) }()
		}
		select {
		case <-held:
		case err := <-done1:
			oo.Err = fmt.Sprintf("writer 1 never reached %s (err=%v)", op.PauseAt, err)
			return
		case <-time.After(10 * time.Second):
			oo.Err = "writer 1 hang"
			return
		}
		go func() { done2 <- ds.StoreEntities(e2) }()
		w2done := false
		select {
		case err := <-done2:
			w2done = true
			if err != nil {
				oo.Err = "writer 2: " + err.Error()
			}
		case <-time.After(300 * time.Millisecond):
		}
		// the reader in the middle
		oo.Ents = []VerifEnt{}
		since := tokens[op.Reader+"@"+op.Ds]
		next, rerr := ds.ProcessChanges(uint64(since), op.Limit, false, func(e *Entity) {
			oo.Ents = append(oo.Ents, verifOutEnt(e))
		})
		if rerr == nil {
			oo.Next = int64(next)
			tokens[op.Reader+"@"+op.Ds] = int64(next)
		}
		oo.Found = w2done // writer 2 completed while writer 1 was held
		close(release)
		if err := <-done1; err != nil && oo.Err == "" {
			oo.Err = "writer 1: " + err.Error()
		}
		if !w2done {
			select {
			case err := <-done2:
				if err != nil && oo.Err == "" {
					oo.Err = "writer 2: " + err.Error()
				}
			case <-time.After(20 * time.Second):
				oo.Err = "writer 2 hang"
			}
		}
		verifStamp(idx, times, verifLastTime(ds), times[1<<30])
		times[1<<30] = times[idx]
	case "par":
		// the sets are stored at the same moment by one goroutine each (different datasets; no forced schedule)
		type job struct {
			ds   *Dataset
			ents []*Entity
		}
		var jobs []job
		for _, st := range op.Sets {
			d := h.dsm.GetDataset(st.Ds)
			if d == nil {
				oo.Err = "no dataset"
				return
			}
			ents, err := verifParse(store, st.Ents)
			if err != nil {
				oo.Err = "parse: " + err.Error()
				return
			}
			for _, e := range ents {
				oo.Lens = append(oo.Lens, verifLen(e))
			}
			jobs = append(jobs, job{d, ents})
		}
		start := make(chan struct{})
		errs := make(chan error, len(jobs))
		for _, j := range jobs {
			j := j
			go func() {
				<-start
				errs <- j.ds.StoreEntities(j.ents)
			}()
		}
		close(start)
		for range jobs {
			if err := <-errs; err != nil {
				oo.Err = err.Error()
			}
		}
	case "burn":
		// use up internal ids (they are global to the store) without telling the model: entities in a hidden dataset
		hid := h.dsm.GetDataset("zzburn")
		if hid == nil {
			var err error
			if hid, err = h.dsm.CreateDataset("zzburn", nil); err != nil {
				oo.Err = err.Error()
				return
			}
		}
		for done := 0; done < op.Burn; {
			n := op.Burn - done
			if n > 500 {
				n = 500
			}
			es := make([]*Entity, 0, n)
			for i := 0; i < n; i++ {
				e := NewEntity(fmt.Sprintf("ns3:zb%d_%d", idx, done+i), 0)
				e.Properties["ns3:p1"] = i
				es = append(es, e)
			}
			if err := hid.StoreEntities(es); err != nil {
				oo.Err = err.Error()
				return
			}
			done += n
		}
	case "seqs":
		// the sequence numbers really present in the dataset's change log (key layout: idx=4, dataset id, sequence, entity id)
		ds := h.dsm.GetDataset(op.Ds)
		if ds == nil {
			oo.Err = "no dataset"
			return
		}
		oo.Seqs = []int64{}
		_ = store.database.View(func(txn *badger.Txn) error {
			prefix := make([]byte, 6)
			binary.BigEndian.PutUint16(prefix, DatasetEntityChangeLog)
			binary.BigEndian.PutUint32(prefix[2:], ds.InternalID)
			opts := badger.DefaultIteratorOptions
			opts.PrefetchValues = false
			opts.Prefix = prefix
			it := txn.NewIterator(opts)
			defer it.Close()
			for it.Seek(prefix); it.ValidForPrefix(prefix); it.Next() {
				oo.Seqs = append(oo.Seqs, int64(binary.BigEndian.Uint64(it.Item().Key()[6:14])))
			}
			return nil
		})
	case "rawkeys":
		oo.Raw = map[string][]string{}
		_ = store.database.View(func(txn *badger.Txn) error {
			for _, fam := range []uint16{1, 2, 3, 4, 8} {
				prefix := make([]byte, 2)
				binary.BigEndian.PutUint16(prefix, fam)
				opts := badger.DefaultIteratorOptions
				opts.PrefetchValues = false
				opts.Prefix = prefix
				it := txn.NewIterator(opts)
				keys := []string{}
				for it.Seek(prefix); it.ValidForPrefix(prefix) && len(keys) < 300; it.Next() {
					k := it.Item().KeyCopy(nil)
					if fam == 1 && len(k) == 24 {
						// a version and the key it is stored under agree: the recorded time inside the stored JSON is the
						// time field of its key (readers take either).  A version that disagrees is reported as a key that
						// no layout decodes, so the raw-key check of the model fails on it.
						if v, err := it.Item().ValueCopy(nil); err == nil {
							var e Entity
							if json.Unmarshal(v, &e) == nil && e.Recorded != binary.BigEndian.Uint64(k[14:22]) {
								k = []byte{0xff}
							}
						}
					}
					keys = append(keys, hex.EncodeToString(k))
				}
				it.Close()
				oo.Raw[fmt.Sprint(fam)] = keys
			}
			return nil
		})
	default:
		if f, ok := VerifExtOps[op.Op]; ok {
			return f(store, h.dsm, op, tokens)
		}
		oo.Err = "unknown op " + op.Op
	}
	return
}

// VerifExtOps lets the driver's main package add operations that need packages which import package server
var VerifExtOps = map[string]func(store *Store, dsm *DsManager, op VerifOp, tokens map[string]int64) VerifOpObs{}

// VerifLens: serialized lengths of the entities of a payload as the parser builds them (nothing is stored)
func VerifLens(store *Store, ents []VerifEnt) []int {
	es, err := verifParse(store, ents)
	if err != nil {
		return nil
	}
	out := make([]int, 0, len(es))
	for _, e := range es {
		out = append(out, verifLen(e))
	}
	return out
}

// VerifPayload: the UDA JSON payload (context + entities) for a list of entities
func VerifPayload(ents []VerifEnt) []byte { return verifPayload(ents) }

// VerifWithDefaultNS runs f with the payload context's default expansion set to ns ("" = unchanged)
func VerifWithDefaultNS(ns string, f func()) {
	if ns == "" {
		f()
		return
	}
	old := verifDefaultNS
	verifDefaultNS = ns
	defer func() { verifDefaultNS = old }()
	f()
}

// VerifEntFromMap converts one element of a streamed JSON response into the observation form
func VerifEntFromMap(m map[string]interface{}) VerifEnt {
	e := VerifEnt{}
	if v, ok := m["id"].(string); ok {
		e.ID = v
	}
	if v, ok := m["deleted"].(bool); ok {
		e.Deleted = v
	}
	if v, ok := m["props"].(map[string]interface{}); ok {
		e.Props = v
	}
	if v, ok := m["refs"].(map[string]interface{}); ok {
		e.Refs = v
	}
	return e
}

// VerifOutEnt converts a stored entity JSON into the observation form
func VerifOutEntJSON(jsonData []byte) VerifEnt {
	e := &Entity{}
	_ = json.Unmarshal(jsonData, e)
	return verifOutEnt(e)
}

// GetChangesWatermark2: number of change-log entries (robust on an empty dataset, unlike GetChangesWatermark)
func (ds *Dataset) GetChangesWatermark2() (uint64, error) {
	var n uint64
	_, err := ds.ProcessChangesRaw(0, 0, false, func(b []byte) error {
		n++
		return nil
	})
	return n, err
}

var _ = sort.Strings
var _ = strings.HasPrefix
