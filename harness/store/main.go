//go:build verif

// verif driver for the store-core properties: one JSON history per stdin line -> one "@@OBS <json>" line.
package main

import (
	"bufio"
	"encoding/json"
	"fmt"
	"os"

	"bytes"
	"github.com/mimiro-io/datahub/internal/server"
	ds "github.com/mimiro-io/datahub/internal/service/dataset"
	"github.com/mimiro-io/datahub/internal/service/types"
	"github.com/mimiro-io/datahub/internal/web"
	"net/http/httptest"
	"net/url"
	"strconv"
)

// changes_rev: the reverse change reader exactly as web.getChangesHandler drives it
// (ds.Of(...).At(since).Inverse(); up to limit items; token = NextOffset())
func changesRev(store *server.Store, dsm *server.DsManager, op server.VerifOp, tokens map[string]int64) (oo server.VerifOpObs) {
	since := op.Since
	if op.Reader != "" {
		since = tokens[op.Reader+"@rev@"+op.Ds]
	}
	of, err := ds.Of(server.NewBadgerAccess(store, dsm), op.Ds)
	if err != nil {
		oo.Err = err.Error()
		return
	}
	it, err := of.At(types.DatasetOffset(since))
	if err != nil {
		oo.Err = err.Error()
		return
	}
	it = it.Inverse()
	defer it.Close()
	oo.Ents = []server.VerifEnt{}
	cnt := 0
	for it.Next() {
		oo.Ents = append(oo.Ents, server.VerifOutEntJSON(it.Item()))
		cnt++
		if cnt == op.Limit {
			break
		}
	}
	tok := it.NextOffset()
	if it.Error() != nil {
		oo.Err = it.Error().Error()
		return
	}
	oo.Next = int64(tok)
	if uint64(tok) > 1<<62 {
		oo.Next = -1 // "from the end" (max uint64) does not fit the JSON number
	}
	if op.Reader != "" {
		tokens[op.Reader+"@rev@"+op.Ds] = oo.Next
	}
	return
}

// ---- the same features through the real HTTP handlers (internal/web/datasethandler.go)

func httpDo(store *server.Store, dsm *server.DsManager, method, path string, body []byte) (int, []byte) {
	e := web.VerifStoreEcho(store, dsm)
	req := httptest.NewRequest(method, path, bytes.NewReader(body))
	req.Header.Set("Content-Type", "application/json")
	rec := httptest.NewRecorder()
	e.ServeHTTP(rec, req)
	return rec.Code, rec.Body.Bytes()
}

// POST /datasets/<ds>/entities : the handler cuts the stream into StoreEntities batches of 10
func hBatch(store *server.Store, dsm *server.DsManager, op server.VerifOp, tokens map[string]int64) (oo server.VerifOpObs) {
	oo.Lens = server.VerifLens(store, op.Ents)
	code, body := httpDo(store, dsm, "POST", "/datasets/"+op.Ds+"/entities", server.VerifPayload(op.Ents))
	if code != 200 {
		oo.Err = fmt.Sprintf("status %d: %s", code, string(body))
	}
	return
}

func parseStream(body []byte) (ents []server.VerifEnt, token string, ok bool) {
	var arr []map[string]interface{}
	if err := json.Unmarshal(body, &arr); err != nil {
		return nil, "", false
	}
	ents = []server.VerifEnt{}
	for i, m := range arr {
		id, _ := m["id"].(string)
		if i == 0 && id == "@context" {
			continue
		}
		if id == "@continuation" {
			token, _ = m["token"].(string)
			continue
		}
		ents = append(ents, server.VerifEntFromMap(m))
	}
	return ents, token, true
}

// GET /datasets/<ds>/changes?since=&limit=&latestOnly=&reverse=
func hChanges(store *server.Store, dsm *server.DsManager, op server.VerifOp, tokens map[string]int64) (oo server.VerifOpObs) {
	key := op.Reader + "@h@" + op.Ds
	if op.Reverse {
		key = op.Reader + "@hrev@" + op.Ds
	}
	since := op.Since
	if op.Reader != "" {
		since = tokens[key]
	}
	q := url.Values{}
	if since > 0 {
		q.Set("since", web.VerifEncodeSince(since))
	}
	if op.Limit != 0 {
		q.Set("limit", strconv.Itoa(op.Limit))
	}
	if op.Latest {
		q.Set("latestOnly", "true")
	}
	if op.Reverse {
		q.Set("reverse", "true")
	}
	code, body := httpDo(store, dsm, "GET", "/datasets/"+op.Ds+"/changes?"+q.Encode(), nil)
	if code != 200 {
		oo.Err = fmt.Sprintf("status %d", code)
		return
	}
	ents, tok, ok := parseStream(body)
	if !ok {
		oo.Err = "unparsable response"
		return
	}
	oo.Ents = ents
	if tok == "" {
		oo.Next = 0 // the reverse reader omits the continuation when it reached position 0
	} else {
		oo.Next = web.VerifDecodeSince(tok)
	}
	if op.Reader != "" {
		tokens[key] = oo.Next
	}
	return
}

// GET /datasets/<ds>/entities?from=&limit= , following the continuation tokens
func hEntities(store *server.Store, dsm *server.DsManager, op server.VerifOp, tokens map[string]int64) (oo server.VerifOpObs) {
	oo.Pages = [][]server.VerifEnt{}
	from := ""
	for p := 0; p < 10000; p++ {
		lim := 0
		if len(op.Limits) > 0 {
			if p < len(op.Limits) {
				lim = op.Limits[p]
			} else {
				lim = op.Limits[len(op.Limits)-1]
			}
		}
		q := url.Values{}
		if from != "" {
			q.Set("from", from)
		}
		if lim != 0 {
			q.Set("limit", strconv.Itoa(lim))
		}
		code, body := httpDo(store, dsm, "GET", "/datasets/"+op.Ds+"/entities?"+q.Encode(), nil)
		if code != 200 {
			oo.Err = fmt.Sprintf("status %d", code)
			return
		}
		ents, tok, ok := parseStream(body)
		if !ok {
			oo.Err = "unparsable response"
			return
		}
		oo.Pages = append(oo.Pages, ents)
		if len(ents) == 0 || lim <= 0 {
			break
		}
		from = tok
	}
	return
}

func init() {
	server.VerifExtOps["changes_rev"] = changesRev
	server.VerifExtOps["hbatch"] = hBatch
	server.VerifExtOps["hchanges"] = hChanges
	server.VerifExtOps["hentities"] = hEntities
}

func main() {
	dir := os.Args[1]
	in := bufio.NewScanner(os.Stdin)
	in.Buffer(make([]byte, 1<<20), 1<<28)
	out := bufio.NewWriter(os.Stdout)
	defer out.Flush()
	i := 0
	for in.Scan() {
		var c server.VerifCase
		if err := json.Unmarshal(in.Bytes(), &c); err != nil {
			fmt.Fprintln(os.Stderr, "bad case:", err)
			os.Exit(2)
		}
		obs := server.VerifStoreRun(c, fmt.Sprintf("%s/c%d", dir, i))
		b, _ := json.Marshal(obs)
		out.WriteString("@@OBS ")
		out.Write(b)
		out.WriteString("\n")
		out.Flush()
		i++
	}
}
