//go:build verif

// verif driver for the store-core properties: one JSON history per stdin line -> one "@@OBS <json>" line.
package main

import (
	"bufio"
	"encoding/json"
	"fmt"
	"os"

	"github.com/mimiro-io/datahub/internal/server"
	ds "github.com/mimiro-io/datahub/internal/service/dataset"
	"github.com/mimiro-io/datahub/internal/service/types"
)

// changes_rev: the reverse change reader exactly as web.getChangesHandler drives it
// (ds.Of(...).At(since).Inverse(); up to limit items; token = NextOffset())
func changesRev(store *server.Store, dsm *server.DsManager, op server.VerifOp, tokens map[string]int64) (oo server.VerifOpObs) {
	since := op.Since
	if op.Reader != "" {
		since = tokens[op.Reader+"@rev@"+op.Ds]
	}
	of, err := ds.Of(server.NewBadgerAccess(store, dsm), op.Ds)
	if err != nil {
		oo.Err = err.Error()
		return
	}
	it, err := of.At(types.DatasetOffset(since))
	if err != nil {
		oo.Err = err.Error()
		return
	}
	it = it.Inverse()
	defer it.Close()
	oo.Ents = []server.VerifEnt{}
	cnt := 0
	for it.Next() {
		oo.Ents = append(oo.Ents, server.VerifOutEntJSON(it.Item()))
		cnt++
		if cnt == op.Limit {
			break
		}
	}
	tok := it.NextOffset()
	if it.Error() != nil {
		oo.Err = it.Error().Error()
		return
	}
	oo.Next = int64(tok)
	if uint64(tok) > 1<<62 {
		oo.Next = -1 // "from the end" (max uint64) does not fit the JSON number
	}
	if op.Reader != "" {
		tokens[op.Reader+"@rev@"+op.Ds] = oo.Next
	}
	return
}

func init() {
	server.VerifExtOps["changes_rev"] = changesRev
}

func main() {
	dir := os.Args[1]
	in := bufio.NewScanner(os.Stdin)
	in.Buffer(make([]byte, 1<<20), 1<<28)
	out := bufio.NewWriter(os.Stdout)
	defer out.Flush()
	i := 0
	for in.Scan() {
		var c server.VerifCase
		if err := json.Unmarshal(in.Bytes(), &c); err != nil {
			fmt.Fprintln(os.Stderr, "bad case:", err)
			os.Exit(2)
		}
		obs := server.VerifStoreRun(c, fmt.Sprintf("%s/c%d", dir, i))
		b, _ := json.Marshal(obs)
		out.WriteString("@@OBS ")
		out.Write(b)
		out.WriteString("\n")
		out.Flush()
		i++
	}
}
