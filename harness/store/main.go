//go:build verif

// verif driver for the store-core properties: one JSON history per stdin line -> one "@@OBS <json>" line.
package main

import (
	"bufio"
	"encoding/json"
	"fmt"
	"os"

	"bytes"
	"encoding/base64"
	"github.com/mimiro-io/datahub/internal/server"
	ds "github.com/mimiro-io/datahub/internal/service/dataset"
	"github.com/mimiro-io/datahub/internal/service/types"
	"github.com/labstack/echo/v4"
	"github.com/mimiro-io/datahub/internal/web"
	"net/http/httptest"
	"net/url"
	"strconv"
)

// changes_rev: the reverse change reader exactly as web.getChangesHandler drives it
// (ds.Of(...).At(since).Inverse(); up to limit items; token = NextOffset())
func changesRev(store *server.Store, dsm *server.DsManager, op server.VerifOp, tokens map[string]int64) (oo server.VerifOpObs) {
	since := op.Since
	if op.Reader != "" {
		since = tokens[op.Reader+"@rev@"+op.Ds]
	}
	of, err := ds.Of(server.NewBadgerAccess(store, dsm), op.Ds)
	if err != nil {
		oo.Err = err.Error()
		return
	}
	it, err := of.At(types.DatasetOffset(since))
	if err != nil {
		oo.Err = err.Error()
		return
	}
	it = it.Inverse()
	defer it.Close()
	oo.Ents = []server.VerifEnt{}
	cnt := 0
	for it.Next() {
		oo.Ents = append(oo.Ents, server.VerifOutEntJSON(it.Item()))
		cnt++
		if cnt == op.Limit {
			break
		}
	}
	tok := it.NextOffset()
	if it.Error() != nil {
		oo.Err = it.Error().Error()
		return
	}
	oo.Next = int64(tok)
	if uint64(tok) > 1<<62 {
		oo.Next = -1 // "from the end" (max uint64) does not fit the JSON number
	}
	if op.Reader != "" {
		tokens[op.Reader+"@rev@"+op.Ds] = oo.Next
	}
	return
}

// ---- the same features through the real HTTP handlers (internal/web/datasethandler.go)

func httpDo(store *server.Store, dsm *server.DsManager, method, path string, body []byte) (int, []byte) {
	return httpDoAccept(store, dsm, method, path, body, "")
}

// the JSON-LD rendering of a changes / entities page (Accept: application/ld+json): ids in order, the continuation token,
// and for every entity the scalar properties and single references, which is what that rendering carries
func ldPage(body []byte) (ids []string, token string, flat []map[string]interface{}, ok bool) {
	var arr []map[string]interface{}
	if err := json.Unmarshal(body, &arr); err != nil {
		return nil, "", nil, false
	}
	for i, m := range arr {
		if i == 0 {
			continue // context
		}
		if t, has := m["core:token"]; has {
			token, _ = t.(string)
			continue
		}
		id, _ := m["@id"].(string)
		ids = append(ids, id)
		flat = append(flat, m)
	}
	return ids, token, flat, true
}

// compare one plain page with the JSON-LD rendering of the same request; "" = consistent
func ldDiff(ents []server.VerifEnt, tok string, body []byte) string {
	ids, ltok, flat, ok := ldPage(body)
	if !ok {
		return "unparsable JSON-LD response"
	}
	if ltok != tok {
		return fmt.Sprintf("JSON-LD continuation %q, plain %q", ltok, tok)
	}
	if len(ids) != len(ents) {
		return fmt.Sprintf("JSON-LD page has %d entities, plain page %d", len(ids), len(ents))
	}
	for i, e := range ents {
		if ids[i] != e.ID {
			return fmt.Sprintf("JSON-LD position %d is %s, plain %s", i, ids[i], e.ID)
		}
		for k, v := range e.Props {
			switch v.(type) {
			case []interface{}, map[string]interface{}, nil:
				continue
			}
			a, _ := json.Marshal(v)
			b, _ := json.Marshal(flat[i][k])
			if string(a) != string(b) {
				return fmt.Sprintf("JSON-LD %s property %s = %s, plain %s", e.ID, k, b, a)
			}
		}
		for k, v := range e.Refs {
			if sv, isStr := v.(string); isStr {
				m, _ := flat[i][k].(map[string]interface{})
				if m == nil || m["@id"] != sv {
					return fmt.Sprintf("JSON-LD %s reference %s = %v, plain %s", e.ID, k, flat[i][k], sv)
				}
			}
		}
	}
	return ""
}

// one set of handlers per opened store, as in the hub (handler-level state such as pools and caches lives as long as the store)
var echoFor = map[*server.Store]*echo.Echo{}

func theEcho(store *server.Store, dsm *server.DsManager) *echo.Echo {
	if e, ok := echoFor[store]; ok {
		return e
	}
	if len(echoFor) > 8 {
		echoFor = map[*server.Store]*echo.Echo{}
	}
	e := web.VerifStoreEcho(store, dsm)
	echoFor[store] = e
	return e
}

func httpDoAccept(store *server.Store, dsm *server.DsManager, method, path string, body []byte, accept string) (int, []byte) {
	e := theEcho(store, dsm)
	req := httptest.NewRequest(method, path, bytes.NewReader(body))
	if accept != "" {
		req.Header.Set("Accept", accept)
	}
	req.Header.Set("Content-Type", "application/json")
	rec := httptest.NewRecorder()
	e.ServeHTTP(rec, req)
	return rec.Code, rec.Body.Bytes()
}

// POST /datasets/<ds>/entities : the handler cuts the stream into StoreEntities batches of 10
func hBatch(store *server.Store, dsm *server.DsManager, op server.VerifOp, tokens map[string]int64) (oo server.VerifOpObs) {
	var payload []byte
	server.VerifWithDefaultNS(op.Ctx, func() {
		oo.Lens = server.VerifLens(store, op.Ents)
		payload = server.VerifPayload(op.Ents)
	})
	if op.Reject {
		// an entity without an id at the very end: the last (partial) batch must be refused and the request must not answer 200
		payload = append(payload[:len(payload)-1], []byte(`,{"props":{},"refs":{}}]`)...)
	}
	code, body := httpDo(store, dsm, "POST", "/datasets/"+op.Ds+"/entities", payload)
	if code != 200 {
		oo.Err = fmt.Sprintf("status %d: %s", code, string(body))
	}
	return
}

func parseStream(body []byte) (ents []server.VerifEnt, token string, ok bool) {
	var arr []map[string]interface{}
	if err := json.Unmarshal(body, &arr); err != nil {
		return nil, "", false
	}
	ents = []server.VerifEnt{}
	for i, m := range arr {
		id, _ := m["id"].(string)
		if i == 0 && id == "@context" {
			continue
		}
		if id == "@continuation" {
			token, _ = m["token"].(string)
			continue
		}
		ents = append(ents, server.VerifEntFromMap(m))
	}
	return ents, token, true
}

// GET /datasets/<ds>/changes?since=&limit=&latestOnly=&reverse=
func hChanges(store *server.Store, dsm *server.DsManager, op server.VerifOp, tokens map[string]int64) (oo server.VerifOpObs) {
	key := op.Reader + "@h@" + op.Ds
	if op.Reverse {
		key = op.Reader + "@hrev@" + op.Ds
	}
	since := op.Since
	if op.Reader != "" {
		since = tokens[key]
	}
	q := url.Values{}
	if since > 0 {
		q.Set("since", web.VerifEncodeSince(since))
	}
	if op.SinceStr != "" {
		q.Set("since", base64.StdEncoding.EncodeToString([]byte(op.SinceStr)))
	}
	if op.Limit != 0 {
		q.Set("limit", strconv.Itoa(op.Limit))
	}
	if op.Latest {
		q.Set("latestOnly", "true")
	}
	if op.Reverse {
		q.Set("reverse", "true")
	}
	code, body := httpDo(store, dsm, "GET", "/datasets/"+op.Ds+"/changes?"+q.Encode(), nil)
	if code != 200 {
		oo.Err = fmt.Sprintf("status %d", code)
		return
	}
	ents, tok, ok := parseStream(body)
	if !ok {
		oo.Err = "unparsable response"
		return
	}
	if op.Ld && !op.Reverse { // the reverse reader has no JSON-LD rendering (plain entities under a JSON-LD context)
		lcode, lbody := httpDoAccept(store, dsm, "GET", "/datasets/"+op.Ds+"/changes?"+q.Encode(), nil, "application/ld+json")
		if lcode != 200 {
			oo.Err = fmt.Sprintf("JSON-LD status %d", lcode)
			return
		}
		if d := ldDiff(ents, tok, lbody); d != "" {
			oo.Err = d
			return
		}
	}
	oo.Ents = ents
	if tok == "" {
		oo.Next = 0 // the reverse reader omits the continuation when it reached position 0
	} else {
		oo.Next = web.VerifDecodeSince(tok)
		if op.Reverse && oo.Next == 0 {
			// position 0 means "from the newest" to the reverse reader: a client following this token would start over for ever
			oo.Err = "the reverse reader handed out a continuation token for position 0"
			return
		}
	}
	if op.SinceStr != "" {
		oo.NextStr = web.VerifDecodeSinceStr(tok)
	}
	if op.Reader != "" {
		tokens[key] = oo.Next
	}
	return
}

// GET /datasets/<ds>/entities?from=&limit= , following the continuation tokens
func hEntities(store *server.Store, dsm *server.DsManager, op server.VerifOp, tokens map[string]int64) (oo server.VerifOpObs) {
	oo.Pages = [][]server.VerifEnt{}
	from := ""
	for p := 0; p < 300; p++ {
		lim := 0
		if len(op.Limits) > 0 {
			if p < len(op.Limits) {
				lim = op.Limits[p]
			} else {
				lim = op.Limits[len(op.Limits)-1]
			}
		}
		q := url.Values{}
		if from != "" {
			q.Set("from", from)
		}
		if lim != 0 {
			q.Set("limit", strconv.Itoa(lim))
		}
		code, body := httpDo(store, dsm, "GET", "/datasets/"+op.Ds+"/entities?"+q.Encode(), nil)
		if code != 200 {
			oo.Err = fmt.Sprintf("status %d", code)
			return
		}
		ents, tok, ok := parseStream(body)
		if !ok {
			oo.Err = "unparsable response"
			return
		}
		if op.Ld {
			lcode, lbody := httpDoAccept(store, dsm, "GET", "/datasets/"+op.Ds+"/entities?"+q.Encode(), nil, "application/ld+json")
			if lcode != 200 {
				oo.Err = fmt.Sprintf("JSON-LD status %d", lcode)
				return
			}
			if d := ldDiff(ents, tok, lbody); d != "" {
				oo.Err = d
				oo.Pages = nil
				return
			}
		}
		oo.Pages = append(oo.Pages, ents)
		if len(ents) == 0 || lim <= 0 {
			break
		}
		from = tok
	}
	return
}

func httpDoCT(store *server.Store, dsm *server.DsManager, path, ctype string, body []byte) (int, []byte) {
	e := theEcho(store, dsm)
	req := httptest.NewRequest("POST", path, bytes.NewReader(body))
	req.Header.Set("Content-Type", ctype)
	rec := httptest.NewRecorder()
	e.ServeHTTP(rec, req)
	return rec.Code, rec.Body.Bytes()
}

// POST /query {"entityId": ...} (web/queryhandler.go): the lookup of the `get` op through the HTTP handler
func hQuery(store *server.Store, dsm *server.DsManager, op server.VerifOp, tokens map[string]int64) (oo server.VerifOpObs) {
	dss := op.Datasets
	if dss == nil {
		dss = []string{}
	}
	body, _ := json.Marshal(map[string]interface{}{"entityId": op.ID, "datasets": dss, "noPartialMerging": !op.Merge})
	code, resp := httpDo(store, dsm, "POST", "/query", body)
	if code != 200 {
		oo.Err = fmt.Sprintf("status %d", code)
		return
	}
	var arr []json.RawMessage
	if err := json.Unmarshal(resp, &arr); err != nil || len(arr) != 2 {
		oo.Err = "unparsable response"
		return
	}
	var m map[string]interface{}
	if err := json.Unmarshal(arr[1], &m); err != nil {
		oo.Err = "unparsable entity"
		return
	}
	if _, has := m["props"]; has { // the handler answers {"id": ...} alone when the store returned nil
		oo.Found = true
		oo.Ents = []server.VerifEnt{server.VerifEntFromMap(m)}
	}
	return
}

func txnBody(sets []server.VerifSet) []byte {
	var b bytes.Buffer
	b.WriteString(`{"@context":{"namespaces":{"_":"http://v/"}}`)
	for _, s := range sets {
		arr := server.VerifPayload(s.Ents) // [ctx, e1, e2 ...]
		var items []json.RawMessage
		_ = json.Unmarshal(arr, &items)
		k, _ := json.Marshal(s.Ds)
		b.WriteString(",")
		b.Write(k)
		b.WriteString(":[")
		for i, it := range items[1:] {
			if i > 0 {
				b.WriteString(",")
			}
			b.Write(it)
		}
		b.WriteString("]")
	}
	b.WriteString("}")
	return b.Bytes()
}

// POST /transactions (web/txnhandler.go, EntityStreamParser.ParseTransaction); every dataset at most once in sets
func hTxn(store *server.Store, dsm *server.DsManager, op server.VerifOp, tokens map[string]int64) (oo server.VerifOpObs) {
	for _, s := range op.Sets {
		oo.Lens = append(oo.Lens, server.VerifLens(store, s.Ents)...)
	}
	code, body := httpDo(store, dsm, "POST", "/transactions", txnBody(op.Sets))
	if code != 200 {
		oo.Err = fmt.Sprintf("status %d: %s", code, string(body))
	}
	return
}

func jsQuery(store *server.Store, dsm *server.DsManager, code string) ([]json.RawMessage, string) {
	body, _ := json.Marshal(map[string]string{"query": base64.StdEncoding.EncodeToString([]byte(code))})
	st, resp := httpDoCT(store, dsm, "/query", "application/x-javascript-query", body)
	if st != 200 {
		return nil, fmt.Sprintf("status %d: %s", st, string(resp))
	}
	var arr []json.RawMessage
	if err := json.Unmarshal(resp, &arr); err != nil {
		return nil, "unparsable response: " + string(resp)
	}
	return arr, ""
}

// the JS binding GetDatasetChanges(ds, since, limit) (always latest-only), run as a javascript query
func jsChanges(store *server.Store, dsm *server.DsManager, op server.VerifOp, tokens map[string]int64) (oo server.VerifOpObs) {
	key := op.Reader + "@js@" + op.Ds
	since := op.Since
	if op.Reader != "" {
		since = tokens[key]
	}
	dsn, _ := json.Marshal(op.Ds)
	arr, e := jsQuery(store, dsm, fmt.Sprintf(`function do_query() { WriteQueryResult(GetDatasetChanges(%s, %d, %d)); }`, string(dsn), since, op.Limit))
	if e != "" || len(arr) != 1 {
		oo.Err = "js: " + e
		return
	}
	var ch struct {
		Entities  []map[string]interface{}
		NextToken uint64
	}
	if err := json.Unmarshal(arr[0], &ch); err != nil {
		oo.Err = "unparsable changes"
		return
	}
	oo.Ents = []server.VerifEnt{}
	for _, m := range ch.Entities {
		oo.Ents = append(oo.Ents, server.VerifEntFromMap(m))
	}
	oo.Next = int64(ch.NextToken)
	if op.Reader != "" {
		tokens[key] = oo.Next
	}
	return
}

// the JS binding FindById(id, datasets) (always merged)
func jsFind(store *server.Store, dsm *server.DsManager, op server.VerifOp, tokens map[string]int64) (oo server.VerifOpObs) {
	id, _ := json.Marshal(op.ID)
	dss := op.Datasets
	if dss == nil {
		dss = []string{}
	}
	dl, _ := json.Marshal(dss)
	arr, e := jsQuery(store, dsm, fmt.Sprintf(`function do_query() { WriteQueryResult(FindById(%s, %s)); }`, string(id), string(dl)))
	if e != "" || len(arr) != 1 {
		oo.Err = "js: " + e
		return
	}
	if string(arr[0]) == "null" {
		return
	}
	var m map[string]interface{}
	if err := json.Unmarshal(arr[0], &m); err != nil {
		oo.Err = "unparsable entity"
		return
	}
	oo.Found = true
	oo.Ents = []server.VerifEnt{server.VerifEntFromMap(m)}
	return
}

// a transaction built and executed from JavaScript (NewTransaction / NewEntity / ExecuteTransaction)
func jsTxn(store *server.Store, dsm *server.DsManager, op server.VerifOp, tokens map[string]int64) (oo server.VerifOpObs) {
	for _, s := range op.Sets {
		oo.Lens = append(oo.Lens, server.VerifLens(store, s.Ents)...)
	}
	spec, _ := json.Marshal(op.Sets)
	code := `function do_query() {
  var p = AssertNamespacePrefix("http://v/");
  var q = function (x) { return p + ":" + x; };
  var sets = ` + string(spec) + `;
  var txn = NewTransaction();
  for (var i = 0; i < sets.length; i++) {
    var l = [];
    var ents = sets[i].ents || [];
    for (var j = 0; j < ents.length; j++) {
      var e = NewEntity();
      e.ID = q(ents[j].id);
      if (ents[j].deleted) { e.IsDeleted = true; }
      var pr = ents[j].props || {};
      for (var k in pr) { e.Properties[q(k)] = pr[k]; }
      var rf = ents[j].refs || {};
      for (var k in rf) {
        var v = rf[k];
        if (Array.isArray(v)) { var a = []; for (var m = 0; m < v.length; m++) { a.push(q(v[m])); } e.References[q(k)] = a; }
        else { e.References[q(k)] = q(v); }
      }
      l.push(e);
    }
    txn.DatasetEntities[sets[i].ds] = l;
  }
  ExecuteTransaction(txn);
  WriteQueryResult("ok");
}`
	arr, e := jsQuery(store, dsm, code)
	if e != "" || len(arr) != 1 {
		oo.Err = "js: " + e
	}
	return
}

// mkproxy: a proxy dataset whose remote hub is this very hub, served over a real loopback listener by the real handlers:
// every read of the proxy must answer exactly like the same read of the dataset it points at
var proxySrv *httptest.Server

func mkProxy(store *server.Store, dsm *server.DsManager, op server.VerifOp, tokens map[string]int64) (oo server.VerifOpObs) {
	if proxySrv != nil {
		proxySrv.Close()
	}
	proxySrv = httptest.NewServer(web.VerifStoreEcho(store, dsm))
	_, err := dsm.CreateDataset(op.Ds, &server.CreateDatasetConfig{
		ProxyDatasetConfig: &server.ProxyDatasetConfig{RemoteURL: proxySrv.URL + "/datasets/" + op.ID}})
	if err != nil {
		oo.Err = err.Error()
	}
	return
}

func init() {
	server.VerifExtOps["mkproxy"] = mkProxy
	server.VerifExtOps["hquery"] = hQuery
	server.VerifExtOps["htxn"] = hTxn
	server.VerifExtOps["jschanges"] = jsChanges
	server.VerifExtOps["jsfind"] = jsFind
	server.VerifExtOps["jstxn"] = jsTxn
	server.VerifExtOps["changes_rev"] = changesRev
	server.VerifExtOps["hbatch"] = hBatch
	server.VerifExtOps["hchanges"] = hChanges
	server.VerifExtOps["hentities"] = hEntities
}

func main() {
	dir := os.Args[1]
	in := bufio.NewScanner(os.Stdin)
	in.Buffer(make([]byte, 1<<20), 1<<28)
	out := bufio.NewWriter(os.Stdout)
	defer out.Flush()
	i := 0
	for in.Scan() {
		var c server.VerifCase
		if err := json.Unmarshal(in.Bytes(), &c); err != nil {
			fmt.Fprintln(os.Stderr, "bad case:", err)
			os.Exit(2)
		}
		obs := server.VerifStoreRun(c, fmt.Sprintf("%s/c%d", dir, i))
		b, _ := json.Marshal(obs)
		out.WriteString("@@OBS ")
		out.Write(b)
		out.WriteString("\n")
		out.Flush()
		i++
	}
}
