//go:build verif

// verif driver for property C16: reads one JSON case per line on stdin, writes one "@@OBS <json>" line per case.
package main

import (
	"bufio"
	"encoding/json"
	"fmt"
	"os"

	datahub "github.com/mimiro-io/datahub"
)

func main() {
	dir := os.Args[1]
	in := bufio.NewScanner(os.Stdin)
	in.Buffer(make([]byte, 1<<20), 1<<26)
	out := bufio.NewWriter(os.Stdout)
	defer out.Flush()
	sess, err := datahub.VerifC16Open(dir + "/c16")
	for in.Scan() {
		var c datahub.VerifC16Case
		if e := json.Unmarshal(in.Bytes(), &c); e != nil {
			fmt.Fprintln(os.Stderr, "bad case:", e)
			os.Exit(2)
		}
		var obs datahub.VerifC16Obs
		if err != nil {
			obs = datahub.VerifC16Obs{Outcome: "setup-error", Detail: err.Error()}
		} else {
			obs = sess.Run(c)
		}
		b, _ := json.Marshal(obs)
		out.WriteString("@@OBS ")
		out.Write(b)
		out.WriteString("\n")
		out.Flush()
	}
	if sess != nil {
		sess.Close()
	}
	os.RemoveAll(dir + "/c16")
}
