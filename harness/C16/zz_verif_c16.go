//go:build verif

// Verification shim for property C16 (compiled into package datahub with `go build -overlay`, never part of /repo).
// It builds the application exactly as NewDatahubInstance does, with security switched on, and sends requests
// in-process through the echo instance NewWebService wired (router + logger/cors/jwt/recover + per-route authorizer).
package datahub

import (
	"bytes"
	"crypto/rand"
	"crypto/rsa"
	"encoding/json"
	"fmt"
	"io"
	"net"
	"net/http"
	"net/http/httptest"
	"net/url"
	"os"
	"reflect"
	"runtime/debug"
	"sort"
	"strings"
	"time"

	"github.com/golang-jwt/jwt/v4"
	"github.com/labstack/echo/v4"
	"github.com/lestrrat-go/jwx/v2/jwk"

	"github.com/mimiro-io/datahub/internal/conf"
	"github.com/mimiro-io/datahub/internal/security"
	"github.com/mimiro-io/datahub/internal/server"
	"github.com/mimiro-io/datahub/internal/web"
)

const (
	verifNode     = "verifnode"
	verifAdmin    = "root"
	verifAdminPwd = "rootpw"
	verifOauthAud = "https://aud.verif"
	verifOauthIss = "https://iss.verif"
	verifKid      = "verif-kid-1"
)

type VerifC16Acl struct {
	Resource string
	Action   string
	Deny     bool
}

// VerifC16Token describes how the bearer token of a case is built.
type VerifC16Token struct {
	Hdr   string   `json:"hdr"`   // bearer | none | basic | short | lower
	Form  string   `json:"form"`  // jwt | garbage | tampered
	Alg   string   `json:"alg"`   // RS256 RS384 RS512 PS256 HS256 none
	Key   string   `json:"key"`   // node | other | oauth
	Kid   string   `json:"kid"`   // "" | good | bad
	Exp   int64    `json:"exp"`   // seconds from now (0 = claim absent)
	Nbf   int64    `json:"nbf"`   // seconds from now (0 = claim absent)
	ExpAt int64    `json:"-"`     // absolute unix seconds, set by the seq family (overrides Exp)
	NbfAt int64    `json:"-"`
	Aud   []string `json:"aud"`   // nil = claim absent
	Iss   string   `json:"iss"`   // "" = claim absent
	Sub   string   `json:"sub"`
	Roles []string `json:"roles"`
}

type VerifC16Req struct {
	M string `json:"m"`
	P string `json:"p"`
}

type VerifC16Op struct {
	Op     string        `json:"op"` // register | unregister | setacl | delacl | restart
	Client string        `json:"client"`
	Sp     string        `json:"sp"` // setacl / delacl: the client id as it is spelled in the URL (default: url.PathEscape(Client))
	Acl    []VerifC16Acl `json:"acl"`
}

type VerifC16Case struct {
	Kind   string        `json:"kind"` // req | persist
	Acl    []VerifC16Acl `json:"acl"`
	NoAcl  bool          `json:"noacl"` // remove the subject's ACL entry instead of setting one
	Direct bool          `json:"direct"` // set the ACL through ServiceCore instead of the admin HTTP endpoint
	Token  VerifC16Token `json:"token"`
	Reqs   []VerifC16Req `json:"reqs"`
	Sweep  bool          `json:"sweep"` // additionally one request per registered route (params := Param)
	Param  string        `json:"param"`
	Ops    []VerifC16Op  `json:"ops"`
	Bound  string        `json:"bound"` // seq: which claim is put 2 s ahead: exp | nbf
}

type VerifC16Res struct {
	M     string `json:"m"`
	P     string `json:"p"`
	St    int    `json:"st"`
	Route string `json:"route"` // pattern of the registered route (method+path) the router selects, "" if none
	Ph    int    `json:"ph"`    // seq: 0 = answered before the boundary instant, 2 = sent after it, 1 = too close to tell
}

type VerifC16Get struct {
	Sp   string        `json:"sp"`
	St   int           `json:"st"`
	Null bool          `json:"null"`
	Acl  []VerifC16Acl `json:"acl"`
}

type VerifC16Sec struct {
	Clients []string                 `json:"clients"`
	Acls    map[string][]VerifC16Acl `json:"acls"`
}

type VerifC16Obs struct {
	Outcome string        `json:"outcome"`
	Detail  string        `json:"detail,omitempty"`
	Res     []VerifC16Res `json:"res"`
	Routes  [][]string    `json:"routes,omitempty"`
	Oauth   bool          `json:"oauth"` // the external JWKS endpoint is configured
	All     []string      `json:"all,omitempty"`    // list cases: every dataset name (what the admin's GET /datasets returns)
	Listed  []string      `json:"listed,omitempty"` // list cases: the names the caller's GET /datasets returned
	ListSt  int           `json:"listst,omitempty"`
	ListRt  string        `json:"listrt,omitempty"`
	Gets    []VerifC16Get `json:"gets,omitempty"` // persist: GET /security/clients/<sp>/acl after the restart
	Before  *VerifC16Sec  `json:"before,omitempty"`
	After   *VerifC16Sec  `json:"after,omitempty"`
}

type VerifC16Session struct {
	dir      string
	cfg      *conf.Config
	dhi      *DatahubInstance
	e        *echo.Echo
	core     *security.ServiceCore
	otherKey *rsa.PrivateKey
	oauthKey *rsa.PrivateKey
	jwks     *httptest.Server
	admin    string
	adminAt  time.Time
	routes   map[string]bool
}

func verifSetenv(dir, wellknown string) {
	os.Setenv("STORE_LOCATION", dir+"/store")
	os.Setenv("SECURITY_STORAGE_LOCATION", dir+"/sec")
	os.Setenv("PROFILE", "test")
	os.Setenv("SERVER_PORT", "0")
	os.Setenv("GC_ON_STARTUP", "false")
	os.Setenv("AUTHORIZATION_MIDDLEWARE", "on")
	os.Setenv("ADMIN_USERNAME", verifAdmin)
	os.Setenv("ADMIN_PASSWORD", verifAdminPwd)
	os.Setenv("NODE_ID", verifNode)
	os.Setenv("TOKEN_WELL_KNOWN", wellknown)
	os.Setenv("TOKEN_AUDIENCE", verifOauthAud)
	os.Setenv("TOKEN_ISSUER", verifOauthIss)
	os.Setenv("OPA_ENDPOINT", "")
	os.Setenv("BACKUP_LOCATION", "")
}

func VerifC16Open(dir string) (s *VerifC16Session, err error) {
	defer func() {
		if r := recover(); r != nil {
			err = fmt.Errorf("panic during setup: %v", r)
		}
	}()
	os.RemoveAll(dir)
	if err := os.MkdirAll(dir, 0o755); err != nil {
		return nil, err
	}
	s = &VerifC16Session{dir: dir}
	s.otherKey, _ = rsa.GenerateKey(rand.Reader, 2048)
	s.oauthKey, _ = rsa.GenerateKey(rand.Reader, 2048)
	// an external "OAuth2 provider": a JWKS document served on loopback
	key, err := jwk.FromRaw(&s.oauthKey.PublicKey)
	if err != nil {
		return nil, err
	}
	_ = key.Set(jwk.KeyIDKey, verifKid)
	_ = key.Set(jwk.AlgorithmKey, "RS256")
	set := jwk.NewSet()
	_ = set.AddKey(key)
	doc, _ := json.Marshal(set)
	wellknown := ""
	if l, lerr := net.Listen("tcp", "127.0.0.1:0"); lerr == nil {
		s.jwks = httptest.NewUnstartedServer(http.HandlerFunc(func(w http.ResponseWriter, r *http.Request) {
			w.Header().Set("Content-Type", "application/json")
			w.Write(doc)
		}))
		s.jwks.Listener.Close()
		s.jwks.Listener = l
		s.jwks.Start()
		wellknown = s.jwks.URL + "/jwks.json"
	}
	verifSetenv(dir, wellknown)
	s.cfg, err = conf.LoadConfig("")
	if err != nil {
		return nil, err
	}
	s.dhi, err = NewDatahubInstance(s.cfg)
	if err != nil {
		return nil, err
	}
	s.bind(s.dhi.webService, s.dhi.securityServiceCore)
	return s, nil
}

func (s *VerifC16Session) bind(ws *web.WebService, core *security.ServiceCore) {
	s.e = ws.VerifC16Echo()
	s.core = core
	s.routes = map[string]bool{}
	for _, r := range s.e.Routes() {
		s.routes[r.Method+" "+r.Path] = true
	}
	s.admin = ""
}

func (s *VerifC16Session) Close() {
	if s.jwks != nil {
		s.jwks.Close()
	}
	if s.dhi != nil {
		s.dhi.store.Close()
	}
}

// restart: what a process restart does to the security state - a new ServiceCore is initialised from the files in
// SECURITY_STORAGE_LOCATION and the web layer is rebuilt around it (same store, same dataset manager).
func (s *VerifC16Session) restart() error {
	core := security.NewServiceCore(s.cfg)
	tp := security.NewTokenProviders(s.dhi.logger, s.dhi.providerManager, core)
	sc := &web.ServiceContext{
		Env: s.cfg, ContentService: s.dhi.contentService, Logger: s.dhi.logger, Statsd: s.dhi.metricsClient, SecurityCore: core,
		JobsScheduler: s.dhi.scheduler, DatasetManager: s.dhi.dsManager, EventBus: s.dhi.eventBus, Port: s.cfg.Port,
		TokenProviders: tp, Store: s.dhi.store,
	}
	ws, err := web.NewWebService(sc)
	if err != nil {
		return err
	}
	s.dhi.securityServiceCore = core
	s.dhi.tokenProviders = tp
	s.dhi.webService = ws
	s.bind(ws, core)
	return nil
}

func (s *VerifC16Session) do(m, p, auth string, ctype string, body []byte) (int, string, []byte) {
	u := "http://verif.local" + p
	var rd io.Reader
	if body != nil {
		rd = bytes.NewReader(body)
	}
	req, err := http.NewRequest(m, u, rd)
	if err != nil {
		return -1, "", nil
	}
	req.RequestURI = p
	if auth != "" {
		req.Header.Set("Authorization", auth)
	}
	if ctype != "" {
		req.Header.Set("Content-Type", ctype)
	}
	// which registered route does the router select for this method+path
	probe := s.e.NewContext(req, httptest.NewRecorder())
	s.e.Router().Find(m, echo.GetPath(req), probe)
	route := ""
	if h := probe.Handler(); h != nil && s.routes[m+" "+probe.Path()] {
		hp := reflect.ValueOf(h).Pointer()
		if hp != reflect.ValueOf(echo.NotFoundHandler).Pointer() && hp != reflect.ValueOf(echo.MethodNotAllowedHandler).Pointer() {
			route = probe.Path()
		}
	}
	rec := httptest.NewRecorder()
	s.e.ServeHTTP(rec, req)
	return rec.Code, route, rec.Body.Bytes()
}

func (s *VerifC16Session) adminAuth() (string, error) {
	if s.admin != "" && time.Since(s.adminAt) < 5*time.Minute {
		return s.admin, nil
	}
	form := url.Values{"grant_type": {"client_credentials"}, "client_id": {verifAdmin}, "client_secret": {verifAdminPwd}}
	st, _, body := s.do("POST", "/security/token", "", "application/x-www-form-urlencoded", []byte(form.Encode()))
	if st != 200 {
		return "", fmt.Errorf("admin token request: status %d %s", st, body)
	}
	var tr struct {
		AccessToken string `json:"access_token"`
	}
	if err := json.Unmarshal(body, &tr); err != nil || tr.AccessToken == "" {
		return "", fmt.Errorf("admin token response: %s", body)
	}
	s.admin, s.adminAt = "Bearer "+tr.AccessToken, time.Now()
	return s.admin, nil
}

func (s *VerifC16Session) mint(t VerifC16Token) (string, error) {
	if t.Form == "garbage" {
		return "abc.def.ghi", nil
	}
	claims := jwt.MapClaims{}
	now := time.Now()
	if t.ExpAt != 0 {
		claims["exp"] = t.ExpAt
	} else if t.Exp != 0 {
		claims["exp"] = now.Add(time.Duration(t.Exp) * time.Second).Unix()
	}
	if t.NbfAt != 0 {
		claims["nbf"] = t.NbfAt
	} else if t.Nbf != 0 {
		claims["nbf"] = now.Add(time.Duration(t.Nbf) * time.Second).Unix()
	}
	if t.Aud != nil {
		if len(t.Aud) == 1 {
			claims["aud"] = t.Aud[0]
		} else {
			claims["aud"] = t.Aud
		}
	}
	if t.Iss != "" {
		claims["iss"] = t.Iss
	}
	if t.Sub != "" {
		claims["sub"] = t.Sub
	}
	if t.Roles != nil {
		claims["roles"] = t.Roles
	}
	var priv *rsa.PrivateKey
	switch t.Key {
	case "node":
		priv = s.core.GetActiveKeyPair().PrivateKey
	case "oauth":
		priv = s.oauthKey
	default:
		priv = s.otherKey
	}
	var method jwt.SigningMethod
	var key interface{} = priv
	switch t.Alg {
	case "RS256":
		method = jwt.SigningMethodRS256
	case "RS384":
		method = jwt.SigningMethodRS384
	case "RS512":
		method = jwt.SigningMethodRS512
	case "PS256":
		method = jwt.SigningMethodPS256
	case "HS256":
		// algorithm confusion: HMAC keyed with the PEM of the public key
		method = jwt.SigningMethodHS256
		pem, err := security.ExportRsaPublicKeyAsPem(&priv.PublicKey)
		if err != nil {
			return "", err
		}
		key = []byte(pem)
	case "none":
		method = jwt.SigningMethodNone
		key = jwt.UnsafeAllowNoneSignatureType
	default:
		return "", fmt.Errorf("unknown alg %q", t.Alg)
	}
	tok := jwt.NewWithClaims(method, claims)
	switch t.Kid {
	case "good":
		tok.Header["kid"] = verifKid
	case "bad":
		tok.Header["kid"] = "no-such-kid"
	}
	str, err := tok.SignedString(key)
	if err != nil {
		return "", err
	}
	if t.Form == "tampered" {
		// re-encode the claims with another subject, keep header and signature
		parts := strings.Split(str, ".")
		claims["sub"] = t.Sub + "x"
		claims["roles"] = []string{"admin"}
		b, _ := json.Marshal(claims)
		parts[1] = jwt.EncodeSegment(b)
		str = strings.Join(parts, ".")
	}
	return str, nil
}

func (s *VerifC16Session) authHeader(t VerifC16Token) (string, error) {
	if t.Hdr == "none" {
		return "", nil
	}
	tok, err := s.mint(t)
	if err != nil {
		return "", err
	}
	switch t.Hdr {
	case "basic":
		return "Basic " + tok, nil
	case "short":
		return "Bearer ", nil
	case "lower":
		return "bearer " + tok, nil
	case "nospace":
		return "Bearer" + tok, nil
	}
	return "Bearer " + tok, nil
}

func (s *VerifC16Session) setAcl(client string, acl []VerifC16Acl, noacl, direct bool) error {
	return s.setAclSp(client, "", acl, noacl, direct)
}

func (s *VerifC16Session) setAclSp(client, sp string, acl []VerifC16Acl, noacl, direct bool) error {
	if direct {
		if noacl {
			s.core.DeleteClientAccessControls(client)
			return nil
		}
		l := make([]*security.AccessControl, 0, len(acl))
		for _, a := range acl {
			l = append(l, &security.AccessControl{Resource: a.Resource, Action: a.Action, Deny: a.Deny})
		}
		s.core.SetClientAccessControls(client, l)
		return nil
	}
	adm, err := s.adminAuth()
	if err != nil {
		return err
	}
	if sp == "" {
		sp = url.PathEscape(client)
	}
	p := "/security/clients/" + sp + "/acl"
	if noacl {
		if st, _, b := s.do("DELETE", p, adm, "", nil); st != 200 {
			return fmt.Errorf("delete acl: status %d %s", st, b)
		}
		return nil
	}
	if acl == nil {
		acl = []VerifC16Acl{}
	}
	body, _ := json.Marshal(acl)
	if st, _, b := s.do("POST", p, adm, "application/json", body); st != 200 {
		return fmt.Errorf("set acl: status %d %s", st, b)
	}
	return nil
}

func (s *VerifC16Session) snapshot() *VerifC16Sec {
	sec := &VerifC16Sec{Clients: []string{}, Acls: map[string][]VerifC16Acl{}}
	for id := range s.core.GetClients() {
		sec.Clients = append(sec.Clients, id)
	}
	sort.Strings(sec.Clients)
	for id, l := range s.core.GetAllAccessControls() {
		out := []VerifC16Acl{}
		for _, a := range l {
			if a != nil {
				out = append(out, VerifC16Acl{Resource: a.Resource, Action: a.Action, Deny: a.Deny})
			}
		}
		sec.Acls[id] = out
	}
	return sec
}

func (s *VerifC16Session) sweepReqs(param string) []VerifC16Req {
	var out []VerifC16Req
	for _, r := range s.e.Routes() {
		segs := strings.Split(r.Path, "/")
		for i, sg := range segs {
			if strings.HasPrefix(sg, ":") || sg == "*" {
				segs[i] = param
			}
		}
		out = append(out, VerifC16Req{M: r.Method, P: strings.Join(segs, "/")})
	}
	sort.Slice(out, func(i, j int) bool {
		if out[i].P != out[j].P {
			return out[i].P < out[j].P
		}
		return out[i].M < out[j].M
	})
	return out
}

func (s *VerifC16Session) Run(c VerifC16Case) (obs VerifC16Obs) {
	defer func() {
		if r := recover(); r != nil {
			obs = VerifC16Obs{Outcome: "panic", Detail: fmt.Sprint(r) + " " + string(debug.Stack())}
		}
	}()
	obs.Outcome = "ok"
	obs.Oauth = s.jwks != nil
	obs.Res = []VerifC16Res{}
	switch c.Kind {
	case "persist":
		return s.runPersist(c)
	case "list":
		return s.runList(c)
	case "seq":
		return s.runSeq(c)
	}
	if err := s.setAcl(c.Token.Sub, c.Acl, c.NoAcl, c.Direct); err != nil {
		return VerifC16Obs{Outcome: "setup-error", Detail: err.Error()}
	}
	auth, err := s.authHeader(c.Token)
	if err != nil {
		return VerifC16Obs{Outcome: "setup-error", Detail: err.Error()}
	}
	reqs := c.Reqs
	if c.Sweep {
		reqs = append(append([]VerifC16Req{}, reqs...), s.sweepReqs(c.Param)...)
		for _, r := range s.e.Routes() {
			obs.Routes = append(obs.Routes, []string{r.Method, r.Path})
		}
		sort.Slice(obs.Routes, func(i, j int) bool {
			return obs.Routes[i][1]+" "+obs.Routes[i][0] < obs.Routes[j][1]+" "+obs.Routes[j][0]
		})
	}
	for _, r := range reqs {
		st, route, _ := s.do(r.M, r.P, auth, "", nil)
		obs.Res = append(obs.Res, VerifC16Res{M: r.M, P: r.P, St: st, Route: route})
	}
	return obs
}

func (s *VerifC16Session) runPersist(c VerifC16Case) VerifC16Obs {
	obs := VerifC16Obs{Outcome: "ok", Oauth: s.jwks != nil, Res: []VerifC16Res{}}
	// start from an empty security state (keys stay): remove both files, re-initialise
	os.Remove(s.cfg.SecurityStorageLocation + "/clients.json")
	os.Remove(s.cfg.SecurityStorageLocation + "/acls.json")
	if err := s.restart(); err != nil {
		return VerifC16Obs{Outcome: "setup-error", Detail: err.Error()}
	}
	for _, op := range c.Ops {
		adm, err := s.adminAuth()
		if err != nil {
			return VerifC16Obs{Outcome: "setup-error", Detail: err.Error()}
		}
		switch op.Op {
		case "register", "unregister":
			pem, _ := security.ExportRsaPublicKeyAsPem(&s.otherKey.PublicKey)
			ci := security.ClientInfo{ClientID: op.Client, PublicKey: []byte(pem), Deleted: op.Op == "unregister"}
			body, _ := json.Marshal(ci)
			if st, _, b := s.do("POST", "/security/clients", adm, "application/json", body); st != 200 {
				return VerifC16Obs{Outcome: "setup-error", Detail: fmt.Sprintf("register: %d %s", st, b)}
			}
		case "setacl":
			if err := s.setAclSp(op.Client, op.Sp, op.Acl, false, false); err != nil {
				return VerifC16Obs{Outcome: "setup-error", Detail: err.Error()}
			}
		case "delacl":
			if err := s.setAclSp(op.Client, op.Sp, nil, true, false); err != nil {
				return VerifC16Obs{Outcome: "setup-error", Detail: err.Error()}
			}
		case "restart":
			if err := s.restart(); err != nil {
				return VerifC16Obs{Outcome: "setup-error", Detail: err.Error()}
			}
		}
	}
	obs.Before = s.snapshot()
	if err := s.restart(); err != nil {
		return VerifC16Obs{Outcome: "setup-error", Detail: err.Error()}
	}
	obs.After = s.snapshot()
	// what GET shows through every spelling the history used
	seen := map[string]bool{}
	adm2, err := s.adminAuth()
	if err != nil {
		return VerifC16Obs{Outcome: "setup-error", Detail: err.Error()}
	}
	for _, op := range c.Ops {
		if op.Op != "setacl" && op.Op != "delacl" {
			continue
		}
		sp := op.Sp
		if sp == "" {
			sp = url.PathEscape(op.Client)
		}
		if seen[sp] {
			continue
		}
		seen[sp] = true
		st, _, body := s.do("GET", "/security/clients/"+sp+"/acl", adm2, "", nil)
		g := VerifC16Get{Sp: sp, St: st, Acl: []VerifC16Acl{}}
		if st == 200 {
			var l []*VerifC16Acl
			if err := json.Unmarshal(body, &l); err != nil {
				return VerifC16Obs{Outcome: "setup-error", Detail: "get acl: " + err.Error()}
			}
			g.Null = l == nil
			for _, a := range l {
				if a != nil {
					g.Acl = append(g.Acl, *a)
				}
			}
		}
		obs.Gets = append(obs.Gets, g)
	}
	// decisions after the restart for the probing client
	auth, err := s.authHeader(c.Token)
	if err != nil {
		return VerifC16Obs{Outcome: "setup-error", Detail: err.Error()}
	}
	for _, r := range c.Reqs {
		st, route, _ := s.do(r.M, r.P, auth, "", nil)
		obs.Res = append(obs.Res, VerifC16Res{M: r.M, P: r.P, St: st, Route: route})
	}
	return obs
}

func verifNames(body []byte) ([]string, error) {
	var l []struct{ Name string }
	if err := json.Unmarshal(body, &l); err != nil {
		return nil, err
	}
	out := []string{}
	for _, d := range l {
		out = append(out, d.Name)
	}
	return out, nil
}

// runList: GET /datasets as the caller, compared with the complete list the admin gets.
func (s *VerifC16Session) runList(c VerifC16Case) VerifC16Obs {
	obs := VerifC16Obs{Outcome: "ok", Oauth: s.jwks != nil, Res: []VerifC16Res{}}
	for _, n := range []string{"secret", "other", "secretx", "pub.a", "pubxa", "sdb.Animal", "sdb2.Secret", "sdbx", "a+b", "aab", "a(b"} {
		if !s.dhi.dsManager.IsDataset(n) {
			if _, err := s.dhi.dsManager.CreateDataset(n, &server.CreateDatasetConfig{}); err != nil {
				return VerifC16Obs{Outcome: "setup-error", Detail: err.Error()}
			}
		}
	}
	if err := s.setAcl(c.Token.Sub, c.Acl, c.NoAcl, c.Direct); err != nil {
		return VerifC16Obs{Outcome: "setup-error", Detail: err.Error()}
	}
	adm, err := s.adminAuth()
	if err != nil {
		return VerifC16Obs{Outcome: "setup-error", Detail: err.Error()}
	}
	st, _, body := s.do("GET", "/datasets", adm, "", nil)
	if st != 200 {
		return VerifC16Obs{Outcome: "setup-error", Detail: fmt.Sprintf("admin list: %d", st)}
	}
	if obs.All, err = verifNames(body); err != nil {
		return VerifC16Obs{Outcome: "setup-error", Detail: err.Error()}
	}
	auth, err := s.authHeader(c.Token)
	if err != nil {
		return VerifC16Obs{Outcome: "setup-error", Detail: err.Error()}
	}
	st, route, body := s.do("GET", "/datasets", auth, "", nil)
	obs.ListSt, obs.ListRt = st, route
	obs.Listed = []string{}
	if st == 200 {
		if obs.Listed, err = verifNames(body); err != nil {
			return VerifC16Obs{Outcome: "setup-error", Detail: err.Error()}
		}
	}
	return obs
}

// runSeq: the same bearer string before and after its exp (or nbf) instant, through the same process.  Every answer is
// stamped with the side of the instant the clock saw it on (jwt compares time.Now() with the claim, so does this).
func (s *VerifC16Session) runSeq(c VerifC16Case) VerifC16Obs {
	obs := VerifC16Obs{Outcome: "ok", Oauth: s.jwks != nil, Res: []VerifC16Res{}}
	if err := s.setAcl(c.Token.Sub, c.Acl, c.NoAcl, c.Direct); err != nil {
		return VerifC16Obs{Outcome: "setup-error", Detail: err.Error()}
	}
	const margin = 60 * time.Millisecond
	for attempt := 0; attempt < 4; attempt++ {
		obs.Res = obs.Res[:0]
		tok := c.Token
		at := time.Now().Unix() + 2
		if c.Bound == "nbf" {
			tok.NbfAt = at
		} else {
			tok.ExpAt = at
		}
		bt := time.Unix(at, 0)
		auth, err := s.authHeader(tok)
		if err != nil {
			return VerifC16Obs{Outcome: "setup-error", Detail: err.Error()}
		}
		good := true
		phase := func(want int) {
			for _, r := range c.Reqs {
				t0 := time.Now()
				st, route, _ := s.do(r.M, r.P, auth, "", nil)
				t1 := time.Now()
				ph := 1
				if t1.Before(bt.Add(-margin)) {
					ph = 0
				} else if !t0.Before(bt.Add(margin)) {
					ph = 2
				}
				if ph != want {
					good = false
				}
				obs.Res = append(obs.Res, VerifC16Res{M: r.M, P: r.P, St: st, Route: route, Ph: ph})
			}
		}
		phase(0)
		if d := time.Until(bt.Add(300 * time.Millisecond)); d > 0 {
			time.Sleep(d)
		}
		phase(2)
		if good {
			break
		}
	}
	return obs
}
