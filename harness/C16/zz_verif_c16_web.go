//go:build verif

package web

import "github.com/labstack/echo/v4"

// VerifC16Echo exposes the echo instance the application builds (router + middlewares), so the
// verification driver can send requests in-process through exactly the stack NewWebService wires.
func (ws *WebService) VerifC16Echo() *echo.Echo { return ws.echo }
