//go:build verif

// Injected into package server by `go build -overlay` (never committed to /repo).
// Drives the real BackupManager (NewBackupManager / Run = validLocation + DoNativeBackup) on a real store for
// property C20, restores the backup file with badger.DB.Load into a fresh directory and compares the read APIs.
package server

import (
	"crypto/sha256"
	"io"
	"encoding/json"
	"fmt"
	"os"
	"path/filepath"
	"runtime/debug"
	"sort"
	"strconv"
	"strings"
	"sync"

	"github.com/DataDog/datadog-go/v5/statsd"
	"github.com/bamzi/jobrunner"
	"github.com/dgraph-io/badger/v4"
	"go.uber.org/zap"
	"go.uber.org/zap/zapcore"

	"github.com/mimiro-io/datahub/internal/conf"
)

// one step of a history
type VerifC20Op struct {
	Op  string `json:"op"` // w = write one entity | b = backup run | r = restart hub | i = environment replaces the location's id file by ID | x = environment removes it
	ID  string `json:"id"`
	// op c = a native backup run during which a writer commits Post (forced schedule: the writes are issued from
	// Badger's stream log line "Sent data of size", i.e. after the dump read its snapshot and before Backup returns)
	// op d = Store.Delete() ("delete all datasets") + NewDsManager; op f = rsync-mode run whose rsync exits 24
	Post []VerifC20Op `json:"post"`
	Ds  int    `json:"ds"`
	K   int    `json:"k"`
	V   int    `json:"v"`
	Del bool   `json:"del"`
}

type VerifC20Case struct {
	Ops     []VerifC20Op `json:"ops"`
	Sid     *string      `json:"sid"`     // operator-assigned content of the store's DATAHUB_BACKUPID; null = let Store.Open generate it
	Foreign bool         `json:"foreign"` // the backup location is pre-filled: id file (LocID0), somebody's backup file and cursor file
	LocID0  string       `json:"locid0"`
	// configuration dimension BACKUP_SOURCE_LOCATION (only meant for the rsync mode): "" = unset, "same" = the store
	// location spelled out, "empty" = an empty directory, "other" = another (old) store's directory whose
	// DATAHUB_BACKUPID holds BslID - e.g. the store the pre-filled location belongs to
	Bsl   string `json:"bsl"`
	BslID string `json:"bslid"`
	Rsync   bool         `json:"rsync"`   // BackupRsync mode (restore = open the rsync'ed directory)
}

type VerifC20Obs struct {
	Outcome  string   `json:"outcome"` // ok | setup-error | panic
	Detail   string   `json:"detail,omitempty"`
	MaxV     []uint64 `json:"maxv"`     // badger max version of the source after each op (index 0 = before the first op)
	Cursor   []uint64 `json:"cursor"`   // BackupManager.lastID after each op (index 0 = after NewBackupManager)
	Disk     []int64  `json:"disk"`     // content of datahub-backup.lastseen after each op, -1 if absent
	Bres     []int    `json:"bres"`     // per op: 0 no backup | 1 run returned | 2 panic(invalid location) | 3 other panic | 4 skipped (isRunning)
	Grew     []bool   `json:"grew"`     // per op: datahub-backup.kv changed (size) during the op
	Snap     [][]int  `json:"snap"`     // hub content (ds,k,v,del) of the source when the last returned backup run started; null if none
	HasSnap  bool     `json:"hassnap"`
	Restored [][]int  `json:"restored"` // hub content of the restored hub; null if nothing to restore
	HasRest  bool     `json:"hasrest"`
	RichEq   bool     `json:"richeq"` // every read (datasets, entities, changes, relations both ways) equal between snapshot and restored hub
	RichDiff string   `json:"richdiff,omitempty"`
	RawEq    bool     `json:"raweq"` // Badger level: same (key, version, meta, value) for every live key, restored DB vs source at that moment
	Sid      string    `json:"sid"`     // content of the store's DATAHUB_BACKUPID
	LocID    []*string `json:"locid"`   // content of the location's DATAHUB_BACKUPID after each op (index 0 = before the first), null = absent
	Touched  []bool    `json:"touched"` // per op: some file below the location changed (content digest) during the op
	SidV     []string  `json:"sidv"`    // the store's own DATAHUB_BACKUPID after each op
	Running  []bool    `json:"running"` // BackupManager.isRunning after each op
	DiskRaw  [][]int   `json:"diskraw"` // raw bytes of datahub-backup.lastseen after each op, null = absent
	Post     [][]uint64 `json:"post"`   // per op: store version after each write the concurrent writer committed (op c)
}

const verifC20NS = "http://v/"

type verifC20Hook struct {
	mu sync.Mutex
	fn func() // runs once when Badger's backup stream has sent its data
	lastErr string
}

type verifC20Hub struct {
	cfg   *conf.Config
	hook  *verifC20Hook
	dir   string
	store *Store
	dsm   *DsManager
	bm    *BackupManager
}

var verifC20CronOnce sync.Once
var verifC20CronMu sync.Mutex

func verifC20Open(dir, bdir string, rsync bool, bsl string) (h *verifC20Hub, err error) {
	hk := &verifC20Hook{}
	defer func() {
		if r := recover(); r != nil {
			err = fmt.Errorf("panic: %v; last error logged: %s; stack: %s", r, hk.lastErr, string(debug.Stack()))
		}
	}()
	verifC20CronOnce.Do(func() { jobrunner.Start() })
	// a logger that writes nowhere but lets the driver act on one Badger log line (the forced schedule of op c)
	core := zapcore.NewCore(zapcore.NewJSONEncoder(zap.NewProductionEncoderConfig()), zapcore.AddSync(io.Discard), zapcore.InfoLevel)
	logger := zap.New(core, zap.Hooks(func(e zapcore.Entry) error {
		if e.Level >= zapcore.ErrorLevel {
			hk.lastErr = e.Message
		}
		if strings.Contains(e.Message, "DB.Backup Sent data of size") {
			hk.mu.Lock()
			fn := hk.fn
			hk.fn = nil
			hk.mu.Unlock()
			if fn != nil {
				fn()
			}
		}
		return nil
	}))
	cfg := &conf.Config{
		Logger: logger.Sugar(), StoreLocation: dir,
		BackupLocation: bdir, BackupSchedule: "0 0 1 1 *", BackupRsync: rsync,
		BackupSourceLocation: bsl, // "" = the default (NewBackupManager falls back to the store location)
		// configuration knobs only (store.go Open): keep the mmap'ed value log and the block cache small
		ValueLogFileSize: 4 << 20, BlockCacheSize: 8 << 20,
	}
	store := NewStore(cfg, &statsd.NoOpClient{})
	dsm := NewDsManager(cfg, store, NoOpBus())
	h = &verifC20Hub{cfg: cfg, hook: hk, dir: dir, store: store, dsm: dsm}
	if bdir != "" {
		bm, err := NewBackupManager(store, cfg)
		// NewBackupManager registers the manager with the global cron; drop the entry again, otherwise every
		// manager (and through it every closed store with its 128 MB memtable) of every case stays reachable
		verifC20CronMu.Lock()
		for _, e := range jobrunner.MainCron.Entries() {
			jobrunner.MainCron.Remove(e.ID)
		}
		verifC20CronMu.Unlock()
		if err != nil {
			store.Close()
			return nil, err
		}
		if bm == nil {
			store.Close()
			return nil, fmt.Errorf("no backup manager")
		}
		h.bm = bm
	}
	return h, nil
}

func verifC20ID(k int) string { return "e" + strconv.Itoa(k) }

// verifC20Reads: (content rows, full digest of all reads)
func verifC20Reads(h *verifC20Hub) (rows [][]int, rich string) {
	var sb strings.Builder
	names := []string{}
	for _, n := range h.dsm.GetDatasetNames() {
		names = append(names, n.Name)
	}
	sort.Strings(names)
	sb.WriteString("datasets=" + strings.Join(names, ",") + "\n")
	prefix, _ := h.store.NamespaceManager.GetPrefixMappingForExpansion(verifC20NS)
	sb.WriteString("prefix=" + prefix + "\n")
	rows = [][]int{}
	for _, n := range names {
		ds := h.dsm.GetDataset(n)
		if ds == nil {
			continue
		}
		res, err := ds.GetEntities("", 10000)
		if err != nil {
			sb.WriteString("entities " + n + " err " + err.Error() + "\n")
		} else {
			b, _ := json.Marshal(res.Entities)
			sb.WriteString("entities " + n + " " + string(b) + "\n")
			if strings.HasPrefix(n, "ds") {
				d, _ := strconv.Atoi(n[2:])
				for _, e := range res.Entities {
					i := strings.LastIndex(e.ID, ":e")
					if i < 0 {
						continue
					}
					k, _ := strconv.Atoi(e.ID[i+2:])
					v := -1
					if f, ok := e.Properties[prefix+":val"].(float64); ok {
						v = int(f)
					}
					del := 0
					if e.IsDeleted {
						del = 1
					}
					rows = append(rows, []int{d, k, v, del})
				}
			}
		}
		ch, err := ds.GetChanges(0, 10000, false)
		if err != nil {
			sb.WriteString("changes " + n + " err " + err.Error() + "\n")
		} else {
			b, _ := json.Marshal(ch.Entities)
			sb.WriteString(fmt.Sprintf("changes %s next=%d %s\n", n, ch.NextToken, string(b)))
		}
		ch, err = ds.GetChanges(0, 10000, true)
		if err == nil {
			b, _ := json.Marshal(ch.Entities)
			sb.WriteString(fmt.Sprintf("latest %s next=%d %s\n", n, ch.NextToken, string(b)))
		}
	}
	sort.Slice(rows, func(i, j int) bool {
		if rows[i][0] != rows[j][0] {
			return rows[i][0] < rows[j][0]
		}
		return rows[i][1] < rows[j][1]
	})
	// queries use CURIEs: a full URI would make the hub ASSERT the namespace, i.e. the read would write
	for k := 0; k < 6 && prefix != ""; k++ {
		uri := prefix + ":" + verifC20ID(k)
		for _, inv := range []bool{false, true} {
			func() {
				defer func() {
					if r := recover(); r != nil {
						sb.WriteString(fmt.Sprintf("related %s inv=%v panic\n", uri, inv))
					}
				}()
				r, err := h.store.GetManyRelatedEntities([]string{uri}, "*", inv, nil, false)
				if err != nil {
					sb.WriteString(fmt.Sprintf("related %s inv=%v err %s\n", uri, inv, err.Error()))
					return
				}
				b, _ := json.Marshal(r)
				sb.WriteString(fmt.Sprintf("related %s inv=%v %s\n", uri, inv, string(b)))
			}()
		}
		e, err := h.store.GetEntity(uri, nil, true)
		if err != nil {
			sb.WriteString("entity " + uri + " err\n")
		} else {
			b, _ := json.Marshal(e)
			sb.WriteString("entity " + uri + " " + string(b) + "\n")
		}
	}
	return rows, sb.String()
}

// digest of the latest version of every live key of a Badger DB
func verifC20Raw(db *badger.DB) string {
	hsh := sha256.New()
	n := 0
	_ = db.View(func(txn *badger.Txn) error {
		it := txn.NewIterator(badger.DefaultIteratorOptions)
		defer it.Close()
		for it.Rewind(); it.Valid(); it.Next() {
			item := it.Item()
			v, _ := item.ValueCopy(nil)
			fmt.Fprintf(hsh, "%x|%d|%d|%x\n", item.Key(), item.Version(), item.UserMeta(), v)
			n++
		}
		return nil
	})
	return fmt.Sprintf("%d:%x", n, hsh.Sum(nil))
}

func verifC20Write(h *verifC20Hub, op VerifC20Op) error {
	name := "ds" + strconv.Itoa(op.Ds)
	ds, err := h.dsm.CreateDataset(name, nil)
	if err != nil {
		return err
	}
	prefix, err := h.store.NamespaceManager.AssertPrefixMappingForExpansion(verifC20NS)
	if err != nil {
		return err
	}
	e := NewEntity(prefix+":"+verifC20ID(op.K), 0)
	e.Properties[prefix+":val"] = op.V
	e.References[prefix+":ref"] = prefix + ":" + verifC20ID(op.V%6)
	e.IsDeleted = op.Del
	return ds.StoreEntities([]*Entity{e})
}

// digest of a directory tree: sorted "relpath size hash-ish" lines (content itself for small files)
func verifC20DirState(dir string) string {
	var lines []string
	_ = filepath.Walk(dir, func(p string, info os.FileInfo, err error) error {
		if err != nil || info.IsDir() {
			return nil
		}
		rel, _ := filepath.Rel(dir, p)
		hsh := sha256.New()
		if f, err := os.Open(p); err == nil {
			// the rsync copy holds Badger's pre-allocated 256 MB memtable log: only its head is ever written
			_, _ = io.Copy(hsh, io.LimitReader(f, 8<<20))
			f.Close()
		}
		lines = append(lines, fmt.Sprintf("%s %d %x", rel, info.Size(), hsh.Sum(nil)))
		return nil
	})
	sort.Strings(lines)
	return strings.Join(lines, "\n")
}

var verifC20RsyncOnce sync.Once

// Cases that fork child processes (rsync mode) run alone: between fork and exec a child shares the open file
// descriptions of every store of the process, including Badger's flock'ed LOCK files, and a restart in another
// worker at that moment fails with "Cannot acquire directory lock".
var verifC20ExecMu sync.RWMutex

// A stand-in `rsync` first on PATH: a two-line shell script that re-executes this driver binary with
// `--rsync-standin <args...>`; VerifC20RsyncStandIn below does the work.
func verifC20RsyncStandIn(scratch string) {
	verifC20RsyncOnce.Do(func() {
		bin := filepath.Join(scratch, "c20bin")
		_ = os.MkdirAll(bin, 0o755)
		self, _ := os.Executable()
		script := "#!/bin/sh\nexec \"" + self + "\" --rsync-standin \"$@\"\n"
		_ = os.WriteFile(filepath.Join(bin, "rsync"), []byte(script), 0o755)
		_ = os.Setenv("PATH", bin+string(os.PathListSeparator)+os.Getenv("PATH"))
	})
}

// VerifC20RsyncStandIn behaves like `rsync [flags] SRC DEST` for a directory SRC without trailing slash:
// DEST/<base of SRC> becomes a copy of SRC.  Flags are parsed, never positional: every word starting with "-" is a
// flag, the last two other words are SRC and DEST; unknown flags are accepted.  Honoured: --delete (files and
// directories below DEST/<base> that SRC does not have are removed) and --append (rsync's documented rule: a file
// whose size on the receiver is the same or larger is skipped; a shorter one gets the sender's tail appended).
// Without --append every file is transferred (real rsync's size+mtime quick check is not emulated).  Zero blocks
// become holes (Badger preallocates its memtable log).  If <parent of DEST>/rsync.fail exists it is removed and the
// exit status is 24, as for "some files vanished before they could be transferred".  Returns the exit status.
func VerifC20RsyncStandIn(args []string) int {
	var words []string
	doAppend, doDelete := false, false
	for _, a := range args {
		if strings.HasPrefix(a, "-") {
			switch a {
			case "--append", "--append-verify":
				doAppend = true
			case "--delete", "--del", "--delete-before", "--delete-during", "--delete-after":
				doDelete = true
			}
			continue
		}
		words = append(words, a)
	}
	if len(words) < 2 {
		fmt.Fprintln(os.Stderr, "rsync stand-in: need SRC and DEST")
		return 1
	}
	src, dest := words[len(words)-2], words[len(words)-1]
	ctl := filepath.Join(filepath.Dir(filepath.Clean(dest)), "rsync.fail")
	if _, err := os.Stat(ctl); err == nil {
		_ = os.Remove(ctl)
		fmt.Fprintln(os.Stderr, "rsync warning: some files vanished before they could be transferred (code 24)")
		return 24
	}
	target := filepath.Join(dest, filepath.Base(filepath.Clean(src)))
	if err := os.MkdirAll(target, 0o755); err != nil {
		return 11
	}
	have := map[string]bool{}
	rc := 0
	_ = filepath.Walk(src, func(p string, info os.FileInfo, err error) error {
		if err != nil {
			rc = 23
			return nil
		}
		rel, _ := filepath.Rel(src, p)
		have[rel] = true
		to := filepath.Join(target, rel)
		if info.IsDir() {
			_ = os.MkdirAll(to, 0o755)
			return nil
		}
		if !info.Mode().IsRegular() {
			return nil
		}
		from := int64(0)
		if doAppend {
			if st, err := os.Stat(to); err == nil {
				if st.Size() >= info.Size() {
					return nil // same size or longer on the receiver: skipped
				}
				from = st.Size()
			}
		}
		if err := verifC20CopyFile(p, to, from, info.Size()); err != nil {
			rc = 23
		}
		return nil
	})
	if doDelete {
		var extra []string
		_ = filepath.Walk(target, func(p string, info os.FileInfo, err error) error {
			if err != nil {
				return nil
			}
			rel, _ := filepath.Rel(target, p)
			if !have[rel] {
				extra = append(extra, p)
			}
			return nil
		})
		for i := len(extra) - 1; i >= 0; i-- {
			_ = os.RemoveAll(extra[i])
		}
	}
	return rc
}

// copy src[from:size] to dst at the same offsets; dst ends up with exactly `size` bytes; zero blocks are not written
func verifC20CopyFile(src, dst string, from, size int64) error {
	in, err := os.Open(src)
	if err != nil {
		return err
	}
	defer in.Close()
	flags := os.O_WRONLY | os.O_CREATE
	if from == 0 {
		flags |= os.O_TRUNC
	}
	out, err := os.OpenFile(dst, flags, 0o644)
	if err != nil {
		return err
	}
	defer out.Close()
	buf := make([]byte, 1<<20)
	zero := make([]byte, 1<<20)
	for off := from; off < size; {
		n, err := in.ReadAt(buf[:min(int64(len(buf)), size-off)], off)
		if n > 0 {
			if !bytesEqual(buf[:n], zero[:n]) {
				if _, werr := out.WriteAt(buf[:n], off); werr != nil {
					return werr
				}
			}
			off += int64(n)
		}
		if err != nil {
			if err == io.EOF {
				break
			}
			return err
		}
	}
	return out.Truncate(size)
}

func bytesEqual(a, b []byte) bool {
	if len(a) != len(b) {
		return false
	}
	for i := range a {
		if a[i] != b[i] {
			return false
		}
	}
	return true
}

func verifC20FileSize(p string) int64 {
	st, err := os.Stat(p)
	if err != nil {
		return -1
	}
	return st.Size()
}

func verifC20DiskCursor(bdir string) int64 {
	b, err := os.ReadFile(filepath.Join(bdir, "datahub-backup.lastseen"))
	if err != nil || len(b) < 8 {
		return -1
	}
	var v uint64
	for i := 7; i >= 0; i-- {
		v = v<<8 | uint64(b[i])
	}
	return int64(v)
}

// run one backup through the scheduler's entry point
func verifC20Backup(bm *BackupManager) (code int) {
	if bm.isRunning {
		code = 4
	} else {
		code = 1
	}
	defer func() {
		if r := recover(); r != nil {
			if strings.Contains(fmt.Sprint(r), "invalid backup location") {
				code = 2
			} else {
				code = 3
			}
		}
	}()
	bm.Run()
	return code
}

func firstDiff(a, b string) string {
	la, lb := strings.Split(a, "\n"), strings.Split(b, "\n")
	for i := 0; i < len(la) || i < len(lb); i++ {
		x, y := "", ""
		if i < len(la) {
			x = la[i]
		}
		if i < len(lb) {
			y = lb[i]
		}
		if x != y {
			if len(x) > 300 {
				x = x[:300]
			}
			if len(y) > 300 {
				y = y[:300]
			}
			return "snapshot: " + x + " | restored: " + y
		}
	}
	return ""
}

// VerifC20Run executes one history on a fresh store under dir.
func VerifC20Run(c VerifC20Case, dir string) (obs VerifC20Obs) {
	if c.Rsync {
		verifC20ExecMu.Lock()
		defer verifC20ExecMu.Unlock()
	} else {
		verifC20ExecMu.RLock()
		defer verifC20ExecMu.RUnlock()
	}
	_ = os.RemoveAll(dir)
	src := filepath.Join(dir, "src")
	bdir := filepath.Join(dir, "bak")
	rdir := filepath.Join(dir, "restored")
	_ = os.MkdirAll(src, 0o755)
	defer os.RemoveAll(dir)
	obs.Outcome = "ok"
	obs.MaxV, obs.Cursor, obs.Disk, obs.Bres, obs.Grew = []uint64{}, []uint64{}, []int64{}, []int{}, []bool{}
	var h *verifC20Hub
	defer func() {
		if r := recover(); r != nil {
			obs.Outcome = "panic"
			obs.Detail = fmt.Sprint(r)
		}
		if h != nil {
			h.store.Close()
		}
	}()
	obs.LocID, obs.Touched = []*string{}, []bool{}
	obs.SidV, obs.Running, obs.DiskRaw, obs.Post = []string{}, []bool{}, [][]int{}, [][]uint64{}
	if c.Rsync {
		verifC20RsyncStandIn(filepath.Dir(dir))
	}
	if c.Foreign {
		_ = os.MkdirAll(bdir, 0o755)
		_ = os.WriteFile(filepath.Join(bdir, StorageIDFileName), []byte(c.LocID0), 0o644)
		_ = os.WriteFile(filepath.Join(bdir, "datahub-backup.kv"), []byte("somebody else's backup"), 0o644)
		_ = os.WriteFile(filepath.Join(bdir, "datahub-backup.lastseen"), []byte{9, 0, 0, 0, 0, 0, 0, 0}, 0o644)
	}
	bsl := ""
	switch c.Bsl {
	case "same":
		bsl = src
	case "empty":
		bsl = filepath.Join(dir, "emptydir")
		_ = os.MkdirAll(bsl, 0o755)
	case "other":
		bsl = filepath.Join(dir, "oldstore")
		_ = os.MkdirAll(bsl, 0o755)
		_ = os.WriteFile(filepath.Join(bsl, StorageIDFileName), []byte(c.BslID), 0o644)
	}
	if c.Sid != nil {
		// Store.Open only generates the id file when it is missing and nothing else interprets its content
		_ = os.WriteFile(filepath.Join(src, StorageIDFileName), []byte(*c.Sid), 0o644)
	}
	var err error
	h, err = verifC20Open(src, bdir, c.Rsync, bsl)
	if err != nil {
		obs.Outcome = "setup-error"
		obs.Detail = err.Error()
		return
	}
	if b, err := os.ReadFile(filepath.Join(src, StorageIDFileName)); err == nil {
		obs.Sid = string(b)
	}
	kv := filepath.Join(bdir, "datahub-backup.kv")
	dirBefore := verifC20DirState(bdir)
	record := func(bres int, before int64) {
		if b, err := os.ReadFile(filepath.Join(bdir, StorageIDFileName)); err == nil {
			x := string(b)
			obs.LocID = append(obs.LocID, &x)
		} else {
			obs.LocID = append(obs.LocID, nil)
		}
		now := verifC20DirState(bdir)
		obs.Touched = append(obs.Touched, now != dirBefore)
		dirBefore = now
		sb, _ := os.ReadFile(filepath.Join(src, StorageIDFileName))
		obs.SidV = append(obs.SidV, string(sb))
		obs.Running = append(obs.Running, h.bm.isRunning)
		if raw, err := os.ReadFile(filepath.Join(bdir, "datahub-backup.lastseen")); err == nil {
			ints := make([]int, len(raw))
			for i, x := range raw {
				ints[i] = int(x)
			}
			obs.DiskRaw = append(obs.DiskRaw, ints)
		} else {
			obs.DiskRaw = append(obs.DiskRaw, nil)
		}
		for len(obs.Post) < len(obs.Bres) {
			obs.Post = append(obs.Post, []uint64{})
		}
		obs.MaxV = append(obs.MaxV, h.store.database.MaxVersion())
		obs.Cursor = append(obs.Cursor, h.bm.lastID)
		obs.Disk = append(obs.Disk, verifC20DiskCursor(bdir))
		obs.Bres = append(obs.Bres, bres)
		obs.Grew = append(obs.Grew, verifC20FileSize(kv) != before)
	}
	record(0, verifC20FileSize(kv))
	var snapRows [][]int
	snapRich, snapRaw, restRaw := "", "", ""
	for _, op := range c.Ops {
		before := verifC20FileSize(kv)
		switch op.Op {
		case "w":
			if err := verifC20Write(h, op); err != nil {
				obs.Outcome = "setup-error"
				obs.Detail = "write: " + err.Error()
				return
			}
			record(0, before)
		case "r":
			running := h.bm.isRunning
			_ = running
			h.store.Close()
			h = nil
			h, err = verifC20Open(src, bdir, c.Rsync, bsl)
			if err != nil {
				obs.Outcome = "setup-error"
				obs.Detail = "reopen: " + err.Error()
				return
			}
			record(0, before)
		case "i":
			_ = os.MkdirAll(bdir, 0o755)
			_ = os.WriteFile(filepath.Join(bdir, StorageIDFileName), []byte(op.ID), 0o644)
			record(0, before)
		case "x":
			_ = os.Remove(filepath.Join(bdir, StorageIDFileName))
			record(0, before)
		case "k": // delete one dataset (if it exists)
			name := "ds" + strconv.Itoa(op.Ds)
			if h.dsm.IsDataset(name) {
				if err := h.dsm.DeleteDataset(name); err != nil {
					obs.Outcome = "setup-error"
					obs.Detail = "delete dataset: " + err.Error()
					return
				}
			}
			record(0, before)
		case "d":
			if err := h.store.Delete(); err != nil {
				obs.Outcome = "setup-error"
				obs.Detail = "delete: " + err.Error()
				return
			}
			h.dsm = NewDsManager(h.cfg, h.store, NoOpBus()) // as at hub start: core.Dataset is recreated
			record(0, before)
		case "b", "c", "f":
			rows, rich := verifC20Reads(h)
			raw := verifC20Raw(h.store.database)
			stamps := []uint64{}
			if op.Op == "c" {
				hub, post := h, op.Post
				h.hook.mu.Lock()
				h.hook.fn = func() {
					for _, w := range post {
						if err := verifC20Write(hub, w); err != nil {
							return
						}
						stamps = append(stamps, hub.store.database.MaxVersion())
					}
				}
				h.hook.mu.Unlock()
			}
			ctl := filepath.Join(dir, "rsync.fail")
			if op.Op == "f" {
				_ = os.WriteFile(ctl, []byte("x"), 0o644)
			}
			code := verifC20Backup(h.bm)
			h.hook.mu.Lock()
			h.hook.fn = nil
			h.hook.mu.Unlock()
			if op.Op == "f" {
				if _, err := os.Stat(ctl); err != nil && code == 1 {
					code = 5 // the stand-in rsync ran and exited 24; Run logged the error and returned
				}
				_ = os.Remove(ctl)
			}
			if code == 1 {
				snapRows, snapRich, snapRaw = rows, rich, raw
				obs.HasSnap = true
			}
			obs.Post = append(obs.Post, stamps)
			record(code, before)
		}
	}
	obs.Snap = snapRows
	if c.Foreign {
		return // a pre-filled location holds somebody else's (opaque) backup file: nothing of ours to restore
	}
	// ---- restore
	h.store.Close()
	h = nil
	if c.Rsync {
		// rsync -avz --delete <src> <bak> copies the directory src INTO bak
		cand := filepath.Join(bdir, filepath.Base(src))
		if _, err := os.Stat(cand); err != nil {
			return
		}
		// the restore is a plain copy of <location>/<store dir> (done in process: no external command)
		if rc := VerifC20RsyncStandIn([]string{"-a", cand, filepath.Dir(rdir)}); rc != 0 || os.Rename(filepath.Join(filepath.Dir(rdir), filepath.Base(cand)), rdir) != nil {
			obs.Detail = fmt.Sprintf("restore copy failed (%d)", rc)
			return
		}
	} else {
		f, err := os.Open(kv)
		if err != nil {
			return // nothing to restore
		}
		defer f.Close()
		_ = os.MkdirAll(rdir, 0o755)
		opts := badger.DefaultOptions(rdir)
		opts.Logger = nil
		opts.ValueLogFileSize = 4 << 20
		opts.MemTableSize = 8 << 20
		opts.BlockCacheSize = 8 << 20
		opts.IndexCacheSize = 0
		db, err := badger.Open(opts)
		if err != nil {
			obs.Detail = "restore open: " + err.Error()
			return
		}
		if err := db.Load(f, 16); err != nil {
			obs.Detail = "load: " + err.Error()
			db.Close()
			return
		}
		restRaw = verifC20Raw(db)
		if err := db.Close(); err != nil {
			obs.Detail = "restore close: " + err.Error()
			return
		}
	}
	rh, err := verifC20Open(rdir, "", false, "")
	if err != nil {
		obs.Detail = "restored hub: " + err.Error()
		return
	}
	rows, rich := verifC20Reads(rh)
	rh.store.Close()
	obs.HasRest = true
	obs.Restored = rows
	obs.RichEq = obs.HasSnap && rich == snapRich
	obs.RawEq = obs.HasSnap && !c.Rsync && restRaw == snapRaw
	if obs.HasSnap && !obs.RichEq {
		obs.RichDiff = firstDiff(snapRich, rich)
	}
	return
}
