//go:build verif

// verif driver for property C20: reads one JSON case per line on stdin, writes one "@@OBS <json>" line per case
// (in input order). Cases are independent (own store / backup / restore directories), so they run on a small
// worker pool; VERIF_C20_WORKERS overrides the pool size.
package main

import (
	"bufio"
	"encoding/json"
	"fmt"
	"os"
	"runtime/debug"
	"strconv"
	"sync"
	"syscall"
	"time"

	"github.com/mimiro-io/datahub/internal/server"
)

func main() {
	if len(os.Args) > 1 && os.Args[1] == "--rsync-standin" {
		// invoked through the stand-in `rsync` script the driver puts first on PATH for rsync-mode cases
		time.AfterFunc(60*time.Second, func() { os.Exit(30) }) // rsync's "timeout in data send/receive"
		os.Exit(server.VerifC20RsyncStandIn(os.Args[2:]))
	}
	dir := os.Args[1]
	// every store open allocates a 128 MB memtable (hard-coded in Store.Open): keep the heap small and fail fast
	// instead of eating the machine if something leaks
	debug.SetMemoryLimit(1200 << 20)
	debug.SetGCPercent(25)
	asLimit := uint64(16) << 30
	if v, err := strconv.ParseUint(os.Getenv("VERIF_C20_AS_LIMIT"), 10, 64); err == nil && v > 0 {
		asLimit = v
	}
	_ = syscall.Setrlimit(syscall.RLIMIT_AS, &syscall.Rlimit{Cur: asLimit, Max: asLimit})
	workers := 2
	if w, err := strconv.Atoi(os.Getenv("VERIF_C20_WORKERS")); err == nil && w > 0 {
		workers = w
	}
	in := bufio.NewScanner(os.Stdin)
	in.Buffer(make([]byte, 1<<20), 1<<26)
	var cases []server.VerifC20Case
	for in.Scan() {
		var c server.VerifC20Case
		if err := json.Unmarshal(in.Bytes(), &c); err != nil {
			fmt.Fprintln(os.Stderr, "bad case:", err)
			os.Exit(2)
		}
		cases = append(cases, c)
	}
	results := make([][]byte, len(cases))
	done := make([]chan struct{}, len(cases))
	for i := range done {
		done[i] = make(chan struct{})
	}
	next := make(chan int)
	var wg sync.WaitGroup
	for w := 0; w < workers; w++ {
		wg.Add(1)
		go func() {
			defer wg.Done()
			for i := range next {
				obs := server.VerifC20Run(cases[i], fmt.Sprintf("%s/c%d", dir, i))
				results[i], _ = json.Marshal(obs)
				close(done[i])
			}
		}()
	}
	go func() {
		for i := range cases {
			next <- i
		}
		close(next)
	}()
	out := bufio.NewWriter(os.Stdout)
	for i := range cases {
		<-done[i]
		out.WriteString("@@OBS ")
		out.Write(results[i])
		out.WriteString("\n")
		out.Flush()
	}
	wg.Wait()
}
