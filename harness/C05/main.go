//go:build verif

// verif driver for property C05.  Parent mode: reads one JSON case per line on stdin and runs
// every case in a CHILD process (re-exec) under a watchdog, because a deadlocked process must be
// killed; prints one "@@OBS <json>" line per case.  Child mode (argv[1] == "--child"): runs the
// single case given on stdin in directory argv[2].
package main

import (
	"bufio"
	"bytes"
	"encoding/json"
	"fmt"
	"os"
	"os/exec"
	"strings"
	"syscall"
	"time"

	"github.com/mimiro-io/datahub/internal/server"
)

func child(dir string) {
	in := bufio.NewReader(os.Stdin)
	var c server.VerifC05Case
	if err := json.NewDecoder(in).Decode(&c); err != nil {
		fmt.Fprintln(os.Stderr, "bad case:", err)
		os.Exit(2)
	}
	obs, cleanup := server.VerifC05Run(c, dir)
	b, _ := json.Marshal(obs)
	os.Stdout.WriteString("@@OBS " + string(b) + "\n")
	if obs.Outcome == "hang" {
		// goroutines are stuck holding badger resources: leave without closing
		server.VerifC05Cleanup(dir)
		os.Exit(0)
	}
	// the observation is out; closing the store is not part of the property: bound it
	done := make(chan struct{})
	go func() { cleanup(); close(done) }()
	select {
	case <-done:
	case <-time.After(30 * time.Second):
		fmt.Fprintln(os.Stderr, "store.Close did not return within 30s; leaving")
		server.VerifC05Cleanup(dir)
		os.Exit(0)
	}
}

func runCase(line []byte, cdir string) string {
	cmd := exec.Command(os.Args[0], "--child", cdir)
	cmd.Stdin = bytes.NewReader(line)
	var so, se bytes.Buffer
	cmd.Stdout = &so
	cmd.Stderr = &se
	res := ""
	if err := cmd.Start(); err != nil {
		res = fmt.Sprintf(`{"outcome":"died","detail":%q}`, err.Error())
	} else {
		done := make(chan error, 1)
		go func() { done <- cmd.Wait() }()
		select {
		case err := <-done:
			for _, l := range strings.Split(so.String(), "\n") {
				if strings.HasPrefix(l, "@@OBS ") {
					res = l[6:]
				}
			}
			if res == "" {
				d := se.String()
				if len(d) > 600 {
					d = d[len(d)-600:]
				}
				res = fmt.Sprintf(`{"outcome":"died","detail":%q}`, fmt.Sprint(err)+" "+d)
			}
		case <-time.After(300 * time.Second):
			// dump the goroutine stacks of the child (SIGQUIT), then make sure it is gone
			_ = cmd.Process.Signal(syscall.SIGQUIT)
			select {
			case <-done:
			case <-time.After(10 * time.Second):
				_ = cmd.Process.Kill()
				<-done
			}
			d := se.String()
			if i := strings.Index(d, "goroutine 1 ["); i >= 0 {
				d = d[i:]
			}
			if len(d) > 6000 {
				d = d[:6000]
			}
			res = fmt.Sprintf(`{"outcome":"hang","detail":%q}`, "child killed by the outer watchdog; stacks: "+d)
		}
	}
	_ = os.RemoveAll(cdir)
	return res
}

func main() {
	if len(os.Args) >= 3 && os.Args[1] == "--child" {
		child(os.Args[2])
		return
	}
	dir := os.Args[1]
	par := 4
	if v := os.Getenv("VERIF_C05_PAR"); v != "" {
		fmt.Sscan(v, &par)
	}
	in := bufio.NewScanner(os.Stdin)
	in.Buffer(make([]byte, 1<<20), 1<<26)
	var lines [][]byte
	for in.Scan() {
		lines = append(lines, append([]byte(nil), in.Bytes()...))
	}
	res := make([]chan string, len(lines))
	sem := make(chan struct{}, par)
	for i := range lines {
		res[i] = make(chan string, 1)
		go func(i int) {
			sem <- struct{}{}
			r := runCase(lines[i], fmt.Sprintf("%s/c%d", dir, i))
			if strings.Contains(r, "child killed by the outer watchdog") {
				// no observation was produced (the child reports hangs of the observed region itself):
				// infrastructure failure outside the region under observation - run the case once more
				fmt.Fprintln(os.Stderr, "case", i, "killed by the outer watchdog without an observation; retrying once:", r)
				r = runCase(lines[i], fmt.Sprintf("%s/c%dr", dir, i))
			}
			res[i] <- r
			<-sem
		}(i)
	}
	out := bufio.NewWriter(os.Stdout)
	defer out.Flush()
	for i := range lines {
		out.WriteString("@@OBS " + <-res[i] + "\n")
		out.Flush()
	}
}
