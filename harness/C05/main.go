//go:build verif

// verif driver for property C05.  Parent mode: reads one JSON case per line on stdin and runs
// every case in a CHILD process (re-exec) under a watchdog, because a deadlocked process must be
// killed; prints one "@@OBS <json>" line per case.  Child mode (argv[1] == "--child"): runs the
// single case given on stdin in directory argv[2].
package main

import (
	"bufio"
	"bytes"
	"encoding/json"
	"fmt"
	"os"
	"os/exec"
	"strings"
	"time"

	"github.com/mimiro-io/datahub/internal/server"
)

func child(dir string) {
	in := bufio.NewReader(os.Stdin)
	var c server.VerifC05Case
	if err := json.NewDecoder(in).Decode(&c); err != nil {
		fmt.Fprintln(os.Stderr, "bad case:", err)
		os.Exit(2)
	}
	obs := server.VerifC05Run(c, dir)
	b, _ := json.Marshal(obs)
	os.Stdout.WriteString("@@OBS " + string(b) + "\n")
	if obs.Outcome == "hang" {
		// goroutines are stuck holding badger resources: leave without closing
		server.VerifC05Cleanup(dir)
		os.Exit(0)
	}
}

func runCase(line []byte, cdir string) string {
	cmd := exec.Command(os.Args[0], "--child", cdir)
	cmd.Stdin = bytes.NewReader(line)
	var so, se bytes.Buffer
	cmd.Stdout = &so
	cmd.Stderr = &se
	res := ""
	if err := cmd.Start(); err != nil {
		res = fmt.Sprintf(`{"outcome":"died","detail":%q}`, err.Error())
	} else {
		done := make(chan error, 1)
		go func() { done <- cmd.Wait() }()
		select {
		case err := <-done:
			for _, l := range strings.Split(so.String(), "\n") {
				if strings.HasPrefix(l, "@@OBS ") {
					res = l[6:]
				}
			}
			if res == "" {
				d := se.String()
				if len(d) > 600 {
					d = d[len(d)-600:]
				}
				res = fmt.Sprintf(`{"outcome":"died","detail":%q}`, fmt.Sprint(err)+" "+d)
			}
		case <-time.After(300 * time.Second):
			_ = cmd.Process.Kill()
			<-done
			res = `{"outcome":"hang","detail":"child killed by the outer watchdog"}`
		}
	}
	_ = os.RemoveAll(cdir)
	return res
}

func main() {
	if len(os.Args) >= 3 && os.Args[1] == "--child" {
		child(os.Args[2])
		return
	}
	dir := os.Args[1]
	par := 4
	if v := os.Getenv("VERIF_C05_PAR"); v != "" {
		fmt.Sscan(v, &par)
	}
	in := bufio.NewScanner(os.Stdin)
	in.Buffer(make([]byte, 1<<20), 1<<26)
	var lines [][]byte
	for in.Scan() {
		lines = append(lines, append([]byte(nil), in.Bytes()...))
	}
	res := make([]chan string, len(lines))
	sem := make(chan struct{}, par)
	for i := range lines {
		res[i] = make(chan string, 1)
		go func(i int) {
			sem <- struct{}{}
			res[i] <- runCase(lines[i], fmt.Sprintf("%s/c%d", dir, i))
			<-sem
		}(i)
	}
	out := bufio.NewWriter(os.Stdout)
	defer out.Flush()
	for i := range lines {
		out.WriteString("@@OBS " + <-res[i] + "\n")
		out.Flush()
	}
}
