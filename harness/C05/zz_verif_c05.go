//go:build verif

// Injected into package server by `go build -overlay` (never committed to /repo).
// Drives the real write path (Dataset.StoreEntities, Store.ExecuteTransaction, DsManager
// Create/Update/DeleteDataset) from N goroutines and records the lock trace through the
// verifhook points, for property C05.
package server

import (
	"bytes"
	"fmt"
	"os"
	"runtime"
	"sort"
	"strconv"
	"strings"
	"sync"
	"sync/atomic"
	"time"

	"github.com/DataDog/datadog-go/v5/statsd"
	"go.uber.org/zap"

	"github.com/mimiro-io/datahub/internal/conf"
	"github.com/mimiro-io/datahub/internal/verifhook"
)

type VerifC05Part struct {
	D   int  `json:"d"`   // dataset code: d%03d ; -2 = core.Dataset
	New int  `json:"new"` // number of new entities
	Upd bool `json:"upd"` // rewrite this thread's own (pre-created) entity in d
	Mrg bool `json:"mrg"` // rewrite the group's merged-read entity in d
	Hot bool `json:"hot"` // rewrite the dataset's shared entity h<d> (written by every client)
	As  int  `json:"as"`  // the name the dataset has when the op runs, if it was renamed after the handle was obtained (names the shared entity)
}

type VerifC05Op struct {
	T     string         `json:"t"` // batch | batchh (through the handle this client got from create) | txn | txnfail | create | rename | delete
	D     int            `json:"d"`
	To    int            `json:"to"`
	Parts []VerifC05Part `json:"parts"`
	Grp   int            `json:"grp"` // merged-read entity id for Mrg parts
	After [][2]int       `json:"after"` // do not start before client [0] has finished its op [1]
	Reuse int            `json:"reuse"` // txn: > 0 = execute through this client's long-lived *Transaction object number Reuse, refilled per call
	Held0 bool           `json:"held0"` // do not start before client 0 is held at the gate's hook point
	Sync  int            `json:"sync"`  // > 0: spin until all clients have reached their op with this round number
	// setns: write dataset D's meta entity with new publicNamespaces into core.Dataset
	// upload: parse a JSON body whose @context introduces the namespace of round Sync and store its one entity into Parts[0].D
}

type VerifC05Case struct {
	Kind     string         `json:"kind"`  // mix | forced | coretxn
	Procs    int            `json:"procs"` // GOMAXPROCS
	Nds      int            `json:"nds"`   // shared datasets d001..d<nds>
	Versions int            `json:"versions"` // setup: entity ns3:many gets this many versions in d001; readers look it up in a loop
	Twins    int            `json:"twins"` // further shared datasets dX00,dx00 .. : pairs of names that differ only in case
	Groups   [][]int        `json:"groups"`
	Threads  [][]VerifC05Op `json:"threads"`
	Readers  int            `json:"readers"`
	Attempts int            `json:"attempts"` // forced: maximum number of attempts
	Watch    []int          `json:"watch"`    // further dataset codes (created during the run) whose feeds are reported
	Gate     string         `json:"gate"`     // "" | race (hold client 0 at its first lock.wait until client 1 is done) | barrier (both clients meet at their first lock.wait on #dsm)
}

// one lock event: [tid, op index, kind (0 wait,1 acquired,2 release,3 updateDataset done), lock code]
type VerifC05Ev [4]int

type VerifC05RunObs struct {
	Outcome string         `json:"outcome"` // ok | hang | setup-error
	Cycle   bool           `json:"cycle"`   // the handler saw a wait-for cycle
	Events  []VerifC05Ev   `json:"events"`
	Errs    [][]string     `json:"errs"` // per thread per op: "" or error text
	Feeds   map[string][]int `json:"feeds"`
	Snaps   [][3]int       `json:"snaps"` // [dataset code, length, is-prefix-of-final-feed]
	Times   map[string][]int `json:"times"` // per dataset: rank of the recorded time of each feed entry
	Looks   [][4]int       `json:"looks"` // [dataset, k of the last feed entry of an entity, k of the scoped lookup, k in the listing]
	Dups    int            `json:"dups"`  // namespace expansions with more than one prefix + uploaded URIs listed more than once
	Torn    int            `json:"torn"`  // merged reads whose per-dataset parts disagree
	AtTorn  int            `json:"attorn"`  // point-in-time merged reads (at the recorded instant of a part) whose parts disagree
	AtReads int            `json:"atreads"`
	Reads   int            `json:"reads"`
	Detail  string         `json:"detail"`
}

type VerifC05Obs struct {
	Outcome string        `json:"outcome"`
	Runs    []VerifC05RunObs `json:"runs"`
	Detail  string        `json:"detail"`
}

const (
	vc05Dsm  = -1
	vc05Core = -2
)

// dataset codes and names; the byte order of the names is the numeric order of the codes:
// d001..d999 < dX00..dX99 (codes 1000+j) < dx00..dx99 (codes 2000+j); dXjj / dxjj differ only in case.
func vc05Name(code int) string {
	switch {
	case code == vc05Core:
		return datasetCore
	case code >= 2000:
		return fmt.Sprintf("dx%02d", code-2000)
	case code >= 1000:
		return fmt.Sprintf("dX%02d", code-1000)
	}
	return fmt.Sprintf("d%03d", code)
}

func vc05Code(name string) int {
	switch {
	case name == "#dsm":
		return vc05Dsm
	case name == datasetCore:
		return vc05Core
	case len(name) == 4 && name[0] == 'd' && (name[1] == 'X' || name[1] == 'x'):
		if n, err := strconv.Atoi(name[2:]); err == nil {
			if name[1] == 'X' {
				return 1000 + n
			}
			return 2000 + n
		}
	case len(name) == 4 && name[0] == 'd':
		if n, err := strconv.Atoi(name[1:]); err == nil {
			return n
		}
	}
	return -99
}

func vc05Gid() uint64 {
	var buf [64]byte
	b := buf[:runtime.Stack(buf[:], false)]
	b = bytes.TrimPrefix(b, []byte("goroutine "))
	if i := bytes.IndexByte(b, ' '); i > 0 {
		n, _ := strconv.ParseUint(string(b[:i]), 10, 64)
		return n
	}
	return 0
}

type vc05Rec struct {
	mu     sync.Mutex
	tids   sync.Map // goroutine id -> tid
	curop  []int32
	events []VerifC05Ev
	// wait-for bookkeeping (under mu)
	holder  map[int]int
	waiting map[int]int
	cycle   bool
	// forced schedule: pause thread 0 after its first acquisition until thread 1 is parked
	forced    bool
	gate      string
	gateSeen  [2]bool
	bothAt    chan struct{}
	t0Has     chan struct{}
	t1Parked  chan struct{}
	t0HasOnce sync.Once
	t1Once    sync.Once
}

func (r *vc05Rec) handle(name, arg string) {
	if name == "batch.afterCommit" || name == "batch.beforeIdCommit" {
		if (r.gate == "nsrace" && name == "batch.afterCommit" && arg != datasetCore) ||
			(r.gate == "renrace" && name == "batch.beforeIdCommit" && arg != datasetCore) {
			if v, ok := r.tids.Load(vc05Gid()); ok && v.(int) == 0 {
				first := false
				r.t0HasOnce.Do(func() { first = true; close(r.t0Has) })
				if first {
					<-r.t1Parked
				}
			}
		}
		return
	}
	kind := -1
	switch name {
	case "lock.wait":
		kind = 0
	case "lock.acquired":
		kind = 1
	case "lock.release":
		kind = 2
	case "txn.afterUpdateDataset":
		kind = 3
	default:
		return
	}
	tid := -1
	if v, ok := r.tids.Load(vc05Gid()); ok {
		tid = v.(int)
	}
	lk := vc05Code(arg)
	opi := -1
	if tid >= 0 {
		opi = int(atomic.LoadInt32(&r.curop[tid]))
	}
	park := false
	pause := false
	r.mu.Lock()
	r.events = append(r.events, VerifC05Ev{tid, opi, kind, lk})
	switch kind {
	case 0:
		r.waiting[tid] = lk
		if h, held := r.holder[lk]; held {
			if h == tid {
				r.cycle = true
			} else if w, ok := r.waiting[h]; ok {
				if h2, held2 := r.holder[w]; held2 && h2 == tid {
					r.cycle = true
				}
			}
			if (r.forced || r.gate == "renrace") && tid == 1 && h == 0 {
				park = true
			}
		}
	case 1:
		delete(r.waiting, tid)
		r.holder[lk] = tid
		if r.forced && tid == 0 {
			pause = true
		}
		if r.gate == "nsrace" && tid == 1 && lk == vc05Core {
			park = true // client 1 is inside core.Dataset's critical section: let the held batch go for it
		}
	case 2:
		delete(r.holder, lk)
	}
	r.mu.Unlock()
	if park {
		r.t1Once.Do(func() { close(r.t1Parked) })
	}
	if kind == 0 && r.gate == "race" && tid == 0 {
		first := false
		r.t0HasOnce.Do(func() { first = true; close(r.t0Has) })
		if first {
			<-r.t1Parked // client 1 has finished its operations
		}
	}
	if kind == 0 && r.gate == "barrier" && lk == vc05Dsm && (tid == 0 || tid == 1) {
		r.mu.Lock()
		first := !r.gateSeen[tid]
		r.gateSeen[tid] = true
		both := r.gateSeen[0] && r.gateSeen[1]
		r.mu.Unlock()
		if first {
			if both {
				close(r.bothAt)
			}
			<-r.bothAt
		}
	}
	if pause {
		first := false
		r.t0HasOnce.Do(func() { first = true; close(r.t0Has) })
		if first {
			<-r.t1Parked
		}
	}
}

func vc05Shared(c VerifC05Case) []int {
	var l []int
	for d := 1; d <= c.Nds; d++ {
		l = append(l, d)
	}
	for j := 0; j < c.Twins; j++ {
		l = append(l, 1000+j, 2000+j)
	}
	return l
}

type vc05Env struct {
	store   *Store
	dsm     *DsManager
	c       VerifC05Case
	txns    []map[int]*Transaction // per client: long-lived transaction objects
	handles []map[int]*Dataset // per client: the dataset objects CreateDataset handed to it
	rounds  [64]int32          // arrivals per sync round
	doneMu  sync.Mutex
	doneCv  *sync.Cond
	done    []int // per client: number of finished ops
}

func vc05Ent(id string, k int) *Entity {
	e := NewEntity(id, 0)
	e.Properties["ns3:k"] = k
	return e
}

func (env *vc05Env) partEntities(tid, k int, p VerifC05Part, grp int) []*Entity {
	var es []*Entity
	for j := 0; j < p.New; j++ {
		es = append(es, vc05Ent(fmt.Sprintf("ns3:e%d_%d_%d", k, j, p.D+10), k))
	}
	if p.Upd {
		es = append(es, vc05Ent(fmt.Sprintf("ns3:u%d_%d", tid, p.D), k))
	}
	if p.Hot {
		n := p.D
		if p.As != 0 {
			n = p.As
		}
		es = append(es, vc05Ent(fmt.Sprintf("ns3:h%d", n), k))
	}
	if p.Mrg {
		e := NewEntity(fmt.Sprintf("ns3:m%d", grp), 0)
		e.Properties["ns3:k"] = k
		e.Properties[fmt.Sprintf("ns3:k%d", p.D)] = k
		es = append(es, e)
	}
	return es
}

func (env *vc05Env) runOp(tid, k int, op VerifC05Op) error {
	switch op.T {
	case "batch":
		p := op.Parts[0]
		ds := env.dsm.GetDataset(vc05Name(p.D))
		if ds == nil {
			return fmt.Errorf("no dataset %s", vc05Name(p.D))
		}
		return ds.StoreEntities(env.partEntities(tid, k, p, op.Grp))
	case "batchh":
		p := op.Parts[0]
		ds := env.handles[tid][p.D]
		if ds == nil {
			return fmt.Errorf("no handle for %s", vc05Name(p.D))
		}
		return ds.StoreEntities(env.partEntities(tid, k, p, op.Grp))
	case "txn", "txnfail":
		txn := &Transaction{DatasetEntities: map[string][]*Entity{}}
		if op.Reuse > 0 {
			// what a JS transform with a top-level `var txn = NewTransaction()` does: one object, refilled per call
			if env.txns[tid][op.Reuse] == nil {
				env.txns[tid][op.Reuse] = txn
			}
			txn = env.txns[tid][op.Reuse]
			txn.DatasetEntities = map[string][]*Entity{}
		}
		for _, p := range op.Parts {
			txn.DatasetEntities[vc05Name(p.D)] = env.partEntities(tid, k, p, op.Grp)
		}
		return env.store.ExecuteTransaction(txn)
	case "setns":
		info, err := env.store.NamespaceManager.GetDatasetNamespaceInfo()
		if err != nil {
			return err
		}
		e, err := env.store.GetEntity(info.DatasetPrefix+":"+vc05Name(op.D), []string{datasetCore}, true)
		if err != nil || e == nil {
			return fmt.Errorf("no meta entity for %s: %v", vc05Name(op.D), err)
		}
		e.Properties[info.PublicNamespacesKey] = []string{fmt.Sprintf("http://v/public/%d/", k)}
		return env.dsm.GetDataset(datasetCore).StoreEntities([]*Entity{e})
	case "upload":
		ds := env.dsm.GetDataset(vc05Name(op.Parts[0].D))
		if ds == nil {
			return fmt.Errorf("no dataset %s", vc05Name(op.Parts[0].D))
		}
		body := fmt.Sprintf(`[ {"id":"@context","namespaces":{"p":"http://v/burst/%d/"}}, {"id":"p:thing","props":{"p:k":%d},"refs":{}} ]`, op.Sync, k)
		var batch []*Entity
		if err := NewEntityStreamParser(env.store).ParseStream(strings.NewReader(body), func(ent *Entity) error {
			batch = append(batch, ent)
			return nil
		}); err != nil {
			return err
		}
		return ds.StoreEntities(batch)
	case "create":
		ds, err := env.dsm.CreateDataset(vc05Name(op.D), nil)
		if ds != nil {
			env.handles[tid][op.D] = ds
		}
		return err
	case "rename":
		_, err := env.dsm.UpdateDataset(vc05Name(op.D), &UpdateDatasetConfig{ID: vc05Name(op.To)})
		return err
	case "delete":
		return env.dsm.DeleteDataset(vc05Name(op.D))
	}
	return fmt.Errorf("unknown op %s", op.T)
}

// vc05K is the marker an entity carries: its property <prefix>:k
func vc05K(e *Entity) int {
	if e == nil {
		return -1
	}
	for key, v := range e.Properties {
		if strings.HasSuffix(key, ":k") {
			if f, ok := v.(float64); ok {
				return int(f)
			}
			if n, ok := v.(int); ok {
				return n
			}
		}
	}
	return -1
}

type vc05Entry struct {
	m   int
	rec uint64
	id  string
	iid uint64
}

func vc05Entries(ds *Dataset, since int) ([]vc05Entry, error) {
	ch, err := ds.GetChanges(0, 0, false)
	if err != nil {
		return nil, err
	}
	out := make([]vc05Entry, 0, len(ch.Entities))
	for i, e := range ch.Entities {
		if i < since {
			continue
		}
		m := -1
		if ds.ID == datasetCore {
			if j := strings.LastIndexByte(e.ID, ':'); j >= 0 {
				m = vc05Code(e.ID[j+1:])
			}
		}
		if m < 0 {
			m = vc05K(e)
		}
		out = append(out, vc05Entry{m, e.Recorded, e.ID, e.InternalID})
	}
	return out, nil
}

func vc05Markers(ds *Dataset, since int) ([]int, error) {
	es, err := vc05Entries(ds, since)
	if err != nil {
		return nil, err
	}
	out := make([]int, len(es))
	for i, e := range es {
		out[i] = e.m
	}
	return out, nil
}

// vc05Setup opens a fresh store and creates the shared datasets with the entities the ops rewrite.
func vc05Setup(c VerifC05Case, dir string) (*vc05Env, func(), error) {
	_ = os.MkdirAll(dir, 0o755)
	cfg := &conf.Config{Logger: zap.NewNop().Sugar(), StoreLocation: dir}
	store := NewStore(cfg, &statsd.NoOpClient{})
	dsm := NewDsManager(cfg, store, NoOpBus())
	env := &vc05Env{store: store, dsm: dsm, c: c}
	cleanup := func() { _ = store.Close(); _ = os.RemoveAll(dir) }
	for _, d := range vc05Shared(c) {
		ds, err := dsm.CreateDataset(vc05Name(d), nil)
		if err != nil {
			return env, cleanup, err
		}
		var es []*Entity
		es = append(es, vc05Ent(fmt.Sprintf("ns3:h%d", d), 0))
		for t := range c.Threads {
			es = append(es, vc05Ent(fmt.Sprintf("ns3:u%d_%d", t, d), 0))
		}
		for g, grp := range c.Groups {
			for _, gd := range grp {
				if gd == d {
					e := NewEntity(fmt.Sprintf("ns3:m%d", g), 0)
					e.Properties["ns3:k"] = 0
					e.Properties[fmt.Sprintf("ns3:k%d", d)] = 0
					es = append(es, e)
				}
			}
		}
		if len(es) > 0 {
			if err := ds.StoreEntities(es); err != nil {
				return env, cleanup, err
			}
		}
		if d == 1 && c.Versions > 0 {
			var vs []*Entity
			for i := 0; i < c.Versions; i++ {
				vs = append(vs, vc05Ent("ns3:many", -i-2))
				if len(vs) == 1000 || i == c.Versions-1 {
					if err := ds.StoreEntities(vs); err != nil {
						return env, cleanup, err
					}
					vs = nil
				}
			}
		}
	}
	return env, cleanup, nil
}

// vc05Execute runs the threads of the case once on env; watchdog = how long without completion counts as a hang.
func vc05Execute(env *vc05Env, threads [][]VerifC05Op, kbase int, forced bool, watchdog time.Duration) (run VerifC05RunObs) {
	const confirm = 1200 * time.Millisecond
	const stall = 30 * time.Second
	c := env.c
	rec := &vc05Rec{curop: make([]int32, len(threads)), holder: map[int]int{}, waiting: map[int]int{},
		forced: forced, gate: c.Gate, bothAt: make(chan struct{}), t0Has: make(chan struct{}), t1Parked: make(chan struct{})}
	env.doneCv = sync.NewCond(&env.doneMu)
	env.done = make([]int, len(threads))
	env.rounds = [64]int32{}
	env.txns = make([]map[int]*Transaction, len(threads))
	for t := range threads {
		env.txns[t] = map[int]*Transaction{}
	}
	env.handles = make([]map[int]*Dataset, len(threads))
	for t := range threads {
		env.handles[t] = map[int]*Dataset{}
	}
	// feed offsets after setup
	offs := map[int]int{}
	dsl := append([]int{vc05Core}, vc05Shared(c)...)
	shared := vc05Shared(c)
	for _, d := range dsl {
		ms, err := vc05Markers(env.dsm.GetDataset(vc05Name(d)), 0)
		if err != nil {
			run.Outcome = "setup-error"
			run.Detail = err.Error()
			return
		}
		offs[d] = len(ms)
	}
	verifhook.SetHandler(rec.handle)
	defer verifhook.SetHandler(nil)

	run.Errs = make([][]string, len(threads))
	var wg sync.WaitGroup
	start := make(chan struct{})
	for t := range threads {
		run.Errs[t] = make([]string, len(threads[t]))
		wg.Add(1)
		go func(t int) {
			defer wg.Done()
			rec.tids.Store(vc05Gid(), t)
			<-start
			if (forced || c.Gate == "race" || c.Gate == "nsrace") && t == 1 {
				<-rec.t0Has
			}
			for i, op := range threads[t] {
				for _, a := range op.After {
					env.doneMu.Lock()
					for env.done[a[0]] <= a[1] {
						env.doneCv.Wait()
					}
					env.doneMu.Unlock()
				}
				if op.Held0 {
					<-rec.t0Has
				}
				if op.Sync > 0 && op.Sync < len(env.rounds) {
					atomic.AddInt32(&env.rounds[op.Sync], 1)
					for int(atomic.LoadInt32(&env.rounds[op.Sync])) < len(threads) {
						runtime.Gosched()
					}
				}
				atomic.StoreInt32(&rec.curop[t], int32(i))
				if err := env.runOp(t, kbase+t*1000+i+1, op); err != nil {
					run.Errs[t][i] = err.Error()
				}
				env.doneMu.Lock()
				env.done[t] = i + 1
				env.doneCv.Broadcast()
				env.doneMu.Unlock()
			}
			if (forced || c.Gate == "race" || c.Gate == "nsrace" || c.Gate == "renrace") && t == 1 {
				rec.t1Once.Do(func() { close(rec.t1Parked) })
			}
		}(t)
	}
	// readers: whole-feed snapshots and merged lookups while the writers run
	type snap struct {
		d  int
		ms []int
	}
	var rmu sync.Mutex
	var snaps []snap
	torn, reads := 0, 0
	stop := make(chan struct{})
	var rwg sync.WaitGroup
	for r := 0; r < c.Readers; r++ {
		rwg.Add(1)
		go func(r int) {
			defer rwg.Done()
			<-start
			n := 0
			for {
				select {
				case <-stop:
					return
				default:
				}
				if len(shared) > 0 {
					d := shared[(n+r)%len(shared)]
					ms, err := vc05Markers(env.dsm.GetDataset(vc05Name(d)), offs[d])
					if err == nil {
						rmu.Lock()
						if len(snaps) < 400 {
							snaps = append(snaps, snap{d, ms})
						}
						rmu.Unlock()
					}
				}
				if c.Versions > 0 {
					for i := 0; i < 20; i++ {
						_, _ = env.store.GetEntity("ns3:many", nil, true)
					}
				}
				for g, grp := range c.Groups {
					e, err := env.store.GetEntity(fmt.Sprintf("ns3:m%d", g), nil, true)
					if err != nil || e == nil {
						continue
					}
					first, bad := -1.0, false
					for _, gd := range grp {
						v, ok := e.Properties[fmt.Sprintf("ns3:k%d", gd)].(float64)
						if !ok {
							bad = true
						} else if first < 0 {
							first = v
						} else if v != first {
							bad = true
						}
					}
					rmu.Lock()
					reads++
					if bad {
						torn++
					}
					rmu.Unlock()
				}
				n++
				runtime.Gosched()
			}
		}(r)
	}
	done := make(chan struct{})
	go func() { wg.Wait(); close(done) }()
	close(start)
	// a hang is declared when the handler has seen a wait-for cycle and no lock event has happened for
	// `confirm`, or when nothing completes within the (generous) watchdog
	hang := false
	deadline := time.After(watchdog)
	tick := time.NewTicker(25 * time.Millisecond)
	lastN, lastChange := -1, time.Now()
wait:
	for {
		select {
		case <-done:
			break wait
		case <-deadline:
			hang = true
			break wait
		case <-tick.C:
			rec.mu.Lock()
			n, cyc := len(rec.events), rec.cycle
			blocked := false
			for _, l := range rec.waiting {
				if _, held := rec.holder[l]; held {
					blocked = true
				}
			}
			rec.mu.Unlock()
			if n != lastN {
				lastN, lastChange = n, time.Now()
			} else if cyc && time.Since(lastChange) > confirm {
				hang = true
				break wait
			} else if blocked && time.Since(lastChange) > stall {
				// somebody waits for a lock its holder does not release and nothing has moved for a long time
				// (a lock taken without a hook point is invisible to the cycle detection)
				hang = true
				break wait
			}
		}
	}
	tick.Stop()
	close(stop)
	if !hang {
		rwg.Wait()
	} else {
		time.Sleep(20 * time.Millisecond)
	}
	rec.mu.Lock()
	run.Events = append([]VerifC05Ev(nil), rec.events...)
	run.Cycle = rec.cycle
	rec.mu.Unlock()
	if hang {
		run.Outcome = "hang"
		return
	}
	run.Outcome = "ok"
	run.Feeds = map[string][]int{}
	run.Times = map[string][]int{}
	final := map[int][]int{}
	for _, w := range c.Watch {
		if env.dsm.GetDataset(vc05Name(w)) != nil {
			dsl = append(dsl, w)
		}
	}
	entries := map[int][]vc05Entry{}
	var allrecs []uint64
	for _, d := range dsl {
		ds := env.dsm.GetDataset(vc05Name(d))
		es, err := vc05Entries(ds, offs[d])
		if err != nil {
			run.Outcome = "setup-error"
			run.Detail = err.Error()
			return
		}
		entries[d] = es
		for _, e := range es {
			allrecs = append(allrecs, e.rec)
		}
	}
	// recorded times as dense ranks over ALL datasets (the parts of one transaction must carry one instant)
	sort.Slice(allrecs, func(i, j int) bool { return allrecs[i] < allrecs[j] })
	rank := map[uint64]int{}
	for _, v := range allrecs {
		if _, ok := rank[v]; !ok {
			rank[v] = len(rank)
		}
	}
	mergedAt := map[string]map[uint64]uint64{} // merged-read entity id -> recorded instants -> internal id
	for _, d := range dsl {
		es := entries[d]
		ms := make([]int, len(es))
		tr := make([]int, len(es))
		lastOf := map[string]int{}
		var ids []string
		for i, e := range es {
			ms[i] = e.m
			tr[i] = rank[e.rec]
			if _, seen := lastOf[e.id]; !seen {
				ids = append(ids, e.id)
			}
			lastOf[e.id] = e.m
			if strings.HasPrefix(e.id, "ns3:m") && e.iid != 0 {
				if mergedAt[e.id] == nil {
					mergedAt[e.id] = map[uint64]uint64{}
				}
				mergedAt[e.id][e.rec] = e.iid
			}
		}
		final[d] = ms
		run.Feeds[strconv.Itoa(d)] = ms
		run.Times[strconv.Itoa(d)] = tr
		if d != vc05Core {
			sort.Strings(ids)
			listing := map[string]int{}
			if ds := env.dsm.GetDataset(vc05Name(d)); ds != nil {
				if res, err := ds.GetEntities("", -1); err == nil {
					things := 0
					for _, le := range res.Entities {
						listing[le.ID] = vc05K(le)
						if strings.HasSuffix(le.ID, ":thing") {
							things++
						}
					}
					uris := map[string]bool{}
					for _, id := range ids {
						if strings.HasSuffix(id, ":thing") {
							if u, err := env.store.ExpandCurie(id); err == nil {
								uris[u] = true
							} else {
								uris[id] = true
							}
						}
					}
					if things > len(uris) {
						run.Dups += things - len(uris)
					}
				}
			}
			for _, id := range ids {
				got := -1
				e, err := env.store.GetEntity(id, []string{vc05Name(d)}, true)
				if err == nil && e != nil {
					got = vc05K(e)
				}
				lk, ok := listing[id]
				if !ok {
					lk = -1
				}
				run.Looks = append(run.Looks, [4]int{d, lastOf[id], got, lk})
			}
		}
	}
	// one prefix per namespace expansion
	perExp := map[string]int{}
	for _, exp := range env.store.NamespaceManager.GetPrefixToExpansionMap() {
		perExp[exp]++
	}
	for _, n := range perExp {
		if n > 1 {
			run.Dups += n - 1
		}
	}
	// point-in-time lookups of every merged-read entity at every instant one of its parts was recorded:
	// a transaction is visible entirely or not at all
	for g, grp := range c.Groups {
		for at, iid := range mergedAt[fmt.Sprintf("ns3:m%d", g)] {
			e, err := env.store.GetEntityAtPointInTimeWithInternalID(iid, int64(at), nil, true)
			if err != nil || e == nil {
				continue
			}
			first, bad := -1.0, false
			for _, gd := range grp {
				v, ok := e.Properties[fmt.Sprintf("ns3:k%d", gd)].(float64)
				if !ok {
					bad = true
				} else if first < 0 {
					first = v
				} else if v != first {
					bad = true
				}
			}
			run.AtReads++
			if bad {
				run.AtTorn++
			}
		}
	}
	rmu.Lock()
	defer rmu.Unlock()
	for _, s := range snaps {
		isp := 0
		f := final[s.d]
		if len(s.ms) <= len(f) {
			isp = 1
			for i := range s.ms {
				if s.ms[i] != f[i] {
					isp = 0
					break
				}
			}
		}
		run.Snaps = append(run.Snaps, [3]int{s.d, len(s.ms), isp})
	}
	sort.Slice(run.Snaps, func(i, j int) bool {
		a, b := run.Snaps[i], run.Snaps[j]
		if a[0] != b[0] {
			return a[0] < b[0]
		}
		if a[1] != b[1] {
			return a[1] < b[1]
		}
		return a[2] < b[2]
	})
	// distinct only
	var ds [][3]int
	for i, s := range run.Snaps {
		if i == 0 || s != run.Snaps[i-1] {
			ds = append(ds, s)
		}
	}
	run.Snaps = ds
	run.Torn, run.Reads = torn, reads
	return
}

// VerifC05Run executes one case on a fresh store under dir (call it in a child process: a deadlocked
// process cannot be recovered).  The observation is complete when it returns; the returned function closes
// the store and removes the directory (the caller prints the observation first and bounds the time it gives
// to that clean-up: closing is not part of the property).
func VerifC05Run(c VerifC05Case, dir string) (obs VerifC05Obs, cleanup func()) {
	if c.Procs > 0 {
		runtime.GOMAXPROCS(c.Procs)
	}
	env, cleanup, err := vc05Setup(c, dir)
	if err != nil {
		obs.Outcome = "setup-error"
		obs.Detail = err.Error()
		return
	}
	switch c.Kind {
	case "forced":
		n := c.Attempts
		if n <= 0 {
			n = 1
		}
		obs.Outcome = "ok"
		for a := 0; a < n; a++ {
			run := vc05Execute(env, c.Threads, (a+1)*10000, true, 90*time.Second)
			obs.Runs = append(obs.Runs, run)
			if run.Outcome != "ok" {
				obs.Outcome = run.Outcome
				break
			}
		}
	case "coretxn", "gated":
		run := vc05Execute(env, c.Threads, 0, false, 90*time.Second)
		obs.Runs = []VerifC05RunObs{run}
		obs.Outcome = run.Outcome
	default:
		run := vc05Execute(env, c.Threads, 0, false, 90*time.Second)
		obs.Runs = []VerifC05RunObs{run}
		obs.Outcome = run.Outcome
	}
	return
}

// VerifC05Cleanup removes the store directory of a case whose process is about to be abandoned.
func VerifC05Cleanup(dir string) { _ = os.RemoveAll(dir) }
