//go:build verif

// verif driver for the store-core properties: one JSON history per stdin line -> one "@@OBS <json>" line.
package main

import (
	"bufio"
	"encoding/json"
	"fmt"
	"os"

	"github.com/mimiro-io/datahub/internal/server"
	"github.com/mimiro-io/datahub/internal/web"
)

func main() {
	server.VerifC07HTTP = web.VerifC07HTTP
	dir := os.Args[1]
	in := bufio.NewScanner(os.Stdin)
	in.Buffer(make([]byte, 1<<20), 1<<28)
	out := bufio.NewWriter(os.Stdout)
	defer out.Flush()
	i := 0
	for in.Scan() {
		var c server.VerifCase
		if err := json.Unmarshal(in.Bytes(), &c); err != nil {
			fmt.Fprintln(os.Stderr, "bad case:", err)
			os.Exit(2)
		}
		obs := server.VerifC07Run(c, fmt.Sprintf("%s/c%d", dir, i))
		b, _ := json.Marshal(obs)
		out.WriteString("@@OBS ")
		out.Write(b)
		out.WriteString("\n")
		out.Flush()
		i++
	}
}
